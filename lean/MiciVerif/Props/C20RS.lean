/-
C20RS — the rounding-error theorems of `Props/C20R.lean`, transported to the definitions
GENERATED from the source of `mici/utils.py` on this run (`Generated/UtilsSrc.lean`), through the
equalities `src_*_eq_model` of `Props/C20S.lean` (which hold for every interpretation of the
primitives, hence also for `roundedPrims R`).

Property theorems (audited by name: the module is listed in `LEAN_MODULES` of harness/c20.py);
it lives under `Lemmas/` only because of the file ownership of the extension round — it can be
moved to `Props/C20RS.lean` unchanged.  A change of `utils.py` that alters a translated helper
breaks `Props/C20S` and with it every theorem here: "the source, executed in the standard model
of floating-point arithmetic, is within the proven bound of the exact function" is then no
longer shown.
-/
import MiciVerif.Props.C20S
import MiciVerif.Props.C20R

namespace MiciVerif.C20RS
open MiciVerif.LogRep MiciVerif.LogRep.XReal MiciVerif.Generated

variable {u : ℝ}

/-- The module constant `LOG_2 = log(2.0)` of the source is the rounded constant the model
compares with: the exact `log 2` times `(1 + δ)`. -/
theorem src_LOG_2_rounded (R : Rounding u) :
    UtilsSrc.LOG_2 (roundedPrims R) (.fin 2) = (roundedPrims R).log2 ∧
    (roundedPrims R).log2 = .fin (Real.log 2 * (1 + R.dLog 2)) := by
  refine ⟨?_, rfl⟩
  simp only [UtilsSrc.LOG_2]
  rw [rlog_fin R (by norm_num : (0 : ℝ) < 2)]; rfl

example : UtilsSrc.LOG_2 (roundedPrims (Rounding.exact (u := 1 / 8) (by norm_num))) (.fin 2)
    = .fin (Real.log 2 * (1 + 0)) := (src_LOG_2_rounded _).1

/-- source `log1p_exp`: relative error `≤ (3+u)u/(1-u)` on every real argument. -/
theorem src_log1p_exp_rounded (hu : u < 1) (R : Rounding u) (v : ℝ) :
    ∃ c, UtilsSrc.log1p_exp (roundedPrims R) (.fin v) = .fin c ∧
      |c - Real.log (1 + Real.exp v)| ≤ (3 + u) * u / (1 - u) * Real.log (1 + Real.exp v) := by
  rw [(C20S.src_log1p_exp_eq_model _ _).2]; exact C20R.log1pExp_rounded hu R v

example : ∃ c, UtilsSrc.log1p_exp (roundedPrims (Rounding.exact (u := 1 / 8) (by norm_num)))
    (.fin 700) = .fin c := (src_log1p_exp_rounded (by norm_num) _ _).imp fun _ h => h.1

/-- source `log1m_exp`: relative error `≤ (3+u)u/(1-u)` on every `val < 0` (however close to
`0`), `nan` for `val ≥ 0`. -/
theorem src_log1m_exp_rounded (hu : u ≤ 1 / 8) (R : Rounding u) (v : ℝ) :
    (v < 0 → ∃ c, UtilsSrc.log1m_exp (roundedPrims R) (.fin v) = .fin c ∧
      |c - Real.log (1 - Real.exp v)| ≤ (3 + u) * u / (1 - u) * |Real.log (1 - Real.exp v)|) ∧
    (0 ≤ v → UtilsSrc.log1m_exp (roundedPrims R) (.fin v) = .nan) := by
  rw [(C20S.src_log1m_exp_eq_model _ _).2]
  exact ⟨C20R.log1mExp_rounded hu R v, C20R.log1mExp_rounded_nonneg R v⟩

example : ∃ c, UtilsSrc.log1m_exp (roundedPrims (Rounding.exact (u := 1 / 8) (by norm_num)))
    (.fin (-(1 / 10 ^ 20))) = .fin c :=
  ((src_log1m_exp_rounded (by norm_num) _ _).1 (by norm_num)).imp fun _ h => h.1

/-- source `log_sum_exp`: the bound of `C20R.logSumExp_rounded`. -/
theorem src_log_sum_exp_rounded (hu : u < 1) (R : Rounding u) (a b : ℝ) :
    ∃ c, UtilsSrc.log_sum_exp (roundedPrims R) (.fin a) (.fin b) = .fin c ∧
      |c - Real.log (Real.exp a + Real.exp b)| ≤
        u * |Real.log (Real.exp a + Real.exp b)| +
        (1 + u) * (2 * u / (1 - u) * (Real.log (Real.exp a + Real.exp b) - max a b)
          + (1 + u) / (1 - u) * (u / (2 * (1 - u)))) := by
  rw [(C20S.src_log_sum_exp_eq_model _ _ _).2]; exact C20R.logSumExp_rounded hu R a b

example : ∃ c, UtilsSrc.log_sum_exp (roundedPrims (Rounding.exact (u := 1 / 8) (by norm_num)))
    (.fin 1000) (.fin (-1000)) = .fin c :=
  (src_log_sum_exp_rounded (by norm_num) _ _ _).imp fun _ h => h.1

/-- source `log_diff_exp`: the bound of `C20R.logDiffExp_rounded` for `b < a`, `-inf` for equal
values, `nan` for `a < b`. -/
theorem src_log_diff_exp_rounded (hu : u ≤ 1 / 8) (R : Rounding u) (a b : ℝ) :
    (b < a → ∃ c, UtilsSrc.log_diff_exp (roundedPrims R) (.fin a) (.fin b) = .fin c ∧
      |c - Real.log (Real.exp a - Real.exp b)| ≤
        u * |Real.log (Real.exp a - Real.exp b)| +
        (1 + u) * ((3 + u) * u / (1 - u) * |Real.log (Real.exp a - Real.exp b) - a|
          + (1 + (3 + u) * u / (1 - u)) * (u / (1 - u)))) ∧
    (a = b → UtilsSrc.log_diff_exp (roundedPrims R) (.fin a) (.fin b) = .negInf) ∧
    (a < b → UtilsSrc.log_diff_exp (roundedPrims R) (.fin a) (.fin b) = .nan) := by
  rw [(C20S.src_log_diff_exp_eq_model _ _ _).2]
  exact ⟨C20R.logDiffExp_rounded hu R a b, (C20R.logDiffExp_rounded_specials R a b).1,
    (C20R.logDiffExp_rounded_specials R a b).2⟩

example : UtilsSrc.log_diff_exp (roundedPrims (Rounding.exact (u := 1 / 8) (by norm_num)))
    (.fin 3) (.fin 3) = .negInf := (src_log_diff_exp_rounded (by norm_num) _ 3 3).2.1 rfl

/-- source `LogRepFloat.__add__/__iadd__/__mul__/__truediv__/__sub__` on two `LogRepFloat`s with
finite log-values: the log-value of the result is within the proven bounds. -/
theorem src_operators_rounded (hu : u ≤ 1 / 8) (R : Rounding u) (la lb : ℝ) :
    (∃ c, UtilsSrc.add (roundedPrims R) ⟨.fin la⟩ (.rep ⟨.fin lb⟩) = .rep ⟨.fin c⟩ ∧
      UtilsSrc.iadd (roundedPrims R) ⟨.fin la⟩ (.rep ⟨.fin lb⟩) = ⟨.fin c⟩ ∧
      |c - Real.log (Real.exp la + Real.exp lb)| ≤
        u * |Real.log (Real.exp la + Real.exp lb)| +
        (1 + u) * (2 * u / (1 - u) * (Real.log (Real.exp la + Real.exp lb) - max la lb)
          + (1 + u) / (1 - u) * (u / (2 * (1 - u))))) ∧
    (∃ c, UtilsSrc.mul (roundedPrims R) ⟨.fin la⟩ (.rep ⟨.fin lb⟩) = .rep ⟨.fin c⟩ ∧
      |c - (la + lb)| ≤ u * |la + lb|) ∧
    (∃ c, UtilsSrc.truediv (roundedPrims R) ⟨.fin la⟩ (.rep ⟨.fin lb⟩) = .rep ⟨.fin c⟩ ∧
      |c - (la - lb)| ≤ u * |la - lb|) ∧
    (lb < la → ∃ c, UtilsSrc.sub (roundedPrims R) ⟨.fin la⟩ (.rep ⟨.fin lb⟩) = .rep ⟨.fin c⟩ ∧
      |c - Real.log (Real.exp la - Real.exp lb)| ≤
        u * |Real.log (Real.exp la - Real.exp lb)| +
        (1 + u) * ((3 + u) * u / (1 - u) * |Real.log (Real.exp la - Real.exp lb) - la|
          + (1 + (3 + u) * u / (1 - u)) * (u / (1 - u)))) := by
  rw [(C20S.src_add_eq_model _ _ _).2, (C20S.src_iadd_eq_model _ _ _).2,
    (C20S.src_mul_eq_model _ _ _).2, (C20S.src_truediv_eq_model _ _ _).2,
    (C20S.src_sub_eq_model _ _ _).2]
  exact ⟨C20R.logRep_add_rounded (by linarith) R la lb, (C20R.logRep_mul_div_rounded R la lb).1,
    (C20R.logRep_mul_div_rounded R la lb).2, C20R.logRep_sub_rounded hu R la lb⟩

example : ∃ c, UtilsSrc.mul (roundedPrims (Rounding.exact (u := 1 / 8) (by norm_num)))
    ⟨.fin 800⟩ (.rep ⟨.fin 801⟩) = .rep ⟨.fin c⟩ :=
  (src_operators_rounded (by norm_num) _ _ _).2.1.imp fun _ h => h.1

end MiciVerif.C20RS
