/-
C02 (implicit part) — implicit leapfrog, implicit midpoint and constrained leapfrog steps are
time-reversible or fail loudly.

Two kinds of statements, for every field `K`, vector space `V`, system functions, solver, step size:

* `…_checked` (any solver, any tolerance predicate `far`): if a checked sub-step returns, then the
  computation the REVERSED integrator performs at the mirrored sub-step was executed inside the
  check, returned, and landed within tolerance (`far … = false`) of the pre-step value.  This is
  what "or fails loudly" means operationally: otherwise `NonReversibleStepError` /
  `ConvergenceError` is raised and `step` returns nothing.
* `…_reverse_exact` (exact solver: `solve f x = ok y → f y = y`; exact check: `far d = false ↔ d = 0`):
  if `step(ε)` returns `y` from `x` then `step(-ε)` from `y` RETURNS (does not raise) and gives back
  exactly `x`.  No uniqueness of fixed points is assumed: determinism of the solver plus the check
  suffice.

The chained bound on the n-step reversal error for non-zero tolerances is proved in
`Props/C02S.lean` (`chain_reverse_bound`, `glSteps_reverse_bound`, …) with the Lipschitz constant of
the reversed step and the per-pair defect as explicit hypotheses — see the comment at the end.
-/
import MiciVerif.Model.IntegratorsImplicit
import Mathlib.Algebra.Field.Rat
import Mathlib.Tactic.NormNum
import Mathlib.Tactic.Module
import Mathlib.Algebra.Module.Prod
import Mathlib.Algebra.Order.Field.Rat
import Mathlib.Algebra.Order.AbsoluteValue.Basic
import Mathlib.Topology.MetricSpace.Pseudo.Defs
import Mathlib.Topology.MetricSpace.Pseudo.Real
import Mathlib.Algebra.BigOperators.Intervals
import Mathlib.Tactic.Linarith

namespace MiciVerif.C02
open MiciVerif.Integrators

variable {K V : Type*} [Field K] [AddCommGroup V] [Module K V]

private theorem bind_ok.{u, v} {ε : Type u} {α β : Type v} {m : Except ε α} {k : α → Except ε β} {r : β} :
    (m >>= k) = .ok r ↔ ∃ a, m = .ok a ∧ k a = .ok r := by
  cases m <;> simp [bind, Except.bind]

private theorem ite_throw_ok {α : Type*} {c : Bool} {e : IntErr} {y r : α} :
    (if c then (throw e : Res α) else pure y) = .ok r ↔ c = false ∧ y = r := by
  cases c <;> simp [throw, throwThe, MonadExceptOf.throw, pure, Except.pure]

/-! ### Implicit leapfrog: what a passed check means -/

/-- If `_step_b_adj(t)` returns `y` from `x`, then `_step_b_fwd(-t)` from `y` — the sub-step the
reversed integrator performs — was run, returned, and its momentum is within tolerance of `x`'s. -/
theorem glStepBAdj_checked (S : GLSystem V) (solve : (V → V) → V → Res V) (far : V → Bool)
    (t : K) (x y : V × V) (h : glStepBAdj S solve far t x = .ok y) :
    y = (x.1, x.2 - t • S.dh2dq x.1 x.2) ∧
      ∃ b, glStepBFwd S solve (-t) y = .ok b ∧ far (b.2 - x.2) = false := by
  unfold glStepBAdj at h
  obtain ⟨b, hb, hc⟩ := bind_ok.mp h
  obtain ⟨hf, rfl⟩ := ite_throw_ok.mp hc
  exact ⟨rfl, b, hb, hf⟩

/-- Same for `_step_c_fwd(t)` and `_step_c_adj(-t)` (positions). -/
theorem glStepCFwd_checked (S : GLSystem V) (solve : (V → V) → V → Res V) (far : V → Bool)
    (t : K) (x y : V × V) (h : glStepCFwd S solve far t x = .ok y) :
    y = (x.1 + t • S.dh2dp x.1 x.2, x.2) ∧
      ∃ b, glStepCAdj S solve (-t) y = .ok b ∧ far (b.1 - x.1) = false := by
  unfold glStepCFwd at h
  obtain ⟨b, hb, hc⟩ := bind_ok.mp h
  obtain ⟨hf, rfl⟩ := ite_throw_ok.mp hc
  exact ⟨rfl, b, hb, hf⟩

/-! ### Implicit leapfrog: exact reversal -/

section Exact
variable (S : GLSystem V) (solve : (V → V) → V → Res V) (far : V → Bool)
  (hsolve : ∀ f x y, solve f x = .ok y → f y = y)
  (hfar0 : far 0 = false) (hfar : ∀ d, far d = false → d = 0)

include hsolve hfar0 in
private theorem glB_fwd_then_adj (h : K) (x y : V × V) (hy : glStepBFwd S solve h x = .ok y) :
    glStepBAdj S solve far (-h) y = .ok x := by
  obtain ⟨q, p⟩ := x
  unfold glStepBFwd at hy
  obtain ⟨p', hp', hy'⟩ := bind_ok.mp hy
  have hfix := hsolve _ _ _ hp'
  simp only [pure, Except.pure, Except.ok.injEq] at hy'
  subst hy'
  simp only at hfix hp'
  have e : ((q, p').1, (q, p').2 - (-h) • S.dh2dq (q, p').1 (q, p').2) = (q, p) := by
    simp only [Prod.mk.injEq, true_and]
    rw [eq_add_of_sub_eq hfix]; module
  unfold glStepBAdj
  simp only [e, neg_neg]
  have : glStepBFwd S solve h (q, p) = .ok (q, p') := by
    unfold glStepBFwd; simp only [hp']; rfl
  rw [this]
  simp [bind, Except.bind, hfar0, pure, Except.pure]

include hfar in
private theorem glB_adj_then_fwd (h : K) (x y : V × V) (hy : glStepBAdj S solve far h x = .ok y) :
    glStepBFwd S solve (-h) y = .ok x := by
  obtain ⟨rfl, b, hb, hc⟩ := glStepBAdj_checked S solve far h x y hy
  have h2 : b.2 = x.2 := sub_eq_zero.mp (hfar _ hc)
  have h1 : b.1 = x.1 := by
    unfold glStepBFwd at hb
    obtain ⟨p', _, hb'⟩ := bind_ok.mp hb
    simp only [pure, Except.pure, Except.ok.injEq] at hb'
    rw [← hb']
  rw [hb]; congr 1; exact Prod.ext h1 h2

include hsolve hfar0 in
private theorem glC_adj_then_fwd (h : K) (x y : V × V) (hy : glStepCAdj S solve h x = .ok y) :
    glStepCFwd S solve far (-h) y = .ok x := by
  obtain ⟨q, p⟩ := x
  unfold glStepCAdj at hy
  obtain ⟨q', hq', hy'⟩ := bind_ok.mp hy
  have hfix := hsolve _ _ _ hq'
  simp only [pure, Except.pure, Except.ok.injEq] at hy'
  subst hy'
  simp only at hfix hq'
  have e : ((q', p).1 + (-h) • S.dh2dp (q', p).1 (q', p).2, (q', p).2) = (q, p) := by
    simp only [Prod.mk.injEq, and_true]
    rw [eq_sub_of_add_eq hfix]; module
  unfold glStepCFwd
  simp only [e, neg_neg]
  have : glStepCAdj S solve h (q, p) = .ok (q', p) := by
    unfold glStepCAdj; simp only [hq']; rfl
  rw [this]
  simp [bind, Except.bind, hfar0, pure, Except.pure]

include hfar in
private theorem glC_fwd_then_adj (h : K) (x y : V × V) (hy : glStepCFwd S solve far h x = .ok y) :
    glStepCAdj S solve (-h) y = .ok x := by
  obtain ⟨rfl, b, hb, hc⟩ := glStepCFwd_checked S solve far h x y hy
  have h1 : b.1 = x.1 := sub_eq_zero.mp (hfar _ hc)
  have h2 : b.2 = x.2 := by
    unfold glStepCAdj at hb
    obtain ⟨q', _, hb'⟩ := bind_ok.mp hb
    simp only [pure, Except.pure, Except.ok.injEq] at hb'
    rw [← hb']
  rw [hb]; congr 1; exact Prod.ext h1 h2

private theorem glA_neg (h : K) (x : V × V) : glStepA S (-h) (glStepA S h x) = x := by
  simp [glStepA]

include hsolve hfar0 hfar in
/-- `ImplicitLeapfrogIntegrator`: with an exact solver and an exact check, if the step with `ε`
returns `y` from `x`, the step with `-ε` from `y` returns (does not raise) exactly `x`. -/
theorem glStep_reverse_exact (ε : K) (x y : V × V) (h : glStep S solve far ε x = .ok y) :
    glStep S solve far (-ε) y = .ok x := by
  unfold glStep at h
  obtain ⟨x₂, h₂, h⟩ := bind_ok.mp h
  obtain ⟨x₃, h₃, h⟩ := bind_ok.mp h
  obtain ⟨x₄, h₄, h⟩ := bind_ok.mp h
  obtain ⟨x₅, h₅, h⟩ := bind_ok.mp h
  simp only [pure, Except.pure, Except.ok.injEq] at h
  subst h
  have r₅ := glB_adj_then_fwd S solve far hfar _ _ _ h₅
  have r₄ := glC_adj_then_fwd S solve far hsolve hfar0 _ _ _ h₄
  have r₃ := glC_fwd_then_adj S solve far hfar _ _ _ h₃
  have r₂ := glB_fwd_then_adj S solve far hsolve hfar0 _ _ _ h₂
  unfold glStep
  have hneg : -ε / 2 = -(ε / 2) := by ring
  simp only [hneg, glA_neg, r₅, r₄, r₃, r₂, bind, Except.bind, pure, Except.pure]

include hsolve hfar0 hfar in
/-- API form: n steps, flip the direction, n steps (all returning) give back the start. -/
theorem glSteps_reverse_exact (ε : K) (xs : List (V × V)) (x y : V × V)
    (h : List.IsChain (fun a b => glStep S solve far ε a = .ok b) (x :: xs))
    (hy : (x :: xs).getLast (by simp) = y) :
    List.IsChain (fun a b => glStep S solve far (-ε) a = .ok b) (x :: xs).reverse ∧
      (x :: xs).reverse.head (by simp) = y := by
  constructor
  · rw [List.isChain_reverse]
    exact List.IsChain.imp (fun a b hab => glStep_reverse_exact S solve far hsolve hfar0 hfar ε a b hab) h
  · rw [List.head_reverse]; exact hy

end Exact

/-! ### Implicit midpoint -/

section Midpoint
variable {W : Type*} [AddCommGroup W] [Module K W]
variable (f : W → W) (solve : (W → W) → W → Res W) (far : W → Bool)

/-- If `_step_a_adj(t)` returns `y` from `z`, then the implicit Euler step `_step_a_fwd(-t)` from
`y` was run, returned, and landed within tolerance of `z`. -/
theorem imStepAdj_checked (t : K) (z y : W) (h : imStepAdj f solve far t z = .ok y) :
    y = z + t • f z ∧ ∃ b, imStepFwd f solve (-t) y = .ok b ∧ far (b - z) = false := by
  unfold imStepAdj at h
  obtain ⟨b, hb, hc⟩ := bind_ok.mp h
  obtain ⟨hf, rfl⟩ := ite_throw_ok.mp hc
  exact ⟨rfl, b, hb, hf⟩

/-- `ImplicitMidpointIntegrator`: exact solver + exact check ⇒ the step with `-ε` from the result
returns exactly the start. -/
theorem imStep_reverse_exact
    (hsolve : ∀ g x y, solve g x = .ok y → g y = y)
    (hfar0 : far 0 = false) (hfar : ∀ d, far d = false → d = 0)
    (ε : K) (z y : W) (h : imStep f solve far ε z = .ok y) :
    imStep f solve far (-ε) y = .ok z := by
  unfold imStep at h
  obtain ⟨z₁, h₁, h₂⟩ := bind_ok.mp h
  obtain ⟨rfl, b, hb, hc⟩ := imStepAdj_checked f solve far _ z₁ y h₂
  have hbz : b = z₁ := sub_eq_zero.mp (hfar _ hc)
  subst hbz
  have hfix : z + (ε / 2) • f b = b := hsolve _ _ _ h₁
  have hneg : -ε / 2 = -(ε / 2) := by ring
  unfold imStep
  rw [hneg, hb]
  simp only [bind, Except.bind]
  unfold imStepAdj
  have e : b + -(ε / 2) • f b = z := by rw [eq_sub_of_add_eq hfix]; module
  simp only [e, neg_neg]
  rw [show imStepFwd f solve (ε / 2) z = .ok b from h₁]
  simp [bind, Except.bind, hfar0, pure, Except.pure]

end Midpoint

/-! ### Constrained leapfrog -/

section Constrained
variable (S : ConSystem K V) (retr : K → V × V → V × V → Res (V × V)) (far : V → Bool)

omit [Module K V] in
/-- If an inner iteration of `_step_b` returns `y` from `x`, the retraction of the reversed inner
step (`h2_flow(-t)` from `y`, projection solve with `state_prev = y`) was run, returned, and its
position is within tolerance of `x`'s. -/
theorem conInner_checked (ti : K) (x y : V × V) (h : conInner S retr far ti x = .ok y) :
    (∃ r, conRetract S retr ti x x = .ok r ∧ y = conProject S r) ∧
      ∃ b, conRetract S retr (-ti) y y = .ok b ∧ far (b.1 - x.1) = false := by
  unfold conInner at h
  obtain ⟨r, hr, h⟩ := bind_ok.mp h
  obtain ⟨b, hb, hc⟩ := bind_ok.mp h
  obtain ⟨hf, rfl⟩ := ite_throw_ok.mp hc
  exact ⟨⟨r, hr, rfl⟩, b, hb, hf⟩

/-- `constrained_mom_reverse`: for the Euclidean flow `h2_flow = drift N` and a retraction that only
adds multiples of the constraint gradients at `state_prev` to the momentum BEFORE the flow
(`Π(λ)` then `Φ₂`, i.e. `retr t (drift t x) prev = drift t (x.1, x.2 + c)` with `proj prev.1 c = 0`),
position reversal implies momentum reversal: if the reversed retraction from `y` lands on `x`'s
position then projecting its momentum at that position gives back `x`'s momentum.  This is why the
code only checks positions.  Hypotheses: `N` injective, `proj q` additive, the start
momentum is in the cotangent space (`proj q p = p`), corrections are annihilated by the
projection at their base point. -/
theorem constrained_mom_reverse (N : V → V) (proj : V → V → V)
    (hNinj : Function.Injective N)
    (hPadd : ∀ q a b, proj q (a + b) = proj q a + proj q b)
    (t : K) (ht : t ≠ 0) (q p c q' p' c' : V)
    (hp : proj q p = p) (hc : proj q c = 0)
    -- forward: Π(c) at q then drift t reaches q' (p' is ANY momentum the forward step ends with):
    (hq' : q' = q + t • N (p + c))
    -- reversed retraction from (q', p'): Π(c') at q', drift (-t); lands on position q:
    (hback : q' + (-t) • N (p' + c') = q) :
    proj q (p' + c') = p := by
  subst hq'
  have h0 : t • (N (p + c) - N (p' + c')) = 0 := by
    have e : t • (N (p + c) - N (p' + c')) = (q + t • N (p + c) + -t • N (p' + c')) - q := by module
    rw [e, hback, sub_self]
  have h3 : N (p + c) = N (p' + c') := sub_eq_zero.mp ((smul_eq_zero.mp h0).resolve_left ht)
  rw [← hNinj h3, hPadd, hp, hc, add_zero]

/-- What the exact-reversal theorems assume about the constrained system and its projection solver. -/
structure ConExact (S : ConSystem K V) (retr : K → V × V → V × V → Res (V × V)) (far : V → Bool) : Prop where
  far0 : far 0 = false
  far_exact : ∀ d, far d = false → d = 0
  proj_add : ∀ q a b, S.proj q (a + b) = S.proj q a + S.proj q b
  proj_smul : ∀ q (c : K) a, S.proj q (c • a) = c • S.proj q a
  proj_idem : ∀ q a, S.proj q (S.proj q a) = S.proj q a
  /-- position reversal implies momentum reversal (see `constrained_mom_reverse` /
  `euclidean_momrev` for the Euclidean flow) -/
  momrev : ∀ (ti : K) (x r back : V × V), S.proj x.1 x.2 = x.2 →
    conRetract S retr ti x x = .ok r →
    conRetract S retr (-ti) (conProject S r) (conProject S r) = .ok back →
    back.1 = x.1 → S.proj x.1 back.2 = x.2

/-- One inner iteration of `_step_b` is exactly undone by the inner iteration with the negative
time (which returns, i.e. passes its own check), starting in the cotangent space. -/
theorem conInner_reverse_exact (hE : ConExact S retr far) (ti : K) (x y : V × V)
    (hcot : S.proj x.1 x.2 = x.2) (h : conInner S retr far ti x = .ok y) :
    conInner S retr far (-ti) y = .ok x ∧ S.proj y.1 y.2 = y.2 := by
  obtain ⟨⟨r, hr, rfl⟩, b, hb, hc⟩ := conInner_checked S retr far ti x _ h
  have hb1 : b.1 = x.1 := sub_eq_zero.mp (hE.far_exact _ hc)
  have hmom := hE.momrev ti x r b hcot hr hb hb1
  have hx : conProject S b = x := by
    unfold conProject; rw [hb1, hmom]
  refine ⟨?_, ?_⟩
  · unfold conInner
    rw [hb]
    simp only [bind, Except.bind, hx, neg_neg, hr]
    simp [conProject, hE.far0, pure, Except.pure]
  · simp [conProject, hE.proj_idem]

omit [AddCommGroup V] in
private theorem foldlM_range_reverse (F G : V × V → Res (V × V)) (P : V × V → Prop)
    (hFG : ∀ x y, P x → F x = .ok y → G y = .ok x ∧ P y) :
    ∀ (n : Nat) (x y : V × V), P x → (List.range n).foldlM (fun x _ => F x) x = .ok y →
      (List.range n).foldlM (fun x _ => G x) y = .ok x ∧ P y := by
  intro n
  induction n with
  | zero =>
    intro x y hx h
    simp only [List.range_zero, List.foldlM_nil, pure, Except.pure, Except.ok.injEq] at h ⊢
    subst h; exact ⟨rfl, hx⟩
  | succ n ih =>
    intro x y hx h
    -- forward: n iterations then one more
    rw [List.range_succ, List.foldlM_append] at h
    obtain ⟨z, hz, hlast⟩ := bind_ok.mp h
    simp only [List.foldlM_cons, List.foldlM_nil] at hlast
    obtain ⟨y', hy', hpure⟩ := bind_ok.mp hlast
    simp only [pure, Except.pure, Except.ok.injEq] at hpure
    subst hpure
    obtain ⟨hzx, hPz⟩ := ih x z hx hz
    obtain ⟨hGy, hPy⟩ := hFG z y' hPz hy'
    refine ⟨?_, hPy⟩
    -- backward: the functions ignore the index, so peel the first iteration
    have hcons : ∀ (m : Nat) (w : V × V), (List.range (m + 1)).foldlM (fun x _ => G x) w
        = G w >>= fun w' => (List.range m).foldlM (fun x _ => G x) w' := by
      intro m w
      simp only [List.range_succ_eq_map, List.foldlM_cons, List.foldlM_map]
    rw [hcons, hGy]
    simpa [bind, Except.bind] using hzx

/-- `_step_b` with any number of inner steps is exactly undone by `_step_b` with `-t`. -/
theorem conStepB_reverse_exact (hE : ConExact S retr far) (nInner : Nat) (t : K) (x y : V × V)
    (hcot : S.proj x.1 x.2 = x.2) (h : conStepB S retr far nInner t x = .ok y) :
    conStepB S retr far nInner (-t) y = .ok x ∧ S.proj y.1 y.2 = y.2 := by
  unfold conStepB at *
  rw [neg_div]
  exact foldlM_range_reverse (conInner S retr far (t / nInner)) (conInner S retr far (-(t / nInner)))
    (fun x => S.proj x.1 x.2 = x.2)
    (fun x y hx hxy => conInner_reverse_exact S retr far hE _ x y hx hxy) nInner x y hcot h

/-- `_step_a` is undone by `_step_a(-t)` on the cotangent space. -/
theorem conStepA_neg (hE : ConExact S retr far) (t : K) (x : V × V) (hcot : S.proj x.1 x.2 = x.2) :
    conStepA S (-t) (conStepA S t x) = x := by
  obtain ⟨q, p⟩ := x
  simp only at hcot
  simp only [conStepA, conProject, Prod.mk.injEq, true_and]
  rw [sub_eq_add_neg, hE.proj_add, hE.proj_idem, sub_eq_add_neg, hE.proj_add, hcot, ← neg_smul,
    ← neg_smul, hE.proj_smul, hE.proj_smul]
  simp

/-- `ConstrainedLeapfrogIntegrator`: with an exact check and a projection solver for which position
reversal implies momentum reversal, a returning step from a point of the cotangent bundle is undone
— exactly, and without raising — by the step with `-ε`; the result is again in the cotangent space. -/
theorem conStep_reverse_exact (hE : ConExact S retr far) (nInner : Nat) (ε : K) (x y : V × V)
    (hcot : S.proj x.1 x.2 = x.2) (h : conStep S retr far nInner ε x = .ok y) :
    conStep S retr far nInner (-ε) y = .ok x := by
  unfold conStep at h
  obtain ⟨x₂, h₂, h⟩ := bind_ok.mp h
  simp only [pure, Except.pure, Except.ok.injEq] at h
  subst h
  have hcot₁ : S.proj (conStepA S (1 / 2 * ε) x).1 (conStepA S (1 / 2 * ε) x).2
      = (conStepA S (1 / 2 * ε) x).2 := by simp [conStepA, conProject, hE.proj_idem]
  obtain ⟨hB, hcot₂⟩ := conStepB_reverse_exact S retr far hE nInner ε _ _ hcot₁ h₂
  unfold conStep
  have hneg : 1 / 2 * -ε = -(1 / 2 * ε) := by ring
  simp only [hneg, conStepA_neg S retr far hE _ _ hcot₂, hB, bind, Except.bind, pure, Except.pure,
    conStepA_neg S retr far hE _ _ hcot]

/-- The `momrev` hypothesis holds for the Euclidean flow `h2_flow = drift N` (N injective) whenever
the projection solver has the documented form `Φ₂(t) ∘ Π(λ)` with `Π(λ)` adding to the momentum a
vector annihilated by the cotangent projection at `state_prev` (a combination of constraint
gradients there), and `t ≠ 0`. -/
theorem euclidean_momrev (N : V → V) (dh1 : V → V) (proj : V → V → V)
    (retr : K → V × V → V × V → Res (V × V))
    (hNinj : Function.Injective N)
    (hPadd : ∀ q a b, proj q (a + b) = proj q a + proj q b)
    (hretr : ∀ t x r, retr t (drift N t x) x = .ok r →
      ∃ c, proj x.1 c = 0 ∧ r = drift N t (x.1, x.2 + c))
    (ti : K) (hti : ti ≠ 0) (x r back : V × V) (hcot : proj x.1 x.2 = x.2)
    (hr : conRetract (ConSystem.mk dh1 (drift N) proj : ConSystem K V) retr ti x x = .ok r)
    (hb : conRetract (ConSystem.mk dh1 (drift N) proj : ConSystem K V) retr (-ti) (conProject (ConSystem.mk dh1 (drift N) proj : ConSystem K V) r)
      (conProject (ConSystem.mk dh1 (drift N) proj : ConSystem K V) r) = .ok back)
    (hb1 : back.1 = x.1) : proj x.1 back.2 = x.2 := by
  obtain ⟨c, hc, rfl⟩ := hretr ti x r hr
  obtain ⟨c', _, rfl⟩ := hretr (-ti) _ back hb
  simp only [drift, conProject] at hb1 ⊢
  exact constrained_mom_reverse N proj hNinj hPadd ti hti x.1 x.2 c _ _ c' hcot hc rfl hb1

end Constrained

/-! ### What a returning fixed-point solve guarantees -/

/-- `solve_fixed_point_direct`: if it returns `y` then `y = func(x')` for the previous iterate `x'`
with `norm(y - x') < convergence_tol` (an approximate fixed point); otherwise `ConvergenceError`.
With `convergence_tol → 0` this is the exact-solver hypothesis of the `…_reverse_exact` theorems. -/
theorem solveDirect_returns {K V : Type*} [Field K] [LinearOrder K] [Sub V]
    (norm : V → K) (ctol dtol : K) (fuel : Nat) (f : V → V) (x0 y : V)
    (h : solveDirect norm ctol dtol fuel f x0 = .ok y) :
    ∃ x', y = f x' ∧ norm (y - x') < ctol := by
  induction fuel generalizing x0 with
  | zero => simp [solveDirect] at h
  | succ fuel ih =>
    unfold solveDirect at h
    simp only at h
    split at h
    · simp at h
    · split at h
      · rename_i hlt
        simp only [Except.ok.injEq] at h
        subst h
        exact ⟨x0, rfl, hlt⟩
      · exact ih _ h

example : solveDirect (K := ℚ) (V := ℚ) (fun d => |d|) (1 / 10) 1000 6 (fun x => x / 2 + 1) 0
    = .ok (31 / 16) := by
  norm_num [solveDirect, abs_lt]

/-! ### Non-vacuity -/

/-- An exact solver for a contraction on ℚ, a passing step and its exact reversal: implicit
midpoint for `h = (q² + p²)/2` in the scalar form `f z = -z` … the solver returns the true fixed
point of `y ↦ z + t f y`, i.e. `y = z / (1 + t)`. -/
example :
    let f : ℚ → ℚ := fun z => -z
    let solve : (ℚ → ℚ) → ℚ → Res ℚ := fun g _ => .ok (g 0 / (1 - (g 1 - g 0)))  -- exact for affine g
    let far : ℚ → Bool := fun d => d != 0
    imStep (K := ℚ) f solve far (1 / 2) 1 = .ok (3 / 5) ∧ imStep (K := ℚ) f solve far (-(1 / 2)) (3 / 5) = .ok 1 := by
  constructor <;>
    (simp only [imStep, imStepFwd, imStepAdj, bind, Except.bind, pure, Except.pure]; norm_num)

/-- Implicit leapfrog with a genuinely non-separable `h₂ = q²/2 + qp/2 + p²/2`, `h₁ = q²/2`, the
exact solver for affine fixed-point maps and the exact check: the step moves the point and the
step with the negative step size returns exactly. -/
example :
    let S : GLSystem ℚ := ⟨fun q => q, fun q p => q + p / 2, fun q p => q / 2 + p⟩
    let solve : (ℚ → ℚ) → ℚ → Res ℚ := fun g _ => .ok (g 0 / (1 - (g 1 - g 0)))
    let far : ℚ → Bool := fun d => d != 0
    glStep (K := ℚ) S solve far (1 / 2) (1, 1) = .ok (97 / 63, -8 / 21) ∧
      glStep (K := ℚ) S solve far (-(1 / 2)) (97 / 63, -8 / 21) = .ok (1, 1) := by
  constructor <;>
    (simp only [glStep, glStepA, glStepBFwd, glStepBAdj, glStepCFwd, glStepCAdj, bind, Except.bind,
      pure, Except.pure]; norm_num)

/-- The hypotheses on `far` are satisfiable: the exact check `d ≠ 0`. -/
example : (fun d : ℚ => d != 0) 0 = false ∧ ∀ d : ℚ, (fun d : ℚ => d != 0) d = false → d = 0 := by
  constructor
  · simp
  · intro d h; simpa using h

/-- `ConExact` is satisfiable by a genuine constrained system: the plane `ℚ²` with the linear
constraint `q₁ = 0`, unit metric, cotangent projection `p ↦ (0, p₂)`, the exact retraction, the
exact check. -/
example : ConExact (K := ℚ) (V := ℚ × ℚ)
    ⟨fun q => q, drift (fun p => p), fun _ p => (0, p.2)⟩
    (fun _ xf _ => .ok ((0, xf.1.2), (0, xf.2.2))) (fun d => d != 0) where
  far0 := by simp
  far_exact := by intro d h; simpa using h
  proj_add := by intros; simp
  proj_smul := by intros; simp
  proj_idem := by intros; simp
  momrev := by
    intro ti x r back hcot hr hb _
    simp only [conRetract, drift, Except.ok.injEq] at hr hb
    subst hr
    simp only [conProject] at hb
    subst hb
    simpa using hcot

/-! ### Chained reversal bound (non-zero tolerances)

In a pseudo-metric space, if the reverse step is `L`-Lipschitz and every forward/reverse pair returns
within `δ` on the states visited, then `n` forward steps followed by `n` reverse steps return within
`δ·(1 + L + … + L^(n-1))` of the start.  The Lipschitz constant of the reverse step and the per-pair
defect `δ` are explicit HYPOTHESES (they depend on the user's model functions, the step size and the
solver / reverse-check tolerances; the code establishes the per-sub-step facts `…_checked`).  Forms:
relational core (partial steps), total maps, the API form "n steps, `dir *= -1`, n steps",
`Except`-valued steps with the instances implicit leapfrog / implicit midpoint / constrained leapfrog. -/

section Chain
variable {X : Type*} [PseudoMetricSpace X]

/-- Core (relational, so that partial steps are covered).  `x 0, …, x n` are the states of the forward
pass, `y n = x n, y (n-1), …, y 0` those of the reverse pass (`Rev (y (k+1)) (y k)`: one reverse step).
If `Rev` is `L`-Lipschitz and from every forward state `x (k+1)` a reverse step lands within `δ` of
`x k`, the reverse pass ends within `δ (1 + L + … + L^(n-1))` of the start. -/
theorem chain_reverse_bound (Rev : X → X → Prop) (L δ : ℝ) (hL0 : 0 ≤ L)
    (hLip : ∀ a b a' b', Rev a a' → Rev b b' → dist a' b' ≤ L * dist a b)
    (n : ℕ) (x y : ℕ → X) (hyn : y n = x n)
    (hy : ∀ k < n, Rev (y (k + 1)) (y k))
    (hpair : ∀ k < n, ∃ z, Rev (x (k + 1)) z ∧ dist z (x k) ≤ δ) :
    dist (y 0) (x 0) ≤ δ * ∑ i ∈ Finset.range n, L ^ i := by
  have key : ∀ m, m ≤ n → dist (y (n - m)) (x (n - m)) ≤ δ * ∑ i ∈ Finset.range m, L ^ i := by
    intro m
    induction m with
    | zero => intro _; simp [hyn]
    | succ m ih =>
      intro hm
      have hk : n - (m + 1) < n := by omega
      have hk1 : n - (m + 1) + 1 = n - m := by omega
      obtain ⟨z, hz, hzd⟩ := hpair _ hk
      have hstep := hLip _ _ _ _ (hy _ hk) hz
      rw [hk1] at hstep hz
      have ih' := ih (by omega)
      have h1 : dist (y (n - (m + 1))) (x (n - (m + 1))) ≤
          dist (y (n - (m + 1))) z + dist z (x (n - (m + 1))) := dist_triangle _ _ _
      have h2 : L * dist (y (n - m)) (x (n - m)) ≤ L * (δ * ∑ i ∈ Finset.range m, L ^ i) :=
        mul_le_mul_of_nonneg_left ih' hL0
      have h3 : ∑ i ∈ Finset.range (m + 1), L ^ i = L * ∑ i ∈ Finset.range m, L ^ i + 1 := by
        rw [Finset.sum_range_succ', Finset.mul_sum]
        simp [pow_succ, mul_comm]
      rw [h3]
      nlinarith [h1, h2, hstep, hzd]
  simpa using key n le_rfl

/-- Total forward / reverse maps: `R^[n] (F^[n] x)` is within `δ (1 + L + … + L^(n-1))` of `x`. -/
theorem iterate_reverse_bound (F R : X → X) (L δ : ℝ) (hL0 : 0 ≤ L)
    (hLip : ∀ a b, dist (R a) (R b) ≤ L * dist a b) (n : ℕ) (x : X)
    (hpair : ∀ k < n, dist (R (F (F^[k] x))) (F^[k] x) ≤ δ) :
    dist (R^[n] (F^[n] x)) x ≤ δ * ∑ i ∈ Finset.range n, L ^ i := by
  have := chain_reverse_bound (fun a a' => a' = R a) L δ hL0
    (by rintro a b _ _ rfl rfl; exact hLip a b) n (fun k => F^[k] x) (fun k => R^[n - k] (F^[n] x))
    (by simp)
    (by
      intro k hk
      have : n - k = (n - (k + 1)) + 1 := by omega
      simp only [this, Function.iterate_succ_apply'])
    (by
      intro k hk
      exact ⟨_, rfl, by simpa [Function.iterate_succ_apply'] using hpair k hk⟩)
  simpa using this

omit [PseudoMetricSpace X] in
private theorem steps_x_dir {K : Type*} [Field K] (stepT : K → X → X) (ε : K) (n : ℕ) (s : State X K) :
    (steps stepT ε n s).x = (stepT (s.dir * ε))^[n] s.x ∧ (steps stepT ε n s).dir = s.dir := by
  induction n with
  | zero => exact ⟨rfl, rfl⟩
  | succ n ih =>
    unfold steps at *
    rw [Function.iterate_succ_apply', Function.iterate_succ_apply']
    simp only [step, ih.1, ih.2, and_self]

/-- API form: `integrator.step` n times, `state.dir *= -1`, `integrator.step` n times.  Hypotheses: the
step with the reversed direction is `L`-Lipschitz, and on each of the n states visited the pair
"step, reversed step" returns within `δ`.  Conclusion: the final state is within
`δ (1 + L + … + L^(n-1))` of the start.  (`δ = 0` gives back `steps_reverse_x`.) -/
theorem steps_reverse_bound {K : Type*} [Field K] (stepT : K → X → X) (ε : K) (L δ : ℝ) (hL0 : 0 ≤ L)
    (s : State X K)
    (hLip : ∀ a b, dist (stepT (-s.dir * ε) a) (stepT (-s.dir * ε) b) ≤ L * dist a b) (n : ℕ)
    (hpair : ∀ k < n, dist (stepT (-s.dir * ε) (stepT (s.dir * ε) ((stepT (s.dir * ε))^[k] s.x)))
      ((stepT (s.dir * ε))^[k] s.x) ≤ δ) :
    dist (steps stepT ε n (flipDir (steps stepT ε n s))).x s.x ≤ δ * ∑ i ∈ Finset.range n, L ^ i := by
  rw [(steps_x_dir stepT ε n _).1]
  simp only [flipDir, (steps_x_dir stepT ε n s).1, (steps_x_dir stepT ε n s).2]
  exact iterate_reverse_bound _ _ L δ hL0 hLip n s.x hpair

/-- `Except`-valued steps (an `IntegratorError` aborts): forward trajectory `x 0 … x n` with step size
`ε`, reverse trajectory `y n = x n, …, y 0` with step size `-ε`, all steps returning.  If the `-ε`
step is `L`-Lipschitz where it returns, and from every `x (k+1)` it returns within `δ` of `x k`, then
`dist (y 0) (x 0) ≤ δ (1 + L + … + L^(n-1))`. -/
theorem res_steps_reverse_bound {K : Type*} [Field K] (stepR : K → X → Res X) (ε : K) (L δ : ℝ)
    (hL0 : 0 ≤ L)
    (hLip : ∀ a b a' b', stepR (-ε) a = .ok a' → stepR (-ε) b = .ok b' → dist a' b' ≤ L * dist a b)
    (n : ℕ) (x y : ℕ → X) (hyn : y n = x n)
    (hy : ∀ k < n, stepR (-ε) (y (k + 1)) = .ok (y k))
    (hpair : ∀ k < n, ∃ z, stepR (-ε) (x (k + 1)) = .ok z ∧ dist z (x k) ≤ δ) :
    dist (y 0) (x 0) ≤ δ * ∑ i ∈ Finset.range n, L ^ i :=
  chain_reverse_bound (fun a a' => stepR (-ε) a = .ok a') L δ hL0 hLip n x y hyn hy hpair

/-- Instance: `ImplicitLeapfrogIntegrator` (any solver, any tolerance predicate). -/
theorem glSteps_reverse_bound {K V : Type*} [Field K] [AddCommGroup V] [Module K V]
    [PseudoMetricSpace (V × V)] (S : GLSystem V) (solve : (V → V) → V → Res V) (far : V → Bool)
    (ε : K) (L δ : ℝ) (hL0 : 0 ≤ L)
    (hLip : ∀ a b a' b', glStep S solve far (-ε) a = .ok a' → glStep S solve far (-ε) b = .ok b' →
      dist a' b' ≤ L * dist a b)
    (n : ℕ) (x y : ℕ → V × V) (hyn : y n = x n)
    (hy : ∀ k < n, glStep S solve far (-ε) (y (k + 1)) = .ok (y k))
    (hpair : ∀ k < n, ∃ z, glStep S solve far (-ε) (x (k + 1)) = .ok z ∧ dist z (x k) ≤ δ) :
    dist (y 0) (x 0) ≤ δ * ∑ i ∈ Finset.range n, L ^ i :=
  res_steps_reverse_bound (glStep S solve far) ε L δ hL0 hLip n x y hyn hy hpair

/-- Instance: `ImplicitMidpointIntegrator`. -/
theorem imSteps_reverse_bound {K W : Type*} [Field K] [AddCommGroup W] [Module K W]
    [PseudoMetricSpace W] (f : W → W) (solve : (W → W) → W → Res W) (far : W → Bool)
    (ε : K) (L δ : ℝ) (hL0 : 0 ≤ L)
    (hLip : ∀ a b a' b', imStep f solve far (-ε) a = .ok a' → imStep f solve far (-ε) b = .ok b' →
      dist a' b' ≤ L * dist a b)
    (n : ℕ) (x y : ℕ → W) (hyn : y n = x n)
    (hy : ∀ k < n, imStep f solve far (-ε) (y (k + 1)) = .ok (y k))
    (hpair : ∀ k < n, ∃ z, imStep f solve far (-ε) (x (k + 1)) = .ok z ∧ dist z (x k) ≤ δ) :
    dist (y 0) (x 0) ≤ δ * ∑ i ∈ Finset.range n, L ^ i :=
  res_steps_reverse_bound (imStep f solve far) ε L δ hL0 hLip n x y hyn hy hpair

/-- Instance: `ConstrainedLeapfrogIntegrator` (any number of inner steps, any projection solver). -/
theorem conSteps_reverse_bound {K V : Type*} [Field K] [AddCommGroup V] [Module K V]
    [PseudoMetricSpace (V × V)] (S : ConSystem K V) (retr : K → V × V → V × V → Res (V × V))
    (far : V → Bool) (nInner : ℕ) (ε : K) (L δ : ℝ) (hL0 : 0 ≤ L)
    (hLip : ∀ a b a' b', conStep S retr far nInner (-ε) a = .ok a' →
      conStep S retr far nInner (-ε) b = .ok b' → dist a' b' ≤ L * dist a b)
    (n : ℕ) (x y : ℕ → V × V) (hyn : y n = x n)
    (hy : ∀ k < n, conStep S retr far nInner (-ε) (y (k + 1)) = .ok (y k))
    (hpair : ∀ k < n, ∃ z, conStep S retr far nInner (-ε) (x (k + 1)) = .ok z ∧ dist z (x k) ≤ δ) :
    dist (y 0) (x 0) ≤ δ * ∑ i ∈ Finset.range n, L ^ i :=
  res_steps_reverse_bound (conStep S retr far nInner) ε L δ hL0 hLip n x y hyn hy hpair

/-- Non-vacuity, and the bound is SHARP: on `ℝ`, forward step `F x = x/2 + 1`, reverse step
`R y = 2y − 2 + 1/100` (a reverse step that misses by `δ = 1/100`, Lipschitz constant `L = 2`); after
2 + 2 steps the error is exactly `δ (1 + L) = 3/100`. -/
example :
    let F : ℝ → ℝ := fun x => x / 2 + 1
    let R : ℝ → ℝ := fun y => 2 * y - 2 + 1 / 100
    (∀ a b, dist (R a) (R b) ≤ 2 * dist a b) ∧ (∀ x, dist (R (F x)) x ≤ 1 / 100) ∧
      dist (R^[2] (F^[2] 0)) 0 = 1 / 100 * ∑ i ∈ Finset.range 2, (2 : ℝ) ^ i := by
  intro F R
  refine ⟨fun a b => ?_, fun x => ?_, ?_⟩
  · simp only [R, Real.dist_eq]
    rw [show 2 * a - 2 + 1 / 100 - (2 * b - 2 + 1 / 100) = 2 * (a - b) by ring, abs_mul]
    norm_num
  · simp only [R, F, Real.dist_eq]
    rw [show 2 * (x / 2 + 1) - 2 + 1 / 100 - x = 1 / 100 by ring]
    norm_num
  · simp only [R, F, Real.dist_eq, Function.iterate_succ, Function.iterate_zero, Function.comp,
      id_eq, Finset.sum_range_succ, Finset.sum_range_zero]
    norm_num

/-- … and the theorem applied to this instance (all hypotheses discharged). -/
example : dist ((fun y : ℝ => 2 * y - 2 + 1 / 100)^[5] ((fun x : ℝ => x / 2 + 1)^[5] 0)) 0 ≤
    1 / 100 * ∑ i ∈ Finset.range 5, (2 : ℝ) ^ i := by
  apply iterate_reverse_bound _ _ 2 (1 / 100) (by norm_num)
  · intro a b
    simp only [Real.dist_eq]
    rw [show 2 * a - 2 + 1 / 100 - (2 * b - 2 + 1 / 100) = 2 * (a - b) by ring, abs_mul]
    norm_num
  · intro k _
    simp only [Real.dist_eq]
    generalize (fun x : ℝ => x / 2 + 1)^[k] 0 = w
    rw [show 2 * (w / 2 + 1) - 2 + 1 / 100 - w = 1 / 100 by ring]
    norm_num

end Chain


/-
Chained n-step bound (formerly the unproved `glStep_reverse_partial`): now `Props/C02S.lean`,
  `chain_reverse_bound` / `res_steps_reverse_bound` / `glSteps_reverse_bound` / `imSteps_reverse_bound` /
  `conSteps_reverse_bound`: if the step with `-ε` is `L`-Lipschitz (where it returns) and from every
  forward state it returns within `δ` of the previous one, then n forward and n reverse steps end within
  `δ (1 + L + … + L^(n-1))` of the start.
What is still NOT derived in Lean: `L` and `δ` themselves from Lipschitz data of the user functions
  (`dh1_dpos`, `dh2_dpos`, `dh2_dmom`), the solver's `convergence_tol` and `reverse_check_tol` — they are
  hypotheses of the theorem (arbitrary callables carry no such data); the per-sub-step statements
  `…_checked` above are the tolerance-level facts the code does establish, and the harness measures the
  n-step reversal residual on the real code.
-/

end MiciVerif.C02
