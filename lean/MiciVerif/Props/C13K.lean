/-
C13 — tie of the *storage* part of `Model/Sampler.lean` (`initSys`: one array per transition and per
trace function and chain, `nTrace` rows, every cell the fill value; per-chain generator streams;
`nTraceIter`) to the source text of the helpers of `samplers.py` that create and hand over the output
storage.  `Generated/SamplerStorageSkeleton.lean` is regenerated from the tree under test on every
run (`tools/extractors/sampler_storage_skeleton.py`); the theorems are re-checked by the kernel:

* `skel_…_eq_model`: generated tree = expected tree (`Skel.StorageExpected`, annotated in
  `Model/SamplerStorageSkeleton.lean`);
* named projections, re-derived from the generated trees only (they localise a change);
* readings (`Skel.Storage`): shape / dtype / file of every created array as a function of
  `n_chain`, `n_iter` and the traced value, for all values of those.

The fill-value facts are in `Props/C15K.lean`.
-/
import MiciVerif.Lemmas.SamplerStorage
import MiciVerif.Generated.SamplerSkeleton

namespace MiciVerif.C13K
open MiciVerif.Skel
open MiciVerif.Skel.Storage
open MiciVerif.Generated
open MiciVerif.SamplerStorage
open MiciVerif.Generated.SamplerStorageSkeleton (initTraces initStats)

/-! ### the generated trees are the expected ones -/

/-- Nothing in the fourteen translated functions is outside the translated subset; the only
dropped statements are the four error-message texts. -/
theorem skel_storage_understood :
    ([SamplerStorageSkeleton.getValidFilename, SamplerStorageSkeleton.generateMemmapFilenames,
      SamplerStorageSkeleton.openNewMemmap, SamplerStorageSkeleton.memmapsToFilePaths,
      SamplerStorageSkeleton.filePathsToMemmaps, SamplerStorageSkeleton.zipDict,
      SamplerStorageSkeleton.checkAndProcessInitState, initStats, initTraces,
      SamplerStorageSkeleton.constructChainIterators, SamplerStorageSkeleton.getPerChainRngs,
      SamplerStorageSkeleton.hmcPreprocessInitState, SamplerStorageSkeleton.hmcDefaultTraceFunc,
      SamplerStorageSkeleton.hmcSampleChains].all S.known = true)
    ∧ SamplerStorageSkeleton.dropped = StorageExpected.dropped := by
  decide +kernel

/-- `_init_traces` (parameters, body). -/
theorem skel_init_traces_eq_model :
    SamplerStorageSkeleton.initTracesSig = StorageExpected.initTracesSig
    ∧ initTraces = StorageExpected.initTraces := by
  decide +kernel

/-- `_init_stats` (parameters, body). -/
theorem skel_init_stats_eq_model :
    SamplerStorageSkeleton.initStatsSig = StorageExpected.initStatsSig
    ∧ initStats = StorageExpected.initStats := by
  decide +kernel

/-- The memory-map helpers `_get_valid_filename`, `_generate_memmap_filenames`, `_open_new_memmap`. -/
theorem skel_memmap_helpers_eq_model :
    SamplerStorageSkeleton.getValidFilename = StorageExpected.getValidFilename
    ∧ SamplerStorageSkeleton.getValidFilenameSig = StorageExpected.getValidFilenameSig
    ∧ SamplerStorageSkeleton.generateMemmapFilenames = StorageExpected.generateMemmapFilenames
    ∧ SamplerStorageSkeleton.generateMemmapFilenamesSig = StorageExpected.generateMemmapFilenamesSig
    ∧ SamplerStorageSkeleton.openNewMemmap = StorageExpected.openNewMemmap
    ∧ SamplerStorageSkeleton.openNewMemmapSig = StorageExpected.openNewMemmapSig := by
  decide +kernel

/-- The conversions used to hand the arrays to worker processes and the per-chain regrouping. -/
theorem skel_path_conversions_eq_model :
    SamplerStorageSkeleton.memmapsToFilePaths = StorageExpected.memmapsToFilePaths
    ∧ SamplerStorageSkeleton.memmapsToFilePathsSig = StorageExpected.memmapsToFilePathsSig
    ∧ SamplerStorageSkeleton.filePathsToMemmaps = StorageExpected.filePathsToMemmaps
    ∧ SamplerStorageSkeleton.filePathsToMemmapsSig = StorageExpected.filePathsToMemmapsSig
    ∧ SamplerStorageSkeleton.zipDict = StorageExpected.zipDict
    ∧ SamplerStorageSkeleton.zipDictSig = StorageExpected.zipDictSig := by
  decide +kernel

/-- `_check_and_process_init_state`, `_construct_chain_iterators`, `_get_per_chain_rngs`. -/
theorem skel_chain_setup_eq_model :
    SamplerStorageSkeleton.checkAndProcessInitState = StorageExpected.checkAndProcessInitState
    ∧ SamplerStorageSkeleton.checkAndProcessInitStateSig = StorageExpected.checkAndProcessInitStateSig
    ∧ SamplerStorageSkeleton.constructChainIterators = StorageExpected.constructChainIterators
    ∧ SamplerStorageSkeleton.constructChainIteratorsSig = StorageExpected.constructChainIteratorsSig
    ∧ SamplerStorageSkeleton.getPerChainRngs = StorageExpected.getPerChainRngs
    ∧ SamplerStorageSkeleton.getPerChainRngsSig = StorageExpected.getPerChainRngsSig := by
  decide +kernel

/-- The `HamiltonianMonteCarlo` wrapper (initial-state preprocessing, default trace function,
`sample_chains` with the `integration_transition` key structure) and the two output tuples. -/
theorem skel_hmc_wrapper_and_outputs_eq_model :
    SamplerStorageSkeleton.hmcPreprocessInitState = StorageExpected.hmcPreprocessInitState
    ∧ SamplerStorageSkeleton.hmcPreprocessInitStateSig = StorageExpected.hmcPreprocessInitStateSig
    ∧ SamplerStorageSkeleton.hmcDefaultTraceFunc = StorageExpected.hmcDefaultTraceFunc
    ∧ SamplerStorageSkeleton.hmcDefaultTraceFuncSig = StorageExpected.hmcDefaultTraceFuncSig
    ∧ SamplerStorageSkeleton.hmcSampleChains = StorageExpected.hmcSampleChains
    ∧ SamplerStorageSkeleton.hmcSampleChainsSig = StorageExpected.hmcSampleChainsSig
    ∧ SamplerStorageSkeleton.mcmcOutputsFields = StorageExpected.mcmcOutputsFields
    ∧ SamplerStorageSkeleton.hmcOutputsFields = StorageExpected.hmcOutputsFields := by
  decide +kernel

/-! ### traces: one evaluation, shape, dtype -/

/-- Each trace function is evaluated exactly once by `_init_traces`, on the first initial state,
and the arrays are keyed by the keys of the returned dictionary. -/
theorem skel_trace_func_evaluated_once_on_first_state :
    (initTraces.all.filterMap fun
        | .loop t i _ => some (t, i)
        | _ => Option.none) =
      [(.v "trace_func", .v "trace_funcs"),
       (.tup (E.l [.v "key", .v "val"]),
        .meth (.call "trace_func" (E.l [.sub (.v "init_states") (.n 0)])) "items" (E.l []))]
    ∧ (initTraces.all.filter (S.callsHere "trace_func")).length = 1
    ∧ assignsTo (.v "n_chain") initTraces.stmts =
        [.assign (.v "n_chain") (.call "len" (E.l [.v "init_states"]))] := by
  decide +kernel

/-- The allocation statement of `_init_traces` is the expected plan (both storage kinds). -/
theorem skel_traces_plan : findAlloc initTraces = some tracesPlan := by
  decide +kernel

/-- The allocation statement of `_init_stats` is the expected plan (both storage kinds). -/
theorem skel_stats_plan : findAlloc initStats = some statsPlan := by
  decide +kernel

private theorem evalDims_traces_mem (env : Env) :
    evalDims env [.nChain, .nIter, .valShape] = some (env.nChain :: env.nIter :: env.valShape) := by
  simp [evalDims]

private theorem evalDims_traces_map (env : Env) :
    evalDims env [.nIter, .valShape] = some (env.nIter :: env.valShape) := by
  simp [evalDims]

/-- **Shape.** For every number of chains, array length, value shape and dtype kind, with either
storage kind: one array per chain, each of shape `(n_iter,) + value.shape`. -/
theorem skel_trace_array_shape_is_n_iter_by_value_shape (memmap : Bool) (env : Env) :
    ∃ arrs, traceArrays memmap env = some arrs ∧ arrs.length = env.nChain
      ∧ ∀ a ∈ arrs, a.shape = env.nIter :: env.valShape := by
  unfold traceArrays
  rw [skel_traces_plan]
  cases memmap
  · refine ⟨_, by simp [AllocPlan.memArrays, tracesPlan, evalDims_traces_mem]; rfl, by simp, ?_⟩
    intro a ha
    rw [List.mem_replicate] at ha
    rw [ha.2]
  · refine ⟨_, by simp [AllocPlan.mapArrays, tracesPlan, evalDims_traces_map, evalIndices, E.l]; rfl, by simp, ?_⟩
    intro a ha
    simp only [List.mem_map] at ha
    obtain ⟨i, _, rfl⟩ := ha
    rfl

example : (traceArrays false ⟨3, 7, [2, 2], .float32⟩).map (fun arrs => arrs.map (·.shape)) =
    some [[7, 2, 2], [7, 2, 2], [7, 2, 2]] := by decide +kernel

/-- **Dtype.** Every trace array has the dtype of the value returned for the initial state
(no conversion to `float64`), with either storage kind. -/
theorem skel_trace_dtype_is_value_dtype (memmap : Bool) (env : Env) :
    ∃ arrs, traceArrays memmap env = some arrs ∧ ∀ a ∈ arrs, a.dtype = .ofValue := by
  unfold traceArrays
  rw [skel_traces_plan]
  cases memmap
  · refine ⟨_, by simp [AllocPlan.memArrays, tracesPlan, evalDims_traces_mem]; rfl, ?_⟩
    intro a ha
    rw [List.mem_replicate] at ha
    rw [ha.2]; rfl
  · refine ⟨_, by simp [AllocPlan.mapArrays, tracesPlan, evalDims_traces_map, evalIndices, E.l]; rfl, ?_⟩
    intro a ha
    simp only [List.mem_map] at ha
    obtain ⟨i, _, rfl⟩ := ha
    rfl

/-- **Statistics.** For every transition / key: one 1-d array of length `n_iter` per chain, created
with the dtype and the fill value *declared* in `statistic_types` (never a default float array), with
either storage kind. -/
theorem skel_stats_use_declared_dtype_and_fill (memmap : Bool) (env : Env) :
    ∃ arrs, statArrays memmap env = some arrs ∧ arrs.length = env.nChain
      ∧ ∀ a ∈ arrs, a.shape = [env.nIter] ∧ a.dtype = .declared ∧ a.fill = .declared := by
  unfold statArrays
  rw [skel_stats_plan]
  cases memmap
  · refine ⟨_, by simp [AllocPlan.memArrays, statsPlan, evalDims]; rfl, by simp, ?_⟩
    intro a ha
    rw [List.mem_replicate] at ha
    rw [ha.2]; exact ⟨rfl, rfl, rfl⟩
  · refine ⟨_, by simp [AllocPlan.mapArrays, statsPlan, evalDims, evalIndices, E.l]; rfl, by simp, ?_⟩
    intro a ha
    simp only [List.mem_map] at ha
    obtain ⟨i, _, rfl⟩ := ha
    exact ⟨rfl, rfl, rfl⟩

example : statArrays true ⟨2, 5, [], .int64⟩ =
    some [⟨[5], .declared, .declared, some (.s "stats", 0, .call "<fstring>" (E.l [.v "trans_key", .s "_", .v "key"]))⟩,
          ⟨[5], .declared, .declared, some (.s "stats", 1, .call "<fstring>" (E.l [.v "trans_key", .s "_", .v "key"]))⟩] := by
  decide +kernel

/-- `_init_stats` only creates arrays for transitions that declare statistics, per declared key
with the declared `(dtype, val)` pair (`Generated/StatTypes.lean` holds the declared pairs). -/
theorem skel_stats_per_declared_key :
    (initStats.all.filterMap fun
        | .loop t i _ => some (t, i)
        | _ => Option.none) =
      [(.tup (E.l [.v "trans_key", .v "transition"]), .call "transitions.items" (E.l [])),
       (.tup (E.l [.v "key", .tup (E.l [.v "dtype", .v "val"])]), .call "transition.statistic_types.items" (E.l []))]
    ∧ (initStats.all.filterMap fun
        | .ifc c _ f => some (c, f.stmts)
        | _ => Option.none).head? =
      some (.op "is not" (E.l [.v "transition.statistic_types", .none]), []) := by
  decide +kernel

/-- **Length of the arrays = the model's `n_trace_iter`.**  The third positional parameter of both
helpers is `n_iter` (the leading axis by the two theorems above) and `sample_chains` passes
`n_trace_iter` there (`C13S.skel_array_length`; model: `Sampler.nTraceIter`, `initSys … nTrace`). -/
theorem skel_array_length_is_n_trace_iter :
    SamplerStorageSkeleton.initTracesSig.items[2]? = some (.v "n_iter")
    ∧ SamplerStorageSkeleton.initStatsSig.items[2]? = some (.v "n_iter")
    ∧ ((argsOfCall "_init_traces" SamplerSkeleton.sampleChains.stmts).map fun a => a.items[2]?) =
        some (some (.v "n_trace_iter"))
    ∧ ((argsOfCall "_init_stats" SamplerSkeleton.sampleChains.stmts).map fun a => a.items[2]?) =
        some (some (.v "n_trace_iter"))
    ∧ ((argsOfCall "_init_stats" SamplerSkeleton.sampleChains.stmts).map fun a => a.items[1]?) =
        some (some (.v "n_chain"))
    ∧ SamplerStorageSkeleton.initStatsSig.items[1]? = some (.v "n_chain")
    ∧ assignsTo (.v "n_chain") SamplerSkeleton.sampleChains.stmts =
        [.assign (.v "n_chain") (.call "len" (E.l [.v "init_states"]))] := by
  decide +kernel

/-- The model's initial system has, for every chain, arrays of exactly `nTraceIter` rows — the
quantity the two readings above give to the leading axis. -/
theorem model_initSys_rows {St V A P : Type} (K : Sampler.Kernel St V A P) (p : P) (inits : List St)
    (nWarm nMain : Nat) (tw : Bool) :
    ∀ ch ∈ (Sampler.initSys K p inits (Sampler.nTraceIter nWarm nMain tw)).chains,
      ∀ a ∈ ch.mem, a.length = (if tw then nWarm + nMain else nMain) := by
  intro ch hch a ha
  simp only [Sampler.initSys, List.mem_map] at hch
  obtain ⟨si, _, rfl⟩ := hch
  simp only [List.mem_replicate] at ha
  rw [ha.2]
  simp [Sampler.nTraceIter]

/-! ### memory-mapped storage -/

/-- **Same arrays with both storage kinds** (traces and statistics): apart from the file, the
memory-mapped branch creates exactly the arrays of the in-memory branch — same number, shape, dtype
and fill — for every number of chains, length, value shape and dtype kind. -/
theorem skel_memmap_and_memory_same_fill (env : Env) :
    (traceArrays true env).map forgetFiles = traceArrays false env
    ∧ (statArrays true env).map forgetFiles = statArrays false env := by
  unfold traceArrays statArrays
  rw [skel_traces_plan, skel_stats_plan]
  constructor
  · simp only [AllocPlan.memArrays, AllocPlan.mapArrays, tracesPlan, evalDims, evalIndices, E.l, forgetFiles,
      Option.bind_some, if_true, Bool.false_eq_true, if_false, List.foldr, Option.map_some,
      List.append_nil, List.map_map]
    congr 1
    apply List.ext_getElem <;> simp
  · simp only [AllocPlan.memArrays, AllocPlan.mapArrays, statsPlan, evalDims, evalIndices, E.l, forgetFiles,
      Option.bind_some, if_true, Bool.false_eq_true, if_false, List.foldr, Option.map_some, List.map_map]
    congr 1
    apply List.ext_getElem <;> simp

/-- **File names.**  `_generate_memmap_filenames` returns `dir / "{prefix}_{index}_{key}.npy"` for
every `index` of its last argument; both callers pass `range(n_chain)` there with the prefixes
`"trace"` / `"stats"` and the keys `key` / `"{trans_key}_{key}"`: one file per chain, the chain
index is part of the name, trace and statistics files cannot coincide. -/
theorem skel_memmap_file_names :
    fileNameTemplate SamplerStorageSkeleton.generateMemmapFilenames =
      some ([.v "prefix", .s "_", .v "index", .s "_", .v "key_str", .s ".npy"], .v "index", .v "indices")
    ∧ SamplerStorageSkeleton.generateMemmapFilenamesSig = E.l [.v "dir_path", .v "prefix", .v "key", .v "indices"]
    ∧ assignsTo (.v "key_str") SamplerStorageSkeleton.generateMemmapFilenames.stmts =
        [.assign (.v "key_str") (.call "_get_valid_filename" (E.l [.call "str" (E.l [.v "key"])]))]
    ∧ ((findAlloc initTraces).map fun p => (p.dir, p.pre, p.key, p.indices)) =
        some (.v "memmap_path", .s "trace", .v "key", .call "range" (E.l [.v "n_chain"]))
    ∧ ((findAlloc initStats).map fun p => (p.dir, p.pre, p.key, p.indices)) =
        some (.v "memmap_path", .s "stats", .call "<fstring>" (E.l [.v "trans_key", .s "_", .v "key"]),
              .call "range" (E.l [.v "n_chain"])) := by
  decide +kernel

/-- The files of one key belong to pairwise different chain indices `0 … n_chain-1`. -/
theorem skel_memmap_one_file_per_chain (env : Env) :
    (traceArrays true env).map (fun arrs => arrs.map fun a => a.file.map (·.2.1)) =
      some ((List.range env.nChain).map some)
    ∧ (List.range env.nChain).Nodup := by
  refine ⟨?_, List.nodup_range⟩
  unfold traceArrays
  rw [skel_traces_plan]
  simp [AllocPlan.mapArrays, tracesPlan, evalDims, evalIndices, E.l]

/-- `_open_new_memmap`: an `int` shape becomes a 1-tuple, the file is created anew (`mode="w+"`) with
the requested dtype and shape, and every element is set to the fill value before the array is
returned. -/
theorem skel_new_memmap_is_new_file_filled :
    SamplerStorageSkeleton.openNewMemmap.stmts =
      [.ifc (.call "isinstance" (E.l [.v "shape", .v "int"]))
          (S.b [.assign (.v "shape") (.tup (E.l [.v "shape"]))]) (S.b []),
       .assign (.v "memmap") (.call "np.lib.format.open_memmap"
          (E.l [.v "file_path", .kw "dtype" (.v "dtype"), .kw "mode" (.s "w+"), .kw "shape" (.v "shape")])),
       .assign (.sub (.v "memmap") (.call "<slice>" (E.l [.none, .none, .none]))) (.v "default_val"),
       .ret (.v "memmap")]
    ∧ SamplerStorageSkeleton.openNewMemmapSig = E.l [.v "file_path", .v "shape", .v "default_val", .v "dtype"] := by
  decide +kernel

/-- the `isinstance` cases of a conversion function: (class, returned expression) -/
def convCases (s : S) : List (E × E) :=
  s.stmts.filterMap fun
    | .ifc (.call "isinstance" (.cons (.v "pytree") (.cons c .nil))) (.seq (.ret r) .skip) .skip => some (c, r)
    | _ => Option.none

/-- rename the recursive call, so that the container cases of the two conversions can be compared -/
def renameCall (f g : String) : E → E
  | .call h a => .call (if h = f then g else h) (renameCall f g a)
  | .tup a => .tup (renameCall f g a)
  | .cons h t => .cons (renameCall f g h) (renameCall f g t)
  | e => e

/-- **Hand-over to worker processes.**  `_memmaps_to_file_paths` replaces exactly the memmap leaves
by `Path(leaf.filename)`, `_file_paths_to_memmaps` replaces exactly the `Path` leaves by the
re-opened file (`open_memmap(path)`: existing file, contents kept); both recurse through dict / list /
tuple with identical comprehensions (keys and order kept) and return any other leaf unchanged, so
the worker's pytree has the parent's structure with every array backed by the parent's file.  The
parent applies the first to the per-chain arguments of every chain it queues; `_sample_chain` applies
the second to `chain_traces` and `chain_stats` under `if load_memmaps`, first thing after the state
check, and the worker calls it with `load_memmaps=True` (`Generated/SamplerSkeleton.lean`). -/
theorem skel_paths_roundtrip_for_workers :
    (convCases SamplerStorageSkeleton.memmapsToFilePaths).head? =
      some (.v "np.memmap", .call "Path" (E.l [.v "pytree.filename"]))
    ∧ (convCases SamplerStorageSkeleton.filePathsToMemmaps).head? =
      some (.v "Path", .call "np.lib.format.open_memmap" (E.l [.v "pytree"]))
    ∧ ((convCases SamplerStorageSkeleton.memmapsToFilePaths).drop 1).map (fun c => c.1) =
      [.v "dict", .v "list", .v "tuple"]
    ∧ ((convCases SamplerStorageSkeleton.memmapsToFilePaths).drop 1).map
        (fun c => (c.1, renameCall "_memmaps_to_file_paths" "_file_paths_to_memmaps" c.2)) =
      (convCases SamplerStorageSkeleton.filePathsToMemmaps).drop 1
    ∧ (convCases SamplerStorageSkeleton.memmapsToFilePaths).length + 1 =
        SamplerStorageSkeleton.memmapsToFilePaths.stmts.length
    ∧ (convCases SamplerStorageSkeleton.filePathsToMemmaps).length + 1 =
        SamplerStorageSkeleton.filePathsToMemmaps.stmts.length
    ∧ SamplerStorageSkeleton.memmapsToFilePaths.stmts.getLast? = some (.ret (.v "pytree"))
    ∧ SamplerStorageSkeleton.filePathsToMemmaps.stmts.getLast? = some (.ret (.v "pytree"))
    ∧ (SamplerSkeleton.sampleChainsParallel.all.filterMap fun
        | .assign t (.call "_memmaps_to_file_paths" a) => some (t, a)
        | _ => Option.none) =
      [(.sub (.v "chain_kwargs") (.s "chain_stats"), E.l [.sub (.v "chain_kwargs") (.s "chain_stats")]),
       (.sub (.v "chain_kwargs") (.s "chain_traces"), E.l [.sub (.v "chain_kwargs") (.s "chain_traces")])]
    ∧ SamplerSkeleton.sampleChain.stmts[1]? =
      some (.ifc (.v "load_memmaps")
        (S.b [.assign (.v "chain_traces") (.call "_file_paths_to_memmaps" (E.l [.v "chain_traces"])),
              .assign (.v "chain_stats") (.call "_file_paths_to_memmaps" (E.l [.v "chain_stats"]))]) (S.b []))
    ∧ ((argsOfCall "_sample_chain" SamplerSkeleton.sampleChainsWorker.stmts).bind (E.kwArg "load_memmaps")) =
        some (.v "True")
    ∧ ((argsOfCall "_sample_chain" SamplerSkeleton.sampleChainsSequential.stmts).bind (E.kwArg "load_memmaps")) =
        Option.none := by
  decide +kernel

/-- `_zip_dict` regroups `{key: [per-chain values]}` into one dict per chain and refuses
(`strict=True`, both zips) value lists of different lengths; `sample_chains` uses it for the traces,
for the statistics of every transition and for the per-chain arguments. -/
theorem skel_per_chain_regrouping_is_strict :
    SamplerStorageSkeleton.zipDict.stmts =
      [.ret (.call "<genexpr>" (E.l [
        .call "dict" (E.l [.call "zip" (E.l [.call "kwargs.keys" (E.l []), .v "val_set", .kw "strict" (.v "True")])]),
        .tup (E.l [.v "val_set", .call "zip" (E.l [.star (.call "kwargs.values" (E.l [])), .kw "strict" (.v "True")])])]))]
    ∧ (SamplerSkeleton.sampleChains.all.filter (S.callsHere "_zip_dict")).length = 3 := by
  decide +kernel

/-! ### per-chain generators, initial states, iterators -/

/-- **One base generator.**  The bit generator is taken from the ONE `base_rng` argument
(`bit_generator`, else `_bit_generator`, else unsupported), and `sample_chains` passes `self.rng`. -/
theorem skel_single_base_generator :
    SamplerStorageSkeleton.getPerChainRngs.stmts.head? =
      some (.ifc (.call "hasattr" (E.l [.v "base_rng", .s "bit_generator"]))
        (S.b [.assign (.v "bit_generator") (.v "base_rng.bit_generator")])
        (S.b [.ifc (.call "hasattr" (E.l [.v "base_rng", .s "_bit_generator"]))
          (S.b [.assign (.v "bit_generator") (.v "base_rng._bit_generator")])
          (S.b [.assign (.v "bit_generator") .none])]))
    ∧ (assignsTo (.v "bit_generator") SamplerStorageSkeleton.getPerChainRngs.stmts).length = 3
    ∧ SamplerStorageSkeleton.getPerChainRngs.stmts.getLast? =
        some (.raise_ (.call "ValueError" (E.l [.v "msg"])) .none)
    ∧ argsOfCall "_get_per_chain_rngs" SamplerSkeleton.sampleChains.stmts =
        some (E.l [.v "self.rng", .v "n_chain"]) := by
  decide +kernel

/-- The two ways the per-chain generators are derived, in order of preference, with their guards. -/
theorem skel_per_chain_rng_plans :
    rngPlans SamplerStorageSkeleton.getPerChainRngs =
      [.jumped (.v "i") (.v "i") (.call "range" (E.l [.v "n_chain"])),
       .spawn (.v "seed") (.v "seed") (.call "seed_sequence.spawn" (E.l [.v "n_chain"]))]
    ∧ (SamplerStorageSkeleton.getPerChainRngs.stmts.filterMap fun
        | .ifc c _ _ => some c
        | _ => Option.none).drop 1 =
      [.op "and" (E.l [.op "is not" (E.l [.v "bit_generator", .none]), .call "hasattr" (E.l [.v "bit_generator", .s "jumped"])]),
       .op "and" (E.l [.op "is not" (E.l [.v "bit_generator", .none]), .call "hasattr" (E.l [.v "bit_generator", .s "_seed_seq"])])]
    ∧ assignsTo (.v "seed_sequence") SamplerStorageSkeleton.getPerChainRngs.stmts =
        [.assign (.v "seed_sequence") (.v "bit_generator._seed_seq")] := by
  decide +kernel

/-- **Distinct streams, one per chain.**  With either derivation and for every number of chains the
generators are the streams `0 … n_chain-1` of the one base generator (`jumped(i)`, resp. the `i`-th
spawned child): exactly one per chain, pairwise distinct — the numbering `Sampler.initSys` uses. -/
theorem skel_per_chain_rngs_distinct_streams (nChain : Nat) :
    ∀ pl ∈ rngPlans SamplerStorageSkeleton.getPerChainRngs,
      ∃ ss, pl.streams nChain = some ss ∧ ss.length = nChain ∧ ss.Nodup ∧ ss = List.range nChain := by
  intro pl hpl
  rw [skel_per_chain_rng_plans.1] at hpl
  simp only [List.mem_cons, List.mem_nil_iff, or_false] at hpl
  rcases hpl with rfl | rfl
  · exact ⟨_, rfl, by simp, List.nodup_range, rfl⟩
  · exact ⟨_, rfl, by simp, List.nodup_range, rfl⟩

/-- the model numbers the per-chain generators in the same way -/
theorem model_initSys_streams {St V A P : Type} (K : Sampler.Kernel St V A P) (p : P) (inits : List St)
    (nTrace : Nat) :
    (Sampler.initSys K p inits nTrace).chains.map (fun ch => ch.rng) =
      (List.range inits.length).map (fun i => ⟨i, 0⟩) := by
  simp only [Sampler.initSys, List.map_map]
  apply List.ext_getElem
  · simp
  · intro i h1 h2
    simp

/-- **Initial-state validation** happens before any storage is created: every state variable of
every transition must be present (`ValueError`), the object must be a `ChainState` or a dict
(`TypeError`), dicts are converted; `sample_chains` applies it to every initial state. -/
theorem skel_init_state_validation :
    SamplerStorageSkeleton.checkAndProcessInitState.stmts =
      [.loop (.tup (E.l [.v "trans_key", .v "transition"])) (.call "transitions.items" (E.l []))
        (S.b [.loop (.v "var_key") (.v "transition.state_variables")
          (S.b [.ifc (.op "not in" (E.l [.v "var_key", .v "state"]))
            (S.b [.raise_ (.call "ValueError" (E.l [.v "msg"])) .none]) (S.b [])])]),
       .ifc (.op "not" (E.l [.call "isinstance" (E.l [.v "state", .op "|" (E.l [.v "ChainState", .v "dict"])])]))
        (S.b [.raise_ (.call "TypeError" (E.l [.v "msg"])) .none]) (S.b []),
       .ret (.ite (.call "isinstance" (E.l [.v "state", .v "dict"]))
              (.call "ChainState" (E.l [.kwstar (.v "state")])) (.v "state"))]
    ∧ (do let c ← idx (fun s => s = .assign (.v "init_states")
              (.src "[_check_and_process_init_state(state, self.transitions) for state in init_states]"))
            SamplerSkeleton.sampleChains.stmts
          let w ← idx (fun s => s.callsDeep "_init_traces") SamplerSkeleton.sampleChains.stmts
          some (decide (c < w))) = some true := by
  decide +kernel

/-- One chain iterator per chain, over `range(n_iter)`, at position `c + offset`. -/
theorem skel_one_iterator_per_chain :
    SamplerStorageSkeleton.constructChainIterators.stmts =
      [.ret (.call "<listcomp>" (E.l [
        .call "chain_iterator_class" (E.l [.call "range" (E.l [.v "n_iter"]),
          .kw "description" (.call "<fstring>" (E.l [.s "Chain ", .op "+" (E.l [.v "c", .n 1]), .s "/", .v "n_chain"])),
          .kw "position" (.tup (E.l [.op "+" (E.l [.v "c", .v "position_offset"]),
                                     .op "+" (E.l [.v "n_chain", .v "position_offset"])]))]),
        .tup (E.l [.v "c", .call "range" (E.l [.v "n_chain"])])]))] := by
  decide +kernel

/-- **Returned key structure.**  Both output tuples are `(final_states, traces, statistics)`;
`HamiltonianMonteCarlo.sample_chains` returns the traces of the base method unchanged and, as
statistics, the sub-dictionary of the single `integration_transition`. -/
theorem skel_returned_key_structure :
    SamplerStorageSkeleton.mcmcOutputsFields = ["<NamedTuple>", "final_states", "traces", "statistics"]
    ∧ SamplerStorageSkeleton.hmcOutputsFields = ["<NamedTuple>", "final_states", "traces", "statistics"]
    ∧ SamplerStorageSkeleton.hmcSampleChains.stmts.reverse.take 3 =
      [.ret (.call "HMCSampleChainsOutputs" (E.l [.v "final_states", .v "traces", .v "stats"])),
       .assign (.v "stats") (.call "stats.get" (E.l [.s "integration_transition", .call "<dict>" (E.l [])])),
       .assign (.tup (E.l [.v "final_states", .v "traces", .v "stats"]))
         (.meth (.call "super" (E.l [])) "sample_chains"
           (E.l [.v "n_warm_up_iter", .v "n_main_iter", .v "init_states", .kwstar (.v "kwargs")]))]
    ∧ SamplerStorageSkeleton.hmcDefaultTraceFunc.stmts =
      [.ret (.call "<dict>" (E.l [.tup (E.l [.s "pos", .v "state.pos"]),
                                  .tup (E.l [.s "hamiltonian", .call "self.system.h" (E.l [.v "state"])])]))] := by
  decide +kernel

end MiciVerif.C13K
