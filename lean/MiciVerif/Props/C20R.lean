/-
C20 — "near machine precision": rounding-error theorems for the log-space helpers in the
standard model of floating-point arithmetic.

The theorems are about the SAME polymorphic definitions as `Props/C20.lean`
(`LogRep.log1pExp`, `log1mExp`, `logSumExp`, `logDiffExp`, `LogRepF.add/mul/div` of
`Model/LogRep.lean`), now interpreted by `roundedPrims R` (`Model/LogRepRounded.lean`):
every call of `exp/log/log1p/expm1` and every `+`/`-` returns the exact real result times
`(1 + δ)`, `|δ| ≤ u`, with `δ` taken from an ARBITRARY perturbation environment `R : Rounding u`.

Standing assumptions of every theorem (they are what `Rounding u` encodes):
* no underflow and no overflow in any operation (results are never flushed to 0 / subnormal /
  `±inf`, `exp` does not raise);
* negation, comparisons and the constant `0.0` are exact; `LOG_2` is the rounded `log(2.0)`,
  so the branch point of `log1m_exp` is `log 2 · (1 + δ)` — the theorems hold for the branch
  the code really takes;
* `0 ≤ u < 1` for `log1p_exp`, `u ≤ 1/8` where `log1m_exp` is involved (IEEE double: `u = 2^-53`
  for `+ -`, `2^-52` covers a libm within 1 ulp).

Shape of the results: `∃ c, helper (roundedPrims R) args = .fin c ∧ |c - exact| ≤ bound` —
the computed value is a finite number (no exception, no nan) and within `bound` of the exact
real function.  Bounds are relative where the function is well conditioned as a function of
its own argument (`log1p_exp`, `log1m_exp`) and "`u · |exact|` + small absolute" for the
two-argument helpers, where a log-value near 0 is obtained by cancellation between the pivot
and the correction term (an absolute error of a log-value is a relative error of the weight).
-/
import MiciVerif.Lemmas.LogRepRoundedEval
import MiciVerif.Lemmas.LogRepRounded

namespace MiciVerif.C20R
open MiciVerif.LogRep MiciVerif.LogRep.XReal MiciVerif.LogRepRounded

variable {u : ℝ}

/-! ## `log1p_exp` -/

/-- the value `log1p(exp(w))` computed with rounding, for any `w`: within `2u/(1-u)` of
`log(1 + e^w)`, relatively (conditioning of `log1p` on positive arguments is ≤ 1) -/
private theorem log1p_exp_core (hu : u < 1) (R : Rounding u) (w : ℝ) :
    ∃ c, (roundedPrims R).log1p ((roundedPrims R).exp (.fin w)) = .fin c ∧
      |c - Real.log (1 + Real.exp w)| ≤ 2 * u / (1 - u) * Real.log (1 + Real.exp w) := by
  have hE := Real.exp_pos w
  have hd1 := R.exp_le w
  have h0 := u_nonneg hd1
  have h1u : 0 < 1 - u := by linarith
  have hpos := one_add_pos hd1 hu
  have he : -1 < Real.exp w * (1 + R.dExp w) := by
    have : 0 < Real.exp w * (1 + R.dExp w) := mul_pos hE hpos
    linarith
  refine ⟨_, by rw [rexp_fin, rlog1p_fin R he], ?_⟩
  have hL : 0 < Real.log (1 + Real.exp w) := Real.log_pos (by linarith)
  have h1 := log1p_pos_cond hE hd1 hu
  have h2 := abs_scale_sub_le h1 (R.log1p_le (Real.exp w * (1 + R.dExp w)))
  rw [abs_of_pos hL] at h2
  have e : u / (1 - u) * Real.log (1 + Real.exp w) * (1 + u) + u * Real.log (1 + Real.exp w)
      = 2 * u / (1 - u) * Real.log (1 + Real.exp w) := by
    field_simp; ring
  linarith

/-- **`log1p_exp`, branch `val ≤ 0`** (`log1p(exp(val))`): relative error at most
`2u/(1-u)` for every real `val ≤ 0`. -/
theorem log1pExp_rounded_nonpos (hu : u < 1) (R : Rounding u) (v : ℝ) (hv : v ≤ 0) :
    ∃ c, log1pExp (roundedPrims R) (.fin v) = .fin c ∧
      |c - Real.log (1 + Real.exp v)| ≤ 2 * u / (1 - u) * Real.log (1 + Real.exp v) := by
  obtain ⟨c, hc, hb⟩ := log1p_exp_core hu R v
  refine ⟨c, ?_, hb⟩
  have : ¬ (0 < v) := not_lt.mpr hv
  simp only [log1pExp, rzero, rlt_fin, this, decide_false, Bool.false_eq_true, if_false, hc]

example : ∃ c, log1pExp (roundedPrims (Rounding.onlyExp (u := 1 / 2 ^ 53) (-(1 / 2 ^ 53))
      (by rw [abs_neg, abs_of_pos (by positivity)]))) (.fin (-40)) = .fin c ∧
    |c - Real.log (1 + Real.exp (-40))| ≤
      2 * (1 / 2 ^ 53) / (1 - 1 / 2 ^ 53) * Real.log (1 + Real.exp (-40)) :=
  log1pExp_rounded_nonpos (by norm_num) _ _ (by norm_num)

/-- **`log1p_exp`, branch `val > 0`** (`val + log1p(exp(-val))`): relative error at most
`(3+u)u/(1-u)` for every real `val > 0` (both terms are positive: no cancellation). -/
theorem log1pExp_rounded_pos (hu : u < 1) (R : Rounding u) (v : ℝ) (hv : 0 < v) :
    ∃ c, log1pExp (roundedPrims R) (.fin v) = .fin c ∧
      |c - Real.log (1 + Real.exp v)| ≤ (3 + u) * u / (1 - u) * Real.log (1 + Real.exp v) := by
  obtain ⟨t, ht, hb⟩ := log1p_exp_core hu R (-v)
  have h0 := u_nonneg (R.exp_le 0)
  have h1u : 0 < 1 - u := by linarith
  refine ⟨(v + t) * (1 + R.dAdd v t), ?_, ?_⟩
  · simp only [log1pExp, rzero, rlt_fin, hv, decide_true, if_true, rneg_fin, ht, radd_fin]
  · set T := Real.log (1 + Real.exp (-v)) with hT
    have hTpos : 0 < T := Real.log_pos (by have := Real.exp_pos (-v); linarith)
    have hex : Real.log (1 + Real.exp v) = v + T := (log1p_exp_pos_branch v).symm
    rw [hex]
    have hsum : 0 < v + T := by linarith
    have h1 : |(v + t) - (v + T)| ≤ 2 * u / (1 - u) * (v + T) := by
      have : (v + t) - (v + T) = t - T := by ring
      rw [this]
      have hk : 0 ≤ 2 * u / (1 - u) := by positivity
      have : 2 * u / (1 - u) * T ≤ 2 * u / (1 - u) * (v + T) :=
        mul_le_mul_of_nonneg_left (by linarith) hk
      linarith
    have h2 := abs_scale_sub_le h1 (R.add_le v t)
    rw [abs_of_pos hsum] at h2
    have e : 2 * u / (1 - u) * (v + T) * (1 + u) + u * (v + T)
        = (3 + u) * u / (1 - u) * (v + T) := by
      field_simp; ring
    linarith

example : ∃ c, log1pExp (roundedPrims (Rounding.exact (u := 1 / 8) (by norm_num))) (.fin 700)
      = .fin c ∧ |c - Real.log (1 + Real.exp 700)| ≤
        (3 + 1 / 8) * (1 / 8) / (1 - 1 / 8) * Real.log (1 + Real.exp 700) :=
  log1pExp_rounded_pos (by norm_num) _ _ (by norm_num)

/-- **`log1p_exp` on every real argument**: finite result with relative error at most
`(3+u)u/(1-u)` (`≈ 3u`). -/
theorem log1pExp_rounded (hu : u < 1) (R : Rounding u) (v : ℝ) :
    ∃ c, log1pExp (roundedPrims R) (.fin v) = .fin c ∧
      |c - Real.log (1 + Real.exp v)| ≤ (3 + u) * u / (1 - u) * Real.log (1 + Real.exp v) := by
  by_cases hv : 0 < v
  · exact log1pExp_rounded_pos hu R v hv
  · obtain ⟨c, hc, hb⟩ := log1pExp_rounded_nonpos hu R v (not_lt.mp hv)
    refine ⟨c, hc, hb.trans ?_⟩
    have h0 := u_nonneg (R.exp_le 0)
    have h1u : 0 < 1 - u := by linarith
    have hL : 0 < Real.log (1 + Real.exp v) :=
      Real.log_pos (by have := Real.exp_pos v; linarith)
    apply mul_le_mul_of_nonneg_right _ hL.le
    apply div_le_div_of_nonneg_right _ h1u.le
    nlinarith

example : ∃ c, log1pExp (roundedPrims (Rounding.exact (u := 1 / 8) (by norm_num))) (.fin 0)
      = .fin c ∧ |c - Real.log (1 + Real.exp 0)| ≤
        (3 + 1 / 8) * (1 / 8) / (1 - 1 / 8) * Real.log (1 + Real.exp 0) :=
  log1pExp_rounded (by norm_num) _ _

/-! ## `log1m_exp` -/

/-- `log1m_exp(val)` is `nan` (not an exception) for `val ≥ 0`, also with rounding. -/
theorem log1mExp_rounded_nonneg (R : Rounding u) (v : ℝ) (hv : 0 ≤ v) :
    log1mExp (roundedPrims R) (.fin v) = .nan := by
  simp only [log1mExp, rzero, rle_fin, hv, decide_true, if_true, rnan]

example : log1mExp (roundedPrims (Rounding.exact (u := 1 / 8) (by norm_num))) (.fin 0) = .nan :=
  log1mExp_rounded_nonneg _ 0 le_rfl

private theorem log2r_pos (hu : u ≤ 1 / 8) (R : Rounding u) :
    0 < Real.log 2 * (1 + R.dLog 2) :=
  mul_pos log_two_pos (one_add_pos (R.log_le 2) (by linarith))

/-- **`log1m_exp`, branch `-LOG_2 < val < 0`** (`log(-expm1(val))`, `LOG_2` the rounded
constant): the error is at most `u(1+u)/(1-u) + u·|exact|` — absolute `≈ u` from the rounding
of `expm1` (a relative perturbation of the argument of `log`) plus the rounding of `log` —
and, because `|exact| ≥ 1/2` on this branch, at most `(3+u)u/(1-u)·|exact|` relatively.
Holds however close `val` is to `0`. -/
theorem log1mExp_rounded_near (hu : u ≤ 1 / 8) (R : Rounding u) (v : ℝ)
    (hg : -(Real.log 2 * (1 + R.dLog 2)) < v) (hv : v < 0) :
    ∃ c, log1mExp (roundedPrims R) (.fin v) = .fin c ∧
      |c - Real.log (1 - Real.exp v)| ≤ u * (1 + u) / (1 - u) + u * |Real.log (1 - Real.exp v)| ∧
      |c - Real.log (1 - Real.exp v)| ≤ (3 + u) * u / (1 - u) * |Real.log (1 - Real.exp v)| := by
  have hu1 : u < 1 := by linarith
  have h0 := u_nonneg (R.exp_le 0)
  have h1u : 0 < 1 - u := by linarith
  have hE1 : Real.exp v < 1 := Real.exp_lt_one_iff.mpr hv
  have hq : 0 < 1 - Real.exp v := by linarith
  have hd1 := R.expm1_le v
  have hp1 := one_add_pos hd1 hu1
  have harg : 0 < -((Real.exp v - 1) * (1 + R.dExpm1 v)) := by
    have : -((Real.exp v - 1) * (1 + R.dExpm1 v)) = (1 - Real.exp v) * (1 + R.dExpm1 v) := by ring
    rw [this]; exact mul_pos hq hp1
  have h0v : ¬ (0 ≤ v) := not_le.mpr hv
  refine ⟨Real.log (-((Real.exp v - 1) * (1 + R.dExpm1 v))) *
    (1 + R.dLog (-((Real.exp v - 1) * (1 + R.dExpm1 v)))), ?_, ?_⟩
  · simp only [log1mExp, rzero, rle_fin, h0v, decide_false, Bool.false_eq_true, if_false, rlog2,
      rneg_fin, rlt_fin, hg, decide_true, if_true, rexpm1_fin, rlog_fin R harg]
  · set X := Real.log (1 - Real.exp v) with hX
    have hl : Real.log (-((Real.exp v - 1) * (1 + R.dExpm1 v))) = X + Real.log (1 + R.dExpm1 v) := by
      have : -((Real.exp v - 1) * (1 + R.dExpm1 v)) = (1 - Real.exp v) * (1 + R.dExpm1 v) := by ring
      rw [this, Real.log_mul hq.ne' hp1.ne']
    rw [hl]
    have h1 : |X + Real.log (1 + R.dExpm1 v) - X| ≤ u / (1 - u) := by
      have : X + Real.log (1 + R.dExpm1 v) - X = Real.log (1 + R.dExpm1 v) := by ring
      rw [this]; exact abs_log_one_add_le hd1 hu1
    have h2 := abs_scale_sub_le h1 (R.log_le (-((Real.exp v - 1) * (1 + R.dExpm1 v))))
    have e : u / (1 - u) * (1 + u) = u * (1 + u) / (1 - u) := by ring
    rw [e] at h2
    refine ⟨h2, h2.trans ?_⟩
    -- |X| ≥ 1/2 because 1 - e^v < 11/20
    have hE := lt_exp_of_neg_log2_lt ((R.log_le 2).trans hu) hg
    have hXle : X ≤ -(1 / 2) := log_le_neg_half hq (by linarith)
    have hXabs : |X| = -X := abs_of_neg (by linarith)
    rw [hXabs]
    have hk : 0 ≤ u * (1 + u) / (1 - u) := by positivity
    have h3 : u * (1 + u) / (1 - u) ≤ u * (1 + u) / (1 - u) * (2 * -X) := by
      have : (1 : ℝ) ≤ 2 * -X := by linarith
      calc u * (1 + u) / (1 - u) = u * (1 + u) / (1 - u) * 1 := by ring
        _ ≤ u * (1 + u) / (1 - u) * (2 * -X) := mul_le_mul_of_nonneg_left this hk
    have e2 : u * (1 + u) / (1 - u) * (2 * -X) + u * -X = (3 + u) * u / (1 - u) * -X := by
      field_simp; ring
    linarith

example : ∃ c, log1mExp (roundedPrims (Rounding.exact (u := 1 / 2 ^ 53) (by positivity)))
      (.fin (-(1 / 10 ^ 20))) = .fin c ∧
    |c - Real.log (1 - Real.exp (-(1 / 10 ^ 20)))| ≤ (1 / 2 ^ 53) * (1 + 1 / 2 ^ 53) / (1 - 1 / 2 ^ 53)
      + (1 / 2 ^ 53) * |Real.log (1 - Real.exp (-(1 / 10 ^ 20)))| := by
  obtain ⟨c, hc, hb, _⟩ := log1mExp_rounded_near (u := 1 / 2 ^ 53) (by norm_num)
    (Rounding.exact (by positivity)) (-(1 / 10 ^ 20))
    (by simp only [Rounding.exact, add_zero, mul_one]
        have := Real.log_two_gt_d9
        have : (0 : ℝ) < 1 / 10 ^ 20 := by positivity
        linarith)
    (by norm_num)
  exact ⟨c, hc, hb⟩

/-- **`log1m_exp`, branch `val ≤ -LOG_2`** (`log1p(-exp(val))`, `LOG_2` the rounded constant):
relative error at most `u(1+u)·(1 - E/2)/(1 - E(1+u)) + u` with `E = e^val ≤ 3/5`
(the conditioning `E / ((1-E)·|log(1-E)|)` of `log1p` at `-E`, which is `≤ 7/4` here and
unbounded as `E → 1`), hence at most `(3+u)u/(1-u)`. -/
theorem log1mExp_rounded_far (hu : u ≤ 1 / 8) (R : Rounding u) (v : ℝ)
    (hg : v ≤ -(Real.log 2 * (1 + R.dLog 2))) :
    ∃ c, log1mExp (roundedPrims R) (.fin v) = .fin c ∧
      |c - Real.log (1 - Real.exp v)| ≤
        (u * (1 + u) * (1 - Real.exp v / 2) / (1 - Real.exp v * (1 + u)) + u)
          * |Real.log (1 - Real.exp v)| ∧
      |c - Real.log (1 - Real.exp v)| ≤ (3 + u) * u / (1 - u) * |Real.log (1 - Real.exp v)| := by
  have hu1 : u < 1 := by linarith
  have h0 := u_nonneg (R.exp_le 0)
  have h1u : 0 < 1 - u := by linarith
  have hlp := log2r_pos hu R
  have hv : v < 0 := by linarith
  have hE := Real.exp_pos v
  have hE35 := exp_le_of_le_neg_log2 ((R.log_le 2).trans hu) hg
  have hd1 := R.exp_le v
  have hEu : Real.exp v * (1 + u) < 1 := by nlinarith
  have hden : 0 < 1 - Real.exp v * (1 + u) := by linarith
  have he1 : Real.exp v * (1 + R.dExp v) < 1 := by
    have := one_add_upper hd1
    nlinarith
  have h0v : ¬ (0 ≤ v) := not_le.mpr hv
  have hng : ¬ (-(Real.log 2 * (1 + R.dLog 2)) < v) := not_lt.mpr hg
  have harg : -1 < -(Real.exp v * (1 + R.dExp v)) := by linarith
  refine ⟨Real.log (1 + -(Real.exp v * (1 + R.dExp v))) *
    (1 + R.dLog1p (-(Real.exp v * (1 + R.dExp v)))), ?_, ?_⟩
  · simp only [log1mExp, rzero, rle_fin, h0v, decide_false, Bool.false_eq_true, if_false, rlog2,
      rneg_fin, rlt_fin, hng, rexp_fin, rlog1p_fin R harg]
  · set E := Real.exp v with hEdef
    set X := Real.log (1 - E) with hX
    have hq : 0 < 1 - E := by linarith
    have hXneg : X < 0 := Real.log_neg hq (by linarith)
    have hXabs : |X| = -X := abs_of_neg hXneg
    have hXlow := le_neg_log_one_sub hE.le (by linarith : E < 1)
    rw [← hX] at hXlow
    have e0 : (1 : ℝ) + -(E * (1 + R.dExp v)) = 1 - E * (1 + R.dExp v) := by ring
    rw [e0]
    have h1 := log1p_neg_abs hE hd1 hEu
    rw [← hX] at h1
    -- E u / (1 - E(1+u)) ≤ u (1 - E/2) / (1 - E(1+u)) * |X|
    have h2E : 0 < 2 - E := by linarith
    have hEX : E ≤ (1 - E / 2) * -X := by
      have : 2 * E / (2 - E) * (2 - E) = 2 * E := by field_simp
      have h3 : 2 * E ≤ -X * (2 - E) := by
        have := mul_le_mul_of_nonneg_right hXlow h2E.le
        linarith
      linarith
    have hA : E * u / (1 - E * (1 + u)) ≤ u * (1 - E / 2) / (1 - E * (1 + u)) * -X := by
      rw [div_mul_eq_mul_div, div_le_div_iff_of_pos_right hden]
      have := mul_le_mul_of_nonneg_left hEX h0
      linarith
    have h2 := abs_scale_sub_le (h1.trans hA) (R.log1p_le (-(E * (1 + R.dExp v))))
    rw [hXabs] at h2 ⊢
    have e : u * (1 - E / 2) / (1 - E * (1 + u)) * -X * (1 + u) + u * -X
        = (u * (1 + u) * (1 - E / 2) / (1 - E * (1 + u)) + u) * -X := by
      field_simp; ring
    rw [e] at h2
    refine ⟨h2, h2.trans ?_⟩
    apply mul_le_mul_of_nonneg_right _ (by linarith)
    -- u(1+u)(1-E/2)/(1-E(1+u)) + u ≤ (3+u)u/(1-u)
    have e3 : (3 + u) * u / (1 - u) = u * (1 + u) * (2 / (1 - u)) + u := by
      field_simp; ring
    rw [e3, mul_div_assoc]
    have hk : (1 - E / 2) / (1 - E * (1 + u)) ≤ 2 / (1 - u) := by
      rw [div_le_div_iff₀ hden h1u]
      nlinarith
    have := mul_le_mul_of_nonneg_left hk (by positivity : 0 ≤ u * (1 + u))
    linarith

example : ∃ c, log1mExp (roundedPrims (Rounding.exact (u := 1 / 2 ^ 53) (by positivity)))
      (.fin (-1)) = .fin c ∧
    |c - Real.log (1 - Real.exp (-1))| ≤ (3 + 1 / 2 ^ 53) * (1 / 2 ^ 53) / (1 - 1 / 2 ^ 53)
      * |Real.log (1 - Real.exp (-1))| := by
  obtain ⟨c, hc, _, hb⟩ := log1mExp_rounded_far (u := 1 / 2 ^ 53) (by norm_num)
    (Rounding.exact (by positivity)) (-1)
    (by simp only [Rounding.exact, add_zero, mul_one]
        have := Real.log_two_lt_d9
        linarith)
  exact ⟨c, hc, hb⟩

/-- **`log1m_exp` on every `val < 0`**, whichever branch the rounded guard selects: a finite
result with relative error at most `(3+u)u/(1-u)` (`≈ 3u`), uniformly — also for `val`
extremely close to `0` from below. -/
theorem log1mExp_rounded (hu : u ≤ 1 / 8) (R : Rounding u) (v : ℝ) (hv : v < 0) :
    ∃ c, log1mExp (roundedPrims R) (.fin v) = .fin c ∧
      |c - Real.log (1 - Real.exp v)| ≤ (3 + u) * u / (1 - u) * |Real.log (1 - Real.exp v)| := by
  by_cases hg : -(Real.log 2 * (1 + R.dLog 2)) < v
  · obtain ⟨c, hc, _, hb⟩ := log1mExp_rounded_near hu R v hg hv
    exact ⟨c, hc, hb⟩
  · obtain ⟨c, hc, _, hb⟩ := log1mExp_rounded_far hu R v (not_lt.mp hg)
    exact ⟨c, hc, hb⟩

example : ∃ c, log1mExp (roundedPrims (Rounding.exact (u := 1 / 8) (by norm_num)))
      (.fin (-(1 / 10 ^ 300))) = .fin c :=
  (log1mExp_rounded (by norm_num) _ _ (by norm_num)).imp fun _ h => h.1

/-! ## The guards matter -/

private theorem log1mExpOld_eval (hu : u ≤ 1 / 8) (R : Rounding u) (v : ℝ) (hv : v < 0) :
    log1mExpOld (roundedPrims R) (.fin v)
      = (roundedPrims R).log1p (.fin (-(Real.exp v * (1 + R.dExp v)))) := by
  have h0v : ¬ (0 ≤ v) := not_le.mpr hv
  have hng : ¬ (Real.log 2 * (1 + R.dLog 2) < v) := by have := log2r_pos hu R; linarith
  simp only [log1mExpOld, rzero, rle_fin, h0v, decide_false, Bool.false_eq_true, if_false, rlog2,
    rlt_fin, hng, rexp_fin, rneg_fin]

/-- **The pre-fix guard (`val > LOG_2`) loses accuracy** where the fixed code uses `expm1`:
at `val = -log(1+u) ∈ (-log 2, 0)` the formula `log1p(-exp(val))` taken by `log1mExpOld`
* returns `exact + log 2` when the only rounding error is `exp` rounded down by `u`
  (absolute error `log 2 ≈ 0.69` — in double precision 47 of 53 bits lost — while
  `u·|exact| ≤ 3√u`, so no bound `c·u·|exact|` with `c < log 2 / (3√u)` can hold;
  the fixed code satisfies `c ≈ 3`, `log1mExp_rounded`), and
* raises (`log1p(-1)`: `ValueError`) when `exp` is rounded up by `u`. -/
theorem old_guard_loses_accuracy (hu0 : 0 < u) (hu : u ≤ 1 / 8) :
    -(Real.log 2) < -Real.log (1 + u) ∧ -Real.log (1 + u) < 0 ∧
    log1mExpOld (roundedPrims (Rounding.onlyExp (u := u) (-u) (by rw [abs_neg, abs_of_pos hu0])))
        (.fin (-Real.log (1 + u)))
      = .fin (Real.log (1 - Real.exp (-Real.log (1 + u))) + Real.log 2) ∧
    log1mExpOld (roundedPrims (Rounding.onlyExp (u := u) u (by rw [abs_of_pos hu0])))
        (.fin (-Real.log (1 + u))) = .err ∧
    u * |Real.log (1 - Real.exp (-Real.log (1 + u)))| ≤ 3 * √u := by
  have h1u : (0 : ℝ) < 1 + u := by linarith
  have hE : Real.exp (-Real.log (1 + u)) = (1 + u)⁻¹ := by rw [Real.exp_neg, Real.exp_log h1u]
  have hlpos : 0 < Real.log (1 + u) := Real.log_pos (by linarith)
  have hllt : Real.log (1 + u) < Real.log 2 := Real.log_lt_log h1u (by linarith)
  have hv0 : ¬ (0 ≤ -Real.log (1 + u)) := by linarith
  have hl2 := log_two_pos
  refine ⟨by linarith, by linarith, ?_, ?_, ?_⟩
  · have harg : -1 < -(Real.exp (-Real.log (1 + u)) * (1 + -u)) := by
      rw [hE, neg_lt_neg_iff, inv_mul_lt_iff₀ h1u]; linarith
    rw [log1mExpOld_eval hu _ _ (by linarith)]
    simp only [Rounding.onlyExp, Rounding.exact]
    rw [rlog1p_fin _ harg]
    simp only [add_zero, mul_one]
    congr 1
    rw [hE, ← Real.log_mul (by have : (1 + u)⁻¹ < 1 := inv_lt_one_of_one_lt₀ (by linarith)
                               linarith) (by norm_num)]
    congr 1
    field_simp; ring
  · have harg : -(Real.exp (-Real.log (1 + u)) * (1 + u)) ≤ -1 := by
      rw [hE, inv_mul_cancel₀ h1u.ne']
    rw [log1mExpOld_eval hu _ _ (by linarith)]
    simp only [Rounding.onlyExp, Rounding.exact]
    rw [rlog1p_err _ harg]
  · rw [hE]
    have e : 1 - (1 + u)⁻¹ = ((1 + u) / u)⁻¹ := by field_simp; ring
    have hy : 0 < (1 + u) / u := by positivity
    rw [e, Real.log_inv, abs_neg, abs_of_pos (Real.log_pos (by rw [lt_div_iff₀ hu0]; linarith))]
    have h1 := log_le_two_sqrt hy
    have hs : √u * √((1 + u) / u) = √(1 + u) := by
      rw [← Real.sqrt_mul hu0.le]; congr 1; field_simp
    have h32 : √(1 + u) ≤ 3 / 2 := by
      rw [Real.sqrt_le_iff]; constructor <;> nlinarith
    have hsu : 0 ≤ √u := Real.sqrt_nonneg u
    have huu : √u * √u = u := Real.mul_self_sqrt hu0.le
    calc u * Real.log ((1 + u) / u) ≤ u * (2 * √((1 + u) / u)) :=
          mul_le_mul_of_nonneg_left h1 hu0.le
      _ = (√u * √u) * (2 * √((1 + u) / u)) := by rw [huu]
      _ = 2 * √u * (√u * √((1 + u) / u)) := by ring
      _ = 2 * √u * √(1 + u) := by rw [hs]
      _ ≤ 2 * √u * (3 / 2) := mul_le_mul_of_nonneg_left h32 (by positivity)
      _ = 3 * √u := by ring

example : (0 : ℝ) < 1 / 2 ^ 53 ∧ (1 : ℝ) / 2 ^ 53 ≤ 1 / 8 := by norm_num

/-- consequence: with the pre-fix guard no relative bound `c·u` with `c·3√u < log 2` holds
(for doubles: `c < 1.5·10^7`), in contrast to `c = (3+u)/(1-u)` for the fixed guard. -/
theorem old_guard_no_small_bound (hu0 : 0 < u) (hu : u ≤ 1 / 8) (c : ℝ) (hc0 : 0 ≤ c)
    (hc : c * (3 * √u) < Real.log 2) :
    ∃ (R : Rounding u) (v r : ℝ), -(Real.log 2) < v ∧ v < 0 ∧
      log1mExpOld (roundedPrims R) (.fin v) = .fin r ∧
      ¬ (|r - Real.log (1 - Real.exp v)| ≤ c * u * |Real.log (1 - Real.exp v)|) := by
  obtain ⟨h1, h2, h3, _, h5⟩ := old_guard_loses_accuracy hu0 hu
  refine ⟨_, _, _, h1, h2, h3, ?_⟩
  intro hcon
  rw [add_sub_cancel_left, abs_of_pos log_two_pos] at hcon
  have := mul_le_mul_of_nonneg_left h5 hc0
  nlinarith

example : (1 : ℝ) * (3 * √(1 / 64)) < Real.log 2 := by
  have h : √(1 / 64 : ℝ) = 1 / 8 := by
    rw [show (1 / 64 : ℝ) = (1 / 8) ^ 2 by norm_num]; exact Real.sqrt_sq (by norm_num)
  rw [h]; have := Real.log_two_gt_d9; linarith

/-- **The lower guard matters as well**: far from `0` (`e^val ≤ u/(1+u)`) the `expm1` formula
`log(-expm1(val))` can return `0` (one admissible rounding of `expm1` makes `-expm1(val) = 1`)
although the exact value is negative — relative error 1 — so it must not be used there. -/
theorem expm1_formula_loses_accuracy_far (hu0 : 0 < u) (v : ℝ)
    (hv : Real.exp v ≤ u / (1 + u)) :
    ∃ R : Rounding u,
      (roundedPrims R).log ((roundedPrims R).neg ((roundedPrims R).expm1 (.fin v))) = .fin 0 ∧
      Real.log (1 - Real.exp v) < 0 := by
  have hE := Real.exp_pos v
  have h1u : 0 < 1 + u := by linarith
  have hEu : Real.exp v * (1 + u) ≤ u := by rwa [le_div_iff₀ h1u] at hv
  have hE1 : Real.exp v < 1 := by nlinarith
  have hq : 0 < 1 - Real.exp v := by linarith
  have hd : |Real.exp v / (1 - Real.exp v)| ≤ u := by
    rw [abs_of_pos (div_pos hE hq), div_le_iff₀ hq]; nlinarith
  refine ⟨Rounding.onlyExpm1 _ hd, ?_, Real.log_neg hq (by linarith)⟩
  have harg : -((Real.exp v - 1) * (1 + Real.exp v / (1 - Real.exp v))) = 1 := by
    field_simp; ring
  rw [rexpm1_fin, rneg_fin]
  simp only [Rounding.onlyExpm1]
  rw [harg, rlog_fin _ one_pos, Real.log_one, zero_mul]

example : Real.exp (-50) ≤ (1 / 2 ^ 53 : ℝ) / (1 + 1 / 2 ^ 53) := by
  have h1 : Real.exp (-50) = (Real.exp 1)⁻¹ ^ 50 := by
    rw [← Real.exp_neg, ← Real.exp_nat_mul]; norm_num
  have h2 : (Real.exp 1)⁻¹ ≤ 2 / 5 := by
    rw [inv_le_comm₀ (Real.exp_pos 1) (by norm_num)]
    have := Real.exp_one_gt_d9; norm_num; linarith
  rw [h1]
  calc (Real.exp 1)⁻¹ ^ 50 ≤ (2 / 5 : ℝ) ^ 50 :=
        pow_le_pow_left₀ (inv_nonneg.mpr (Real.exp_pos 1).le) h2 50
    _ ≤ _ := by norm_num

/-! ## `log_sum_exp` -/

/-- pivot + `log1p_exp(other - pivot)` for `other ≤ pivot` -/
private theorem lse_core (hu : u < 1) (R : Rounding u) (p o : ℝ) (hop : o ≤ p) :
    ∃ c, (roundedPrims R).add (.fin p)
        (log1pExp (roundedPrims R) ((roundedPrims R).sub (.fin o) (.fin p))) = .fin c ∧
      |c - (p + Real.log (1 + Real.exp (o - p)))| ≤
        u * |p + Real.log (1 + Real.exp (o - p))| +
        (1 + u) * (2 * u / (1 - u) * Real.log (1 + Real.exp (o - p))
          + (1 + u) / (1 - u) * (u / (2 * (1 - u)))) := by
  have h0 := u_nonneg (R.exp_le 0)
  have h1u : 0 < 1 - u := by linarith
  have hd : o - p ≤ 0 := by linarith
  have hδ := R.sub_le o p
  have hpos := one_add_pos hδ hu
  have hdt : (o - p) * (1 + R.dSub o p) ≤ 0 := mul_nonpos_of_nonpos_of_nonneg hd hpos.le
  obtain ⟨s, hs, hb⟩ := log1pExp_rounded_nonpos hu R _ hdt
  refine ⟨(p + s) * (1 + R.dAdd p s), by rw [rsub_fin, hs, radd_fin], ?_⟩
  set S := Real.log (1 + Real.exp (o - p)) with hS
  set S' := Real.log (1 + Real.exp ((o - p) * (1 + R.dSub o p))) with hS'
  have hpert : |S' - S| ≤ u / (2 * (1 - u)) := softplus_pert hd hδ hu
  have hSpos : 0 < S := Real.log_pos (by have := Real.exp_pos (o - p); linarith)
  set T := u / (2 * (1 - u)) with hT
  set ε := 2 * u / (1 - u) with hε
  have hεn : 0 ≤ ε := by positivity
  have hS'le : S' ≤ S + T := by have := (abs_le.mp hpert).2; linarith
  have h1 : |(p + s) - (p + S)| ≤ ε * S + (1 + u) / (1 - u) * T := by
    have e1 : (p + s) - (p + S) = (s - S') + (S' - S) := by ring
    have e2 : (1 + u) / (1 - u) = 1 + ε := by rw [hε]; field_simp; ring
    rw [e1, e2]
    calc |(s - S') + (S' - S)| ≤ |s - S'| + |S' - S| := abs_add_le _ _
      _ ≤ ε * S' + T := add_le_add hb hpert
      _ ≤ ε * (S + T) + T := by
          have := mul_le_mul_of_nonneg_left hS'le hεn; linarith
      _ = ε * S + (1 + ε) * T := by ring
  have h2 := abs_scale_sub_le h1 (R.add_le p s)
  linarith [mul_comm (ε * S + (1 + u) / (1 - u) * T) (1 + u)]

/-- **`log_sum_exp` on every pair of reals**: a finite result `c` with
`|c - L| ≤ u·|L| + (1+u)·(2u/(1-u)·S + (1+u)/(1-u)·u/(2(1-u)))`, where `L = log(e^a + e^b)` and
`S = L - max(a, b) ∈ (0, log 2]` is the correction term.  The first summand is the final
addition `pivot + correction`; the second (`≤ 3u` for `u ≤ 1/8`, `≈ (2 log 2 + 1/2)·u`) is an
ABSOLUTE error of the log-value, i.e. a relative error of the weight `e^a + e^b`, and contains
the rounding of `val_small - val_pivot`, whose amplification `σ(d)·|d|` is at most `1/2` for
every magnitude of the operands. -/
theorem logSumExp_rounded (hu : u < 1) (R : Rounding u) (a b : ℝ) :
    ∃ c, logSumExp (roundedPrims R) (.fin a) (.fin b) = .fin c ∧
      |c - Real.log (Real.exp a + Real.exp b)| ≤
        u * |Real.log (Real.exp a + Real.exp b)| +
        (1 + u) * (2 * u / (1 - u) * (Real.log (Real.exp a + Real.exp b) - max a b)
          + (1 + u) / (1 - u) * (u / (2 * (1 - u)))) := by
  unfold logSumExp
  rw [req_negInf, Bool.false_and]
  by_cases h : b < a
  · obtain ⟨c, hc, hb⟩ := lse_core hu R a b h.le
    have hx : a + Real.log (1 + Real.exp (b - a)) = Real.log (Real.exp a + Real.exp b) :=
      log_sum_exp_branch a b
    have hm : Real.log (1 + Real.exp (b - a)) = Real.log (Real.exp a + Real.exp b) - max a b := by
      rw [max_eq_left h.le, ← hx]; ring
    rw [hx, hm] at hb
    refine ⟨c, ?_, hb⟩
    simp only [rlt_fin, h, decide_true, if_true, Bool.false_eq_true, if_false, hc]
  · have hab : a ≤ b := not_lt.mp h
    obtain ⟨c, hc, hb⟩ := lse_core hu R b a hab
    have hx : b + Real.log (1 + Real.exp (a - b)) = Real.log (Real.exp a + Real.exp b) := by
      rw [log_sum_exp_branch b a, add_comm]
    have hm : Real.log (1 + Real.exp (a - b)) = Real.log (Real.exp a + Real.exp b) - max a b := by
      rw [max_eq_right hab, ← hx]; ring
    rw [hx, hm] at hb
    refine ⟨c, ?_, hb⟩
    simp only [rlt_fin, h, decide_false, Bool.false_eq_true, if_false, hc]

example : ∃ c, logSumExp (roundedPrims (Rounding.exact (u := 1 / 2 ^ 53) (by positivity)))
    (.fin 1000) (.fin (-1000)) = .fin c :=
  (logSumExp_rounded (by norm_num) _ _ _).imp fun _ h => h.1

/-- simplified form of `logSumExp_rounded` for `u ≤ 1/8`: `|c - L| ≤ u·|L| + 3u`. -/
theorem logSumExp_rounded_simple (hu : u ≤ 1 / 8) (R : Rounding u) (a b : ℝ) :
    ∃ c, logSumExp (roundedPrims R) (.fin a) (.fin b) = .fin c ∧
      |c - Real.log (Real.exp a + Real.exp b)| ≤
        u * |Real.log (Real.exp a + Real.exp b)| + 3 * u := by
  obtain ⟨c, hc, hb⟩ := logSumExp_rounded (by linarith) R a b
  refine ⟨c, hc, hb.trans ?_⟩
  have h0 := u_nonneg (R.exp_le 0)
  have h1u : 0 < 1 - u := by linarith
  -- S ≤ log 2 < 7/10
  have hS : Real.log (Real.exp a + Real.exp b) - max a b ≤ 7 / 10 := by
    have hl2 := Real.log_two_lt_d9
    have hpos : 0 < Real.exp a + Real.exp b := by positivity
    have hle : Real.exp a + Real.exp b ≤ 2 * Real.exp (max a b) := by
      have h1 : Real.exp a ≤ Real.exp (max a b) := Real.exp_le_exp.mpr (le_max_left a b)
      have h2 : Real.exp b ≤ Real.exp (max a b) := Real.exp_le_exp.mpr (le_max_right a b)
      linarith
    have := Real.log_le_log hpos hle
    rw [Real.log_mul (by norm_num) (Real.exp_pos _).ne', Real.log_exp] at this
    linarith
  have hk : 0 ≤ 2 * u / (1 - u) := by positivity
  have h1 : 2 * u / (1 - u) * (Real.log (Real.exp a + Real.exp b) - max a b)
      ≤ 2 * u / (1 - u) * (7 / 10) := mul_le_mul_of_nonneg_left hS hk
  have h2 : (1 + u) * (2 * u / (1 - u) * (7 / 10) + (1 + u) / (1 - u) * (u / (2 * (1 - u))))
      ≤ 3 * u := by
    rw [show (1 + u) * (2 * u / (1 - u) * (7 / 10) + (1 + u) / (1 - u) * (u / (2 * (1 - u))))
        = u * ((1 + u) * (14 * (1 - u) + 5 * (1 + u))) / (10 * (1 - u) ^ 2) by field_simp; ring]
    rw [div_le_iff₀ (by positivity)]
    have : (1 + u) * (14 * (1 - u) + 5 * (1 + u)) ≤ 3 * (10 * (1 - u) ^ 2) := by nlinarith
    nlinarith
  have h3 := mul_le_mul_of_nonneg_left
    (add_le_add_right h1 ((1 + u) / (1 - u) * (u / (2 * (1 - u))))) (by linarith : 0 ≤ 1 + u)
  linarith

example : ∃ c, logSumExp (roundedPrims (Rounding.exact (u := 1 / 8) (by norm_num)))
    (.fin 3) (.fin 3) = .fin c :=
  (logSumExp_rounded_simple (by norm_num) _ _ _).imp fun _ h => h.1

/-! ## `log_diff_exp` -/

/-- **`log_diff_exp(a, b)`, `b < a`**: a finite result `c` with
`|c - D| ≤ u·|D| + (1+u)·(ρ·|G| + (1+ρ)·u/(1-u))`, `ρ = (3+u)u/(1-u)`, where
`D = log(e^a - e^b)` and `G = D - a = log(1 - e^{b-a})` is the `log1m_exp` term.
When `a ≈ -G` the sum `a + G` cancels and the error relative to `|D|` is not small: the honest
statement is this bound relative to `max(|D|, |G|)` plus the absolute `≈ u`, which contains
the rounding of `b - a` — amplified by `|d|·e^d/(1-e^d) ≤ 1` only, also for `a`, `b` adjacent. -/
theorem logDiffExp_rounded (hu : u ≤ 1 / 8) (R : Rounding u) (a b : ℝ) (h : b < a) :
    ∃ c, logDiffExp (roundedPrims R) (.fin a) (.fin b) = .fin c ∧
      |c - Real.log (Real.exp a - Real.exp b)| ≤
        u * |Real.log (Real.exp a - Real.exp b)| +
        (1 + u) * ((3 + u) * u / (1 - u) * |Real.log (Real.exp a - Real.exp b) - a|
          + (1 + (3 + u) * u / (1 - u)) * (u / (1 - u))) := by
  have hu1 : u < 1 := by linarith
  have h0 := u_nonneg (R.exp_le 0)
  have h1u : 0 < 1 - u := by linarith
  have hd : b - a < 0 := by linarith
  have hδ := R.sub_le b a
  have hpos := one_add_pos hδ hu1
  have hdt : (b - a) * (1 + R.dSub b a) < 0 := mul_neg_of_neg_of_pos hd hpos
  obtain ⟨t, ht, hb⟩ := log1mExp_rounded hu R _ hdt
  have hlt : ¬ (a < b) := not_lt.mpr h.le
  have hne : ¬ (a = b) := h.ne'
  refine ⟨(a + t) * (1 + R.dAdd a t), ?_, ?_⟩
  · unfold logDiffExp
    rw [req_negInf, Bool.false_and]
    simp only [rlt_fin, req_fin, hlt, hne, decide_false, Bool.false_eq_true, if_false, rsub_fin,
      ht, radd_fin]
  · have hx : a + Real.log (1 - Real.exp (b - a)) = Real.log (Real.exp a - Real.exp b) :=
      log_diff_exp_branch a b h
    have hG : Real.log (Real.exp a - Real.exp b) - a = Real.log (1 - Real.exp (b - a)) := by
      rw [← hx]; ring
    rw [hG, ← hx]
    set G := Real.log (1 - Real.exp (b - a)) with hGdef
    set G' := Real.log (1 - Real.exp ((b - a) * (1 + R.dSub b a))) with hG'
    set ρ := (3 + u) * u / (1 - u) with hρ
    have hρn : 0 ≤ ρ := by positivity
    have hpert : |G' - G| ≤ u / (1 - u) := log1m_pert hd hδ hu1
    have hG'abs : |G'| ≤ |G| + u / (1 - u) := by
      have : G' = G + (G' - G) := by ring
      calc |G'| = |G + (G' - G)| := by rw [← this]
        _ ≤ |G| + |G' - G| := abs_add_le _ _
        _ ≤ |G| + u / (1 - u) := by linarith
    have h1 : |(a + t) - (a + G)| ≤ ρ * |G| + (1 + ρ) * (u / (1 - u)) := by
      have e1 : (a + t) - (a + G) = (t - G') + (G' - G) := by ring
      rw [e1]
      calc |(t - G') + (G' - G)| ≤ |t - G'| + |G' - G| := abs_add_le _ _
        _ ≤ ρ * |G'| + u / (1 - u) := add_le_add hb hpert
        _ ≤ ρ * (|G| + u / (1 - u)) + u / (1 - u) := by
            have := mul_le_mul_of_nonneg_left hG'abs hρn; linarith
        _ = ρ * |G| + (1 + ρ) * (u / (1 - u)) := by ring
    have h2 := abs_scale_sub_le h1 (R.add_le a t)
    linarith [mul_comm (ρ * |G| + (1 + ρ) * (u / (1 - u))) (1 + u)]

example : ∃ c, logDiffExp (roundedPrims (Rounding.exact (u := 1 / 2 ^ 53) (by positivity)))
    (.fin 1) (.fin (1 - 1 / 10 ^ 15)) = .fin c :=
  (logDiffExp_rounded (by norm_num) _ _ _ (by norm_num)).imp fun _ h => h.1

/-- `log_diff_exp` of equal values is the zero weight `-inf` (no `nan`), of `a < b` it is `nan`
— also with rounding (comparisons are exact, nothing is computed). -/
theorem logDiffExp_rounded_specials (R : Rounding u) (a b : ℝ) :
    (a = b → logDiffExp (roundedPrims R) (.fin a) (.fin b) = .negInf) ∧
    (a < b → logDiffExp (roundedPrims R) (.fin a) (.fin b) = .nan) := by
  constructor
  · intro h
    subst h
    unfold logDiffExp
    rw [req_negInf, Bool.false_and]
    simp only [rlt_fin, req_fin, lt_irrefl, decide_false, decide_true, Bool.false_eq_true,
      if_false, if_true]
    rfl
  · intro h
    unfold logDiffExp
    rw [req_negInf, Bool.false_and]
    simp only [rlt_fin, h, decide_true, if_true]
    rfl

example : logDiffExp (roundedPrims (Rounding.exact (u := 1 / 8) (by norm_num))) (.fin 3) (.fin 3)
    = .negInf := (logDiffExp_rounded_specials _ 3 3).1 rfl

/-! ## `LogRepFloat` operators on finite log-values -/

/-- `x + y` of two `LogRepFloat`s with finite log-values `la`, `lb` (weights `e^la`, `e^lb`):
the log-value of the result satisfies the `log_sum_exp` bound. -/
theorem logRep_add_rounded (hu : u < 1) (R : Rounding u) (la lb : ℝ) :
    ∃ c, (⟨.fin la⟩ : LogRepF XReal).add (roundedPrims R) (.rep ⟨.fin lb⟩) = .rep ⟨.fin c⟩ ∧
      (⟨.fin la⟩ : LogRepF XReal).iadd (roundedPrims R) (.rep ⟨.fin lb⟩) = ⟨.fin c⟩ ∧
      |c - Real.log (Real.exp la + Real.exp lb)| ≤
        u * |Real.log (Real.exp la + Real.exp lb)| +
        (1 + u) * (2 * u / (1 - u) * (Real.log (Real.exp la + Real.exp lb) - max la lb)
          + (1 + u) / (1 - u) * (u / (2 * (1 - u)))) := by
  obtain ⟨c, hc, hb⟩ := logSumExp_rounded hu R la lb
  exact ⟨c, by simp only [LogRepF.add, hc], by simp only [LogRepF.iadd, hc], hb⟩

example : ∃ c, (⟨.fin 800⟩ : LogRepF XReal).add
    (roundedPrims (Rounding.exact (u := 1 / 8) (by norm_num))) (.rep ⟨.fin 801⟩) = .rep ⟨.fin c⟩ :=
  (logRep_add_rounded (by norm_num) _ _ _).imp fun _ h => h.1

/-- `x * y` and `x / y` of two `LogRepFloat`s: one rounded addition / subtraction of the
log-values, i.e. `|c - (la ± lb)| ≤ u·|la ± lb|` (`la + lb = log(e^la · e^lb)`). -/
theorem logRep_mul_div_rounded (R : Rounding u) (la lb : ℝ) :
    (∃ c, (⟨.fin la⟩ : LogRepF XReal).mul (roundedPrims R) (.rep ⟨.fin lb⟩) = .rep ⟨.fin c⟩ ∧
      |c - (la + lb)| ≤ u * |la + lb|) ∧
    (∃ c, (⟨.fin la⟩ : LogRepF XReal).div (roundedPrims R) (.rep ⟨.fin lb⟩) = .rep ⟨.fin c⟩ ∧
      |c - (la - lb)| ≤ u * |la - lb|) := by
  constructor
  · refine ⟨(la + lb) * (1 + R.dAdd la lb), by simp only [LogRepF.mul, radd_fin], ?_⟩
    have := abs_scale_sub_le (x := la + lb) (y := la + lb) (A := 0) (by simp) (R.add_le la lb)
    linarith
  · refine ⟨(la - lb) * (1 + R.dSub la lb), by simp only [LogRepF.div, rsub_fin], ?_⟩
    have := abs_scale_sub_le (x := la - lb) (y := la - lb) (A := 0) (by simp) (R.sub_le la lb)
    linarith

example : ∃ c, (⟨.fin 800⟩ : LogRepF XReal).mul
    (roundedPrims (Rounding.exact (u := 1 / 8) (by norm_num))) (.rep ⟨.fin 801⟩) = .rep ⟨.fin c⟩ :=
  (logRep_mul_div_rounded _ _ _).1.imp fun _ h => h.1

/-- `x - y` of two `LogRepFloat`s with `lb < la` (positive difference): the `log_diff_exp`
bound for the log-value of the result. -/
theorem logRep_sub_rounded (hu : u ≤ 1 / 8) (R : Rounding u) (la lb : ℝ) (h : lb < la) :
    ∃ c, (⟨.fin la⟩ : LogRepF XReal).sub (roundedPrims R) (.rep ⟨.fin lb⟩) = .rep ⟨.fin c⟩ ∧
      |c - Real.log (Real.exp la - Real.exp lb)| ≤
        u * |Real.log (Real.exp la - Real.exp lb)| +
        (1 + u) * ((3 + u) * u / (1 - u) * |Real.log (Real.exp la - Real.exp lb) - la|
          + (1 + (3 + u) * u / (1 - u)) * (u / (1 - u))) := by
  obtain ⟨c, hc, hb⟩ := logDiffExp_rounded hu R la lb h
  refine ⟨c, ?_, hb⟩
  simp only [LogRepF.sub, rle_fin, h.le, decide_true, if_true, hc]

example : ∃ c, (⟨.fin 801⟩ : LogRepF XReal).sub
    (roundedPrims (Rounding.exact (u := 1 / 8) (by norm_num))) (.rep ⟨.fin 800⟩) = .rep ⟨.fin c⟩ :=
  (logRep_sub_rounded (by norm_num) _ _ _ (by norm_num)).imp fun _ h => h.1

/-! ## Zero weights (`log_val = -inf`) with rounding -/

/-- `log_sum_exp` with zero weights: `-inf` for two zero weights (no `nan`), and the other
operand up to the single rounding of `pivot + 0` when one weight is zero (the correction
`log1p(exp(-inf)) = log1p(0)` is exactly `0` for every admissible rounding). -/
theorem logSumExp_rounded_zero_weight (R : Rounding u) (b : ℝ) :
    logSumExp (roundedPrims R) .negInf .negInf = .negInf ∧
    (∃ c, logSumExp (roundedPrims R) .negInf (.fin b) = .fin c ∧ |c - b| ≤ u * |b|) ∧
    (∃ c, logSumExp (roundedPrims R) (.fin b) .negInf = .fin c ∧ |c - b| ≤ u * |b|) := by
  have key : |(b + 0) * (1 + R.dAdd b 0) - b| ≤ u * |b| := by
    have := abs_scale_sub_le (x := b + 0) (y := b) (A := 0) (by simp) (R.add_le b 0)
    linarith
  have key' : |(b + 0 * (1 + R.dLog1p 0)) * (1 + R.dAdd b (0 * (1 + R.dLog1p 0))) - b|
      ≤ u * |b| := by rw [zero_mul]; exact key
  refine ⟨?_, ⟨_, ?_, key'⟩, ⟨_, ?_, key'⟩⟩
  · simp [logSumExp, roundedPrims, XReal.beq]
  · simp [logSumExp, log1pExp, roundedPrims, XReal.rnd1, XReal.rnd2, XReal.beq, XReal.lt,
      XReal.sub, XReal.neg, XReal.add, XReal.exp, XReal.log1p, XReal.scale]
  · simp [logSumExp, log1pExp, roundedPrims, XReal.rnd1, XReal.rnd2, XReal.beq, XReal.lt,
      XReal.sub, XReal.neg, XReal.add, XReal.exp, XReal.log1p, XReal.scale]

example : ∃ c, logSumExp (roundedPrims (Rounding.exact (u := 1 / 8) (by norm_num))) .negInf
    (.fin (-800)) = .fin c ∧ |c - (-800)| ≤ 1 / 8 * |(-800 : ℝ)| :=
  (logSumExp_rounded_zero_weight _ _).2.1

/-- `log_diff_exp` with zero weights: `0 - 0` is the zero weight, `a - 0` is `a` up to the single
rounding of `a + 0` (`log1p(-exp(-inf)) = log1p(-0)` is exactly `0`). -/
theorem logDiffExp_rounded_zero_weight (R : Rounding u) (a : ℝ) :
    logDiffExp (roundedPrims R) .negInf .negInf = .negInf ∧
    (∃ c, logDiffExp (roundedPrims R) (.fin a) .negInf = .fin c ∧ |c - a| ≤ u * |a|) := by
  have key : |(a + 0) * (1 + R.dAdd a 0) - a| ≤ u * |a| := by
    have := abs_scale_sub_le (x := a + 0) (y := a) (A := 0) (by simp) (R.add_le a 0)
    linarith
  have key' : |(a + 0 * (1 + R.dLog1p (-0))) * (1 + R.dAdd a (0 * (1 + R.dLog1p (-0)))) - a|
      ≤ u * |a| := by rw [zero_mul]; exact key
  refine ⟨?_, ⟨_, ?_, key'⟩⟩
  · simp [logDiffExp, roundedPrims, XReal.beq]
  · simp [logDiffExp, log1mExp, roundedPrims, XReal.rnd1, XReal.rnd2, XReal.beq, XReal.lt,
      XReal.le, XReal.sub, XReal.neg, XReal.add, XReal.exp, XReal.log1p, XReal.scale]

example : logDiffExp (roundedPrims (Rounding.exact (u := 1 / 8) (by norm_num))) .negInf .negInf
    = .negInf := (logDiffExp_rounded_zero_weight _ 0).1

/-! ## Sequences of in-place accumulations -/

private theorem lse_lipschitz (x y l : ℝ) :
    |Real.log (Real.exp x + Real.exp l) - Real.log (Real.exp y + Real.exp l)| ≤ |x - y| := by
  have main : ∀ x y : ℝ, y ≤ x →
      |Real.log (Real.exp x + Real.exp l) - Real.log (Real.exp y + Real.exp l)| ≤ |x - y| := by
    intro x y hxy
    have hpx : 0 < Real.exp x + Real.exp l := by positivity
    have hpy : 0 < Real.exp y + Real.exp l := by positivity
    have hmono : Real.log (Real.exp y + Real.exp l) ≤ Real.log (Real.exp x + Real.exp l) :=
      Real.log_le_log hpy (by have := Real.exp_le_exp.mpr hxy; linarith)
    have hup : Real.exp x + Real.exp l ≤ Real.exp (x - y) * (Real.exp y + Real.exp l) := by
      have h1 : (1 : ℝ) ≤ Real.exp (x - y) := Real.one_le_exp (by linarith)
      have h2 : Real.exp (x - y) * Real.exp y = Real.exp x := by rw [← Real.exp_add]; ring_nf
      have := mul_le_mul_of_nonneg_right h1 (Real.exp_pos l).le
      nlinarith
    have := Real.log_le_log hpx hup
    rw [Real.log_mul (Real.exp_pos _).ne' hpy.ne', Real.log_exp] at this
    rw [abs_of_nonneg (by linarith), abs_of_nonneg (by linarith)]
    linarith
  rcases le_total y x with h | h
  · exact main x y h
  · rw [abs_sub_comm, abs_sub_comm x y]; exact main y x h

private theorem le_lse (L l : ℝ) : L ≤ Real.log (Real.exp L + Real.exp l) := by
  have := Real.log_le_log (Real.exp_pos L) (by have := Real.exp_pos l; linarith :
    Real.exp L ≤ Real.exp L + Real.exp l)
  rwa [Real.log_exp] at this

private theorem le_exactAcc (L : ℝ) (ls : List ℝ) : L ≤ exactAcc L ls := by
  induction ls generalizing L with
  | nil => exact le_rfl
  | cons l ls ih => exact (le_lse L l).trans (ih _)

private theorem acc_step (hu : u ≤ 1 / 8) (R : Rounding u) (ls : List ℝ) :
    ∀ (c0 L0 e0 M : ℝ), |c0 - L0| ≤ e0 → |L0| ≤ M → |exactAcc L0 ls| ≤ M →
      ∃ c, (⟨.fin c0⟩ : LogRepF XReal).iaddAll (roundedPrims R)
          (ls.map fun l => .rep ⟨.fin l⟩) = ⟨.fin c⟩ ∧
        |c - exactAcc L0 ls| ≤ (1 + u) ^ ls.length * e0 + ((1 + u) ^ ls.length - 1) * (M + 3) := by
  have h0 := u_nonneg (R.exp_le 0)
  induction ls with
  | nil =>
    intro c0 L0 e0 M h1 _ _
    exact ⟨c0, rfl, by simpa [exactAcc] using h1⟩
  | cons l ls ih =>
    intro c0 L0 e0 M h1 hL0 hLn
    obtain ⟨c1, hc1, hb1⟩ := logSumExp_rounded_simple hu R c0 l
    set L1 := Real.log (Real.exp L0 + Real.exp l) with hL1
    set L1' := Real.log (Real.exp c0 + Real.exp l) with hL1'
    have hlip : |L1' - L1| ≤ e0 := (lse_lipschitz c0 L0 l).trans h1
    have hL1M : |L1| ≤ M := by
      have h2 := le_lse L0 l
      have h3 := le_exactAcc L1 ls
      rw [exactAcc] at hLn
      have := abs_le.mp hL0; have := abs_le.mp hLn
      rw [abs_le]; constructor <;> linarith
    have hL1'abs : |L1'| ≤ M + e0 := by
      have : L1' = L1 + (L1' - L1) := by ring
      calc |L1'| = |L1 + (L1' - L1)| := by rw [← this]
        _ ≤ |L1| + |L1' - L1| := abs_add_le _ _
        _ ≤ M + e0 := add_le_add hL1M hlip
    have he1 : |c1 - L1| ≤ (1 + u) * e0 + u * (M + 3) := by
      have : c1 - L1 = (c1 - L1') + (L1' - L1) := by ring
      calc |c1 - L1| = |(c1 - L1') + (L1' - L1)| := by rw [this]
        _ ≤ |c1 - L1'| + |L1' - L1| := abs_add_le _ _
        _ ≤ (u * |L1'| + 3 * u) + e0 := add_le_add hb1 hlip
        _ ≤ (1 + u) * e0 + u * (M + 3) := by
            have := mul_le_mul_of_nonneg_left hL1'abs h0; linarith
    obtain ⟨c, hc, hb⟩ := ih c1 L1 _ M he1 hL1M (by rwa [exactAcc] at hLn)
    refine ⟨c, ?_, ?_⟩
    · simp only [List.map_cons, LogRepF.iaddAll, List.foldl_cons, LogRepF.iadd, hc1]
      exact hc
    · rw [exactAcc]
      refine hb.trans (le_of_eq ?_)
      simp only [List.length_cons, pow_succ]
      ring

/-- **Sequences of in-place accumulations** `x += y₁; …; x += yₙ` of `LogRepFloat`s with finite
log-values (`u ≤ 1/8`): the final log-value `c` is finite and
`|c - L| ≤ ((1+u)^n - 1)·(max(|l₀|, |L|) + 3)` (`≈ n·u·(max(|l₀|,|L|) + 3)`), where
`L = log(e^{l₀} + Σ e^{lᵢ})` — the error grows linearly with the number of accumulations and
is otherwise independent of the magnitudes and the order of the operands (the exact partial
sums are increasing, `log_sum_exp` is 1-Lipschitz in its accumulated argument). -/
theorem iadd_sequence_rounded (hu : u ≤ 1 / 8) (R : Rounding u) (l0 : ℝ) (ls : List ℝ) :
    ∃ c, (⟨.fin l0⟩ : LogRepF XReal).iaddAll (roundedPrims R) (ls.map fun l => .rep ⟨.fin l⟩)
        = ⟨.fin c⟩ ∧
      Real.exp (exactAcc l0 ls) = Real.exp l0 + (ls.map Real.exp).sum ∧
      |c - exactAcc l0 ls| ≤
        ((1 + u) ^ ls.length - 1) * (max |l0| |exactAcc l0 ls| + 3) := by
  obtain ⟨c, hc, hb⟩ := acc_step hu R ls l0 l0 0 (max |l0| |exactAcc l0 ls|) (by simp)
    (le_max_left _ _) (le_max_right _ _)
  exact ⟨c, hc, exp_exactAcc l0 ls, by simpa using hb⟩

example : ∃ c, (⟨.fin (-800)⟩ : LogRepF XReal).iaddAll
    (roundedPrims (Rounding.exact (u := 1 / 2 ^ 53) (by positivity)))
    ([-800, -801, 3].map fun l => .rep ⟨.fin l⟩) = ⟨.fin c⟩ :=
  (iadd_sequence_rounded (by norm_num) _ _ _).imp fun _ h => h.1

/-- **`x += v` with a plain number `v`** (mixed in-place addition): `v = 0` leaves `x` unchanged;
for `v > 0` the operand is converted with one rounded `log` and accumulated with `log_sum_exp`:
`|c - L| ≤ u·|L| + 3u + (1+u)·u·|log v|`, `L = log(e^l + v)`. -/
theorem logRep_iadd_plain_rounded (hu : u ≤ 1 / 8) (R : Rounding u) (l v : ℝ) :
    (v = 0 → (⟨.fin l⟩ : LogRepF XReal).iadd (roundedPrims R) (.plain (.fin v)) = ⟨.fin l⟩) ∧
    (0 < v → ∃ c, (⟨.fin l⟩ : LogRepF XReal).iadd (roundedPrims R) (.plain (.fin v)) = ⟨.fin c⟩ ∧
      |c - Real.log (Real.exp l + v)| ≤
        u * |Real.log (Real.exp l + v)| + 3 * u + (1 + u) * u * |Real.log v|) := by
  have h0 := u_nonneg (R.exp_le 0)
  constructor
  · intro hv
    simp only [LogRepF.iadd, rzero, req_fin, hv, decide_true, if_true]
  · intro hv
    have hne : ¬ (v = 0) := hv.ne'
    set w := Real.log v * (1 + R.dLog v) with hw
    obtain ⟨c, hc, hb⟩ := logSumExp_rounded_simple hu R l w
    refine ⟨c, ?_, ?_⟩
    · simp only [LogRepF.iadd, rzero, req_fin, hne, decide_false, Bool.false_eq_true, if_false,
        rlog_fin R hv]
      rw [← hw, hc]
    · set L' := Real.log (Real.exp l + Real.exp w) with hL'
      have hLv : Real.log (Real.exp l + v) = Real.log (Real.exp l + Real.exp (Real.log v)) := by
        rw [Real.exp_log hv]
      rw [hLv]
      set L := Real.log (Real.exp l + Real.exp (Real.log v)) with hL
      have hwl : |w - Real.log v| ≤ u * |Real.log v| := by
        have := abs_scale_sub_le (x := Real.log v) (y := Real.log v) (A := 0) (by simp) (R.log_le v)
        linarith
      have hlip : |L' - L| ≤ u * |Real.log v| := by
        have := lse_lipschitz w (Real.log v) l
        rw [add_comm (Real.exp w), add_comm (Real.exp (Real.log v))] at this
        exact this.trans hwl
      have hL'abs : |L'| ≤ |L| + u * |Real.log v| := by
        have : L' = L + (L' - L) := by ring
        calc |L'| = |L + (L' - L)| := by rw [← this]
          _ ≤ |L| + |L' - L| := abs_add_le _ _
          _ ≤ |L| + u * |Real.log v| := by linarith
      have : c - L = (c - L') + (L' - L) := by ring
      calc |c - L| = |(c - L') + (L' - L)| := by rw [this]
        _ ≤ |c - L'| + |L' - L| := abs_add_le _ _
        _ ≤ (u * |L'| + 3 * u) + u * |Real.log v| := add_le_add hb hlip
        _ ≤ u * |L| + 3 * u + (1 + u) * u * |Real.log v| := by
            have := mul_le_mul_of_nonneg_left hL'abs h0; nlinarith

example : ∃ c, (⟨.fin (-800)⟩ : LogRepF XReal).iadd
    (roundedPrims (Rounding.exact (u := 1 / 8) (by norm_num))) (.plain (.fin 3)) = ⟨.fin c⟩ :=
  ((logRep_iadd_plain_rounded (by norm_num) _ _ _).2 (by norm_num)).imp fun _ h => h.1

/-! ## The pivot matters -/

/-- **`log_sum_exp` must take the larger operand as pivot**: with the smaller one
(`val1 + log1p_exp(val2 - val1)`, `val1 < val2`) a single admissible rounding — of the inner
addition `d + log1p(exp(-d))`, `d = val2 - val1` — gives the error `u·(L - val1) ≥ u·(val2 - val1)`,
which is unbounded relative to `u·|L| + 3u` (the bound of `logSumExp_rounded_simple` for the
code): e.g. `val1 = -10^10`, `val2 = 1`. -/
theorem unordered_pivot_loses_accuracy (hu0 : 0 ≤ u) (a b : ℝ) (hab : a < b)
    (hne : a ≠ b - a) :
    ∃ (R : Rounding u) (c : ℝ), logSumExpUnordered (roundedPrims R) (.fin a) (.fin b) = .fin c ∧
      c - Real.log (Real.exp a + Real.exp b) = u * (Real.log (Real.exp a + Real.exp b) - a) ∧
      u * (b - a) ≤ c - Real.log (Real.exp a + Real.exp b) := by
  set d := b - a with hd
  set t := Real.log (1 + Real.exp (-d)) with ht
  have hdpos : 0 < d := by linarith
  have htpos : 0 < t := Real.log_pos (by have := Real.exp_pos (-d); linarith)
  have hL : Real.log (Real.exp a + Real.exp b) = a + (d + t) := by
    rw [← log_sum_exp_branch a b, ← log1p_exp_pos_branch d]
  refine ⟨Rounding.onlyAddAt d t u (by rw [abs_of_nonneg hu0]), (a + (d + t) * (1 + u)), ?_, ?_, ?_⟩
  · have harg : -1 < Real.exp (-d) * (1 + 0) := by have := Real.exp_pos (-d); linarith
    have h1 : (Rounding.onlyAddAt (u := u) d t u (by rw [abs_of_nonneg hu0])).dAdd d t = u := by
      simp [Rounding.onlyAddAt]
    have h2 : ∀ y, (Rounding.onlyAddAt (u := u) d t u (by rw [abs_of_nonneg hu0])).dAdd a y = 0 := by
      intro y; simp [Rounding.onlyAddAt, hne]
    have hsub : (Rounding.onlyAddAt (u := u) d t u (by rw [abs_of_nonneg hu0])).dSub b a = 0 := rfl
    have hexp : ∀ x, (Rounding.onlyAddAt (u := u) d t u (by rw [abs_of_nonneg hu0])).dExp x = 0 :=
      fun _ => rfl
    have hl1p : ∀ x, (Rounding.onlyAddAt (u := u) d t u (by rw [abs_of_nonneg hu0])).dLog1p x = 0 :=
      fun _ => rfl
    unfold logSumExpUnordered
    rw [req_negInf]
    simp only [Bool.false_eq_true, if_false, rsub_fin, hsub, add_zero, mul_one]
    unfold log1pExp
    simp only [rzero, rlt_fin, ← hd, hdpos, decide_true, if_true, rneg_fin, rexp_fin, hexp]
    rw [rlog1p_fin _ harg]
    simp only [hl1p, add_zero, mul_one, ← ht, radd_fin, h1, h2]
  · rw [hL]; ring
  · rw [hL]
    have : u * d ≤ u * (d + t) := mul_le_mul_of_nonneg_left (by linarith) hu0
    linarith [this]

example : ∃ (R : Rounding (1 / 2 ^ 53 : ℝ)) (c : ℝ),
    logSumExpUnordered (roundedPrims R) (.fin (-(10 ^ 10))) (.fin 1) = .fin c ∧
    1 / 2 ^ 53 * (1 - -(10 ^ 10)) ≤ c - Real.log (Real.exp (-(10 ^ 10)) + Real.exp 1) := by
  obtain ⟨R, c, h1, _, h3⟩ := unordered_pivot_loses_accuracy (u := 1 / 2 ^ 53) (by positivity)
    (-(10 ^ 10)) 1 (by norm_num) (by norm_num)
  exact ⟨R, c, h1, h3⟩

end MiciVerif.C20R
