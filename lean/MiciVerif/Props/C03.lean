/-
C03 — integrator steps are symplectic.

Property theorems only (definitions are in `Model/IntegratorsTangent.lean`, predicates and helper
lemmas in `Lemmas/IntegratorsSymplectic.lean`).  Everything is for every dimension `n`, every field
`K`, every time step / coefficient list / number of steps / direction flag; no bounds.

Conventions: coordinates are ordered `(q, p) = (Sum.inl, Sum.inr)`, `Matrix.J = [[0, −1], [1, 0]]`,
`M ∈ symplecticGroup (Fin n) K ↔ M * J * Mᵀ = J ↔ Mᵀ * J * M = J`.

Trusted fact (not formalised): for a NON-linear smooth `g` with Jacobian field `H`, the matrix
propagated by `kickT g H` / `driftT` / `harmonicT` through a composition is the derivative of the
composed map — this is the chain rule.  For LINEAR systems (affine `g`) the statement is proved
here exactly (`symComp_lift_exact`), for polynomial targets the harness compares the propagated
matrix with finite differences of the real code.
-/
import MiciVerif.Lemmas.IntegratorsSymplectic
import Mathlib.Tactic.FieldSimp
import Mathlib.Tactic.LinearCombination
import Mathlib.Tactic.Module

namespace MiciVerif.C03
open MiciVerif.Integrators Matrix

variable {K : Type*} [Field K] {n : Nat}

/-! ### 1. The three elementary Jacobians are symplectic -/

/-- Jacobian of `h1_flow` (`p -= t ∇h1(q)`) with symmetric Hessian `H`. -/
theorem kickJac_mem (t : K) (H : Mat n K) (hH : Hᵀ = H) :
    kickJac t H ∈ symplecticGroup (Fin n) K := by
  rw [kickJac, SymplecticGroup.fromBlocks_mem_iff]
  simp [transpose_smul, hH]

example : kickJac (3 : ℚ) !![2, 1; 1, 5] ∈ symplecticGroup (Fin 2) ℚ :=
  kickJac_mem _ _ (by ext i j; fin_cases i <;> fin_cases j <;> rfl)

/-- Jacobian of the Euclidean `h2_flow` (`q += t M⁻¹ p`) with symmetric `N = M⁻¹`. -/
theorem driftJac_mem (t : K) (N : Mat n K) (hN : Nᵀ = N) :
    driftJac t N ∈ symplecticGroup (Fin n) K := by
  rw [driftJac, SymplecticGroup.fromBlocks_mem_iff]
  simp [transpose_smul, hN]

example : driftJac (-1 / 2 : ℚ) !![2, 1; 1, 5] ∈ symplecticGroup (Fin 2) ℚ :=
  driftJac_mem _ _ (by ext i j; fin_cases i <;> fin_cases j <;> rfl)

/-- Jacobian of the Gaussian-split `h2_flow` (exact harmonic-oscillator flow in the eigenbasis):
orthogonal `Q`, `cᵢ² + sᵢ² = 1`, `ωᵢ ≠ 0`. -/
theorem harmonicJac_mem (Q : Mat n K) (ω : Fin n → K) (T : Trig n K) (hQ : Qᵀ * Q = 1)
    (hT : ∀ i, T.c i ^ 2 + T.s i ^ 2 = 1) (hω : ∀ i, ω i ≠ 0) :
    harmonicJac Q ω T ∈ symplecticGroup (Fin n) K := by
  have hQ' : Q * Qᵀ = 1 := _root_.mul_eq_one_comm.mp hQ
  rw [harmonicJac, SymplecticGroup.fromBlocks_mem_iff]
  simp only [transpose_neg, conj_transpose, Matrix.mul_neg, Matrix.neg_mul, conj_mul Q hQ,
    sub_neg_eq_add]
  refine ⟨by rw [mul_comm], by rw [mul_comm], ?_⟩
  rw [← Matrix.add_mul, ← Matrix.mul_add]
  have hd : diagonal (T.c * T.c) + diagonal (T.s / ω * (T.s * ω)) = (1 : Mat n K) := by
    rw [diagonal_add, ← diagonal_one]
    congr 1
    funext i
    have h1 := hT i
    have h2 := hω i
    simp only [Pi.mul_apply, Pi.div_apply]
    field_simp
    linear_combination h1
  rw [hd, Matrix.mul_one, hQ']

/-- Non-trivial instance: a rotation by the 3-4-5 angle as `Q`, 3-4-5 and 5-12-13 as `(cos, sin)`. -/
example : harmonicJac (!![3 / 5, -4 / 5; 4 / 5, 3 / 5] : Mat 2 ℚ) ![2, 1 / 3]
    ⟨![3 / 5, 5 / 13], ![4 / 5, -12 / 13]⟩ ∈ symplecticGroup (Fin 2) ℚ := by
  refine harmonicJac_mem _ _ _ ?_ ?_ ?_
  · ext i j; fin_cases i <;> fin_cases j <;> norm_num [Matrix.mul_apply, Fin.sum_univ_two]
  · intro i; fin_cases i <;> norm_num
  · intro i; fin_cases i <;> norm_num

/-! ### 2. Products of elementary Jacobians: symplectic, determinant one -/

theorem elementary_mem {M : Mat2 n K} (h : Elementary M) : M ∈ symplecticGroup (Fin n) K := by
  cases h with
  | kick t H hH => exact kickJac_mem t H hH
  | drift t N hN => exact driftJac_mem t N hN
  | harmonic Q ω T hQ hT hω => exact harmonicJac_mem Q ω T hQ hT hω

/-- Any product of any number of elementary Jacobians (any step sizes, any symmetric Hessians
evaluated anywhere) is symplectic. -/
theorem elementary_prod_mem (L : List (Mat2 n K)) (h : ∀ M ∈ L, Elementary M) :
    L.prod ∈ symplecticGroup (Fin n) K :=
  Submonoid.list_prod_mem _ fun M hM => elementary_mem (h M hM)

/-- Volume preservation. -/
theorem elementary_prod_det (L : List (Mat2 n K)) (h : ∀ M ∈ L, Elementary M) :
    L.prod.det = 1 :=
  SymplecticGroup.det_eq_one (elementary_prod_mem L h)

example : ∀ M ∈ [kickJac (3 : ℚ) !![2, 1; 1, 5], driftJac (-1 / 2 : ℚ) !![2, 1; 1, 5],
    kickJac (3 : ℚ) !![0, 7; 7, 1]], Elementary M := by
  have hs : ∀ a b c : ℚ, (!![a, b; b, c] : Mat 2 ℚ)ᵀ = !![a, b; b, c] := by
    intro a b c; ext i j; fin_cases i <;> fin_cases j <;> rfl
  intro M hM
  simp only [List.mem_cons, List.not_mem_nil, or_false] at hM
  rcases hM with rfl | rfl | rfl
  · exact .kick _ _ (hs _ _ _)
  · exact .drift _ _ (hs _ _ _)
  · exact .kick _ _ (hs _ _ _)

/-! ### 3. Tangent-lifted composition steps -/

private theorem elemLift_spec {FT : K → TState n K → TState n K}
    {f : K → Phase n K → Phase n K} (h : ElemLift FT f) (t : K) (x : Phase n K) :
    ∃ M, Elementary M ∧ ∀ D, FT t (x, D) = (f t x, M * D) := by
  cases h with
  | kick g H hH => exact ⟨kickJac t (H x.1), .kick _ _ (hH _), fun _ => rfl⟩
  | drift N hN => exact ⟨driftJac t N, .drift _ _ hN, fun _ => rfl⟩
  | harmonic Q ω trig hQ hT hω =>
    exact ⟨harmonicJac Q ω (trig t), .harmonic _ _ _ hQ (hT t) hω, fun _ => rfl⟩

/-- `SymmetricCompositionIntegrator._step` run on tangent-lifted flows: for ANY coefficient list
and ANY list of flows each of which is a kick / drift / harmonic flow with symmetric data, the
lifted step projects onto the base step, and multiplies the carried matrix on the left by a product
of elementary Jacobians (which depends on `t` and `x`, not on `D`). -/
theorem symComp_lift_eq (coeffs : List K) {flowsT : List (K → TState n K → TState n K)}
    {flows : List (K → Phase n K → Phase n K)} (h : List.Forall₂ ElemLift flowsT flows)
    (t : K) (x : Phase n K) :
    ∃ L : List (Mat2 n K), (∀ M ∈ L, Elementary M) ∧
      ∀ D, symComp coeffs flowsT t (x, D) = (symComp coeffs flows t x, L.prod * D) := by
  induction h generalizing coeffs x with
  | nil => exact ⟨[], by simp, fun D => by simp [symComp_nil_right]⟩
  | @cons FT f FTs fs hFf _ ih =>
    cases coeffs with
    | nil => exact ⟨[], by simp, fun D => by simp [symComp_nil_left]⟩
    | cons c cs =>
      obtain ⟨M, hM, hMD⟩ := elemLift_spec hFf (c * t) x
      obtain ⟨L, hL, hLD⟩ := ih cs (f (c * t) x)
      refine ⟨L ++ [M], ?_, fun D => ?_⟩
      · intro M' hM'
        rcases List.mem_append.mp hM' with h' | h'
        · exact hL M' h'
        · rw [List.mem_singleton.mp h']; exact hM
      · rw [symComp_cons, symComp_cons, hMD, hLD]
        simp [Matrix.mul_assoc]

/-- The composition step is a symplectic lift (used for `steps` below). -/
theorem symComp_sympLift (coeffs : List K) {flowsT : List (K → TState n K → TState n K)}
    {flows : List (K → Phase n K → Phase n K)} (h : List.Forall₂ ElemLift flowsT flows) :
    SympLift (symComp coeffs flowsT) (symComp coeffs flows) := by
  intro t x
  obtain ⟨L, hL, hLD⟩ := symComp_lift_eq coeffs h t x
  exact ⟨L.prod, elementary_prod_mem L hL, hLD⟩

/-- The Jacobian propagated through any composition step stays in the symplectic group, and the
lift projects onto the base step. -/
theorem symComp_jac_mem (coeffs : List K) {flowsT : List (K → TState n K → TState n K)}
    {flows : List (K → Phase n K → Phase n K)} (h : List.Forall₂ ElemLift flowsT flows)
    (t : K) (x : Phase n K) (D : Mat2 n K) (hD : D ∈ symplecticGroup (Fin n) K) :
    (symComp coeffs flowsT t (x, D)).2 ∈ symplecticGroup (Fin n) K ∧
      (symComp coeffs flowsT t (x, D)).1 = symComp coeffs flows t x := by
  obtain ⟨M, hM, hMD⟩ := symComp_sympLift coeffs h t x
  rw [hMD D]
  exact ⟨Submonoid.mul_mem _ hM hD, rfl⟩

/-- Volume preservation of any composition step. -/
theorem symComp_jac_det (coeffs : List K) {flowsT : List (K → TState n K → TState n K)}
    {flows : List (K → Phase n K → Phase n K)} (h : List.Forall₂ ElemLift flowsT flows)
    (t : K) (x : Phase n K) :
    (symComp coeffs flowsT t (initT x)).2.det = 1 :=
  SymplecticGroup.det_eq_one (symComp_jac_mem coeffs h t x 1 (Submonoid.one_mem _)).1

/-- `SymmetricCompositionIntegrator(system, free_coefficients, initial_h1_flow_step)`: for every
list of free coefficients and both choices of the initial flow, the step is a symplectic lift. -/
theorem mkSymComp_sympLift {h1T h2T : K → TState n K → TState n K}
    {h1 h2 : K → Phase n K → Phase n K} (e1 : ElemLift h1T h1) (e2 : ElemLift h2T h2)
    (free : List K) (initialH1 : Bool) :
    SympLift (mkSymComp h1T h2T free initialH1).stepT (mkSymComp h1 h2 free initialH1).stepT := by
  unfold SymCompIntegrator.stepT mkSymComp
  cases initialH1
  · exact symComp_sympLift _ (forall₂_flowsList ElemLift e2 e1 _)
  · exact symComp_sympLift _ (forall₂_flowsList ElemLift e1 e2 _)

theorem mkSymComp_jac_mem {h1T h2T : K → TState n K → TState n K}
    {h1 h2 : K → Phase n K → Phase n K} (e1 : ElemLift h1T h1) (e2 : ElemLift h2T h2)
    (free : List K) (initialH1 : Bool) (t : K) (x : Phase n K) (D : Mat2 n K)
    (hD : D ∈ symplecticGroup (Fin n) K) :
    ((mkSymComp h1T h2T free initialH1).stepT t (x, D)).2 ∈ symplecticGroup (Fin n) K ∧
      ((mkSymComp h1T h2T free initialH1).stepT t (x, D)).1
        = (mkSymComp h1 h2 free initialH1).stepT t x := by
  obtain ⟨M, hM, hMD⟩ := mkSymComp_sympLift e1 e2 free initialH1 t x
  rw [hMD D]
  exact ⟨Submonoid.mul_mem _ hM hD, rfl⟩

/-- `LeapfrogIntegrator._step`. -/
theorem leapfrog_sympLift {h1T h2T : K → TState n K → TState n K}
    {h1 h2 : K → Phase n K → Phase n K} (e1 : ElemLift h1T h1) (e2 : ElemLift h2T h2) :
    SympLift (leapfrog h1T h2T) (leapfrog h1 h2) := by
  intro t x
  obtain ⟨M₁, hM₁, h₁⟩ := elemLift_spec e1 (1 / 2 * t) x
  obtain ⟨M₂, hM₂, h₂⟩ := elemLift_spec e2 t (h1 (1 / 2 * t) x)
  obtain ⟨M₃, hM₃, h₃⟩ := elemLift_spec e1 (1 / 2 * t) (h2 t (h1 (1 / 2 * t) x))
  refine ⟨M₃ * (M₂ * M₁), ?_, fun D => ?_⟩
  · exact Submonoid.mul_mem _ (elementary_mem hM₃)
      (Submonoid.mul_mem _ (elementary_mem hM₂) (elementary_mem hM₁))
  · simp only [leapfrog, h₁, h₂, h₃, Matrix.mul_assoc]

theorem leapfrog_jac_mem {h1T h2T : K → TState n K → TState n K}
    {h1 h2 : K → Phase n K → Phase n K} (e1 : ElemLift h1T h1) (e2 : ElemLift h2T h2)
    (t : K) (x : Phase n K) (D : Mat2 n K) (hD : D ∈ symplecticGroup (Fin n) K) :
    (leapfrog h1T h2T t (x, D)).2 ∈ symplecticGroup (Fin n) K ∧
      (leapfrog h1T h2T t (x, D)).1 = leapfrog h1 h2 t x := by
  obtain ⟨M, hM, hMD⟩ := leapfrog_sympLift e1 e2 t x
  rw [hMD D]
  exact ⟨Submonoid.mul_mem _ hM hD, rfl⟩

/-- Any number `m` of `Integrator.step` calls with any step size `ε` and any direction flag
(`dir = ±1` in the code, arbitrary here): the propagated matrix stays symplectic, the base point
follows the base trajectory, the direction flag is unchanged. -/
theorem steps_jac_mem {FT : K → TState n K → TState n K} {f : K → Phase n K → Phase n K}
    (h : SympLift FT f) (ε : K) (m : Nat) (x : Phase n K) (D : Mat2 n K) (dir : K)
    (hD : D ∈ symplecticGroup (Fin n) K) :
    (steps FT ε m ⟨(x, D), dir⟩).x.2 ∈ symplecticGroup (Fin n) K ∧
      (steps FT ε m ⟨(x, D), dir⟩).x.1 = (steps f ε m ⟨x, dir⟩).x ∧
      (steps FT ε m ⟨(x, D), dir⟩).dir = dir := by
  obtain ⟨M, hM, hMD⟩ := steps_sympLift h ε m x dir
  rw [hMD D]
  exact ⟨Submonoid.mul_mem _ hM hD, rfl, rfl⟩

/-- `m` steps of any symmetric composition integrator (BCSS two/three/four-stage, leapfrog as
`free = []`, …), either direction. -/
theorem steps_mkSymComp_jac_mem {h1T h2T : K → TState n K → TState n K}
    {h1 h2 : K → Phase n K → Phase n K} (e1 : ElemLift h1T h1) (e2 : ElemLift h2T h2)
    (free : List K) (initialH1 : Bool) (ε : K) (m : Nat) (x : Phase n K) (D : Mat2 n K) (dir : K)
    (hD : D ∈ symplecticGroup (Fin n) K) :
    (steps (mkSymComp h1T h2T free initialH1).stepT ε m ⟨(x, D), dir⟩).x.2
        ∈ symplecticGroup (Fin n) K ∧
      (steps (mkSymComp h1T h2T free initialH1).stepT ε m ⟨(x, D), dir⟩).x.1
        = (steps (mkSymComp h1 h2 free initialH1).stepT ε m ⟨x, dir⟩).x :=
  let h := steps_jac_mem (mkSymComp_sympLift e1 e2 free initialH1) ε m x D dir hD
  ⟨h.1, h.2.1⟩

/-- `m` leapfrog steps, either direction. -/
theorem steps_leapfrog_jac_mem {h1T h2T : K → TState n K → TState n K}
    {h1 h2 : K → Phase n K → Phase n K} (e1 : ElemLift h1T h1) (e2 : ElemLift h2T h2)
    (ε : K) (m : Nat) (x : Phase n K) (D : Mat2 n K) (dir : K)
    (hD : D ∈ symplecticGroup (Fin n) K) :
    (steps (leapfrog h1T h2T) ε m ⟨(x, D), dir⟩).x.2 ∈ symplecticGroup (Fin n) K ∧
      (steps (leapfrog h1T h2T) ε m ⟨(x, D), dir⟩).x.1 = (steps (leapfrog h1 h2) ε m ⟨x, dir⟩).x :=
  let h := steps_jac_mem (leapfrog_sympLift e1 e2) ε m x D dir hD
  ⟨h.1, h.2.1⟩

/-- Volume preservation of `m` steps started from the identity Jacobian. -/
theorem steps_jac_det {FT : K → TState n K → TState n K} {f : K → Phase n K → Phase n K}
    (h : SympLift FT f) (ε : K) (m : Nat) (x : Phase n K) (dir : K) :
    (steps FT ε m ⟨initT x, dir⟩).x.2.det = 1 :=
  SymplecticGroup.det_eq_one (steps_jac_mem h ε m x 1 dir (Submonoid.one_mem _)).1

/-- Non-vacuity: a genuinely non-linear gradient field (`g q = (q₀³ + q₁, q₀)`, the gradient of
`q₀⁴/4 + q₀ q₁`, Hessian `[[3 q₀², 1], [1, 0]]`), a non-diagonal symmetric inverse metric, and the
Gaussian-split flow with a rotation as eigenvector matrix. -/
example : ElemLift (n := 2) (K := ℚ)
    (kickT (fun q => ![q 0 ^ 3 + q 1, q 0]) (fun q => !![3 * q 0 ^ 2, 1; 1, 0]))
    (kick (fun q => ![q 0 ^ 3 + q 1, q 0])) :=
  .kick _ _ (by intro q; ext i j; fin_cases i <;> fin_cases j <;> rfl)

example : ElemLift (n := 2) (K := ℚ) (driftT !![2, 1; 1, 5]) (drift (!![2, 1; 1, 5] : Mat 2 ℚ).mulVec) :=
  .drift _ (by ext i j; fin_cases i <;> fin_cases j <;> rfl)

/-- `trig t = ((1 − t²)/(1 + t²), 2t/(1 + t²))` is a rational parametrisation of the circle. -/
example : ElemLift (n := 2) (K := ℚ)
    (harmonicT !![3 / 5, -4 / 5; 4 / 5, 3 / 5] ![2, 1 / 3]
      (fun t => ⟨fun _ => (1 - t ^ 2) / (1 + t ^ 2), fun _ => 2 * t / (1 + t ^ 2)⟩))
    (harmonic !![3 / 5, -4 / 5; 4 / 5, 3 / 5] ![2, 1 / 3]
      (fun t => ⟨fun _ => (1 - t ^ 2) / (1 + t ^ 2), fun _ => 2 * t / (1 + t ^ 2)⟩)) := by
  refine .harmonic _ _ _ ?_ ?_ ?_
  · ext i j; fin_cases i <;> fin_cases j <;> norm_num [Matrix.mul_apply, Fin.sum_univ_two]
  · intro t i
    have : (1 + t ^ 2 : ℚ) ≠ 0 := by positivity
    field_simp
    ring
  · intro i; fin_cases i <;> norm_num

example : (1 : Mat2 2 ℚ) ∈ symplecticGroup (Fin 2) ℚ := Submonoid.one_mem _

/-! ### 4. For linear systems the lifted matrix is exactly the derivative of the step -/

/-- `h1_flow` with an affine gradient `g q = A q + b` (quadratic potential). -/
theorem kick_linear (A : Mat n K) (b : Fin n → K) (t : K) (x δ : Phase n K) :
    kick (fun q => A.mulVec q + b) t (x + δ)
      = kick (fun q => A.mulVec q + b) t x + unpack ((kickJac t A).mulVec (pack δ)) := by
  rw [kickJac, unpack_mulVec]
  ext i
  · simp [kick]
  · simp [kick, mulVec_add, smul_mulVec, neg_mulVec]; ring

theorem drift_linear (N : Mat n K) (t : K) (x δ : Phase n K) :
    drift N.mulVec t (x + δ) = drift N.mulVec t x + unpack ((driftJac t N).mulVec (pack δ)) := by
  rw [driftJac, unpack_mulVec]
  ext i
  · simp [drift, mulVec_add, smul_mulVec]; ring
  · simp [drift]

theorem harmonic_linear (Q : Mat n K) (ω : Fin n → K) (trig : K → Trig n K) (t : K)
    (x δ : Phase n K) :
    harmonic Q ω trig t (x + δ)
      = harmonic Q ω trig t x + unpack ((harmonicJac Q ω (trig t)).mulVec (pack δ)) := by
  rw [harmonicJac, unpack_mulVec]
  simp only [harmonic, conj_mulVec, neg_mulVec, Prod.fst_add, Prod.snd_add]
  refine Prod.ext ?_ ?_
  · simp only [Prod.fst_add, ← mulVec_add]
    congr 1; funext j; simp [mulVec_add]; ring
  · simp only [Prod.snd_add, ← mulVec_neg, ← mulVec_add]
    congr 1; funext j; simp [mulVec_add]; ring

private theorem linLift_spec {FT : K → TState n K → TState n K}
    {f : K → Phase n K → Phase n K} (h : LinLift FT f) (t : K) :
    ∃ M : Mat2 n K, (∀ x D, FT t (x, D) = (f t x, M * D)) ∧
      ∀ x δ, f t (x + δ) = f t x + unpack (M.mulVec (pack δ)) := by
  cases h with
  | kick A b => exact ⟨kickJac t A, fun _ _ => rfl, kick_linear A b t⟩
  | drift N => exact ⟨driftJac t N, fun _ _ => rfl, drift_linear N t⟩
  | harmonic Q ω trig => exact ⟨harmonicJac Q ω (trig t), fun _ _ => rfl, harmonic_linear Q ω trig t⟩

private theorem symComp_lin (coeffs : List K) {flowsT : List (K → TState n K → TState n K)}
    {flows : List (K → Phase n K → Phase n K)} (h : List.Forall₂ LinLift flowsT flows) (t : K) :
    ∃ M : Mat2 n K, (∀ x D, symComp coeffs flowsT t (x, D) = (symComp coeffs flows t x, M * D)) ∧
      ∀ x δ, symComp coeffs flows t (x + δ)
        = symComp coeffs flows t x + unpack (M.mulVec (pack δ)) := by
  induction h generalizing coeffs with
  | nil =>
    refine ⟨1, fun x D => by simp [symComp_nil_right], fun x δ => ?_⟩
    simp [symComp_nil_right, unpack_pack]
  | @cons FT f FTs fs hFf _ ih =>
    cases coeffs with
    | nil =>
      refine ⟨1, fun x D => by simp [symComp_nil_left], fun x δ => ?_⟩
      simp [symComp_nil_left, unpack_pack]
    | cons c cs =>
      obtain ⟨M, hMD, hMδ⟩ := linLift_spec hFf (c * t)
      obtain ⟨L, hLD, hLδ⟩ := ih cs
      refine ⟨L * M, fun x D => ?_, fun x δ => ?_⟩
      · rw [symComp_cons, symComp_cons, hMD, hLD, Matrix.mul_assoc]
      · rw [symComp_cons, symComp_cons, hMδ, hLδ, pack_unpack, mulVec_mulVec]

/-- For a linear system (every kick has an affine gradient) the matrix propagated by the lifted
composition step from the identity is EXACTLY the derivative of the base step: the step is affine
and its increment is that matrix applied to the increment of the input. No symmetry needed. -/
theorem symComp_lift_exact (coeffs : List K) {flowsT : List (K → TState n K → TState n K)}
    {flows : List (K → Phase n K → Phase n K)} (h : List.Forall₂ LinLift flowsT flows)
    (t : K) (x δ : Phase n K) :
    symComp coeffs flows t (x + δ)
      = symComp coeffs flows t x
        + unpack ((symComp coeffs flowsT t (initT x)).2.mulVec (pack δ)) := by
  obtain ⟨M, hMD, hMδ⟩ := symComp_lin coeffs h t
  rw [initT, hMD, Matrix.mul_one]
  exact hMδ x δ

example : List.Forall₂ (LinLift (n := 2) (K := ℚ))
    [kickT (fun q => (!![2, 1; 1, 5] : Mat 2 ℚ).mulVec q + ![1, -1]) (fun _ => !![2, 1; 1, 5]),
      driftT !![1, 0; 0, 3]]
    [kick (fun q => (!![2, 1; 1, 5] : Mat 2 ℚ).mulVec q + ![1, -1]),
      drift (!![1, 0; 0, 3] : Mat 2 ℚ).mulVec] :=
  .cons (.kick _ _) (.cons (.drift _) .nil)

/-! ### 5. Implicit midpoint on quadratic Hamiltonians (Cayley transform) -/

/-- `(1 + a A) J (1 + a A)ᵀ` does not depend on the sign of `a` when `A = J S`, `S` symmetric. -/
private theorem cayley_key (S : Mat2 n K) (hS : Sᵀ = S) (a : K) :
    (1 + a • (J (Fin n) K * S)) * J (Fin n) K * (1 + a • (J (Fin n) K * S))ᵀ
      = (1 - a • (J (Fin n) K * S)) * J (Fin n) K * (1 - a • (J (Fin n) K * S))ᵀ := by
  simp only [transpose_add, transpose_sub, transpose_one, transpose_smul, transpose_mul, hS,
    J_transpose]
  simp only [Matrix.add_mul, Matrix.mul_add, Matrix.sub_mul, Matrix.mul_sub, Matrix.one_mul,
    Matrix.mul_one, Matrix.smul_mul, Matrix.mul_smul, Matrix.mul_neg, smul_neg, Matrix.mul_assoc]
  module

/-- Cayley transform: for symmetric `S`, any scalar `a` and a left inverse `X` of `1 − a J S`,
`X (1 + a J S)` is symplectic.  (With Mathlib's `J`, Hamilton's equations for `h = ½ xᵀ S x` are
`ẋ = −J S x`; both signs are covered since `a` is arbitrary.) -/
theorem cayley_mem (S : Mat2 n K) (hS : Sᵀ = S) (a : K) (X : Mat2 n K)
    (hX : X * (1 - a • (J (Fin n) K * S)) = 1) :
    X * (1 + a • (J (Fin n) K * S)) ∈ symplecticGroup (Fin n) K := by
  rw [SymplecticGroup.mem_iff, transpose_mul]
  calc X * (1 + a • (J (Fin n) K * S)) * J (Fin n) K * ((1 + a • (J (Fin n) K * S))ᵀ * Xᵀ)
      = X * ((1 + a • (J (Fin n) K * S)) * J (Fin n) K * (1 + a • (J (Fin n) K * S))ᵀ) * Xᵀ := by
        simp only [Matrix.mul_assoc]
    _ = (X * (1 - a • (J (Fin n) K * S))) * J (Fin n) K * (X * (1 - a • (J (Fin n) K * S)))ᵀ := by
        rw [cayley_key S hS, transpose_mul]; simp only [Matrix.mul_assoc]
    _ = J (Fin n) K := by rw [hX]; simp

/-- The two factors of the Cayley transform commute, so the other order is the same matrix. -/
theorem cayley_comm (A X : Mat2 n K) (a : K) (hX : X * (1 - a • A) = 1) :
    (1 + a • A) * X = X * (1 + a • A) := by
  have hX' : (1 - a • A) * X = 1 := _root_.mul_eq_one_comm.mp hX
  have hc : (1 + a • A) * (1 - a • A) = (1 - a • A) * (1 + a • A) := by
    simp only [Matrix.add_mul, Matrix.mul_add, Matrix.sub_mul, Matrix.mul_sub, Matrix.one_mul,
      Matrix.mul_one]
    abel
  calc (1 + a • A) * X = (X * (1 - a • A)) * ((1 + a • A) * X) := by rw [hX, Matrix.one_mul]
    _ = X * ((1 + a • A) * (1 - a • A)) * X := by rw [hc]; simp only [Matrix.mul_assoc]
    _ = X * (1 + a • A) * ((1 - a • A) * X) := by simp only [Matrix.mul_assoc]
    _ = X * (1 + a • A) := by rw [hX', Matrix.mul_one]

/-- `ImplicitMidpointIntegrator._step` on `h(x) = ½ xᵀ S x` (`S` symmetric), `τ = time_step / 2`:
`_step_a_fwd(τ)` solves `y = x + τ F(y)`, i.e. `(1 + τ J S) y = x`, so `y = X x` with `X` the
inverse of `1 + τ J S`; `_step_a_adj(τ)` maps `y ↦ y + τ F(y) = (1 − τ J S) y`.  The Jacobian of the
step, `midpointJac S τ X = (1 − τ J S) X`, is symplectic whenever the implicit equation is uniquely
solvable. -/
theorem implicitMidpoint_mem (S : Mat2 n K) (hS : Sᵀ = S) (τ : K) (X : Mat2 n K)
    (hX : X * (1 + τ • (jMat n K * S)) = 1) :
    midpointJac S τ X ∈ symplecticGroup (Fin n) K := by
  rw [midpointJac, jMat_eq] at *
  have hX' : X * (1 - (-τ) • (J (Fin n) K * S)) = 1 := by rw [neg_smul, sub_neg_eq_add]; exact hX
  have h := cayley_mem S hS (-τ) X hX'
  rw [← cayley_comm _ X (-τ) hX', neg_smul, ← sub_eq_add_neg] at h
  exact h

/-- The implicit-midpoint step of the code really is multiplication by `midpointJac`: if `y`
satisfies the fixed-point equation of `_step_a_fwd` exactly, the result of `_step_a_adj` is
`midpointJac S τ X` applied to the input (so the step is linear and `midpointJac` is its Jacobian). -/
theorem implicitMidpoint_linear (S : Mat2 n K) (τ : K) (X : Mat2 n K)
    (hX : X * (1 + τ • (jMat n K * S)) = 1) (x y : Fin n ⊕ Fin n → K)
    (hy : midpointFwdEq S τ x y) :
    midpointAdj S τ y = (midpointJac S τ X).mulVec x := by
  have hx : x = y - τ • hamField S y := eq_sub_of_add_eq hy.symm
  have hy' : (1 + τ • (jMat n K * S)).mulVec y = x := by
    rw [hx, hamField, add_mulVec, one_mulVec, smul_mulVec, smul_neg, sub_neg_eq_add]
  have hyx : y = X.mulVec x := by
    rw [← hy', mulVec_mulVec, hX, one_mulVec]
  rw [midpointJac, ← mulVec_mulVec, ← hyx, midpointAdj, hamField, sub_mulVec, one_mulVec,
    smul_mulVec, smul_neg, sub_eq_add_neg]

/-- Non-vacuity of the invertibility hypothesis: harmonic oscillator `S = 1` (`n = 1`), `τ = 1/2`:
`1 + τ J = [[1, −1/2], [1/2, 1]]` has inverse `(4/5) [[1, 1/2], [−1/2, 1]]`. -/
example : (fromBlocks !![4 / 5] !![2 / 5] !![-2 / 5] !![4 / 5] : Mat2 1 ℚ)
    * (1 + (1 / 2 : ℚ) • (jMat 1 ℚ * 1)) = 1 := by
  rw [jMat, Matrix.mul_one, ← fromBlocks_one, fromBlocks_smul, fromBlocks_add, fromBlocks_multiply]
  congr 1 <;> ext i j <;> fin_cases i <;> fin_cases j <;> norm_num [Matrix.mul_apply]

end MiciVerif.C03
