/-
C03 — integrator steps are symplectic.

Property theorems only (definitions are in `Model/IntegratorsTangent.lean`, predicates and helper
lemmas in `Lemmas/IntegratorsSymplectic.lean`).  Everything is for every dimension `n`, every field
`K`, every time step / coefficient list / number of steps / direction flag; no bounds.

Conventions: coordinates are ordered `(q, p) = (Sum.inl, Sum.inr)`, `Matrix.J = [[0, −1], [1, 0]]`,
`M ∈ symplecticGroup (Fin n) K ↔ M * J * Mᵀ = J ↔ Mᵀ * J * M = J`.

Trusted fact (not formalised): for a NON-linear smooth `g` with Jacobian field `H`, the matrix
propagated by `kickT g H` / `driftT` / `harmonicT` through a composition is the derivative of the
composed map — this is the chain rule.  For LINEAR systems (affine `g`) the statement is proved
here exactly (`symComp_lift_exact`), for polynomial targets the harness compares the propagated
matrix with finite differences of the real code.
-/
import MiciVerif.Lemmas.IntegratorsSymplectic
import Mathlib.Tactic.FieldSimp
import Mathlib.Tactic.LinearCombination
import Mathlib.Tactic.Module

namespace MiciVerif.C03
open MiciVerif.Integrators Matrix

variable {K : Type*} [Field K] {n : Nat}

/-! ### 1. The three elementary Jacobians are symplectic -/

/-- Jacobian of `h1_flow` (`p -= t ∇h1(q)`) with symmetric Hessian `H`. -/
theorem kickJac_mem (t : K) (H : Mat n K) (hH : Hᵀ = H) :
    kickJac t H ∈ symplecticGroup (Fin n) K := by
  rw [kickJac, SymplecticGroup.fromBlocks_mem_iff]
  simp [transpose_smul, hH]

example : kickJac (3 : ℚ) !![2, 1; 1, 5] ∈ symplecticGroup (Fin 2) ℚ :=
  kickJac_mem _ _ (by ext i j; fin_cases i <;> fin_cases j <;> rfl)

/-- Jacobian of the Euclidean `h2_flow` (`q += t M⁻¹ p`) with symmetric `N = M⁻¹`. -/
theorem driftJac_mem (t : K) (N : Mat n K) (hN : Nᵀ = N) :
    driftJac t N ∈ symplecticGroup (Fin n) K := by
  rw [driftJac, SymplecticGroup.fromBlocks_mem_iff]
  simp [transpose_smul, hN]

example : driftJac (-1 / 2 : ℚ) !![2, 1; 1, 5] ∈ symplecticGroup (Fin 2) ℚ :=
  driftJac_mem _ _ (by ext i j; fin_cases i <;> fin_cases j <;> rfl)

/-- Jacobian of the Gaussian-split `h2_flow` (exact harmonic-oscillator flow in the eigenbasis):
orthogonal `Q`, `cᵢ² + sᵢ² = 1`, `ωᵢ ≠ 0`. -/
theorem harmonicJac_mem (Q : Mat n K) (ω : Fin n → K) (T : Trig n K) (hQ : Qᵀ * Q = 1)
    (hT : ∀ i, T.c i ^ 2 + T.s i ^ 2 = 1) (hω : ∀ i, ω i ≠ 0) :
    harmonicJac Q ω T ∈ symplecticGroup (Fin n) K := by
  have hQ' : Q * Qᵀ = 1 := _root_.mul_eq_one_comm.mp hQ
  rw [harmonicJac, SymplecticGroup.fromBlocks_mem_iff]
  simp only [transpose_neg, conj_transpose, Matrix.mul_neg, Matrix.neg_mul, conj_mul Q hQ,
    sub_neg_eq_add]
  refine ⟨by rw [mul_comm], by rw [mul_comm], ?_⟩
  rw [← Matrix.add_mul, ← Matrix.mul_add]
  have hd : diagonal (T.c * T.c) + diagonal (T.s / ω * (T.s * ω)) = (1 : Mat n K) := by
    rw [diagonal_add, ← diagonal_one]
    congr 1
    funext i
    have h1 := hT i
    have h2 := hω i
    simp only [Pi.mul_apply, Pi.div_apply]
    field_simp
    linear_combination h1
  rw [hd, Matrix.mul_one, hQ']

/-- Non-trivial instance: a rotation by the 3-4-5 angle as `Q`, 3-4-5 and 5-12-13 as `(cos, sin)`. -/
example : harmonicJac (!![3 / 5, -4 / 5; 4 / 5, 3 / 5] : Mat 2 ℚ) ![2, 1 / 3]
    ⟨![3 / 5, 5 / 13], ![4 / 5, -12 / 13]⟩ ∈ symplecticGroup (Fin 2) ℚ := by
  refine harmonicJac_mem _ _ _ ?_ ?_ ?_
  · ext i j; fin_cases i <;> fin_cases j <;> norm_num [Matrix.mul_apply, Fin.sum_univ_two]
  · intro i; fin_cases i <;> norm_num
  · intro i; fin_cases i <;> norm_num

/-! ### 2. Products of elementary Jacobians: symplectic, determinant one -/

theorem elementary_mem {M : Mat2 n K} (h : Elementary M) : M ∈ symplecticGroup (Fin n) K := by
  cases h with
  | kick t H hH => exact kickJac_mem t H hH
  | drift t N hN => exact driftJac_mem t N hN
  | harmonic Q ω T hQ hT hω => exact harmonicJac_mem Q ω T hQ hT hω

/-- Any product of any number of elementary Jacobians (any step sizes, any symmetric Hessians
evaluated anywhere) is symplectic. -/
theorem elementary_prod_mem (L : List (Mat2 n K)) (h : ∀ M ∈ L, Elementary M) :
    L.prod ∈ symplecticGroup (Fin n) K :=
  Submonoid.list_prod_mem _ fun M hM => elementary_mem (h M hM)

/-- Volume preservation. -/
theorem elementary_prod_det (L : List (Mat2 n K)) (h : ∀ M ∈ L, Elementary M) :
    L.prod.det = 1 :=
  SymplecticGroup.det_eq_one (elementary_prod_mem L h)

example : ∀ M ∈ [kickJac (3 : ℚ) !![2, 1; 1, 5], driftJac (-1 / 2 : ℚ) !![2, 1; 1, 5],
    kickJac (3 : ℚ) !![0, 7; 7, 1]], Elementary M := by
  have hs : ∀ a b c : ℚ, (!![a, b; b, c] : Mat 2 ℚ)ᵀ = !![a, b; b, c] := by
    intro a b c; ext i j; fin_cases i <;> fin_cases j <;> rfl
  intro M hM
  simp only [List.mem_cons, List.not_mem_nil, or_false] at hM
  rcases hM with rfl | rfl | rfl
  · exact .kick _ _ (hs _ _ _)
  · exact .drift _ _ (hs _ _ _)
  · exact .kick _ _ (hs _ _ _)

/-! ### 3. Tangent-lifted composition steps -/

private theorem elemLift_spec {FT : K → TState n K → TState n K}
    {f : K → Phase n K → Phase n K} (h : ElemLift FT f) (t : K) (x : Phase n K) :
    ∃ M, Elementary M ∧ ∀ D, FT t (x, D) = (f t x, M * D) := by
  cases h with
  | kick g H hH => exact ⟨kickJac t (H x.1), .kick _ _ (hH _), fun _ => rfl⟩
  | drift N hN => exact ⟨driftJac t N, .drift _ _ hN, fun _ => rfl⟩
  | harmonic Q ω trig hQ hT hω =>
    exact ⟨harmonicJac Q ω (trig t), .harmonic _ _ _ hQ (hT t) hω, fun _ => rfl⟩

/-- `SymmetricCompositionIntegrator._step` run on tangent-lifted flows: for ANY coefficient list
and ANY list of flows each of which is a kick / drift / harmonic flow with symmetric data, the
lifted step projects onto the base step, and multiplies the carried matrix on the left by a product
of elementary Jacobians (which depends on `t` and `x`, not on `D`). -/
theorem symComp_lift_eq (coeffs : List K) {flowsT : List (K → TState n K → TState n K)}
    {flows : List (K → Phase n K → Phase n K)} (h : List.Forall₂ ElemLift flowsT flows)
    (t : K) (x : Phase n K) :
    ∃ L : List (Mat2 n K), (∀ M ∈ L, Elementary M) ∧
      ∀ D, symComp coeffs flowsT t (x, D) = (symComp coeffs flows t x, L.prod * D) := by
  induction h generalizing coeffs x with
  | nil => exact ⟨[], by simp, fun D => by simp [symComp_nil_right]⟩
  | @cons FT f FTs fs hFf _ ih =>
    cases coeffs with
    | nil => exact ⟨[], by simp, fun D => by simp [symComp_nil_left]⟩
    | cons c cs =>
      obtain ⟨M, hM, hMD⟩ := elemLift_spec hFf (c * t) x
      obtain ⟨L, hL, hLD⟩ := ih cs (f (c * t) x)
      refine ⟨L ++ [M], ?_, fun D => ?_⟩
      · intro M' hM'
        rcases List.mem_append.mp hM' with h' | h'
        · exact hL M' h'
        · rw [List.mem_singleton.mp h']; exact hM
      · rw [symComp_cons, symComp_cons, hMD, hLD]
        simp [Matrix.mul_assoc]

/-- The composition step is a symplectic lift (used for `steps` below). -/
theorem symComp_sympLift (coeffs : List K) {flowsT : List (K → TState n K → TState n K)}
    {flows : List (K → Phase n K → Phase n K)} (h : List.Forall₂ ElemLift flowsT flows) :
    SympLift (symComp coeffs flowsT) (symComp coeffs flows) := by
  intro t x
  obtain ⟨L, hL, hLD⟩ := symComp_lift_eq coeffs h t x
  exact ⟨L.prod, elementary_prod_mem L hL, hLD⟩

/-- The Jacobian propagated through any composition step stays in the symplectic group, and the
lift projects onto the base step. -/
theorem symComp_jac_mem (coeffs : List K) {flowsT : List (K → TState n K → TState n K)}
    {flows : List (K → Phase n K → Phase n K)} (h : List.Forall₂ ElemLift flowsT flows)
    (t : K) (x : Phase n K) (D : Mat2 n K) (hD : D ∈ symplecticGroup (Fin n) K) :
    (symComp coeffs flowsT t (x, D)).2 ∈ symplecticGroup (Fin n) K ∧
      (symComp coeffs flowsT t (x, D)).1 = symComp coeffs flows t x := by
  obtain ⟨M, hM, hMD⟩ := symComp_sympLift coeffs h t x
  rw [hMD D]
  exact ⟨Submonoid.mul_mem _ hM hD, rfl⟩

/-- Volume preservation of any composition step. -/
theorem symComp_jac_det (coeffs : List K) {flowsT : List (K → TState n K → TState n K)}
    {flows : List (K → Phase n K → Phase n K)} (h : List.Forall₂ ElemLift flowsT flows)
    (t : K) (x : Phase n K) :
    (symComp coeffs flowsT t (initT x)).2.det = 1 :=
  SymplecticGroup.det_eq_one (symComp_jac_mem coeffs h t x 1 (Submonoid.one_mem _)).1

/-- `SymmetricCompositionIntegrator(system, free_coefficients, initial_h1_flow_step)`: for every
list of free coefficients and both choices of the initial flow, the step is a symplectic lift. -/
theorem mkSymComp_sympLift {h1T h2T : K → TState n K → TState n K}
    {h1 h2 : K → Phase n K → Phase n K} (e1 : ElemLift h1T h1) (e2 : ElemLift h2T h2)
    (free : List K) (initialH1 : Bool) :
    SympLift (mkSymComp h1T h2T free initialH1).stepT (mkSymComp h1 h2 free initialH1).stepT := by
  unfold SymCompIntegrator.stepT mkSymComp
  cases initialH1
  · exact symComp_sympLift _ (forall₂_flowsList ElemLift e2 e1 _)
  · exact symComp_sympLift _ (forall₂_flowsList ElemLift e1 e2 _)

theorem mkSymComp_jac_mem {h1T h2T : K → TState n K → TState n K}
    {h1 h2 : K → Phase n K → Phase n K} (e1 : ElemLift h1T h1) (e2 : ElemLift h2T h2)
    (free : List K) (initialH1 : Bool) (t : K) (x : Phase n K) (D : Mat2 n K)
    (hD : D ∈ symplecticGroup (Fin n) K) :
    ((mkSymComp h1T h2T free initialH1).stepT t (x, D)).2 ∈ symplecticGroup (Fin n) K ∧
      ((mkSymComp h1T h2T free initialH1).stepT t (x, D)).1
        = (mkSymComp h1 h2 free initialH1).stepT t x := by
  obtain ⟨M, hM, hMD⟩ := mkSymComp_sympLift e1 e2 free initialH1 t x
  rw [hMD D]
  exact ⟨Submonoid.mul_mem _ hM hD, rfl⟩

/-- `LeapfrogIntegrator._step`. -/
theorem leapfrog_sympLift {h1T h2T : K → TState n K → TState n K}
    {h1 h2 : K → Phase n K → Phase n K} (e1 : ElemLift h1T h1) (e2 : ElemLift h2T h2) :
    SympLift (leapfrog h1T h2T) (leapfrog h1 h2) := by
  intro t x
  obtain ⟨M₁, hM₁, h₁⟩ := elemLift_spec e1 (1 / 2 * t) x
  obtain ⟨M₂, hM₂, h₂⟩ := elemLift_spec e2 t (h1 (1 / 2 * t) x)
  obtain ⟨M₃, hM₃, h₃⟩ := elemLift_spec e1 (1 / 2 * t) (h2 t (h1 (1 / 2 * t) x))
  refine ⟨M₃ * (M₂ * M₁), ?_, fun D => ?_⟩
  · exact Submonoid.mul_mem _ (elementary_mem hM₃)
      (Submonoid.mul_mem _ (elementary_mem hM₂) (elementary_mem hM₁))
  · simp only [leapfrog, h₁, h₂, h₃, Matrix.mul_assoc]

theorem leapfrog_jac_mem {h1T h2T : K → TState n K → TState n K}
    {h1 h2 : K → Phase n K → Phase n K} (e1 : ElemLift h1T h1) (e2 : ElemLift h2T h2)
    (t : K) (x : Phase n K) (D : Mat2 n K) (hD : D ∈ symplecticGroup (Fin n) K) :
    (leapfrog h1T h2T t (x, D)).2 ∈ symplecticGroup (Fin n) K ∧
      (leapfrog h1T h2T t (x, D)).1 = leapfrog h1 h2 t x := by
  obtain ⟨M, hM, hMD⟩ := leapfrog_sympLift e1 e2 t x
  rw [hMD D]
  exact ⟨Submonoid.mul_mem _ hM hD, rfl⟩

/-- Any number `m` of `Integrator.step` calls with any step size `ε` and any direction flag
(`dir = ±1` in the code, arbitrary here): the propagated matrix stays symplectic, the base point
follows the base trajectory, the direction flag is unchanged. -/
theorem steps_jac_mem {FT : K → TState n K → TState n K} {f : K → Phase n K → Phase n K}
    (h : SympLift FT f) (ε : K) (m : Nat) (x : Phase n K) (D : Mat2 n K) (dir : K)
    (hD : D ∈ symplecticGroup (Fin n) K) :
    (steps FT ε m ⟨(x, D), dir⟩).x.2 ∈ symplecticGroup (Fin n) K ∧
      (steps FT ε m ⟨(x, D), dir⟩).x.1 = (steps f ε m ⟨x, dir⟩).x ∧
      (steps FT ε m ⟨(x, D), dir⟩).dir = dir := by
  obtain ⟨M, hM, hMD⟩ := steps_sympLift h ε m x dir
  rw [hMD D]
  exact ⟨Submonoid.mul_mem _ hM hD, rfl, rfl⟩

/-- `m` steps of any symmetric composition integrator (BCSS two/three/four-stage, leapfrog as
`free = []`, …), either direction. -/
theorem steps_mkSymComp_jac_mem {h1T h2T : K → TState n K → TState n K}
    {h1 h2 : K → Phase n K → Phase n K} (e1 : ElemLift h1T h1) (e2 : ElemLift h2T h2)
    (free : List K) (initialH1 : Bool) (ε : K) (m : Nat) (x : Phase n K) (D : Mat2 n K) (dir : K)
    (hD : D ∈ symplecticGroup (Fin n) K) :
    (steps (mkSymComp h1T h2T free initialH1).stepT ε m ⟨(x, D), dir⟩).x.2
        ∈ symplecticGroup (Fin n) K ∧
      (steps (mkSymComp h1T h2T free initialH1).stepT ε m ⟨(x, D), dir⟩).x.1
        = (steps (mkSymComp h1 h2 free initialH1).stepT ε m ⟨x, dir⟩).x :=
  let h := steps_jac_mem (mkSymComp_sympLift e1 e2 free initialH1) ε m x D dir hD
  ⟨h.1, h.2.1⟩

/-- `m` leapfrog steps, either direction. -/
theorem steps_leapfrog_jac_mem {h1T h2T : K → TState n K → TState n K}
    {h1 h2 : K → Phase n K → Phase n K} (e1 : ElemLift h1T h1) (e2 : ElemLift h2T h2)
    (ε : K) (m : Nat) (x : Phase n K) (D : Mat2 n K) (dir : K)
    (hD : D ∈ symplecticGroup (Fin n) K) :
    (steps (leapfrog h1T h2T) ε m ⟨(x, D), dir⟩).x.2 ∈ symplecticGroup (Fin n) K ∧
      (steps (leapfrog h1T h2T) ε m ⟨(x, D), dir⟩).x.1 = (steps (leapfrog h1 h2) ε m ⟨x, dir⟩).x :=
  let h := steps_jac_mem (leapfrog_sympLift e1 e2) ε m x D dir hD
  ⟨h.1, h.2.1⟩

/-- Volume preservation of `m` steps started from the identity Jacobian. -/
theorem steps_jac_det {FT : K → TState n K → TState n K} {f : K → Phase n K → Phase n K}
    (h : SympLift FT f) (ε : K) (m : Nat) (x : Phase n K) (dir : K) :
    (steps FT ε m ⟨initT x, dir⟩).x.2.det = 1 :=
  SymplecticGroup.det_eq_one (steps_jac_mem h ε m x 1 dir (Submonoid.one_mem _)).1

/-- Non-vacuity: a genuinely non-linear gradient field (`g q = (q₀³ + q₁, q₀)`, the gradient of
`q₀⁴/4 + q₀ q₁`, Hessian `[[3 q₀², 1], [1, 0]]`), a non-diagonal symmetric inverse metric, and the
Gaussian-split flow with a rotation as eigenvector matrix. -/
example : ElemLift (n := 2) (K := ℚ)
    (kickT (fun q => ![q 0 ^ 3 + q 1, q 0]) (fun q => !![3 * q 0 ^ 2, 1; 1, 0]))
    (kick (fun q => ![q 0 ^ 3 + q 1, q 0])) :=
  .kick _ _ (by intro q; ext i j; fin_cases i <;> fin_cases j <;> rfl)

example : ElemLift (n := 2) (K := ℚ) (driftT !![2, 1; 1, 5]) (drift (!![2, 1; 1, 5] : Mat 2 ℚ).mulVec) :=
  .drift _ (by ext i j; fin_cases i <;> fin_cases j <;> rfl)

/-- `trig t = ((1 − t²)/(1 + t²), 2t/(1 + t²))` is a rational parametrisation of the circle. -/
example : ElemLift (n := 2) (K := ℚ)
    (harmonicT !![3 / 5, -4 / 5; 4 / 5, 3 / 5] ![2, 1 / 3]
      (fun t => ⟨fun _ => (1 - t ^ 2) / (1 + t ^ 2), fun _ => 2 * t / (1 + t ^ 2)⟩))
    (harmonic !![3 / 5, -4 / 5; 4 / 5, 3 / 5] ![2, 1 / 3]
      (fun t => ⟨fun _ => (1 - t ^ 2) / (1 + t ^ 2), fun _ => 2 * t / (1 + t ^ 2)⟩)) := by
  refine .harmonic _ _ _ ?_ ?_ ?_
  · ext i j; fin_cases i <;> fin_cases j <;> norm_num [Matrix.mul_apply, Fin.sum_univ_two]
  · intro t i
    have : (1 + t ^ 2 : ℚ) ≠ 0 := by positivity
    field_simp
    ring
  · intro i; fin_cases i <;> norm_num

example : (1 : Mat2 2 ℚ) ∈ symplecticGroup (Fin 2) ℚ := Submonoid.one_mem _

/-- The flow lists built by `SymmetricCompositionIntegrator.__init__` satisfy the hypothesis of
`symComp_jac_mem` as soon as the two component flows do (here: a three-stage scheme, 7 flows). -/
example {h1T h2T : ℚ → TState 2 ℚ → TState 2 ℚ} {h1 h2 : ℚ → Phase 2 ℚ → Phase 2 ℚ}
    (e1 : ElemLift h1T h1) (e2 : ElemLift h2T h2) :
    List.Forall₂ ElemLift (mkSymComp h1T h2T [1 / 5, 3 / 10] true).flows
      (mkSymComp h1 h2 [1 / 5, 3 / 10] true).flows :=
  forall₂_flowsList ElemLift e1 e2 2

/-! ### 4. For linear systems the lifted matrix is exactly the derivative of the step -/

/-- `h1_flow` with an affine gradient `g q = A q + b` (quadratic potential). -/
theorem kick_linear (A : Mat n K) (b : Fin n → K) (t : K) (x δ : Phase n K) :
    kick (fun q => A.mulVec q + b) t (x + δ)
      = kick (fun q => A.mulVec q + b) t x + unpack ((kickJac t A).mulVec (pack δ)) := by
  rw [kickJac, unpack_mulVec]
  ext i
  · simp [kick]
  · simp [kick, mulVec_add, smul_mulVec, neg_mulVec]; ring

theorem drift_linear (N : Mat n K) (t : K) (x δ : Phase n K) :
    drift N.mulVec t (x + δ) = drift N.mulVec t x + unpack ((driftJac t N).mulVec (pack δ)) := by
  rw [driftJac, unpack_mulVec]
  ext i
  · simp [drift, mulVec_add, smul_mulVec]; ring
  · simp [drift]

theorem harmonic_linear (Q : Mat n K) (ω : Fin n → K) (trig : K → Trig n K) (t : K)
    (x δ : Phase n K) :
    harmonic Q ω trig t (x + δ)
      = harmonic Q ω trig t x + unpack ((harmonicJac Q ω (trig t)).mulVec (pack δ)) := by
  rw [harmonicJac, unpack_mulVec]
  simp only [harmonic, conj_mulVec, neg_mulVec, Prod.fst_add, Prod.snd_add]
  refine Prod.ext ?_ ?_
  · simp only [Prod.fst_add, ← mulVec_add]
    congr 1; funext j; simp [mulVec_add]; ring
  · simp only [Prod.snd_add, ← mulVec_neg, ← mulVec_add]
    congr 1; funext j; simp [mulVec_add]; ring

private theorem linLift_spec {FT : K → TState n K → TState n K}
    {f : K → Phase n K → Phase n K} (h : LinLift FT f) (t : K) :
    ∃ M : Mat2 n K, (∀ x D, FT t (x, D) = (f t x, M * D)) ∧
      ∀ x δ, f t (x + δ) = f t x + unpack (M.mulVec (pack δ)) := by
  cases h with
  | kick A b => exact ⟨kickJac t A, fun _ _ => rfl, kick_linear A b t⟩
  | drift N => exact ⟨driftJac t N, fun _ _ => rfl, drift_linear N t⟩
  | harmonic Q ω trig => exact ⟨harmonicJac Q ω (trig t), fun _ _ => rfl, harmonic_linear Q ω trig t⟩

private theorem symComp_lin (coeffs : List K) {flowsT : List (K → TState n K → TState n K)}
    {flows : List (K → Phase n K → Phase n K)} (h : List.Forall₂ LinLift flowsT flows) (t : K) :
    ∃ M : Mat2 n K, (∀ x D, symComp coeffs flowsT t (x, D) = (symComp coeffs flows t x, M * D)) ∧
      ∀ x δ, symComp coeffs flows t (x + δ)
        = symComp coeffs flows t x + unpack (M.mulVec (pack δ)) := by
  induction h generalizing coeffs with
  | nil =>
    refine ⟨1, fun x D => by simp [symComp_nil_right], fun x δ => ?_⟩
    simp [symComp_nil_right, unpack_pack]
  | @cons FT f FTs fs hFf _ ih =>
    cases coeffs with
    | nil =>
      refine ⟨1, fun x D => by simp [symComp_nil_left], fun x δ => ?_⟩
      simp [symComp_nil_left, unpack_pack]
    | cons c cs =>
      obtain ⟨M, hMD, hMδ⟩ := linLift_spec hFf (c * t)
      obtain ⟨L, hLD, hLδ⟩ := ih cs
      refine ⟨L * M, fun x D => ?_, fun x δ => ?_⟩
      · rw [symComp_cons, symComp_cons, hMD, hLD, Matrix.mul_assoc]
      · rw [symComp_cons, symComp_cons, hMδ, hLδ, pack_unpack, mulVec_mulVec]

/-- For a linear system (every kick has an affine gradient) the matrix propagated by the lifted
composition step from the identity is EXACTLY the derivative of the base step: the step is affine
and its increment is that matrix applied to the increment of the input. No symmetry needed. -/
theorem symComp_lift_exact (coeffs : List K) {flowsT : List (K → TState n K → TState n K)}
    {flows : List (K → Phase n K → Phase n K)} (h : List.Forall₂ LinLift flowsT flows)
    (t : K) (x δ : Phase n K) :
    symComp coeffs flows t (x + δ)
      = symComp coeffs flows t x
        + unpack ((symComp coeffs flowsT t (initT x)).2.mulVec (pack δ)) := by
  obtain ⟨M, hMD, hMδ⟩ := symComp_lin coeffs h t
  rw [initT, hMD, Matrix.mul_one]
  exact hMδ x δ

example : List.Forall₂ (LinLift (n := 2) (K := ℚ))
    [kickT (fun q => (!![2, 1; 1, 5] : Mat 2 ℚ).mulVec q + ![1, -1]) (fun _ => !![2, 1; 1, 5]),
      driftT !![1, 0; 0, 3]]
    [kick (fun q => (!![2, 1; 1, 5] : Mat 2 ℚ).mulVec q + ![1, -1]),
      drift (!![1, 0; 0, 3] : Mat 2 ℚ).mulVec] :=
  .cons (.kick _ _) (.cons (.drift _) .nil)

/-! ### 5. Implicit midpoint on quadratic Hamiltonians (Cayley transform) -/

/-- `(1 + a A) J (1 + a A)ᵀ` does not depend on the sign of `a` when `A = J S`, `S` symmetric. -/
private theorem cayley_key (S : Mat2 n K) (hS : Sᵀ = S) (a : K) :
    (1 + a • (J (Fin n) K * S)) * J (Fin n) K * (1 + a • (J (Fin n) K * S))ᵀ
      = (1 - a • (J (Fin n) K * S)) * J (Fin n) K * (1 - a • (J (Fin n) K * S))ᵀ := by
  simp only [transpose_add, transpose_sub, transpose_one, transpose_smul, transpose_mul, hS,
    J_transpose]
  simp only [Matrix.add_mul, Matrix.mul_add, Matrix.sub_mul, Matrix.mul_sub, Matrix.one_mul,
    Matrix.mul_one, Matrix.smul_mul, Matrix.mul_smul, Matrix.mul_neg, smul_neg, Matrix.mul_assoc]
  module

/-- Cayley transform: for symmetric `S`, any scalar `a` and a left inverse `X` of `1 − a J S`,
`X (1 + a J S)` is symplectic.  (With Mathlib's `J`, Hamilton's equations for `h = ½ xᵀ S x` are
`ẋ = −J S x`; both signs are covered since `a` is arbitrary.) -/
theorem cayley_mem (S : Mat2 n K) (hS : Sᵀ = S) (a : K) (X : Mat2 n K)
    (hX : X * (1 - a • (J (Fin n) K * S)) = 1) :
    X * (1 + a • (J (Fin n) K * S)) ∈ symplecticGroup (Fin n) K := by
  rw [SymplecticGroup.mem_iff, transpose_mul]
  calc X * (1 + a • (J (Fin n) K * S)) * J (Fin n) K * ((1 + a • (J (Fin n) K * S))ᵀ * Xᵀ)
      = X * ((1 + a • (J (Fin n) K * S)) * J (Fin n) K * (1 + a • (J (Fin n) K * S))ᵀ) * Xᵀ := by
        simp only [Matrix.mul_assoc]
    _ = (X * (1 - a • (J (Fin n) K * S))) * J (Fin n) K * (X * (1 - a • (J (Fin n) K * S)))ᵀ := by
        rw [cayley_key S hS, transpose_mul]; simp only [Matrix.mul_assoc]
    _ = J (Fin n) K := by rw [hX]; simp

/-- The two factors of the Cayley transform commute, so the other order is the same matrix. -/
theorem cayley_comm (A X : Mat2 n K) (a : K) (hX : X * (1 - a • A) = 1) :
    (1 + a • A) * X = X * (1 + a • A) := by
  have hX' : (1 - a • A) * X = 1 := _root_.mul_eq_one_comm.mp hX
  have hc : (1 + a • A) * (1 - a • A) = (1 - a • A) * (1 + a • A) := by
    simp only [Matrix.add_mul, Matrix.mul_add, Matrix.sub_mul, Matrix.mul_sub, Matrix.one_mul,
      Matrix.mul_one]
    abel
  calc (1 + a • A) * X = (X * (1 - a • A)) * ((1 + a • A) * X) := by rw [hX, Matrix.one_mul]
    _ = X * ((1 + a • A) * (1 - a • A)) * X := by rw [hc]; simp only [Matrix.mul_assoc]
    _ = X * (1 + a • A) * ((1 - a • A) * X) := by simp only [Matrix.mul_assoc]
    _ = X * (1 + a • A) := by rw [hX', Matrix.mul_one]

/-- `ImplicitMidpointIntegrator._step` on `h(x) = ½ xᵀ S x` (`S` symmetric), `τ = time_step / 2`:
`_step_a_fwd(τ)` solves `y = x + τ F(y)`, i.e. `(1 + τ J S) y = x`, so `y = X x` with `X` the
inverse of `1 + τ J S`; `_step_a_adj(τ)` maps `y ↦ y + τ F(y) = (1 − τ J S) y`.  The Jacobian of the
step, `midpointJac S τ X = (1 − τ J S) X`, is symplectic whenever the implicit equation is uniquely
solvable. -/
theorem implicitMidpoint_mem (S : Mat2 n K) (hS : Sᵀ = S) (τ : K) (X : Mat2 n K)
    (hX : X * (1 + τ • (jMat n K * S)) = 1) :
    midpointJac S τ X ∈ symplecticGroup (Fin n) K := by
  rw [midpointJac, jMat_eq] at *
  have hX' : X * (1 - (-τ) • (J (Fin n) K * S)) = 1 := by rw [neg_smul, sub_neg_eq_add]; exact hX
  have h := cayley_mem S hS (-τ) X hX'
  rw [← cayley_comm _ X (-τ) hX', neg_smul, ← sub_eq_add_neg] at h
  exact h

/-- The implicit-midpoint step of the code really is multiplication by `midpointJac`: if `y`
satisfies the fixed-point equation of `_step_a_fwd` exactly, the result of `_step_a_adj` is
`midpointJac S τ X` applied to the input (so the step is linear and `midpointJac` is its Jacobian). -/
theorem implicitMidpoint_linear (S : Mat2 n K) (τ : K) (X : Mat2 n K)
    (hX : X * (1 + τ • (jMat n K * S)) = 1) (x y : Fin n ⊕ Fin n → K)
    (hy : midpointFwdEq S τ x y) :
    midpointAdj S τ y = (midpointJac S τ X).mulVec x := by
  have hx : x = y - τ • hamField S y := eq_sub_of_add_eq hy.symm
  have hy' : (1 + τ • (jMat n K * S)).mulVec y = x := by
    rw [hx, hamField, add_mulVec, one_mulVec, smul_mulVec, smul_neg, sub_neg_eq_add]
  have hyx : y = X.mulVec x := by
    rw [← hy', mulVec_mulVec, hX, one_mulVec]
  rw [midpointJac, ← mulVec_mulVec, ← hyx, midpointAdj, hamField, sub_mulVec, one_mulVec,
    smul_mulVec, smul_neg, sub_eq_add_neg]

/-- Non-vacuity of the invertibility hypothesis: harmonic oscillator `S = 1` (`n = 1`), `τ = 1/2`:
`1 + τ J = [[1, −1/2], [1/2, 1]]` has inverse `(4/5) [[1, 1/2], [−1/2, 1]]`. -/
example : (fromBlocks !![4 / 5] !![2 / 5] !![-2 / 5] !![4 / 5] : Mat2 1 ℚ)
    * (1 + (1 / 2 : ℚ) • (jMat 1 ℚ * 1)) = 1 := by
  rw [jMat, Matrix.mul_one, ← fromBlocks_one, fromBlocks_smul, fromBlocks_add, fromBlocks_multiply]
  congr 1 <;> ext i j <;> fin_cases i <;> fin_cases j <;> norm_num [Matrix.mul_apply]

/-! ### 6. Generalised (implicit) leapfrog on a quadratic `h2`

`h2(q, p) = ½ qᵀ Sqq q + qᵀ Sqp p + ½ pᵀ Spp p` with `Sqq`, `Spp` symmetric, `Sqp` arbitrary.
For a non-quadratic `h2` the same statements hold with the Hessian blocks evaluated at the
appropriate points (chain rule / implicit function theorem — trusted, checked numerically by the
harness). -/

/-- Block-diagonal `diag(A, D)` with `Aᵀ D = 1` (a linear point transformation `q ↦ A q` with the
momenta transforming contragrediently). -/
theorem diagBlocks_mem (A D : Mat n K) (h : Aᵀ * D = 1) :
    fromBlocks A 0 0 D ∈ symplecticGroup (Fin n) K := by
  rw [SymplecticGroup.fromBlocks_mem_iff]
  simp [h]

/-- Generalised leapfrog, forward pair (`_step_b_fwd(τ)` then `_step_c_fwd(τ)`, a symplectic-Euler
step of the quadratic `h2`): neither factor is symplectic on its own, the pair is, whenever the
implicit momentum equation is uniquely solvable (`W = (1 + τ Sqp)⁻¹`). -/
theorem sympEuler_mem (τ : K) (Sqq Sqp Spp W : Mat n K) (hqq : Sqqᵀ = Sqq) (hpp : Sppᵀ = Spp)
    (hW : W * (1 + τ • Sqp) = 1) :
    glCFwdJac τ Sqp Spp * glBFwdJac τ Sqq W ∈ symplecticGroup (Fin n) K := by
  have hfac : glCFwdJac τ Sqp Spp * glBFwdJac τ Sqq W
      = driftJac τ Spp * (fromBlocks (1 + τ • Sqpᵀ) 0 0 W * kickJac τ Sqq) := by
    simp [glCFwdJac, glBFwdJac, driftJac, kickJac, fromBlocks_multiply]
  rw [hfac]
  refine Submonoid.mul_mem _ (driftJac_mem τ Spp hpp)
    (Submonoid.mul_mem _ (diagBlocks_mem _ _ ?_) (kickJac_mem τ Sqq hqq))
  rw [transpose_add, transpose_one, transpose_smul, transpose_transpose]
  exact _root_.mul_eq_one_comm.mp hW

/-- Adjoint pair (`_step_c_adj(τ)` then `_step_b_adj(τ)`), `V = (1 − τ Sqpᵀ)⁻¹`. -/
theorem sympEulerAdj_mem (τ : K) (Sqq Sqp Spp V : Mat n K) (hqq : Sqqᵀ = Sqq) (hpp : Sppᵀ = Spp)
    (hV : V * (1 - τ • Sqpᵀ) = 1) :
    glBAdjJac τ Sqq Sqp * glCAdjJac τ Spp V ∈ symplecticGroup (Fin n) K := by
  have hfac : glBAdjJac τ Sqq Sqp * glCAdjJac τ Spp V
      = kickJac τ Sqq * (fromBlocks V 0 0 (1 - τ • Sqp) * driftJac τ Spp) := by
    simp [glBAdjJac, glCAdjJac, driftJac, kickJac, fromBlocks_multiply]
  rw [hfac]
  refine Submonoid.mul_mem _ (kickJac_mem τ Sqq hqq)
    (Submonoid.mul_mem _ (diagBlocks_mem _ _ ?_) (driftJac_mem τ Spp hpp))
  have h := congrArg transpose (_root_.mul_eq_one_comm.mp hV)
  rw [transpose_mul, transpose_one, transpose_sub, transpose_one, transpose_smul,
    transpose_transpose] at h
  exact h

/-- Jacobian of the whole `ImplicitLeapfrogIntegrator._step` (A, B-fwd, C-fwd, C-adj, B-adj, A) for
a quadratic `h2` and any `h1` with symmetric Hessians `H₀`, `H₁` at the two kick positions. -/
theorem genLeapfrog_mem (τ : K) (H₀ H₁ Sqq Sqp Spp W V : Mat n K) (h0 : H₀ᵀ = H₀) (h1 : H₁ᵀ = H₁)
    (hqq : Sqqᵀ = Sqq) (hpp : Sppᵀ = Spp) (hW : W * (1 + τ • Sqp) = 1)
    (hV : V * (1 - τ • Sqpᵀ) = 1) :
    genLeapfrogJac τ H₀ H₁ Sqq Sqp Spp W V ∈ symplecticGroup (Fin n) K := by
  have e : genLeapfrogJac τ H₀ H₁ Sqq Sqp Spp W V
      = kickJac τ H₁ * ((glBAdjJac τ Sqq Sqp * glCAdjJac τ Spp V) *
        ((glCFwdJac τ Sqp Spp * glBFwdJac τ Sqq W) * kickJac τ H₀)) := by
    simp only [genLeapfrogJac, Matrix.mul_assoc]
  rw [e]
  exact Submonoid.mul_mem _ (kickJac_mem τ H₁ h1)
    (Submonoid.mul_mem _ (sympEulerAdj_mem τ Sqq Sqp Spp V hqq hpp hV)
      (Submonoid.mul_mem _ (sympEuler_mem τ Sqq Sqp Spp W hqq hpp hW) (kickJac_mem τ H₀ h0)))

/-- Non-vacuity of the solvability hypotheses (`n = 1`, `τ = 1/2`): forward pair with `Sqp = 2`
(`1 + τ Sqp = 2`, `W = 1/2`), adjoint pair with `Sqp = 1` (`1 − τ Sqpᵀ = 1/2`, `V = 2`). -/
example : (!![1 / 2] : Mat 1 ℚ) * (1 + (1 / 2 : ℚ) • !![2]) = 1 := by
  ext i j; fin_cases i; fin_cases j; norm_num [Matrix.mul_apply]

example : (!![2] : Mat 1 ℚ) * (1 - (1 / 2 : ℚ) • (!![1] : Mat 1 ℚ)ᵀ) = 1 := by
  ext i j; fin_cases i; fin_cases j; norm_num [Matrix.mul_apply]

/-- The four sub-steps are linear maps with exactly the Jacobians used above (for the implicit ones:
any exact solution of the fixed-point equation). -/
theorem glBFwd_linear (τ : K) (Sqq Sqp W : Mat n K) (hW : W * (1 + τ • Sqp) = 1)
    (x : Phase n K) (p' : Fin n → K) (h : glBFwdEq τ Sqq Sqp x p') :
    (x.1, p') = unpack ((glBFwdJac τ Sqq W).mulVec (pack x)) := by
  rw [glBFwdJac, unpack_mulVec]
  have h1 : (1 + τ • Sqp).mulVec p' = x.2 - τ • Sqq.mulVec x.1 := by
    rw [glBFwdEq, glDh2Dpos] at h
    rw [add_mulVec, one_mulVec, smul_mulVec]
    funext i
    have hi := congrFun h i
    simp only [Pi.add_apply, Pi.sub_apply, Pi.smul_apply, smul_eq_mul] at hi ⊢
    linear_combination hi
  have h2 : p' = W.mulVec (x.2 - τ • Sqq.mulVec x.1) := by
    rw [← h1, mulVec_mulVec, hW, one_mulVec]
  refine Prod.ext (by simp) ?_
  simp only [h2, neg_mulVec, smul_mulVec, mulVec_sub, mulVec_smul, mulVec_mulVec]
  abel

theorem glCFwd_linear (τ : K) (Sqp Spp : Mat n K) (x : Phase n K) :
    glCFwd τ Sqp Spp x = unpack ((glCFwdJac τ Sqp Spp).mulVec (pack x)) := by
  rw [glCFwdJac, unpack_mulVec]
  refine Prod.ext ?_ (by simp [glCFwd])
  simp only [glCFwd, glDh2Dmom, add_mulVec, one_mulVec, smul_mulVec, smul_add]
  abel

theorem glCAdj_linear (τ : K) (Sqp Spp V : Mat n K) (hV : V * (1 - τ • Sqpᵀ) = 1)
    (x : Phase n K) (q' : Fin n → K) (h : glCAdjEq τ Sqp Spp x q') :
    (q', x.2) = unpack ((glCAdjJac τ Spp V).mulVec (pack x)) := by
  rw [glCAdjJac, unpack_mulVec]
  have h1 : (1 - τ • Sqpᵀ).mulVec q' = x.1 + τ • Spp.mulVec x.2 := by
    rw [glCAdjEq, glDh2Dmom] at h
    rw [sub_mulVec, one_mulVec, smul_mulVec]
    funext i
    have hi := congrFun h i
    simp only [Pi.add_apply, Pi.sub_apply, Pi.smul_apply, smul_eq_mul] at hi ⊢
    linear_combination hi
  have h2 : q' = V.mulVec (x.1 + τ • Spp.mulVec x.2) := by
    rw [← h1, mulVec_mulVec, hV, one_mulVec]
  refine Prod.ext ?_ (by simp)
  simp only [h2, smul_mulVec, mulVec_add, mulVec_smul, mulVec_mulVec]

theorem glBAdj_linear (τ : K) (Sqq Sqp : Mat n K) (x : Phase n K) :
    glBAdj τ Sqq Sqp x = unpack ((glBAdjJac τ Sqq Sqp).mulVec (pack x)) := by
  rw [glBAdjJac, unpack_mulVec]
  refine Prod.ext (by simp [glBAdj]) ?_
  simp only [glBAdj, glDh2Dpos, sub_mulVec, one_mulVec, smul_mulVec, neg_mulVec, smul_add]
  abel

/-! ### 7. Constrained leapfrog, LINEAR constraint `C q = d`

The cotangent bundle of the affine manifold is `{(q, p) : C q = d, C N p = 0}`; its tangent vectors
are the `(δq, δp)` with `C δq = 0`, `C N δp = 0` (`IsTan`).  The step is symplectic as a map of this
bundle: its Jacobian preserves the tangent vectors and the canonical two-form restricted to them
(`PresympOn`; with `T` a basis of the tangent space this is the matrix identity
`(M T)ᵀ J (M T) = Tᵀ J T` that the harness evaluates on finite-difference Jacobians).

NOT proved (stretch goal of DESIGN §8, `…_partial` in the sense of BUILDING rule 3): curved
manifolds.  Full statement: for a smooth constraint `c` with Jacobian field `∂c`, Gram matrix
`∂c N ∂cᵀ` invertible along the step and the projection equation solved exactly, the Jacobian `M` of
`ConstrainedLeapfrogIntegrator._step` satisfies `IsTan (∂c q') N (M T)` and
`(M T)ᵀ J (M T) = Tᵀ J T` for every `T` with `IsTan (∂c q) N T`.  Missing: the per-map lemma
"`Π(λ)` contributes `dq ∧ d(∂cᵀ λ)`, which vanishes on vectors with `∂c dq = 0`" with a
position-dependent `∂c` (second derivatives of `c` enter the Jacobian of the projection). -/

/-- `project_onto_cotangent_space` is multiplication by `Π = 1 − R N`. -/
theorem cotProject_eq {m : Nat} (C : Matrix (Fin m) (Fin n) K) (N : Mat n K)
    (Ginv : Matrix (Fin m) (Fin m) K) (p : Fin n → K) :
    cotProject C N Ginv p = (1 - gramR C Ginv * N).mulVec p := by
  simp [cotProject, gramR, sub_mulVec, mulVec_mulVec, Matrix.mul_assoc]

/-- The retraction lands on the constraint manifold. -/
theorem retract_constr {m : Nat} (C : Matrix (Fin m) (Fin n) K) (d : Fin m → K) (N : Mat n K)
    (Ginv : Matrix (Fin m) (Fin m) K) (t : K) (x : Phase n K) (hG : C * N * Cᵀ * Ginv = 1) :
    C.mulVec (retract C d N Ginv t x).1 = d := by
  have key : ∀ r, C.mulVec (N.mulVec (Cᵀ.mulVec (Ginv.mulVec r))) = r := by
    intro r
    have : C * (N * (Cᵀ * Ginv)) = 1 := by rw [← hG]; simp only [Matrix.mul_assoc]
    simp only [mulVec_mulVec, this, one_mulVec]
  simp only [retract, mulVec_sub, key]
  abel

/-- The retraction is affine with ambient Jacobian `retrJac` (`t ≠ 0`; for `t = 0` the code's
Gram matrix `C (|t| N) Cᵀ` is singular). -/
theorem retract_linear {m : Nat} (C : Matrix (Fin m) (Fin n) K) (d : Fin m → K) (N : Mat n K)
    (Ginv : Matrix (Fin m) (Fin m) K) (t : K) (ht : t ≠ 0) (x δ : Phase n K) :
    retract C d N Ginv t (x + δ)
      = retract C d N Ginv t x + unpack ((retrJac t N (gramR C Ginv)).mulVec (pack δ)) := by
  rw [retrJac, unpack_mulVec]
  simp only [retract, drift, gramR, Prod.fst_add, Prod.snd_add, sub_mulVec, one_mulVec,
    neg_mulVec, smul_mulVec, ← mulVec_mulVec, mulVec_add, mulVec_sub, mulVec_smul,
    smul_sub, smul_add, smul_smul, inv_mul_cancel₀ ht, one_smul]
  refine Prod.ext ?_ ?_
  · simp only [Prod.fst_add]; module
  · simp only [Prod.snd_add]; module


private theorem ginv_symm {m : Nat} (C : Matrix (Fin m) (Fin n) K) (N : Mat n K)
    (Ginv : Matrix (Fin m) (Fin m) K) (hN : Nᵀ = N) (hG : C * N * Cᵀ * Ginv = 1) :
    Ginvᵀ = Ginv := by
  have h1 : Ginvᵀ * (C * N * Cᵀ) = 1 := by
    have := congrArg transpose hG
    simpa [transpose_mul, hN, Matrix.mul_assoc] using this
  calc Ginvᵀ = Ginvᵀ * (C * N * Cᵀ * Ginv) := by rw [hG, Matrix.mul_one]
    _ = Ginvᵀ * (C * N * Cᵀ) * Ginv := by simp only [Matrix.mul_assoc]
    _ = Ginv := by rw [h1, Matrix.one_mul]

/-- `ConstrainedLeapfrogIntegrator._step_a` (kick, then cotangent projection) for a linear
constraint: maps tangent vectors of the constrained cotangent bundle to tangent vectors and
preserves the canonical two-form on them. (In the ambient space it is NOT symplectic.) -/
theorem conStepA_presymp {m : Nat} (C : Matrix (Fin m) (Fin n) K) (N H : Mat n K)
    (Ginv : Matrix (Fin m) (Fin m) K) (t : K) (hN : Nᵀ = N) (hH : Hᵀ = H)
    (hG : C * N * Cᵀ * Ginv = 1) :
    PresympOn C N (conStepAJac t H N (gramR C Ginv)) := by
  intro k T hT
  obtain ⟨Tq, Tp, rfl⟩ : ∃ Tq Tp, T = fromRows Tq Tp := ⟨_, _, (fromRows_toRows T).symm⟩
  simp only [IsTan, toRows₁_fromRows, toRows₂_fromRows] at hT
  obtain ⟨hq, hp⟩ := hT
  have hGs := ginv_symm C N Ginv hN hG
  set R := gramR C Ginv with hR
  have hRs : Rᵀ = R := by simp [hR, gramR, transpose_mul, hGs, Matrix.mul_assoc]
  have hRq : R * Tq = 0 := by rw [hR, gramR, Matrix.mul_assoc, hq, Matrix.mul_zero]
  have hCNP : C * N * (1 - R * N) = 0 := by
    rw [Matrix.mul_sub, Matrix.mul_one, hR, gramR]
    have : C * N * (Cᵀ * Ginv * C * N) = (C * N * Cᵀ * Ginv) * (C * N) := by
      simp only [Matrix.mul_assoc]
    rw [this, hG, Matrix.one_mul, sub_self]
  have hM : conStepAJac t H N R * fromRows Tq Tp
      = fromRows Tq ((1 - R * N) * (Tp - t • (H * Tq))) := by
    rw [conStepAJac, cotProjJac, kickJac, fromBlocks_multiply, fromBlocks_mul_fromRows]
    congr 1
    · simp
    · simp [Matrix.mul_assoc, sub_eq_add_neg, add_comm, Matrix.mul_add]
  rw [hM]
  refine ⟨⟨by simpa using hq, ?_⟩, ?_⟩
  · rw [toRows₂_fromRows, ← Matrix.mul_assoc, hCNP, Matrix.zero_mul]
  · have hPq : (1 - R * N)ᵀ * Tq = Tq := by
      rw [transpose_sub, transpose_one, transpose_mul, hRs, hN, Matrix.sub_mul, Matrix.one_mul,
        Matrix.mul_assoc, hRq, Matrix.mul_zero, sub_zero]
    have hqP : Tqᵀ * (1 - R * N) = Tqᵀ := by
      have := congrArg transpose hPq
      rwa [transpose_mul, transpose_transpose] at this
    rw [form_fromRows, form_fromRows, transpose_mul, Matrix.mul_assoc, hPq, ← Matrix.mul_assoc, hqP]
    simp only [transpose_sub, transpose_smul, transpose_mul, hH, Matrix.sub_mul, Matrix.mul_sub,
      Matrix.smul_mul, Matrix.mul_smul, Matrix.mul_assoc]
    abel

/-- One inner iteration of `_step_b` (drift, exact retraction, cotangent projection). -/
theorem conStepB_presymp {m : Nat} (C : Matrix (Fin m) (Fin n) K) (N : Mat n K)
    (Ginv : Matrix (Fin m) (Fin m) K) (t : K) (hN : Nᵀ = N) :
    PresympOn C N (conStepBJac t N (gramR C Ginv)) := by
  intro k T hT
  obtain ⟨Tq, Tp, rfl⟩ : ∃ Tq Tp, T = fromRows Tq Tp := ⟨_, _, (fromRows_toRows T).symm⟩
  simp only [IsTan, toRows₁_fromRows, toRows₂_fromRows] at hT
  obtain ⟨hq, hp⟩ := hT
  set R := gramR C Ginv with hR
  have hRq : R * Tq = 0 := by rw [hR, gramR, Matrix.mul_assoc, hq, Matrix.mul_zero]
  have hPp : (1 - R * N) * Tp = Tp := by
    rw [Matrix.sub_mul, Matrix.one_mul, hR, gramR]
    have : Cᵀ * Ginv * C * N * Tp = Cᵀ * Ginv * (C * N * Tp) := by simp only [Matrix.mul_assoc]
    rw [this, hp, Matrix.mul_zero, sub_zero]
  have hM : conStepBJac t N R * fromRows Tq Tp = fromRows (Tq + t • (N * Tp)) Tp := by
    rw [conStepBJac, cotProjJac, retrJac, Matrix.mul_assoc, fromBlocks_mul_fromRows,
      fromBlocks_mul_fromRows]
    simp [Matrix.sub_mul, Matrix.mul_assoc, hRq, hPp]
  rw [hM]
  refine ⟨⟨?_, by simpa using hp⟩, ?_⟩
  · rw [toRows₁_fromRows, Matrix.mul_add, hq, Matrix.mul_smul, ← Matrix.mul_assoc, hp]; simp
  · rw [form_fromRows, form_fromRows]
    simp only [transpose_add, transpose_smul, transpose_mul, hN, Matrix.add_mul, Matrix.mul_add,
      Matrix.smul_mul, Matrix.mul_smul, Matrix.mul_assoc]
    abel

/-- Jacobian of the whole `ConstrainedLeapfrogIntegrator._step` (any number `k` of inner steps, any
step sizes) for a linear constraint, unfolded: tangent vectors stay tangent, the two-form on them
is preserved. -/
theorem conLeapfrog_presymp_linear {m : Nat} (C : Matrix (Fin m) (Fin n) K) (N H₀ H₁ : Mat n K)
    (Ginv : Matrix (Fin m) (Fin m) K) (τ ti : K) (k : Nat) (hN : Nᵀ = N) (h0 : H₀ᵀ = H₀)
    (h1 : H₁ᵀ = H₁) (hG : C * N * Cᵀ * Ginv = 1) {j : Nat}
    (T : Matrix (Fin n ⊕ Fin n) (Fin j) K) (hT : IsTan C N T) :
    IsTan C N (conLeapfrogJac τ ti k H₀ H₁ N (gramR C Ginv) * T) ∧
      (conLeapfrogJac τ ti k H₀ H₁ N (gramR C Ginv) * T)ᵀ * J (Fin n) K
          * (conLeapfrogJac τ ti k H₀ H₁ N (gramR C Ginv) * T)
        = Tᵀ * J (Fin n) K * T :=
  ((conStepA_presymp C N H₁ Ginv τ hN h1 hG).mul
    (((conStepB_presymp C N Ginv ti hN).pow k).mul (conStepA_presymp C N H₀ Ginv τ hN h0 hG)))
    j T hT

/-- Non-vacuity: `n = 2`, one constraint `q₀ + q₁ = d`, identity metric, `Ginv = 1/2`, and a
non-zero tangent vector `(δq, δp) = ((1, −1), (2, −2))`. -/
example : (!![1, 1] : Matrix (Fin 1) (Fin 2) ℚ) * (1 : Mat 2 ℚ) * (!![1, 1] : Matrix (Fin 1) (Fin 2) ℚ)ᵀ
    * !![1 / 2] = 1 := by
  rw [Matrix.mul_one]
  ext i j; fin_cases i; fin_cases j
  simp [Matrix.mul_apply, Matrix.vecMul, dotProduct, Fin.sum_univ_two]
  norm_num

example : IsTan (!![1, 1] : Matrix (Fin 1) (Fin 2) ℚ) (1 : Mat 2 ℚ)
    (fromRows !![1; -1] !![2; -2] : Matrix (Fin 2 ⊕ Fin 2) (Fin 1) ℚ) := by
  constructor
  · rw [toRows₁_fromRows]; ext i j; fin_cases i; fin_cases j
    norm_num [Matrix.mul_apply, Fin.sum_univ_two]
  · rw [toRows₂_fromRows]; ext i j; fin_cases i; fin_cases j
    norm_num [Matrix.mul_apply, Fin.sum_univ_two]

end MiciVerif.C03
