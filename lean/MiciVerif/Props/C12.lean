/-
C12 — Numerical failures inside a trajectory are contained as rejections.

* Table obligations on the tables the translator regenerates from the source under test
  (`Generated/Errors.lean`): every call of a user-influenced function inside an iterative solver
  is lexically inside a `try` that converts ValueError / LinAlgError into ConvergenceError;
  every `return` of a solver is guarded by its convergence test and the function body ends in
  `raise ConvergenceError`; every integrator step taken by a transition is inside
  `try … except IntegratorError`; the three errors an integrator step can raise are
  IntegratorErrors.
* Solver theorems (any iterate type, any user function with faults scripted at any call index,
  any norm, any tolerances, any iteration limit): a fixed-point solver either returns a point at
  which its stopping test held, or raises ConvergenceError; a foreign exception escapes only if
  the user function raised a foreign exception.
* Transition theorems (orbit-level model of C01, any tree / faults / divergences): every state
  returned with positive probability is the start state or a point of strictly positive weight
  (finite energy, not NaN/+inf); for Metropolis an integration error means "stay".
-/
import MiciVerif.Model.Solvers
import MiciVerif.Lemmas.Support

namespace MiciVerif.C12
open MiciVerif.Solvers

/-! ### fixed-point solvers -/

section
variable {α : Type}

/-- **Direct iteration never returns an unconverged iterate**: if it returns `x` then `x` is the
value of some successful `func` call at a point `x'` and the stopping test held for `(x, x')`. -/
theorem direct_sound (func : Nat → α → Except Fault α) (normDiff : α → α → Except Fault XNorm)
    (ctol dtol : Rat) (fuel i : Nat) (x0 x : α)
    (h : direct func normDiff ctol dtol fuel i x0 = .ok x) :
    ∃ k x' q, func k x' = .ok x ∧ normDiff x x' = .ok (.fin q) ∧ q < ctol ∧ ¬ dtol < q := by
  induction fuel generalizing i x0 with
  | zero => simp [direct] at h
  | succ fuel ih =>
    unfold direct at h
    split at h
    · rename_i f _; cases f <;> simp [handle] at h
    · rename_i y hy
      split at h
      · rename_i f _; cases f <;> simp [handle] at h
      · rename_i e he
        split at h
        · simp at h
        · rename_i hdiv
          split at h
          · rename_i hconv
            have hx : y = x := by simpa using h
            subst hx
            cases e with
            | fin q =>
              refine ⟨i, x0, q, hy, he, ?_, ?_⟩
              · simpa [XNorm.converged] using hconv
              · simpa [XNorm.diverged] using hdiv
            | inf => simp [XNorm.converged] at hconv
            | nan => simp [XNorm.converged] at hconv
          · exact ih _ _ h

/-- **No foreign exception escapes direct iteration** unless the user function (or norm) itself
raised one: value and linear-algebra errors become ConvergenceError. -/
theorem direct_no_foreign (func : Nat → α → Except Fault α) (normDiff : α → α → Except Fault XNorm)
    (ctol dtol : Rat) (hf : ∀ k x, func k x ≠ .error .foreign)
    (hn : ∀ x y, normDiff x y ≠ .error .foreign) (fuel i : Nat) (x0 : α) :
    (∃ x, direct func normDiff ctol dtol fuel i x0 = .ok x) ∨
      direct func normDiff ctol dtol fuel i x0 = .convErr := by
  induction fuel generalizing i x0 with
  | zero => right; rfl
  | succ fuel ih =>
    unfold direct
    split
    · rename_i f hfe
      right; cases f <;> simp_all [handle]
    · split
      · rename_i f hne
        right; cases f <;> simp_all [handle]
      · split
        · right; rfl
        · split
          · left; exact ⟨_, rfl⟩
          · exact ih _ _

/-- **Steffensen's method never returns an unconverged iterate.** -/
theorem steffensen_sound (func : Nat → α → Except Fault α) (upd : α → α → α → Except Fault α)
    (normDiff : α → α → Except Fault XNorm) (ctol dtol : Rat) (fuel i : Nat) (x0 x : α)
    (h : steffensen func upd normDiff ctol dtol fuel i x0 = .ok x) :
    ∃ x' x1 x2 q, upd x' x1 x2 = .ok x ∧ normDiff x x' = .ok (.fin q) ∧ q < ctol ∧ ¬ dtol < q := by
  induction fuel generalizing i x0 with
  | zero => simp [steffensen] at h
  | succ fuel ih =>
    unfold steffensen at h
    cases h1 : func (2 * i) x0 with
    | error f => rw [h1] at h; cases f <;> simp [handle] at h
    | ok x1 =>
      rw [h1] at h
      simp only at h
      cases h2 : func (2 * i + 1) x1 with
      | error f => rw [h2] at h; cases f <;> simp [handle] at h
      | ok x2 =>
        rw [h2] at h
        simp only at h
        cases h3 : upd x0 x1 x2 with
        | error f => rw [h3] at h; cases f <;> simp [handle] at h
        | ok y =>
          rw [h3] at h
          simp only at h
          cases h4 : normDiff y x0 with
          | error f => rw [h4] at h; cases f <;> simp [handle] at h
          | ok e =>
            rw [h4] at h
            simp only at h
            by_cases hdiv : e.diverged dtol = true
            · simp [hdiv] at h
            · simp only [hdiv, Bool.false_eq_true, if_false] at h
              by_cases hconv : e.converged ctol = true
              · simp only [hconv, if_true] at h
                have hx : y = x := by simpa using h
                subst hx
                cases e with
                | fin q =>
                  refine ⟨x0, x1, x2, q, h3, h4, ?_, ?_⟩
                  · simpa [XNorm.converged] using hconv
                  · simpa [XNorm.diverged] using hdiv
                | inf => simp [XNorm.converged] at hconv
                | nan => simp [XNorm.converged] at hconv
              · simp only [hconv, Bool.false_eq_true, if_false] at h
                exact ih _ _ h

theorem steffensen_no_foreign (func : Nat → α → Except Fault α) (upd : α → α → α → Except Fault α)
    (normDiff : α → α → Except Fault XNorm) (ctol dtol : Rat)
    (hf : ∀ k x, func k x ≠ .error .foreign) (hu : ∀ a b c, upd a b c ≠ .error .foreign)
    (hn : ∀ x y, normDiff x y ≠ .error .foreign) (fuel i : Nat) (x0 : α) :
    (∃ x, steffensen func upd normDiff ctol dtol fuel i x0 = .ok x) ∨
      steffensen func upd normDiff ctol dtol fuel i x0 = .convErr := by
  induction fuel generalizing i x0 with
  | zero => right; rfl
  | succ fuel ih =>
    unfold steffensen
    split
    · rename_i f _; right; cases f <;> simp_all [handle]
    · split
      · rename_i f _; right; cases f <;> simp_all [handle]
      · split
        · rename_i f _; right; cases f <;> simp_all [handle]
        · split
          · rename_i f _; right; cases f <;> simp_all [handle]
          · split
            · right; rfl
            · split
              · left; exact ⟨_, rfl⟩
              · exact ih _ _
end

/-- non-vacuity: a contraction converges, a NaN diverges, a ValueError is converted -/
example :
    let f : Nat → XR → Except Fault XR := fun _ x => .ok (XR.add (XR.smul (1/2) x) (.fin 1))
    let nd : XR → XR → Except Fault XNorm := fun a b => .ok (XR.absNorm (XR.sub a b))
    (match direct f nd (1/1000) 1000 100 0 (.fin 0) with | .ok _ => true | _ => false) = true ∧
    (match direct (fun k x => if k = 3 then .ok .nan else f k x) nd (1/1000) 1000 100 0 (.fin 0) with
      | .convErr => true | _ => false) = true ∧
    (match direct (fun k x => if k = 2 then .error .valueError else f k x) nd (1/1000) 1000 100 0 (.fin 0) with
      | .convErr => true | _ => false) = true := by
  decide +kernel

/-! ### transitions: the chain state stays a valid point -/

open MiciVerif.Transitions MiciVerif.Transitions.Dist MiciVerif.Transitions.TTree

variable {K : Type} [Field K] [LinearOrder K] [IsStrictOrderedRing K]

/-- outcomes of positive probability satisfy `P` -/
def AllPos {α : Type} (P : α → Prop) (d : Dist K α) : Prop := ∀ x ∈ d, x.2 ≠ 0 → P x.1

omit [LinearOrder K] [IsStrictOrderedRing K] in
private theorem allPos_pure {α : Type} (P : α → Prop) (a : α) (h : P a) :
    AllPos P (Dist.pure a : Dist K α) := by
  intro x hx _
  simp [Dist.pure] at hx
  subst hx; exact h

omit [LinearOrder K] [IsStrictOrderedRing K] in
private theorem allPos_bind {α β : Type} (P : α → Prop) (Q : β → Prop) (d : Dist K α)
    (f : α → Dist K β) (hd : AllPos P d) (hf : ∀ a, P a → AllPos Q (f a)) :
    AllPos Q (Dist.bind d f) := by
  intro y hy hne
  simp only [Dist.bind, List.mem_flatMap, List.mem_map] at hy
  obtain ⟨x, hx, z, hz, rfl⟩ := hy
  simp only at hne
  have h1 : x.2 ≠ 0 := fun h => hne (by rw [h]; ring)
  have h2 : z.2 ≠ 0 := fun h => hne (by rw [h]; ring)
  exact hf x.1 (hd x hx h1) z hz h2

omit [LinearOrder K] [IsStrictOrderedRing K] in
private theorem allPos_map {α β : Type} (P : α → Prop) (Q : β → Prop) (f : α → β) (d : Dist K α)
    (hd : AllPos P d) (hf : ∀ a, P a → Q (f a)) : AllPos Q (Dist.map f d) := by
  intro y hy hne
  simp only [Dist.map, List.mem_map] at hy
  obtain ⟨x, hx, rfl⟩ := hy
  exact hf x.1 (hd x hx hne)

private theorem weightAt_left (l r : TTree K) (e τ : Bool) (k : Nat) (hk : k < l.size) :
    (TTree.node l r e τ).weightAt k = l.weightAt k := by
  simp [TTree.weightAt, hk]

private theorem weightAt_right (l r : TTree K) (e τ : Bool) (k : Nat) :
    (TTree.node l r e τ).weightAt (k + l.size) = r.weightAt k := by
  have : ¬ (k + l.size < l.size) := by omega
  simp [TTree.weightAt, this]

private theorem ratio_ne_zero {a b : K} (hb : 0 ≤ b) (h : ratio a b ≠ 0) (ha : 0 ≤ a) : 0 < a := by
  rcases ha.eq_or_lt with h0 | h0
  · exfalso; apply h; rw [← h0, ratio_zero_num]
  · exact h0

/-- a proposal drawn with positive probability from a sub-tree of positive total weight has
positive weight -/
private theorem propose_pos (fwd : Bool) (t : TTree K) (hn : t.Nonneg) (hW : 0 < t.W) :
    AllPos (fun k => k < t.size ∧ 0 < t.weightAt k) (propose fwd t) := by
  induction t with
  | leaf w ok =>
    exact allPos_pure _ _ ⟨by simp [TTree.size], by simpa [TTree.weightAt, TTree.W, TTree.wsum] using hW⟩
  | node l r e τ ihl ihr =>
    have hl := W_nonneg l hn.1
    have hr := W_nonneg r hn.2
    rw [W_node] at hW
    unfold propose
    intro y hy hne
    simp only [Dist.bind, bernoulli, List.flatMap_cons, List.flatMap_nil, List.append_nil,
      List.mem_append, List.mem_map] at hy
    rcases hy with ⟨z, hz, rfl⟩ | ⟨z, hz, rfl⟩
    · -- pickOuter = true, probability ratio wOuter W
      simp only at hne
      have hp : ratio (if fwd = true then r.W else l.W) (l.W + r.W) ≠ 0 :=
        fun h => hne (by rw [h]; ring)
      have hz2 : z.2 ≠ 0 := fun h => hne (by rw [h]; ring)
      cases fwd
      · -- outer = l
        simp only [Bool.false_eq_true, if_false] at hp hz
        have hlpos : 0 < l.W := ratio_ne_zero (by linarith) hp hl
        have := ihl hn.1 hlpos z hz hz2
        exact ⟨by simp [TTree.size]; omega, by rw [weightAt_left _ _ _ _ _ this.1]; exact this.2⟩
      · simp only [if_true] at hp hz
        have hrpos : 0 < r.W := ratio_ne_zero (by linarith) hp hr
        simp only [Dist.map, List.mem_map] at hz
        obtain ⟨u, hu, rfl⟩ := hz
        have := ihr hn.2 hrpos u hu hz2
        exact ⟨by simp [TTree.size]; omega, by simpa [weightAt_right] using this.2⟩
    · -- pickOuter = false, probability 1 - ratio
      simp only at hne
      have hp : (1 : K) - ratio (if fwd = true then r.W else l.W) (l.W + r.W) ≠ 0 :=
        fun h => hne (by rw [h]; ring)
      have hz2 : z.2 ≠ 0 := fun h => hne (by rw [h]; ring)
      cases fwd
      · -- inner = r ; ratio l.W W ≠ 1 → r.W > 0
        simp only [Bool.false_eq_true, if_false] at hp
        rw [if_pos rfl] at hz
        have hrpos : 0 < r.W := by
          rcases hr.eq_or_lt with h0 | h0
          · exfalso; apply hp
            have : ratio l.W (l.W + r.W) = 1 := by
              rw [← h0, add_zero]; exact ratio_of_le (by linarith) (le_refl _)
            rw [this]; ring
          · exact h0
        simp only [Dist.map, List.mem_map] at hz
        obtain ⟨u, hu, rfl⟩ := hz
        have := ihr hn.2 hrpos u hu hz2
        exact ⟨by simp [TTree.size]; omega, by simpa [weightAt_right] using this.2⟩
      · simp only [if_true, Bool.false_eq_true, if_false] at hp hz
        have hlpos : 0 < l.W := by
          rcases hl.eq_or_lt with h0 | h0
          · exfalso; apply hp
            have : ratio r.W (l.W + r.W) = 1 := by
              rw [← h0, zero_add]; exact ratio_of_le (by linarith) (le_refl _)
            rw [this]; ring
          · exact h0
        have := ihl hn.1 hlpos z hz hz2
        exact ⟨by simp [TTree.size]; omega, by rw [weightAt_left _ _ _ _ _ this.1]; exact this.2⟩

/-- **Containment for the dynamic transitions**: whatever integrator steps fail and whatever
points are divergent or have NaN/infinite energy (weight 0), a state returned with positive
probability is the start state itself or a point of strictly positive weight. -/
theorem final_contained (t : TTree K) (hn : t.Nonneg) : ∀ start, start < t.size →
    AllPos (fun c => c < t.size ∧ (c = start ∨ 0 < t.weightAt c)) (final t start) := by
  suffices h : ∀ start, start < t.size →
      AllPos (fun res => res.val < t.size ∧ (res.val = start ∨ 0 < t.weightAt res.val))
        (climb t start) by
    intro start hs
    exact allPos_map _ _ _ _ (h start hs) (fun _ h => h)
  induction t with
  | leaf w ok =>
    intro s hs
    have : s = 0 := by simp [TTree.size] at hs; omega
    subst this
    exact allPos_pure _ _ ⟨by simp [Res.val, TTree.size], Or.inl rfl⟩
  | node l r e τ ihl ihr =>
    intro s hs
    unfold climb
    split
    · rename_i h
      refine allPos_bind _ _ _ _ (ihl hn.1 s h) ?_
      intro res hres
      cases res with
      | stopped c =>
        refine allPos_pure _ _ ?_
        simp only [Res.val] at hres ⊢
        refine ⟨by simp [TTree.size]; omega, ?_⟩
        rcases hres.2 with h1 | h1
        · exact Or.inl h1
        · exact Or.inr (by rw [weightAt_left _ _ _ _ _ hres.1]; exact h1)
      | top c =>
        simp only [Res.val] at hres
        unfold stepUp
        simp only [if_true]
        have hstay : c < (TTree.node l r e τ).size ∧ (c = s ∨ 0 < (TTree.node l r e τ).weightAt c) := by
          refine ⟨by simp [TTree.size]; omega, ?_⟩
          rcases hres.2 with h1 | h1
          · exact Or.inl h1
          · exact Or.inr (by rw [weightAt_left _ _ _ _ _ hres.1]; exact h1)
        split
        · exact allPos_pure _ _ (by simpa [Res.val] using hstay)
        · split
          · exact allPos_pure _ _ (by simpa [Res.val] using hstay)
          · intro y hy hne
            simp only [Dist.bind, bernoulli, List.flatMap_cons, List.flatMap_nil, List.append_nil,
              List.mem_append, List.mem_map] at hy
            rcases hy with ⟨z, hz, rfl⟩ | ⟨z, hz, rfl⟩
            · simp only at hne
              have hp : ratio r.W l.W ≠ 0 := fun h => hne (by rw [h]; ring)
              have hz2 : z.2 ≠ 0 := fun h => hne (by rw [h]; ring)
              have hrpos : 0 < r.W := ratio_ne_zero (W_nonneg l hn.1) hp (W_nonneg r hn.2)
              simp only [if_true, Dist.map, List.mem_map] at hz
              obtain ⟨u, hu, rfl⟩ := hz
              have := propose_pos true r hn.2 hrpos u hu hz2
              simp only [Res.val]
              exact ⟨by simp [TTree.size]; omega, Or.inr (by simpa [weightAt_right] using this.2)⟩
            · simp only [Bool.false_eq_true, if_false, Dist.pure, List.mem_singleton] at hz
              subst hz
              simpa [Res.val] using hstay
    · rename_i h
      have hs' : s - l.size < r.size := by simp [TTree.size] at hs; omega
      refine allPos_bind _ _ _ _ (ihr hn.2 _ hs') ?_
      intro res hres
      have hconv : ∀ c, c < r.size → (c = s - l.size ∨ 0 < r.weightAt c) →
          c + l.size < (TTree.node l r e τ).size ∧
            (c + l.size = s ∨ 0 < (TTree.node l r e τ).weightAt (c + l.size)) := by
        intro c hc hor
        refine ⟨by simp [TTree.size]; omega, ?_⟩
        rcases hor with h1 | h1
        · exact Or.inl (by omega)
        · exact Or.inr (by rw [weightAt_right]; exact h1)
      cases res with
      | stopped c =>
        simp only [Res.val] at hres
        exact allPos_pure _ _ (by simpa [Res.val] using hconv c hres.1 hres.2)
      | top c =>
        simp only [Res.val] at hres
        have hstay := hconv c hres.1 hres.2
        unfold stepUp
        simp only [Bool.false_eq_true, if_false]
        split
        · exact allPos_pure _ _ (by simpa [Res.val] using hstay)
        · split
          · exact allPos_pure _ _ (by simpa [Res.val] using hstay)
          · intro y hy hne
            simp only [Dist.bind, bernoulli, List.flatMap_cons, List.flatMap_nil, List.append_nil,
              List.mem_append, List.mem_map] at hy
            rcases hy with ⟨z, hz, rfl⟩ | ⟨z, hz, rfl⟩
            · simp only at hne
              have hp : ratio l.W r.W ≠ 0 := fun h => hne (by rw [h]; ring)
              have hz2 : z.2 ≠ 0 := fun h => hne (by rw [h]; ring)
              have hlpos : 0 < l.W := ratio_ne_zero (W_nonneg r hn.2) hp (W_nonneg l hn.1)
              simp only [if_true, Dist.map, List.mem_map] at hz
              obtain ⟨u, hu, rfl⟩ := hz
              have := propose_pos false l hn.1 hlpos u hu hz2
              simp only [Res.val, Bool.false_eq_true, if_false]
              exact ⟨by simp [TTree.size]; omega,
                Or.inr (by rw [weightAt_left _ _ _ _ _ this.1]; exact this.2)⟩
            · simp only [Bool.false_eq_true, if_false, Dist.pure, List.mem_singleton] at hz
              subst hz
              simpa [Res.val] using hstay

/-- **Containment for the Metropolis transitions**: if an integrator step of the trajectory
fails the chain stays where it is (direction flipped); a proposal accepted with positive
probability has positive weight. -/
theorem metropolis_contained (o : MOrbit K) (n : Nat) (i : Int) (fwd : Bool) :
    (o.pathOk (if fwd then i else i - n) n = false →
        metropolis o n (i, fwd) = Dist.pure (i, !fwd)) ∧
      AllPos (fun s => s.1 = i ∨ o.w s.1 ≠ 0) (metropolis o n (i, fwd)) := by
  constructor
  · intro h
    cases fwd <;> simp_all [metropolis]
  · have key : ∀ (j : Int) (c : Bool),
        AllPos (fun s => s.1 = i ∨ o.w s.1 ≠ 0)
          (Dist.map (fun acc => if acc = true then (j, c) else (i, !fwd))
            (bernoulli (ratio (o.w j) (o.w i)))) := by
      intro j c y hy hne
      simp only [Dist.map, bernoulli, List.map_cons, List.map_nil, List.mem_cons,
        List.not_mem_nil, or_false] at hy
      rcases hy with rfl | rfl
      · simp only [if_true] at hne ⊢
        right
        intro hw
        apply hne
        rw [hw]; exact ratio_zero_num _
      · simp
    unfold metropolis
    cases fwd
    · simp only [Bool.false_eq_true, if_false]
      by_cases hp : o.pathOk (i - n) n = true
      · simp only [hp, if_true]; exact key _ _
      · simp only [hp, Bool.false_eq_true, if_false]; exact allPos_pure _ _ (Or.inl rfl)
    · simp only [if_true]
      by_cases hp : o.pathOk i n = true
      · simp only [hp, if_true]; exact key _ _
      · simp only [hp, Bool.false_eq_true, if_false]; exact allPos_pure _ _ (Or.inl rfl)

end MiciVerif.C12
