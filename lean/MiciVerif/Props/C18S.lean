/-
C18 — tie of the cost side of `Model/Cache.lean` (when is a wrapped method really evaluated, what is
counted, what do auxiliary outputs and copies save) to the *source text* of `src/mici/states.py`.
See `Props/C09S.lean` for the mechanism (`Generated/StateSkeleton.lean` is regenerated from the tree
under test on every run; `skel_…_eq_model` for every function live there); here are the individual
facts the efficiency theorems of `Props/C18.lean` rest on, from the generated trees only, and the
consequences of the semantic tie for hits and misses.
-/
import MiciVerif.Lemmas.StateSkeletonGen

namespace MiciVerif.C18S
open MiciVerif.Skel
open MiciVerif.Generated
open MiciVerif.Cache
open MiciVerif.StateSkel

/-- statements of the recompute branch of the plain wrapper -/
def missBranch : List S :=
  ((StateSkeleton.cacheInState.branches (StateSem.missCond "key")).map fun tf => tf.1.stmts).getD []

/-- statements of the recompute branch of the with-aux wrapper -/
def auxMissBranch : List S :=
  ((StateSkeleton.cacheInStateWithAux.branches (StateSem.missCond "prim_key")).map fun tf => tf.1.stmts).getD []

/-- The wrapped method is called at exactly one place of each decorator, and that place is guarded by
`key not in state._cache or state._cache[key] is None` on the (primary) key, with no `else` branch:
it is evaluated iff the entry is absent or None, never on a valid entry
(model: `wrapM`: `match (h1.st sid).cache key with | some (some v) => ⟨h1, v, []⟩ | _ => …`). -/
theorem skel_recompute_iff_absent_or_none :
    (wrapBody.filterMap fun s => if s.callsDeep "method" then
        (match s with | .ifc c t f => some (c, t.callsDeep "method", f) | _ => some (.unk "unguarded", false, .skip))
        else Option.none) = [(StateSem.missCond "key", true, .skip)]
    ∧ (StateSkeleton.cacheInState.all.filter (S.callsHere "method")).length = 1
    ∧ (auxWrapBody.filterMap fun s => if s.callsDeep "method" then
        (match s with | .ifc c t f => some (c, t.callsDeep "method", f) | _ => some (.unk "unguarded", false, .skip))
        else Option.none) = [(StateSem.missCond "prim_key", true, .skip)]
    ∧ (StateSkeleton.cacheInStateWithAux.all.filter (S.callsHere "method")).length = 1
    ∧ missBranch.head? = some (.assign (.sub (.v "state._cache") (.v "key")) (.call "method" (E.l [.v "self", .v "state"])))
    ∧ auxMissBranch.head? = some (.assign (.v "vals") (.call "method" (E.l [.v "self", .v "state"]))) := by
  decide +kernel

/-- `_call_counts[key]` is incremented by one at exactly one place of each decorator: inside the
recompute branch, after the wrapped method returned, for the primary key
(model: `Res.tr = r.tr ++ [key]` on a miss, `[]` on a hit). -/
theorem skel_call_count_incremented_only_on_compute :
    StateSkeleton.cacheInState.writesTo "state._call_counts" = [.aug (.sub (.v "state._call_counts") (.v "key")) "+" (.n 1)]
    ∧ missBranch.getLast? = some (StateSem.countStmt "key")
    ∧ idx (S.callsDeep "method") missBranch = some 0
    ∧ missBranch.length = 2
    ∧ (wrapBody.filter (S.usesDeep "state._call_counts")).length = 1
    ∧ StateSkeleton.cacheInStateWithAux.writesTo "state._call_counts" =
      [.aug (.sub (.v "state._call_counts") (.v "prim_key")) "+" (.n 1)]
    ∧ auxMissBranch.getLast? = some (StateSem.countStmt "prim_key")
    ∧ idx (S.callsDeep "method") auxMissBranch = some 0
    ∧ auxMissBranch.length = 3
    ∧ (auxWrapBody.filter (S.usesDeep "state._call_counts")).length = 1 := by
  decide +kernel

/-- Both wrappers return the entry stored under the (primary) key and nothing else
(model: `Res.v`). -/
theorem skel_hit_returns_cached_entry :
    ((StateSkeleton.cacheInState.defBody "wrapper").map S.returns) = some [.sub (.v "state._cache") (.v "key")]
    ∧ ((StateSkeleton.cacheInStateWithAux.defBody "wrapper").map S.returns) =
      some [.sub (.v "state._cache") (.v "prim_key")] := by
  decide +kernel

/-- The with-aux wrapper stores a tuple result by `zip(keys, vals, strict=False)` — primary value under
the primary key, the auxiliary values under the aux keys in the order of `auxiliary_outputs`, as many
as were returned, overwriting whatever the entries held — and a non-tuple result under the primary key;
these are the only writes to the cache (model: `store cfg s key r.v ((e.aux.take nAux).map (Key.mk sys))`). -/
theorem skel_aux_values_stored_by_zip :
    (auxMissBranch.drop 1).head? =
      some (.ifc (.call "isinstance" (E.l [.v "vals", .v "tuple"]))
        (S.b [.loop (.tup (E.l [.v "k", .v "v"])) (.call "zip" (E.l [.v "keys", .v "vals", .kw "strict" (.v "False")]))
          (S.b [.assign (.sub (.v "state._cache") (.v "k")) (.v "v")])])
        (S.b [.assign (.sub (.v "state._cache") (.v "prim_key")) (.v "vals")]))
    ∧ StateSkeleton.cacheInStateWithAux.writesTo "state._cache" =
      [.assign (.sub (.v "state._cache") (.v "k")) (.v "v"), .assign (.sub (.v "state._cache") (.v "prim_key")) (.v "vals")]
    ∧ StateSkeleton.cacheInState.writesTo "state._cache" =
      [.assign (.sub (.v "state._cache") (.v "key")) (.call "method" (E.l [.v "self", .v "state"]))] := by
  decide +kernel

/-- A copy (read-only or not) is built with `self._cache.copy()`: every entry of the original — callable
values included — is a hit on the copy (model: `step .copy` keeps `cache`; `C18.no_reeval_copy`;
seeded change `C18-1` filtered the callables out). -/
theorem skel_copy_keeps_all_cache_entries :
    copyArgs.bind (E.kwArg "_cache") = some (.call "self._cache.copy" (E.l []))
    ∧ (StateSkeleton.copy.all.filter fun s => s.usesHere "self._cache.copy" || s.callsHere "self._cache.copy").length = 1
    ∧ StateSkeleton.copy.returns.length = 1 := by
  decide +kernel

/-- A copy is built with the original's `_call_counts` object itself: evaluations on copies are counted
in the same Counter (the observation point of this property: "shared by all copies"). -/
theorem skel_copy_shares_call_counts :
    copyArgs.bind (E.kwArg "_call_counts") = some (.v "self._call_counts") := by
  decide +kernel

/-- Assigning a variable clears exactly the entries registered under THAT variable: the only write to
`_cache` in `__setattr__` is `self._cache[k] = None` for `k` ranging over `self._dependencies[name]`
(whatever the loop variable is called), so entries that do not depend on the assigned variable stay
valid (model: `invalidate h s x`; `C18.no_reeval_indep`). -/
theorem skel_setattr_invalidates_only_dependents :
    (StateSkeleton.setattr.all.filterMap fun
        | .loop (.v d) it (.seq (.assign (.sub (.v "self._cache") (.v d')) .none) .skip) => some (it, d == d')
        | _ => Option.none) = [(.sub (.v "self._dependencies") (.v "name"), true)]
    ∧ (StateSkeleton.setattr.writesTo "self._cache").length = 1
    ∧ StateSkeleton.setattr.usesDeep "self._cache.clear" = false := by
  decide +kernel

/-- `_call_counts` of a state is always a `Counter` (so every evaluation is counted) and an existing
Counter is kept, not copied (so copies count into the same object). -/
theorem skel_call_counts_never_none :
    assignsTo (.sub (.v "self.__dict__") (.s "_call_counts")) StateSkeleton.init.stmts =
      [.assign (.sub (.v "self.__dict__") (.s "_call_counts"))
        (.ite (.op "or" (E.l [.op "is" (E.l [.v "_call_counts", .none]),
                              .op "not" (E.l [.call "isinstance" (E.l [.v "_call_counts", .v "Counter"])])]))
          (.call "Counter" (E.l [.v "_call_counts"])) (.v "_call_counts"))] := by
  decide +kernel

/-! ### consequences of the semantic tie (see `C09S.sem_cache_in_state…_is_wrapM`) -/

/-- The two wrappers generated from the current source consist of exactly these actions, in this order
(the reading `Skel.StateSem.wrapPass` of these plans is `Cache.wrapM`: `Lemmas/StateSkeleton.lean`). -/
theorem sem_wrap_plans :
    StateSem.wrapPlan "key" wrapBody =
      some [.makeKey, .registerIfAbsent, .computeIfAbsentOrNone [.evalAndStore, .count], .returnCached]
    ∧ StateSem.wrapPlan "prim_key" auxWrapBody =
      some [.makeKey, .makeKeys, .registerEachIfAbsent,
            .computeIfAbsentOrNone [.eval, .storeZipOrPrimary, .count], .returnCached] := by
  decide +kernel

private theorem wrapM_hit (cfg : Cfg) (call : Heap → Nat → Res) (e : Entry) (sid sys : Nat) (h : Heap) (v : Val)
    (hv : (h.st sid).cache ⟨sys, e.meth⟩ = some (some v)) :
    (wrapM cfg call e sid sys h).tr = [] ∧ (wrapM cfg call e sid sys h).v = v := by
  have : ((register h sid (if e.withAux then ⟨sys, e.meth⟩ :: e.aux.map (Key.mk sys) else [⟨sys, e.meth⟩]) e.declared).st sid).cache
      ⟨sys, e.meth⟩ = some (some v) := by simpa [register] using hv
  simp [wrapM, this]

private theorem wrapM_miss (cfg : Cfg) (call : Heap → Nat → Res) (e : Entry) (sid sys : Nat) (h : Heap)
    (hv : ∀ v, (h.st sid).cache ⟨sys, e.meth⟩ ≠ some (some v)) :
    ∃ pre, (wrapM cfg call e sid sys h).tr = pre ++ [⟨sys, e.meth⟩] := by
  have hreg : ∀ ks, ((register h sid ks e.declared).st sid).cache ⟨sys, e.meth⟩ = (h.st sid).cache ⟨sys, e.meth⟩ := by
    intro ks; simp [register]
  unfold wrapM
  simp only [hreg]
  generalize hc : (h.st sid).cache ⟨sys, e.meth⟩ = c
  rcases c with _ | _ | v
  · exact ⟨_, rfl⟩
  · exact ⟨_, rfl⟩
  · exact absurd hc (hv v)

/-- **A hit is free.**  The wrapper generated from the current source (either decorator), called on a
state whose cache holds a value under the method's key, evaluates no wrapped method (nothing is added
to `_call_counts`) and returns that value — whatever the nested calls would do. -/
theorem sem_hit_is_free (cfg : Cfg) (call : Heap → Nat → Res) (e : Entry) (sid sys : Nat) (h : Heap) (v : Val)
    (hv : (h.st sid).cache ⟨sys, e.meth⟩ = some (some v)) :
    ∃ r, (if e.withAux then StateSem.wrapPass "prim_key" auxWrapBody cfg call e sid sys h
          else StateSem.wrapPass "key" wrapBody cfg call e sid sys h) = some r ∧ r.tr = [] ∧ r.v = v := by
  refine ⟨wrapM cfg call e sid sys h, ?_, wrapM_hit cfg call e sid sys h v hv⟩
  cases he : e.withAux
  · simpa using StateSkeletonLemmas.run_plain wrapBody cfg call e sid sys h sem_wrap_plans.1 he
  · simpa using StateSkeletonLemmas.run_aux auxWrapBody cfg call e sid sys h sem_wrap_plans.2 he

/-- **A miss counts once.**  Called on a state whose entry is absent or None, the generated wrapper's
last evaluation is the method itself, counted once under its own key. -/
theorem sem_miss_counts_once (cfg : Cfg) (call : Heap → Nat → Res) (e : Entry) (sid sys : Nat) (h : Heap)
    (hv : ∀ v, (h.st sid).cache ⟨sys, e.meth⟩ ≠ some (some v)) :
    ∃ r pre, (if e.withAux then StateSem.wrapPass "prim_key" auxWrapBody cfg call e sid sys h
          else StateSem.wrapPass "key" wrapBody cfg call e sid sys h) = some r ∧ r.tr = pre ++ [⟨sys, e.meth⟩] := by
  obtain ⟨pre, hpre⟩ := wrapM_miss cfg call e sid sys h hv
  refine ⟨wrapM cfg call e sid sys h, pre, ?_, hpre⟩
  cases he : e.withAux
  · simpa using StateSkeletonLemmas.run_plain wrapBody cfg call e sid sys h sem_wrap_plans.1 he
  · simpa using StateSkeletonLemmas.run_aux auxWrapBody cfg call e sid sys h sem_wrap_plans.2 he

/-- non-vacuity: on the initial heap every entry is absent (a miss); after a store it is a hit -/
example (k : Key) : ∀ v, (Heap.init.st 0).cache k ≠ some (some v) := by
  intro v; simp [Heap.init]

example (cfg : Cfg) (k : Key) (v : Val) :
    ((setSt Heap.init 0 (fun s => store cfg s k v [])).st 0).cache k = some (some v) := by
  simp [setSt, store]

/-- the query of `skel_recompute_iff_absent_or_none` sees an unguarded call of the wrapped method -/
example :
    ([S.assign (.v "x") (.call "method" (E.l []))].filterMap fun s => if s.callsDeep "method" then
        (match s with | .ifc c t f => some (c, t.callsDeep "method", f) | _ => some (.unk "unguarded", false, .skip))
        else Option.none) ≠ [(StateSem.missCond "key", true, .skip)] := by
  decide +kernel

end MiciVerif.C18S
