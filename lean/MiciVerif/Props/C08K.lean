/-
C08 — tie of `Model/Momentum.lean` to the *source text* of the momentum transitions of
`mici/transitions.py` (builder B10).

`Generated/TransitionSkeleton.lean` is regenerated from the tree under test on every run
(`tools/extractors/transition_skeleton.py`).  The theorems below are re-checked by the kernel against the
regenerated trees of `IndependentMomentumTransition.sample`, `CorrelatedMomentumTransition.__init__` and
`CorrelatedMomentumTransition.sample`:

* `skel_…`: the generated trees are the ones `Model/Momentum.lean` was written against
  (`Skel.TExpected.*`), and the individual facts the model relies on, re-derived by queries on the generated
  trees (they localise a change: see the name of the broken one);
* `msem_…`: the reading `Skel.MSem` of the generated bodies (`Model/MomentumSem.lean`: expression-level
  translation into a typed language of scalar / condition / vector expressions and statements, executed in
  source order on (`state.mom`, `mom_ind`, draw counter); `system.sample_momentum` a function `Sm` of the
  normal draw, `x ** 0.5` a function `sqrt`) IS `Momentum.independentSample` / `Momentum.correlatedSample`
  with `a = sqrt (1 - c*c)`, for every commutative ring, index type, coefficient, momentum (or `None`) and
  generator; the constructor accepts exactly `0 ≤ c ≤ 1`; and the theorems of `Props/C08.lean`
  (`crank_nicolson_cov`, `crank_nicolson_invariant`, `crank_nicolson_cotangent`, `branch_spec`,
  `momentum_cov`) transported to the reading: what they say is then a statement about this reading of the
  current source.
-/
import MiciVerif.Generated.TransitionSkeleton
import MiciVerif.Model.TransitionSkeleton
import MiciVerif.Lemmas.MomentumSem
import MiciVerif.Props.C08

set_option linter.unusedSectionVars false

namespace MiciVerif.C08K
open MiciVerif.Skel
open MiciVerif.Generated
open Matrix MiciVerif.Momentum

/-! ### the generated trees are the expected ones -/

/-- Nothing in the three translated functions is outside the translated subset; the only dropped statement
is the message text of the constructor's `ValueError`; the momentum-transition classes, their bases and the
methods each defines are the expected ones (no new override of `sample`, no new base class). -/
theorem skel_momentum_understood :
    ([TransitionSkeleton.independentMomentumSample, TransitionSkeleton.correlatedMomentumInit,
      TransitionSkeleton.correlatedMomentumSample].all S.known = true)
    ∧ (TransitionSkeleton.dropped.filter fun d =>
        d.1 == "IndependentMomentumTransition.sample" || d.1 == "CorrelatedMomentumTransition.__init__"
          || d.1 == "CorrelatedMomentumTransition.sample") =
      [("CorrelatedMomentumTransition.__init__", "message text", "")]
    ∧ (TransitionSkeleton.classes.filter fun c =>
        ["MomentumTransition", "IndependentMomentumTransition", "CorrelatedMomentumTransition"].contains c.1) =
      [("MomentumTransition", ["Transition"], ["state_variables", "__init__", "sample"]),
       ("IndependentMomentumTransition", ["MomentumTransition"], ["sample"]),
       ("CorrelatedMomentumTransition", ["MomentumTransition"], ["__init__", "sample"])] := by
  decide +kernel

/-- The three functions, whole: signature and body equal the trees annotated in
`Model/TransitionSkeleton.lean` (`Mom:` comments name the definition of `Model/Momentum.lean` each node
justifies). -/
theorem skel_momentum_eq_model :
    TransitionSkeleton.independentMomentumSampleSig = TExpected.independentMomentumSampleSig
    ∧ TransitionSkeleton.independentMomentumSample = TExpected.independentMomentumSample
    ∧ TransitionSkeleton.correlatedMomentumInitSig = TExpected.correlatedMomentumInitSig
    ∧ TransitionSkeleton.correlatedMomentumInit = TExpected.correlatedMomentumInit
    ∧ TransitionSkeleton.correlatedMomentumSampleSig = TExpected.correlatedMomentumSampleSig
    ∧ TransitionSkeleton.correlatedMomentumSample = TExpected.correlatedMomentumSample := by
  decide +kernel

/-! ### individual facts, from the generated trees -/

/-- `self.system.sample_momentum(state, rng)` -/
abbrev drawCall : E := MSem.drawCall
/-- `self.mom_resample_coeff` -/
abbrev coeff : E := .v "self.mom_resample_coeff"

/-- The branch conditions: full refresh iff `state.mom is None or c == 1` (an `or`, the `None` test first);
otherwise the Crank–Nicolson block iff `c != 0`; there is no other `if` (model: `Momentum.branch`). -/
theorem skel_correlated_branch_conditions :
    (TransitionSkeleton.correlatedMomentumSample.ifs.map fun x => x.1) =
      [.op "or" (E.l [.op "is" (E.l [.v "state.mom", .none]), .op "==" (E.l [coeff, .n 1])]),
       .op "!=" (E.l [coeff, .n 0])]
    ∧ (TransitionSkeleton.correlatedMomentumSample.ifs.map fun x => x.2.2.length) = [1, 0] := by
  decide +kernel

/-- Every branch makes at most one draw: the body contains exactly two calls of `sample_momentum`, one in
the full-refresh branch and one in the Crank–Nicolson block, none in a loop; the independent transition
contains exactly one (model: the draw counter advances by one, `(…, k + 1)`). -/
theorem skel_one_draw_per_branch :
    (TransitionSkeleton.correlatedMomentumSample.all.filter (S.callsHere "self.system.sample_momentum")) =
      [.assign (.v "state.mom") drawCall, .assign (.v "mom_ind") drawCall]
    ∧ (TransitionSkeleton.correlatedMomentumSample.ifs.map fun x =>
        ((x.2.1.filter (S.callsHere "self.system.sample_momentum")).length,
         (x.2.2.filter (S.callsHere "self.system.sample_momentum")).length)) = [(1, 0), (1, 0)]
    ∧ (TransitionSkeleton.correlatedMomentumSample.all.filter fun
        | .loop _ _ _ => true
        | .while_ _ _ => true
        | _ => false) = []
    ∧ (TransitionSkeleton.independentMomentumSample.all.filter (S.callsHere "self.system.sample_momentum")) =
      [.assign (.v "state.mom") drawCall] := by
  decide +kernel

/-- The Crank–Nicolson block: the independent draw `mom_ind` is made FIRST, then the old momentum is scaled
in place by `(1.0 - c**2) ** 0.5` — the square of the coefficient under a square root — and then `c *
mom_ind` is ADDED (`+=`, not `=`) (model: `correlatedSample`: `a • p + c • S (rng k)`, `a² = 1 − c²`). -/
theorem skel_crank_nicolson_update :
    (TransitionSkeleton.correlatedMomentumSample.ifs.filter fun x => x.1 = .op "!=" (E.l [coeff, .n 0])) =
      [(.op "!=" (E.l [coeff, .n 0]),
        [.assign (.v "mom_ind") drawCall,
         .aug (.v "state.mom") "*" (.op "**" (E.l [.op "-" (E.l [.src "1.0", .op "**" (E.l [coeff, .n 2])]), .src "0.5"])),
         .aug (.v "state.mom") "+" (.op "*" (E.l [coeff, .v "mom_ind"]))],
        [])]
    ∧ assignsTo (.v "state.mom") TransitionSkeleton.correlatedMomentumSample.stmts =
      [.assign (.v "state.mom") drawCall,
       .aug (.v "state.mom") "*" (.op "**" (E.l [.op "-" (E.l [.src "1.0", .op "**" (E.l [coeff, .n 2])]), .src "0.5"])),
       .aug (.v "state.mom") "+" (.op "*" (E.l [coeff, .v "mom_ind"]))] := by
  decide +kernel

/-- Both `sample` methods end in `return state, None` (the state object they were given, mutated), and that
is their only `return`. -/
theorem skel_momentum_returns_state :
    TransitionSkeleton.correlatedMomentumSample.returns = [.tup (E.l [.v "state", .none])]
    ∧ TransitionSkeleton.correlatedMomentumSample.stmts.getLast? = some (.ret (.tup (E.l [.v "state", .none])))
    ∧ TransitionSkeleton.independentMomentumSample.stmts =
      [.assign (.v "state.mom") drawCall, .ret (.tup (E.l [.v "state", .none]))] := by
  decide +kernel

/-- The constructor rejects `not (c >= 0 and c <= 1)` with `ValueError` BEFORE storing the coefficient, stores
the argument unchanged, and has no default other than `1.0` (model: hypothesis `0 ≤ c ≤ 1`, under which
`1 − c²` has a square root; NaN is rejected because both comparisons are false). -/
theorem skel_coeff_range_checked :
    TransitionSkeleton.correlatedMomentumInit.ifs =
      [(.op "not" (E.l [.op "and" (E.l [.op ">=" (E.l [.v "mom_resample_coeff", .n 0]),
                                         .op "<=" (E.l [.v "mom_resample_coeff", .n 1])])]),
        [.raise_ (.call "ValueError" (E.l [.v "msg"])) .none], [])]
    ∧ TransitionSkeleton.correlatedMomentumInit.stmts.getLast? =
      some (.assign (.v "self.mom_resample_coeff") (.v "mom_resample_coeff"))
    ∧ TransitionSkeleton.correlatedMomentumInit.valuesOf (.v "self.mom_resample_coeff") = [.v "mom_resample_coeff"]
    ∧ TransitionSkeleton.correlatedMomentumInitSig =
      E.l [.v "self", .v "system", .kw "mom_resample_coeff" (.src "1.0")] := by
  decide +kernel

/-! ### the generated bodies, read on the model's state, are the model -/

/-- The typed programs obtained from the bodies generated from the current source are the ones the model was
written against (`MSem.expectedIndependent`, `expectedCorrelated`, `expectedInit`). -/
theorem msem_plans :
    MSem.act? "self.mom_resample_coeff" TransitionSkeleton.independentMomentumSample = some MSem.expectedIndependent
    ∧ MSem.act? "self.mom_resample_coeff" TransitionSkeleton.correlatedMomentumSample = some MSem.expectedCorrelated
    ∧ MSem.initPlan TransitionSkeleton.correlatedMomentumInit.stmts = some MSem.expectedInit := by
  decide +kernel

section Reading
variable {K : Type*} [CommRing K] [DecidableEq K] {n : Type*}

/-- **Semantic tie of `IndependentMomentumTransition.sample`.**  The body generated from the current source,
read statement by statement (`Skel.MSem`), replaces the momentum by `Sm` of ONE draw and advances the draw
counter by one — `Momentum.independentSample` — whatever the old momentum (also `None`). -/
theorem msem_independent_is_model (Sm : (n → K) → (n → K)) (sqrt : K → K) (le lt : K → K → Bool) (c : K)
    (mom : Option (n → K)) (rng : Nat → n → K) (k : Nat) :
    MSem.samplePass TransitionSkeleton.independentMomentumSample Sm sqrt le lt c mom rng k =
      some (independentSample Sm rng k) :=
  MSem.samplePass_of_independent _ msem_plans.1 Sm sqrt le lt c mom rng k

/-- **Semantic tie of `CorrelatedMomentumTransition.sample`.**  The body generated from the current source —
its conditions, scalar and vector expressions translated compositionally and its statements executed in
source order on (`state.mom`, `mom_ind`, draw counter), `system.sample_momentum` read as `Sm` of the next
draw, `x ** 0.5` as `sqrt x` — returns exactly `Momentum.correlatedSample Sm c a` with `a = sqrt (1 - c*c)`:
the new momentum AND the number of draws consumed, for every commutative ring, index type, coefficient,
momentum (or `None`), generator and `sqrt`. -/
theorem msem_correlated_is_model (Sm : (n → K) → (n → K)) (sqrt : K → K) (le lt : K → K → Bool) (c : K)
    (mom : Option (n → K)) (rng : Nat → n → K) (k : Nat) :
    MSem.samplePass TransitionSkeleton.correlatedMomentumSample Sm sqrt le lt c mom rng k =
      some (correlatedSample Sm c (sqrt (1 - c * c)) mom rng k) :=
  MSem.samplePass_of_correlated _ msem_plans.2.1 Sm sqrt le lt c mom rng k

/-- **`branch_spec` for the reading.**  Full refresh — the result is `Sm` of one draw, the old momentum is
ignored — iff `state.mom is None or c == 1`; Crank–Nicolson combination with exactly one draw iff there is a
momentum and `c ≠ 1, c ≠ 0`; unchanged momentum and NO draw iff there is a momentum and `c = 0 ≠ 1`; and
these are the three values of `Momentum.branch`. -/
theorem msem_branch_spec (Sm : (n → K) → (n → K)) (sqrt : K → K) (le lt : K → K → Bool) (c : K)
    (mom : Option (n → K)) (rng : Nat → n → K) (k : Nat) :
    (branch mom.isNone c = .fullRefresh →
      MSem.samplePass TransitionSkeleton.correlatedMomentumSample Sm sqrt le lt c mom rng k =
        some (Sm (rng k), k + 1))
    ∧ (branch mom.isNone c = .partialRefresh → ∃ p, mom = some p ∧
      MSem.samplePass TransitionSkeleton.correlatedMomentumSample Sm sqrt le lt c mom rng k =
        some (sqrt (1 - c * c) • p + c • Sm (rng k), k + 1))
    ∧ (branch mom.isNone c = .unchanged → ∃ p, mom = some p ∧
      MSem.samplePass TransitionSkeleton.correlatedMomentumSample Sm sqrt le lt c mom rng k = some (p, k))
    ∧ (branch mom.isNone c = .fullRefresh ↔ (mom = none ∨ c = 1))
    ∧ (branch mom.isNone c = .unchanged ↔ (mom ≠ none ∧ c = 0 ∧ c ≠ 1)) := by
  have hb := C08.branch_spec mom.isNone c
  rw [msem_correlated_is_model]
  cases mom with
  | none =>
    refine ⟨fun _ => rfl, ?_, ?_, ?_, ?_⟩ <;> simp [branch]
  | some p =>
    by_cases h1 : c = 1
    · refine ⟨fun _ => by simp [correlatedSample, h1], ?_, ?_, ?_, ?_⟩ <;> simp [branch, h1]
    · by_cases h0 : c = 0
      · subst h0
        refine ⟨?_, ?_, ?_, ?_, ?_⟩ <;> simp [branch, h1, correlatedSample]
      · refine ⟨?_, ?_, ?_, ?_, ?_⟩ <;> simp [branch, h1, h0, correlatedSample]

/-- The reading consumes at most one draw, and none iff the momentum is left unchanged. -/
theorem msem_draws_at_most_one (Sm : (n → K) → (n → K)) (sqrt : K → K) (le lt : K → K → Bool) (c : K)
    (mom : Option (n → K)) (rng : Nat → n → K) (k : Nat) :
    ∃ out d, MSem.samplePass TransitionSkeleton.correlatedMomentumSample Sm sqrt le lt c mom rng k = some (out, k + d)
      ∧ d ≤ 1 ∧ (d = 0 ↔ branch mom.isNone c = .unchanged) := by
  rw [msem_correlated_is_model]
  cases mom with
  | none => exact ⟨_, 1, rfl, le_refl _, by simp [branch]⟩
  | some p =>
    by_cases h1 : c = 1
    · exact ⟨Sm (rng k), 1, by simp [correlatedSample, h1], le_refl _, by simp [branch, h1]⟩
    · by_cases h0 : c = 0
      · subst h0
        exact ⟨p, 0, by simp [correlatedSample, h1], by omega, by simp [branch, h1]⟩
      · exact ⟨sqrt (1 - c * c) • p + c • Sm (rng k), 1, by simp [correlatedSample, h1, h0], le_refl _,
          by simp [branch, h1, h0]⟩

end Reading

/-! ### the C08 theorems, for the reading of the current source -/

section Transport
variable {K : Type*} [CommRing K] [DecidableEq K] {n : Type*} [Fintype n]

/-- **`crank_nicolson_cov` for the reading.**  With a zero draw (`Sm 0 = 0`: `sample_momentum` is linear) the
reading scales the old momentum by a single coefficient `a`, and `a² Σ + c² Σ = Σ` for every covariance `Σ`
as soon as `sqrt` is a square root at the one argument `1 − c²` the code passes to `** 0.5`. -/
theorem msem_crank_nicolson_cov (Sm : (n → K) → (n → K)) (hS0 : Sm 0 = 0) (sqrt : K → K) (le lt : K → K → Bool)
    (c : K) (h1 : c ≠ 1) (h0 : c ≠ 0) (hsq : sqrt (1 - c * c) * sqrt (1 - c * c) = 1 - c * c)
    (p : n → K) (k : Nat) (Sg : Matrix n n K) :
    ∃ a : K, MSem.samplePass TransitionSkeleton.correlatedMomentumSample Sm sqrt le lt c (some p) (fun _ => 0) k =
        some (a • p, k + 1)
      ∧ (a * a) • Sg + (c * c) • Sg = Sg := by
  refine ⟨sqrt (1 - c * c), ?_, C08.crank_nicolson_cov _ c hsq Sg⟩
  rw [msem_correlated_is_model]
  simp [correlatedSample, h1, h0, hS0]

private theorem secondMoment_prod_snd {ι κ : Type*} [Fintype ι] [Fintype κ] (w : ι → K) (v : κ → K)
    (m : κ → n → K) (hw : ∑ i, w i = 1) :
    secondMoment (fun ij : ι × κ => w ij.1 * v ij.2) (fun ij => m ij.2) = secondMoment v m := by
  unfold secondMoment
  rw [Fintype.sum_prod_type]
  simp only [mul_smul, ← Finset.smul_sum]
  rw [← Finset.sum_smul, hw, one_smul]

private theorem secondMoment_prod_fst {ι κ : Type*} [Fintype ι] [Fintype κ] (w : ι → K) (v : κ → K)
    (p : ι → n → K) (hv : ∑ j, v j = 1) :
    secondMoment (fun ij : ι × κ => w ij.1 * v ij.2) (fun ij => p ij.1) = secondMoment w p := by
  unfold secondMoment
  rw [Fintype.sum_prod_type]
  simp only [mul_comm (w _), mul_smul, ← Finset.sum_smul, hv, one_smul]

/-- **`crank_nicolson_invariant` for the reading: every branch leaves the second moment invariant.**  Let the
current momentum `p` and the fresh momentum `Sm z` be independent (product sample), both with zero mean, unit
total weight and second moment `Σ`.  Then the momentum returned by the reading of the body generated from
the current source has second moment `Σ` — for EVERY coefficient `c` (full refresh at `c = 1`, no change at
`c = 0`, Crank–Nicolson otherwise), given only that `sqrt` squares to `1 − c²` at that one argument — and the
number of draws consumed is the same for all sample points and at most one. -/
theorem msem_correlated_invariant {ι κ : Type*} [Fintype ι] [Fintype κ]
    (Sm : (n → K) → (n → K)) (sqrt : K → K) (le lt : K → K → Bool) (c : K)
    (hsq : sqrt (1 - c * c) * sqrt (1 - c * c) = 1 - c * c) (Sg : Matrix n n K)
    (w : ι → K) (p : ι → n → K) (v : κ → K) (z : κ → n → K)
    (hw : ∑ i, w i = 1) (hv : ∑ j, v j = 1)
    (hp0 : mean w p = 0) (hm0 : mean v (fun j => Sm (z j)) = 0)
    (hp : secondMoment w p = Sg) (hm : secondMoment v (fun j => Sm (z j)) = Sg) :
    ∃ (out : ι × κ → n → K) (d : Nat),
      (∀ ij : ι × κ, MSem.samplePass TransitionSkeleton.correlatedMomentumSample Sm sqrt le lt c
          (some (p ij.1)) (fun _ => z ij.2) 0 = some (out ij, d))
      ∧ d ≤ 1
      ∧ secondMoment (fun ij : ι × κ => w ij.1 * v ij.2) out = Sg := by
  simp only [msem_correlated_is_model]
  by_cases h1 : c = 1
  · refine ⟨fun ij => Sm (z ij.2), 1, fun ij => by simp [correlatedSample, h1], le_refl _, ?_⟩
    rw [secondMoment_prod_snd w v (fun j => Sm (z j)) hw, hm]
  · by_cases h0 : c = 0
    · subst h0
      refine ⟨fun ij => p ij.1, 0, fun ij => by simp [correlatedSample, h1], by omega, ?_⟩
      rw [secondMoment_prod_fst w v p hv, hp]
    · refine ⟨fun ij => sqrt (1 - c * c) • p ij.1 + c • Sm (z ij.2), 1,
        fun ij => by simp [correlatedSample, h1, h0], le_refl _, ?_⟩
      exact C08.crank_nicolson_invariant _ c hsq Sg w p v (fun j => Sm (z j)) hw hv hp0 hm0 hp hm

/-- … and with `Sm = sampleMomentum L`, `L Lᵀ = M` (`momentum_cov`): standard-normal-like draws (`E[z zᵀ] = 1`,
mean 0) and a current momentum with second moment `M` give a new momentum with second moment `M`, for both
transitions as read from the current source. -/
theorem msem_momentum_law_invariant [DecidableEq n] {ι κ : Type*} [Fintype ι] [Fintype κ]
    (L M : Matrix n n K) (hL : L * Lᵀ = M) (sqrt : K → K) (le lt : K → K → Bool) (c : K)
    (hsq : sqrt (1 - c * c) * sqrt (1 - c * c) = 1 - c * c)
    (w : ι → K) (p : ι → n → K) (v : κ → K) (z : κ → n → K)
    (hw : ∑ i, w i = 1) (hv : ∑ j, v j = 1)
    (hp0 : mean w p = 0) (hz0 : mean v z = 0)
    (hp : secondMoment w p = M) (hz : secondMoment v z = 1) :
    (∃ (out : ι × κ → n → K) (d : Nat),
      (∀ ij : ι × κ, MSem.samplePass TransitionSkeleton.correlatedMomentumSample (sampleMomentum L) sqrt le lt c
          (some (p ij.1)) (fun _ => z ij.2) 0 = some (out ij, d))
      ∧ d ≤ 1 ∧ secondMoment (fun ij : ι × κ => w ij.1 * v ij.2) out = M)
    ∧ (∃ out : ι × κ → n → K,
      (∀ ij : ι × κ, MSem.samplePass TransitionSkeleton.independentMomentumSample (sampleMomentum L) sqrt le lt c
          (some (p ij.1)) (fun _ => z ij.2) 0 = some (out ij, 1))
      ∧ secondMoment (fun ij : ι × κ => w ij.1 * v ij.2) out = M) := by
  have hm : secondMoment v (fun j => sampleMomentum L (z j)) = M := C08.momentum_cov L M hL v z hz
  have hm0 : mean v (fun j => sampleMomentum L (z j)) = 0 := by
    have hz0' : ∑ j, v j • z j = 0 := hz0
    unfold mean sampleMomentum
    simp only [← Matrix.mulVec_smul]
    rw [← Matrix.mulVec_sum, hz0', Matrix.mulVec_zero]
  refine ⟨msem_correlated_invariant _ sqrt le lt c hsq M w p v z hw hv hp0 hm0 hp hm, ?_⟩
  refine ⟨fun ij => sampleMomentum L (z ij.2), fun ij => by
    rw [msem_independent_is_model]; rfl, ?_⟩
  rw [secondMoment_prod_snd w v (fun j => sampleMomentum L (z j)) hw, hm]

/-- **`crank_nicolson_cotangent` for the reading.**  If every fresh momentum lies in the cotangent space
(`J M⁻¹ (Sm z) = 0`: `C08.sample_momentum_cotangent`) and so does the current one (if any), then so does the
momentum returned by the reading, in every branch. -/
theorem msem_correlated_cotangent {cI : Type*} [Fintype cI] (J : Matrix cI n K) (N : Matrix n n K)
    (Sm : (n → K) → (n → K)) (hS : ∀ z, J *ᵥ (N *ᵥ Sm z) = 0) (sqrt : K → K) (le lt : K → K → Bool) (c : K)
    (mom : Option (n → K)) (hp : ∀ p, mom = some p → J *ᵥ (N *ᵥ p) = 0) (rng : Nat → n → K) (k : Nat) :
    ∃ out d, MSem.samplePass TransitionSkeleton.correlatedMomentumSample Sm sqrt le lt c mom rng k = some (out, d)
      ∧ J *ᵥ (N *ᵥ out) = 0 := by
  rw [msem_correlated_is_model]
  cases mom with
  | none => exact ⟨_, _, rfl, hS _⟩
  | some p =>
    by_cases h1 : c = 1
    · exact ⟨Sm (rng k), k + 1, by simp [correlatedSample, h1], hS _⟩
    · by_cases h0 : c = 0
      · subst h0
        exact ⟨p, k, by simp [correlatedSample, h1], hp p rfl⟩
      · exact ⟨sqrt (1 - c * c) • p + c • Sm (rng k), k + 1, by simp [correlatedSample, h1, h0],
          C08.crank_nicolson_cotangent J N (sqrt (1 - c * c)) c p (Sm (rng k)) (hp p rfl) (hS _)⟩

end Transport

/-! ### the constructor -/

section Init
variable {K : Type*} [Field K] [LinearOrder K] [IsStrictOrderedRing K]

/-- **Semantic tie of the constructor.**  The body generated from the current source, its condition translated
compositionally (`not (c >= 0 and c <= 1)`) and evaluated with the order of `K`, raises `ValueError` iff
`¬ (0 ≤ c ∧ c ≤ 1)` and otherwise stores the coefficient it was given (after `super().__init__`). -/
theorem msem_init_accepts_iff (sqrt : K → K) (c : K) :
    MSem.initPass TransitionSkeleton.correlatedMomentumInit.stmts sqrt (fun a b => decide (a ≤ b))
        (fun a b => decide (a < b)) c =
      some (if 0 ≤ c ∧ c ≤ 1 then some c else none) := by
  rw [MSem.initPass_of_expected _ msem_plans.2.2]
  by_cases h0 : (0 : K) ≤ c <;> by_cases h1 : c ≤ 1 <;> simp [h0, h1]

/-- An accepted coefficient makes the argument of `** 0.5` non-negative (`0 ≤ 1 − c²`), so the checked datum
`a` with `a² = 1 − c²` exists over the reals; and `a² + c² = 1` forces `0 ≤ a² ≤ 1`. -/
theorem msem_accepted_coeff_root_exists (sqrt : K → K) (c : K)
    (hacc : MSem.initPass TransitionSkeleton.correlatedMomentumInit.stmts sqrt (fun a b => decide (a ≤ b))
        (fun a b => decide (a < b)) c = some (some c)) :
    0 ≤ 1 - c * c ∧ 1 - c * c ≤ 1 := by
  rw [msem_init_accepts_iff] at hacc
  by_cases h : 0 ≤ c ∧ c ≤ 1
  · constructor <;> nlinarith [h.1, h.2]
  · simp [h] at hacc

end Init

/-! ### non-vacuity, and the reading discriminates -/

/-- `sqrt` on the three arguments used below: `16/25 ↦ 4/5`, `2/5 ↦ 1/2` (any value), else itself -/
private def sq (x : ℚ) : ℚ := if x = 16 / 25 then 4 / 5 else x

/-- not vacuous: `c = 3/5`, momentum `(10)`, draw `(5)`, `Sm = 2·` in dimension 1: the reading of the current
source returns `4/5·10 + 3/5·(2·5) = 14` after one draw; with `c = 0` it returns `10` after no draw; with no
momentum or `c = 1` it returns `2·5` after one draw. -/
example :
    let Sm : (Fin 1 → ℚ) → (Fin 1 → ℚ) := fun z => 2 • z
    let rd (c : ℚ) (mom : Option ℚ) :=
      (MSem.samplePass TransitionSkeleton.correlatedMomentumSample Sm sq (fun a b => decide (a ≤ b))
        (fun a b => decide (a < b)) c (mom.map fun x _ => x) (fun _ _ => 5) 0).map fun r => (r.1 0, r.2)
    rd (3 / 5) (some 10) = some (14, 1) ∧ rd 0 (some 10) = some (10, 0) ∧ rd 1 (some 10) = some (10, 1)
      ∧ rd (3 / 5) none = some (10, 1) := by
  decide +kernel

/-- The reading discriminates: the same body with `c` instead of `c**2` under the root, with the root
dropped, with `=` instead of `+=`, with `and` instead of `or`, without the `c != 0` test, or with a second
draw, is translated (no rejection) but does NOT read as `correlatedSample` (different momentum, different
number of draws, or `None` used as an array). -/
example :
    let Sm : (Fin 1 → ℚ) → (Fin 1 → ℚ) := fun z => 2 • z
    let run (a : MSem.Act) (c : ℚ) (mom : Option ℚ) :=
      (MSem.exec Sm sq (fun a b => decide (a ≤ b)) (fun a b => decide (a < b)) c (fun _ _ => 5) a
        ⟨mom.map fun x _ => x, none, 0⟩).map fun r => (r.1.mom.map fun p => p 0, r.1.k)
    let body (cond : MSem.CExp) (inner : MSem.Act) : MSem.Act :=
      .seq (.ite cond (.seq (.setMom .draw) .skip) (.seq inner .skip)) (.seq .ret .skip)
    let cn (a : MSem.SExp) (upd : MSem.Act) : MSem.Act :=
      .ite (.ne .coeff (.int 0)) (.seq (.setInd .draw) (.seq (.scaleMom a) (.seq upd .skip))) .skip
    let orC : MSem.CExp := .or .momIsNone (.eq .coeff (.int 1))
    -- the current source
    run (body orC (cn MSem.cnCoeff (.addMom (.smul .coeff .momInd)))) (3 / 5) (some 10) = some (some 14, 1)
    -- `(1.0 - c) ** 0.5`
    ∧ run (body orC (cn (.sqrt (.sub (.int 1) .coeff)) (.addMom (.smul .coeff .momInd)))) (3 / 5) (some 10) = some (some 10, 1)
    -- `1.0 - c**2`
    ∧ run (body orC (cn (.sub (.int 1) (.sq .coeff)) (.addMom (.smul .coeff .momInd)))) (3 / 5) (some 10) = some (some (62 / 5), 1)
    -- `state.mom = c * mom_ind`
    ∧ run (body orC (cn MSem.cnCoeff (.setMom (.smul .coeff .momInd)))) (3 / 5) (some 10) = some (some 6, 1)
    -- `state.mom is None and c == 1`
    ∧ run (body (.and .momIsNone (.eq .coeff (.int 1))) (cn MSem.cnCoeff (.addMom (.smul .coeff .momInd)))) (3 / 5) none = none
    -- no `c != 0` test: a draw is consumed at `c = 0`
    ∧ run (body orC (.seq (.setInd .draw) (.seq (.scaleMom MSem.cnCoeff) (.seq (.addMom (.smul .coeff .momInd)) .skip)))) 0 (some 10)
        = some (some 10, 1)
    -- `state.mom += c * self.system.sample_momentum(state, rng)` after `mom_ind` was drawn: two draws
    ∧ run (body orC (cn MSem.cnCoeff (.addMom (.smul .coeff .draw)))) (3 / 5) (some 10) = some (some 14, 2) := by
  decide +kernel

/-- the constructor's reading on ℚ: `3/5` accepted, `-1/8` and `9/8` rejected -/
example :
    let rd (c : ℚ) := MSem.initPass TransitionSkeleton.correlatedMomentumInit.stmts sq (fun a b => decide (a ≤ b))
      (fun a b => decide (a < b)) c
    rd (3 / 5) = some (some (3 / 5)) ∧ rd (-1 / 8) = some none ∧ rd (9 / 8) = some none ∧ rd 0 = some (some 0)
      ∧ rd 1 = some (some 1) := by
  decide +kernel

/-- hypotheses of `msem_momentum_law_invariant` are jointly satisfiable: dimension 1, `L = (2)`, `M = (4)`,
`z = ±1` and `p = ±2` with weights ½, `c = 3/5`, `sqrt (16/25) = 4/5`. -/
example :
    let L : Matrix (Fin 1) (Fin 1) ℚ := !![2]
    let M : Matrix (Fin 1) (Fin 1) ℚ := !![4]
    let w : Fin 2 → ℚ := fun _ => 1 / 2
    let z : Fin 2 → Fin 1 → ℚ := fun i _ => if i = 0 then 1 else -1
    let p : Fin 2 → Fin 1 → ℚ := fun i _ => if i = 0 then 2 else -2
    L * Lᵀ = M ∧ ∑ i, w i = 1 ∧ mean w p = 0 ∧ mean w z = 0 ∧ secondMoment w p = M ∧ secondMoment w z = 1
      ∧ sq (1 - 3 / 5 * (3 / 5)) * sq (1 - 3 / 5 * (3 / 5)) = 1 - 3 / 5 * (3 / 5 : ℚ) := by
  intro L M w z p
  refine ⟨?_, ?_, ?_, ?_, ?_, ?_, ?_⟩
  · ext i j; fin_cases i; fin_cases j; simp [L, M, Matrix.mul_apply]; norm_num
  · simp [w]
  · ext i; fin_cases i; simp [mean, w, p, Fin.sum_univ_succ]
  · ext i; fin_cases i; simp [mean, w, z, Fin.sum_univ_succ]
  · ext i j; fin_cases i; fin_cases j
    simp [secondMoment, w, p, M, Fin.sum_univ_succ, Matrix.vecMulVec_apply]; norm_num
  · ext i j; fin_cases i; fin_cases j
    simp [secondMoment, w, z, Fin.sum_univ_succ, Matrix.vecMulVec_apply]; norm_num
  · norm_num [sq]

end MiciVerif.C08K
