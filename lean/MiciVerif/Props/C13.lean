/-
C13 — Sampler outputs record exactly the post-iteration chain states.

Property theorems about the sampler model `MiciVerif.Sampler` (sequential mode; C14 carries them
over to every process count / schedule) for EVERY kernel (transitions, adapters, trace functions),
every initial state list, every stage table.  `no_fill_survives_*` and `length_eq_n_trace_iter`
are for the stage tables of the two built-in stagers and use C16's sum theorems.
`stats_keys_declared` is a `decide` on the table generated from `transitions.py`.
-/
import MiciVerif.Lemmas.SamplerRun
import MiciVerif.Model.SamplerCount
import MiciVerif.Generated.StatTypes
import MiciVerif.Props.C16

namespace MiciVerif.C13
open MiciVerif.Stagers MiciVerif.Sampler

variable {S V A P : Type}

/-- **rows_exact.**  Complete sequential run over the stage table `pre ++ st :: post`.  For every
chain `c`, every iteration `i` of stage `st` and every operation `j` (transition or trace function)
that records in that stage, the cell `(array j, row offset + i)` of the *returned* arrays holds
exactly the statistic / traced value that operation `j` computes from the chain-local variables
(state, generator, adapter state, transition parameters) reached by the operations completed
before it — for a trace function that is the state after iteration `i`, for a transition the
statistics of iteration `i`.  `offset` is the offset the stage loop has reached before `st`. -/
theorem rows_exact (K : Kernel S V A P) (p0 : P) (inits : List S) (nTrace : Nat)
    (pre post : List (Stage × Mode)) (st : Stage) (hpre : AllSeq pre) (hpost : AllSeq post)
    (c i j : Nat) (op : Op S V A P) (ch : Chain S V) (sysK : Sys S V P)
    (hK : sysK = runStages K none pre (initSys K p0 inits nTrace))
    (hc : sysK.chains[c]? = some ch)
    (hi : i < st.n) (hop : (opsOf K st)[j]? = some op) (hg : gate st op = true)
    (hfit : sysK.offset + i < nTrace) :
    cell (memOf (runStages K none (pre ++ (st, Mode.seq) :: post) (initSys K p0 inits nTrace)).chains c)
        j (sysK.offset + i) =
      some (some (opVal st op
        (foldOps st sysK.offset (prefixOps (opsOf K st) i j)
          (startRun K st (paramsBefore K st sysK c) ch)).ctx)) := by
  have hinv := runStages_seq_inv K pre hpre (initSys K p0 inits nTrace) rfl _ _
    (memShape_initSys K p0 inits nTrace)
  rw [← hK] at hinv
  have hs : sysK.stopped = false := hinv.1
  have hn : st.n ≠ 0 := by omega
  rw [runStages_none_append, runStages_none_cons, ← hK]
  have hrec := recording_of_gate K st j op hop hg
  have hoff : (runStage0 K sysK (st, .seq)).offset = sysK.offset + st.n := by
    rw [runStage0_seq_offset K sysK st hs]; simp [hrec]
  have hs' := runStage0_seq_stopped K sysK st hs
  have hfr := runStages_seq_frame_below K post hpost (runStage0 K sysK (st, .seq)) hs' c j
    (sysK.offset + i) (by omega)
  rw [hfr.1, memOf_runStage0_seq K sysK st hs hn c ch hc]
  have hjlt : j < (opsOf K st).length := by
    rcases List.getElem?_eq_some_iff.mp hop with ⟨h, _⟩; exact h
  have hsh := hinv.2.1 ch (List.mem_of_getElem? hc)
  have hin : (cell ch.mem j (i + sysK.offset)).isSome :=
    cell_isSome_of_shape hsh.1 hsh.2 j (i + sysK.offset)
      (Nat.lt_of_lt_of_le hjlt (opsOf_length_le K st)) (by omega)
  have := chainRes_cell_value K st sysK.offset (paramsBefore K st sysK c) ch i j op hi hop hg hin
  rw [Nat.add_comm sysK.offset i]
  exact this

private theorem map_mapIdx' {α β γ : Type} (f : Nat → α → β) (g : β → γ) (l : List α) :
    (l.mapIdx f).map g = l.mapIdx (fun i a => g (f i a)) := by
  apply List.ext_getElem?
  intro i
  simp only [List.getElem?_map, List.getElem?_mapIdx, Option.map_map]
  rfl

/-- **final_state.**  The states returned by a complete run whose last executed stage is `st` are
the states after the last iteration of `st` (for an adaptive stage: as left by the adapters'
`finalize`, which receives exactly those states). -/
theorem final_state (K : Kernel S V A P) (sys : Sys S V P) (st : Stage)
    (hs : sys.stopped = false) (hn : st.n ≠ 0) :
    let last : List (Run S V A P) := sys.chains.mapIdx (fun c ch =>
      foldOps st sys.offset (rowsFrom (opsOf K st) 0 st.n) (startRun K st (paramsBefore K st sys c) ch))
    (runStage0 K sys (st, .seq)).finalStates =
      if st.kind = .main ∨ sys.chains = [] then last.map (·.ctx.state)
      else (K.fin st.kind (last.map (·.ctx.adapt)) (last.map (·.ctx.state))
              (stageSeq K st sys.offset none sys.params sys.chains).params
              (last.map (·.ctx.rng))).2.1 := by
  intro last
  rw [runStage0_seq K sys st hs hn]
  obtain ⟨h1, h2, h3⟩ := stageSeq_none K st sys.offset sys.params sys.chains
  have houts : (stageSeq K st sys.offset none sys.params sys.chains).outs.map (·.state) =
      last.map (·.ctx.state) := by
    rw [h3]; simp [last, map_mapIdx', chainRes_none, paramsBefore]
  have hadapt : (stageSeq K st sys.offset none sys.params sys.chains).outs.map (·.adapt) =
      last.map (·.ctx.adapt) := by
    rw [h3]; simp [last, map_mapIdx', chainRes_none, paramsBefore]
  have hrng : (stageSeq K st sys.offset none sys.params sys.chains).chains.map (·.rng) =
      last.map (·.ctx.rng) := by
    rw [h2]; simp [last, map_mapIdx', chainRes_none, paramsBefore]
  have hnil : (stageSeq K st sys.offset none sys.params sys.chains).outs = [] ↔ sys.chains = [] := by
    rw [h3]; simp
  unfold afterStage
  simp only [h1, Bool.false_eq_true, if_false, houts, hadapt, hrng]
  by_cases hk : st.kind = .main
  · simp [hk]
  · by_cases he : sys.chains = []
    · simp [hk, he, stageSeq_nil]
    · have : (stageSeq K st sys.offset none sys.params sys.chains).outs ≠ [] := fun h => he (hnil.mp h)
      simp [hk, he, this]

/-- A stage without iterations changes nothing (so trailing empty stages keep the final states). -/
theorem empty_stage_noop (K : Kernel S V A P) (sys : Sys S V P) (st : Stage) (m : Mode)
    (hn : st.n = 0) : runStage0 K sys (st, m) = sys :=
  runStage0_skip K sys st m hn

/-- **length.** Every returned array has `nTrace` rows, whatever the stage table. -/
theorem length_preserved (K : Kernel S V A P) (p0 : P) (inits : List S) (nTrace : Nat)
    (l : List (Stage × Mode)) (hl : AllSeq l) :
    ∀ ch ∈ (runStages K none l (initSys K p0 inits nTrace)).chains,
      ch.mem.length = K.trans.length + K.traces.length ∧ ∀ a ∈ ch.mem, a.length = nTrace := by
  intro ch hch
  have := (runStages_seq_inv K l hl (initSys K p0 inits nTrace) rfl _ _
    (memShape_initSys K p0 inits nTrace)).2.1 ch hch
  refine ⟨this.1, ?_⟩
  intro a ha
  obtain ⟨j, hj⟩ := List.getElem?_of_mem ha
  exact this.2 j a hj

/-! ### recorded iterations of the built-in stage tables -/

/-- total length of the stages that advance the offset -/
def recSum (l : List Stage) : Nat := ((l.filter (fun s => s.traced || s.stats)).map (·.n)).sum

def mainSum (l : List Stage) : Nat := ((l.filter (fun s => s.kind == .main)).map (·.n)).sum

/-- flags as both built-in stagers set them -/
def FlagsOK (t : Bool) (l : List Stage) : Prop :=
  ∀ s ∈ l, (s.kind ≠ .main → s.traced = t ∧ s.stats = t) ∧ (s.kind = .main → s.traced = true ∧ s.stats = true)

private theorem recSum_of_flags (t : Bool) (l : List Stage) (h : FlagsOK t l) :
    recSum l = (if t then warmSum l else 0) + mainSum l := by
  induction l with
  | nil => cases t <;> rfl
  | cons s l ih =>
    have hs := h s List.mem_cons_self
    have ih := ih (fun s' hs' => h s' (List.mem_cons_of_mem _ hs'))
    by_cases hk : s.kind = .main
    · obtain ⟨h1, h2⟩ := hs.2 hk
      have e1 : recSum (s :: l) = s.n + recSum l := by simp [recSum, h1]
      have e2 : warmSum (s :: l) = warmSum l := by simp [warmSum, hk]
      have e3 : mainSum (s :: l) = s.n + mainSum l := by simp [mainSum, hk]
      rw [e1, e2, e3, ih]; omega
    · obtain ⟨h1, h2⟩ := hs.1 hk
      have e3 : mainSum (s :: l) = mainSum l := by simp [mainSum, hk]
      cases t with
      | true =>
        have e1 : recSum (s :: l) = s.n + recSum l := by simp [recSum, h1]
        have e2 : warmSum (s :: l) = s.n + warmSum l := by simp [warmSum, hk]
        rw [e1, e2, e3, ih]; simp; omega
      | false =>
        have e1 : recSum (s :: l) = recSum l := by simp [recSum, h1, h2]
        rw [e1, e3, ih]; simp

private theorem mainSum_append (a b : List Stage) : mainSum (a ++ b) = mainSum a + mainSum b := by
  simp [mainSum, List.filter_append, List.map_append, List.sum_append]

private theorem mainSum_no_main (l : List Stage) (h : ∀ s ∈ l, s.kind ≠ .main) : mainSum l = 0 := by
  induction l with
  | nil => rfl
  | cons s l ih =>
    have := h s List.mem_cons_self
    have e : mainSum (s :: l) = mainSum l := by simp [mainSum, this]
    rw [e]; exact ih (fun s' hs' => h s' (List.mem_cons_of_mem _ hs'))

private theorem flags_windowed (c : Config) (f15 f10 : Nat → Nat) (nWarm nMain : Nat) (t : Bool) :
    FlagsOK t (windowedStagesWith c f15 f10 nWarm nMain t) := by
  unfold windowedStagesWith
  intro s hs
  simp only [List.mem_append] at hs
  rcases hs with hs | hs
  · split at hs
    · simp only [List.mem_append, List.mem_cons, List.mem_map, List.not_mem_nil, or_false] at hs
      rcases hs with (hs | ⟨_, _, hs⟩) | hs <;> subst hs <;> simp
    · simp at hs
  · split at hs
    · simp at hs; subst hs; simp
    · simp at hs

private theorem flags_warmUp (nWarm nMain : Nat) (t : Bool) : FlagsOK t (warmUpStages nWarm nMain t) := by
  unfold warmUpStages
  intro s hs
  simp only [List.mem_append] at hs
  rcases hs with hs | hs
  · split at hs
    · simp at hs; subst hs; simp
    · simp at hs
  · split at hs
    · simp at hs; subst hs; simp
    · simp at hs

/-- `WindowedWarmUpStager`: the recorded iterations are exactly `n_trace_iter` (via C16's
`windowed_warm_sum`, `windowed_main_last`, `windowed_no_main`). -/
theorem recSum_windowed (c : Config) (f15 f10 : Nat → Nat)
    (hf : ∀ n, f15 n + f10 n ≤ n) (hw : 1 ≤ c.initSlowWindow) (hm : 1 ≤ c.mult)
    (nWarm nMain : Nat) (t : Bool) :
    recSum (windowedStagesWith c f15 f10 nWarm nMain t) = nTraceIter nWarm nMain t := by
  rw [recSum_of_flags t _ (flags_windowed c f15 f10 nWarm nMain t),
    MiciVerif.C16.windowed_warm_sum c f15 f10 hf hw hm nWarm nMain t]
  have hmain : mainSum (windowedStagesWith c f15 f10 nWarm nMain t) = nMain := by
    by_cases h : 0 < nMain
    · obtain ⟨pre, he, hp⟩ := MiciVerif.C16.windowed_main_last c f15 f10 nWarm nMain t h
      rw [he, mainSum_append, mainSum_no_main pre hp]; simp [mainSum]
    · have h0 : nMain = 0 := by omega
      subst h0
      exact mainSum_no_main _ (MiciVerif.C16.windowed_no_main c f15 f10 nWarm t)
  rw [hmain]; cases t <;> simp [nTraceIter]

/-- `WarmUpStager` (via C16's `warmUp_warm_sum`, `warmUp_main_last`). -/
theorem recSum_warmUp (nWarm nMain : Nat) (t : Bool) :
    recSum (warmUpStages nWarm nMain t) = nTraceIter nWarm nMain t := by
  rw [recSum_of_flags t _ (flags_warmUp nWarm nMain t), MiciVerif.C16.warmUp_warm_sum nWarm nMain t]
  have hmain : mainSum (warmUpStages nWarm nMain t) = nMain := by
    by_cases h : 0 < nMain
    · obtain ⟨pre, he, hp⟩ := MiciVerif.C16.warmUp_main_last nWarm nMain t h
      rw [he, mainSum_append, mainSum_no_main pre hp]; simp [mainSum]
    · have h0 : nMain = 0 := by omega
      subst h0
      apply mainSum_no_main
      unfold warmUpStages
      intro s hs
      split at hs <;> simp at hs
      subst hs; simp
  rw [hmain]; cases t <;> simp [nTraceIter]

/-- Every row in `[offset, offset + recSum)` of every array is written by a complete sequential
run over a stage table whose recording stages both trace and record statistics. -/
private theorem filled_rows (K : Kernel S V A P) (l : List Stage) (t : Bool) (hfl : FlagsOK t l)
    (sys : Sys S V P) (hs : sys.stopped = false) (nRow : Nat)
    (hsh : MemShape sys (K.trans.length + K.traces.length) nRow)
    (hfit : sys.offset + recSum l ≤ nRow) (c j r : Nat) (hc : c < sys.chains.length)
    (hj : j < K.trans.length + K.traces.length) (hr1 : sys.offset ≤ r) (hr2 : r < sys.offset + recSum l) :
    ∃ v, cell (memOf (runStages K none (l.map (fun s => (s, Mode.seq))) sys).chains c) j r = some (some v) := by
  induction l generalizing sys with
  | nil => simp [recSum] at hr2; omega
  | cons st l ih =>
    have hfl' : FlagsOK t l := fun s hs => hfl s (List.mem_cons_of_mem _ hs)
    have hst := hfl st List.mem_cons_self
    simp only [List.map_cons]
    rw [runStages_none_cons]
    have hs' := runStage0_seq_stopped K sys st hs
    have hsh' := memShape_runStage0_seq K sys st hs _ nRow hsh
    have hlen' := runStage0_seq_length K sys st hs
    have hoff := runStage0_seq_offset K sys st hs
    have hpost : AllSeq (l.map (fun s => (s, Mode.seq))) := by
      intro sm hsm; simp only [List.mem_map] at hsm; obtain ⟨_, _, rfl⟩ := hsm; rfl
    by_cases hrec : (st.traced || st.stats) = true
    · -- recording stage: both flags are set
      have hboth : st.traced = true ∧ st.stats = true := by
        by_cases hk : st.kind = .main
        · exact hst.2 hk
        · obtain ⟨h1, h2⟩ := hst.1 hk
          cases t <;> simp_all
      have hsum : recSum (st :: l) = st.n + recSum l := by simp [recSum, hrec]
      rw [hsum] at hr2 hfit
      simp only [hrec, if_true] at hoff
      by_cases hrow : r < sys.offset + st.n
      · -- the row belongs to this stage
        have hn : st.n ≠ 0 := by omega
        have hfr := runStages_seq_frame_below K _ hpost (runStage0 K sys (st, .seq)) hs' c j r (by omega)
        rw [hfr.1]
        have hch : sys.chains[c]? = some sys.chains[c] := List.getElem?_eq_getElem hc
        rw [memOf_runStage0_seq K sys st hs hn c _ hch]
        have hops : (opsOf K st).length = K.trans.length + K.traces.length :=
          opsOf_length_traced K st hboth.1
        have hjlt : j < (opsOf K st).length := by omega
        have hop : (opsOf K st)[j]? = some (opsOf K st)[j] := List.getElem?_eq_getElem hjlt
        have hg : gate st (opsOf K st)[j] = true := by
          cases (opsOf K st)[j] <;> simp [gate, hboth.2]
        have hshc := hsh sys.chains[c] (List.getElem_mem hc)
        have hri : r = (r - sys.offset) + sys.offset := by omega
        have hin : (cell sys.chains[c].mem j ((r - sys.offset) + sys.offset)).isSome :=
          cell_isSome_of_shape hshc.1 hshc.2 j _ hj (by omega)
        have := chainRes_cell_value K st sys.offset (paramsBefore K st sys c) sys.chains[c]
          (r - sys.offset) j _ (by omega) hop hg hin
        rw [← hri] at this
        exact ⟨_, this⟩
      · exact ih hfl' (runStage0 K sys (st, .seq)) hs' hsh' (by omega) (by omega) (by omega) (by omega)
    · have hsum : recSum (st :: l) = recSum l := by simp [recSum, hrec]
      rw [hsum] at hr2 hfit
      simp only [hrec, Bool.false_eq_true, if_false] at hoff
      exact ih hfl' (runStage0 K sys (st, .seq)) hs' hsh' (by omega) (by omega) (by omega) (by omega)

/-- **no_fill_survives / length = n_trace_iter (WindowedWarmUpStager).**  After a complete run
every one of the `n_trace_iter` rows of every statistics and trace array of every chain holds a
written value (so: the arrays are exactly as long as the number of recorded iterations, every
write was in bounds, no initial fill value survives). -/
theorem no_fill_survives_windowed (K : Kernel S V A P) (p0 : P) (inits : List S)
    (c : Config) (f15 f10 : Nat → Nat) (hf : ∀ n, f15 n + f10 n ≤ n) (hw : 1 ≤ c.initSlowWindow)
    (hm : 1 ≤ c.mult) (nWarm nMain : Nat) (t : Bool) (ci j r : Nat) (hc : ci < inits.length)
    (hj : j < K.trans.length + K.traces.length) (hr : r < nTraceIter nWarm nMain t) :
    ∃ v, cell (memOf (sampleChains K p0 inits nWarm nMain t
      ((windowedStagesWith c f15 f10 nWarm nMain t).map (fun s => (s, Mode.seq))) none).chains ci) j r
      = some (some v) := by
  unfold sampleChains
  apply filled_rows K _ t (flags_windowed c f15 f10 nWarm nMain t) _ rfl _
    (memShape_initSys K p0 inits _)
  · rw [recSum_windowed c f15 f10 hf hw hm]; simp [initSys]
  · simpa [initSys] using hc
  · exact hj
  · simp [initSys]
  · rw [recSum_windowed c f15 f10 hf hw hm]; simpa [initSys] using hr

/-- **no_fill_survives / length = n_trace_iter (WarmUpStager).** -/
theorem no_fill_survives_warmUp (K : Kernel S V A P) (p0 : P) (inits : List S)
    (nWarm nMain : Nat) (t : Bool) (ci j r : Nat) (hc : ci < inits.length)
    (hj : j < K.trans.length + K.traces.length) (hr : r < nTraceIter nWarm nMain t) :
    ∃ v, cell (memOf (sampleChains K p0 inits nWarm nMain t
      ((warmUpStages nWarm nMain t).map (fun s => (s, Mode.seq))) none).chains ci) j r
      = some (some v) := by
  unfold sampleChains
  apply filled_rows K _ t (flags_warmUp nWarm nMain t) _ rfl _ (memShape_initSys K p0 inits _)
  · rw [recSum_warmUp]; simp [initSys]
  · simpa [initSys] using hc
  · exact hj
  · simp [initSys]
  · rw [recSum_warmUp]; simpa [initSys] using hr

/-- **length = n_trace_iter.** The arrays handed out have exactly `n_trace_iter` rows. -/
theorem length_eq_n_trace_iter (K : Kernel S V A P) (p0 : P) (inits : List S) (nWarm nMain : Nat)
    (t : Bool) (l : List (Stage × Mode)) (hl : AllSeq l) :
    ∀ ch ∈ (sampleChains K p0 inits nWarm nMain t l none).chains, ∀ a ∈ ch.mem,
      a.length = nTraceIter nWarm nMain t := by
  intro ch hch
  exact (length_preserved K p0 inits _ l hl ch hch).2

/-! ### statistic keys: generated table -/

open MiciVerif.Generated.StatTypes in
/-- fill value is the documented "missing" marker of the dtype kind -/
def fillOk (d : StatDecl) : Bool :=
  (d.kind == "float" && d.fill == "nan") || (d.kind == "int" && d.fill == "-1") ||
  (d.kind == "bool" && d.fill == "False")

open MiciVerif.Generated.StatTypes in
/-- Obligation on one transition class: the extractor understood every use of the statistics
dictionary; every key the class's `sample` can write (always / sometimes / under an error class
that the library or the class itself can raise) is declared in `statistic_types` (otherwise
`_update_chain_stats` raises `KeyError`); a class declaring `None` returns `None`; every declared
key is written on every path or has a proper fill value; declared keys are distinct. -/
def keysOk (lib : List String) (e : TransEntry) : Bool :=
  !e.unknown &&
  (e.abstract ||
    ((e.always ++ e.sometimes).all (fun k => e.declared.any (·.key == k)) &&
     e.onError.all (fun ek => !(lib.contains ek.1 || e.ownRaises.contains ek.1) ||
        e.declared.any (·.key == ek.2)) &&
     (!e.declaresNone || e.returnsNone) &&
     e.declared.all (fun d => e.always.contains d.key || fillOk d) &&
     e.declared.all (fun d => fillOk d) &&
     (e.declared.map (·.key)).Nodup))

/-- **stats_keys_declared** (re-checked against the regenerated table on every run). -/
theorem stats_keys_declared :
    MiciVerif.Generated.StatTypes.table.all (keysOk MiciVerif.Generated.StatTypes.libRaises) = true := by
  decide

/-- The table is not trivially empty: it contains the concrete transition classes. -/
theorem stats_table_covers :
    (["IndependentMomentumTransition", "CorrelatedMomentumTransition",
      "MetropolisStaticIntegrationTransition", "MetropolisRandomIntegrationTransition",
      "MultinomialDynamicIntegrationTransition", "SliceDynamicIntegrationTransition"].all
      (fun n => MiciVerif.Generated.StatTypes.table.any (fun e => e.name == n && !e.abstract))) = true := by
  decide

/-! ### non-vacuity -/

open MiciVerif.SamplerCount in
/-- A concrete instance: counting kernel, 2 chains, windowed stager, traced warm-up: all rows of
chain 1's statistics array of transition `b` are written with consecutive iteration counts. -/
example :
    let K := kernel ⟨true, 1, 2, false, 1, true, true, 2⟩
    let sys := sampleChains K ⟨5, 9⟩ [⟨0, 0, 0, 0, 0, 0⟩, ⟨1, 3, 0, 0, 0, 0⟩] 6 2 true
      ((windowedStages {} 6 2 true).map (fun s => (s, Mode.seq))) none
    ((memOf sys.chains 1)[1]?.map (fun a => a.map (fun c => c.map (·.head?)))) =
      some [some (some 4), some (some 5), some (some 6), some (some 7), some (some 8), some (some 9),
            some (some 10), some (some 11)] := by
  decide +kernel

example : (1 : Nat) ≤ ({} : Config).initSlowWindow ∧ (1 : Rat) ≤ ({} : Config).mult ∧
    ∀ n, frac15 n + frac10 n ≤ n := ⟨by decide, by decide +kernel, MiciVerif.C16.frac_ok⟩

end MiciVerif.C13
