/-
C14 — tie of the generator hand-off / collation part of `Model/Sampler.lean` to the source text of
`_sample_chains_sequential`, `_sample_chains_worker`, `_sample_chains_parallel` (and of the places
of `sample_chains` that create and pass the per-chain generators).  See `Props/C13S.lean` for the
mechanism; the trees are regenerated from the tree under test on every run.
-/
import MiciVerif.Generated.SamplerSkeleton

namespace MiciVerif.C14S
open MiciVerif.Skel
open MiciVerif.Generated

/-- `_sample_chains_sequential` is the tree `Sampler.seqStep` / `stageSeq` were written against. -/
theorem skel_sequential_eq_model :
    SamplerSkeleton.sampleChainsSequentialSig = Expected.sampleChainsSequentialSig
    ∧ SamplerSkeleton.sampleChainsSequential = Expected.sampleChainsSequential
    ∧ SamplerSkeleton.sampleChainsSequential.known = true := by
  decide +kernel

/-- `_sample_chains_worker` and `_sample_chains_parallel` are the trees `Sampler.workerRun` /
`stagePar` were written against. -/
theorem skel_parallel_eq_model :
    SamplerSkeleton.sampleChainsWorkerSig = Expected.sampleChainsWorkerSig
    ∧ SamplerSkeleton.sampleChainsWorker = Expected.sampleChainsWorker
    ∧ SamplerSkeleton.sampleChainsParallelSig = Expected.sampleChainsParallelSig
    ∧ SamplerSkeleton.sampleChainsParallel = Expected.sampleChainsParallel
    ∧ SamplerSkeleton.sampleChainsWorker.known = true
    ∧ SamplerSkeleton.sampleChainsParallel.known = true := by
  decide +kernel

/-- body of `for stage, _ in sampling_stages_pb` -/
def stageBody : List S := (SamplerSkeleton.sampleChains.loopBody (.v "sampling_stages_pb")).getD []

/-- The per-chain generators are created once per call, before the stage loop, from the sampler's
generator and the number of chains only (model: `initSys`: `rng := ⟨chain index, 0⟩`); every stage and
every `_finalize_adapters` call gets these same objects (model: `Chain.rng`, `K.fin … (acc.chains.map (·.rng))`). -/
theorem skel_rngs_created_once :
    assignsTo (.v "per_chain_rngs") SamplerSkeleton.sampleChains.stmts =
      [.assign (.v "per_chain_rngs") (.call "_get_per_chain_rngs" (E.l [.v "self.rng", .v "n_chain"]))]
    ∧ assignsTo (.v "per_chain_rngs") stageBody = []
    ∧ ((argsOfCall "sample_chains_func" stageBody).bind (E.kwArg "per_chain_kwargs")).bind
        (fun e => (e.argsOf "_zip_dict").bind (E.kwArg "rng")) = some (.v "per_chain_rngs")
    ∧ ((argsOfCall "_finalize_adapters" stageBody).map fun a => a.items[4]?) =
        some (some (.v "per_chain_rngs")) := by
  decide +kernel

/-- Sequential mode: the chain is run with the keyword arguments of the caller as they are — the
parent's generator object and transition objects, no copy (model: `seqStep` threads `r.ctx.rng`
and `r.ctx.params`) — chain by chain in index order. -/
theorem skel_sequential_same_generator :
    argsOfCall "_sample_chain" SamplerSkeleton.sampleChainsSequential.stmts =
      some (E.l [.kw "chain_iterator" (.v "chain_iterator"), .kw "chain_index" (.v "chain_index"),
                 .kwstar (.v "chain_kwargs"), .kwstar (.v "common_kwargs")])
    ∧ (SamplerSkeleton.sampleChainsSequential.all.filterMap fun
        | .loop t i _ => some (t, i)
        | _ => Option.none) =
      [(.tup (E.l [.v "chain_index", .tup (E.l [.v "chain_iterator", .v "chain_kwargs"])]),
        .call "enumerate" (E.l [.call "zip" (E.l [.v "chain_iterators", .v "per_chain_kwargs",
                                                   .kw "strict" (.v "True")])]))] := by
  decide +kernel

/-- The worker returns, with every chain output, the state its copy of the chain's generator
reached — read AFTER the chain has run — tagged with the chain index
(model: `WOut.out = ⟨c, state, adapt, r.ctx.rng⟩`). -/
theorem skel_worker_sends_rng_state :
    assignsTo (.v "rng_state") SamplerSkeleton.sampleChainsWorker.stmts =
      [.assign (.v "rng_state") (.attr (.attr (.sub (.v "chain_kwargs") (.s "rng")) "bit_generator") "state")]
    ∧ argsOfCall "chain_outputs.append" SamplerSkeleton.sampleChainsWorker.stmts =
      some (E.l [.tup (E.l [.v "chain_index", .tup (E.l [.star (.v "outputs"), .v "rng_state"])])])
    ∧ SamplerSkeleton.sampleChainsWorker.stmts.getLast? = some (.ret (.v "chain_outputs"))
    ∧ (do let b ← SamplerSkeleton.sampleChainsWorker.all.findSome? fun
                | .try_ b _ _ _ => some b.stmts
                | _ => Option.none
          let c ← idx (S.callsDeep "_sample_chain") b
          let r ← idx (fun s => (assignsTo (.v "rng_state") [s]).length > 0) b
          some (decide (c < r))) = some true := by
  decide +kernel

/-- The parent keeps the generator objects it queued, by chain index, and after the workers are
done assigns the returned state to generator `i` for every output `i` (model: `restoreRng`,
`stagePar … restore := true`; revert `C14-parallel-rng-replay`). -/
theorem skel_parallel_rng_written_back :
    argsOfCall "rngs.append" SamplerSkeleton.sampleChainsParallel.stmts =
      some (E.l [.sub (.v "chain_kwargs") (.s "rng")])
    ∧ (SamplerSkeleton.sampleChainsParallel.all.filterMap fun
        | .loop t (.call "sorted" _) b => some (t, b.stmts)
        | _ => Option.none) =
      [(.tup (E.l [.v "i", .tup (E.l [.star (.v "outp"), .v "rng_state"])]),
        [.assign (.attr (.attr (.sub (.v "rngs") (.v "i")) "bit_generator") "state") (.v "rng_state"),
         .expr (.call "chain_outputs.append" (E.l [.v "outp"]))])] := by
  decide +kernel

/-- Outputs are collated in chain-index order whatever worker produced them
(model: `sortOuts (res.map (·.out))`). -/
theorem skel_outputs_sorted_by_chain_index :
    (SamplerSkeleton.sampleChainsParallel.all.filterMap fun
        | .loop _ (.call "sorted" a) _ => some a
        | _ => Option.none) =
      [E.l [.v "indexed_chain_outputs", .kw "key" (.src "lambda indexed_output: indexed_output[0]")]]
    ∧ assignsTo (.v "indexed_chain_outputs") SamplerSkeleton.sampleChainsParallel.stmts =
      [.assign (.v "indexed_chain_outputs") (.src "[r for res in results.get() for r in res]")]
    ∧ SamplerSkeleton.sampleChainsParallel.stmts.getLast? =
      some (.ret (.tup (E.l [.star (.call "_collate_chain_outputs" (E.l [.v "chain_outputs"])), .v "exception"]))) := by
  decide +kernel

/-- Every chain is put on the queue once with its index, and `n_process` workers are started
(model: `sched : List (List Nat)`, one list per worker). -/
theorem skel_chains_queued_once :
    argsOfCall "chain_queue.put" SamplerSkeleton.sampleChainsParallel.stmts =
      some (E.l [.tup (E.l [.v "c", .v "n_iter", .v "chain_kwargs"])])
    ∧ argsOfCall "pool.starmap_async" SamplerSkeleton.sampleChainsParallel.stmts =
      some (E.l [.v "_sample_chains_worker",
                 .src "[(chain_queue, iter_queue, common_kwargs) for p in range(n_process)]"]) := by
  decide +kernel

/-! ### `_sample_chains_sequential`, read as a function on the model's state, is `Sampler.stageSeq` -/

section SeqSemantics
open MiciVerif.Sampler MiciVerif.Stagers

/-- `_sample_chains_sequential` generated from the current source consists of exactly these actions. -/
theorem sem_sequential_plan :
    Sem.seqFnPlan SamplerSkeleton.sampleChainsSequential.stmts =
      some [.noOutputs, .noException, .forChains [.runChain, .appendOutputs, .breakIfInterrupted], .returnCollated] := by
  decide +kernel

private theorem seq_fold {St V A P : Type} (K : Kernel St V A P) (st : Stage) (offset : Nat)
    (intr : Option (Nat × Nat × Nat)) (l : List (Nat × Chain St V)) (v : Sem.SeqVars St V A P)
    (hb : v.broke = v.halted) :
    let w := l.foldl (Sem.seqLoopStep K st offset intr [.runChain, .appendOutputs, .breakIfInterrupted]) v
    (⟨w.params, w.outs, w.chains, w.halted⟩ : Acc St V A P) =
      l.foldl (seqStep K st offset intr) ⟨v.params, v.outs, v.chains, v.halted⟩ := by
  induction l generalizing v with
  | nil => simp
  | cons c l ih =>
    simp only [List.foldl_cons]
    by_cases hh : v.halted = true
    · have hbr : v.broke = true := by rw [hb, hh]
      have := ih { v with chains := v.chains ++ [c.2] } (by simpa using hb)
      simpa [Sem.seqLoopStep, seqStep, hh, hbr] using this
    · have hbr : v.broke = false := by rw [hb]; simpa using hh
      simp only [Sem.seqLoopStep, hbr, Sem.runSeqActs, seqStep, hh]
      generalize sampleChain K st offset (chainIntr intr c.1) v.params c.2.state c.2.rng c.2.log c.2.mem = r
      by_cases hr : r.halted = true
      · have := ih (⟨r.ctx.params, v.outs ++ [⟨c.1, r.ctx.state, r.ctx.adapt, r.ctx.rng⟩],
                     v.chains ++ [⟨c.2.state, r.ctx.rng, r.mem, r.ctx.log⟩], true, true⟩ : Sem.SeqVars St V A P) rfl
        simpa [hr] using this
      · have := ih (⟨r.ctx.params, v.outs ++ [⟨c.1, r.ctx.state, r.ctx.adapt, r.ctx.rng⟩],
                     v.chains ++ [⟨c.2.state, r.ctx.rng, r.mem, r.ctx.log⟩], false, false⟩ : Sem.SeqVars St V A P) rfl
        simpa [hr] using this

/-- **Semantic tie of the sequential mode.**  `_sample_chains_sequential` generated from the current
source — chains in index order, each run on the caller's generator object, arrays and transition
objects (so what one chain leaves is what the next one and the next stage find), outputs appended in
that order, `break` after an interrupted chain leaving the later chains untouched — is
`Sampler.stageSeq`, for every kernel, stage, offset, interrupt point, parameters and chain list. -/
theorem sem_sequential_is_stageSeq {St V A P : Type} (K : Kernel St V A P) (st : Stage) (offset : Nat)
    (intr : Option (Nat × Nat × Nat)) (p : P) (chains : List (Chain St V)) :
    Sem.seqPass SamplerSkeleton.sampleChainsSequential.stmts K st offset intr p chains =
      some (stageSeq K st offset intr p chains) := by
  unfold Sem.seqPass
  rw [sem_sequential_plan]
  simp only [Option.bind_some, Sem.runSeqFnActs]
  unfold stageSeq
  have := seq_fold K st offset intr (chains.zipIdx.map (fun ci => (ci.2, ci.1))) ⟨p, [], [], false, false⟩ rfl
  simpa using this


/-- not vacuous: without chains the result is the empty collation with the parameters unchanged -/
example {St V A P : Type} (K : Kernel St V A P) (st : Stage) (p : P) :
    Sem.seqPass SamplerSkeleton.sampleChainsSequential.stmts K st 0 none p ([] : List (Chain St V)) =
      some ⟨p, [], [], false⟩ := by
  rw [sem_sequential_is_stageSeq]; rfl

end SeqSemantics

/-! ### the collation block of `_sample_chains_parallel`, read on the model's state, gives `Sampler.stagePar` -/

section ParSemantics
open MiciVerif.Sampler MiciVerif.Stagers

/-- the `if results is not None: …` statement of `_sample_chains_parallel` -/
def collateStmt : S :=
  (SamplerSkeleton.sampleChainsParallel.all.find? fun
    | .ifc c _ _ => c = .op "is not" (E.l [.v "results", .none])
    | _ => false).getD .skip

/-- The collation block generated from the current source: per sorted output, write the generator state
back, then append the output. -/
theorem sem_collation_plan : Sem.collatePlan? collateStmt = some [.restoreRng, .appendOutput] := by
  decide +kernel

private theorem collate_fold {St V A : Type} (l : List (Out St A)) (outs : List (Out St A)) (chains : List (Chain St V)) :
    l.foldl (fun x o => Sem.runCollateActs [.restoreRng, .appendOutput] o x) (outs, chains) =
      (outs ++ l, l.foldl restoreRng chains) := by
  induction l generalizing outs chains with
  | nil => simp
  | cons o l ih =>
    simp only [List.foldl_cons]
    rw [show Sem.runCollateActs [.restoreRng, .appendOutput] o (outs, chains) = (outs ++ [o], restoreRng chains o) from rfl, ih]
    simp

/-- **Semantic tie of the parallel collation.**  With `results.get()` read as the per-worker output
lists of `Sampler.workerRun` under an arbitrary schedule, the collation block generated from the
current source — flatten in worker order, sort by chain index, assign the returned generator state
to generator `i`, append the output — yields `Sampler.stagePar … (restore := true)`: outputs
`sortOuts`, parent generators `restoreRng` by chain index, transitions untouched. -/
theorem sem_parallel_collation_is_stagePar {St V A P : Type} (K : Kernel St V A P) (st : Stage) (offset : Nat)
    (intr : Option (Nat × Nat × Nat)) (sched : List (List Nat)) (p : P) (chains : List (Chain St V)) :
    let perWorker := sched.map (fun todo => workerRun K st offset intr chains todo p)
    Sem.collatePass collateStmt p perWorker (perWorker.flatten.foldl applyRun chains)
        (perWorker.flatten.any (·.halted)) =
      some (stagePar K st offset intr true sched p chains) := by
  intro perWorker
  unfold Sem.collatePass
  rw [sem_collation_plan]
  simp only [Option.map_some, collate_fold, List.nil_append]
  rfl


end ParSemantics

/-- the query of `skel_parallel_rng_written_back` sees the removal of the write-back (the old code) -/
example :
    let old : S := S.b [.loop (.tup (E.l [.v "i", .v "outp"])) (.call "sorted" (E.l [.v "indexed_chain_outputs"]))
      (S.b [.expr (.call "chain_outputs.append" (E.l [.v "outp"]))])]
    (old.all.filterMap fun
        | .loop t (.call "sorted" _) b => some (t, b.stmts)
        | _ => Option.none) ≠
      [(.tup (E.l [.v "i", .tup (E.l [.star (.v "outp"), .v "rng_state"])]),
        [.assign (.attr (.attr (.sub (.v "rngs") (.v "i")) "bit_generator") "state") (.v "rng_state"),
         .expr (.call "chain_outputs.append" (E.l [.v "outp"]))])] := by
  decide +kernel

end MiciVerif.C14S
