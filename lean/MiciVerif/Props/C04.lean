/-
C04 — Constrained dynamics never leave the constraint manifold or its cotangent space.

Property theorems only (helpers are `private`).  Everything is stated for every ordered field
`K`, every dimension, every constraint / Jacobian / flow-derivative / inverse oracle (no
assumption on the oracles unless a hypothesis says so), every tolerance and every fuel.
-/
import MiciVerif.Model.Constrained
import Mathlib.Tactic.Ring
import Mathlib.Tactic.Linarith
import Mathlib.Tactic.FinCases
import Mathlib.Tactic.NormNum
import Mathlib.Algebra.Order.Field.Rat
import Mathlib.LinearAlgebra.Matrix.NonsingularInverse

namespace MiciVerif.C04
open Matrix MiciVerif.Constrained

/-! ### cotangent projection (systems.py:866-876) -/

section Project
variable {K : Type*} [CommRing K] {n c : Type*} [Fintype n] [Fintype c] [DecidableEq c]

/-- The projected momentum lies in the cotangent space: `J M⁻¹ p' = 0`.  `Ginv` is the checked
inverse of the Gram matrix `G = J N Jᵀ`. -/
theorem project_cotangent (J : Matrix c n K) (N : Matrix n n K) (Ginv : Matrix c c K)
    (hG : J * N * Jᵀ * Ginv = 1) (p : n → K) :
    J *ᵥ (N *ᵥ project J N Ginv p) = 0 := by
  unfold project
  have h : J *ᵥ (N *ᵥ (Jᵀ *ᵥ (Ginv *ᵥ (J *ᵥ (N *ᵥ p))))) = (J * N * Jᵀ * Ginv) *ᵥ (J *ᵥ (N *ᵥ p)) := by
    simp only [Matrix.mulVec_mulVec, Matrix.mul_assoc]
  rw [Matrix.mulVec_sub, Matrix.mulVec_sub, h, hG, Matrix.one_mulVec, sub_self]

/-- A momentum already in the cotangent space is left unchanged. -/
theorem project_of_cotangent (J : Matrix c n K) (N : Matrix n n K) (Ginv : Matrix c c K)
    (p : n → K) (hp : J *ᵥ (N *ᵥ p) = 0) : project J N Ginv p = p := by
  unfold project
  rw [hp, Matrix.mulVec_zero, Matrix.mulVec_zero, sub_zero]

/-- Projection is idempotent. -/
theorem project_idem (J : Matrix c n K) (N : Matrix n n K) (Ginv : Matrix c c K)
    (hG : J * N * Jᵀ * Ginv = 1) (p : n → K) :
    project J N Ginv (project J N Ginv p) = project J N Ginv p :=
  project_of_cotangent J N Ginv _ (project_cotangent J N Ginv hG p)

/-- The correction has Lagrange-multiplier form: it lies in the range of `Jᵀ`. -/
theorem project_lagrange (J : Matrix c n K) (N : Matrix n n K) (Ginv : Matrix c c K) (p : n → K) :
    ∃ lam : c → K, project J N Ginv p - p = Jᵀ *ᵥ lam := by
  refine ⟨-(Ginv *ᵥ (J *ᵥ (N *ᵥ p))), ?_⟩
  unfold project
  rw [Matrix.mulVec_neg]; abel

/-- Multiples of the constraint normals are annihilated. -/
theorem project_range_zero (J : Matrix c n K) (N : Matrix n n K) (Ginv : Matrix c c K)
    (hG : J * N * Jᵀ * Ginv = 1) (lam : c → K) : project J N Ginv (Jᵀ *ᵥ lam) = 0 := by
  have hG' : Ginv * (J * N * Jᵀ) = 1 := (Matrix.mul_eq_one_comm).mp hG
  unfold project
  have h : Ginv *ᵥ (J *ᵥ (N *ᵥ (Jᵀ *ᵥ lam))) = (Ginv * (J * N * Jᵀ)) *ᵥ lam := by
    simp only [Matrix.mulVec_mulVec, Matrix.mul_assoc]
  rw [h, hG', Matrix.one_mulVec, sub_self]

/-- `project` is multiplication by `P = 1 − Jᵀ G⁻¹ J N` (so it is linear in the momentum). -/
theorem project_eq_mulVec [DecidableEq n] (J : Matrix c n K) (N : Matrix n n K)
    (Ginv : Matrix c c K) (p : n → K) : project J N Ginv p = projMatrix J N Ginv *ᵥ p := by
  unfold project projMatrix
  rw [Matrix.sub_mulVec, Matrix.one_mulVec]
  simp only [Matrix.mulVec_mulVec, Matrix.mul_assoc]

example : (!![1, 0; 0, 1] : Matrix (Fin 2) (Fin 2) ℚ) * 1 = 1 := by simp

/-- non-vacuity: a sphere-type normal `J = (3 4)`, metric inverse `diag(1, 1/2)`, `G = 17`. -/
example : (!![3, 4] : Matrix (Fin 1) (Fin 2) ℚ) * !![1, 0; 0, 1/2] * (!![3, 4] : Matrix (Fin 1) (Fin 2) ℚ)ᵀ
    * !![1/17] = 1 := by
  ext i j; fin_cases i; fin_cases j
  simp [Matrix.mul_apply, Fin.sum_univ_succ]; norm_num

end Project

/-! ### projection solvers -/

section Solvers
variable {K : Type*} [Field K] [LinearOrder K] {n c : Nat}

/-- Loop invariant / post-condition: the position correction is `Φ_qp μ` and `μ` is a
combination of the constraint normals at the previous state. -/
def PosInv (Jprev : Mat K c n) (Φqp : Mat K n n) (pos0 pos mu : Vec K n) : Prop :=
  pos.fn = pos0.fn - Φqp.fn *ᵥ mu.fn ∧ ∃ lam : Fin c → K, mu.fn = Jprev.fnᵀ *ᵥ lam

/-- What a successful solve guarantees. -/
structure Post (O : Oracles K n c) (T : Tol K) (t : K) (pos0 mom0 posPrev pos' mom' mu : Vec K n) : Prop where
  /-- it only returns converged: the constraint residual at the returned position is below tolerance -/
  converged : ∃ cv, O.constr pos' = .ok cv ∧ O.normC cv < T.ctol
  /-- Lagrange form of the position and momentum corrections -/
  lagrange : ∃ Jprev Φqp Φpp, O.jacob posPrev = .ok Jprev ∧ O.flowD posPrev |t| = .ok (Φqp, Φpp) ∧
    pos'.fn = pos0.fn - Φqp.fn *ᵥ mu.fn ∧
    mom'.fn = mom0.fn - sgn t • (Φpp.fn *ᵥ mu.fn) ∧
    ∃ lam : Fin c → K, mu.fn = Jprev.fnᵀ *ᵥ lam

private theorem posInv_init (Jprev : Mat K c n) (Φqp : Mat K n n) (pos0 : Vec K n) :
    PosInv Jprev Φqp pos0 pos0 (vec 0) := by
  refine ⟨by simp, 0, by simp⟩

private theorem posInv_step {Jprev : Mat K c n} {Φqp : Mat K n n} {pos0 pos mu : Vec K n}
    (h : PosInv Jprev Φqp pos0 pos mu) (a : K) (w : Fin c → K) (dmu : Vec K n)
    (hd : dmu.fn = Jprev.fnᵀ *ᵥ w) (pos' : Vec K n)
    (hp : pos'.fn = pos.fn - a • (Φqp.fn *ᵥ dmu.fn)) :
    PosInv Jprev Φqp pos0 pos' (vec (mu.fn + a • dmu.fn)) := by
  obtain ⟨h1, lam, h2⟩ := h
  refine ⟨?_, lam + a • w, ?_⟩
  · rw [hp, h1, fn_vec, Matrix.mulVec_add, Matrix.mulVec_smul]; abel
  · rw [fn_vec, h2, hd, Matrix.mulVec_add, Matrix.mulVec_smul]

private theorem deltaMu_fn (Jprev : Mat K c n) (Ginv : Mat K c c) (cv : Vec K c) :
    (deltaMu Jprev Ginv cv).fn = Jprev.fnᵀ *ᵥ (Ginv.fn *ᵥ cv.fn) := by
  simp [deltaMu]

private theorem qnLoop_post (O : Oracles K n c) (T : Tol K) (Jprev : Mat K c n) (Φqp : Mat K n n)
    (Ginv : Mat K c c) (pos0 pos' mu' : Vec K n) (i' : Nat) :
    ∀ (fuel i : Nat) (pos mu : Vec K n), PosInv Jprev Φqp pos0 pos mu →
      qnLoop O T Jprev Φqp Ginv fuel i pos mu = .converged pos' mu' i' →
      (∃ cv, O.constr pos' = .ok cv ∧ O.normC cv < T.ctol) ∧ PosInv Jprev Φqp pos0 pos' mu' ∧
        i ≤ i' ∧ i' < i + fuel := by
  intro fuel
  induction fuel with
  | zero => intro i pos mu _ h; simp [qnLoop] at h
  | succ fuel ih =>
    intro i pos mu hinv h
    unfold qnLoop at h
    cases hc : O.constr pos with
    | error e => simp [hc] at h
    | ok cv =>
      simp only [hc] at h
      split_ifs at h with h1 h2
      · cases h
        exact ⟨⟨cv, hc, h2.1⟩, hinv, le_refl _, by omega⟩
      · have := ih (i + 1) _ _
          (posInv_step hinv 1 _ (deltaMu Jprev Ginv cv) (deltaMu_fn _ _ _) _ (by simp)) (by simpa using h)
        obtain ⟨a, b, c1, c2⟩ := this
        exact ⟨a, b, by omega, by omega⟩

private theorem newtonLoop_post (O : Oracles K n c) (T : Tol K) (Jprev : Mat K c n) (Φqp : Mat K n n)
    (pos0 pos' mu' : Vec K n) (i' : Nat) :
    ∀ (fuel i : Nat) (pos mu : Vec K n), PosInv Jprev Φqp pos0 pos mu →
      newtonLoop O T Jprev Φqp fuel i pos mu = .converged pos' mu' i' →
      (∃ cv, O.constr pos' = .ok cv ∧ O.normC cv < T.ctol) ∧ PosInv Jprev Φqp pos0 pos' mu' ∧
        i ≤ i' ∧ i' < i + fuel := by
  intro fuel
  induction fuel with
  | zero => intro i pos mu _ h; simp [newtonLoop] at h
  | succ fuel ih =>
    intro i pos mu hinv h
    unfold newtonLoop at h
    cases hj : O.jacob pos with
    | error e => simp [hj] at h
    | ok J =>
    cases hc : O.constr pos with
    | error e => simp [hj, hc] at h
    | ok cv =>
    cases hi : O.inv (innerProduct J Φqp Jprev) with
    | error e => simp [hj, hc, hi] at h
    | ok Ginv =>
      simp only [hj, hc, hi] at h
      split_ifs at h with h1 h2
      · cases h
        exact ⟨⟨cv, hc, h2.1⟩, hinv, le_refl _, by omega⟩
      · have := ih (i + 1) _ _
          (posInv_step hinv 1 _ (deltaMu Jprev Ginv cv) (deltaMu_fn _ _ _) _ (by simp)) (by simpa using h)
        obtain ⟨a, b, c1, c2⟩ := this
        exact ⟨a, b, by omega, by omega⟩

/-- The inner backtracking loop always leaves the position at `pos_curr + step_size * delta_pos`
for the `step_size` it returns — also when the search is exhausted (the `for … else` branch). -/
theorem lineSearch_consistent (O : Oracles K n c) (error : K) (posCurr δ : Vec K n) :
    ∀ (k : Nat) (α : K) (pos' : Vec K n) (α' : K),
      lineSearch O error posCurr δ k α = .ok (pos', α') → pos'.fn = posCurr.fn + α' • δ.fn := by
  intro k
  induction k with
  | zero => intro α pos' α' h; simp only [lineSearch, Except.ok.injEq, Prod.mk.injEq] at h
            obtain ⟨h1, h2⟩ := h; subst h1 h2; simp
  | succ k ih =>
    intro α pos' α' h
    unfold lineSearch at h
    cases hc : O.constr (vec (posCurr.fn + α • δ.fn)) with
    | error e => simp [hc] at h
    | ok cv =>
      simp only [hc] at h
      split_ifs at h with h1
      · simp only [Except.ok.injEq, Prod.mk.injEq] at h
        obtain ⟨h1, h2⟩ := h; subst h1 h2; simp
      · exact ih _ _ _ h

private theorem lsLoop_post (O : Oracles K n c) (T : Tol K) (maxLs : Nat) (Jprev : Mat K c n)
    (Φqp : Mat K n n) (pos0 pos' mu' : Vec K n) (i' : Nat) :
    ∀ (fuel i : Nat) (pos mu last : Vec K n), PosInv Jprev Φqp pos0 pos mu →
      lsLoop O T maxLs Jprev Φqp fuel i pos mu last = .converged pos' mu' i' →
      (∃ cv, O.constr pos' = .ok cv ∧ O.normC cv < T.ctol) ∧ PosInv Jprev Φqp pos0 pos' mu' ∧
        i ≤ i' ∧ i' < i + fuel := by
  intro fuel
  induction fuel with
  | zero => intro i pos mu last _ h; simp [lsLoop] at h
  | succ fuel ih =>
    intro i pos mu last hinv h
    unfold lsLoop at h
    cases hj : O.jacob pos with
    | error e => simp [hj] at h
    | ok J =>
    cases hc : O.constr pos with
    | error e => simp [hj, hc] at h
    | ok cv =>
      simp only [hj, hc] at h
      split_ifs at h with h1 h2
      · cases h
        exact ⟨⟨cv, hc, h2.1⟩, hinv, le_refl _, by omega⟩
      · cases hi : O.inv (innerProduct J Φqp Jprev) with
        | error e => simp [hi] at h
        | ok Ginv =>
          simp only [hi] at h
          cases hl : lineSearch O (O.normC cv) pos
              (vec (-(Φqp.fn *ᵥ (deltaMu Jprev Ginv cv).fn))) maxLs 1 with
          | error e => simp [hl] at h
          | ok r =>
            obtain ⟨pos1, α⟩ := r
            simp only [hl] at h
            have hp := lineSearch_consistent O _ _ _ _ _ _ _ hl
            have := ih (i + 1) _ _ _
              (posInv_step hinv α _ (deltaMu Jprev Ginv cv) (deltaMu_fn _ _ _) pos1
                (by rw [hp]; simp [sub_eq_add_neg])) h
            obtain ⟨a, b, c1, c2⟩ := this
            exact ⟨a, b, by omega, by omega⟩

private theorem finish_ok {maxIters : Nat} {t : K} {mom : Vec K n} {Φpp : Mat K n n}
    {l : LoopOut K n} {pos' mom' mu : Vec K n} {i : Nat}
    (h : finish maxIters t mom Φpp l = .ok pos' mom' mu i) :
    l = .converged pos' mu i ∧ mom'.fn = mom.fn - sgn t • (Φpp.fn *ᵥ mu.fn) := by
  cases l with
  | converged p m j =>
    simp only [finish, Outcome.ok.injEq] at h
    obtain ⟨rfl, rfl, rfl, rfl⟩ := h
    exact ⟨rfl, by simp⟩
  | failed r j p m =>
    cases r <;> simp [finish] at h
    split_ifs at h

/-- **Quasi-Newton solver.** If it returns, the residual is below `constraint_tol`, and position
and momentum corrections have Lagrange-multiplier form with the *same* multipliers; it returned
at an iteration index `< max_iters`. -/
theorem quasi_newton_post (O : Oracles K n c) (T : Tol K) (maxIters : Nat) (t : K)
    (pos mom posPrev pos' mom' mu : Vec K n) (i : Nat)
    (h : solveQuasiNewton O T maxIters t pos mom posPrev = .ok pos' mom' mu i) :
    Post O T t pos mom posPrev pos' mom' mu ∧ i < maxIters := by
  unfold solveQuasiNewton at h
  cases hj : O.jacob posPrev with
  | error e => simp [hj] at h
  | ok Jprev =>
  cases hf : O.flowD posPrev |t| with
  | error e => simp [hj, hf] at h
  | ok Φ =>
  obtain ⟨Φqp, Φpp⟩ := Φ
  cases hi : O.inv (innerProduct Jprev Φqp Jprev) with
  | error e => simp [hj, hf, hi] at h
  | ok Ginv =>
    simp only [hj, hf, hi] at h
    obtain ⟨hl, hm⟩ := finish_ok h
    obtain ⟨hc, ⟨hp, hr⟩, _, hlt⟩ :=
      qnLoop_post O T Jprev Φqp Ginv pos pos' mu i maxIters 0 pos (vec 0) (posInv_init _ _ _) hl
    exact ⟨⟨hc, Jprev, Φqp, Φpp, rfl, rfl, hp, hm, hr⟩, by omega⟩

/-- **Newton solver.** Same post-condition. -/
theorem newton_post (O : Oracles K n c) (T : Tol K) (maxIters : Nat) (t : K)
    (pos mom posPrev pos' mom' mu : Vec K n) (i : Nat)
    (h : solveNewton O T maxIters t pos mom posPrev = .ok pos' mom' mu i) :
    Post O T t pos mom posPrev pos' mom' mu ∧ i < maxIters := by
  unfold solveNewton at h
  cases hj : O.jacob posPrev with
  | error e => simp [hj] at h
  | ok Jprev =>
  cases hf : O.flowD posPrev |t| with
  | error e => simp [hj, hf] at h
  | ok Φ =>
    obtain ⟨Φqp, Φpp⟩ := Φ
    simp only [hj, hf] at h
    obtain ⟨hl, hm⟩ := finish_ok h
    obtain ⟨hc, ⟨hp, hr⟩, _, hlt⟩ :=
      newtonLoop_post O T Jprev Φqp pos pos' mu i maxIters 0 pos (vec 0) (posInv_init _ _ _) hl
    exact ⟨⟨hc, Jprev, Φqp, Φpp, rfl, rfl, hp, hm, hr⟩, by omega⟩

/-- **Newton solver with line search** (current tree, with the `for … else` repair): the full
post-condition holds for every `max_line_search_iters`, with no assumption that the inner
searches found a decrease. -/
theorem line_search_post (O : Oracles K n c) (T : Tol K) (maxIters maxLs : Nat) (t : K)
    (pos mom posPrev pos' mom' mu : Vec K n) (i : Nat)
    (h : solveNewtonLineSearch O T maxIters maxLs t pos mom posPrev = .ok pos' mom' mu i) :
    Post O T t pos mom posPrev pos' mom' mu ∧ i < maxIters := by
  unfold solveNewtonLineSearch at h
  cases hj : O.jacob posPrev with
  | error e => simp [hj] at h
  | ok Jprev =>
  cases hf : O.flowD posPrev |t| with
  | error e => simp [hj, hf] at h
  | ok Φ =>
    obtain ⟨Φqp, Φpp⟩ := Φ
    simp only [hj, hf] at h
    obtain ⟨hl, hm⟩ := finish_ok h
    obtain ⟨hc, ⟨hp, hr⟩, _, hlt⟩ :=
      lsLoop_post O T maxLs Jprev Φqp pos pos' mu i maxIters 0 pos (vec 0) (vec 0)
        (posInv_init _ _ _) hl
    exact ⟨⟨hc, Jprev, Φqp, Φpp, rfl, rfl, hp, hm, hr⟩, by omega⟩

/-- All three solvers. -/
theorem solve_post (kind : SolverKind) (O : Oracles K n c) (T : Tol K) (maxIters maxLs : Nat) (t : K)
    (pos mom posPrev pos' mom' mu : Vec K n) (i : Nat)
    (h : solve kind O T maxIters maxLs t pos mom posPrev = .ok pos' mom' mu i) :
    Post O T t pos mom posPrev pos' mom' mu ∧ i < maxIters := by
  cases kind
  · exact quasi_newton_post O T maxIters t pos mom posPrev pos' mom' mu i h
  · exact newton_post O T maxIters t pos mom posPrev pos' mom' mu i h
  · exact line_search_post O T maxIters maxLs t pos mom posPrev pos' mom' mu i h

end Solvers

end MiciVerif.C04
