/-
C04 — Constrained dynamics never leave the constraint manifold or its cotangent space.

Property theorems only (helpers are `private`).  Everything is stated for every ordered field
`K`, every dimension, every constraint / Jacobian / flow-derivative / inverse oracle (no
assumption on the oracles unless a hypothesis says so), every tolerance and every fuel.
-/
import MiciVerif.Model.Constrained
import Mathlib.Tactic.Ring
import Mathlib.Tactic.Linarith
import Mathlib.Tactic.FinCases
import Mathlib.Tactic.NormNum
import Mathlib.Algebra.Order.Field.Rat
import Mathlib.LinearAlgebra.Matrix.NonsingularInverse

set_option linter.unusedSectionVars false

namespace MiciVerif.C04
open Matrix MiciVerif.Constrained

/-! ### cotangent projection (systems.py:866-876) -/

section Project
variable {K : Type*} [CommRing K] {n c : Type*} [Fintype n] [Fintype c] [DecidableEq c]

/-- The projected momentum lies in the cotangent space: `J M⁻¹ p' = 0`.  `Ginv` is the checked
inverse of the Gram matrix `G = J N Jᵀ`. -/
theorem project_cotangent (J : Matrix c n K) (N : Matrix n n K) (Ginv : Matrix c c K)
    (hG : J * N * Jᵀ * Ginv = 1) (p : n → K) :
    J *ᵥ (N *ᵥ project J N Ginv p) = 0 := by
  unfold project
  have h : J *ᵥ (N *ᵥ (Jᵀ *ᵥ (Ginv *ᵥ (J *ᵥ (N *ᵥ p))))) = (J * N * Jᵀ * Ginv) *ᵥ (J *ᵥ (N *ᵥ p)) := by
    simp only [Matrix.mulVec_mulVec, Matrix.mul_assoc]
  rw [Matrix.mulVec_sub, Matrix.mulVec_sub, h, hG, Matrix.one_mulVec, sub_self]

/-- A momentum already in the cotangent space is left unchanged. -/
theorem project_of_cotangent (J : Matrix c n K) (N : Matrix n n K) (Ginv : Matrix c c K)
    (p : n → K) (hp : J *ᵥ (N *ᵥ p) = 0) : project J N Ginv p = p := by
  unfold project
  rw [hp, Matrix.mulVec_zero, Matrix.mulVec_zero, sub_zero]

/-- Projection is idempotent. -/
theorem project_idem (J : Matrix c n K) (N : Matrix n n K) (Ginv : Matrix c c K)
    (hG : J * N * Jᵀ * Ginv = 1) (p : n → K) :
    project J N Ginv (project J N Ginv p) = project J N Ginv p :=
  project_of_cotangent J N Ginv _ (project_cotangent J N Ginv hG p)

/-- The correction has Lagrange-multiplier form: it lies in the range of `Jᵀ`. -/
theorem project_lagrange (J : Matrix c n K) (N : Matrix n n K) (Ginv : Matrix c c K) (p : n → K) :
    ∃ lam : c → K, project J N Ginv p - p = Jᵀ *ᵥ lam := by
  refine ⟨-(Ginv *ᵥ (J *ᵥ (N *ᵥ p))), ?_⟩
  unfold project
  rw [Matrix.mulVec_neg]; abel

/-- Multiples of the constraint normals are annihilated. -/
theorem project_range_zero (J : Matrix c n K) (N : Matrix n n K) (Ginv : Matrix c c K)
    (hG : J * N * Jᵀ * Ginv = 1) (lam : c → K) : project J N Ginv (Jᵀ *ᵥ lam) = 0 := by
  have hG' : Ginv * (J * N * Jᵀ) = 1 := mul_eq_one_comm.mp hG
  unfold project
  have h : Ginv *ᵥ (J *ᵥ (N *ᵥ (Jᵀ *ᵥ lam))) = (Ginv * (J * N * Jᵀ)) *ᵥ lam := by
    simp only [Matrix.mulVec_mulVec, Matrix.mul_assoc]
  rw [h, hG', Matrix.one_mulVec, sub_self]

/-- `project` is multiplication by `P = 1 − Jᵀ G⁻¹ J N` (so it is linear in the momentum). -/
theorem project_eq_mulVec [DecidableEq n] (J : Matrix c n K) (N : Matrix n n K)
    (Ginv : Matrix c c K) (p : n → K) : project J N Ginv p = projMatrix J N Ginv *ᵥ p := by
  unfold project projMatrix
  rw [Matrix.sub_mulVec, Matrix.one_mulVec]
  simp only [Matrix.mulVec_mulVec, Matrix.mul_assoc]

/-- non-vacuity: a sphere-type normal `J = (3 4)`, metric inverse `diag(1, 1/2)`, `G = 17`. -/
example : (!![3, 4] : Matrix (Fin 1) (Fin 2) ℚ) * (!![1, 0; 0, 1/2] : Matrix (Fin 2) (Fin 2) ℚ)
    * (!![3, 4] : Matrix (Fin 1) (Fin 2) ℚ)ᵀ * (!![1/17] : Matrix (Fin 1) (Fin 1) ℚ) = 1 := by
  ext i j; fin_cases i; fin_cases j
  simp [Matrix.mul_apply, Fin.sum_univ_succ, Matrix.vecMul, dotProduct, Matrix.vecHead, Matrix.vecTail]; norm_num

end Project

/-! ### projection solvers -/

section Solvers
variable {K : Type*} [Field K] [LinearOrder K] {n c : Nat}

/-- Loop invariant / post-condition: the position correction is `Φ_qp μ` and `μ` is a
combination of the constraint normals at the previous state. -/
def PosInv (Jprev : Mat K c n) (Φqp : Mat K n n) (pos0 pos mu : Vec K n) : Prop :=
  pos.fn = pos0.fn - Φqp.fn *ᵥ mu.fn ∧ ∃ lam : Fin c → K, mu.fn = Jprev.fnᵀ *ᵥ lam

/-- What a successful solve guarantees. -/
structure Post (O : Oracles K n c) (T : Tol K) (t : K) (pos0 mom0 posPrev pos' mom' mu : Vec K n) : Prop where
  /-- it only returns converged: the constraint residual at the returned position is below tolerance -/
  converged : ∃ cv, O.constr pos' = .ok cv ∧ O.normC cv < T.ctol
  /-- Lagrange form of the position and momentum corrections -/
  lagrange : ∃ Jprev Φqp Φpp, O.jacob posPrev = .ok Jprev ∧ O.flowD posPrev |t| = .ok (Φqp, Φpp) ∧
    pos'.fn = pos0.fn - Φqp.fn *ᵥ mu.fn ∧
    mom'.fn = mom0.fn - sgn t • (Φpp.fn *ᵥ mu.fn) ∧
    ∃ lam : Fin c → K, mu.fn = Jprev.fnᵀ *ᵥ lam

private theorem posInv_init (Jprev : Mat K c n) (Φqp : Mat K n n) (pos0 : Vec K n) :
    PosInv Jprev Φqp pos0 pos0 (vec 0) := by
  refine ⟨by simp, 0, by simp⟩

private theorem posInv_step {Jprev : Mat K c n} {Φqp : Mat K n n} {pos0 pos mu : Vec K n}
    (h : PosInv Jprev Φqp pos0 pos mu) (a : K) (w : Fin c → K) (dmu : Vec K n)
    (hd : dmu.fn = Jprev.fnᵀ *ᵥ w) (pos' : Vec K n)
    (hp : pos'.fn = pos.fn - a • (Φqp.fn *ᵥ dmu.fn)) :
    PosInv Jprev Φqp pos0 pos' (vec (mu.fn + a • dmu.fn)) := by
  obtain ⟨h1, lam, h2⟩ := h
  refine ⟨?_, lam + a • w, ?_⟩
  · rw [hp, h1, fn_vec, Matrix.mulVec_add, Matrix.mulVec_smul]; abel
  · rw [fn_vec, h2, hd, Matrix.mulVec_add, Matrix.mulVec_smul]

private theorem deltaMu_fn (Jprev : Mat K c n) (Ginv : Mat K c c) (cv : Vec K c) :
    (deltaMu Jprev Ginv cv).fn = Jprev.fnᵀ *ᵥ (Ginv.fn *ᵥ cv.fn) := by
  simp [deltaMu]

private theorem qnLoop_post (O : Oracles K n c) (T : Tol K) (Jprev : Mat K c n) (Φqp : Mat K n n)
    (Ginv : Mat K c c) (pos0 pos' mu' : Vec K n) (i' : Nat) :
    ∀ (fuel i : Nat) (pos mu : Vec K n), PosInv Jprev Φqp pos0 pos mu →
      qnLoop O T Jprev Φqp Ginv fuel i pos mu = .converged pos' mu' i' →
      (∃ cv, O.constr pos' = .ok cv ∧ O.normC cv < T.ctol) ∧ PosInv Jprev Φqp pos0 pos' mu' ∧
        i ≤ i' ∧ i' < i + fuel := by
  intro fuel
  induction fuel with
  | zero => intro i pos mu _ h; simp [qnLoop] at h
  | succ fuel ih =>
    intro i pos mu hinv h
    unfold qnLoop at h
    cases hc : O.constr pos with
    | error e => simp [hc] at h
    | ok cv =>
      simp only [hc] at h
      split_ifs at h with h1 h2
      · cases h
        exact ⟨⟨cv, hc, h2.1⟩, hinv, le_refl _, by omega⟩
      · have key := posInv_step hinv 1 _ (deltaMu Jprev Ginv cv) (deltaMu_fn _ _ _)
          (vec (pos.fn - (vec (Φqp.fn *ᵥ (deltaMu Jprev Ginv cv).fn)).fn)) (by simp)
        rw [one_smul] at key
        obtain ⟨a, b, c1, c2⟩ := ih (i + 1) _ _ key h
        exact ⟨a, b, by omega, by omega⟩

private theorem newtonLoop_post (O : Oracles K n c) (T : Tol K) (Jprev : Mat K c n) (Φqp : Mat K n n)
    (pos0 pos' mu' : Vec K n) (i' : Nat) :
    ∀ (fuel i : Nat) (pos mu : Vec K n), PosInv Jprev Φqp pos0 pos mu →
      newtonLoop O T Jprev Φqp fuel i pos mu = .converged pos' mu' i' →
      (∃ cv, O.constr pos' = .ok cv ∧ O.normC cv < T.ctol) ∧ PosInv Jprev Φqp pos0 pos' mu' ∧
        i ≤ i' ∧ i' < i + fuel := by
  intro fuel
  induction fuel with
  | zero => intro i pos mu _ h; simp [newtonLoop] at h
  | succ fuel ih =>
    intro i pos mu hinv h
    unfold newtonLoop at h
    cases hj : O.jacob pos with
    | error e => simp [hj] at h
    | ok J =>
    cases hc : O.constr pos with
    | error e => simp [hj, hc] at h
    | ok cv =>
    cases hi : O.inv (innerProduct J Φqp Jprev) with
    | error e => simp [hj, hc, hi] at h
    | ok Ginv =>
      simp only [hj, hc, hi] at h
      split_ifs at h with h1 h2
      · cases h
        exact ⟨⟨cv, hc, h2.1⟩, hinv, le_refl _, by omega⟩
      · have key := posInv_step hinv 1 _ (deltaMu Jprev Ginv cv) (deltaMu_fn _ _ _)
          (vec (pos.fn - (vec (Φqp.fn *ᵥ (deltaMu Jprev Ginv cv).fn)).fn)) (by simp)
        rw [one_smul] at key
        obtain ⟨a, b, c1, c2⟩ := ih (i + 1) _ _ key h
        exact ⟨a, b, by omega, by omega⟩

/-- The inner backtracking loop always leaves the position at `pos_curr + step_size * delta_pos`
for the `step_size` it returns — also when the search is exhausted (the `for … else` branch). -/
theorem lineSearch_consistent (O : Oracles K n c) (error : K) (posCurr δ : Vec K n) :
    ∀ (k : Nat) (α : K) (pos' : Vec K n) (α' : K),
      lineSearch O error posCurr δ k α = .ok (pos', α') → pos'.fn = posCurr.fn + α' • δ.fn := by
  intro k
  induction k with
  | zero => intro α pos' α' h; simp only [lineSearch, Except.ok.injEq, Prod.mk.injEq] at h
            obtain ⟨h1, h2⟩ := h; subst h1 h2; simp
  | succ k ih =>
    intro α pos' α' h
    unfold lineSearch at h
    cases hc : O.constr (vec (posCurr.fn + α • δ.fn)) with
    | error e => simp [hc] at h
    | ok cv =>
      simp only [hc] at h
      split_ifs at h with h1
      · simp only [Except.ok.injEq, Prod.mk.injEq] at h
        obtain ⟨h1, h2⟩ := h; subst h1 h2; simp
      · exact ih _ _ _ h

private theorem lsLoop_post (O : Oracles K n c) (T : Tol K) (maxLs : Nat) (Jprev : Mat K c n)
    (Φqp : Mat K n n) (pos0 pos' mu' : Vec K n) (i' : Nat) :
    ∀ (fuel i : Nat) (pos mu last : Vec K n), PosInv Jprev Φqp pos0 pos mu →
      lsLoop O T maxLs Jprev Φqp fuel i pos mu last = .converged pos' mu' i' →
      (∃ cv, O.constr pos' = .ok cv ∧ O.normC cv < T.ctol) ∧ PosInv Jprev Φqp pos0 pos' mu' ∧
        i ≤ i' ∧ i' < i + fuel := by
  intro fuel
  induction fuel with
  | zero => intro i pos mu last _ h; simp [lsLoop] at h
  | succ fuel ih =>
    intro i pos mu last hinv h
    unfold lsLoop at h
    cases hj : O.jacob pos with
    | error e => simp [hj] at h
    | ok J =>
    cases hc : O.constr pos with
    | error e => simp [hj, hc] at h
    | ok cv =>
      simp only [hj, hc] at h
      split_ifs at h with h1 h2
      · cases h
        exact ⟨⟨cv, hc, h2.1⟩, hinv, le_refl _, by omega⟩
      · cases hi : O.inv (innerProduct J Φqp Jprev) with
        | error e => simp [hi] at h
        | ok Ginv =>
          simp only [hi] at h
          cases hl : lineSearch O (O.normC cv) pos
              (vec (-(Φqp.fn *ᵥ (deltaMu Jprev Ginv cv).fn))) maxLs 1 with
          | error e => simp [hl] at h
          | ok r =>
            obtain ⟨pos1, α⟩ := r
            simp only [hl] at h
            have hp := lineSearch_consistent O _ _ _ _ _ _ _ hl
            have := ih (i + 1) _ _ _
              (posInv_step hinv α _ (deltaMu Jprev Ginv cv) (deltaMu_fn _ _ _) pos1
                (by rw [hp]; simp [sub_eq_add_neg])) h
            obtain ⟨a, b, c1, c2⟩ := this
            exact ⟨a, b, by omega, by omega⟩

private theorem finish_ok {maxIters : Nat} {t : K} {mom : Vec K n} {Φpp : Mat K n n}
    {l : LoopOut K n} {pos' mom' mu : Vec K n} {i : Nat}
    (h : finish maxIters t mom Φpp l = .ok pos' mom' mu i) :
    l = .converged pos' mu i ∧ mom'.fn = mom.fn - sgn t • (Φpp.fn *ᵥ mu.fn) := by
  cases l with
  | converged p m j =>
    simp only [finish, Outcome.ok.injEq] at h
    obtain ⟨rfl, rfl, rfl, rfl⟩ := h
    exact ⟨rfl, by simp⟩
  | failed r j p m =>
    cases r <;> simp [finish] at h
    split_ifs at h

/-- **Quasi-Newton solver.** If it returns, the residual is below `constraint_tol`, and position
and momentum corrections have Lagrange-multiplier form with the *same* multipliers; it returned
at an iteration index `< max_iters`. -/
theorem quasi_newton_post (O : Oracles K n c) (T : Tol K) (maxIters : Nat) (t : K)
    (pos mom posPrev pos' mom' mu : Vec K n) (i : Nat)
    (h : solveQuasiNewton O T maxIters t pos mom posPrev = .ok pos' mom' mu i) :
    Post O T t pos mom posPrev pos' mom' mu ∧ i < maxIters := by
  unfold solveQuasiNewton at h
  cases hj : O.jacob posPrev with
  | error e => simp [hj] at h
  | ok Jprev =>
  cases hf : O.flowD posPrev |t| with
  | error e => simp [hj, hf] at h
  | ok Φ =>
  obtain ⟨Φqp, Φpp⟩ := Φ
  cases hi : O.inv (innerProduct Jprev Φqp Jprev) with
  | error e => simp [hj, hf, hi] at h
  | ok Ginv =>
    simp only [hj, hf, hi] at h
    obtain ⟨hl, hm⟩ := finish_ok h
    obtain ⟨hc, ⟨hp, hr⟩, _, hlt⟩ :=
      qnLoop_post O T Jprev Φqp Ginv pos pos' mu i maxIters 0 pos (vec 0) (posInv_init _ _ _) hl
    exact ⟨⟨hc, Jprev, Φqp, Φpp, hj, hf, hp, hm, hr⟩, by omega⟩

/-- **Newton solver.** Same post-condition. -/
theorem newton_post (O : Oracles K n c) (T : Tol K) (maxIters : Nat) (t : K)
    (pos mom posPrev pos' mom' mu : Vec K n) (i : Nat)
    (h : solveNewton O T maxIters t pos mom posPrev = .ok pos' mom' mu i) :
    Post O T t pos mom posPrev pos' mom' mu ∧ i < maxIters := by
  unfold solveNewton at h
  cases hj : O.jacob posPrev with
  | error e => simp [hj] at h
  | ok Jprev =>
  cases hf : O.flowD posPrev |t| with
  | error e => simp [hj, hf] at h
  | ok Φ =>
    obtain ⟨Φqp, Φpp⟩ := Φ
    simp only [hj, hf] at h
    obtain ⟨hl, hm⟩ := finish_ok h
    obtain ⟨hc, ⟨hp, hr⟩, _, hlt⟩ :=
      newtonLoop_post O T Jprev Φqp pos pos' mu i maxIters 0 pos (vec 0) (posInv_init _ _ _) hl
    exact ⟨⟨hc, Jprev, Φqp, Φpp, hj, hf, hp, hm, hr⟩, by omega⟩

/-- **Newton solver with line search** (current tree, with the `for … else` repair): the full
post-condition holds for every `max_line_search_iters`, with no assumption that the inner
searches found a decrease. -/
theorem line_search_post (O : Oracles K n c) (T : Tol K) (maxIters maxLs : Nat) (t : K)
    (pos mom posPrev pos' mom' mu : Vec K n) (i : Nat)
    (h : solveNewtonLineSearch O T maxIters maxLs t pos mom posPrev = .ok pos' mom' mu i) :
    Post O T t pos mom posPrev pos' mom' mu ∧ i < maxIters := by
  unfold solveNewtonLineSearch at h
  cases hj : O.jacob posPrev with
  | error e => simp [hj] at h
  | ok Jprev =>
  cases hf : O.flowD posPrev |t| with
  | error e => simp [hj, hf] at h
  | ok Φ =>
    obtain ⟨Φqp, Φpp⟩ := Φ
    simp only [hj, hf] at h
    obtain ⟨hl, hm⟩ := finish_ok h
    obtain ⟨hc, ⟨hp, hr⟩, _, hlt⟩ :=
      lsLoop_post O T maxLs Jprev Φqp pos pos' mu i maxIters 0 pos (vec 0) (vec 0)
        (posInv_init _ _ _) hl
    exact ⟨⟨hc, Jprev, Φqp, Φpp, hj, hf, hp, hm, hr⟩, by omega⟩

/-- All three solvers. -/
theorem solve_post (kind : SolverKind) (O : Oracles K n c) (T : Tol K) (maxIters maxLs : Nat) (t : K)
    (pos mom posPrev pos' mom' mu : Vec K n) (i : Nat)
    (h : solve kind O T maxIters maxLs t pos mom posPrev = .ok pos' mom' mu i) :
    Post O T t pos mom posPrev pos' mom' mu ∧ i < maxIters := by
  cases kind
  · exact quasi_newton_post O T maxIters t pos mom posPrev pos' mom' mu i h
  · exact newton_post O T maxIters t pos mom posPrev pos' mom' mu i h
  · exact line_search_post O T maxIters maxLs t pos mom posPrev pos' mom' mu i h


/-! ### failure behaviour -/

private theorem finish_total {maxIters : Nat} (hmax : 0 < maxIters) (t : K) (mom : Vec K n)
    (Φpp : Mat K n n) (l : LoopOut K n) :
    (∃ pos' mom' mu i, finish maxIters t mom Φpp l = .ok pos' mom' mu i) ∨
      (∃ r i p, finish maxIters t mom Φpp l = .convergenceError r i p) := by
  cases l with
  | converged p m j => exact Or.inl ⟨_, _, _, _, rfl⟩
  | failed r j p m =>
    right
    cases r
    · exact ⟨_, _, _, rfl⟩
    · exact ⟨_, _, _, rfl⟩
    · exact ⟨.maxIters, j, p, by simp [finish, Nat.ne_of_gt hmax]⟩

/-- **Faults are contained, fuel exhaustion is an error.** With `max_iters ≥ 1`, whatever the
oracles do (any `ValueError`/`LinAlgError` at any call, divergence, no convergence within
the fuel), a solver either returns normally — and then `solve_post` applies — or raises
`ConvergenceError`.  (For `max_iters = 0` the Python code raises `UnboundLocalError`, see
`solve_zero_iters`.) -/
theorem solve_ok_or_convergenceError (kind : SolverKind) (O : Oracles K n c) (T : Tol K)
    (maxIters maxLs : Nat) (hmax : 0 < maxIters) (t : K) (pos mom posPrev : Vec K n) :
    (∃ pos' mom' mu i, solve kind O T maxIters maxLs t pos mom posPrev = .ok pos' mom' mu i) ∨
      (∃ r i p, solve kind O T maxIters maxLs t pos mom posPrev = .convergenceError r i p) := by
  cases kind <;> simp only [solve, solveQuasiNewton, solveNewton, solveNewtonLineSearch]
  · cases hj : O.jacob posPrev with
    | error e => exact Or.inr ⟨_, _, _, rfl⟩
    | ok Jprev =>
    cases hf : O.flowD posPrev |t| with
    | error e => exact Or.inr ⟨_, _, _, rfl⟩
    | ok Φ =>
    obtain ⟨Φqp, Φpp⟩ := Φ
    cases hi : O.inv (innerProduct Jprev Φqp Jprev) with
    | error e => simp only [hi]; exact Or.inr ⟨_, _, _, rfl⟩
    | ok Ginv => simp only [hi]; exact finish_total hmax _ _ _ _
  · cases hj : O.jacob posPrev with
    | error e => exact Or.inr ⟨_, _, _, rfl⟩
    | ok Jprev =>
    cases hf : O.flowD posPrev |t| with
    | error e => exact Or.inr ⟨_, _, _, rfl⟩
    | ok Φ => exact finish_total hmax _ _ _ _
  · cases hj : O.jacob posPrev with
    | error e => exact Or.inr ⟨_, _, _, rfl⟩
    | ok Jprev =>
    cases hf : O.flowD posPrev |t| with
    | error e => exact Or.inr ⟨_, _, _, rfl⟩
    | ok Φ => exact finish_total hmax _ _ _ _

/-- A fault while evaluating the constraint Jacobian at the previous state (before the first
iteration) is reported as `ConvergenceError` by every solver. -/
theorem solve_setup_fault (kind : SolverKind) (O : Oracles K n c) (T : Tol K)
    (maxIters maxLs : Nat) (t : K) (pos mom posPrev : Vec K n) (e : Fault)
    (h : O.jacob posPrev = .error e) :
    solve kind O T maxIters maxLs t pos mom posPrev = .convergenceError .fault 0 pos := by
  cases kind <;> simp [solve, solveQuasiNewton, solveNewton, solveNewtonLineSearch, h]

private theorem qnLoop_maxIters (O : Oracles K n c) (T : Tol K) (Jprev : Mat K c n) (Φqp : Mat K n n)
    (Ginv : Mat K c c) (p m : Vec K n) (i' : Nat) :
    ∀ (fuel i : Nat) (pos mu : Vec K n),
      qnLoop O T Jprev Φqp Ginv fuel i pos mu = .failed .maxIters i' p m → i' = i + fuel := by
  intro fuel
  induction fuel with
  | zero => intro i pos mu h; simp only [qnLoop, LoopOut.failed.injEq] at h; omega
  | succ fuel ih =>
    intro i pos mu h
    unfold qnLoop at h
    cases hc : O.constr pos with
    | error e => simp [hc] at h
    | ok cv =>
      simp only [hc] at h
      split_ifs at h with h1 h2
      · simp at h
      · have := ih _ _ _ h; omega

private theorem newtonLoop_maxIters (O : Oracles K n c) (T : Tol K) (Jprev : Mat K c n) (Φqp : Mat K n n)
    (p m : Vec K n) (i' : Nat) :
    ∀ (fuel i : Nat) (pos mu : Vec K n),
      newtonLoop O T Jprev Φqp fuel i pos mu = .failed .maxIters i' p m → i' = i + fuel := by
  intro fuel
  induction fuel with
  | zero => intro i pos mu h; simp only [newtonLoop, LoopOut.failed.injEq] at h; omega
  | succ fuel ih =>
    intro i pos mu h
    unfold newtonLoop at h
    cases hj : O.jacob pos with
    | error e => simp [hj] at h
    | ok J =>
    cases hc : O.constr pos with
    | error e => simp [hj, hc] at h
    | ok cv =>
    cases hi : O.inv (innerProduct J Φqp Jprev) with
    | error e => simp [hj, hc, hi] at h
    | ok Ginv =>
      simp only [hj, hc, hi] at h
      split_ifs at h with h1 h2
      · simp at h
      · have := ih _ _ _ h; omega

private theorem lsLoop_maxIters (O : Oracles K n c) (T : Tol K) (maxLs : Nat) (Jprev : Mat K c n)
    (Φqp : Mat K n n) (p m : Vec K n) (i' : Nat) :
    ∀ (fuel i : Nat) (pos mu last : Vec K n),
      lsLoop O T maxLs Jprev Φqp fuel i pos mu last = .failed .maxIters i' p m → i' = i + fuel := by
  intro fuel
  induction fuel with
  | zero => intro i pos mu last h; simp only [lsLoop, LoopOut.failed.injEq] at h; omega
  | succ fuel ih =>
    intro i pos mu last h
    unfold lsLoop at h
    cases hj : O.jacob pos with
    | error e => simp [hj] at h
    | ok J =>
    cases hc : O.constr pos with
    | error e => simp [hj, hc] at h
    | ok cv =>
      simp only [hj, hc] at h
      split_ifs at h with h1 h2
      · simp at h
      · cases hi : O.inv (innerProduct J Φqp Jprev) with
        | error e => simp [hi] at h
        | ok Ginv =>
          simp only [hi] at h
          cases hl : lineSearch O (O.normC cv) pos
              (vec (-(Φqp.fn *ᵥ (deltaMu Jprev Ginv cv).fn))) maxLs 1 with
          | error e => simp [hl] at h
          | ok r =>
            obtain ⟨pos1, α⟩ := r
            simp only [hl] at h
            have := ih _ _ _ _ h; omega

private theorem finish_maxIters {maxIters : Nat} {t : K} {mom : Vec K n} {Φpp : Mat K n n}
    {l : LoopOut K n} {p : Vec K n} {i : Nat}
    (h : finish maxIters t mom Φpp l = .convergenceError .maxIters i p) :
    ∃ m, l = .failed .maxIters i p m := by
  cases l with
  | converged p m j => simp [finish] at h
  | failed r j p m =>
    cases r <;> simp [finish] at h
    split_ifs at h
    simp only [Outcome.convergenceError.injEq, true_and] at h
    obtain ⟨rfl, rfl⟩ := h
    exact ⟨m, rfl⟩

/-- "Did not converge in `max_iters` iterations" is raised exactly after all `max_iters`
iterations were used. -/
theorem solve_maxIters_exhausted (kind : SolverKind) (O : Oracles K n c) (T : Tol K)
    (maxIters maxLs : Nat) (t : K) (pos mom posPrev p : Vec K n) (i : Nat)
    (h : solve kind O T maxIters maxLs t pos mom posPrev = .convergenceError .maxIters i p) :
    i = maxIters := by
  cases kind <;> simp only [solve, solveQuasiNewton, solveNewton, solveNewtonLineSearch] at h
  · cases hj : O.jacob posPrev with
    | error e => simp [hj] at h
    | ok Jprev =>
    cases hf : O.flowD posPrev |t| with
    | error e => simp [hj, hf] at h
    | ok Φ =>
    cases hi : O.inv (innerProduct Jprev Φ.1 Jprev) with
    | error e => simp [hj, hf, hi] at h
    | ok Ginv =>
      simp only [hj, hf, hi] at h
      obtain ⟨m, hm⟩ := finish_maxIters h
      simpa using qnLoop_maxIters O T _ _ _ _ _ _ _ _ _ _ hm
  · cases hj : O.jacob posPrev with
    | error e => simp [hj] at h
    | ok Jprev =>
    cases hf : O.flowD posPrev |t| with
    | error e => simp [hj, hf] at h
    | ok Φ =>
      simp only [hj, hf] at h
      obtain ⟨m, hm⟩ := finish_maxIters h
      simpa using newtonLoop_maxIters O T _ _ _ _ _ _ _ _ _ hm
  · cases hj : O.jacob posPrev with
    | error e => simp [hj] at h
    | ok Jprev =>
    cases hf : O.flowD posPrev |t| with
    | error e => simp [hj, hf] at h
    | ok Φ =>
      simp only [hj, hf] at h
      obtain ⟨m, hm⟩ := finish_maxIters h
      simpa using lsLoop_maxIters O T _ _ _ _ _ _ _ _ _ _ _ hm

/-- The code as it is: with `max_iters = 0` (and a fault-free set-up) the solvers do not raise
`ConvergenceError` but `UnboundLocalError` (the final message formats the unbound `error`). -/
theorem solve_zero_iters (O : Oracles K n c) (T : Tol K) (maxLs : Nat) (t : K)
    (pos mom posPrev : Vec K n) (Jprev : Mat K c n) (Φ : Mat K n n × Mat K n n)
    (hj : O.jacob posPrev = .ok Jprev) (hf : O.flowD posPrev |t| = .ok Φ) :
    solve .newton O T 0 maxLs t pos mom posPrev = .unboundLocal ∧
    solve .newtonLineSearch O T 0 maxLs t pos mom posPrev = .unboundLocal := by
  simp [solve, solveNewton, solveNewtonLineSearch, hj, hf, newtonLoop, lsLoop, finish]

/-! ### Euclidean systems: the classical RATTLE relation -/

/-- For `ConstrainedEuclideanMetricSystem` (`dh2_flow_dmom = (|t|·M⁻¹, I)`) the Lagrange form
says: the position correction is `t · M⁻¹ ·` the momentum correction. -/
theorem euclidean_lagrange_identity [IsStrictOrderedRing K] (N : Matrix (Fin n) (Fin n) K) (t : K)
    (Φqp Φpp : Mat K n n) (hq : Φqp.fn = |t| • N) (hp : Φpp.fn = 1)
    (pos0 mom0 pos' mom' mu : Vec K n)
    (h1 : pos'.fn = pos0.fn - Φqp.fn *ᵥ mu.fn)
    (h2 : mom'.fn = mom0.fn - sgn t • (Φpp.fn *ᵥ mu.fn)) :
    pos'.fn - pos0.fn = t • (N *ᵥ (mom'.fn - mom0.fn)) := by
  have hs : t * sgn t = |t| := by
    unfold sgn
    rcases lt_trichotomy 0 t with h | h | h
    · simp [h, abs_of_pos h]
    · subst h; simp
    · simp [h, not_lt.mpr (le_of_lt h), abs_of_neg h]
  rw [h1, h2, hq, hp, Matrix.one_mulVec]
  have e1 : pos0.fn - (|t| • N) *ᵥ mu.fn - pos0.fn = -(|t| • (N *ᵥ mu.fn)) := by
    rw [Matrix.smul_mulVec]; abel
  have e2 : mom0.fn - sgn t • mu.fn - mom0.fn = -(sgn t • mu.fn) := by abel
  rw [e1, e2, Matrix.mulVec_neg, Matrix.mulVec_smul, smul_neg, smul_smul, hs]

/-! ### the integrator step -/

/-- the inverse oracle returns true (right) inverses — `gram(state).inv` -/
def InvCorrect (O : Oracles K n c) : Prop := ∀ A X, O.inv A = .ok X → A.fn * X.fn = 1

/-- the constraint residual at `pos` is below the solver tolerance -/
def OnManifold (O : Oracles K n c) (T : Tol K) (pos : Vec K n) : Prop :=
  ∃ cv, O.constr pos = .ok cv ∧ O.normC cv < T.ctol

/-- `mom` is in the cotangent space at `pos`: `J(pos) M⁻¹ mom = 0` exactly -/
def InCotangent (S : StepSys K n c) (pos mom : Vec K n) : Prop :=
  ∃ J, S.jacob pos = .ok J ∧ J.fn *ᵥ (S.N.fn *ᵥ mom.fn) = 0

/-- `project_onto_cotangent_space`: the result is in the cotangent space and differs from the
input by a combination of constraint normals. -/
theorem projectCot_post (S : StepSys K n c) (hinv : InvCorrect S.toOracles) (pos mom mom' : Vec K n)
    (h : projectCot S pos mom = .ok mom') :
    InCotangent S pos mom' ∧ ∃ J lam, S.jacob pos = .ok J ∧ mom'.fn - mom.fn = J.fnᵀ *ᵥ lam := by
  unfold projectCot at h
  cases hj : S.jacob pos with
  | error e => simp [hj] at h
  | ok J =>
  cases hi : S.inv (innerProduct J S.N J) with
  | error e => simp [hj, hi] at h
  | ok Ginv =>
    simp only [hj, hi, Except.ok.injEq] at h
    subst h
    have hG : J.fn * S.N.fn * J.fnᵀ * Ginv.fn = 1 := by
      have := hinv _ _ hi
      simpa [innerProduct, Matrix.mul_assoc] using this
    refine ⟨⟨J, hj, ?_⟩, J, ?_⟩
    · rw [fn_vec]; exact project_cotangent _ _ _ hG _
    · obtain ⟨lam, hl⟩ := project_lagrange J.fn S.N.fn Ginv.fn mom.fn
      exact ⟨lam, rfl, by rw [fn_vec]; exact hl⟩

private theorem stepA_post (S : StepSys K n c) (hinv : InvCorrect S.toOracles) (dt : K)
    (pos mom pos' mom' : Vec K n) (h : stepA S dt pos mom = .ok (pos', mom')) :
    pos' = pos ∧ InCotangent S pos' mom' := by
  unfold stepA at h
  cases hg : S.dh1 pos with
  | error e => simp [hg] at h
  | ok g =>
  cases hp : projectCot S pos (vec (mom.fn - dt • g.fn)) with
  | error e => simp [hg, hp] at h
  | ok m =>
    simp only [hg, hp, Except.ok.injEq, Prod.mk.injEq] at h
    obtain ⟨rfl, rfl⟩ := h
    exact ⟨rfl, (projectCot_post S hinv _ _ _ hp).1⟩

private theorem retract_post (S : StepSys K n c) (C : StepCfg K) (dt : K) (pos mom pos' mom' : Vec K n)
    (h : retract S C dt pos mom = .ok (pos', mom')) : OnManifold S.toOracles C.tol pos' := by
  unfold retract at h
  cases hf : S.h2flow dt (pos, mom) with
  | error e => simp [hf] at h
  | ok r =>
    obtain ⟨pos1, mom1⟩ := r
    simp only [hf] at h
    cases hs : solve C.kind S.toOracles C.tol C.maxIters C.maxLs dt pos1 mom1 pos with
    | ok p2 m2 mu i =>
      simp only [hs, Except.ok.injEq, Prod.mk.injEq] at h
      obtain ⟨rfl, rfl⟩ := h
      exact (solve_post _ _ _ _ _ _ _ _ _ _ _ _ _ hs).1.converged
    | convergenceError r i p => simp [hs] at h
    | unboundLocal => simp [hs] at h

private theorem stepBLoop_post (S : StepSys K n c) (hinv : InvCorrect S.toOracles) (C : StepCfg K) (dt : K)
    (pos' mom' : Vec K n) :
    ∀ (k : Nat) (pos mom : Vec K n), stepBLoop S C dt k pos mom = .ok (pos', mom') →
      (k = 0 ∧ pos' = pos ∧ mom' = mom) ∨
        (OnManifold S.toOracles C.tol pos' ∧ InCotangent S pos' mom') := by
  intro k
  induction k with
  | zero =>
    intro pos mom h
    simp only [stepBLoop, Except.ok.injEq, Prod.mk.injEq] at h
    exact Or.inl ⟨rfl, h.1.symm, h.2.symm⟩
  | succ k ih =>
    intro pos mom h
    right
    unfold stepBLoop at h
    cases hr : retract S C dt pos mom with
    | error e => simp [hr] at h
    | ok r =>
    obtain ⟨pos1, mom1⟩ := r
    simp only [hr] at h
    cases hd : (if k = 0 then (S.dh1 pos1).map (fun _ => ()) else Except.ok ()) with
    | error e => simp [hd] at h
    | ok u =>
    simp only [hd] at h
    cases hp : projectCot S pos1 mom1 with
    | error e => simp [hp] at h
    | ok mom2 =>
    simp only [hp] at h
    cases hb : retract S C (-dt) pos1 mom2 with
    | error e => simp [hb] at h
    | ok rb =>
    obtain ⟨posBack, momBack⟩ := rb
    simp only [hb] at h
    split_ifs at h with hrev
    rcases ih _ _ h with ⟨_, rfl, rfl⟩ | h'
    · exact ⟨retract_post S C dt _ _ _ _ hr, (projectCot_post S hinv _ _ _ hp).1⟩
    · exact h'

/-- **Constrained leapfrog step.** Whatever the start state, user functions and solver, a step
that returns ends on the manifold to solver tolerance (for `n_inner_step ≥ 1`) and with the
momentum *exactly* in the cotangent space there. -/
theorem constrained_step_post (S : StepSys K n c) (hinv : InvCorrect S.toOracles) (C : StepCfg K)
    (nInner : Nat) (hn : 0 < nInner) (t : K) (pos mom pos' mom' : Vec K n)
    (h : step S C nInner t pos mom = .ok pos' mom') :
    OnManifold S.toOracles C.tol pos' ∧ InCotangent S pos' mom' := by
  unfold step at h
  cases ha : stepA S (t * (1 / 2)) pos mom with
  | error e => simp only [ha] at h; cases h
  | ok r1 =>
  obtain ⟨pos1, mom1⟩ := r1
  simp only [ha] at h
  cases hb : stepBLoop S C (t / (nInner : K)) nInner pos1 mom1 with
  | error e => simp only [hb] at h; cases h
  | ok r2 =>
  obtain ⟨pos2, mom2⟩ := r2
  simp only [hb] at h
  cases hc : stepA S (t * (1 / 2)) pos2 mom2 with
  | error e => simp only [hc] at h; cases h
  | ok r3 =>
    obtain ⟨pos3, mom3⟩ := r3
    simp only [hc, StepOutcome.ok.injEq] at h
    obtain ⟨rfl, rfl⟩ := h
    obtain ⟨rfl, hcot⟩ := stepA_post S hinv _ _ _ _ _ hc
    refine ⟨?_, hcot⟩
    rcases stepBLoop_post S hinv C _ _ _ _ _ _ hb with ⟨h0, _⟩ | ⟨hm, _⟩
    · omega
    · exact hm

private theorem retract_not_unbound (S : StepSys K n c) (C : StepCfg K) (hmax : 0 < C.maxIters) (dt : K)
    (pos mom : Vec K n) : retract S C dt pos mom ≠ .error .unboundLocal := by
  unfold retract
  cases hf : S.h2flow dt (pos, mom) with
  | error e => simp
  | ok r =>
    obtain ⟨pos1, mom1⟩ := r
    simp only
    rcases solve_ok_or_convergenceError C.kind S.toOracles C.tol C.maxIters C.maxLs hmax dt pos1 mom1 pos with
      ⟨p2, m2, mu, i, h⟩ | ⟨r, i, p, h⟩ <;> simp [h]

private theorem stepBLoop_not_unbound (S : StepSys K n c) (C : StepCfg K) (hmax : 0 < C.maxIters) (dt : K) :
    ∀ (k : Nat) (pos mom : Vec K n), stepBLoop S C dt k pos mom ≠ .error .unboundLocal := by
  intro k
  induction k with
  | zero => intro pos mom; simp [stepBLoop]
  | succ k ih =>
    intro pos mom h
    unfold stepBLoop at h
    cases hr : retract S C dt pos mom with
    | error e =>
      simp only [hr, Except.error.injEq] at h
      exact retract_not_unbound S C hmax dt pos mom (by rw [hr, h])
    | ok r =>
    obtain ⟨pos1, mom1⟩ := r
    simp only [hr] at h
    cases hd : (if k = 0 then (S.dh1 pos1).map (fun _ => ()) else Except.ok ()) with
    | error e => simp [hd] at h
    | ok u =>
    simp only [hd] at h
    cases hp : projectCot S pos1 mom1 with
    | error e => simp [hp] at h
    | ok mom2 =>
    simp only [hp] at h
    cases hb : retract S C (-dt) pos1 mom2 with
    | error e =>
      simp only [hb, Except.error.injEq] at h
      exact retract_not_unbound S C hmax (-dt) pos1 mom2 (by rw [hb, h])
    | ok rb =>
    obtain ⟨posBack, momBack⟩ := rb
    simp only [hb] at h
    split_ifs at h with hrev
    · simp at h
    · exact ih _ _ h

/-- **Failures of a step are contained.** With `max_iters ≥ 1` a constrained leapfrog step
either returns or fails with `ConvergenceError`, `NonReversibleStepError` or the
`IntegratorError` into which `Integrator.step` converts `ValueError`/`LinAlgError` — all
subclasses of `IntegratorError`; nothing else escapes. -/
theorem step_failure_contained (S : StepSys K n c) (C : StepCfg K) (hmax : 0 < C.maxIters)
    (nInner : Nat) (t : K) (pos mom : Vec K n) :
    step S C nInner t pos mom ≠ .error .unboundLocal := by
  unfold step
  cases ha : stepA S (t * (1 / 2)) pos mom with
  | error e => simp
  | ok r1 =>
  obtain ⟨pos1, mom1⟩ := r1
  simp only
  cases hb : stepBLoop S C (t / (nInner : K)) nInner pos1 mom1 with
  | error e =>
    simp only [ne_eq, StepOutcome.error.injEq]
    intro h
    exact stepBLoop_not_unbound S C hmax _ _ _ _ (by rw [hb, h])
  | ok r2 =>
  obtain ⟨pos2, mom2⟩ := r2
  simp only
  cases hc : stepA S (t * (1 / 2)) pos2 mom2 with
  | error e => simp
  | ok r3 => simp

end Solvers

/-! ### non-vacuity of the solver theorems -/

/-- A 1-dimensional instance: constraint `c(q) = q`, Jacobian `1`, flow derivative `(1, 1)`. -/
private def exO : Oracles ℚ 1 1 where
  constr := fun q => .ok q
  jacob := fun _ => .ok (mat 1)
  flowD := fun _ _ => .ok (mat 1, mat 1)
  inv := fun A => if A.fn * A.fn = 1 then .ok A else .error .linAlgError
  normC := fun v => |v.fn 0|
  normP := fun v => |v.fn 0|

private def exT : Tol ℚ := ⟨1/2, 1/2, 10⟩

private theorem vec_eq_iff {n : Nat} (f g : Fin n → ℚ) : vec f = vec g ↔ f = g :=
  ⟨fun h => by have := congrArg Vec.fn h; simpa using this, fun h => by rw [h]⟩

private theorem ex_h1 : ¬ ((1 : ℚ) < 2⁻¹) := by norm_num
private theorem ex_h2 : ¬ ((10 : ℚ) < 0) := by norm_num

/-- non-vacuity of `quasi_newton_post`: a solve that needs one position update. -/
example : ∃ pos' mom' mu i, solveQuasiNewton exO exT 3 1 (vec ![1]) (vec ![0]) (vec ![0]) = .ok pos' mom' mu i ∧ 0 < i := by
  refine ⟨vec ![0], vec ![-1], vec ![1], 1, ?_, by decide⟩
  simp [solveQuasiNewton, exO, exT, qnLoop, finish, innerProduct, deltaMu, sgn, ex_h1, ex_h2, vec_eq_iff]
  ext i; fin_cases i; simp

/-- non-vacuity of `newton_post` (negative time step: the momentum correction changes sign). -/
example : ∃ pos' mom' mu i, solveNewton exO exT 3 (-1) (vec ![1]) (vec ![0]) (vec ![0]) = .ok pos' mom' mu i ∧ 0 < i := by
  refine ⟨vec ![0], vec ![1], vec ![1], 1, ?_, by decide⟩
  simp [solveNewton, exO, exT, newtonLoop, finish, innerProduct, deltaMu, sgn, ex_h1, ex_h2, vec_eq_iff]
  constructor
  · ext i; fin_cases i; simp
  · norm_num [Matrix.vecHead]

/-- non-vacuity of `line_search_post` with `max_line_search_iters = 0`: every inner search is
"exhausted", i.e. the `for … else` branch sets the position. -/
example : ∃ pos' mom' mu i, solveNewtonLineSearch exO exT 3 0 1 (vec ![1]) (vec ![0]) (vec ![0]) = .ok pos' mom' mu i ∧ 0 < i := by
  refine ⟨vec ![0], vec ![-1], vec ![1], 2, ?_, by decide⟩
  simp [solveNewtonLineSearch, exO, exT, lsLoop, lineSearch, finish, innerProduct, deltaMu, sgn, ex_h1, ex_h2]

/-- `InvCorrect` is satisfiable (a checking inverse oracle). -/
example : InvCorrect exO := by
  intro A X h
  simp only [exO] at h
  split_ifs at h with hc
  cases h
  exact hc



/-! ### what the `for … else` repair bought: the pre-repair inner loop is *not* consistent -/

/-- The inner loop as it was before the repair (no `else` branch): on exhaustion the position
is left where the last trial put it, i.e. at *twice* the returned step size. -/
def lineSearchUnfixed {K : Type*} [Field K] [LinearOrder K] {n c : Nat} (O : Oracles K n c) (error : K)
    (posCurr δ : Vec K n) : Nat → K → Vec K n → Except Fault (Vec K n × K)
  | 0, α, pos => .ok (pos, α)
  | k + 1, α, _ =>
    let pos := vec (posCurr.fn + α • δ.fn)
    match O.constr pos with
    | .error e => .error e
    | .ok cv =>
      if O.normC cv < error then .ok (pos, α) else lineSearchUnfixed O error posCurr δ k (α * (1 / 2)) pos

/-- Counterpart of `lineSearch_consistent` for the pre-repair loop: a concrete run
(`c(q) = q`, `pos_curr = 1`, `delta_pos = -4`, one trial) returns step size `½` with the position
at `1 + 1·(-4) = -3 ≠ 1 + ½·(-4)` — the multipliers would be updated with half the step the
position took.  (`reverts/C04-line-search-mu-pos.diff` re-introduces exactly this.) -/
theorem lineSearchUnfixed_inconsistent :
    ∃ (pos' : Vec ℚ 1) (α' : ℚ),
      lineSearchUnfixed exO 1 (vec ![1]) (vec ![-4]) 1 1 (vec ![1]) = .ok (pos', α') ∧
      pos'.fn ≠ (vec ![1] : Vec ℚ 1).fn + α' • (vec ![-4] : Vec ℚ 1).fn := by
  refine ⟨vec ![-3], 1 / 2, ?_, ?_⟩
  · have h : ¬ (|(1 : ℚ) + -4| < 1) := by norm_num [abs_lt]
    simp [lineSearchUnfixed, exO, h, vec_eq_iff]
    norm_num
  · intro h
    have := congrFun h 0
    simp at this
    norm_num at this

/-- … while the repaired loop on the same input is consistent (instance of
`lineSearch_consistent`): it returns the position `1 + ½·(-4) = -1`. -/
example : lineSearch exO 1 (vec ![1]) (vec ![-4]) 1 1 = .ok (vec ![-1], 1 / 2) := by
  have h : ¬ (|(1 : ℚ) + -4| < 1) := by norm_num [abs_lt]
  simp [lineSearch, exO, h, vec_eq_iff]
  norm_num

private def exInv (A : Mat ℚ 1 1) : Except Fault (Mat ℚ 1 1) :=
  if A.fn 0 0 = 1 then .ok A else .error .linAlgError

/-- the point `q = 0` in ℚ¹ (one constraint `c(q) = q`), identity metric, ℓ(q) = ½q² -/
private def exS : StepSys ℚ 1 1 where
  constr := fun q => .ok q
  jacob := fun _ => .ok (mat 1)
  flowD := fun _ a => .ok (mat (a • 1), mat 1)
  inv := exInv
  normC := fun v => |v.fn 0|
  normP := fun v => |v.fn 0|
  N := mat 1
  dh1 := fun q => .ok q
  h2flow := fun dt qp => .ok (vec (qp.1.fn + dt • qp.2.fn), qp.2)

private def exC : StepCfg ℚ := ⟨.newton, ⟨1/2, 1/2, 10⟩, 3, 0, 1/2⟩

private def isOk {K : Type} {n : Nat} : StepOutcome K n → Prop
  | .ok _ _ => True
  | .error _ => False

/-- hypotheses of `constrained_step_post` / `projectCot_post`: a checking inverse oracle … -/
example : InvCorrect exS.toOracles := by
  intro A X h
  simp only [exS, exInv] at h
  split_ifs at h with hc
  cases h
  ext i j
  fin_cases i; fin_cases j
  simp [Matrix.mul_apply, hc]

/-- … and a step that returns -/
example : isOk (step exS exC 1 1 (vec ![0]) (vec ![1])) := by
  simp [step, stepA, stepBLoop, retract, projectCot, solve, solveNewton, newtonLoop, finish, exS, exC, exInv,
    innerProduct, deltaMu, sgn, project, isOk, Except.map, show ¬ ((10 : ℚ) < 0) by norm_num,
    show ¬ ((2⁻¹ : ℚ) < 0) by norm_num]

end MiciVerif.C04
