/-
C15 — the interrupt path through the WORKER / QUEUE part of the parallel mode, read on the model's
state (`Model/SamplerParSem.lean`): the worker stores the interrupted chain's outputs, puts the
`KeyboardInterrupt` on the iteration queue and stops taking chains; the parent's loop over the
iteration queue stops at that item and records it; the workers' results are still collected and
collated.  The statement trees are regenerated from the tree under test on every run.
Transport of `C15.interrupt_prefix_stage_par` to the reading: `pool_interrupt_prefix_stage`.
Trusted conventions: header of `Model/SamplerParSem.lean`.
-/
import MiciVerif.Generated.SamplerSkeleton
import MiciVerif.Lemmas.SamplerParSemPass
import MiciVerif.Props.C15
import MiciVerif.Lemmas.SamplerAdapt

namespace MiciVerif.C15P
open MiciVerif.Skel MiciVerif.Skel.ParSem
open MiciVerif.Generated
open MiciVerif.Sampler MiciVerif.Stagers

/-- statements of `_sample_chains_worker` generated from the current source -/
def workerBody : List S := SamplerSkeleton.sampleChainsWorker.stmts

/-- statements of `_sample_chains_parallel` generated from the current source -/
def parentBody : List S := SamplerSkeleton.sampleChainsParallel.stmts

/-- the `if results is not None: …` statement as `parPlan?` finds it -/
def collateStmt : S := ((parPlan? parentBody).map (·.collate)).getD .skip

/-- The worker's interrupt branch generated from the current source comes after the output has been
appended and consists of `iter_queue.put(exception); break` (the whole loop body is the plan the model
was written against). -/
theorem sem_worker_interrupt_plan :
    (workerPlan? workerBody).map (fun acts => (acts.getLast?, acts.length)) =
      some (some (.ifInterrupted [.putInterrupt, .brk]), 4)
    ∧ workerPlan? workerBody = some workerPlanNow := by
  decide +kernel

/-- The parent's branch for a `KeyboardInterrupt` item generated from the current source is
`exception = iter_queue_item; break`; the workers' results are collated afterwards. -/
theorem sem_parent_interrupt_plan :
    (parPlan? parentBody).map (·.onInterrupt) = some [.recordException, .brk]
    ∧ parPlan? parentBody = some ⟨fillPlanNow, onInterruptNow, collateStmt⟩
    ∧ Sem.collatePlan? collateStmt = some [.restoreRng, .appendOutput] := by
  decide +kernel

section
variable {St V A P : Type}

/-- **The generated worker pass on an interrupted chain**: the chain's outputs (state after the last
completed transition, generator state of the copy, arrays as flushed) ARE stored, exactly one interrupt
item goes on the iteration queue, and the worker leaves its loop; on a chain that is not interrupted
nothing is put and the worker stays in its loop. -/
theorem sem_worker_reports_interrupt_and_stops (K : Kernel St V A P) (st : Stage) (offset : Nat)
    (intr : Option (Nat × Nat × Nat)) (c : Nat) (ch : Chain St V) (wk : Worker St V A P) :
    let r := sampleChain K st offset (chainIntr intr c) wk.params ch.state ch.rng ch.log ch.mem
    ((workerPlan? workerBody).bind fun acts => takePass acts K st offset intr c ch wk) =
      some (⟨r.ctx.params,
             wk.outs ++ [⟨⟨c, r.ctx.state, r.ctx.adapt, r.ctx.rng⟩, r.mem, r.ctx.log, r.halted⟩],
             wk.taken ++ [c], r.halted⟩,
            if r.halted then [Item.interrupt] else []) := by
  intro r
  rw [sem_worker_interrupt_plan.2]
  exact takePass_now K st offset intr c ch wk

/-- not vacuous: an interrupt point inside the chain's iterations makes the pass stop the worker -/
example (K : Kernel St V A P) (st : Stage) (c i0 j0 : Nat) (ch : Chain St V) (p : P)
    (hi : i0 < st.n) (hj : j0 < (opsOf K st).length) :
    ((workerPlan? workerBody).bind fun acts =>
        takePass acts K st 0 (some (c, i0, j0)) c ch ⟨p, [], [], false⟩).map
      (fun r => (r.1.stopped, r.2)) = some (true, [Item.interrupt]) := by
  rw [sem_worker_reports_interrupt_and_stops]
  have := (chainRes_intr_ctx K st 0 i0 j0 p ch hi hj).2
  unfold chainRes at this
  simp [chainIntr, this]

/-- **The generated parent loop**: reading the items of the iteration queue in order of arrival, the
parent ends with the interrupt recorded iff an interrupt item arrived, and it looks at nothing that
arrived after the first one. -/
theorem sem_parent_stops_at_interrupt_item (pre post : List Item)
    (hpre : pre.any (· == Item.interrupt) = false) :
    (parPlan? parentBody).map (fun plan => parentLoop plan.onInterrupt (pre ++ Item.interrupt :: post) ⟨false, false⟩) =
      some ⟨true, true⟩
    ∧ (parPlan? parentBody).map (fun plan => parentLoop plan.onInterrupt pre ⟨false, false⟩) =
      some ⟨false, false⟩ := by
  rw [sem_parent_interrupt_plan.2.1]
  simp only [Option.map_some, onInterruptNow, Option.some.injEq]
  induction pre with
  | nil => simp [parentLoop, runPIntr, parentLoop_broke]
  | cons it pre ih =>
    simp only [List.any_cons, Bool.or_eq_false_iff] at hpre
    cases it with
    | interrupt => simp at hpre
    | progress => simpa [parentLoop] using ih hpre.2
    | done => simpa [parentLoop] using ih hpre.2

example : ([Item.progress, Item.done, Item.progress] : List Item).any (· == Item.interrupt) = false := by
  decide

/-- the reading of the whole parallel function is the model's parallel stage (as `C14P.sem_pool_is_stagePar`) -/
theorem sem_pool_is_stagePar (K : Kernel St V A P) (st : Stage) (offset : Nat)
    (intr : Option (Nat × Nat × Nat)) (np : Nat) (σ : List Nat) (p : P) (chains : List (Chain St V)) :
    poolPass workerBody parentBody K st offset intr np σ p chains =
      some (stagePar K st offset intr true (poolSched K st offset intr np σ p chains) p chains) :=
  poolPass_eq workerBody parentBody collateStmt sem_worker_interrupt_plan.2 sem_parent_interrupt_plan.2.1
    sem_parent_interrupt_plan.2.2 K st offset intr np σ p chains

/-- **An interrupted worker takes no further chain**: under an interrupt point that lies inside the
iterations of chain `c0`, in the schedule that the reading produces chain `c0` is the last chain of the
worker that took it — for every number of workers and every `σ`. -/
theorem pool_interrupted_worker_takes_no_more (K : Kernel St V A P) (st : Stage) (offset c0 i0 j0 : Nat)
    (np : Nat) (σ : List Nat) (p : P) (chains : List (Chain St V))
    (hi : i0 < st.n) (hj : j0 < (opsOf K st).length) :
    LastOf (poolSched K st offset (some (c0, i0, j0)) np σ p chains) c0 := by
  apply poolSched_lastOf
  intro q ch _
  have := (chainRes_intr_ctx K st offset i0 j0 q ch hi hj).2
  unfold chainRes at this
  simpa [chainIntr] using this

/-- **interrupt_prefix, for the reading of the parallel stage.**  A `KeyboardInterrupt` raised inside
operation `j0` of iteration `i0` of chain `c0`, any number of workers, any schedule under which every
chain is eventually taken (the other workers drain the queue): the parent ends with the interrupt
recorded; every chain `c ≠ c0` has exactly the arrays and final state of the uninterrupted run; chain
`c0` has those of the interrupted chain run (`C15.interrupt_prefix_chain` describes them cell by cell).
(`AdaptLocal` as in C14.) -/
theorem pool_interrupt_prefix_stage (K : Kernel St V A P) (E : Kind → P → P → Prop) (hE : AdaptLocal K E)
    (st : Stage) (offset c0 i0 j0 : Nat) (np : Nat) (σ : List Nat) (p : P) (chains : List (Chain St V))
    (hd : poolDrained K st offset (some (c0, i0, j0)) np σ p chains = true)
    (hc0 : c0 < chains.length) (hi : i0 < st.n) (hj : j0 < (opsOf K st).length) :
    ∃ acc, poolPass workerBody parentBody K st offset (some (c0, i0, j0)) np σ p chains = some acc ∧
      acc.halted = true ∧
      ∀ c ch, chains[c]? = some ch →
        memOf acc.chains c = (chainRes K st offset (chainIntr (some (c0, i0, j0)) c) p ch).mem ∧
        (acc.outs[c]?).map (·.state) =
          some (chainRes K st offset (chainIntr (some (c0, i0, j0)) c) p ch).ctx.state :=
  ⟨_, sem_pool_is_stagePar K st offset _ np σ p chains,
    C15.interrupt_prefix_stage_par K E hE st offset c0 i0 j0 true _ p chains
      (poolSched_valid K st offset _ np σ p chains hd)
      (pool_interrupted_worker_takes_no_more K st offset c0 i0 j0 np σ p chains hi hj) hc0 hi hj⟩

end

open MiciVerif.SamplerCount in
/-- not vacuous: counting kernel, 3 chains, 2 workers, interrupt in chain 1 (iteration 1, operation 0);
pops by worker 0, 1, 1 (worker 1 has stopped: the pop is void), 0: the queue is drained, the schedule in
the model's format is `[[0, 2], [1]]`. -/
example :
    let K := kernel ⟨false, 0, 2, false, 0, false, false, 1⟩
    let chains := (initSys K (⟨5, 9⟩ : Par) [⟨0, 0, 0, 0, 0, 0⟩, ⟨1, 3, 0, 0, 0, 0⟩, ⟨2, 1, 0, 0, 0, 0⟩] 2).chains
    let st : Stage := ⟨2, .main, true, true⟩
    poolDrained K st 0 (some (1, 1, 0)) 2 [0, 1, 1, 0] ⟨5, 9⟩ chains = true
    ∧ poolSched K st 0 (some (1, 1, 0)) 2 [0, 1, 1, 0] ⟨5, 9⟩ chains = [[0, 2], [1]]
    ∧ poolDrained K st 0 (some (1, 1, 0)) 2 [1, 1, 1, 1] ⟨5, 9⟩ chains = false := by
  decide +kernel

open MiciVerif.SamplerCount in
/-- the hypotheses of `pool_interrupt_prefix_stage` hold together for that instance (the counting kernel
satisfies `AdaptLocal`) -/
example :
    let K := kernel ⟨false, 0, 2, false, 0, false, false, 1⟩
    let chains := (initSys K (⟨5, 9⟩ : Par) [⟨0, 0, 0, 0, 0, 0⟩, ⟨1, 3, 0, 0, 0, 0⟩, ⟨2, 1, 0, 0, 0, 0⟩] 2).chains
    let st : Stage := ⟨2, .main, true, true⟩
    AdaptLocal K (Ecount ⟨false, 0, 2, false, 0, false, false, 1⟩)
    ∧ poolDrained K st 0 (some (1, 1, 0)) 2 [0, 1, 1, 0] ⟨5, 9⟩ chains = true
    ∧ 1 < chains.length ∧ 1 < st.n ∧ 0 < (opsOf K st).length :=
  ⟨adaptLocal_count _, by decide +kernel, by decide +kernel, by decide, by decide +kernel⟩

/-- the parent that does not record the item (`exception = iter_queue_item` dropped, `break` kept) is
READ as not interrupted — not the model's flag -/
example : (parentLoop [.brk] [Item.progress, Item.interrupt] ⟨false, false⟩).halted = false := by
  decide

end MiciVerif.C15P
