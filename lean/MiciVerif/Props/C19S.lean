/-
C19 — tie of the value-semantics MACHINERY of `mici/matrices.py` and `mici.utils.hash_array` to their *source
text* (builder B10).  `Generated/MatrixEq.lean` (Props/C19) ties which FIELDS each class hashes / compares; this
module ties the code those tables rest on.

`Generated/MatrixValueSkeleton.lean` is regenerated from the tree under test on every run
(`tools/extractors/matrix_value_skeleton.py`).  The theorems below are re-checked by the kernel against the
regenerated trees and tables:

* `skel_value_understood`, `skel_…_eq_model`: nothing is outside the translated subset, the module-wide tables
  and every translated function equal the expected ones (`Skel.VExpected.*`, annotated in
  `Model/MatrixValueSkeleton.lean` with the definition of `Model/MatricesCache.lean` / the field of
  `Model/MatricesEqTable.lean` each function justifies);
* the other `skel_…` theorems re-derive, by queries on the generated trees only, the individual facts the cache
  model and the equality table rely on (they localise a change: see the name of the broken one);
* `sem_…`: readings (`Skel.VSem`) of the generated bodies — every lazy-cache property IS the access operation of
  the cache model (compute once, then reuse; parameters never written; value a function of the parameters), the
  `eigval` / `eigvec` pair is filled together and stable afterwards, `__getstate__` drops exactly the memoised
  hash, `hash_array` digests a function of the array VALUES for real dtypes (as `np.array_equal` compares them).
-/
import MiciVerif.Generated.MatrixValueSkeleton
import MiciVerif.Model.MatrixValueSkeleton
import MiciVerif.Model.TransitionSkeleton
import MiciVerif.Lemmas.MatrixValueSkeleton

namespace MiciVerif.C19S
open MiciVerif.Skel
open MiciVerif.Generated
open MiciVerif.MatricesCache

/-! ### the generated trees and tables are the expected ones -/

/-- all translated functions -/
def allFunctions : List S :=
  [MatrixValueSkeleton.hashArray, MatrixValueSkeleton.makeArrayTriangular, MatrixValueSkeleton.matrixInit,
   MatrixValueSkeleton.matrixTranspose, MatrixValueSkeleton.matrixHash, MatrixValueSkeleton.matrixGetstate,
   MatrixValueSkeleton.matrixEq, MatrixValueSkeleton.explicitInit, MatrixValueSkeleton.explicitArray,
   MatrixValueSkeleton.explicitComputeHash, MatrixValueSkeleton.explicitCheckEquality,
   MatrixValueSkeleton.implicitInit, MatrixValueSkeleton.implicitArray, MatrixValueSkeleton.invertibleInit,
   MatrixValueSkeleton.invertibleInv, MatrixValueSkeleton.symmetricInit, MatrixValueSkeleton.symmetricComputeEig,
   MatrixValueSkeleton.symmetricEigval, MatrixValueSkeleton.symmetricEigvec,
   MatrixValueSkeleton.symmetricConstructTranspose, MatrixValueSkeleton.posdefInit, MatrixValueSkeleton.posdefSqrt,
   MatrixValueSkeleton.denseDefiniteInit, MatrixValueSkeleton.denseDefiniteFactor,
   MatrixValueSkeleton.denseSquareInit, MatrixValueSkeleton.denseSquareLuAndPiv,
   MatrixValueSkeleton.denseSquareConstructTranspose, MatrixValueSkeleton.denseSquareConstructInv,
   MatrixValueSkeleton.inverseLUInit, MatrixValueSkeleton.denseSymmetricInit,
   MatrixValueSkeleton.eigendecomposedInit, MatrixValueSkeleton.softabsInit, MatrixValueSkeleton.triangularInit,
   MatrixValueSkeleton.triangularConstructInv, MatrixValueSkeleton.triangularConstructTranspose,
   MatrixValueSkeleton.inverseTriangularInit, MatrixValueSkeleton.inverseTriangularConstructInv,
   MatrixValueSkeleton.inverseTriangularConstructTranspose, MatrixValueSkeleton.squareLowRankCapacitance,
   MatrixValueSkeleton.squareLowRankConstructTranspose, MatrixValueSkeleton.squareLowRankConstructInv,
   MatrixValueSkeleton.symmetricLowRankCapacitance, MatrixValueSkeleton.posdefLowRankCapacitance]

/-- Nothing in the 43 translated functions is outside the translated subset; the dropped statements are the four
listed message texts; and the module-wide tables are the expected ones: every definition of a lazy property, of
`T`, `__hash__`, `__eq__`, of a pickling / copy / attribute hook or `__slots__` in ANY class of matrices.py
(`lazyDefs`: a new override of `inv`, an added `__setstate__`, `__reduce__`, `__deepcopy__` … is seen), the
members of `class Matrix`, and the `self._x = None` stores of the constructors (the cache slots). -/
theorem skel_value_understood :
    (allFunctions.all S.known = true)
    ∧ MatrixValueSkeleton.dropped = VExpected.dropped
    ∧ MatrixValueSkeleton.lazyDefs = VExpected.lazyDefs
    ∧ MatrixValueSkeleton.matrixMembers = VExpected.matrixMembers
    ∧ MatrixValueSkeleton.noneStores = VExpected.noneStores := by
  decide +kernel

/-- `utils.hash_array` and the hash / equality of explicit-array matrices. -/
theorem skel_hash_array_eq_model :
    MatrixValueSkeleton.hashArraySig = VExpected.hashArraySig
    ∧ MatrixValueSkeleton.hashArray = VExpected.hashArray
    ∧ MatrixValueSkeleton.explicitComputeHashSig = VExpected.explicitComputeHashSig
    ∧ MatrixValueSkeleton.explicitComputeHash = VExpected.explicitComputeHash
    ∧ MatrixValueSkeleton.explicitCheckEqualitySig = VExpected.explicitCheckEqualitySig
    ∧ MatrixValueSkeleton.explicitCheckEquality = VExpected.explicitCheckEquality := by
  decide +kernel

/-- The base class: `Matrix.__init__`, `transpose`, `__hash__`, `__getstate__`, `__eq__`. -/
theorem skel_matrix_base_eq_model :
    MatrixValueSkeleton.matrixInitSig = VExpected.matrixInitSig
    ∧ MatrixValueSkeleton.matrixInit = VExpected.matrixInit
    ∧ MatrixValueSkeleton.matrixTransposeSig = VExpected.matrixTransposeSig
    ∧ MatrixValueSkeleton.matrixTranspose = VExpected.matrixTranspose
    ∧ MatrixValueSkeleton.matrixHashSig = VExpected.matrixHashSig
    ∧ MatrixValueSkeleton.matrixHash = VExpected.matrixHash
    ∧ MatrixValueSkeleton.matrixGetstateSig = VExpected.matrixGetstateSig
    ∧ MatrixValueSkeleton.matrixGetstate = VExpected.matrixGetstate
    ∧ MatrixValueSkeleton.matrixEqSig = VExpected.matrixEqSig
    ∧ MatrixValueSkeleton.matrixEq = VExpected.matrixEq := by
  decide +kernel

/-- The lazy-cache properties: `array` (explicit and implicit), `inv`, `sqrt`, `eigval`, `eigvec`,
`_compute_eigendecomposition`, `lu_and_piv`, `factor`, the three `capacitance_matrix`. -/
theorem skel_lazy_properties_eq_model :
    MatrixValueSkeleton.explicitArraySig = VExpected.explicitArraySig
    ∧ MatrixValueSkeleton.explicitArray = VExpected.explicitArray
    ∧ MatrixValueSkeleton.implicitArraySig = VExpected.implicitArraySig
    ∧ MatrixValueSkeleton.implicitArray = VExpected.implicitArray
    ∧ MatrixValueSkeleton.invertibleInvSig = VExpected.invertibleInvSig
    ∧ MatrixValueSkeleton.invertibleInv = VExpected.invertibleInv
    ∧ MatrixValueSkeleton.posdefSqrtSig = VExpected.posdefSqrtSig
    ∧ MatrixValueSkeleton.posdefSqrt = VExpected.posdefSqrt
    ∧ MatrixValueSkeleton.symmetricComputeEigSig = VExpected.symmetricComputeEigSig
    ∧ MatrixValueSkeleton.symmetricComputeEig = VExpected.symmetricComputeEig
    ∧ MatrixValueSkeleton.symmetricEigvalSig = VExpected.symmetricEigvalSig
    ∧ MatrixValueSkeleton.symmetricEigval = VExpected.symmetricEigval
    ∧ MatrixValueSkeleton.symmetricEigvecSig = VExpected.symmetricEigvecSig
    ∧ MatrixValueSkeleton.symmetricEigvec = VExpected.symmetricEigvec
    ∧ MatrixValueSkeleton.denseSquareLuAndPivSig = VExpected.denseSquareLuAndPivSig
    ∧ MatrixValueSkeleton.denseSquareLuAndPiv = VExpected.denseSquareLuAndPiv
    ∧ MatrixValueSkeleton.denseDefiniteFactorSig = VExpected.denseDefiniteFactorSig
    ∧ MatrixValueSkeleton.denseDefiniteFactor = VExpected.denseDefiniteFactor
    ∧ MatrixValueSkeleton.squareLowRankCapacitanceSig = VExpected.squareLowRankCapacitanceSig
    ∧ MatrixValueSkeleton.squareLowRankCapacitance = VExpected.squareLowRankCapacitance
    ∧ MatrixValueSkeleton.symmetricLowRankCapacitanceSig = VExpected.symmetricLowRankCapacitanceSig
    ∧ MatrixValueSkeleton.symmetricLowRankCapacitance = VExpected.symmetricLowRankCapacitance
    ∧ MatrixValueSkeleton.posdefLowRankCapacitanceSig = VExpected.posdefLowRankCapacitanceSig
    ∧ MatrixValueSkeleton.posdefLowRankCapacitance = VExpected.posdefLowRankCapacitance := by
  decide +kernel

/-- The constructors that initialise cache slots or freeze caller arrays. -/
theorem skel_constructors_eq_model :
    MatrixValueSkeleton.explicitInitSig = VExpected.explicitInitSig
    ∧ MatrixValueSkeleton.explicitInit = VExpected.explicitInit
    ∧ MatrixValueSkeleton.implicitInitSig = VExpected.implicitInitSig
    ∧ MatrixValueSkeleton.implicitInit = VExpected.implicitInit
    ∧ MatrixValueSkeleton.invertibleInitSig = VExpected.invertibleInitSig
    ∧ MatrixValueSkeleton.invertibleInit = VExpected.invertibleInit
    ∧ MatrixValueSkeleton.symmetricInitSig = VExpected.symmetricInitSig
    ∧ MatrixValueSkeleton.symmetricInit = VExpected.symmetricInit
    ∧ MatrixValueSkeleton.posdefInitSig = VExpected.posdefInitSig
    ∧ MatrixValueSkeleton.posdefInit = VExpected.posdefInit
    ∧ MatrixValueSkeleton.denseDefiniteInitSig = VExpected.denseDefiniteInitSig
    ∧ MatrixValueSkeleton.denseDefiniteInit = VExpected.denseDefiniteInit
    ∧ MatrixValueSkeleton.denseSquareInitSig = VExpected.denseSquareInitSig
    ∧ MatrixValueSkeleton.denseSquareInit = VExpected.denseSquareInit
    ∧ MatrixValueSkeleton.inverseLUInitSig = VExpected.inverseLUInitSig
    ∧ MatrixValueSkeleton.inverseLUInit = VExpected.inverseLUInit
    ∧ MatrixValueSkeleton.denseSymmetricInitSig = VExpected.denseSymmetricInitSig
    ∧ MatrixValueSkeleton.denseSymmetricInit = VExpected.denseSymmetricInit
    ∧ MatrixValueSkeleton.eigendecomposedInitSig = VExpected.eigendecomposedInitSig
    ∧ MatrixValueSkeleton.eigendecomposedInit = VExpected.eigendecomposedInit
    ∧ MatrixValueSkeleton.softabsInitSig = VExpected.softabsInitSig
    ∧ MatrixValueSkeleton.softabsInit = VExpected.softabsInit := by
  decide +kernel

/-- Triangular masking and the `_construct_transpose` / `_construct_inv` methods that hand cached or parameter
data to a new object. -/
theorem skel_construct_methods_eq_model :
    MatrixValueSkeleton.makeArrayTriangularSig = VExpected.makeArrayTriangularSig
    ∧ MatrixValueSkeleton.makeArrayTriangular = VExpected.makeArrayTriangular
    ∧ MatrixValueSkeleton.triangularInitSig = VExpected.triangularInitSig
    ∧ MatrixValueSkeleton.triangularInit = VExpected.triangularInit
    ∧ MatrixValueSkeleton.triangularConstructInv = VExpected.triangularConstructInv
    ∧ MatrixValueSkeleton.triangularConstructTranspose = VExpected.triangularConstructTranspose
    ∧ MatrixValueSkeleton.inverseTriangularInitSig = VExpected.inverseTriangularInitSig
    ∧ MatrixValueSkeleton.inverseTriangularInit = VExpected.inverseTriangularInit
    ∧ MatrixValueSkeleton.inverseTriangularConstructInv = VExpected.inverseTriangularConstructInv
    ∧ MatrixValueSkeleton.inverseTriangularConstructTranspose = VExpected.inverseTriangularConstructTranspose
    ∧ MatrixValueSkeleton.symmetricConstructTranspose = VExpected.symmetricConstructTranspose
    ∧ MatrixValueSkeleton.denseSquareConstructTranspose = VExpected.denseSquareConstructTranspose
    ∧ MatrixValueSkeleton.denseSquareConstructInv = VExpected.denseSquareConstructInv
    ∧ MatrixValueSkeleton.squareLowRankConstructTranspose = VExpected.squareLowRankConstructTranspose
    ∧ MatrixValueSkeleton.squareLowRankConstructInv = VExpected.squareLowRankConstructInv := by
  decide +kernel

/-! ### individual facts about hashing, equality and pickling -/

/-- `array.dtype` -/
abbrev dtype : E := .v "array.dtype"
/-- `float("0.0")`: the literal `0.0` -/
abbrev zeroLit : E := .call "float" (E.l [.s "0.0"])
/-- `x is None` -/
def isNone (x : String) : E := .op "is" (E.l [.v x, .none])

/-- FIRST statement of `hash_array`: an array whose dtype is not float64 and is an integer, floating or bool
dtype is replaced by its float64 cast — so arrays that `np.array_equal` irrespective of dtype hash equal
(EqT `hashByValue`; revert C19-hash-dtype removes exactly this). -/
theorem skel_hash_normalises_real_dtypes :
    MatrixValueSkeleton.hashArray.stmts.head? =
      some (.ifc (.op "and" (E.l [.op "!=" (E.l [dtype, .v "np.float64"]),
          .op "or" (E.l [.call "np.issubdtype" (E.l [dtype, .v "np.integer"]),
                         .call "np.issubdtype" (E.l [dtype, .v "np.floating"]),
                         .op "==" (E.l [dtype, .v "np.bool_"])])]))
        (S.b [.assign (.v "array") (.call "array.astype" (E.l [.v "np.float64"]))]) (S.b [])) := by
  decide +kernel

/-- SECOND statement: a float64 array (after the cast: every real array) is replaced by `array + 0.0`, which maps
`-0.0` to `+0.0` — the two compare equal — and is a NEW array (the operand is not written) (revert
C19-hash-signed-zero removes exactly this). -/
theorem skel_hash_maps_negative_zero :
    MatrixValueSkeleton.hashArray.stmts[1]? =
      some (.ifc (.op "==" (E.l [dtype, .v "np.float64"]))
        (S.b [.assign (.v "array") (.op "+" (E.l [.v "array", zeroLit]))]) (S.b []))
    ∧ MatrixValueSkeleton.hashArray.valuesOf (.v "array") =
      [.call "array.astype" (E.l [.v "np.float64"]), .op "+" (E.l [.v "array", zeroLit])]
    ∧ (MatrixValueSkeleton.hashArray.all.filter fun
        | .aug _ _ _ => true
        | .assign (.sub _ _) _ => true
        | _ => false) = [] := by
  decide +kernel

/-- What is digested is read from the (normalised) local `array` only, AFTER both normalisations: the bytes, and
with xxhash also dtype / shape / strides of that same array; the two `return`s are the two digests. -/
theorem skel_hash_digests_only_normalised_array :
    MatrixValueSkeleton.hashArray.stmts.length = 4
    ∧ MatrixValueSkeleton.hashArray.stmts[2]? = some VSem.xxBlock
    ∧ MatrixValueSkeleton.hashArray.returns =
      [.call "h.intdigest" (E.l []), .call "hash" (E.l [.call "array.tobytes" (E.l [])])]
    ∧ MatrixValueSkeleton.hashArraySig = E.l [.v "array"]
    ∧ MatrixValueSkeleton.explicitComputeHash.stmts = [.ret (.call "hash_array" (E.l [.v "self._array"]))] := by
  decide +kernel

/-- `__hash__` computes `_compute_hash()` only when `_hash` is `None`, stores it, and returns the stored value;
`_hash` starts as `None`; `__getstate__` copies `__dict__`, sets `state["_hash"] = None` — and nothing else — and
returns the copy; no class defines `__setstate__` / `__reduce__` / `__copy__` / `__deepcopy__` (revert
C19-pickled-memoised-hash removes `__getstate__`). -/
theorem skel_hash_memoised_not_pickled :
    MatrixValueSkeleton.matrixHash.stmts =
      [.ifc (isNone "self._hash") (S.b [.assign (.v "self._hash") (.call "self._compute_hash" (E.l []))]) (S.b []),
       .ret (.v "self._hash")]
    ∧ MatrixValueSkeleton.matrixInit.valuesOf (.v "self._hash") = [.none]
    ∧ MatrixValueSkeleton.matrixGetstate.stmts =
      [.assign (.v "state") (.call "self.__dict__.copy" (E.l [])),
       .assign (.sub (.v "state") (.s "_hash")) .none,
       .ret (.v "state")]
    ∧ (MatrixValueSkeleton.lazyDefs.filter fun d =>
        ["def __getstate__", "def __setstate__", "def __reduce__", "def __reduce_ex__", "def __copy__",
         "def __deepcopy__", "def __hash__"].contains d.2) =
      [("Matrix", "def __hash__"), ("Matrix", "def __getstate__")] := by
  decide +kernel

/-- `__eq__` is identity, or SAME CLASS and then the per-class `_check_equality(other)` — in that order (`and`
short-circuits: `_check_equality` never sees an object of another class) — and only `Matrix` defines `__eq__`;
explicit-array matrices compare their arrays with `np.array_equal`. -/
theorem skel_eq_requires_same_class_then_fields :
    MatrixValueSkeleton.matrixEq.stmts =
      [.ret (.op "or" (E.l [.op "is" (E.l [.v "other", .v "self"]),
        .op "and" (E.l [.op "==" (E.l [.v "other.__class__", .v "self.__class__"]),
                        .call "self._check_equality" (E.l [.v "other"])])]))]
    ∧ (MatrixValueSkeleton.lazyDefs.filter fun d => d.2 = "def __eq__" || d.2 = "def __ne__") = [("Matrix", "def __eq__")]
    ∧ MatrixValueSkeleton.explicitCheckEquality.stmts =
      [.ret (.call "np.array_equal" (E.l [.v "self.array", .v "other.array"]))] := by
  decide +kernel

/-! ### individual facts about the lazy caches -/

/-- the lazy-cache properties with their slot attribute -/
def lazyProperties : List (String × String × S) :=
  [("transpose", "self._transpose", MatrixValueSkeleton.matrixTranspose),
   ("__hash__", "self._hash", MatrixValueSkeleton.matrixHash),
   ("array", "self._array", MatrixValueSkeleton.implicitArray),
   ("inv", "self._inv", MatrixValueSkeleton.invertibleInv),
   ("sqrt", "self._sqrt", MatrixValueSkeleton.posdefSqrt),
   ("lu_and_piv", "self._lu_and_piv", MatrixValueSkeleton.denseSquareLuAndPiv),
   ("factor", "self._factor", MatrixValueSkeleton.denseDefiniteFactor),
   ("capacitance_matrix", "self._capacitance_matrix", MatrixValueSkeleton.squareLowRankCapacitance),
   ("capacitance_matrix (symmetric)", "self._capacitance_matrix", MatrixValueSkeleton.symmetricLowRankCapacitance),
   ("capacitance_matrix (pos. def.)", "self._capacitance_matrix", MatrixValueSkeleton.posdefLowRankCapacitance)]

/-- **Every lazy property computes once, then reuses**: each of the ten bodies has exactly the shape
`if self._k is None: self._k = <construct>; <freeze / constant aux stores>` + `return self._k`
(`VSem.lazyShape?`) — the construct expression is evaluated only when the slot is empty, what is returned is
the slot itself — with these construct expressions, freeze flags, `try` guards and aux stores. -/
theorem skel_lazy_property_computes_once :
    (lazyProperties.map fun p => (p.1, (VSem.lazyShape? p.2.1 p.2.2.stmts).map fun sh =>
        (sh.frozen, sh.guarded, sh.aux))) =
      [("transpose", some (false, false, [])), ("__hash__", some (false, false, [])),
       ("array", some (true, false, [])), ("inv", some (false, false, [])), ("sqrt", some (false, false, [])),
       ("lu_and_piv", some (true, false, ["self._lu_transposed"])), ("factor", some (false, true, [])),
       ("capacitance_matrix", some (false, false, [])), ("capacitance_matrix (symmetric)", some (false, false, [])),
       ("capacitance_matrix (pos. def.)", some (false, false, []))]
    ∧ (lazyProperties.take 5).map (fun p => (VSem.lazyShape? p.2.1 p.2.2.stmts).map fun sh => sh.construct) =
      [some (.call "self._construct_transpose" (E.l [])), some (.call "self._compute_hash" (E.l [])),
       some (.call "self._construct_array" (E.l [])), some (.call "self._construct_inv" (E.l [])),
       some (.call "self._construct_sqrt" (E.l []))]
    ∧ [MatrixValueSkeleton.matrixTransposeSig, MatrixValueSkeleton.implicitArraySig, MatrixValueSkeleton.invertibleInvSig,
       MatrixValueSkeleton.posdefSqrtSig, MatrixValueSkeleton.denseSquareLuAndPivSig,
       MatrixValueSkeleton.denseDefiniteFactorSig, MatrixValueSkeleton.squareLowRankCapacitanceSig,
       MatrixValueSkeleton.symmetricEigvalSig, MatrixValueSkeleton.symmetricEigvecSig].all
        (fun s => s = E.l [.v "self", .kw "@" (.v "property")]) = true
    ∧ (MatrixValueSkeleton.matrixMembers.filter fun m => m = "stmt T = transpose" || m = "@property def transpose") =
      ["@property def transpose", "stmt T = transpose"] := by
  decide +kernel

/-- All cache slots start empty: `_hash`, `_transpose` (`Matrix`), `_array` (implicit), `_inv`, `_eigval`,
`_eigvec`, `_sqrt` are stored as `None` by the constructor of the class that owns the property — `_eigval` /
`_eigvec` / `_sqrt` BEFORE `super().__init__(shape, **kwargs)`, `_array` / `_inv` after it (model: `fresh p`). -/
theorem skel_cache_slots_start_empty :
    MatrixValueSkeleton.noneStores =
      [("Matrix", "_hash"), ("Matrix", "_transpose"), ("ImplicitArrayMatrix", "_array"), ("InvertibleMatrix", "_inv"),
       ("SymmetricMatrix", "_eigval"), ("SymmetricMatrix", "_eigvec"), ("PositiveDefiniteMatrix", "_sqrt")]
    ∧ MatrixValueSkeleton.symmetricInit.stmts.take 2 = [.assign (.v "self._eigval") .none, .assign (.v "self._eigvec") .none]
    ∧ MatrixValueSkeleton.posdefInit.stmts.head? = some (.assign (.v "self._sqrt") .none)
    ∧ MatrixValueSkeleton.implicitInit.stmts.getLast? = some (.assign (.v "self._array") .none)
    ∧ MatrixValueSkeleton.invertibleInit.stmts.getLast? = some (.assign (.v "self._inv") .none) := by
  decide +kernel

/-- the guard `self._eigval is None or self._eigvec is None` -/
def eigGuard : E := .op "or" (E.l [isNone "self._eigval", isNone "self._eigvec"])

/-- **`eigval` and `eigvec` are computed together**: both properties recompute iff `_eigval is None OR _eigvec is
None` (so a half-filled pair — a precomputed `eigvec` without `eigval`, or the reverse — is never mixed with a
fresh decomposition), and `_compute_eigendecomposition` stores BOTH slots from one `nla.eigh(self.array)` call
(seeded C19-1 weakened exactly these guards to the property's own slot). -/
theorem skel_eigval_eigvec_computed_together :
    MatrixValueSkeleton.symmetricEigval.stmts =
      [.ifc eigGuard (S.b [.expr (.call "self._compute_eigendecomposition" (E.l []))]) (S.b []), .ret (.v "self._eigval")]
    ∧ MatrixValueSkeleton.symmetricEigvec.stmts =
      [.ifc eigGuard (S.b [.expr (.call "self._compute_eigendecomposition" (E.l []))]) (S.b []), .ret (.v "self._eigvec")]
    ∧ MatrixValueSkeleton.symmetricComputeEig.stmts =
      [.assign (.tup (E.l [.v "self._eigval", .v "eigvec"])) (.call "nla.eigh" (E.l [.v "self.array"])),
       .assign (.v "self._eigval.flags.writeable") (.v "False"),
       .assign (.v "self._eigvec") (.call "OrthogonalMatrix" (E.l [.v "eigvec"]))]
    ∧ (MatrixValueSkeleton.lazyDefs.filter fun d => d.2 = "def _compute_eigendecomposition") =
      [("SymmetricMatrix", "def _compute_eigendecomposition")] := by
  decide +kernel

/-- Cached ARRAYS are read-only before anyone can see them: the dense `array` of implicit matrices, both LU factor
arrays and the eigenvalue array are frozen inside the `if`, right after the store and before `return` (revert
C19-writable-cached-arrays removes these statements). -/
theorem skel_cached_arrays_frozen :
    ((VSem.lazyShape? "self._array" MatrixValueSkeleton.implicitArray.stmts).map fun sh => sh.frozen) = some true
    ∧ ((VSem.lazyShape? "self._lu_and_piv" MatrixValueSkeleton.denseSquareLuAndPiv.stmts).map fun sh => sh.frozen) = some true
    ∧ MatrixValueSkeleton.symmetricComputeEig.stmts[1]? = some (.assign (.v "self._eigval.flags.writeable") (.v "False"))
    ∧ (MatrixValueSkeleton.freezeSites.filter fun s =>
        ["ImplicitArrayMatrix.array", "SymmetricMatrix._compute_eigendecomposition", "DenseSquareMatrix.lu_and_piv"].contains s.1) =
      [("ImplicitArrayMatrix.array", "", "self._array.flags.writeable = False"),
       ("SymmetricMatrix._compute_eigendecomposition", "", "self._eigval.flags.writeable = False"),
       ("DenseSquareMatrix.lu_and_piv", "for array in self._lu_and_piv", "array.flags.writeable = False")] := by
  decide +kernel

/-- PARAMETER arrays are read-only from construction: `Matrix.__init__` sets every `np.ndarray` passed through
`**kwargs` read-only BEFORE storing it in `__dict__`; the constructors that store arrays outside kwargs freeze them
explicitly — precomputed LU factors (`DenseSquareMatrix`), all three arrays of `InverseLUFactoredSquareMatrix`, a
precomputed `eigval` (`DenseSymmetricMatrix`, `EigendecomposedSymmetricMatrix`), `unreg_eigval` (SoftAbs) — each
before the attribute is stored; and these are ALL the freeze sites of the module (reverts
C19-writable-precomputed-factors / -cached-arrays remove some of them). -/
theorem skel_parameter_arrays_frozen :
    (MatrixValueSkeleton.matrixInit.all.filterMap fun
        | .loop t i b => some (t, i, b.stmts)
        | _ => Option.none) =
      [(.tup (E.l [.v "k", .v "v"]), .call "kwargs.items" (E.l []),
        [.ifc (.call "isinstance" (E.l [.v "v", .v "np.ndarray"]))
           (S.b [.assign (.v "v.flags.writeable") (.v "False")]) (S.b []),
         .assign (.sub (.v "self.__dict__") (.v "k")) (.v "v")])]
    ∧ MatrixValueSkeleton.freezeSites = VExpected.freezeSites
    ∧ idx (fun s => s.usesDeep "factor_array.flags.writeable") MatrixValueSkeleton.denseSquareInit.stmts = some 1
    ∧ idx (fun s => s = .assign (.v "self._lu_and_piv") (.v "lu_and_piv")) MatrixValueSkeleton.denseSquareInit.stmts = some 2
    ∧ idx (fun s => s.usesDeep "array.flags.writeable") MatrixValueSkeleton.inverseLUInit.stmts = some 1
    ∧ (MatrixValueSkeleton.inverseLUInit.all.filterMap fun
        | .loop _ i _ => some i
        | _ => Option.none) = [.tup (E.l [.v "inv_array", .star (.v "inv_lu_and_piv")])]
    ∧ idx (fun s => s.usesDeep "eigval.flags.writeable") MatrixValueSkeleton.denseSymmetricInit.stmts = some 3
    ∧ idx (fun s => s = .assign (.v "self._eigval") (.v "eigval")) MatrixValueSkeleton.denseSymmetricInit.stmts = some 4
    ∧ (MatrixValueSkeleton.explicitInit.stmts.getLast? =
        some (.expr (.meth (.call "super" (E.l [])) "__init__" (E.l [.v "shape", .kwstar (.v "kwargs")])))) := by
  decide +kernel

/-- `_make_array_triangular` returns `np.tril(array)` / `np.triu(array)` — NEW arrays; it contains no store into
its argument; the two triangular constructors rebind their LOCAL name to that copy (or keep the given array when
`make_triangular=False`) and hand it to `Matrix.__init__` through kwargs (frozen there); no other function of the
module zeroes a triangle in place (seeded C19-3 made the helper write into the caller's array). -/
theorem skel_make_triangular_copies :
    MatrixValueSkeleton.makeArrayTriangular.stmts =
      [.ret (.ite (.v "lower") (.call "np.tril" (E.l [.v "array"])) (.call "np.triu" (E.l [.v "array"])))]
    ∧ MatrixValueSkeleton.makeArrayTriangularSig = E.l [.v "array", .s "*", .v "lower"]
    ∧ (MatrixValueSkeleton.triangularCalls.filter fun c => c.2.startsWith "IN-PLACE") = []
    ∧ (MatrixValueSkeleton.triangularCalls.filter fun c => c.1 = "_make_array_triangular" || c.1.endsWith ".__init__") =
      [("_make_array_triangular", "np.tril(array)"), ("_make_array_triangular", "np.triu(array)"),
       ("TriangularMatrix.__init__", "_make_array_triangular(array, lower=lower)"),
       ("InverseTriangularMatrix.__init__", "_make_array_triangular(inverse_array, lower=lower)")]
    ∧ MatrixValueSkeleton.triangularInit.stmts.take 2 =
      [.assign (.v "array") (.ite (.v "make_triangular")
          (.call "_make_array_triangular" (E.l [.v "array", .kw "lower" (.v "lower")])) (.v "array")),
       .expr (.meth (.call "super" (E.l [])) "__init__" (E.l [.v "array.shape", .kw "_array" (.v "array")]))]
    ∧ MatrixValueSkeleton.inverseTriangularInit.valuesOf (.v "inverse_array") =
      [.call "np.asarray_chkfinite" (E.l [.v "inverse_array"]),
       .ite (.v "make_triangular")
          (.call "_make_array_triangular" (E.l [.v "inverse_array", .kw "lower" (.v "lower")])) (.v "inverse_array")] := by
  decide +kernel

/-- Objects derived from a triangular matrix share its (frozen) array and are NOT masked again
(`make_triangular=False`), with `lower` kept by `inv` and flipped by the transpose. -/
theorem skel_shared_factors_not_remasked :
    MatrixValueSkeleton.triangularConstructInv.returns =
      [.call "InverseTriangularMatrix" (E.l [.v "self.array", .kw "lower" (.v "self.lower"), .kw "make_triangular" (.v "False")])]
    ∧ MatrixValueSkeleton.triangularConstructTranspose.returns =
      [.call "TriangularMatrix" (E.l [.v "self.array.T", .kw "lower" (.op "not" (E.l [.v "self.lower"])), .kw "make_triangular" (.v "False")])]
    ∧ MatrixValueSkeleton.inverseTriangularConstructInv.returns =
      [.call "TriangularMatrix" (E.l [.v "self._inverse_array", .kw "lower" (.v "self.lower"), .kw "make_triangular" (.v "False")])]
    ∧ MatrixValueSkeleton.inverseTriangularConstructTranspose.returns =
      [.call "InverseTriangularMatrix" (E.l [.v "self._inverse_array.T", .kw "lower" (.op "not" (E.l [.v "self.lower"])), .kw "make_triangular" (.v "False")])] := by
  decide +kernel

/-- The transpose of a symmetric matrix is the object itself; the transpose / inverse of a dense square matrix
read `lu_and_piv` FIRST (filling that slot) and share the frozen factors; the transpose of a low-rank update
hands a memoised capacitance matrix over TRANSPOSED and an empty slot as `None` (seeded C19-2 passed it
untransposed); its inverse reads `capacitance_matrix` (filling the slot). -/
theorem skel_transpose_and_inverse_share_cached_data :
    MatrixValueSkeleton.symmetricConstructTranspose.stmts = [.ret (.v "self")]
    ∧ MatrixValueSkeleton.denseSquareConstructTranspose.stmts =
      [.assign (.v "lu_and_piv") (.v "self.lu_and_piv"),
       .ret (.call "DenseSquareMatrix" (E.l [.v "self._array.T", .v "lu_and_piv", .op "not" (E.l [.v "self._lu_transposed"])]))]
    ∧ MatrixValueSkeleton.denseSquareConstructInv.stmts.head? = some (.assign (.v "lu_and_piv") (.v "self.lu_and_piv"))
    ∧ (MatrixValueSkeleton.squareLowRankConstructTranspose.returns.map fun r =>
        (r.items.head?, match r with | .meth _ _ a => a.items[4]? | _ => Option.none)) =
      [(Option.none, some (.ite (.op "is not" (E.l [.v "self._capacitance_matrix", .none]))
          (.v "self._capacitance_matrix.T") .none))]
    ∧ (MatrixValueSkeleton.squareLowRankConstructInv.returns.map fun r =>
        match r with | .meth _ _ a => a.items[3]? | _ => Option.none) = [some (.v "self.capacitance_matrix.inv")] := by
  decide +kernel

/-! ### the generated bodies, read on the cache model -/

section Semantics
variable {P K V : Type} [DecidableEq K]

/-- Each of the ten lazy-property bodies generated from the current source has the lazy shape. -/
theorem sem_lazy_shapes :
    (lazyProperties.all fun p => (VSem.lazyShape? p.2.1 p.2.2.stmts).isSome) = true := by
  decide +kernel

private theorem shape_of {a : String} {b : List S} (h : (VSem.lazyShape? a b).isSome = true) :
    ∃ sh, VSem.lazyShape? a b = some sh := Option.isSome_iff_exists.mp h

/-- **Semantic tie of the lazy caches.**  For each lazy property `(name, slot attribute, body)` of the current
source, the body read on the cache model (`Skel.VSem.lazyPass`: the `if` tests the slot; the store puts `f k p`
there after the slots `deps k` the construct expression reads have been filled; freeze / aux statements change no
value; `return` reads the slot) is `VSem.lazyAccess f deps k` — for every value function `f`, dependency map,
slot and object. -/
theorem sem_lazy_property_is_lazyAccess (i : Fin 10) (f : K → P → V) (deps : K → List K) (k : K) (o : Obj P K V) :
    VSem.lazyPass (lazyProperties[i]).2.1 (lazyProperties[i]).2.2.stmts f deps k o = some (VSem.lazyAccess f deps k o) := by
  have hall := sem_lazy_shapes
  rw [List.all_eq_true] at hall
  obtain ⟨sh, hsh⟩ := shape_of (hall (lazyProperties[i]) (List.getElem_mem _))
  exact VSem.lazyPass_of_shape _ _ sh hsh f deps k o

/-- … which is `MatricesCache.access` itself whenever the construct expression reads no other lazy slot of the
same object (`transpose`, `__hash__`, `array`, `sqrt`, `lu_and_piv`, `factor` of most classes). -/
theorem sem_lazy_property_is_access (i : Fin 10) (f : K → P → V) (deps : K → List K) (k : K) (o : Obj P K V)
    (hd : deps k = []) :
    VSem.lazyPass (lazyProperties[i]).2.1 (lazyProperties[i]).2.2.stmts f deps k o = some (access f deps k o) := by
  rw [sem_lazy_property_is_lazyAccess, VSem.lazyAccess_nodeps f deps k o hd]

/-- **`access_preserves_params` / `coherence_preserved` / `lazy_order_irrelevant` for the reading.**  Reading any
lazy property of the current source never writes the parameters, keeps every filled slot equal to the value
determined by the parameters, and returns that value — whatever was accessed before (any coherent object). -/
theorem sem_access_preserves_params (i : Fin 10) (f : K → P → V) (deps : K → List K) (k : K) (o : Obj P K V)
    (h : Coherent f o) :
    ∃ v o', VSem.lazyPass (lazyProperties[i]).2.1 (lazyProperties[i]).2.2.stmts f deps k o = some (v, o')
      ∧ o'.p = o.p ∧ Coherent f o' ∧ v = f k o.p := by
  refine ⟨_, _, sem_lazy_property_is_lazyAccess i f deps k o, VSem.lazyAccess_p f deps k o,
    VSem.lazyAccess_coherent f deps k o h, VSem.lazyAccess_value f deps k o h⟩

/-- **`repeated_access_same` for the reading: compute once, then reuse.**  A second access of the same property
returns the same value and leaves the object exactly as the first access left it (no recomputation, no slot
touched) — for ANY object, coherent or not. -/
theorem sem_repeated_access_same (i : Fin 10) (f : K → P → V) (deps : K → List K) (k : K) (o : Obj P K V) :
    ∃ v o', VSem.lazyPass (lazyProperties[i]).2.1 (lazyProperties[i]).2.2.stmts f deps k o = some (v, o')
      ∧ VSem.lazyPass (lazyProperties[i]).2.1 (lazyProperties[i]).2.2.stmts f deps k o' = some (v, o') := by
  refine ⟨(VSem.lazyAccess f deps k o).1, (VSem.lazyAccess f deps k o).2,
    sem_lazy_property_is_lazyAccess i f deps k o, ?_⟩
  rw [sem_lazy_property_is_lazyAccess, VSem.lazyAccess_again]

/-- The reading agrees with the hand model `MatricesCache.access` on the VALUE for every dependency map (the
hand model fills `deps k` even when slot `k` is already filled — it over-approximates the slots touched; the
code, and this reading, do not). -/
theorem sem_lazy_value_eq_access_value (i : Fin 10) (f : K → P → V) (deps : K → List K) (k : K) (o : Obj P K V)
    (h : Coherent f o) :
    (VSem.lazyPass (lazyProperties[i]).2.1 (lazyProperties[i]).2.2.stmts f deps k o).map Prod.fst =
      some (access f deps k o).1 := by
  rw [sem_lazy_property_is_lazyAccess, Option.map_some, VSem.lazyAccess_value f deps k o h]
  congr 1
  -- value of `access` on a coherent object
  have hp : (fill f k ((deps k).foldl (fun o j => fill f j o) o)).p = o.p := by
    rw [VSem.fill_p, VSem.foldl_fill_p]
  have hc := VSem.fill_coherent f k _ (VSem.foldl_fill_coherent f (deps k) o h)
  show f k o.p = ((fill f k ((deps k).foldl (fun o j => fill f j o) o)).cache k).getD
    (f k (fill f k ((deps k).foldl (fun o j => fill f j o) o)).p)
  generalize fill f k ((deps k).foldl (fun o j => fill f j o) o) = X at hp hc
  cases hv : X.cache k with
  | none => simp [hp]
  | some v => simp only [Option.getD_some]; rw [hc k v hv, hp]

end Semantics

/-! ### `eigval` / `eigvec` -/

/-- the guards and the stores read from the current source -/
theorem sem_eig_plans :
    VSem.eigShape? .val MatrixValueSkeleton.symmetricEigval.stmts = some (.or .valNone .vecNone)
    ∧ VSem.eigShape? .vec MatrixValueSkeleton.symmetricEigvec.stmts = some (.or .valNone .vecNone)
    ∧ VSem.computeStores MatrixValueSkeleton.symmetricComputeEig.stmts = some (true, true) := by
  decide +kernel

/-- body of the property for a slot of the pair -/
def eigBody : VSem.Which → List S
  | .val => MatrixValueSkeleton.symmetricEigval.stmts
  | .vec => MatrixValueSkeleton.symmetricEigvec.stmts

/-- **The eigendecomposition pair is filled together and stable afterwards.**  Reading `eigval` or `eigvec` of
the current source on ANY state of the two slots (both empty, one pre-filled by a constructor argument, both
filled): a complete pair is returned untouched (no recomputation); otherwise BOTH slots are overwritten with the
two components of one decomposition; afterwards every further access of either property returns the stored
component and changes nothing — repeated evaluation gives identical results regardless of the order. -/
theorem sem_eig_pair_stable {V : Type} (w : VSem.Which) (dec : V × V) (s : VSem.EigSt V) :
    ∃ v s', VSem.eigPass w (eigBody w) MatrixValueSkeleton.symmetricComputeEig.stmts dec s = some (v, s')
      ∧ (s.val.isSome = true → s.vec.isSome = true → s' = s)
      ∧ (¬ (s.val.isSome = true ∧ s.vec.isSome = true) → s' = ⟨some dec.1, some dec.2⟩)
      ∧ w.proj s' = some v
      ∧ ∀ w', VSem.eigPass w' (eigBody w') MatrixValueSkeleton.symmetricComputeEig.stmts dec s' =
          (w'.proj s').map fun v' => (v', s') := by
  obtain ⟨hv, hw, hc⟩ := sem_eig_plans
  obtain ⟨a, b⟩ := s
  cases w <;> cases a <;> cases b <;>
    simp [VSem.eigPass, eigBody, hv, hw, hc, VSem.EigCond.eval, VSem.Which.proj] <;>
    (intro w'; cases w' <;> simp [hv, hw, VSem.EigCond.eval])

/-! ### `__getstate__` -/

/-- `__getstate__` of the current source: copy, drop `_hash`, return -/
theorem sem_getstate_plan :
    VSem.gPlan MatrixValueSkeleton.matrixGetstate.stmts = some [.copyDict, .dropSlot "_hash", .returnState] := by
  decide +kernel

/-- **Pickling drops exactly the memoised hash.**  The state `__getstate__` of the current source returns, read
on the cache model: same parameters, every slot as it is (the lazily computed representations ARE pickled) except
the hash slot, which is empty; the object itself is not modified (the state is built on a copy); coherence is
preserved, so a copy / unpickled object returns the same values as its original. -/
theorem sem_getstate_drops_only_hash {P K V : Type} [DecidableEq K] (slotOf : String → Option K) (h : K)
    (hh : slotOf "_hash" = some h) (f : K → P → V) (o : Obj P K V) :
    ∃ st, VSem.getstatePass MatrixValueSkeleton.matrixGetstate.stmts slotOf o = some st
      ∧ st.p = o.p ∧ st.cache h = none ∧ (∀ j, j ≠ h → st.cache j = o.cache j)
      ∧ (Coherent f o → Coherent f st) := by
  refine ⟨{ o with cache := fun j => if j = h then none else o.cache j }, ?_, rfl, by simp, ?_, ?_⟩
  · unfold VSem.getstatePass
    rw [sem_getstate_plan]
    simp [VSem.runG, hh]
  · intro j hj; simp [hj]
  · intro hc j v hv
    by_cases hj : j = h
    · simp [hj] at hv
    · simp [hj] at hv; exact hc j v hv

/-! ### `hash_array` -/

/-- `hash_array` of the current source: cast real non-float64 dtypes, add `0.0` to float64, digest -/
theorem sem_hash_plan :
    VSem.hPlan MatrixValueSkeleton.hashArray.stmts =
      some [.castIf (.and (.not .isF64) (.and (.or .isInteger (.or .isFloating (.or .isBool .false_))) .true_)),
            .addZeroIf .isF64, .digestXX, .digestBuiltin] := by
  decide +kernel

/-- **Array hashes are functions of the array values.**  What `hash_array` of the current source digests, read on
abstract arrays (dtype class, entries with a signed zero): for an integer / floating / bool array it is the
float64 array of the values with `-0.0` replaced by `0.0` — so two real arrays that `np.array_equal` (equal values,
`-0.0 == 0.0`, any of these dtypes) are digested identically and hash equal, which is what `eq_imp_hash_eq` needs
from the table field `hashByValue`; other dtypes are digested unchanged. -/
theorem sem_hash_array_respects_array_equal (a b : VSem.Arr) :
    (a.dtype.real = true → VSem.hashPass MatrixValueSkeleton.hashArray.stmts a = some ⟨.f64, a.vals.map VSem.Val.addZero⟩)
    ∧ (a.dtype.real = false → VSem.hashPass MatrixValueSkeleton.hashArray.stmts a = some a)
    ∧ (a.dtype.real = true → b.dtype.real = true → a.valueEq b →
        VSem.hashPass MatrixValueSkeleton.hashArray.stmts a = VSem.hashPass MatrixValueSkeleton.hashArray.stmts b) := by
  have key : ∀ x : VSem.Arr, x.dtype.real = true →
      VSem.hashPass MatrixValueSkeleton.hashArray.stmts x = some ⟨.f64, x.vals.map VSem.Val.addZero⟩ := by
    intro x hx
    obtain ⟨d, vs⟩ := x
    unfold VSem.hashPass
    rw [sem_hash_plan]
    cases d <;> simp_all [VSem.runH, VSem.HCond.eval, VSem.DType.real]
  refine ⟨key a, ?_, ?_⟩
  · intro ha
    obtain ⟨d, vs⟩ := a
    unfold VSem.hashPass
    rw [sem_hash_plan]
    cases d <;> simp_all [VSem.runH, VSem.HCond.eval, VSem.DType.real]
  · intro ha hb hab
    rw [key a ha, key b hb]
    unfold VSem.Arr.valueEq at hab
    rw [hab]

/-! ### non-vacuity, and the readings discriminate -/

/-- not vacuous: an int array `[0, 3]`, a float32 array `[-0.0, 3]` and a float64 array `[0, 3]` are digested
identically by the current source; a complex array is digested as it is -/
example :
    VSem.hashPass MatrixValueSkeleton.hashArray.stmts ⟨.int, [.num 0, .num 3]⟩ = some ⟨.f64, [.num 0, .num 3]⟩
    ∧ VSem.hashPass MatrixValueSkeleton.hashArray.stmts ⟨.f32, [.negZero, .num 3]⟩ = some ⟨.f64, [.num 0, .num 3]⟩
    ∧ VSem.hashPass MatrixValueSkeleton.hashArray.stmts ⟨.f64, [.num 0, .num 3]⟩ = some ⟨.f64, [.num 0, .num 3]⟩
    ∧ VSem.hashPass MatrixValueSkeleton.hashArray.stmts ⟨.complex, [.negZero]⟩ = some ⟨.complex, [.negZero]⟩ := by
  decide +kernel

/-- the hash reading discriminates: without the cast (revert C19-hash-dtype) an int array keeps its dtype, without
`+ 0.0` (revert C19-hash-signed-zero) `-0.0` is digested as such -/
example :
    VSem.runH [.addZeroIf .isF64, .digestXX, .digestBuiltin] ⟨.int, [.num 0]⟩ false = some ⟨.int, [.num 0]⟩
    ∧ VSem.runH [.castIf (.and (.not .isF64) (.or .isInteger (.or .isFloating .isBool))), .digestXX, .digestBuiltin]
        ⟨.f64, [.negZero]⟩ false = some ⟨.f64, [.negZero]⟩ := by
  decide +kernel

/-- the eig reading discriminates: with the guard weakened to the property's own slot (seeded C19-1), a
precomputed `eigval` without `eigvec` is returned as it is by `eigval`, the pair stays incomplete, and a later
`eigvec` access OVERWRITES the eigenvalues: repeated evaluation of `eigval` differs -/
example :
    let weak (w : VSem.Which) : List S :=
      [.ifc (isNone w.attr) (S.b [.expr (.call "self._compute_eigendecomposition" (E.l []))]) (S.b []), .ret (.v w.attr)]
    let s0 : VSem.EigSt Nat := ⟨some 7, none⟩
    VSem.eigPass .val (weak .val) MatrixValueSkeleton.symmetricComputeEig.stmts (1, 2) s0 = some (7, s0)
    ∧ (VSem.eigPass .vec (weak .vec) MatrixValueSkeleton.symmetricComputeEig.stmts (1, 2) s0).map (fun r => r.2.val) = some (some 1)
    ∧ (VSem.eigPass .val (eigBody .val) MatrixValueSkeleton.symmetricComputeEig.stmts (1, 2) s0).map (fun r => (r.1, r.2.val, r.2.vec))
        = some (1, some 1, some 2) := by
  decide +kernel

/-- the lazy-shape recogniser discriminates: a body that recomputes unconditionally, one that returns the
construct expression instead of the slot, and one that stores into another attribute are rejected; a body
without the freeze statement (revert C19-writable-cached-arrays) is accepted with `frozen = false` -/
example :
    VSem.lazyShape? "self._inv" [.assign (.v "self._inv") (.call "self._construct_inv" (E.l [])), .ret (.v "self._inv")] = none
    ∧ VSem.lazyShape? "self._inv"
        [.ifc (isNone "self._inv") (S.b [.assign (.v "self._inv") (.call "self._construct_inv" (E.l []))]) (S.b []),
         .ret (.call "self._construct_inv" (E.l []))] = none
    ∧ VSem.lazyShape? "self._inv"
        [.ifc (isNone "self._inv") (S.b [.assign (.v "self._sqrt") (.call "self._construct_inv" (E.l []))]) (S.b []),
         .ret (.v "self._inv")] = none
    ∧ (VSem.lazyShape? "self._array"
        [.ifc (isNone "self._array") (S.b [.assign (.v "self._array") (.call "self._construct_array" (E.l []))]) (S.b []),
         .ret (.v "self._array")]).map (fun sh => sh.frozen) = some false := by
  decide +kernel

/-- not vacuous: a fresh object, `inv` reading `lu_and_piv` first — the reading fills both slots, returns `f inv p`,
and a second access changes nothing -/
example :
    let f : Slot → Nat → Nat := fun k p => p + (if k = .inv then 1 else 2)
    let deps : Slot → List Slot := fun k => if k = .inv then [.luAndPiv] else []
    let r := VSem.lazyAccess f deps .inv (fresh 7 : Obj Nat Slot Nat)
    r.1 = 8 ∧ r.2.cache .luAndPiv = some 9 ∧ r.2.cache .inv = some 8 ∧ r.2.cache .sqrt = none
      ∧ (VSem.lazyAccess f deps .inv r.2).1 = 8 := by
  decide +kernel

end MiciVerif.C19S
