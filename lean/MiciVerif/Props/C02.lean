/-
C02 — Every (explicit) integrator step is time-reversible.

Property theorems only.  Statements are for every field `K`, every state type / vector space,
every list of free coefficients (any stage count), both values of `initial_h1_flow_step`,
every potential gradient `g`, every metric-inverse map `N`, every step size and every number of
steps.  The implicit / constrained integrators are in `Props/C02Implicit.lean`.
-/
import MiciVerif.Model.Integrators
import MiciVerif.Lemmas.IntegratorsCoeffs
import MiciVerif.Lemmas.IntegratorsFlows
import Mathlib.Algebra.Field.Rat
import Mathlib.Tactic.NormNum
import Mathlib.Tactic.Positivity

namespace MiciVerif.C02
open MiciVerif.Integrators

variable {K : Type*} [Field K]

/-! ### Coefficients -/

/-- `len(self.coefficients) == 2 n + 3` for `n` free coefficients. -/
theorem deriveCoeffs_length (free : List K) : (deriveCoeffs free).length = 2 * free.length + 3 := by
  rw [deriveCoeffs_eq]; simp; omega

/-- `zip(self.coefficients, self.flows, strict=True)` never raises: equal lengths. -/
theorem deriveCoeffs_length_flows {F : Type*} (free : List K) (a b : F) :
    (deriveCoeffs free).length = (flowsList a b free.length).length := by
  rw [deriveCoeffs_length, flowsList_length]

/-- The coefficient list is palindromic for EVERY list of free coefficients. -/
theorem deriveCoeffs_palindrome (free : List K) : (deriveCoeffs free).reverse = deriveCoeffs free := by
  rw [deriveCoeffs_eq]; simp

/-- The flow list `[A, B] * (n + 1) + [A]` is palindromic. -/
theorem flows_palindrome {F : Type*} (a b : F) (n : Nat) :
    (flowsList a b n).reverse = flowsList a b n := flowsList_reverse a b n

/-- The coefficients paired with flow A (`self.flows[0::2]`) sum to one — for EVERY list of free
coefficients.  (`2 ≠ 0`: the code's `0.5` is `1/2`.) -/
theorem deriveCoeffs_sum_a (h2 : (2 : K) ≠ 0) (free : List K) :
    weight true (deriveCoeffs free) (flowsList true false free.length) = 1 := by
  rw [flowsList_tags, weight_alt _ _ _ _ (by rw [deriveCoeffs_length])]
  exact sumAt_deriveCoeffs _ h2 free

/-- The coefficients paired with flow B sum to one — for EVERY list of free coefficients. -/
theorem deriveCoeffs_sum_b (h2 : (2 : K) ≠ 0) (free : List K) :
    weight false (deriveCoeffs free) (flowsList true false free.length) = 1 := by
  rw [flowsList_tags, weight_alt _ _ _ _ (by rw [deriveCoeffs_length])]
  exact sumAt_deriveCoeffs _ h2 free

example : deriveCoeffs ([1 / 4, 1 / 8, 1 / 16] : List ℚ) =
    [1 / 4, 1 / 8, 1 / 16, 3 / 8, 3 / 8, 3 / 8, 1 / 16, 1 / 8, 1 / 4] := by
  norm_num [deriveCoeffs, slice2, stride2]

example : deriveCoeffs ([] : List ℚ) = [1 / 2, 1, 1 / 2] := by
  norm_num [deriveCoeffs, slice2, stride2]

/-! ### Palindromic compositions of reversible flows are reversible -/

private theorem fold_reverse {X : Type*} (ps : List (K × (K → X → X)))
    (hinv : ∀ p ∈ ps, ∀ t x, p.2 (-t) (p.2 t x) = x) (ε : K) (x : X) :
    ps.reverse.foldl (fun x cf => cf.2 (cf.1 * -ε) x) (ps.foldl (fun x cf => cf.2 (cf.1 * ε) x) x) = x := by
  induction ps generalizing x with
  | nil => rfl
  | cons p ps ih =>
    rw [List.reverse_cons, List.foldl_append, List.foldl_cons, List.foldl_cons, List.foldl_nil,
      ih (fun q hq => hinv q (List.mem_cons_of_mem _ hq)), mul_neg]
    exact hinv p List.mem_cons_self _ _

/-- `SymmetricCompositionIntegrator._step`: palindromic coefficients and palindromic flow list, each
flow undone by its negative time ⇒ the step with `-ε` undoes the step with `ε`. -/
theorem symComp_reverse {X : Type*} (coeffs : List K) (flows : List (K → X → X))
    (hc : coeffs.reverse = coeffs) (hf : flows.reverse = flows) (hl : coeffs.length = flows.length)
    (hinv : ∀ f ∈ flows, ∀ t x, f (-t) (f t x) = x) (ε : K) (x : X) :
    symComp coeffs flows (-ε) (symComp coeffs flows ε x) = x := by
  unfold symComp
  have hz : (coeffs.zip flows).reverse = coeffs.zip flows := by
    rw [reverse_zip_of_length_eq _ _ hl, hc, hf]
  have := fold_reverse (coeffs.zip flows)
    (fun p hp => hinv p.2 (List.of_mem_zip hp).2) ε x
  rwa [hz] at this

/-- Every integrator built by `SymmetricCompositionIntegrator.__init__` is reversible: any free
coefficients, either initial flow, any pair of flows undone by their negative time. -/
theorem mkSymComp_reverse {X : Type*} (h1Flow h2Flow : K → X → X)
    (h1inv : ∀ t x, h1Flow (-t) (h1Flow t x) = x) (h2inv : ∀ t x, h2Flow (-t) (h2Flow t x) = x)
    (free : List K) (initialH1 : Bool) (ε : K) (x : X) :
    (mkSymComp h1Flow h2Flow free initialH1).stepT (-ε)
      ((mkSymComp h1Flow h2Flow free initialH1).stepT ε x) = x := by
  unfold SymCompIntegrator.stepT mkSymComp
  apply symComp_reverse _ _ (deriveCoeffs_palindrome free) (flows_palindrome _ _ _)
    (deriveCoeffs_length_flows free _ _)
  intro f hf
  have : f = h1Flow ∨ f = h2Flow := by
    unfold flowsList at hf
    cases initialH1 <;> simp [List.mem_flatten, List.mem_replicate] at hf <;> grind
  rcases this with rfl | rfl
  · exact h1inv
  · exact h2inv

/-- `LeapfrogIntegrator._step` is the composition with no free coefficients … -/
theorem leapfrog_eq_symComp {X : Type*} (h1Flow h2Flow : K → X → X) (t : K) (x : X) :
    leapfrog h1Flow h2Flow t x = (mkSymComp h1Flow h2Flow [] true).stepT t x := by
  simp [leapfrog, SymCompIntegrator.stepT, mkSymComp, symComp, deriveCoeffs, flowsList, slice2, stride2]

/-- … hence reversible. -/
theorem leapfrog_reverse {X : Type*} (h1Flow h2Flow : K → X → X)
    (h1inv : ∀ t x, h1Flow (-t) (h1Flow t x) = x) (h2inv : ∀ t x, h2Flow (-t) (h2Flow t x) = x)
    (ε : K) (x : X) :
    leapfrog h1Flow h2Flow (-ε) (leapfrog h1Flow h2Flow ε x) = x := by
  rw [leapfrog_eq_symComp, leapfrog_eq_symComp]
  exact mkSymComp_reverse h1Flow h2Flow h1inv h2inv [] true ε x

/-! ### API form: n steps, flip the direction, n steps -/

private theorem step_flip_step {X : Type*} (stepT : K → X → X)
    (hrev : ∀ t x, stepT (-t) (stepT t x) = x) (ε : K) (s : State X K) :
    step stepT ε (flipDir (step stepT ε s)) = flipDir s := by
  simp only [step, flipDir, neg_mul, hrev]

/-- `integrator.step` n times, `state.dir *= -1`, `integrator.step` n times returns exactly to the
starting point (with the direction flag reversed) — for every one-step map that is undone by its
negative step, every `n`, every direction flag and step size. -/
theorem steps_reverse {X : Type*} (stepT : K → X → X)
    (hrev : ∀ t x, stepT (-t) (stepT t x) = x) (ε : K) (n : Nat) (s : State X K) :
    steps stepT ε n (flipDir (steps stepT ε n s)) = flipDir s := by
  induction n generalizing s with
  | zero => rfl
  | succ n ih =>
    unfold steps at *
    rw [Function.iterate_succ_apply, Function.iterate_succ_apply', step_flip_step stepT hrev, ih]

/-- … in particular position and momentum are recovered. -/
theorem steps_reverse_x {X : Type*} (stepT : K → X → X)
    (hrev : ∀ t x, stepT (-t) (stepT t x) = x) (ε : K) (n : Nat) (s : State X K) :
    (steps stepT ε n (flipDir (steps stepT ε n s))).x = s.x := by
  rw [steps_reverse stepT hrev]; rfl

/-! ### The component flows of the tractable-flow systems are undone by their negative time -/

section Instances
variable {V : Type*} [AddCommGroup V] [Module K V]

/-- `h1_flow` (any gradient function `g`). -/
theorem kick_neg (g : V → V) (t : K) (x : V × V) : kick g (-t) (kick g t x) = x := by
  simp [kick]

/-- Euclidean `h2_flow` (any map `N`, not even linearity of `metric.inv @ ·` is needed). -/
theorem drift_neg (N : V → V) (t : K) (x : V × V) : drift N (-t) (drift N t x) = x := by
  simp [drift]

/-- Gaussian-split `h2_flow`: orthogonal eigenvectors, non-zero frequencies, `cos² + sin² = 1`
and `(cos, sin)(-t) = (cos t, -sin t)`. -/
theorem harmonic_neg {n : Nat} (Q : Matrix (Fin n) (Fin n) K) (ω : Fin n → K) (trig : K → Trig n K)
    (hQ : Q.transpose * Q = 1) (hω : ∀ i, ω i ≠ 0) (hunit : ∀ t, (trig t).IsUnit)
    (hneg : ∀ t, trig (-t) = (trig t).inv) (t : K) (x : (Fin n → K) × (Fin n → K)) :
    harmonic Q ω trig (-t) (harmonic Q ω trig t x) = x := by
  rw [harmonic_eq_with, harmonic_eq_with, harmonicWith_comp Q ω hQ hω, hneg,
    Trig.comp_inv _ (hunit t), harmonicWith_one Q ω hQ]

/-- Euclidean-metric systems: every symmetric composition integrator (hence leapfrog, BCSS-2/3/4),
n steps forward, flip, n steps: exact return, for every potential gradient and metric. -/
theorem euclidean_steps_reverse (g N : V → V) (free : List K) (initialH1 : Bool) (ε : K) (n : Nat)
    (s : State (V × V) K) :
    (steps (mkSymComp (kick g) (drift N) free initialH1).stepT ε n
      (flipDir (steps (mkSymComp (kick g) (drift N) free initialH1).stepT ε n s))).x = s.x :=
  steps_reverse_x _ (mkSymComp_reverse _ _ (kick_neg g) (drift_neg N) free initialH1) ε n s

/-- Gaussian-split systems: same statement with the harmonic flow. -/
theorem gaussian_steps_reverse {n : Nat} (g : (Fin n → K) → (Fin n → K))
    (Q : Matrix (Fin n) (Fin n) K) (ω : Fin n → K) (trig : K → Trig n K)
    (hQ : Q.transpose * Q = 1) (hω : ∀ i, ω i ≠ 0) (hunit : ∀ t, (trig t).IsUnit)
    (hneg : ∀ t, trig (-t) = (trig t).inv)
    (free : List K) (initialH1 : Bool) (ε : K) (m : Nat) (s : State ((Fin n → K) × (Fin n → K)) K) :
    (steps (mkSymComp (kick g) (harmonic Q ω trig) free initialH1).stepT ε m
      (flipDir (steps (mkSymComp (kick g) (harmonic Q ω trig) free initialH1).stepT ε m s))).x = s.x :=
  steps_reverse_x _ (mkSymComp_reverse _ _ (kick_neg g)
    (harmonic_neg Q ω trig hQ hω hunit hneg) free initialH1) ε m s

end Instances

/-! ### Non-vacuity -/

/-- A rational rotation table satisfying all hypotheses of `harmonic_neg`:
`trig t = ((1-t²)/(1+t²), 2t/(1+t²))` (the tangent half-angle parametrisation). -/
example : ∃ trig : ℚ → Trig 1 ℚ, (∀ t, (trig t).IsUnit) ∧ (∀ t, trig (-t) = (trig t).inv) ∧
    (trig 1).s 0 ≠ 0 := by
  refine ⟨fun t => ⟨fun _ => (1 - t ^ 2) / (1 + t ^ 2), fun _ => 2 * t / (1 + t ^ 2)⟩, ?_, ?_, ?_⟩
  · intro t i
    have : (1 + t ^ 2) ≠ 0 := by positivity
    simp only
    field_simp
    ring
  · intro t
    apply Trig.ext' <;> funext i <;> simp [Trig.inv] ; ring
  · norm_num

/-- Leapfrog on `g q = q³` with unit metric really moves the point (the theorems are not about
identity maps) and returns exactly. -/
example :
    let stepT := (mkSymComp (K := ℚ) (kick (fun q : ℚ => q ^ 3)) (drift (fun p : ℚ => p)) [] true).stepT
    stepT (1 / 2) (1, 1) = (11 / 8, 205 / 2048) ∧ stepT (-(1 / 2)) (stepT (1 / 2) (1, 1)) = (1, 1) := by
  norm_num [SymCompIntegrator.stepT, mkSymComp, symComp, deriveCoeffs, flowsList, slice2, stride2,
    kick, drift]

end MiciVerif.C02
