/-
C10 — Structured matrix expressions agree with dense linear algebra.

Property theorems only.  `MExpr K m n` (Model/Matrices.lean) has one constructor per mici matrix
class; `denote` is the dense array; `T`, `inv`, `smul`, `leftMul`, `rightMul`, `diagonal`, `sdet`
are the structured operations written the way the classes write them.  `WF e` collects the
constructor preconditions and the defining equations of all checked data (inverses, triangular /
LU solves, eigen-data, capacitance matrices); `IsInv e` / `HasDet e` say that the object is an
`InvertibleMatrix` / has a `log_abs_det`.  All statements are for every field `K`, all sizes and
expression trees of arbitrary depth (structural induction, carried out in `Lemmas/MatricesExpr*`).
-/
import MiciVerif.Lemmas.MatricesExprD
import MiciVerif.Model.MatricesEval
import Mathlib.Algebra.Order.Ring.Abs
import Mathlib.Algebra.Order.Field.Basic
import Mathlib.Tactic.NormNum
import Mathlib.Tactic.FinCases
import Mathlib.Data.Rat.Defs
import Mathlib.Algebra.Order.Field.Rat

set_option linter.unusedSectionVars false
set_option linter.unusedVariables false
set_option linter.unusedSimpArgs false

namespace MiciVerif.C10
open Matrix MiciVerif.Matrices MiciVerif.Matrices.MExpr

variable {K : Type} [Field K]

macro "mat_eq" : tactic =>
  `(tactic| (ext i j; fin_cases i <;> fin_cases j <;>
      simp [MExpr.denote, MExpr.inv, MExpr.T, Matrix.mul_apply, Fin.sum_univ_succ, Matrix.diagonal,
        Matrix.one_apply, Sgn.val] <;> norm_num))

/-! ### Products with arrays -/

/-- `M @ B` computed structurally (`_left_matrix_multiply`) is the dense product. -/
theorem leftMul_agrees {m n p : ℕ} (e : MExpr K m n) (B : Mat n p K) :
    leftMul e B = denote e * B :=
  leftMul_eq e B

/-- `B @ M` computed structurally (`_right_matrix_multiply`) is the dense product. -/
theorem rightMul_agrees {m n p : ℕ} (e : MExpr K m n) (B : Mat p m K) :
    rightMul B e = B * denote e :=
  rightMul_eq e B

/-- Matrix-vector form of `leftMul_agrees` (a vector is a one-column matrix). -/
theorem leftMul_vec_agrees {m n : ℕ} (e : MExpr K m n) (v : Fin n → K) (i : Fin m) :
    leftMul e (Matrix.of fun j (_ : Fin 1) => v j) i 0 = (denote e *ᵥ v) i := by
  rw [leftMul_eq]; simp [Matrix.mul_apply, Matrix.mulVec, dotProduct]

/-- `Matrix @ Matrix` (product-class selection included) denotes the product. -/
theorem matmul_agrees {l m n : ℕ} (a : MExpr K l m) (b : MExpr K m n) :
    denote (matmul a b) = denote a * denote b := by
  simp [matmul, denote]

/-- An object whose `.inv` is meaningful is of an `InvertibleMatrix` class. -/
theorem isInvClass_of_IsInv {m n : ℕ} (e : MExpr K m n) (h : IsInv e) : isInvClass e = true := by
  cases e <;> simp_all [IsInv, isInvClass]

/-- Product-class selection: the product of two invertible square objects of the same shape is an
`InvertibleMatrixProduct`, and it is invertible in the model's sense (so `.inv` etc. apply). -/
theorem matmul_invertible {n : ℕ} (a b : MExpr K n n) (ha : IsInv a) (hb : IsInv b) :
    cls (matmul a b) = "InvertibleMatrixProduct" ∧ IsInv (matmul a b) ∧
    (WF a → WF b → WF (matmul a b)) := by
  have h1 := isInvClass_of_IsInv a ha
  have h2 := isInvClass_of_IsInv b hb
  refine ⟨by simp [matmul, chooseProd, h1, h2, cls], ?_, fun wa wb => ?_⟩
  · simp [matmul, chooseProd, h1, h2, IsInv, ha, hb]
  · exact ⟨wa, wb, fun _ => ⟨rfl, rfl⟩⟩

/-- A product involving a non-square operand is a plain `MatrixProduct`. -/
theorem matmul_rect_plain {l m n : ℕ} (a : MExpr K l m) (b : MExpr K m n) (h : ¬ (l = m ∧ m = n)) :
    cls (matmul a b) = "MatrixProduct" := by
  simp [matmul, chooseProd, h, cls]

/-! ### Transpose -/

theorem transpose_agrees {m n : ℕ} (e : MExpr K m n) (h : WF e) : denote (T e) = (denote e)ᵀ :=
  denote_T e h

theorem transpose_wf {m n : ℕ} (e : MExpr K m n) (h : WF e) : WF (T e) := WF_T e h

/-! ### Inverse -/

/-- `.inv` is a two-sided inverse. -/
theorem inv_agrees {m n : ℕ} (e : MExpr K m n) (h : WF e) (hi : IsInv e) :
    denote (inv e) * denote e = 1 ∧ denote e * denote (inv e) = 1 :=
  ⟨(good e h hi).left, (good e h hi).right⟩

/-- For square objects this is Mathlib's matrix inverse. -/
theorem inv_agrees_nonsing {n : ℕ} (e : MExpr K n n) (h : WF e) (hi : IsInv e) :
    denote (inv e) = (denote e)⁻¹ :=
  (Matrix.inv_eq_left_inv (good e h hi).left).symm

/-- The inverse object is again well-formed and invertible, so everything applies to it. -/
theorem inv_wf {m n : ℕ} (e : MExpr K m n) (h : WF e) (hi : IsInv e) :
    WF (inv e) ∧ IsInv (inv e) :=
  ⟨(good e h hi).wf, IsInv_inv e hi⟩

theorem inv_inv_agrees {m n : ℕ} (e : MExpr K m n) (h : WF e) (hi : IsInv e) :
    denote (inv (inv e)) = denote e :=
  (good e h hi).invinv

/-- `.T.inv` and `.inv.T` are the same object. -/
theorem inv_transpose_comm {m n : ℕ} (e : MExpr K m n) : inv (T e) = T (inv e) := inv_T_comm e

/-! ### Scalar multiples (`*`, `/`, unary `-`), scalar `= sg * r²`, `r ≠ 0` -/

theorem smul_agrees {m n : ℕ} (sg : Sgn) (r : K) (hr : r ≠ 0) (e : MExpr K m n) (h : WF e) :
    denote (smul sg r e) = scal sg r • denote e :=
  (smul_spec sg e r hr h).1

theorem smul_wf {m n : ℕ} (sg : Sgn) (r : K) (hr : r ≠ 0) (e : MExpr K m n) (h : WF e) :
    WF (smul sg r e) ∧ (IsInv e → IsInv (smul sg r e)) :=
  ⟨(smul_spec sg e r hr h).2, IsInv_smul sg r e⟩

/-- negation is the scalar multiple with `sg = -`, `r = 1` -/
theorem neg_agrees {m n : ℕ} (e : MExpr K m n) (h : WF e) :
    denote (smul .neg 1 e) = -denote e := by
  rw [smul_agrees .neg 1 one_ne_zero e h]; simp [scal, Sgn.val]

/-! ### Diagonal and determinant -/

theorem diagonal_agrees {n : ℕ} (e : MExpr K n n) (h : WF e) :
    diagonal e = Matrix.diag (denote e) := by
  rw [diagonal_eq e h, diagOf_square]; rfl

/-- The determinant composed the way `log_abs_det` is composed (`log_abs_det = log |sdet|`) agrees
with the determinant of the dense array up to sign. -/
theorem sdet_agrees {n : ℕ} (e : MExpr K n n) (h : WF e) (hd : HasDet e) :
    sdet e ^ 2 = (denote e).det ^ 2 := by
  have := sdet_sq e h hd
  rwa [detOf_square] at this

/-- Over an ordered field: `|sdet e| = |det (denote e)|`, i.e. `log_abs_det` is `log |det|`. -/
theorem sdet_abs_agrees {F : Type} [Field F] [LinearOrder F] [IsStrictOrderedRing F] {n : ℕ}
    (e : MExpr F n n) (h : WF e) (hd : HasDet e) :
    |sdet e| = |(denote e).det| :=
  (sq_eq_sq_iff_abs_eq_abs _ _).mp (sdet_agrees e h hd)

/-! ### Low-rank updates with sign -/

/-- **Woodbury with sign**: with the capacitance matrix `C = K⁻¹ + sign • V S⁻¹ U` (exactly what
`capacitance_matrix` computes) the matrix `S⁻¹ + (-sign) • (S⁻¹U) C⁻¹ (V S⁻¹)` built by
`_construct_inv` is a right (hence two-sided) inverse of `S + sign • U K V`.  All inverses are
checked data. -/
theorem lowrank_woodbury_signed {n k : ℕ} (s : K) (S Si : Mat n n K) (U : Mat n k K) (V : Mat k n K)
    (Kin Ki C Ci : Mat k k K) (hS : S * Si = 1) (hK : Kin * Ki = 1) (hCi : C * Ci = 1)
    (hC : C = Ki + s • (V * Si * U)) :
    (S + s • (U * Kin * V)) * (Si + (-s) • ((Si * U) * Ci * (V * Si))) = 1 :=
  woodbury_signed s S Si U V Kin Ki C Ci hS hK hCi hC

/-- **Determinant lemma with sign**: `log_abs_det = log|det S| + log|det K| + log|det C|`. -/
theorem lowrank_det_signed {n k : ℕ} (s : K) (S Si : Mat n n K) (U : Mat n k K) (V : Mat k n K)
    (Kin Ki C : Mat k k K) (hS : S * Si = 1) (hK : Kin * Ki = 1)
    (hC : C = Ki + s • (V * Si * U)) :
    (S + s • (U * Kin * V)).det = S.det * Kin.det * C.det :=
  det_lowRank_signed s S Si U V Kin Ki C hS hK hC

/-- The unsigned capacitance matrix `K⁻¹ + V S⁻¹ U` (the code before the fix) is wrong for a
downdate: 1×1 instance `S = 2, U = V = K = 1, sign = -1`, where `S - UKV = 1` but the formula
gives `2/3` as "inverse" and `3` as "determinant". -/
theorem lowrank_unsigned_capacitance_wrong :
    let s : ℚ := -1
    let S : Mat 1 1 ℚ := !![2]; let Si : Mat 1 1 ℚ := !![1/2]
    let U : Mat 1 1 ℚ := 1; let V : Mat 1 1 ℚ := 1; let Kin : Mat 1 1 ℚ := 1; let Ki : Mat 1 1 ℚ := 1
    let Cbad : Mat 1 1 ℚ := Ki + V * Si * U; let Cbadi : Mat 1 1 ℚ := !![2/3]
    Cbad * Cbadi = 1 ∧
    (S + s • (U * Kin * V)) * (Si + (-s) • ((Si * U) * Cbadi * (V * Si))) ≠ 1 ∧
    (S + s • (U * Kin * V)).det ≠ S.det * Kin.det * Cbad.det := by
  refine ⟨by mat_eq, ?_, ?_⟩
  · intro h
    have := congrFun (congrFun h 0) 0
    simp [Matrix.mul_apply, Fin.sum_univ_succ, Matrix.one_apply] at this
    norm_num at this
  · simp [Matrix.det_fin_one, Matrix.mul_apply, Fin.sum_univ_succ, Matrix.one_apply]
    norm_num

/-- **Ambikasaran–O'Neill–Singh identity** `(1 + u X uᵀ)² = 1 + sign • u K uᵀ` for
`X = L⁻ᵀ (M - 1) L⁻¹`, `L Lᵀ = uᵀu`, `M² = 1 + sign • Lᵀ K L`. -/
theorem ambikasaran_identity {n k : ℕ} (s : K) (Kin L Li Mm : Mat k k K) (u : Mat n k K)
    (hL : L * Li = 1) (hLL : L * Lᵀ = uᵀ * u) (hM : Mm * Mm = 1 + s • (Lᵀ * Kin * L)) :
    (1 + u * (Liᵀ * (Mm - 1) * Li) * uᵀ) * (1 + u * (Liᵀ * (Mm - 1) * Li) * uᵀ)
      = 1 + s • (u * Kin * uᵀ) :=
  ambikasaran_core s Kin L Li Mm u hL hLL hM

/-- `_construct_sqrt` of `PositiveDefiniteLowRankUpdateMatrix`: `R = W (1 + u X uᵀ)` with
`u = W⁻¹U` satisfies `R Rᵀ = W Wᵀ + sign • U K Uᵀ` (and `W Wᵀ = P` for the square root `W` of `P`). -/
theorem lowrank_sqrt_signed {n k : ℕ} (s : K) (W Wi : Mat n n K) (U : Mat n k K) (Kin L Li Mm : Mat k k K)
    (hW : W * Wi = 1) (hL : L * Li = 1) (hLL : L * Lᵀ = (Wi * U)ᵀ * (Wi * U)) (hMs : Mmᵀ = Mm)
    (hM : Mm * Mm = 1 + s • (Lᵀ * Kin * L)) :
    (W * (1 + (Wi * U) * (Liᵀ * (Mm - 1) * Li) * (Wi * U)ᵀ)) *
      (W * (1 + (Wi * U) * (Liᵀ * (Mm - 1) * Li) * (Wi * U)ᵀ))ᵀ
      = W * Wᵀ + s • (U * Kin * Uᵀ) :=
  lowRank_sqrt_signed s W Wi U Kin L Li Mm hW hL hLL hMs hM

/-! ### Square roots (`sqrt @ sqrt.T == matrix`) of the other positive-definite classes -/

theorem sqrt_scaledId (n : ℕ) (c r : K) (h : r * r = c) :
    denote (scaledId n true r) * (denote (scaledId n true r))ᵀ = denote (scaledId n true c : MExpr K n n) := by
  simp [denote, smul_smul, h]

theorem sqrt_diag {n : ℕ} (d r : Fin n → K) (h : ∀ i, r i * r i = d i) :
    denote (diag true r) * (denote (diag true r))ᵀ = denote (diag true d) := by
  simp only [denote, Matrix.diagonal_transpose, Matrix.diagonal_mul_diagonal]
  congr 1; funext i; exact h i

/-- `TriangularFactoredPositiveDefiniteMatrix.sqrt` is the factor object. -/
theorem sqrt_triFact {n : ℕ} (f : TriF n K) :
    denote (tri f) * (denote (tri f))ᵀ = denote (triFact true .pos f) := by
  simp [denote, Sgn.val]

/-- `DensePositiveDefiniteMatrix.sqrt` is the (checked) Cholesky factor. -/
theorem sqrt_denseDef {n : ℕ} (A : Mat n n K) (f : TriF n K) (h : WF (denseDef true .pos A f)) :
    denote (tri f) * (denote (tri f))ᵀ = denote (denseDef true .pos A f) := by
  simp only [denote]; rw [h.2]; simp [Sgn.val]

theorem sqrt_eigSym {n : ℕ} (Q : Mat n n K) (ev r : Fin n → K) (hQ : Q * Qᵀ = 1)
    (h : ∀ i, r i * r i = ev i) :
    denote (eigSym true Q r) * (denote (eigSym true Q r))ᵀ = denote (eigSym true Q ev) := by
  have hQ' : Qᵀ * Q = 1 := mul_eq_one_comm.mp hQ
  simp only [denote, force_eq, Matrix.transpose_mul, Matrix.transpose_transpose,
    Matrix.diagonal_transpose]
  calc Q * Matrix.diagonal r * Qᵀ * (Q * (Matrix.diagonal r * Qᵀ))
      = Q * (Matrix.diagonal r * ((Qᵀ * Q) * Matrix.diagonal r)) * Qᵀ := by
        simp only [Matrix.mul_assoc]
    _ = Q * Matrix.diagonal ev * Qᵀ := by
        rw [hQ', Matrix.one_mul, Matrix.diagonal_mul_diagonal]
        congr 2; congr 1; funext i; exact h i

/-- block-diagonal square root = block diagonal of the square roots -/
theorem sqrt_blockDiag {m n : ℕ} (A Ra : Mat m m K) (B Rb : Mat n n K)
    (ha : Ra * Raᵀ = A) (hb : Rb * Rbᵀ = B) :
    bdiag Ra Rb * (bdiag Ra Rb)ᵀ = bdiag A B := by
  rw [bdiag_transpose, bdiag_mul_bdiag, ha, hb]

/-! ### Eigen-data (`eigvec @ diag(eigval) @ eigvec.T == matrix`, `eigvec` orthogonal) -/

theorem eig_diag {n : ℕ} (d : Fin n → K) :
    (1 : Mat n n K) * Matrix.diagonal d * (1 : Mat n n K)ᵀ = denote (diag false d) := by
  simp [denote]

theorem eig_denseSym {n : ℕ} (A Q : Mat n n K) (ev : Fin n → K) (h : WF (denseSym A Q ev)) :
    Q * Matrix.diagonal ev * Qᵀ = denote (denseSym A Q ev) ∧ Q * Qᵀ = 1 :=
  ⟨h.2.1.symm, h.1⟩

theorem eig_blockDiag {m n : ℕ} (Qa : Mat m m K) (Qb : Mat n n K) (da : Fin m → K) (db : Fin n → K) :
    bdiag Qa Qb * bdiag (Matrix.diagonal da) (Matrix.diagonal db) * (bdiag Qa Qb)ᵀ
      = bdiag (Qa * Matrix.diagonal da * Qaᵀ) (Qb * Matrix.diagonal db * Qbᵀ) ∧
    (Qa * Qaᵀ = 1 → Qb * Qbᵀ = 1 → bdiag Qa Qb * (bdiag Qa Qb)ᵀ = 1) := by
  refine ⟨by rw [bdiag_transpose, bdiag_mul_bdiag, bdiag_mul_bdiag], fun ha hb => ?_⟩
  rw [bdiag_transpose, bdiag_mul_bdiag, ha, hb, bdiag_one]

/-! ### The value-level evaluator run by the driver computes the model functions -/

theorem evaluator_agrees {m n : ℕ} (e : MExpr K m n) :
    (denoteB e).M = denote e ∧ (diagonalB e).v = diagonal e ∧
    (∀ {p : ℕ} (B : MatBox n p K), (leftMulB e B).M = leftMul e B.M) ∧
    (∀ {p : ℕ} (B : MatBox p m K), (rightMulB B e).M = rightMul B.M e) :=
  ⟨denoteB_M e, diagonalB_v e, fun B => leftMulB_M e B, fun B => rightMulB_M e B⟩

/-! ### Non-vacuity: a concrete non-trivial well-formed expression (a genuine low-rank downdate
`diag(4,2) - u uᵀ`, capacitance `1 - uᵀ S⁻¹ u = 5/8`) on which all hypotheses hold. -/

private def exS : MExpr ℚ 2 2 := diag false ![4, 2]
private def exU : MExpr ℚ 2 1 := rect !![1; 1/2]
private def exLR : MExpr ℚ 2 2 :=
  lowRank .symmetric .neg exU (T exU) exS (identity 1) (lu false !![5/8] !![8/5])

private theorem exLR_wf : WF exLR := by
  simp only [exLR, exS, exU, WF, IsInv, MExpr.T, MExpr.IsSymm, true_and, and_true]
  refine ⟨?_, ?_, ?_, ?_⟩
  · intro i; fin_cases i <;> simp
  · mat_eq
  · mat_eq
  · intro _
    refine ⟨?_, ?_, ?_⟩ <;> mat_eq

private theorem exLR_inv : IsInv exLR := by simp [exLR, IsInv]
private theorem exLR_det : HasDet exLR := by simp [exLR, exS, HasDet]

example : WF exLR ∧ IsInv exLR ∧ HasDet exLR := ⟨exLR_wf, exLR_inv, exLR_det⟩

example : denote (inv exLR) * denote exLR = 1 := (inv_agrees exLR exLR_wf exLR_inv).1

example : denote (T (inv (smul .neg (3/2) exLR))) = (denote (inv (smul .neg (3/2) exLR)))ᵀ := by
  have h1 := smul_wf .neg (3/2 : ℚ) (by norm_num) exLR exLR_wf
  have h2 := inv_wf _ h1.1 (h1.2 exLR_inv)
  exact transpose_agrees _ h2.1

example : sdet exLR ^ 2 = (denote exLR).det ^ 2 := sdet_agrees exLR exLR_wf exLR_det

example : diagonal exLR = Matrix.diag (denote exLR) := diagonal_agrees exLR exLR_wf

-- Woodbury / determinant lemma hypotheses are satisfiable with a genuine downdate (sign = -1)
example : ∃ (S Si : Mat 2 2 ℚ) (U : Mat 2 1 ℚ) (V : Mat 1 2 ℚ) (Kin Ki C Ci : Mat 1 1 ℚ),
    S * Si = 1 ∧ Kin * Ki = 1 ∧ C * Ci = 1 ∧ C = Ki + (-1 : ℚ) • (V * Si * U) ∧ U 0 0 ≠ 0 := by
  refine ⟨!![4, 0; 0, 2], !![1/4, 0; 0, 1/2], !![1; 1/2], !![1/2, 1], 1, 1, !![5/8], !![8/5],
    ?_, ?_, ?_, ?_, by simp⟩ <;> mat_eq

-- Ambikasaran hypotheses: u = (1,0)ᵀ, L = 1, K = 3, sign = +1, M = 2 (M² = 1 + 3)
example : ∃ (Kin L Li Mm : Mat 1 1 ℚ) (u : Mat 2 1 ℚ),
    L * Li = 1 ∧ L * Lᵀ = uᵀ * u ∧ Mm * Mm = 1 + (1 : ℚ) • (Lᵀ * Kin * L) ∧ Mmᵀ = Mm := by
  refine ⟨!![3], 1, 1, !![2], !![1; 0], ?_, ?_, ?_, ?_⟩ <;> mat_eq

-- and for a downdate: K = 3/4, sign = -1, M = 1/2 (M² = 1 - 3/4)
example : ∃ (Kin L Li Mm : Mat 1 1 ℚ) (u : Mat 2 1 ℚ),
    L * Li = 1 ∧ L * Lᵀ = uᵀ * u ∧ Mm * Mm = 1 + (-1 : ℚ) • (Lᵀ * Kin * L) ∧ Mmᵀ = Mm := by
  refine ⟨!![3/4], 1, 1, !![1/2], !![1; 0], ?_, ?_, ?_, ?_⟩ <;> mat_eq

example : ∃ (c r : ℚ), r * r = c ∧ r ≠ 1 := ⟨9/4, 3/2, by norm_num, by norm_num⟩

-- sqrt_diag / sqrt_eigSym hypotheses
example : ∃ (d r : Fin 2 → ℚ), (∀ i, r i * r i = d i) ∧ r 1 ≠ d 1 := by
  refine ⟨![4, 9/4], ![2, 3/2], ?_, by norm_num⟩
  intro i; fin_cases i <;> norm_num

example : ∃ (Q : Mat 2 2 ℚ), Q * Qᵀ = 1 ∧ Q ≠ 1 := by
  refine ⟨!![0, 1; -1, 0], by mat_eq, ?_⟩
  intro h; have := congrFun (congrFun h 0) 0; simp at this

-- eig_denseSym: a well-formed DenseSymmetricMatrix with non-trivial eigenvectors
example : WF (denseSym (!![3, 0; 0, 2] : Mat 2 2 ℚ) !![0, 1; -1, 0] ![2, 3]) := by
  refine ⟨by mat_eq, ?_, ?_⟩
  · ext i j
    fin_cases i <;> fin_cases j <;>
      simp [Matrix.mul_apply, Matrix.vecMul, dotProduct, Fin.sum_univ_succ, Matrix.diagonal_apply,
        Matrix.vecHead, Matrix.vecTail]
  · intro i; fin_cases i <;> norm_num

-- matmul_invertible / inverse of a product of two genuinely different invertible objects
example : IsInv (matmul exLR (inv exLR)) ∧ denote (inv (matmul exLR (inv exLR))) * denote (matmul exLR (inv exLR)) = 1 := by
  have hi := inv_wf exLR exLR_wf exLR_inv
  have hm := matmul_invertible exLR (inv exLR) exLR_inv hi.2
  exact ⟨hm.2.1, (inv_agrees _ (hm.2.2 exLR_wf hi.1) hm.2.1).1⟩

end MiciVerif.C10
