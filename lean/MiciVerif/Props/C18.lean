/-
C18 — Memoisation delivers its efficiency contract.

Same model as C09 (`MiciVerif/Model/Cache.lean`).  The cost of a call is the list `Res.tr` of
wrapped methods that were really evaluated (one entry per evaluation of a decorated method's body;
the harness ties the entries of user-function wrappers to evaluations counted by the user
functions themselves).

* `table_precise`   : the table generated from the source on this run declares no dependency that a
                      method's result does not have (`DepsPrecise`, kernel `decide`).
* `call_makes_warm`, `warm_call_is_free`, `no_reeval_again` : calling again costs nothing.
* `no_reeval_copy`  : … nor on a copy / read-only copy of the state.
* `no_reeval_indep` : … nor after assigning (rebinding or in place) a variable outside the method's
                      true dependencies, on every reachable heap.
* `aux_free`        : after a `…_with_aux` method was evaluated, the auxiliary outputs its user
                      function returned are cache hits.
* `leapfrog_grad_count` : `n ≥ 1` leapfrog steps (as the operations `LeapfrogIntegrator.step` performs
                      on the states) evaluate the gradient wrapper `n + 1` times starting from a state without a
                      cached gradient and `n` times otherwise — after any prior history, across the
                      copies made by every step; `generated_leapfrog_shape` ties the hypothesis on the
                      table to the generated table for `EuclideanMetricSystem`; `leapfrog_gaussian_grad_count` /
                      `generated_leapfrog_shape_gaussian`: the same for the Gaussian-split system.
-/
import MiciVerif.Lemmas.CacheLeapfrogG
import MiciVerif.Generated.CacheDeps

namespace MiciVerif.C18
open MiciVerif.Cache

/-- The generated table declares, for every cached method, only variables its result depends on,
and a `…_with_aux` method registers its auxiliary outputs only under variables they depend on. -/
theorem table_precise : DepsPrecise MiciVerif.Generated.cacheTable := by
  decide +kernel

variable (tbl : Table) (cfg : Cfg)

/-- After a call of `m`, `m` is warm on that state: every wrapped method it consults is cached. -/
theorem call_makes_warm (hs : DepsSound tbl) (h : Heap) (sid sys m : Nat) (e : Entry)
    (hl : lookup tbl (cfg.clsOf sys) m = some e) :
    Warm tbl cfg ((callTop tbl cfg h sid sys m).h.st sid).cache sys (e.rank + 1) m := by
  simp only [callTop, hl]
  exact warm_after_call hs sid sys (e.rank + 1) m e hl (Nat.lt_succ_self _) h

/-- A warm call evaluates nothing and changes no state. -/
theorem warm_call_is_free (h : Heap) (sid sys m : Nat) (e : Entry)
    (hl : lookup tbl (cfg.clsOf sys) m = some e)
    (hw : Warm tbl cfg (h.st sid).cache sys (e.rank + 1) m) :
    (callTop tbl cfg h sid sys m).tr = [] ∧ (callTop tbl cfg h sid sys m).h.st = h.st := by
  simp only [callTop, hl]
  exact hit_of_warm sid sys (e.rank + 1) m h hw

/-- **Calling again is free.** -/
theorem no_reeval_again (hs : DepsSound tbl) (h : Heap) (sid sys m : Nat)
    (hl : (lookup tbl (cfg.clsOf sys) m).isSome) :
    (callTop tbl cfg (callTop tbl cfg h sid sys m).h sid sys m).tr = [] := by
  obtain ⟨e, he⟩ := Option.isSome_iff_exists.mp hl
  exact (warm_call_is_free tbl cfg _ sid sys m e he (call_makes_warm tbl cfg hs h sid sys m e he)).1

example : (lookup MiciVerif.Generated.cacheTable MiciVerif.Generated.cls_EuclideanMetricSystem MiciVerif.Generated.m_h).isSome = true := by
  decide +kernel

/-- **Calling on a copy is free**: a (read-only or writable) copy of a state on which `m` is warm
is warm, so the call on the copy evaluates nothing. -/
theorem no_reeval_copy (h : Heap) (sid sys m : Nat) (ro : Bool) (e : Entry)
    (hl : lookup tbl (cfg.clsOf sys) m = some e) (hlt : sid < h.nSt)
    (hw : Warm tbl cfg (h.st sid).cache sys (e.rank + 1) m) :
    (callTop tbl cfg (step tbl cfg h (.copy sid ro)).1 h.nSt sys m).tr = [] := by
  apply (warm_call_is_free tbl cfg _ h.nSt sys m e hl _).1
  simp only [step, hlt, if_true]
  exact hw

private theorem regPrecise_final (hp : DepsPrecise tbl) :
    ∀ (ops : List Op) (h0 : Heap), RegPrecise tbl cfg h0 → RegPrecise tbl cfg (finalHeap tbl cfg h0 ops) := by
  intro ops
  induction ops with
  | nil => intro h0 hi; exact hi
  | cons o ops ih => intro h0 hi; exact ih _ (regPrecise_step hp h0 hi o)

/-- **Assigning an independent variable keeps the method free.**  On every heap reachable from a
fresh state by any history, if `m` is warm on state `sid` and `x` is not among the true
dependencies of `m`, then after `state.x = …` as well as after the in-place `state.x += …` the
call of `m` on that state still evaluates nothing. -/
theorem no_reeval_indep (hs : DepsSound tbl) (hp : DepsPrecise tbl) (ops : List Op) (sid sys m : Nat) (e : Entry)
    (hl : lookup tbl (cfg.clsOf sys) m = some e) (x : Var) (hx : e.trueDeps.mem x = false)
    (hw : Warm tbl cfg ((finalHeap tbl cfg Heap.init ops).st sid).cache sys (e.rank + 1) m) :
    (callTop tbl cfg (step tbl cfg (finalHeap tbl cfg Heap.init ops) (.assign sid x)).1 sid sys m).tr = [] ∧
    (callTop tbl cfg (step tbl cfg (finalHeap tbl cfg Heap.init ops) (.assignIP sid x)).1 sid sys m).tr = [] := by
  have hrp := regPrecise_final tbl cfg hp ops Heap.init regPrecise_init
  generalize finalHeap tbl cfg Heap.init ops = h at hrp hw
  have key : ∀ c' : Key → Option (Option Val),
      (∀ k, h.cells (h.st sid).cell x k = false → isVal ((h.st sid).cache k) = true → isVal (c' k) = true) →
      Warm tbl cfg c' sys (e.rank + 1) m :=
    fun c' hcc => warm_after_invalidate hs h hrp (h.st sid).cell x sys _ c' hcc (e.rank + 1) m e hl hx hw
  constructor
  · exact (warm_call_is_free tbl cfg _ sid sys m e hl (key _ (cache_after_assign h sid x))).1
  · exact (warm_call_is_free tbl cfg _ sid sys m e hl (key _ (cache_after_assignIP h sid x))).1

/-- **Auxiliary outputs are free.**  If a call of the `…_with_aux` method `m` really evaluated it
(the trace is not empty), every auxiliary output among the first `auxRet` ones — those the user
function returned — now has a cached value; if that output is itself a cached method of the class,
calling it evaluates nothing. -/
theorem aux_free (h : Heap) (sid sys m : Nat) (e : Entry)
    (hl : lookup tbl (cfg.clsOf sys) m = some e) (hc : e.cached = true) (hwa : e.withAux = true)
    (hev : (callTop tbl cfg h sid sys m).tr ≠ []) (a : Nat) (ha : a ∈ e.aux.take (cfg.auxRet sys m)) :
    isVal (((callTop tbl cfg h sid sys m).h.st sid).cache ⟨sys, a⟩) = true ∧
    ∀ ea, lookup tbl (cfg.clsOf sys) a = some ea → ea.cached = true →
      (callTop tbl cfg (callTop tbl cfg h sid sys m).h sid sys a).tr = [] := by
  have hm : e.meth = m := (lookup_some hl).2.2
  have hval : isVal (((callTop tbl cfg h sid sys m).h.st sid).cache ⟨sys, a⟩) = true := by
    simp only [callTop, hl, callM, hc, if_true, wrapM] at hev ⊢
    split
    · rename_i v hv; simp [hv] at hev
    · simp only [setSt, if_true, store, hwa, if_true, hm]
      split
      · rfl
      · have : ((List.take (cfg.auxRet sys m) e.aux).map (Key.mk sys)).contains ⟨sys, a⟩ = true := by
          simp only [List.contains_iff_mem, List.mem_map]
          exact ⟨a, ha, rfl⟩
        simp only [this, if_true]; rfl
  refine ⟨hval, ?_⟩
  intro ea hla hca
  apply (warm_call_is_free tbl cfg _ sid sys a ea hla _).1
  simp only [Warm, hla, hca, if_true]
  exact hval

open MiciVerif.Generated in
/-- non-vacuity: `grad_neg_log_dens` of `EuclideanMetricSystem` is a `…_with_aux` method with
auxiliary output `neg_log_dens`, itself cached. -/
example : ((lookup cacheTable cls_EuclideanMetricSystem m_grad_neg_log_dens).map (fun e => (e.cached, e.withAux, e.aux)))
      = some (true, true, [m_neg_log_dens])
    ∧ ((lookup cacheTable cls_EuclideanMetricSystem m_neg_log_dens).map (·.cached)) = some true := by
  decide +kernel

/-! ### leapfrog -/

/-- **n leapfrog steps cost n + 1 gradient evaluations** (n if the start state already has its
gradient cached).  For every table that is sound and precise and has the Euclidean shape for the
class of `sys` (`dh1` uncached and calling only the cached leaf `g` whose true dependency is `pos`;
`v` another cached leaf), no aliasing system methods, ANY prior history `ops0` and any existing
state `s`: running `n` consecutive `LeapfrogIntegrator.step`s — each one `copy; dh1; mom in place;
v; pos in place; dh1; mom in place` on the copy — evaluates the wrapper `g` exactly
`n + [g not cached in s]` times (`0` for `n = 0`). -/
theorem leapfrog_grad_count (hs : DepsSound tbl) (hp : DepsPrecise tbl) (hna : ∀ s m, cfg.aliasRet s m = none)
    (sys dh1 g v : Nat) (hshape : leapfrogShapeB tbl (cfg.clsOf sys) dh1 g v = true)
    (ops0 : List Op) (s : Nat) (hlt : s < (finalHeap tbl cfg Heap.init ops0).nSt) (n : Nat) :
    evalCount ⟨sys, g⟩ (run tbl cfg (finalHeap tbl cfg Heap.init ops0)
        (leapfrogTraj sys dh1 v n s (finalHeap tbl cfg Heap.init ops0).nSt)) =
      if n = 0 then 0 else n + (if gw (finalHeap tbl cfg Heap.init ops0) s sys g then 0 else 1) :=
  leapfrog_traj_count hs hp hna (LeapfrogSys.ofShape sys dh1 g v hshape) n _
    (linv_final hs hp hna ops0 Heap.init linv_init) s hlt

/-- from a fresh state: exactly `n + 1` -/
theorem leapfrog_fresh_grad_count (hs : DepsSound tbl) (hp : DepsPrecise tbl) (hna : ∀ s m, cfg.aliasRet s m = none)
    (sys dh1 g v : Nat) (hshape : leapfrogShapeB tbl (cfg.clsOf sys) dh1 g v = true) (n : Nat) :
    evalCount ⟨sys, g⟩ (run tbl cfg Heap.init (leapfrogTraj sys dh1 v (n + 1) 0 1)) = n + 2 := by
  have := leapfrog_grad_count tbl cfg hs hp hna sys dh1 g v hshape [] 0 (by simp [finalHeap, Heap.init]) (n + 1)
  simpa [finalHeap, gw, Heap.init, isVal] using this

open MiciVerif.Generated in
/-- the generated table has the shape required by `leapfrog_grad_count` for `EuclideanMetricSystem`
(`dh1_dpos` → `grad_neg_log_dens`, `dh2_dmom`) -/
theorem generated_leapfrog_shape :
    leapfrogShapeB cacheTable cls_EuclideanMetricSystem m_dh1_dpos m_grad_neg_log_dens m_dh2_dmom = true := by
  decide +kernel

/-- **Gaussian-split leapfrog**: the same count when `h2_flow` rebinds `pos` and `mom` without
calling a cached method (`GaussianEuclideanMetricSystem`): each step is `copy; dh1; mom in place;
pos = …; mom = …; dh1; mom in place`. -/
theorem leapfrog_gaussian_grad_count (hs : DepsSound tbl) (hp : DepsPrecise tbl) (hna : ∀ s m, cfg.aliasRet s m = none)
    (sys dh1 g v : Nat) (hshape : leapfrogShapeB tbl (cfg.clsOf sys) dh1 g v = true)
    (ops0 : List Op) (s : Nat) (hlt : s < (finalHeap tbl cfg Heap.init ops0).nSt) (n : Nat) :
    evalCount ⟨sys, g⟩ (run tbl cfg (finalHeap tbl cfg Heap.init ops0)
        (leapfrogTrajG sys dh1 n s (finalHeap tbl cfg Heap.init ops0).nSt)) =
      if n = 0 then 0 else n + (if gw (finalHeap tbl cfg Heap.init ops0) s sys g then 0 else 1) :=
  leapfrogG_traj_count hs hp hna (LeapfrogSys.ofShape sys dh1 g v hshape) n _
    (linv_final hs hp hna ops0 Heap.init linv_init) s hlt

open MiciVerif.Generated in
theorem generated_leapfrog_shape_gaussian :
    leapfrogShapeB cacheTable cls_GaussianEuclideanMetricSystem m_dh1_dpos m_grad_neg_log_dens m_dh2_dmom = true := by
  decide +kernel

end MiciVerif.C18
