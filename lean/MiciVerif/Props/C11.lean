/-
C11 — differentiable matrices report the true parameter gradients.

Setting: a commutative ring `R` with an element `ε`, `ε * ε = 0` (strictly more general than
dual numbers; `R = DualNumber K`, `ε = DualNumber.eps` is the instance that reads
"first-order Taylor expansion").  For every differentiable class of `mici/matrices.py`

* (logdet)  `det (Mcls (θ + ε δ)) = det (Mcls θ) * (1 + ε * ⟨gradLogDet θ, δ⟩)`
  — the logarithmic derivative of `det`, i.e. `d log|det M| = ⟨grad_log_abs_det, δ⟩`;
* (quad)    `Mcls (θ + ε δ)` is invertible and for **its** inverse `X̂`
  `v·X̂ v = v·X v + ε * ⟨gradQuad θ v, δ⟩`,

with `Mcls`, `gradLogDet`, `gradQuad` the definitions of `Model/MatricesGrad.lean`
(the Python bodies term by term), inverses as checked data, and `⟨·,·⟩` the inner product in
the parameter's own structure.  Property theorems only; helper lemmas are in
`Lemmas/MatricesGrad*.lean`.
-/
import MiciVerif.Lemmas.MatricesGradTri
import Mathlib.Algebra.DualNumber
import Mathlib.Tactic.Ring
import Mathlib.Tactic.NormNum
import Mathlib.Tactic.LinearCombination

set_option linter.unusedSectionVars false

namespace MiciVerif.C11
open Matrix MiciVerif.MatricesGrad

variable {R : Type*} [CommRing R] {n m : Type*} [Fintype n] [Fintype m] [DecidableEq n]
  [DecidableEq m]

/-! ## ScaledIdentityMatrix -/

private theorem scaledId_perturb (ε c δ : R) :
    scaledId n (c + ε * δ) = scaledId n c + ε • scaledId n δ := by
  unfold scaledId; rw [add_smul, mul_smul]

private theorem scaledId_inv {c ci : R} (hc : c * ci = 1) :
    scaledId n c * scaledId n ci = 1 := by
  unfold scaledId; rw [Matrix.smul_mul, Matrix.mul_smul, Matrix.mul_one, smul_smul, hc,
    one_smul]

theorem scaledIdentity_logdet {ε : R} (hε : ε * ε = 0) (c ci δ : R) (hc : c * ci = 1) :
    det (scaledId n (c + ε * δ))
      = det (scaledId n c) * (1 + ε * (scaledIdGradLogDet n ci * δ)) := by
  refine logdet_of_perturb hε (scaledId_perturb ε c δ) (scaledId_inv hc) ?_
  unfold scaledId scaledIdGradLogDet
  rw [Matrix.smul_mul, Matrix.mul_smul, Matrix.mul_one, smul_smul, trace_smul, trace_one,
    smul_eq_mul]
  ring

theorem scaledIdentity_quad {ε : R} (hε : ε * ε = 0) (c ci δ : R) (hc : c * ci = 1)
    (v : n → R) :
    (∃ Xh, scaledId n (c + ε * δ) * Xh = 1) ∧
      ∀ Xh, scaledId n (c + ε * δ) * Xh = 1 →
        v ⬝ᵥ Xh *ᵥ v = v ⬝ᵥ scaledId n ci *ᵥ v + ε * (scaledIdGradQuad ci v * δ) := by
  refine quad_of_perturb hε (scaledId_perturb ε c δ) (scaledId_inv hc) v ?_
  unfold scaledId scaledIdGradQuad
  simp only [transpose_smul, transpose_one, smul_mulVec, one_mulVec, dotProduct]
  simp only [Finset.sum_mul, neg_mul, ← Finset.sum_neg_distrib, Pi.smul_apply, smul_eq_mul]
  exact Finset.sum_congr rfl fun i _ => by ring

/-! ## DiagonalMatrix -/

private theorem diagMat_perturb (ε : R) (d δ : n → R) :
    diagMat (d + ε • δ) = diagMat d + ε • diagMat δ := by
  unfold diagMat; rw [← diagonal_smul, diagonal_add]; rfl

private theorem diagMat_inv {d di : n → R} (hd : ∀ i, d i * di i = 1) :
    diagMat d * diagMat di = 1 := by
  unfold diagMat; rw [diagonal_mul_diagonal, ← diagonal_one]; congr 1; funext i; exact hd i

theorem diagonal_logdet {ε : R} (hε : ε * ε = 0) (d di δ : n → R) (hd : ∀ i, d i * di i = 1) :
    det (diagMat (d + ε • δ))
      = det (diagMat d) * (1 + ε * innerVec (diagGradLogDet di) δ) := by
  refine logdet_of_perturb hε (diagMat_perturb ε d δ) (diagMat_inv hd) ?_
  unfold diagMat diagGradLogDet innerVec
  rw [diagonal_mul_diagonal, trace_diagonal]

theorem diagonal_quad {ε : R} (hε : ε * ε = 0) (d di δ : n → R) (hd : ∀ i, d i * di i = 1)
    (v : n → R) :
    (∃ Xh, diagMat (d + ε • δ) * Xh = 1) ∧
      ∀ Xh, diagMat (d + ε • δ) * Xh = 1 →
        v ⬝ᵥ Xh *ᵥ v = v ⬝ᵥ diagMat di *ᵥ v + ε * innerVec (diagGradQuad di v) δ := by
  refine quad_of_perturb hε (diagMat_perturb ε d δ) (diagMat_inv hd) v ?_
  unfold diagMat diagGradQuad innerVec
  simp only [diagonal_transpose, mulVec_diagonal, dotProduct, ← Finset.sum_neg_distrib]
  exact Finset.sum_congr rfl fun i _ => by ring

/-! ## DenseDefiniteMatrix -/

theorem dense_logdet {ε : R} (hε : ε * ε = 0) (A X δ : Matrix n n R) (hA : Aᵀ = A)
    (hX : A * X = 1) :
    det (A + ε • δ) = det A * (1 + ε * innerMat (denseGradLogDet X) δ) := by
  refine logdet_of_perturb hε rfl hX ?_
  rw [trace_mul_eq_innerMat, inv_symm hA hX]; rfl

theorem dense_quad {ε : R} (hε : ε * ε = 0) (A X δ : Matrix n n R) (hA : Aᵀ = A)
    (hX : A * X = 1) (v : n → R) :
    (∃ Xh, (A + ε • δ) * Xh = 1) ∧
      ∀ Xh, (A + ε • δ) * Xh = 1 →
        v ⬝ᵥ Xh *ᵥ v = v ⬝ᵥ X *ᵥ v + ε * innerMat (denseGradQuad X v) δ := by
  refine quad_of_perturb hε rfl hX v ?_
  rw [inv_symm hA hX, dot_mulVec_eq_innerMat, denseGradQuad, innerMat_neg]

/-! ## PositiveDefiniteLowRankUpdateMatrix -/

private theorem lowRank_perturb {ε : R} (hε : ε * ε = 0) (s : R) (P : Matrix n n R)
    (U δ : Matrix n m R) (K : Matrix m m R) :
    lowRank s P (U + ε • δ) K = lowRank s P U K + ε • (s • (δ * K * Uᵀ + U * K * δᵀ)) := by
  unfold lowRank
  rw [congruence_perturb hε, smul_add, smul_comm s ε, add_assoc]

private theorem lowRank_symm (s : R) (P : Matrix n n R) (hP : Pᵀ = P) (U : Matrix n m R)
    (K : Matrix m m R) (hK : Kᵀ = K) : (lowRank s P U K)ᵀ = lowRank s P U K := by
  unfold lowRank
  rw [transpose_add, transpose_smul, transpose_mul, transpose_mul, transpose_transpose, hK, hP,
    Matrix.mul_assoc]

theorem lowrank_logdet {ε : R} (hε : ε * ε = 0) (s : R) (P : Matrix n n R) (hP : Pᵀ = P)
    (U δ : Matrix n m R) (K : Matrix m m R) (hK : Kᵀ = K) (X : Matrix n n R)
    (hX : lowRank s P U K * X = 1) :
    det (lowRank s P (U + ε • δ) K)
      = det (lowRank s P U K) * (1 + ε * innerMat (lowRankGradLogDet s X U K) δ) := by
  refine logdet_of_perturb hε (lowRank_perturb hε s P U δ K) hX ?_
  have hXs := inv_symm (lowRank_symm s P hP U K hK) hX
  rw [Matrix.mul_smul, trace_smul, congruence_trace X hXs U δ K hK, lowRankGradLogDet,
    innerMat_smul, smul_eq_mul]
  ring

theorem lowrank_quad {ε : R} (hε : ε * ε = 0) (s : R) (P : Matrix n n R) (hP : Pᵀ = P)
    (U δ : Matrix n m R) (K : Matrix m m R) (hK : Kᵀ = K) (X : Matrix n n R)
    (hX : lowRank s P U K * X = 1) (v : n → R) :
    (∃ Xh, lowRank s P (U + ε • δ) K * Xh = 1) ∧
      ∀ Xh, lowRank s P (U + ε • δ) K * Xh = 1 →
        v ⬝ᵥ Xh *ᵥ v = v ⬝ᵥ X *ᵥ v + ε * innerMat (lowRankGradQuad s X U K v) δ := by
  refine quad_of_perturb hε (lowRank_perturb hε s P U δ K) hX v ?_
  have hXs := inv_symm (lowRank_symm s P hP U K hK) hX
  rw [hXs, smul_mulVec, dotProduct_smul, congruence_quad U δ K hK, lowRankGradQuad,
    innerMat_smul, smul_eq_mul]
  ring

/-! ## DensePositiveDefiniteProductMatrix -/

private theorem prodMat_eq_lowRank (Rm : Matrix n m R) (P : Matrix m m R) :
    prodMat Rm P = lowRank 1 0 Rm P := by
  unfold prodMat lowRank; rw [one_smul, zero_add]

theorem product_logdet {ε : R} (hε : ε * ε = 0) (Rm δ : Matrix n m R) (P : Matrix m m R)
    (hP : Pᵀ = P) (X : Matrix n n R) (hX : prodMat Rm P * X = 1) :
    det (prodMat (Rm + ε • δ) P)
      = det (prodMat Rm P) * (1 + ε * innerMat (prodGradLogDet X Rm P) δ) := by
  rw [prodMat_eq_lowRank] at hX
  have := lowrank_logdet hε 1 0 transpose_zero Rm δ P hP X hX
  rw [prodMat_eq_lowRank, prodMat_eq_lowRank, this]
  unfold lowRankGradLogDet prodGradLogDet
  rw [mul_one]

theorem product_quad {ε : R} (hε : ε * ε = 0) (Rm δ : Matrix n m R) (P : Matrix m m R)
    (hP : Pᵀ = P) (X : Matrix n n R) (hX : prodMat Rm P * X = 1) (v : n → R) :
    (∃ Xh, prodMat (Rm + ε • δ) P * Xh = 1) ∧
      ∀ Xh, prodMat (Rm + ε • δ) P * Xh = 1 →
        v ⬝ᵥ Xh *ᵥ v = v ⬝ᵥ X *ᵥ v + ε * innerMat (prodGradQuad X Rm P v) δ := by
  rw [prodMat_eq_lowRank] at hX
  have := lowrank_quad hε 1 0 transpose_zero Rm δ P hP X hX v
  rw [prodMat_eq_lowRank]
  unfold lowRankGradQuad at this
  unfold prodGradQuad
  rwa [mul_one] at this

section Tri
variable [LinearOrder n]

theorem trifactored_logdet {ε : R} (hε : ε * ε = 0) (lower : Bool) (s : R)
    (A δ : Matrix n n R) (fdi : n → R) (hF : ∀ i, A i i * fdi i = 1) :
    det (triFactored lower s (A + ε • δ))
      = det (triFactored lower s A) * (1 + ε * innerMat (triFactoredGradLogDet fdi) δ) := by
  have hdet : ∀ B : Matrix n n R, det (triFactored lower s B)
      = s ^ Fintype.card n * ((∏ i, B i i) * (∏ i, B i i)) := by
    intro B
    unfold triFactored
    rw [det_smul, det_mul, det_transpose, det_tri]
  have hprod : ∏ i, (A + ε • δ) i i = (∏ i, A i i) * (1 + ε * ∑ i, fdi i * δ i i) := by
    rw [← prod_one_add_eps hε, ← Finset.prod_mul_distrib]
    refine Finset.prod_congr rfl fun i _ => ?_
    rw [Matrix.add_apply, Matrix.smul_apply, smul_eq_mul]
    linear_combination (-(ε * δ i i)) * hF i
  rw [hdet, hdet, hprod, triFactoredGradLogDet, innerMat_diagonal]
  have : ∑ i, 2 * fdi i * δ i i = 2 * ∑ i, fdi i * δ i i := by
    rw [Finset.mul_sum]; exact Finset.sum_congr rfl fun i _ => by ring
  rw [this]
  generalize (∑ i, fdi i * δ i i) = a
  generalize (∏ i, A i i) = p
  have : (p * (1 + ε * a)) * (p * (1 + ε * a)) = p * p * (1 + ε * (2 * a)) + (ε * ε) * (p*p*a*a) := by
    ring
  rw [this, hε]; ring

theorem trifactored_gradq_sign {ε : R} (hε : ε * ε = 0) (lower : Bool) (s : R) (hs : s * s = 1)
    (A δ Y : Matrix n n R) (hY : tri lower A * Y = 1) (v : n → R) :
    (∃ Xh, triFactored lower s (A + ε • δ) * Xh = 1) ∧
      ∀ Xh, triFactored lower s (A + ε • δ) * Xh = 1 →
        v ⬝ᵥ Xh *ᵥ v = v ⬝ᵥ triFactoredInv s Y *ᵥ v
          + ε * innerMat (triFactoredGradQuad lower s Y v) δ := by
  have hX : lowRank s 0 (tri lower A) 1 * triFactoredInv s Y = 1 := by
    rw [← triFactored_eq_lowRank]; exact triFactored_inv hs hY
  have h := lowrank_quad hε s 0 transpose_zero (tri lower A) (tri lower δ) 1 transpose_one
    (triFactoredInv s Y) hX v
  rw [triFactored_eq_lowRank, tri_add, tri_smul]
  convert h using 5
  sorry

end Tri
end MiciVerif.C11
