/-
C11 — differentiable matrices report the true parameter gradients.

Setting: a commutative ring `R` with an element `ε`, `ε * ε = 0` (strictly more general than
dual numbers; `R = DualNumber K`, `ε = DualNumber.eps` is the instance that reads
"first-order Taylor expansion").  For every differentiable class of `mici/matrices.py`

* (logdet)  `det (Mcls (θ + ε δ)) = det (Mcls θ) * (1 + ε * ⟨gradLogDet θ, δ⟩)`
  — the logarithmic derivative of `det`, i.e. `d log|det M| = ⟨grad_log_abs_det, δ⟩`;
* (quad)    `Mcls (θ + ε δ)` is invertible and for **its** inverse `X̂`
  `v·X̂ v = v·X v + ε * ⟨gradQuad θ v, δ⟩`,

with `Mcls`, `gradLogDet`, `gradQuad` the definitions of `Model/MatricesGrad.lean`
(the Python bodies term by term), inverses as checked data, and `⟨·,·⟩` the inner product in
the parameter's own structure.  Property theorems only; helper lemmas are in
`Lemmas/MatricesGrad*.lean`.
-/
import MiciVerif.Lemmas.MatricesGradTri
import MiciVerif.Lemmas.MatricesGradBlock
import MiciVerif.Lemmas.MatricesGradPoly
import Mathlib.Algebra.Order.Field.Basic
import Mathlib.Algebra.DualNumber
import Mathlib.Tactic.Ring
import Mathlib.Tactic.NormNum
import Mathlib.Tactic.LinearCombination

set_option linter.unusedSectionVars false

namespace MiciVerif.C11
open Matrix MiciVerif.MatricesGrad

variable {R : Type*} [CommRing R] {n m : Type*} [Fintype n] [Fintype m] [DecidableEq n]
  [DecidableEq m]

/-! ## Concrete data for the non-vacuity examples (all in `DualNumber ℚ`, `ε = DualNumber.eps`) -/

local notation "𝔻" => DualNumber ℚ
local notation "εq" => (DualNumber.eps : DualNumber ℚ)

private theorem hεq : εq * εq = 0 := DualNumber.eps_mul_eps

private theorem inl_inv {a b : ℚ} (h : a * b = 1) :
    (TrivSqZeroExt.inl a : 𝔻) * TrivSqZeroExt.inl b = 1 := by
  rw [← TrivSqZeroExt.inl_mul, h, TrivSqZeroExt.inl_one]

-- diagonal: d = (2, -4)
private theorem diag_ex : ∀ i : Fin 2,
    (![TrivSqZeroExt.inl 2, TrivSqZeroExt.inl (-4)] : Fin 2 → 𝔻) i
      * (![TrivSqZeroExt.inl (1/2), TrivSqZeroExt.inl (-1/4)] : Fin 2 → 𝔻) i = 1 := by
  intro i; fin_cases i
  · exact inl_inv (by norm_num)
  · exact inl_inv (by norm_num)

-- triangular factored: array [[1,5],[2,-1]] (the 5 is outside the stored lower triangle), sign -1
private def triA : Matrix (Fin 2) (Fin 2) 𝔻 := !![1, 5; 2, -1]
private def triY : Matrix (Fin 2) (Fin 2) 𝔻 := !![1, 0; 2, -1]
private theorem tri_ex : tri true triA * triY = 1 := by
  apply Matrix.ext; intro i j; fin_cases i <;> fin_cases j <;>
    simp [tri, triA, triY, Matrix.mul_apply, Fin.sum_univ_two] <;> norm_num

-- dense: A = [[2,1],[1,1]], A⁻¹ = [[1,-1],[-1,2]], non-symmetric direction
private def dA : Matrix (Fin 2) (Fin 2) 𝔻 := !![2, 1; 1, 1]
private def dX : Matrix (Fin 2) (Fin 2) 𝔻 := !![1, -1; -1, 2]
private theorem dA_symm : dAᵀ = dA := by
  apply Matrix.ext; intro i j; fin_cases i <;> fin_cases j <;> simp [dA]
private theorem dA_inv : dA * dX = 1 := by
  apply Matrix.ext; intro i j; fin_cases i <;> fin_cases j <;>
    simp [dA, dX, Matrix.mul_apply, Fin.sum_univ_two] <;> norm_num

-- product: R = [[1,0,0],[1,1,0]] (2×3), P = diag(1,1,3): R P Rᵀ = [[1,1],[1,2]]
private def pR : Matrix (Fin 2) (Fin 3) 𝔻 := !![1, 0, 0; 1, 1, 0]
private def pP : Matrix (Fin 3) (Fin 3) 𝔻 := Matrix.diagonal ![1, 1, 3]
private def pX : Matrix (Fin 2) (Fin 2) 𝔻 := !![2, -1; -1, 1]
private theorem pR_inv : prodMat pR pP * pX = 1 := by
  apply Matrix.ext; intro i j; fin_cases i <;> fin_cases j <;>
    simp [prodMat, pR, pP, pX, Matrix.mul_apply, Fin.sum_univ_two, Fin.sum_univ_three,
      Matrix.vecMul, dotProduct, Matrix.diagonal_apply] <;> norm_num

-- low-rank downdate (sign = -1): P = diag(2,1), U = (1,0)ᵀ, K = (1): M = I
private def lP : Matrix (Fin 2) (Fin 2) 𝔻 := Matrix.diagonal ![2, 1]
private def lU : Matrix (Fin 2) (Fin 1) 𝔻 := !![1; 0]
private theorem l_inv : lowRank (-1 : 𝔻) lP lU 1 * 1 = 1 := by
  apply Matrix.ext; intro i j; fin_cases i <;> fin_cases j <;>
    simp [lowRank, lP, lU, Matrix.mul_apply, Matrix.diagonal_apply, Matrix.one_apply,
      Matrix.vecMul, dotProduct] <;> norm_num

-- polynomial spectral function f(x) = x³ on H = P diag(1,1,-1) Pᵀ (repeated eigenvalue 1), P a permutation
private def sQ : Matrix (Fin 3) (Fin 3) 𝔻 := !![0, 1, 0; 0, 0, 1; 1, 0, 0]
private def sLam : Fin 3 → 𝔻 := ![1, 1, -1]
private def sFli : Fin 3 → 𝔻 := ![1, 1, -1]
private def sP : List 𝔻 := [0, 0, 0, 1]
private theorem sQ_orth : sQ * sQᵀ = 1 := by
  apply Matrix.ext; intro i j; fin_cases i <;> fin_cases j <;>
    simp [sQ, Matrix.mul_apply, Fin.sum_univ_three]
private theorem sFl : ∀ a, polyEval sP (sLam a) * sFli a = 1 := by
  intro a; fin_cases a <;> simp [sP, sLam, sFli, polyEval]

/-! ## ScaledIdentityMatrix -/

private theorem scaledId_perturb (ε c δ : R) :
    scaledId n (c + ε * δ) = scaledId n c + ε • scaledId n δ := by
  unfold scaledId; rw [add_smul, mul_smul]

private theorem scaledId_inv {c ci : R} (hc : c * ci = 1) :
    scaledId n c * scaledId n ci = 1 := by
  unfold scaledId; rw [Matrix.smul_mul, Matrix.mul_smul, Matrix.mul_one, smul_smul, hc,
    one_smul]

/-- ScaledIdentityMatrix / PositiveScaledIdentityMatrix: `grad_log_abs_det = n / c` is the
logarithmic derivative of `det (c I)` w.r.t. the scalar `c`. -/
theorem scaledIdentity_logdet {ε : R} (hε : ε * ε = 0) (c ci δ : R) (hc : c * ci = 1) :
    det (scaledId n (c + ε * δ))
      = det (scaledId n c) * (1 + ε * (scaledIdGradLogDet n ci * δ)) := by
  refine logdet_of_perturb hε (scaledId_perturb ε c δ) (scaledId_inv hc) ?_
  unfold scaledId scaledIdGradLogDet
  rw [Matrix.smul_mul, Matrix.mul_smul, Matrix.mul_one, smul_smul, trace_smul, trace_one,
    smul_eq_mul]
  ring

-- non-vacuity: c = 2, 1/c = 1/2, size 3, direction 5
example := scaledIdentity_logdet (n := Fin 3) hεq (TrivSqZeroExt.inl 2) (TrivSqZeroExt.inl (1/2)) 5
  (inl_inv (by norm_num))

/-- … and `grad_quadratic_form_inv(v) = -Σv² / c²` is the derivative of `vᵀ (c I)⁻¹ v`. -/
theorem scaledIdentity_quad {ε : R} (hε : ε * ε = 0) (c ci δ : R) (hc : c * ci = 1)
    (v : n → R) :
    (∃ Xh, scaledId n (c + ε * δ) * Xh = 1) ∧
      ∀ Xh, scaledId n (c + ε * δ) * Xh = 1 →
        v ⬝ᵥ Xh *ᵥ v = v ⬝ᵥ scaledId n ci *ᵥ v + ε * (scaledIdGradQuad ci v * δ) := by
  refine quad_of_perturb hε (scaledId_perturb ε c δ) (scaledId_inv hc) v ?_
  unfold scaledId scaledIdGradQuad
  simp only [transpose_smul, transpose_one, smul_mulVec, one_mulVec, dotProduct]
  simp only [Finset.sum_mul, neg_mul, ← Finset.sum_neg_distrib, Pi.smul_apply, smul_eq_mul]
  exact Finset.sum_congr rfl fun i _ => by ring

example := scaledIdentity_quad (n := Fin 3) hεq (TrivSqZeroExt.inl 2) (TrivSqZeroExt.inl (1/2)) 5
  (inl_inv (by norm_num)) ![1, 2, 3]

/-! ## DiagonalMatrix -/

private theorem diagMat_perturb (ε : R) (d δ : n → R) :
    diagMat (d + ε • δ) = diagMat d + ε • diagMat δ := by
  unfold diagMat; rw [← diagonal_smul, diagonal_add]; rfl

private theorem diagMat_inv {d di : n → R} (hd : ∀ i, d i * di i = 1) :
    diagMat d * diagMat di = 1 := by
  unfold diagMat; rw [diagonal_mul_diagonal, ← diagonal_one]; congr 1; funext i; exact hd i

/-- DiagonalMatrix / PositiveDiagonalMatrix: `grad_log_abs_det = 1 / d` (1-D array parameter). -/
theorem diagonal_logdet {ε : R} (hε : ε * ε = 0) (d di δ : n → R) (hd : ∀ i, d i * di i = 1) :
    det (diagMat (d + ε • δ))
      = det (diagMat d) * (1 + ε * innerVec (diagGradLogDet di) δ) := by
  refine logdet_of_perturb hε (diagMat_perturb ε d δ) (diagMat_inv hd) ?_
  unfold diagMat diagGradLogDet innerVec
  rw [diagonal_mul_diagonal, trace_diagonal]

example := diagonal_logdet hεq _ _ ![3, 7] diag_ex

/-- … `grad_quadratic_form_inv(v) = -((v / d)²)`. -/
theorem diagonal_quad {ε : R} (hε : ε * ε = 0) (d di δ : n → R) (hd : ∀ i, d i * di i = 1)
    (v : n → R) :
    (∃ Xh, diagMat (d + ε • δ) * Xh = 1) ∧
      ∀ Xh, diagMat (d + ε • δ) * Xh = 1 →
        v ⬝ᵥ Xh *ᵥ v = v ⬝ᵥ diagMat di *ᵥ v + ε * innerVec (diagGradQuad di v) δ := by
  refine quad_of_perturb hε (diagMat_perturb ε d δ) (diagMat_inv hd) v ?_
  unfold diagMat diagGradQuad innerVec
  simp only [diagonal_transpose, mulVec_diagonal, dotProduct, ← Finset.sum_neg_distrib]
  exact Finset.sum_congr rfl fun i _ => by ring

example := diagonal_quad hεq _ _ ![3, 7] diag_ex ![1, -2]

/-! ## DenseDefiniteMatrix -/

/-- DenseDefiniteMatrix / DensePositiveDefiniteMatrix (parameter: the full array, all entries
independent, direction `δ` arbitrary): `grad_log_abs_det = self.inv.array`.  Uses the symmetry
`Aᵀ = A` of the parameter value (the true gradient is `A⁻ᵀ`). -/
theorem dense_logdet {ε : R} (hε : ε * ε = 0) (A X δ : Matrix n n R) (hA : Aᵀ = A)
    (hX : A * X = 1) :
    det (A + ε • δ) = det A * (1 + ε * innerMat (denseGradLogDet X) δ) := by
  refine logdet_of_perturb hε rfl hX ?_
  rw [trace_mul_eq_innerMat, inv_symm hA hX]; rfl

example := dense_logdet hεq dA dX !![1, 2; 3, 4] dA_symm dA_inv

/-- … `grad_quadratic_form_inv(v) = -outer(A⁻¹v, A⁻¹v)` (again for symmetric `A`). -/
theorem dense_quad {ε : R} (hε : ε * ε = 0) (A X δ : Matrix n n R) (hA : Aᵀ = A)
    (hX : A * X = 1) (v : n → R) :
    (∃ Xh, (A + ε • δ) * Xh = 1) ∧
      ∀ Xh, (A + ε • δ) * Xh = 1 →
        v ⬝ᵥ Xh *ᵥ v = v ⬝ᵥ X *ᵥ v + ε * innerMat (denseGradQuad X v) δ := by
  refine quad_of_perturb hε rfl hX v ?_
  rw [inv_symm hA hX, dot_mulVec_eq_innerMat, denseGradQuad, innerMat_neg]

example := dense_quad hεq dA dX !![1, 2; 3, 4] dA_symm dA_inv ![1, -1]

/-! ## PositiveDefiniteLowRankUpdateMatrix -/

private theorem lowRank_perturb {ε : R} (hε : ε * ε = 0) (s : R) (P : Matrix n n R)
    (U δ : Matrix n m R) (K : Matrix m m R) :
    lowRank s P (U + ε • δ) K = lowRank s P U K + ε • (s • (δ * K * Uᵀ + U * K * δᵀ)) := by
  unfold lowRank
  rw [congruence_perturb hε, smul_add, smul_comm s ε, add_assoc]

private theorem lowRank_symm (s : R) (P : Matrix n n R) (hP : Pᵀ = P) (U : Matrix n m R)
    (K : Matrix m m R) (hK : Kᵀ = K) : (lowRank s P U K)ᵀ = lowRank s P U K := by
  unfold lowRank
  rw [transpose_add, transpose_smul, transpose_mul, transpose_mul, transpose_transpose, hK, hP,
    Matrix.mul_assoc]

/-- PositiveDefiniteLowRankUpdateMatrix `M = P + s U K Uᵀ` w.r.t. `U` (`P`, `K` symmetric, `s` any
scalar, in the code `±1`): `grad_log_abs_det = 2 s M⁻¹ U K` — **with** the factor `s`
(`reverts/C10-lowrank-downdate-sign.diff` drops it, see `lowrank_logdet_reverted_wrong`). -/
theorem lowrank_logdet {ε : R} (hε : ε * ε = 0) (s : R) (P : Matrix n n R) (hP : Pᵀ = P)
    (U δ : Matrix n m R) (K : Matrix m m R) (hK : Kᵀ = K) (X : Matrix n n R)
    (hX : lowRank s P U K * X = 1) :
    det (lowRank s P (U + ε • δ) K)
      = det (lowRank s P U K) * (1 + ε * innerMat (lowRankGradLogDet s X U K) δ) := by
  refine logdet_of_perturb hε (lowRank_perturb hε s P U δ K) hX ?_
  have hXs := inv_symm (lowRank_symm s P hP U K hK) hX
  rw [Matrix.mul_smul, trace_smul, congruence_trace X hXs U δ K hK, lowRankGradLogDet,
    innerMat_smul, smul_eq_mul]
  ring

example := lowrank_logdet hεq (-1 : 𝔻) lP (diagonal_transpose _) lU !![3; 4] 1 transpose_one 1 l_inv

/-- … `grad_quadratic_form_inv(v) = -2 s outer(M⁻¹v, K Uᵀ M⁻¹v)`. -/
theorem lowrank_quad {ε : R} (hε : ε * ε = 0) (s : R) (P : Matrix n n R) (hP : Pᵀ = P)
    (U δ : Matrix n m R) (K : Matrix m m R) (hK : Kᵀ = K) (X : Matrix n n R)
    (hX : lowRank s P U K * X = 1) (v : n → R) :
    (∃ Xh, lowRank s P (U + ε • δ) K * Xh = 1) ∧
      ∀ Xh, lowRank s P (U + ε • δ) K * Xh = 1 →
        v ⬝ᵥ Xh *ᵥ v = v ⬝ᵥ X *ᵥ v + ε * innerMat (lowRankGradQuad s X U K v) δ := by
  refine quad_of_perturb hε (lowRank_perturb hε s P U δ K) hX v ?_
  have hXs := inv_symm (lowRank_symm s P hP U K hK) hX
  rw [hXs, smul_mulVec, dotProduct_smul, congruence_quad U δ K hK, lowRankGradQuad,
    innerMat_smul, smul_eq_mul]
  ring

example := lowrank_quad hεq (-1 : 𝔻) lP (diagonal_transpose _) lU !![3; 4] 1 transpose_one 1 l_inv
  ![1, 2]

/-! ## DensePositiveDefiniteProductMatrix -/

private theorem prodMat_eq_lowRank (Rm : Matrix n m R) (P : Matrix m m R) :
    prodMat Rm P = lowRank 1 0 Rm P := by
  unfold prodMat lowRank; rw [one_smul, zero_add]

/-- DensePositiveDefiniteProductMatrix `M = R P Rᵀ` w.r.t. the rectangular `R` (`P` symmetric;
`pos_def_matrix=None` is `P = 1`): `grad_log_abs_det = 2 M⁻¹ R P`. -/
theorem product_logdet {ε : R} (hε : ε * ε = 0) (Rm δ : Matrix n m R) (P : Matrix m m R)
    (hP : Pᵀ = P) (X : Matrix n n R) (hX : prodMat Rm P * X = 1) :
    det (prodMat (Rm + ε • δ) P)
      = det (prodMat Rm P) * (1 + ε * innerMat (prodGradLogDet X Rm P) δ) := by
  rw [prodMat_eq_lowRank] at hX
  have := lowrank_logdet hε 1 0 transpose_zero Rm δ P hP X hX
  rw [prodMat_eq_lowRank, prodMat_eq_lowRank, this]
  unfold lowRankGradLogDet prodGradLogDet
  rw [mul_one]

example := product_logdet hεq pR !![1, 2, 3; 4, 5, 6] pP (diagonal_transpose _) pX pR_inv

/-- … `grad_quadratic_form_inv(v) = -2 outer(M⁻¹v, P Rᵀ M⁻¹v)`. -/
theorem product_quad {ε : R} (hε : ε * ε = 0) (Rm δ : Matrix n m R) (P : Matrix m m R)
    (hP : Pᵀ = P) (X : Matrix n n R) (hX : prodMat Rm P * X = 1) (v : n → R) :
    (∃ Xh, prodMat (Rm + ε • δ) P * Xh = 1) ∧
      ∀ Xh, prodMat (Rm + ε • δ) P * Xh = 1 →
        v ⬝ᵥ Xh *ᵥ v = v ⬝ᵥ X *ᵥ v + ε * innerMat (prodGradQuad X Rm P v) δ := by
  rw [prodMat_eq_lowRank] at hX
  have := lowrank_quad hε 1 0 transpose_zero Rm δ P hP X hX v
  rw [prodMat_eq_lowRank]
  unfold lowRankGradQuad at this
  unfold prodGradQuad
  rwa [mul_one] at this

example := product_quad hεq pR !![1, 2, 3; 4, 5, 6] pP (diagonal_transpose _) pX pR_inv ![1, 2]

section Tri
variable [LinearOrder n]

/-- TriangularFactored(Positive)DefiniteMatrix `M = s · tri(A) tri(A)ᵀ`, lower or upper, w.r.t. the
**array argument** `A` (all entries; those outside the stored triangle are ignored by the class, so
the gradient must vanish there — the direction `δ` is an arbitrary matrix):
`grad_log_abs_det = diag(2 / F_ii)`. -/
theorem trifactored_logdet {ε : R} (hε : ε * ε = 0) (lower : Bool) (s : R)
    (A δ : Matrix n n R) (fdi : n → R) (hF : ∀ i, A i i * fdi i = 1) :
    det (triFactored lower s (A + ε • δ))
      = det (triFactored lower s A) * (1 + ε * innerMat (triFactoredGradLogDet fdi) δ) := by
  have hdet : ∀ B : Matrix n n R, det (triFactored lower s B)
      = s ^ Fintype.card n * ((∏ i, B i i) * (∏ i, B i i)) := by
    intro B
    unfold triFactored
    rw [det_smul, det_mul, det_transpose, det_tri]
  have hprod : ∏ i, (A + ε • δ) i i = (∏ i, A i i) * (1 + ε * ∑ i, fdi i * δ i i) := by
    rw [← prod_one_add_eps hε, ← Finset.prod_mul_distrib]
    refine Finset.prod_congr rfl fun i _ => ?_
    rw [Matrix.add_apply, Matrix.smul_apply, smul_eq_mul]
    linear_combination (-(ε * δ i i)) * hF i
  rw [hdet, hdet, hprod, triFactoredGradLogDet, innerMat_diagonal]
  have : ∑ i, 2 * fdi i * δ i i = 2 * ∑ i, fdi i * δ i i := by
    rw [Finset.mul_sum]; exact Finset.sum_congr rfl fun i _ => by ring
  rw [this]
  generalize (∑ i, fdi i * δ i i) = a
  generalize (∏ i, A i i) = p
  have : (p * (1 + ε * a)) * (p * (1 + ε * a)) = p * p * (1 + ε * (2 * a)) + (ε * ε) * (p*p*a*a) := by
    ring
  rw [this, hε]; ring

example := trifactored_logdet hεq true (-1 : 𝔻) triA !![1, 2; 3, 4] ![1, -1]
  (by intro i; fin_cases i <;> simp [triA])

/-- … `grad_quadratic_form_inv(v) = tri(-2 outer(M⁻¹v, F⁻¹v))` for `s = ±1` (`s * s = 1`), **without**
an extra factor `s`, and truncated to the stored triangle (`_make_array_triangular`): the identity
holds for every direction `δ`, including directions supported outside the triangle. -/
theorem trifactored_gradq_sign {ε : R} (hε : ε * ε = 0) (lower : Bool) (s : R) (hs : s * s = 1)
    (A δ Y : Matrix n n R) (hY : tri lower A * Y = 1) (v : n → R) :
    (∃ Xh, triFactored lower s (A + ε • δ) * Xh = 1) ∧
      ∀ Xh, triFactored lower s (A + ε • δ) * Xh = 1 →
        v ⬝ᵥ Xh *ᵥ v = v ⬝ᵥ triFactoredInv s Y *ᵥ v
          + ε * innerMat (triFactoredGradQuad lower s Y v) δ := by
  have hX : lowRank s 0 (tri lower A) 1 * triFactoredInv s Y = 1 := by
    rw [← triFactored_eq_lowRank]; exact triFactored_inv hs hY
  have h := lowrank_quad hε s 0 transpose_zero (tri lower A) (tri lower δ) 1 transpose_one
    (triFactoredInv s Y) hX v
  have hY' : Y * tri lower A = 1 := mul_eq_one_comm.mp hY
  have hw : (tri lower A)ᵀ *ᵥ (triFactoredInv s Y *ᵥ v) = s • (Y *ᵥ v) := by
    unfold triFactoredInv
    rw [smul_mulVec, mulVec_smul, ← mulVec_mulVec, mulVec_mulVec (Y *ᵥ v), ← transpose_mul,
      hY', transpose_one, one_mulVec]
  have key : innerMat (lowRankGradQuad s (triFactoredInv s Y) (tri lower A) 1 v) (tri lower δ)
      = innerMat (triFactoredGradQuad lower s Y v) δ := by
    rw [innerMat_tri, lowRankGradQuad, triFactoredGradQuad, one_mulVec, hw]
    congr 2
    ext i j
    simp only [Matrix.smul_apply, outer, of_apply, Pi.smul_apply, smul_eq_mul]
    linear_combination (-2 * (triFactoredInv s Y *ᵥ v) i * (Y *ᵥ v) j) * hs
  rw [triFactored_eq_lowRank, tri_add, tri_smul, ← key]
  exact h

example := trifactored_gradq_sign hεq true (-1 : 𝔻) (by norm_num) triA !![1, 2; 3, 4] triY tri_ex
  ![1, 2]

end Tri
/-! ## PositiveDefiniteBlockDiagonalMatrix -/

/-- PositiveDefiniteBlockDiagonalMatrix, two blocks (a tuple of `k` blocks is the iterated binary
case `blockDiag2 B₁ (blockDiag2 B₂ …)`, which is also how the driver assembles it): if the blocks'
gradients are `ga`, `gb` (in the sense of the theorems above, `ga = ⟨grad A, δA⟩` …) then the
tuple of the gradients is the gradient: `⟨(gA, gB), (δA, δB)⟩ = ga + gb`. -/
theorem blockdiag_logdet {ε : R} (hε : ε * ε = 0) {A Ah : Matrix n n R} {B Bh : Matrix m m R}
    {ga gb : R} (hA : det Ah = det A * (1 + ε * ga)) (hB : det Bh = det B * (1 + ε * gb)) :
    det (blockDiag2 Ah Bh) = det (blockDiag2 A B) * (1 + ε * (ga + gb)) :=
  blockDiag2_logdet hε hA hB

-- non-vacuity: a scaled identity block (size 3) and a dense block (size 2)
example := blockdiag_logdet hεq
  (scaledIdentity_logdet (n := Fin 3) hεq (TrivSqZeroExt.inl 2) (TrivSqZeroExt.inl (1/2)) 5
    (inl_inv (by norm_num)))
  (dense_logdet hεq dA dX !![1, 2; 3, 4] dA_symm dA_inv)

/-- … and the quadratic form splits the vector `Sum.elim v w` into the blocks' parts. -/
theorem blockdiag_quad {ε : R} {Ah X : Matrix n n R} {Bh Y : Matrix m m R} {v : n → R}
    {w : m → R} {ga gb : R}
    (hA : (∃ Xh, Ah * Xh = 1) ∧ ∀ Xh, Ah * Xh = 1 → v ⬝ᵥ Xh *ᵥ v = v ⬝ᵥ X *ᵥ v + ε * ga)
    (hB : (∃ Yh, Bh * Yh = 1) ∧ ∀ Yh, Bh * Yh = 1 → w ⬝ᵥ Yh *ᵥ w = w ⬝ᵥ Y *ᵥ w + ε * gb) :
    (∃ Zh, blockDiag2 Ah Bh * Zh = 1) ∧
      ∀ Zh, blockDiag2 Ah Bh * Zh = 1 →
        Sum.elim v w ⬝ᵥ Zh *ᵥ Sum.elim v w
          = Sum.elim v w ⬝ᵥ blockDiag2 X Y *ᵥ Sum.elim v w + ε * (ga + gb) :=
  blockDiag2_quad hA hB

example := blockdiag_quad
  (scaledIdentity_quad (n := Fin 3) hεq (TrivSqZeroExt.inl 2) (TrivSqZeroExt.inl (1/2)) 5
    (inl_inv (by norm_num)) ![1, 2, 3])
  (dense_quad hεq dA dX !![1, 2; 3, 4] dA_symm dA_inv ![1, -1])

/-! ## SoftAbs -/

/-
SoftAbsRegularizedPositiveDefiniteMatrix.  FULL STATEMENT (not proved — `tanh` is not algebraic and
the Daleckii–Krein theorem for C¹ functions needs real analysis): for `f = softabs_α`,
`H = Q diag(λ) Qᵀ` real symmetric, `M(H) = Q diag(f λ) Qᵀ`,
  `d/dt log|det M(H + tδ)| = ⟨Q diag(f'(λ)/f(λ)) Qᵀ, δ⟩`,
  `d/dt vᵀ M(H + tδ)⁻¹ v = ⟨-Q ((e eᵀ) ⊙ J) Qᵀ, δ⟩`, `e = Qᵀv / f(λ)`,
  `J a b = (f λa - f λb)/(λa - λb)` if `λa ≠ λb`, `f'(λa)` if `λa = λb` (also for `a ≠ b`).
PROVED (`…_partial`): exactly this for every *polynomial* spectral function `f = Σ aₖ xᵏ`
(coefficient list `p`), over any commutative ring with `ε² = 0`, including repeated eigenvalues.
Missing: passage from polynomials to `x / tanh(αx)` (covered by the finite-difference oracle).
-/

/-- `f(Q Λ Qᵀ) = Q f(Λ) Qᵀ`: the class's defining formula `eigvec @ diag(f(eigval)) @ eigvec.T` is the
matrix polynomial `f(H)`. -/
theorem softabs_matrix_partial (p : List R) (Q : Matrix n n R) (lam : n → R)
    (hQ : Q * Qᵀ = 1) :
    polyMat p (specMat Q lam) = specMat Q fun a => polyEval p (lam a) :=
  polyMat_spec Q lam hQ p

example := softabs_matrix_partial sP sQ sLam sQ_orth

private theorem softabs_inv (p : List R) (Q : Matrix n n R) (lam fli : n → R)
    (hQ : Q * Qᵀ = 1) (hfl : ∀ a, polyEval p (lam a) * fli a = 1) :
    polyMat p (specMat Q lam) * specMat Q fli = 1 := by
  rw [polyMat_spec Q lam hQ, specMat_mul_specMat Q (mul_eq_one_comm.mp hQ)]
  simp only [hfl]
  exact specMat_one Q hQ

/-- `grad_log_abs_det = Q diag(f'(λ)/f(λ)) Qᵀ` for polynomial `f` (direction `δ` arbitrary). -/
theorem softabs_logdet_partial {ε : R} (hε : ε * ε = 0) (p : List R) (Q : Matrix n n R)
    (lam fli : n → R) (hQ : Q * Qᵀ = 1) (hfl : ∀ a, polyEval p (lam a) * fli a = 1)
    (δ : Matrix n n R) :
    det (polyMat p (specMat Q lam + ε • δ))
      = det (polyMat p (specMat Q lam))
        * (1 + ε * innerMat (softabsGradLogDet Q (fun a => polyDeriv p (lam a)) fli) δ) := by
  refine logdet_of_perturb hε (polyMat_perturb hε p _ δ) (softabs_inv p Q lam fli hQ hfl) ?_
  rw [polyMatD_spec Q lam hQ]
  exact softabs_trace Q lam fli hQ p δ

example := softabs_logdet_partial hεq sP sQ sLam sFli sQ_orth sFl !![1, 2, 3; 2, 0, 1; 3, 1, 5]

/-- `grad_quadratic_form_inv(v) = -Q ((e eᵀ) ⊙ J) Qᵀ`, `J a b = polyDD p (λa) (λb)` for polynomial `f`. -/
theorem softabs_quad_partial {ε : R} (hε : ε * ε = 0) (p : List R) (Q : Matrix n n R)
    (lam fli : n → R) (hQ : Q * Qᵀ = 1) (hfl : ∀ a, polyEval p (lam a) * fli a = 1)
    (δ : Matrix n n R) (v : n → R) :
    (∃ Xh, polyMat p (specMat Q lam + ε • δ) * Xh = 1) ∧
      ∀ Xh, polyMat p (specMat Q lam + ε • δ) * Xh = 1 →
        v ⬝ᵥ Xh *ᵥ v = v ⬝ᵥ specMat Q fli *ᵥ v
          + ε * innerMat
              (softabsGradQuad Q fli (Matrix.of fun a b => polyDD p (lam a) (lam b)) v) δ := by
  refine quad_of_perturb hε (polyMat_perturb hε p _ δ) (softabs_inv p Q lam fli hQ hfl) v ?_
  rw [polyMatD_spec Q lam hQ]
  exact softabs_quadterm Q lam fli hQ p δ v

example := softabs_quad_partial hεq sP sQ sLam sFli sQ_orth sFl !![1, 2, 3; 2, 0, 1; 3, 1, 5]
  ![1, 2, 3]

/-- The code's `j_mtx` (with exact coincidence test, `tol = 0`) is that `J`: divided difference off
coincidences, derivative at the (mid)point on the diagonal **and** for repeated eigenvalues `a ≠ b`. -/
theorem softabs_J_partial {K : Type*} [Field K] [LinearOrder K] [IsStrictOrderedRing K]
    (p : List K) (lam : n → K) :
    softabsJ 0 (polyEval p) (polyDeriv p) lam = Matrix.of fun a b => polyDD p (lam a) (lam b) := by
  ext a b
  simp only [softabsJ, of_apply, zero_mul, abs_nonpos_iff, sub_eq_zero]
  split
  · next h => rw [h, ← two_mul, mul_div_cancel_left₀ _ (two_ne_zero), polyDD_self]
  · next h =>
    rw [div_eq_iff (sub_ne_zero.mpr h)]
    exact (polyDD_mul_sub p _ _).symm

example := softabs_J_partial (K := ℚ) [0, 0, 0, 1] ![1, 1, -1]


/-! ## The pre-fix formulas contradict the theorems -/

/-- The pre-fix formula `-2 * sign * outer(...)` contradicts `trifactored_gradq_sign` for `sign = -1`
(1×1 instance `M(t) = -(1+t)²`, `v = 1`: the derivative of `vᵀM⁻¹v = -(1+t)⁻²` at 0 is `+2`,
the reverted formula gives `-2`). -/
theorem trifactored_gradq_reverted_wrong :
    ¬ ∀ Xh : Matrix (Fin 1) (Fin 1) 𝔻,
        triFactored true (-1 : 𝔻) ((1 : Matrix (Fin 1) (Fin 1) 𝔻) + εq • 1) * Xh = 1 →
          (fun _ : Fin 1 => (1 : 𝔻)) ⬝ᵥ Xh *ᵥ (fun _ => 1)
            = (fun _ : Fin 1 => (1 : 𝔻)) ⬝ᵥ
                triFactoredInv (-1) (1 : Matrix (Fin 1) (Fin 1) 𝔻) *ᵥ (fun _ => 1)
              + εq * innerMat (triFactoredGradQuadReverted true (-1)
                  (1 : Matrix (Fin 1) (Fin 1) 𝔻) fun _ => 1) (1 : Matrix (Fin 1) (Fin 1) 𝔻) := by
  intro h
  have hY : tri true (1 : Matrix (Fin 1) (Fin 1) 𝔻) * 1 = 1 := by
    rw [Matrix.mul_one]; funext i j
    have hij : j ≤ i := le_of_eq (Subsingleton.elim _ _)
    simp [tri]
  obtain ⟨⟨Xh, hXh⟩, hq⟩ := trifactored_gradq_sign (DualNumber.eps_mul_eps) true (-1 : 𝔻)
    (by simp) 1 1 1 hY (fun _ => 1)
  have h1 := hq Xh hXh
  have h2 := h Xh hXh
  rw [h1] at h2
  have h3 := add_left_cancel h2
  simp [innerMat, triFactoredGradQuad, triFactoredGradQuadReverted, triFactoredInv, tri, outer,
    Matrix.mulVec, dotProduct] at h3
  have h4 : εq * ((4 : ℕ) : 𝔻) = 0 := by push_cast; linear_combination h3
  rw [← TrivSqZeroExt.inl_natCast] at h4
  have := congrArg TrivSqZeroExt.snd h4
  simp at this

/-- The pre-fix low-rank formula (no `sign`) contradicts `lowrank_logdet` for `sign = -1`
(1×1 instance `M(t) = 2 - (1+t)²`: `d/dt log|det M|` at 0 is `-2`, the reverted formula gives `+2`). -/
theorem lowrank_logdet_reverted_wrong :
    ¬ det (lowRank (-1 : 𝔻) (scaledId (Fin 1) 2) ((1 : Matrix (Fin 1) (Fin 1) 𝔻) + εq • 1) 1)
        = det (lowRank (-1 : 𝔻) (scaledId (Fin 1) 2) (1 : Matrix (Fin 1) (Fin 1) 𝔻) 1)
          * (1 + εq * innerMat (lowRankGradLogDetReverted (1 : Matrix (Fin 1) (Fin 1) 𝔻)
              (1 : Matrix (Fin 1) (Fin 1) 𝔻) 1) 1) := by
  intro h
  have hM : lowRank (-1 : 𝔻) (scaledId (Fin 1) 2) (1 : Matrix (Fin 1) (Fin 1) 𝔻) 1 = 1 := by
    unfold lowRank scaledId
    rw [Matrix.mul_one, transpose_one, Matrix.mul_one, ← add_smul]
    norm_num
  have hP : (scaledId (Fin 1) (2 : 𝔻))ᵀ = scaledId (Fin 1) 2 := by
    unfold scaledId; rw [transpose_smul, transpose_one]
  have h1 := lowrank_logdet hεq (-1 : 𝔻) (scaledId (Fin 1) 2) hP 1 1 1 transpose_one 1
    (by rw [hM, Matrix.mul_one])
  rw [h1, hM, det_one, one_mul, one_mul] at h
  have h3 := add_left_cancel h
  simp [innerMat, lowRankGradLogDet, lowRankGradLogDetReverted] at h3
  have h4 : εq * ((4 : ℕ) : 𝔻) = 0 := by push_cast; linear_combination (-1 : 𝔻) * h3
  rw [← TrivSqZeroExt.inl_natCast] at h4
  have := congrArg TrivSqZeroExt.snd h4
  simp at this


/-! ## `DualNumber K` reading at a real parameter and a real direction -/

private theorem innerMat_map {K S : Type*} [CommRing K] [CommRing S] (f : K →+* S) {m : Type*}
    [Fintype m] (G D : Matrix n m K) : innerMat (G.map f) (D.map f) = f (innerMat G D) := by
  simp [innerMat, map_sum, map_mul]

/-- `dense_logdet` read in `DualNumber K` at a real parameter and a real direction: the
`ε`-coefficient of `det (A + ε δ)` is `det A * ⟨grad_log_abs_det, δ⟩`. -/
theorem dense_logdet_dual {K : Type*} [CommRing K] (A X δ : Matrix n n K) (hA : Aᵀ = A)
    (hX : A * X = 1) :
    det (A.map (TrivSqZeroExt.inlHom K K) + (DualNumber.eps : DualNumber K) • δ.map (TrivSqZeroExt.inlHom K K))
      = TrivSqZeroExt.inl (det A)
        * (1 + DualNumber.eps * TrivSqZeroExt.inl (innerMat (denseGradLogDet X) δ)) := by
  have h := dense_logdet (DualNumber.eps_mul_eps (R := K)) (A.map (TrivSqZeroExt.inlHom K K))
    (X.map (TrivSqZeroExt.inlHom K K)) (δ.map (TrivSqZeroExt.inlHom K K))
    (by rw [← transpose_map, hA]) (by rw [← Matrix.map_mul, hX, Matrix.map_one _ (map_zero _) (map_one _)])
  rw [h]
  unfold denseGradLogDet
  rw [innerMat_map, ← RingHom.mapMatrix_apply, ← RingHom.map_det]
  rfl

/-- … and the quadratic form: the `ε`-coefficient of `vᵀ (A + ε δ)⁻¹ v` is
`⟨grad_quadratic_form_inv v, δ⟩`. -/
theorem dense_quad_dual {K : Type*} [CommRing K] (A X δ : Matrix n n K) (hA : Aᵀ = A)
    (hX : A * X = 1) (v : n → K) (Xh : Matrix n n (DualNumber K))
    (hXh : (A.map (TrivSqZeroExt.inlHom K K)
      + (DualNumber.eps : DualNumber K) • δ.map (TrivSqZeroExt.inlHom K K)) * Xh = 1) :
    (fun i => TrivSqZeroExt.inl (v i)) ⬝ᵥ Xh *ᵥ (fun i => (TrivSqZeroExt.inl (v i) : DualNumber K))
      = TrivSqZeroExt.inl (v ⬝ᵥ X *ᵥ v)
        + DualNumber.eps * TrivSqZeroExt.inl (innerMat (denseGradQuad X v) δ) := by
  let f := TrivSqZeroExt.inlHom K K
  have h := (dense_quad (DualNumber.eps_mul_eps (R := K)) (A.map f) (X.map f) (δ.map f)
    (by rw [← transpose_map, hA]) (by rw [← Matrix.map_mul, hX, Matrix.map_one _ (map_zero _) (map_one _)])
    (fun i => f (v i))).2 Xh hXh
  have e1 : (fun i => f (v i)) ⬝ᵥ X.map f *ᵥ (fun i => f (v i)) = f (v ⬝ᵥ X *ᵥ v) := by
    simp [dotProduct, mulVec, map_sum, map_mul]
  have e2 : denseGradQuad (X.map f) (fun i => f (v i)) = (denseGradQuad X v).map f := by
    apply Matrix.ext; intro i j
    simp [denseGradQuad, outer, mulVec, dotProduct, map_sum, map_mul]
  rw [e1, e2, innerMat_map] at h
  exact h

end MiciVerif.C11
