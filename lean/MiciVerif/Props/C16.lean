/-
C16 — Adaptation is confined to warm-up and stages partition the iterations exactly.

Property theorems only (helper lemmas are `private` and local).  All statements are for
every warm-up / main count, every window configuration with `1 ≤ initSlowWindow`,
`1 ≤ mult` (exactly what `WindowedWarmUpStager.__init__` accepts), every pair of fallback
fraction functions with `f15 n + f10 n ≤ n` and every abstract adapter.
-/
import MiciVerif.Model.Stagers
import Mathlib.Tactic.Linarith
import Mathlib.Tactic.Push
import Mathlib.Data.Rat.Defs
import Mathlib.Algebra.Order.Field.Rat

namespace MiciVerif.C16
open MiciVerif.Stagers

private theorem le_floor_toNat (q : Rat) (k : Nat) (h : (k : Rat) ≤ q) : k ≤ q.floor.toNat := by
  have h1 : (k : Int) ≤ q.floor := Rat.le_floor_iff.mpr (by exact_mod_cast h)
  omega

private theorem nat_le_mul (mult : Rat) (hm : 1 ≤ mult) (w : Nat) :
    (w : Rat) ≤ mult * (w : Rat) := by
  have hw : (0 : Rat) ≤ (w : Rat) := by exact_mod_cast Nat.zero_le w
  nlinarith

/-- The slow-window loop terminates within `total - counter` iterations and its windows sum
exactly to the slow iterations that were left; every window is non-empty. -/
theorem windows_sum (mult : Rat) (hm : 1 ≤ mult) (total : Nat) :
    ∀ (fuel counter w : Nat), 1 ≤ w → counter ≤ total → total - counter ≤ fuel →
      (windows mult total fuel counter w).sum = total - counter ∧
      ∀ x ∈ windows mult total fuel counter w, 1 ≤ x := by
  intro fuel
  induction fuel with
  | zero =>
    intro counter w _ hc hf
    simp [windows]; omega
  | succ fuel ih =>
    intro counter w hw hc hf
    unfold windows
    by_cases hlt : counter < total
    · simp only [hlt, if_true]
      set next := counter + ((1 + mult) * (w : Rat)).floor.toNat with hnext
      set w' := if next > total then total - counter else w with hw'
      have hfl : w ≤ ((1 + mult) * (w : Rat)).floor.toNat :=
        le_floor_toNat _ _ (nat_le_mul (1 + mult) (by linarith) w)
      have hw'1 : 1 ≤ w' := by
        simp only [hw']; split <;> omega
      have hw'le : w' ≤ total - counter := by
        simp only [hw']; split
        · exact Nat.le_refl _
        · omega
      have hw'' : 1 ≤ (mult * (w' : Rat)).floor.toNat :=
        Nat.le_trans hw'1 (le_floor_toNat _ _ (nat_le_mul mult hm w'))
      obtain ⟨ihs, ihp⟩ := ih (counter + w') _ hw'' (by omega) (by omega)
      constructor
      · simp only [List.sum_cons, ihs]; omega
      · intro x hx
        rcases List.mem_cons.mp hx with h | h
        · omega
        · exact ihp x h
    · simp only [hlt, if_false]
      constructor
      · simp; omega
      · intro x hx; simp at hx

private theorem warmSum_append (a b : List Stage) : warmSum (a ++ b) = warmSum a + warmSum b := by
  simp [warmSum, List.filter_append, List.map_append, List.sum_append]

private theorem warmSum_slow (l : List Nat) (t : Bool) :
    warmSum (l.map (fun n => (⟨n, .slow, t, t⟩ : Stage))) = l.sum := by
  induction l with
  | nil => simp [warmSum]
  | cons a l ih =>
    simp only [List.map_cons]
    have : warmSum ((⟨a, .slow, t, t⟩ : Stage) :: l.map (fun n => (⟨n, .slow, t, t⟩ : Stage)))
        = a + warmSum (l.map (fun n => (⟨n, .slow, t, t⟩ : Stage))) := by
      simp [warmSum]
    rw [this, ih]; simp

/-- `WarmUpStager`: warm-up stage lengths sum to the requested warm-up count. -/
theorem warmUp_warm_sum (nWarm nMain : Nat) (t : Bool) :
    warmSum (warmUpStages nWarm nMain t) = nWarm := by
  unfold warmUpStages
  by_cases h1 : nWarm > 0 <;> by_cases h2 : nMain > 0 <;> simp [warmSum, h1, h2] <;> omega

/-- `WindowedWarmUpStager`: for every admissible configuration the lengths of all
warm-up stages (initial fast, all slow windows, final fast) sum exactly to `nWarm`. -/
theorem windowed_warm_sum (c : Config) (f15 f10 : Nat → Nat)
    (hf : ∀ n, f15 n + f10 n ≤ n) (hw : 1 ≤ c.initSlowWindow) (hm : 1 ≤ c.mult)
    (nWarm nMain : Nat) (t : Bool) :
    warmSum (windowedStagesWith c f15 f10 nWarm nMain t) = nWarm := by
  unfold windowedStagesWith sizes
  by_cases hfb : c.initFast + c.initSlowWindow + c.finalFast > nWarm
  · -- fallback sizes
    simp only [hfb, if_true]
    have h := hf nWarm
    by_cases h1 : nWarm > 0
    · have hslow : 1 ≤ nWarm - f15 nWarm - f10 nWarm ∨ nWarm - f15 nWarm - f10 nWarm = 0 := by omega
      have hws := (windows_sum c.mult hm (nWarm - f15 nWarm - f10 nWarm)
        (nWarm - f15 nWarm - f10 nWarm + 1) 0 (max 1 (nWarm - f15 nWarm - f10 nWarm))
        (by omega) (by omega) (by omega)).1
      rcases hslow with hs | hs
      · have hmax : max 1 (nWarm - f15 nWarm - f10 nWarm) = nWarm - f15 nWarm - f10 nWarm := by omega
        rw [hmax] at hws
        simp only [h1, if_true]
        by_cases h2 : nMain > 0 <;>
          simp only [h2, if_true, if_false, warmSum_append, warmSum_slow, hws, List.append_nil] <;>
          simp [warmSum] <;> omega
      · -- no slow iterations at all: the loop body never runs
        simp only [h1, if_true, hs]
        by_cases h2 : nMain > 0 <;> simp [h2, warmSum, windows] <;> omega
    · have : nWarm = 0 := by omega
      subst this
      by_cases h2 : nMain > 0 <;> simp [warmSum, h2]
  · simp only [hfb, if_false]
    have hle : c.initFast + c.initSlowWindow + c.finalFast ≤ nWarm := by omega
    have h1 : nWarm > 0 := by omega
    have hws := (windows_sum c.mult hm (nWarm - c.initFast - c.finalFast)
      (nWarm - c.initFast - c.finalFast + 1) 0 c.initSlowWindow hw (by omega) (by omega)).1
    simp only [h1, if_true]
    by_cases h2 : nMain > 0 <;>
      simp only [h2, if_true, if_false, warmSum_append, warmSum_slow, hws, List.append_nil] <;>
      simp [warmSum] <;> omega

/-- The fallback fractions used by the code satisfy the hypothesis of `windowed_warm_sum`. -/
theorem frac_ok (n : Nat) : frac15 n + frac10 n ≤ n := by
  unfold frac15 frac10; omega

/-- The final stage is the non-adaptive main stage of the requested length, and it is the
only main stage (both stagers). -/
theorem windowed_main_last (c : Config) (f15 f10 : Nat → Nat) (nWarm nMain : Nat) (t : Bool)
    (h : 0 < nMain) :
    ∃ pre, windowedStagesWith c f15 f10 nWarm nMain t = pre ++ [⟨nMain, .main, true, true⟩] ∧
      ∀ s ∈ pre, s.kind ≠ .main := by
  unfold windowedStagesWith
  simp only [h, if_true, gt_iff_lt]
  refine ⟨_, rfl, ?_⟩
  intro s hs
  split at hs
  · simp only [List.mem_append, List.mem_cons, List.mem_map, List.not_mem_nil, or_false] at hs
    rcases hs with (hs | ⟨_, _, hs⟩) | hs <;> subst hs <;> simp
  · simp at hs

theorem warmUp_main_last (nWarm nMain : Nat) (t : Bool) (h : 0 < nMain) :
    ∃ pre, warmUpStages nWarm nMain t = pre ++ [⟨nMain, .main, true, true⟩] ∧
      ∀ s ∈ pre, s.kind ≠ .main := by
  unfold warmUpStages
  simp only [h, if_true, gt_iff_lt]
  refine ⟨_, rfl, ?_⟩
  intro s hs
  split at hs
  · simp at hs; subst hs; simp
  · simp at hs

/-- Without main iterations no main stage exists (nothing is sampled non-adaptively). -/
theorem windowed_no_main (c : Config) (f15 f10 : Nat → Nat) (nWarm : Nat) (t : Bool) :
    ∀ s ∈ windowedStagesWith c f15 f10 nWarm 0 t, s.kind ≠ .main := by
  unfold windowedStagesWith
  intro s hs
  simp only [gt_iff_lt, Nat.lt_irrefl, if_false, List.append_nil] at hs
  split at hs
  · simp only [List.mem_append, List.mem_cons, List.mem_map, List.not_mem_nil, or_false] at hs
    rcases hs with (hs | ⟨_, _, hs⟩) | hs <;> subst hs <;> simp
  · simp at hs

/-- Slow adapters are active only in the slow windows: the first and the last warm-up stage
of the windowed stager are `fast` stages, everything strictly between them is `slow`. -/
theorem windowed_shape (c : Config) (f15 f10 : Nat → Nat) (nWarm nMain : Nat) (t : Bool)
    (h : 0 < nWarm) :
    ∃ (a b : Nat) (ws : List Nat), (windowedStagesWith c f15 f10 nWarm nMain t).filter (fun s => s.kind != .main) =
      [⟨a, .fast, t, t⟩] ++ ws.map (fun n => (⟨n, .slow, t, t⟩ : Stage)) ++ [⟨b, .fast, t, t⟩] := by
  unfold windowedStagesWith
  simp only [h, if_true, gt_iff_lt]
  refine ⟨(sizes c f15 f10 nWarm).1, (sizes c f15 f10 nWarm).2.1,
    windows c.mult (nWarm - (sizes c f15 f10 nWarm).1 - (sizes c f15 f10 nWarm).2.1)
      (nWarm - (sizes c f15 f10 nWarm).1 - (sizes c f15 f10 nWarm).2.1 + 1) 0
      (sizes c f15 f10 nWarm).2.2, ?_⟩
  rw [List.filter_append, List.filter_append, List.filter_append]
  have hmain : (if 0 < nMain then [(⟨nMain, Kind.main, true, true⟩ : Stage)] else []).filter
      (fun s => s.kind != .main) = [] := by
    split <;> simp
  rw [hmain, List.append_nil]
  congr 1
  congr 1
  rw [List.filter_eq_self.mpr]
  intro s hs
  simp only [List.mem_map] at hs
  obtain ⟨_, _, rfl⟩ := hs
  simp

/-! ### Stage loop: adaptation confined to warm-up -/

/-- A main stage never changes the transition parameters. -/
theorem main_params_constant {P} (A : Adapters P) (p : P) (n : Nat) (t s : Bool) :
    runStage A p ⟨n, .main, t, s⟩ = p := by
  unfold runStage; split <;> rfl

/-- A stage without iterations changes nothing. -/
theorem empty_stage_noop {P} (A : Adapters P) (p : P) (k : Kind) (t s : Bool) :
    runStage A p ⟨0, k, t, s⟩ = p := by
  simp [runStage]

/-- The parameters in force after any list of stages are unchanged by dropping all the
stages that have no iterations and all main stages: i.e. they are exactly those finalized
by the last warm-up stage that performed at least one update (or the initial ones if there
is no such stage). -/
theorem params_from_updating_stages {P} (A : Adapters P) (l : List Stage) (p : P) :
    runStages A p l = runStages A p (l.filter (fun s => s.n != 0 && s.kind != .main)) := by
  induction l generalizing p with
  | nil => rfl
  | cons s l ih =>
    unfold runStages at *
    simp only [List.foldl_cons, List.filter_cons]
    by_cases h0 : s.n = 0
    · have : runStage A p s = p := by simp [runStage, h0]
      simp [h0, this, ih]
    · by_cases hk : s.kind = .main
      · have : runStage A p s = p := by unfold runStage; simp [h0, hk]
        simp [hk, this, ih]
      · simp [h0, hk, ih]

/-- In particular: if the last stage is the main stage, the parameters it runs with (and
ends with) are the parameters produced by the warm-up stages before it. -/
theorem main_uses_warmup_result {P} (A : Adapters P) (pre : List Stage) (n : Nat) (t s : Bool)
    (p : P) :
    runStages A p (pre ++ [⟨n, .main, t, s⟩]) = runStages A p pre := by
  unfold runStages
  rw [List.foldl_append]
  simp only [List.foldl_cons, List.foldl_nil]
  exact main_params_constant A _ n t s

/-! ### The slow windows grow -/

private theorem windows_done (mult : Rat) (total fuel counter w : Nat) (h : total ≤ counter) :
    windows mult total fuel counter w = [] := by
  cases fuel with
  | zero => simp [windows]
  | succ f => unfold windows; simp [Nat.not_lt.mpr h]

/-- The slow windows grow: apart from the last window (which absorbs the remainder) every
window has exactly the current window size, the sizes are non-decreasing, and each is at
least the initial size. -/
theorem windows_growing (mult : Rat) (hm : 1 ≤ mult) (total : Nat) :
    ∀ (fuel counter w : Nat),
      (windows mult total fuel counter w).dropLast.Pairwise (· ≤ ·) ∧
      ∀ x ∈ (windows mult total fuel counter w).dropLast, w ≤ x := by
  intro fuel
  induction fuel with
  | zero => intro counter w; simp [windows]
  | succ fuel ih =>
    intro counter w
    unfold windows
    by_cases hlt : counter < total
    · simp only [hlt, if_true]
      set next := counter + ((1 + mult) * (w : Rat)).floor.toNat with hnext
      set w' := if next > total then total - counter else w with hw'
      set w2 := (mult * (w' : Rat)).floor.toNat with hw2
      have hw2le : w' ≤ w2 := le_floor_toNat _ _ (nat_le_mul mult hm w')
      obtain ⟨ihp, ihm⟩ := ih (counter + w') w2
      by_cases hnil : windows mult total fuel (counter + w') w2 = []
      · simp [hnil]
      · have hww : w' = w := by
          by_cases hn : next > total
          · exfalso; apply hnil
            apply windows_done
            simp only [hw', hn, if_true]; omega
          · simp only [hw', hn, if_false]
        rw [List.dropLast_cons_of_ne_nil hnil]
        constructor
        · rw [List.pairwise_cons]
          refine ⟨?_, ihp⟩
          intro x hx; have := ihm x hx; omega
        · intro x hx
          rcases List.mem_cons.mp hx with h | h
          · omega
          · have := ihm x h; omega
    · simp [hlt]

/-- Every window except the last is the floor of `mult` times its predecessor
(`n_window_iter = int(n_window_iter * multiplier)`): consecutive windows `a, b` that are
followed by at least one more window satisfy `b = ⌊mult · a⌋`. -/
theorem windows_ratio (mult : Rat) (total : Nat) :
    ∀ (fuel counter w : Nat) (pre : List Nat) (a b c : Nat) (post : List Nat),
      windows mult total fuel counter w = pre ++ a :: b :: c :: post →
      b = (mult * (a : Rat)).floor.toNat := by
  intro fuel
  induction fuel with
  | zero => intro counter w pre a b c post h; simp [windows] at h
  | succ fuel ih =>
    intro counter w pre a b c post h
    unfold windows at h
    by_cases hlt : counter < total
    · simp only [hlt, if_true] at h
      set next := counter + ((1 + mult) * (w : Rat)).floor.toNat with hnext
      set w' := if next > total then total - counter else w with hw'
      cases pre with
      | cons p pre =>
        simp only [List.cons_append, List.cons.injEq] at h
        exact ih _ _ pre a b c post h.2
      | nil =>
        simp only [List.nil_append, List.cons.injEq] at h
        obtain ⟨ha, hrest⟩ := h
        -- rest = b :: c :: post : unfold once more
        cases fuel with
        | zero => simp [windows] at hrest
        | succ f =>
          unfold windows at hrest
          by_cases hlt2 : counter + w' < total
          · simp only [hlt2, if_true] at hrest
            simp only [List.cons.injEq] at hrest
            obtain ⟨hb, hrest2⟩ := hrest
            -- the window b is followed by c, so it was not the remainder window
            by_cases hn : counter + w' + ((1 + mult) * (((mult * (w' : Rat)).floor.toNat : Nat) : Rat)).floor.toNat > total
            · exfalso
              simp only [hn, if_true] at hrest2 hb
              rw [windows_done] at hrest2
              · simp at hrest2
              · omega
            · simp only [hn, if_false] at hb
              rw [← hb, ← ha]
          · simp [hlt2] at hrest
    · simp [hlt] at h

/-- A positive number of remaining slow iterations always yields at least one slow window. -/
theorem windows_nonempty (mult : Rat) (total fuel counter w : Nat) (h : counter < total) :
    windows mult total (fuel + 1) counter w ≠ [] := by
  unfold windows; simp [h]

/-! ### Non-vacuity: concrete instances of the hypotheses -/

example : windowedStages {} 1000 500 false =
    [⟨75, .fast, false, false⟩, ⟨25, .slow, false, false⟩, ⟨50, .slow, false, false⟩,
     ⟨100, .slow, false, false⟩, ⟨200, .slow, false, false⟩, ⟨500, .slow, false, false⟩,
     ⟨50, .fast, false, false⟩, ⟨500, .main, true, true⟩] := by decide +kernel

example : windowedStages {} 6 3 true =
    [⟨0, .fast, true, true⟩, ⟨6, .slow, true, true⟩, ⟨0, .fast, true, true⟩,
     ⟨3, .main, true, true⟩] := by decide +kernel

example : (1 : Nat) ≤ ({} : Config).initSlowWindow ∧ (1 : Rat) ≤ ({} : Config).mult := by
  decide +kernel

example : windows 2 800 801 0 25 = [25, 50, 100, 200, 425] := by decide +kernel

end MiciVerif.C16
