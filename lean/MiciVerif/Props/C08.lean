/-
C08 — Momentum updates leave the Gaussian momentum law invariant.

A zero-mean Gaussian law is determined by its covariance (trusted fact), so invariance is
stated at the level of second moments of arbitrary finite weighted samples and as matrix
identities.  `L = metric.sqrt` and `a = (1 - c²)^½` are checked data.
-/
import MiciVerif.Model.Momentum
import Mathlib.LinearAlgebra.Matrix.NonsingularInverse
import Mathlib.Tactic.Ring
import Mathlib.Tactic.NoncommRing
import Mathlib.Tactic.Abel
import Mathlib.Algebra.Order.Field.Rat

set_option linter.unusedSectionVars false

namespace MiciVerif.C08
open Matrix MiciVerif.Constrained MiciVerif.Momentum

section Cov
variable {K : Type*} [CommRing K] {n c : Type*} [Fintype n] [Fintype c]

private theorem vecMulVec_mulVec_mulVec (A : Matrix n n K) (z : n → K) :
    vecMulVec (A *ᵥ z) (A *ᵥ z) = A * vecMulVec z z * Aᵀ := by
  rw [Matrix.mul_vecMulVec, Matrix.vecMulVec_mul, Matrix.vecMul_transpose]

/-- Linear images transform second moments by congruence: `E[(Az)(Az)ᵀ] = A E[zzᵀ] Aᵀ`, for
every finite weighted sample. -/
theorem secondMoment_map {ι : Type*} [Fintype ι] (A : Matrix n n K) (w : ι → K) (z : ι → n → K) :
    secondMoment w (fun i => A *ᵥ z i) = A * secondMoment w z * Aᵀ := by
  unfold secondMoment
  rw [Matrix.mul_sum, Matrix.sum_mul]
  refine Finset.sum_congr rfl fun i _ => ?_
  rw [vecMulVec_mulVec_mulVec, Matrix.mul_smul, Matrix.smul_mul]

/-- **Fresh momentum, unconstrained systems.** If `sqrt @ sqrt.T = metric` then `sqrt @ z` has
second moment `metric` whenever `z` has second moment `1` (standard normal draws). -/
theorem momentum_cov [DecidableEq n] {ι : Type*} [Fintype ι] (L M : Matrix n n K) (hL : L * Lᵀ = M)
    (w : ι → K) (z : ι → n → K) (hz : secondMoment w z = 1) :
    secondMoment w (fun i => sampleMomentum L (z i)) = M := by
  unfold sampleMomentum
  rw [secondMoment_map, hz, Matrix.mul_one, hL]

/-- `sample_momentum` of a constrained system is the *linear* map `P L` of the normal draw. -/
theorem sampleMomentumConstrained_linear [DecidableEq n] (J : Matrix c n K) (N : Matrix n n K)
    (Ginv : Matrix c c K) (L : Matrix n n K) (z : n → K) :
    sampleMomentumConstrained J N Ginv L z = (projMatrix J N Ginv * L) *ᵥ z := by
  unfold sampleMomentumConstrained sampleMomentum project projMatrix
  rw [Matrix.sub_mul, Matrix.one_mul, Matrix.sub_mulVec]
  simp only [Matrix.mulVec_mulVec, Matrix.mul_assoc]

/-- Every sampled momentum of a constrained system lies in the cotangent space:
`J M⁻¹ (P L z) = 0` for every draw `z`. -/
theorem sample_momentum_cotangent [DecidableEq c] (J : Matrix c n K) (N : Matrix n n K)
    (Ginv : Matrix c c K) (hG : J * N * Jᵀ * Ginv = 1) (L : Matrix n n K) (z : n → K) :
    J *ᵥ (N *ᵥ sampleMomentumConstrained J N Ginv L z) = 0 := by
  unfold sampleMomentumConstrained project
  have h : J *ᵥ (N *ᵥ (Jᵀ *ᵥ (Ginv *ᵥ (J *ᵥ (N *ᵥ sampleMomentum L z))))) =
      (J * N * Jᵀ * Ginv) *ᵥ (J *ᵥ (N *ᵥ sampleMomentum L z)) := by
    simp only [Matrix.mulVec_mulVec, Matrix.mul_assoc]
  rw [Matrix.mulVec_sub, Matrix.mulVec_sub, h, hG, Matrix.one_mulVec, sub_self]

/-- **The projected covariance.** With `P = 1 − Jᵀ G⁻¹ J M⁻¹`:
`(P L)(P L)ᵀ = P M Pᵀ = M − Jᵀ G⁻¹ J`. -/
theorem projected_cov [DecidableEq n] [DecidableEq c] (J : Matrix c n K) (M N : Matrix n n K)
    (Ginv : Matrix c c K) (L : Matrix n n K) (hL : L * Lᵀ = M) (hMN : M * N = 1) (hN : Nᵀ = N)
    (hG : J * N * Jᵀ * Ginv = 1) :
    (projMatrix J N Ginv * L) * (projMatrix J N Ginv * L)ᵀ = projMatrix J N Ginv * M * (projMatrix J N Ginv)ᵀ ∧
    projMatrix J N Ginv * M * (projMatrix J N Ginv)ᵀ = M - Jᵀ * Ginv * J := by
  have hNM : N * M = 1 := mul_eq_one_comm.mp hMN
  have hG' : Ginv * (J * N * Jᵀ) = 1 := mul_eq_one_comm.mp hG
  constructor
  · rw [Matrix.transpose_mul, ← hL]; simp only [Matrix.mul_assoc]
  · have hPM : projMatrix J N Ginv * M = M - Jᵀ * Ginv * J := by
      unfold projMatrix
      rw [Matrix.sub_mul, Matrix.one_mul, Matrix.mul_assoc (Jᵀ * Ginv * J) N M, hNM, Matrix.mul_one]
    have hPT : (projMatrix J N Ginv)ᵀ = 1 - N * Jᵀ * Ginvᵀ * J := by
      unfold projMatrix
      simp only [Matrix.transpose_sub, Matrix.transpose_one, Matrix.transpose_mul,
        Matrix.transpose_transpose, hN, Matrix.mul_assoc]
    rw [hPM, hPT, Matrix.mul_sub, Matrix.mul_one, Matrix.sub_mul]
    have e1 : M * (N * Jᵀ * Ginvᵀ * J) = Jᵀ * Ginvᵀ * J := by
      simp only [← Matrix.mul_assoc]; rw [hMN, Matrix.one_mul]
    have e2 : Jᵀ * Ginv * J * (N * Jᵀ * Ginvᵀ * J) = Jᵀ * Ginvᵀ * J := by
      have : Jᵀ * Ginv * J * (N * Jᵀ * Ginvᵀ * J) = Jᵀ * (Ginv * (J * N * Jᵀ)) * Ginvᵀ * J := by
        simp only [Matrix.mul_assoc]
      rw [this, hG', Matrix.mul_one]
    rw [e1, e2]; abel

/-- **Fresh momentum, constrained systems**: second moment `M − Jᵀ G⁻¹ J`, the metric projected
onto the cotangent space. -/
theorem constrained_momentum_cov [DecidableEq n] [DecidableEq c] {ι : Type*} [Fintype ι]
    (J : Matrix c n K) (M N : Matrix n n K) (Ginv : Matrix c c K) (L : Matrix n n K)
    (hL : L * Lᵀ = M) (hMN : M * N = 1) (hN : Nᵀ = N) (hG : J * N * Jᵀ * Ginv = 1)
    (w : ι → K) (z : ι → n → K) (hz : secondMoment w z = 1) :
    secondMoment w (fun i => sampleMomentumConstrained J N Ginv L (z i)) = M - Jᵀ * Ginv * J := by
  have h := projected_cov J M N Ginv L hL hMN hN hG
  simp only [sampleMomentumConstrained_linear]
  rw [secondMoment_map, hz, Matrix.mul_one, h.1, h.2]

/-- The projected covariance is supported on the cotangent space: `J M⁻¹ (M − Jᵀ G⁻¹ J) = 0`. -/
theorem projected_cov_cotangent [DecidableEq n] [DecidableEq c] (J : Matrix c n K) (M N : Matrix n n K)
    (Ginv : Matrix c c K) (hMN : M * N = 1) (hG : J * N * Jᵀ * Ginv = 1) :
    J * N * (M - Jᵀ * Ginv * J) = 0 := by
  have hNM : N * M = 1 := mul_eq_one_comm.mp hMN
  rw [Matrix.mul_sub, Matrix.mul_assoc J N M, hNM, Matrix.mul_one]
  have : J * N * (Jᵀ * Ginv * J) = (J * N * Jᵀ * Ginv) * J := by simp only [Matrix.mul_assoc]
  rw [this, hG, Matrix.one_mul, sub_self]

/-! ### Crank–Nicolson (partial) refreshment -/

/-- coefficient identity: `a² = 1 − c²` ⇒ `a² Σ + c² Σ = Σ` for every covariance `Σ`. -/
theorem crank_nicolson_cov (a cc : K) (h : a * a = 1 - cc * cc) (S : Matrix n n K) :
    (a * a) • S + (cc * cc) • S = S := by
  rw [← add_smul, h, sub_add_cancel, one_smul]

/-- The coefficient identity is also **necessary**: if the covariance `Σ` is not the zero matrix, then
`a² Σ + c² Σ = Σ` forces `a² = 1 − c²`.  A retained-momentum factor computed from any other coefficient
than the one multiplying the fresh draw (for example a factor memoised at construction while the
coefficient attribute is reassigned later) therefore does not leave the momentum law invariant. -/
theorem crank_nicolson_cov_necessary [IsDomain K] (a cc : K) (S : Matrix n n K) (i j : n) (hS : S i j ≠ 0)
    (h : (a * a) • S + (cc * cc) • S = S) : a * a = 1 - cc * cc := by
  have h1 := congrFun (congrFun h i) j
  simp only [Matrix.add_apply, Matrix.smul_apply, smul_eq_mul] at h1
  have h2 : (a * a + cc * cc - 1) * S i j = 0 := by
    have : (a * a + cc * cc - 1) * S i j = a * a * S i j + cc * cc * S i j - S i j := by ring
    rw [this, h1, sub_self]
  rcases mul_eq_zero.mp h2 with h3 | h3
  · have : a * a = 1 - cc * cc := by
      have h4 : a * a + cc * cc - 1 + (1 - cc * cc) = a * a := by ring
      rw [← h4, h3, zero_add]
    exact this
  · exact absurd h3 hS

/-- Concrete instance: retaining with the factor of coefficient `3/5` (that is `4/5`) while refreshing
with coefficient `4/5` turns the unit covariance into `32/25`, not `1`. -/
example : ((4 / 5 : ℚ) * (4 / 5)) • (1 : Matrix (Fin 1) (Fin 1) ℚ) + ((4 / 5 : ℚ) * (4 / 5)) • 1 ≠ 1 := by
  intro h
  have := crank_nicolson_cov_necessary (4 / 5 : ℚ) (4 / 5) (1 : Matrix (Fin 1) (Fin 1) ℚ) 0 0 (by simp) h
  norm_num at this
/-- **Invariance of the second moment under the Crank–Nicolson update**: if the current
momentum `p` and the fresh draw `m` are independent (product sample), both with zero mean, unit
total weight and second moment `Σ`, then `a p + c m` has second moment `Σ`. -/
theorem crank_nicolson_invariant {ι κ : Type*} [Fintype ι] [Fintype κ] (a cc : K)
    (h : a * a = 1 - cc * cc) (S : Matrix n n K)
    (w : ι → K) (p : ι → n → K) (v : κ → K) (m : κ → n → K)
    (hw : ∑ i, w i = 1) (hv : ∑ j, v j = 1)
    (hp0 : mean w p = 0) (hm0 : mean v m = 0)
    (hp : secondMoment w p = S) (hm : secondMoment v m = S) :
    secondMoment (fun ij : ι × κ => w ij.1 * v ij.2) (fun ij => a • p ij.1 + cc • m ij.2) = S := by
  have expand : ∀ (i : ι) (j : κ),
      (w i * v j) • vecMulVec (a • p i + cc • m j) (a • p i + cc • m j) =
        (a * a * v j) • (w i • vecMulVec (p i) (p i)) + (cc * cc * w i) • (v j • vecMulVec (m j) (m j))
        + (a * cc) • (vecMulVec (w i • p i) (v j • m j) + vecMulVec (v j • m j) (w i • p i)) := by
    intro i j
    ext r s
    simp only [Matrix.smul_apply, Matrix.add_apply, Matrix.vecMulVec_apply, Pi.add_apply,
      Pi.smul_apply, smul_eq_mul]
    ring
  unfold secondMoment
  rw [Fintype.sum_prod_type]
  simp only [expand, Finset.sum_add_distrib]
  have t1 : ∑ i, ∑ j, (a * a * v j) • (w i • vecMulVec (p i) (p i)) = (a * a) • S := by
    rw [Finset.sum_comm]
    simp only [← Finset.smul_sum]
    rw [show (∑ i, w i • vecMulVec (p i) (p i)) = S from hp, ← Finset.sum_smul, ← Finset.mul_sum, hv,
      mul_one]
  have t2 : ∑ i, ∑ j, (cc * cc * w i) • (v j • vecMulVec (m j) (m j)) = (cc * cc) • S := by
    simp only [← Finset.smul_sum]
    rw [show (∑ j, v j • vecMulVec (m j) (m j)) = S from hm, ← Finset.sum_smul, ← Finset.mul_sum, hw,
      mul_one]
  have t3 : ∑ i, ∑ j, (a * cc) • (vecMulVec (w i • p i) (v j • m j) + vecMulVec (v j • m j) (w i • p i)) = 0 := by
    have hP : ∑ i, w i • p i = 0 := hp0
    have hM : ∑ j, v j • m j = 0 := hm0
    have s1 : ∑ i, ∑ j, vecMulVec (w i • p i) (v j • m j) = 0 := by
      have : ∀ i, ∑ j, vecMulVec (w i • p i) (v j • m j) = vecMulVec (w i • p i) (∑ j, v j • m j) := by
        intro i; ext r s; simp [Matrix.vecMulVec_apply, Matrix.sum_apply, Finset.mul_sum]
        exact Finset.sum_congr rfl fun _ _ => by ring
      simp only [this, hM, Matrix.vecMulVec_zero, Finset.sum_const_zero]
    have s2 : ∑ i, ∑ j, vecMulVec (v j • m j) (w i • p i) = 0 := by
      rw [Finset.sum_comm]
      have : ∀ j, ∑ i, vecMulVec (v j • m j) (w i • p i) = vecMulVec (v j • m j) (∑ i, w i • p i) := by
        intro j; ext r s; simp [Matrix.vecMulVec_apply, Matrix.sum_apply, Finset.mul_sum]
        exact Finset.sum_congr rfl fun _ _ => by ring
      simp only [this, hP, Matrix.vecMulVec_zero, Finset.sum_const_zero]
    simp only [← Finset.smul_sum, Finset.sum_add_distrib, s1, s2, add_zero, smul_zero]
  rw [t1, t2, t3, add_zero]
  exact crank_nicolson_cov a cc h S

/-- The Crank–Nicolson update keeps a constrained momentum in the cotangent space. -/
theorem crank_nicolson_cotangent (J : Matrix c n K) (N : Matrix n n K) (a cc : K) (p m : n → K)
    (hp : J *ᵥ (N *ᵥ p) = 0) (hm : J *ᵥ (N *ᵥ m) = 0) :
    J *ᵥ (N *ᵥ (a • p + cc • m)) = 0 := by
  rw [Matrix.mulVec_add, Matrix.mulVec_add, Matrix.mulVec_smul, Matrix.mulVec_smul,
    Matrix.mulVec_smul, Matrix.mulVec_smul, hp, hm, smul_zero, smul_zero, add_zero]

end Cov

/-! ### branch logic of `CorrelatedMomentumTransition.sample` -/

section Branches
variable {K : Type*} [CommRing K] [DecidableEq K] {n : Type*}

/-- coefficient 1 ⇒ full (independent) refreshment, one draw, old momentum ignored -/
theorem correlated_coeff_one (S : (n → K) → (n → K)) (a : K) (mom : Option (n → K))
    (rng : Nat → n → K) (k : Nat) :
    correlatedSample S 1 a mom rng k = independentSample S rng k := by
  cases mom <;> simp [correlatedSample, independentSample]

/-- no momentum yet (`state.mom is None`) ⇒ full refreshment for every coefficient -/
theorem correlated_mom_none (S : (n → K) → (n → K)) (cc a : K) (rng : Nat → n → K) (k : Nat) :
    correlatedSample S cc a none rng k = independentSample S rng k := rfl

/-- coefficient 0 ⇒ the momentum is unchanged and *no* random draw is consumed -/
theorem correlated_coeff_zero (S : (n → K) → (n → K)) (a : K) (p : n → K) (rng : Nat → n → K)
    (k : Nat) (h10 : (0 : K) ≠ 1) : correlatedSample S 0 a (some p) rng k = (p, k) := by
  simp [correlatedSample, h10]

/-- intermediate coefficient ⇒ Crank–Nicolson combination with exactly one fresh draw -/
theorem correlated_partial (S : (n → K) → (n → K)) (cc a : K) (p : n → K) (rng : Nat → n → K)
    (k : Nat) (h1 : cc ≠ 1) (h0 : cc ≠ 0) :
    correlatedSample S cc a (some p) rng k = (a • p + cc • S (rng k), k + 1) := by
  simp [correlatedSample, h1, h0]

/-- `branch` is the decision made by `correlatedSample` -/
theorem branch_spec (momIsNone : Bool) (cc : K) :
    (branch momIsNone cc = .fullRefresh ↔ (momIsNone = true ∨ cc = 1)) ∧
    (branch momIsNone cc = .unchanged ↔ (momIsNone = false ∧ cc = 0 ∧ cc ≠ 1)) := by
  unfold branch
  constructor
  · split_ifs with h1 h2 <;> simp_all
  · split_ifs with h1 h2
    · simp only [false_iff, not_and]
      rcases h1 with h | h
      · simp [h]
      · intro _ _; simp [h]
    · simp only [false_iff, not_and]; intro _ h; exact absurd h h2
    · push Not at h1 h2
      simp only [true_iff]
      exact ⟨by simpa using h1.1, h2, h1.2⟩

end Branches

/-! ### non-vacuity -/

/-- `L Lᵀ = M`, `M N = 1`, `Nᵀ = N`, `G Ginv = 1` are jointly satisfiable by a non-trivial
instance: `L = [[1,0],[1,2]]`, `M = [[1,1],[1,5]]`, `J = (1 0)`, `G = 5/4`. -/
example :
    let L : Matrix (Fin 2) (Fin 2) ℚ := !![1, 0; 1, 2]
    let M : Matrix (Fin 2) (Fin 2) ℚ := !![1, 1; 1, 5]
    let N : Matrix (Fin 2) (Fin 2) ℚ := !![5/4, -1/4; -1/4, 1/4]
    let J : Matrix (Fin 1) (Fin 2) ℚ := !![1, 0]
    let Ginv : Matrix (Fin 1) (Fin 1) ℚ := !![4/5]
    L * Lᵀ = M ∧ M * N = 1 ∧ Nᵀ = N ∧ J * N * Jᵀ * Ginv = 1 := by
  intro L M N J Ginv
  refine ⟨?_, ?_, ?_, ?_⟩ <;>
    · ext i j
      fin_cases i <;> fin_cases j <;>
        simp [L, M, N, J, Ginv, Matrix.mul_apply, Fin.sum_univ_succ, Matrix.vecMul, dotProduct,
          Matrix.vecHead, Matrix.vecTail] <;> norm_num

/-- a standard-normal-like sample with second moment 1, mean 0, unit weight: `±e₁, ±e₂` with
weights ½ … here in dimension 1: `z = ±1`, weights ½. -/
example : secondMoment (fun _ : Fin 2 => (1/2 : ℚ)) (fun i (_ : Fin 1) => if i = 0 then 1 else -1) = 1 ∧
    mean (fun _ : Fin 2 => (1/2 : ℚ)) (fun i (_ : Fin 1) => if i = 0 then (1 : ℚ) else -1) = 0 := by
  constructor
  · ext i j; fin_cases i; fin_cases j
    simp [secondMoment, Fin.sum_univ_succ, Matrix.vecMulVec_apply]; norm_num
  · ext i; fin_cases i
    simp [mean, Fin.sum_univ_succ]

/-- Crank–Nicolson coefficients: `c = 3/5`, `a = 4/5`. -/
example : (4/5 : ℚ) * (4/5) = 1 - (3/5) * (3/5) := by norm_num

end MiciVerif.C08
