/-
C01 — tie of `Model/Transitions.lean` (and `Model/Momentum.lean`) to the *source text* of
`mici/transitions.py`.

`Generated/TransitionSkeleton.lean` is regenerated from the tree under test on every run
(`tools/extractors/transition_skeleton.py`).  The theorems below are re-checked by the kernel against the
regenerated trees:

* `skel_…_eq_model`: the generated tree of a function is exactly the tree the model was written against
  (`Skel.TExpected.*`, annotated node by node in `Model/TransitionSkeleton.lean`);
* the other `skel_…` theorems re-derive, by queries on the generated trees only, the individual facts the
  orbit-level model relies on (they localise a change: see the name of the broken one);
* `sem_…`: the reading `Skel.TSem` of the generated body of `_sample_n_step` as a function on an integrator
  orbit is `Transitions.metropolis` paired with `Transitions.metropolisStats`, for every orbit, step count
  `n ≥ 1`, start point and direction; the reading `Skel.DSem` of the generated loop body of
  `DynamicIntegrationTransition.sample` on a trajectory tree is `Transitions.stepUp` per pass and
  `Transitions.final` for the loop, the `_build_tree` calls being read by `Skel.BSem` from the generated body of
  `_build_tree` (`terminate` iff `!(entryOk && valid)`, else weight `W` and proposal `propose`); the criterion
  functions and the leaf-level conventions (weights, which statements raise) are outside the theorems.
-/
import MiciVerif.Generated.TransitionSkeleton
import MiciVerif.Model.TransitionSkeleton
import MiciVerif.Lemmas.TransitionSkeletonSem
import MiciVerif.Lemmas.TransitionSkeletonDyn
import MiciVerif.Lemmas.TransitionSkeletonBuild

namespace MiciVerif.C01S
open MiciVerif.Skel
open MiciVerif.Generated

/-! ### the generated trees are the expected ones -/

/-- the classes whose methods the orbit-level model (and `Model/Momentum.lean`) mirrors -/
def modelledClasses : List String :=
  ["IndependentMomentumTransition", "CorrelatedMomentumTransition", "MetropolisIntegrationTransition",
   "MetropolisStaticIntegrationTransition", "MetropolisRandomIntegrationTransition", "DynamicIntegrationTransition",
   "MultinomialDynamicIntegrationTransition", "SliceDynamicIntegrationTransition"]

/-- Nothing in the translated functions this module is about is outside the translated subset; the
statements the extractor dropped are exactly the listed logging / message-text ones; the modelled classes,
their bases and the methods each of them defines are the expected ones (no new override of a modelled
method).  (`_process_integrator_error`, `_h_trial_state`, `Integrator.step`: `Props/C12K.lean`.) -/
theorem skel_understood :
    ([TransitionSkeleton.independentMomentumSample,
      TransitionSkeleton.correlatedMomentumInit, TransitionSkeleton.correlatedMomentumSample,
      TransitionSkeleton.sampleNStep, TransitionSkeleton.staticInit,
      TransitionSkeleton.staticSample, TransitionSkeleton.randomInit, TransitionSkeleton.randomSample,
      TransitionSkeleton.euclideanNoUTurn, TransitionSkeleton.riemannianNoUTurn,
      TransitionSkeleton.dynamicInit, TransitionSkeleton.terminationCriterion, TransitionSkeleton.newLeave,
      TransitionSkeleton.mergeSubtrees, TransitionSkeleton.initAuxVars, TransitionSkeleton.buildTree,
      TransitionSkeleton.dynamicSample, TransitionSkeleton.multinomialWeightFunction,
      TransitionSkeleton.multinomialWeightRatio, TransitionSkeleton.multinomialCheckDivergence,
      TransitionSkeleton.sliceInitAuxVars, TransitionSkeleton.sliceWeightFunction,
      TransitionSkeleton.sliceWeightRatio, TransitionSkeleton.sliceCheckDivergence].all S.known = true)
    ∧ (TransitionSkeleton.dropped.filter fun d => d.1 != "_process_integrator_error" && d.1 != "Integrator.step") =
      (TExpected.dropped.filter fun d => d.1 != "_process_integrator_error" && d.1 != "Integrator.step")
    ∧ (TransitionSkeleton.classes.filter fun c => modelledClasses.contains c.1) =
      (TExpected.classes.filter fun c => modelledClasses.contains c.1) := by
  decide +kernel

/-- `MetropolisIntegrationTransition._sample_n_step`, the two `sample` methods and the constructors'
argument checks. -/
theorem skel_metropolis_eq_model :
    TransitionSkeleton.sampleNStepSig = TExpected.sampleNStepSig
    ∧ TransitionSkeleton.sampleNStep = TExpected.sampleNStep
    ∧ TransitionSkeleton.staticInitSig = TExpected.staticInitSig
    ∧ TransitionSkeleton.staticInit = TExpected.staticInit
    ∧ TransitionSkeleton.staticSampleSig = TExpected.staticSampleSig
    ∧ TransitionSkeleton.staticSample = TExpected.staticSample
    ∧ TransitionSkeleton.randomInitSig = TExpected.randomInitSig
    ∧ TransitionSkeleton.randomInit = TExpected.randomInit
    ∧ TransitionSkeleton.randomSampleSig = TExpected.randomSampleSig
    ∧ TransitionSkeleton.randomSample = TExpected.randomSample := by
  decide +kernel

/-- `DynamicIntegrationTransition`: constructor, `sample`, `_build_tree`, `_new_leave`, `_merge_subtrees`,
`_init_aux_vars`. -/
theorem skel_dynamic_eq_model :
    TransitionSkeleton.dynamicInitSig = TExpected.dynamicInitSig
    ∧ TransitionSkeleton.dynamicInit = TExpected.dynamicInit
    ∧ TransitionSkeleton.dynamicSampleSig = TExpected.dynamicSampleSig
    ∧ TransitionSkeleton.dynamicSample = TExpected.dynamicSample
    ∧ TransitionSkeleton.buildTreeSig = TExpected.buildTreeSig
    ∧ TransitionSkeleton.buildTree = TExpected.buildTree
    ∧ TransitionSkeleton.newLeaveSig = TExpected.newLeaveSig
    ∧ TransitionSkeleton.newLeave = TExpected.newLeave
    ∧ TransitionSkeleton.mergeSubtreesSig = TExpected.mergeSubtreesSig
    ∧ TransitionSkeleton.mergeSubtrees = TExpected.mergeSubtrees
    ∧ TransitionSkeleton.initAuxVarsSig = TExpected.initAuxVarsSig
    ∧ TransitionSkeleton.initAuxVars = TExpected.initAuxVars := by
  decide +kernel

/-- `_termination_criterion` and the two built-in no-U-turn criteria. -/
theorem skel_termination_eq_model :
    TransitionSkeleton.terminationCriterionSig = TExpected.terminationCriterionSig
    ∧ TransitionSkeleton.terminationCriterion = TExpected.terminationCriterion
    ∧ TransitionSkeleton.euclideanNoUTurnSig = TExpected.euclideanNoUTurnSig
    ∧ TransitionSkeleton.euclideanNoUTurn = TExpected.euclideanNoUTurn
    ∧ TransitionSkeleton.riemannianNoUTurnSig = TExpected.riemannianNoUTurnSig
    ∧ TransitionSkeleton.riemannianNoUTurn = TExpected.riemannianNoUTurn := by
  decide +kernel

/-- The multinomial subclass: `_weight_function`, `_weight_ratio`, `_check_divergence`. -/
theorem skel_multinomial_eq_model :
    TransitionSkeleton.multinomialWeightFunctionSig = TExpected.multinomialWeightFunctionSig
    ∧ TransitionSkeleton.multinomialWeightFunction = TExpected.multinomialWeightFunction
    ∧ TransitionSkeleton.multinomialWeightRatioSig = TExpected.multinomialWeightRatioSig
    ∧ TransitionSkeleton.multinomialWeightRatio = TExpected.multinomialWeightRatio
    ∧ TransitionSkeleton.multinomialCheckDivergenceSig = TExpected.multinomialCheckDivergenceSig
    ∧ TransitionSkeleton.multinomialCheckDivergence = TExpected.multinomialCheckDivergence := by
  decide +kernel

/-- The slice subclass: `_init_aux_vars`, `_weight_function`, `_weight_ratio`, `_check_divergence`. -/
theorem skel_slice_eq_model :
    TransitionSkeleton.sliceInitAuxVarsSig = TExpected.sliceInitAuxVarsSig
    ∧ TransitionSkeleton.sliceInitAuxVars = TExpected.sliceInitAuxVars
    ∧ TransitionSkeleton.sliceWeightFunctionSig = TExpected.sliceWeightFunctionSig
    ∧ TransitionSkeleton.sliceWeightFunction = TExpected.sliceWeightFunction
    ∧ TransitionSkeleton.sliceWeightRatioSig = TExpected.sliceWeightRatioSig
    ∧ TransitionSkeleton.sliceWeightRatio = TExpected.sliceWeightRatio
    ∧ TransitionSkeleton.sliceCheckDivergenceSig = TExpected.sliceCheckDivergenceSig
    ∧ TransitionSkeleton.sliceCheckDivergence = TExpected.sliceCheckDivergence := by
  decide +kernel

/-- The momentum transitions (`Model/Momentum.lean`, C08). -/
theorem skel_momentum_eq_model :
    TransitionSkeleton.independentMomentumSampleSig = TExpected.independentMomentumSampleSig
    ∧ TransitionSkeleton.independentMomentumSample = TExpected.independentMomentumSample
    ∧ TransitionSkeleton.correlatedMomentumInitSig = TExpected.correlatedMomentumInitSig
    ∧ TransitionSkeleton.correlatedMomentumInit = TExpected.correlatedMomentumInit
    ∧ TransitionSkeleton.correlatedMomentumSampleSig = TExpected.correlatedMomentumSampleSig
    ∧ TransitionSkeleton.correlatedMomentumSample = TExpected.correlatedMomentumSample := by
  decide +kernel

/-! ### individual facts about the Metropolis transitions, from the generated trees -/

/-- `not integration_error` -/
abbrev notError : E := TSem.notError
/-- `rng.uniform() < accept_prob` -/
abbrev drawBelowAcceptProb : E := TSem.drawBelowAcceptProb
/-- `0.0 if np.isnan(h_diff) else np.exp(min(0, h_diff))` -/
def acceptFormula : E :=
  .ite (.call "np.isnan" (E.l [.v "h_diff"])) (.src "0.0") (.call "np.exp" (E.l [.call "min" (E.l [.n 0, .v "h_diff"])]))
/-- `x if c == 1 else y` -/
def ifPlus (c x y : String) : E := .ite (.op "==" (E.l [.v c, .n 1])) (.v x) (.v y)

/-- The only random draw of `_sample_n_step` is in the condition `not integration_error and rng.uniform()
< accept_prob` — with the error test FIRST, so that after an integrator error no draw is made and the
partially integrated `state_p` can never be returned — and what the test guards is `state = state_p`
(model: `metropolis`: the Bernoulli draw only `if o.pathOk lo n`; seeded C01-3). -/
theorem skel_metropolis_accept_requires_no_error :
    (TransitionSkeleton.sampleNStep.ifs.filter fun x => x.1.calls "rng.uniform") =
      [(.op "and" (E.l [notError, drawBelowAcceptProb]), [.assign (.v "state") (.v "state_p")], [])]
    ∧ (TransitionSkeleton.sampleNStep.all.filter (S.callsHere "rng.uniform")).length = 1
    ∧ assignsTo (.v "state") TransitionSkeleton.sampleNStep.stmts = [.assign (.v "state") (.v "state_p")] := by
  decide +kernel

/-- The direction of the proposal is reversed exactly once and only when all steps succeeded (last
statement of the `else` block of the `try`; the error handler does not touch it), and the direction of
the returned state is reversed right after the accept test, immediately before `return state, stats`
(model: `metropolis`: accepted ↦ `(j, fwd)`, rejected / failed ↦ `(i, !fwd)`). -/
theorem skel_metropolis_direction_flipped_on_proposal_and_after :
    (TransitionSkeleton.sampleNStep.tries.map fun t => t.2.2.1.stmts.getLast?) =
      [some (.aug (.v "state_p.dir") "*" (.n (-1)))]
    ∧ assignsTo (.v "state_p.dir") TransitionSkeleton.sampleNStep.stmts = [.aug (.v "state_p.dir") "*" (.n (-1))]
    ∧ (TransitionSkeleton.sampleNStep.tries.map fun t => t.2.1.usesDeep "state_p.dir") = [false]
    ∧ assignsTo (.v "state.dir") TransitionSkeleton.sampleNStep.stmts = [.aug (.v "state.dir") "*" (.n (-1))]
    ∧ TransitionSkeleton.sampleNStep.stmts.reverse.take 3 =
      [.ret (.tup (E.l [.v "state", .v "stats"])),
       .aug (.v "state.dir") "*" (.n (-1)),
       .ifc (.op "and" (E.l [notError, drawBelowAcceptProb])) (S.b [.assign (.v "state") (.v "state_p")]) (S.b [])] := by
  decide +kernel

/-- The acceptance probability is `0.0` for a NaN energy difference and when no step succeeded, else
`exp(min(0, h_diff))` with `h_diff = h_init - h_final`, `h_init` the energy of the current state (first
statement) and `h_final = self._h_trial_state(state_p)` (model: `ratio (o.w j) (o.w i)`, `w = 0` for a
NaN energy). -/
theorem skel_metropolis_nan_gives_zero_accept :
    TransitionSkeleton.sampleNStep.valuesOf (.v "accept_prob") = [acceptFormula, .src "0.0"]
    ∧ (TransitionSkeleton.sampleNStep.ifs.filter fun x => x.1 = .op "is not" (E.l [.v "state_p", .v "state"])) =
      [(.op "is not" (E.l [.v "state_p", .v "state"]),
        [.assign (.v "h_final") (.call "self._h_trial_state" (E.l [.v "state_p"])),
         .assign (.v "h_diff") (.op "-" (E.l [.v "h_init", .v "h_final"])),
         .assign (.v "accept_prob") acceptFormula],
        [.assign (.v "accept_prob") (.src "0.0")])]
    ∧ TransitionSkeleton.sampleNStep.stmts.head? =
      some (.assign (.v "h_init") (.call "self.system.h" (E.l [.v "state"])))
    ∧ TransitionSkeleton.sampleNStep.valuesOf (.v "h_diff") = [.op "-" (E.l [.v "h_init", .v "h_final"])] := by
  decide +kernel

/-- `n_step` steps are attempted, each from the state the previous one returned; after an error the
reported `n_step` is the loop index `_s` (= number of steps that succeeded), otherwise the argument
(model: `stepsTaken`, `metropolisStats`). -/
theorem skel_metropolis_nstep_is_loop_index_on_error :
    (TransitionSkeleton.sampleNStep.tries.map fun t => t.1.stmts) =
      [[.loop (.v "_s") (.call "range" (E.l [.v "n_step"]))
          (S.b [.assign (.v "state_p") (.call "self.integrator.step" (E.l [.v "state_p"]))])]]
    ∧ (TransitionSkeleton.sampleNStep.tries.map fun t => handlerList t.2.1) =
      [[(.v "IntegratorError", "e",
          [.assign (.v "integration_error") (.v "True"),
           .assign (.sub (.v "stats") (.s "n_step")) (.v "_s"),
           .expr (.call "_process_integrator_error" (E.l [.v "e", .v "stats"]))])]]
    ∧ (TransitionSkeleton.sampleNStep.tries.map fun t => t.2.2.1.stmts.head?) =
      [some (.assign (.sub (.v "stats") (.s "n_step")) (.v "n_step"))]
    ∧ TransitionSkeleton.sampleNStep.valuesOf (.sub (.v "stats") (.s "n_step")) = [.v "_s", .v "n_step"]
    ∧ TransitionSkeleton.sampleNStep.valuesOf (.v "state_p") =
      [.v "state", .call "self.integrator.step" (E.l [.v "state_p"])] := by
  decide +kernel

/-- `accept_stat` is the acceptance probability, and `0.0` after an integrator error: Metropolis —
`integration_error` is False initially and set to True only by the handler; dynamic — `0.0` iff one of the
three error flags is set, else the mean acceptance probability `sum / n_step` (0 when no step succeeded)
(model: `metropolisStats`, `acceptStat`; C01Stats `acceptStat_error`, `metropolis_accept_is_move_prob`). -/
theorem skel_accept_stat_zero_on_error :
    TransitionSkeleton.sampleNStep.valuesOf (.sub (.v "stats") (.s "accept_stat")) =
      [.ite notError (.v "accept_prob") (.src "0.0")]
    ∧ TransitionSkeleton.sampleNStep.valuesOf (.v "integration_error") = [.v "False", .v "True"]
    ∧ (TransitionSkeleton.sampleNStep.tries.map fun t =>
        (handlerList t.2.1).map fun h => h.2.2.contains (.assign (.v "integration_error") (.v "True"))) = [[true]]
    ∧ (TransitionSkeleton.dynamicSample.ifs.filter fun x => x.1.calls "any") =
      [(.call "any" (E.l [.src "(stats[key] for key in ['diverging', 'convergence_error', 'non_reversible_step'])"]),
        [.assign (.sub (.v "stats") (.s "accept_stat")) (.src "0.0")],
        [.assign (.sub (.v "stats") (.s "accept_stat")) (.sub (.v "stats") (.s "av_metrop_accept_prob"))])]
    ∧ TransitionSkeleton.dynamicSample.valuesOf (.sub (.v "stats") (.s "av_metrop_accept_prob")) =
      [.op "/" (E.l [.v "sum_accept_prob", .sub (.v "stats") (.s "n_step")]), .src "0.0"]
    ∧ TransitionSkeleton.dynamicSample.valuesOf (.v "sum_accept_prob") =
      [.call "stats.pop" (E.l [.s "sum_metrop_accept_prob"])] := by
  decide +kernel

/-- The constructors reject `n_step ≤ 0` and ranges without `0 < lower < upper`; `sample` passes
`self.n_step`, resp. one `rng.integers(*self.n_step_range)` draw made BEFORE the trajectory, to
`_sample_n_step` together with the same generator (model: hypotheses `0 < n`, `0 < lo < hi`;
`metropolisRandom = bind (uniformRange lo hi) (metropolis o · s)`). -/
theorem skel_metropolis_step_counts :
    TransitionSkeleton.staticInit.ifs =
      [(.op "<=" (E.l [.v "n_step", .n 0]), [.raise_ (.call "ValueError" (E.l [.v "msg"])) .none], [])]
    ∧ TransitionSkeleton.staticSample.stmts =
      [.ret (.call "self._sample_n_step" (E.l [.v "state", .v "self.n_step", .v "rng"]))]
    ∧ TransitionSkeleton.randomInit.ifs =
      [(.op "not" (E.l [.op "and" (E.l [.op ">" (E.l [.v "n_step_lower", .n 0]),
                                         .op "<" (E.l [.v "n_step_lower", .v "n_step_upper"])])]),
        [.raise_ (.call "ValueError" (E.l [.v "msg"])) .none], [])]
    ∧ TransitionSkeleton.randomInit.valuesOf (.tup (E.l [.v "n_step_lower", .v "n_step_upper"])) = [.v "n_step_range"]
    ∧ TransitionSkeleton.randomSample.stmts =
      [.assign (.v "n_step") (.call "rng.integers" (E.l [.star (.v "self.n_step_range")])),
       .ret (.call "self._sample_n_step" (E.l [.v "state", .v "n_step", .v "rng"]))] := by
  decide +kernel

/-! ### individual facts about the dynamic transitions, from the generated trees -/

/-- body of `for depth in range(self.max_tree_depth)` -/
def depthBody : List S :=
  (TransitionSkeleton.dynamicSample.loopBody (.call "range" (E.l [.v "self.max_tree_depth"]))).getD []

/-- the recursive part of `_build_tree` (after the `if depth == 0` block) -/
def buildRec : List S := TransitionSkeleton.buildTree.stmts.drop 1

/-- the `depth == 0` block of `_build_tree` -/
def buildLeaf : List S :=
  match TransitionSkeleton.buildTree.stmts.head? with
  | some (.ifc _ t _) => t.stmts
  | _ => []

/-- Each doubling direction is one fair draw `2 * (rng.uniform() < 0.5) - 1`; the tree is grown from its
positive edge for `+1` and from its negative edge otherwise, with `state.dir` set to the drawn direction,
by `_build_tree(depth, …)` with `depth` the loop index (model: `dynamic`: uniform mixture over the `2^D`
direction sequences; `stepUp cur sib curIsLeft`; the sibling has the depth of the current tree). -/
theorem skel_dynamic_direction_draw_is_fair :
    depthBody.take 4 =
      [.assign (.v "direction")
         (.op "-" (E.l [.op "*" (E.l [.n 2, .op "<" (E.l [.call "rng.uniform" (E.l []), .src "0.5"])]), .n 1])),
       .assign (.v "state") (ifPlus "direction" "tree.positive" "tree.negative"),
       .assign (.v "state.dir") (.v "direction"),
       .assign (.tup (E.l [.v "terminate", .v "new_tree", .v "new_proposal"]))
         (.call "self._build_tree" (E.l [.v "depth", .v "state", .v "stats", .v "rng", .v "aux_vars"]))]
    ∧ TransitionSkeleton.dynamicSample.valuesOf (.v "direction") =
      [.op "-" (E.l [.op "*" (E.l [.n 2, .op "<" (E.l [.call "rng.uniform" (E.l []), .src "0.5"])]), .n 1])]
    ∧ (TransitionSkeleton.dynamicSample.all.filterMap fun
        | .loop t i _ => some (t, i)
        | _ => Option.none) = [(.v "depth", .call "range" (E.l [.v "self.max_tree_depth"]))] := by
  decide +kernel

/-- The loop is left right after a `_build_tree` call that terminated (before anything of the new sub-tree
is used) and right after a merge whose tree satisfies the termination criterion (last statement of the
loop body); there is no other `break`, `continue` or `return` in the loop (model: `stepUp`: `if
cur.termFlag then .stopped`, `else if !(edgeOk && sib.valid) then .stopped`). -/
theorem skel_dynamic_breaks_after_terminating_merge :
    depthBody[4]? = some (.ifc (.v "terminate") (S.b [.brk]) (S.b []))
    ∧ depthBody.getLast? =
      some (.ifc (.call "self._termination_criterion" (E.l [.v "tree", .v "neg_subtree", .v "pos_subtree"]))
        (S.b [.brk]) (S.b []))
    ∧ ((depthBody.flatMap S.all).filter fun s => s = .brk || s = .cont || (match s with | .ret _ => true | _ => false)) =
      [.brk, .brk]
    ∧ idx (fun s => s.usesDeep "new_tree.weight") depthBody = some 5
    ∧ (depthBody.map fun s => s.usesDeep "new_tree") = [false, false, false, true, false, false, false, false, true, true, false, false]
    ∧ (depthBody.filter fun s => s.usesDeep "new_proposal").length = 2
    ∧ depthBody.length = 12 := by
  decide +kernel

/-- Biased progressive sampling at the top level: the acceptance probability is `_weight_ratio(NEW
sub-tree weight, OLD tree weight)`, computed before the trees are merged; on acceptance the new
sub-tree's proposal becomes the next state; `next_state` starts as the current state and is what is
returned (model: `stepUp`: `bernoulli (ratio sib.W cur.W)`, `climb`, `final`). -/
theorem skel_biased_progressive_uses_weight_ratio_new_over_old :
    TransitionSkeleton.dynamicSample.valuesOf (.v "accept_proposal_prob") =
      [.call "self._weight_ratio" (E.l [.v "new_tree.weight", .v "tree.weight"])]
    ∧ idx (fun s => s = .assign (.v "accept_proposal_prob")
        (.call "self._weight_ratio" (E.l [.v "new_tree.weight", .v "tree.weight"]))) depthBody = some 5
    ∧ depthBody[6]? = some (.ifc (.op "<" (E.l [.call "rng.uniform" (E.l []), .v "accept_proposal_prob"]))
        (S.b [.assign (.v "next_state") (.v "new_proposal")]) (S.b []))
    ∧ idx (fun s => s = .assign (.v "tree") (.call "self._merge_subtrees" (E.l [.v "neg_subtree", .v "pos_subtree"])))
        depthBody = some 10
    ∧ TransitionSkeleton.dynamicSample.valuesOf (.v "next_state") = [.v "state", .v "new_proposal"]
    ∧ TransitionSkeleton.dynamicSample.returns = [.tup (E.l [.v "next_state", .v "stats"])] := by
  decide +kernel

/-- Uniform progressive sampling inside `_build_tree`: the outer half's proposal is taken with
probability `_weight_ratio(outer weight, weight of the merged tree)`, else the inner half's (model:
`propose`: `bernoulli (ratio wOuter (l.W + r.W))`); a leaf proposes itself. -/
theorem skel_uniform_progressive_inside_build_tree :
    TransitionSkeleton.buildTree.valuesOf (.v "accept_outer_prob") =
      [.call "self._weight_ratio" (E.l [.v "outer_tree.weight", .v "tree.weight"])]
    ∧ TransitionSkeleton.buildTree.valuesOf (.v "proposal") =
      [.v "state",
       .ite (.op "<" (E.l [.call "rng.uniform" (E.l []), .v "accept_outer_prob"])) (.v "outer_proposal") (.v "inner_proposal")]
    ∧ buildRec.reverse.take 5 =
      [.ret (.tup (E.l [.v "terminate", .v "tree", .v "proposal"])),
       .assign (.v "terminate") (.call "self._termination_criterion" (E.l [.v "tree", .v "neg_subtree", .v "pos_subtree"])),
       .assign (.v "proposal") (.ite (.op "<" (E.l [.call "rng.uniform" (E.l []), .v "accept_outer_prob"]))
         (.v "outer_proposal") (.v "inner_proposal")),
       .assign (.v "accept_outer_prob") (.call "self._weight_ratio" (E.l [.v "outer_tree.weight", .v "tree.weight"])),
       .assign (.v "tree") (.call "self._merge_subtrees" (E.l [.v "neg_subtree", .v "pos_subtree"]))] := by
  decide +kernel

/-- `_build_tree` builds the inner half from the given state and the outer half from the far edge of the
inner half in the build direction, both one level down with the same `stats`, `rng`, `aux_vars`; a half
that terminated makes the whole call return `(terminate, None, None)` at once (model: `buildVisit`: inner
first, `if ri.2 ≠ .ok then ri`; `TTree.valid`). -/
theorem skel_build_tree_inner_then_outer :
    buildRec.take 5 =
      [.assign (.tup (E.l [.v "terminate", .v "inner_tree", .v "inner_proposal"]))
         (.call "self._build_tree" (E.l [.op "-" (E.l [.v "depth", .n 1]), .v "state", .v "stats", .v "rng", .v "aux_vars"])),
       .ifc (.v "terminate") (S.b [.ret (.tup (E.l [.v "terminate", .none, .none]))]) (S.b []),
       .assign (.v "state") (.ite (.op "==" (E.l [.v "state.dir", .n 1])) (.v "inner_tree.positive") (.v "inner_tree.negative")),
       .assign (.tup (E.l [.v "terminate", .v "outer_tree", .v "outer_proposal"]))
         (.call "self._build_tree" (E.l [.op "-" (E.l [.v "depth", .n 1]), .v "state", .v "stats", .v "rng", .v "aux_vars"])),
       .ifc (.v "terminate") (S.b [.ret (.tup (E.l [.v "terminate", .none, .none]))]) (S.b [])]
    ∧ buildRec.length = 12 := by
  decide +kernel

/-- Both divergence tests raise `HamiltonianDivergenceError` and nothing else; the slice variant compares
`h + aux_vars["log_u"]` (a function of the point and the slice variable only) with `max_delta_h`
(model: `slice_mixture_invariant`; seeded C01-1). -/
theorem skel_slice_divergence_uses_slice_variable :
    TransitionSkeleton.sliceCheckDivergence.ifs =
      [(.op ">" (E.l [.op "+" (E.l [.v "h", .sub (.v "aux_vars") (.s "log_u")]), .v "self.max_delta_h"]),
        [.raise_ (.call "HamiltonianDivergenceError" (E.l [.v "msg"])) .none], [])]
    ∧ TransitionSkeleton.sliceCheckDivergence.stmts.length = 1
    ∧ TransitionSkeleton.sliceCheckDivergenceSig = E.l [.v "self", .v "h", .v "aux_vars"] := by
  decide +kernel

/-- The multinomial variant compares `h - aux_vars["h_init"]` — relative to the START state — with
`max_delta_h` (model: `dynamic_multinomial_divergence_counterexample`: invariance needs `PosOk`). -/
theorem skel_multinomial_divergence_uses_h_init :
    TransitionSkeleton.multinomialCheckDivergence.ifs =
      [(.op ">" (E.l [.op "-" (E.l [.v "h", .sub (.v "aux_vars") (.s "h_init")]), .v "self.max_delta_h"]),
        [.raise_ (.call "HamiltonianDivergenceError" (E.l [.v "msg"])) .none], [])]
    ∧ TransitionSkeleton.multinomialCheckDivergence.stmts.length = 1
    ∧ TransitionSkeleton.multinomialCheckDivergenceSig = E.l [.v "self", .v "h", .v "aux_vars"] := by
  decide +kernel

/-- At both call sites `_termination_criterion` receives (merged tree, NEGATIVE half, POSITIVE half) — the
halves ordered along the orbit, not by age: in `sample` the old tree is the negative half iff the
direction is `+1`, in `_build_tree` the inner tree is the negative half iff `state.dir == 1` — and the
merged tree is `_merge_subtrees(neg_subtree, pos_subtree)`, which takes its negative edge from the
negative and its positive edge from the positive half and adds weights and momentum sums (model: the
`term` flag is a function of the block `[a, a + 2^m)`; seeded C01-2). -/
theorem skel_termination_called_symmetrically :
    TransitionSkeleton.dynamicSample.callArgs "self._termination_criterion" =
      [E.l [.v "tree", .v "neg_subtree", .v "pos_subtree"]]
    ∧ TransitionSkeleton.buildTree.callArgs "self._termination_criterion" =
      [E.l [.v "tree", .v "neg_subtree", .v "pos_subtree"]]
    ∧ TransitionSkeleton.dynamicSample.valuesOf (.v "neg_subtree") = [ifPlus "direction" "tree" "new_tree"]
    ∧ TransitionSkeleton.dynamicSample.valuesOf (.v "pos_subtree") = [ifPlus "direction" "new_tree" "tree"]
    ∧ TransitionSkeleton.buildTree.valuesOf (.v "neg_subtree") = [ifPlus "state.dir" "inner_tree" "outer_tree"]
    ∧ TransitionSkeleton.buildTree.valuesOf (.v "pos_subtree") = [ifPlus "state.dir" "outer_tree" "inner_tree"]
    ∧ TransitionSkeleton.dynamicSample.callArgs "self._merge_subtrees" = [E.l [.v "neg_subtree", .v "pos_subtree"]]
    ∧ TransitionSkeleton.buildTree.callArgs "self._merge_subtrees" = [E.l [.v "neg_subtree", .v "pos_subtree"]]
    ∧ TransitionSkeleton.terminationCriterionSig = E.l [.v "self", .v "tree", .v "neg_subtree", .v "pos_subtree"]
    ∧ TransitionSkeleton.mergeSubtreesSig = E.l [.v "self", .v "neg_subtree", .v "pos_subtree"]
    ∧ TransitionSkeleton.mergeSubtrees.returns =
      [.call "_SubTree" (E.l [.kw "negative" (.v "neg_subtree.negative"), .kw "positive" (.v "pos_subtree.positive"),
        .kw "weight" (.op "+" (E.l [.v "neg_subtree.weight", .v "pos_subtree.weight"])),
        .kw "sum_mom" (.op "+" (E.l [.v "neg_subtree.sum_mom", .v "pos_subtree.sum_mom"])),
        .kw "depth" (.op "+" (E.l [.v "neg_subtree.depth", .n 1]))])] := by
  decide +kernel

/-- `_termination_criterion`: the user criterion on (negative edge, positive edge, momentum sum) of the
whole tree first; the two overlapping sub-tree checks — [negative half + first state of the positive half]
and [last state of the negative half + positive half] — only for trees of depth > 1 and only when
`do_extra_subtree_checks` is set; otherwise `False` (model: the `term` flag of a block includes the extra
checks; it is never evaluated on leaves). -/
theorem skel_subtree_checks_only_when_enabled :
    TransitionSkeleton.terminationCriterion.stmts =
      [.ifc (.call "self.termination_criterion" (E.l [.v "self.system", .v "tree.negative", .v "tree.positive", .v "tree.sum_mom"]))
         (S.b [.ret (.v "True")]) (S.b []),
       .ifc (.op "and" (E.l [.op ">" (E.l [.v "tree.depth", .n 1]), .v "self.do_extra_subtree_checks"]))
         (S.b [.ret (.op "or" (E.l [
           .call "self.termination_criterion" (E.l [.v "self.system", .v "neg_subtree.negative", .v "pos_subtree.negative",
             .op "+" (E.l [.v "neg_subtree.sum_mom", .v "pos_subtree.negative.mom"])]),
           .call "self.termination_criterion" (E.l [.v "self.system", .v "neg_subtree.positive", .v "pos_subtree.positive",
             .op "+" (E.l [.v "pos_subtree.sum_mom", .v "neg_subtree.positive.mom"])])]))])
         (S.b []),
       .ret (.v "False")] := by
  decide +kernel

/-- Weights: multinomial `LogRepFloat(log_val=-h)` with ratio `min(num / den, 1)`; slice the indicator
`(aux_vars["log_u"] <= -h) * 1` with `log_u = log(rng.uniform()) - h_init` drawn once per transition and
ratio `min(num / den, 1)` for a positive denominator, `min(num, 1)` otherwise; a leaf gets
`_weight_function(h, aux_vars)`, the start leaf with `h = h_init` (model: `w`, `ratio`, `TTree.leaf`). -/
theorem skel_weight_functions_and_ratios :
    TransitionSkeleton.multinomialWeightFunction.returns = [.call "LogRepFloat" (E.l [.kw "log_val" (.op "neg" (E.l [.v "h"]))])]
    ∧ TransitionSkeleton.multinomialWeightRatio.returns =
      [.call "min" (E.l [.op "/" (E.l [.v "numerator", .v "denominator"]), .n 1])]
    ∧ TransitionSkeleton.sliceWeightFunction.returns =
      [.op "*" (E.l [.op "<=" (E.l [.sub (.v "aux_vars") (.s "log_u"), .op "neg" (E.l [.v "h"])]), .n 1])]
    ∧ TransitionSkeleton.sliceWeightRatio.returns =
      [.ite (.op ">" (E.l [.v "denominator", .n 0]))
        (.call "min" (E.l [.op "/" (E.l [.v "numerator", .v "denominator"]), .n 1]))
        (.call "min" (E.l [.v "numerator", .n 1]))]
    ∧ TransitionSkeleton.sliceInitAuxVars.valuesOf (.sub (.v "aux_vars") (.s "log_u")) =
      [.op "-" (E.l [.call "np.log" (E.l [.call "rng.uniform" (E.l [])]), .sub (.v "aux_vars") (.s "h_init")])]
    ∧ TransitionSkeleton.initAuxVars.returns = [.src "{'h_init': self.system.h(state)}"]
    ∧ TransitionSkeleton.dynamicSample.callArgs "self._init_aux_vars" = [E.l [.v "state", .v "rng"]]
    ∧ TransitionSkeleton.dynamicSample.callArgs "self._new_leave" =
      [E.l [.v "state", .sub (.v "aux_vars") (.s "h_init"), .v "aux_vars"]]
    ∧ TransitionSkeleton.buildTree.callArgs "self._new_leave" = [E.l [.v "state", .v "h", .v "aux_vars"]]
    ∧ (TransitionSkeleton.newLeave.returns.map fun r => (r.argsOf "_SubTree").bind (E.kwArg "weight")) =
      [some (.call "self._weight_function" (E.l [.v "h", .v "aux_vars"]))] := by
  decide +kernel

/-- The subclasses override exactly the hooks the model distinguishes (weights, ratio, divergence test,
slice variable) and nothing of the shared control flow; the Metropolis subclasses define only their
constructor and `sample`. -/
theorem skel_class_overrides :
    methodsOf TransitionSkeleton.classes "MultinomialDynamicIntegrationTransition" =
      ["_weight_function", "_weight_ratio", "_check_divergence"]
    ∧ methodsOf TransitionSkeleton.classes "SliceDynamicIntegrationTransition" =
      ["_init_aux_vars", "_weight_function", "_weight_ratio", "_check_divergence"]
    ∧ basesOf TransitionSkeleton.classes "MultinomialDynamicIntegrationTransition" = ["DynamicIntegrationTransition"]
    ∧ basesOf TransitionSkeleton.classes "SliceDynamicIntegrationTransition" = ["DynamicIntegrationTransition"]
    ∧ methodsOf TransitionSkeleton.classes "MetropolisStaticIntegrationTransition" = ["__init__", "sample"]
    ∧ methodsOf TransitionSkeleton.classes "MetropolisRandomIntegrationTransition" = ["__init__", "sample"]
    ∧ basesOf TransitionSkeleton.classes "MetropolisStaticIntegrationTransition" = ["MetropolisIntegrationTransition"]
    ∧ basesOf TransitionSkeleton.classes "MetropolisRandomIntegrationTransition" = ["MetropolisIntegrationTransition"]
    ∧ methodsOf TransitionSkeleton.classes "MetropolisIntegrationTransition" = ["__init__", "_sample_n_step"] := by
  decide +kernel

/-- `n_step` counts one per leaf whose integrator step and energy evaluation succeeded — before the
divergence test — and the acceptance probabilities are summed at the same place (model: `nStep`,
`acceptStat` over `visited`); `tree_depth` is the last loop index. -/
theorem skel_dynamic_statistics :
    ((buildLeaf.flatMap S.all).filterMap fun
        | .aug t o e => some (t, o, e)
        | _ => Option.none) =
      [(.sub (.v "stats") (.s "sum_metrop_accept_prob"), "+", .v "metrop_accept_prob"),
       (.sub (.v "stats") (.s "n_step"), "+", .n 1)]
    ∧ TransitionSkeleton.buildTree.valuesOf (.v "metrop_accept_prob") = [acceptFormula]
    ∧ TransitionSkeleton.buildTree.valuesOf (.v "h_diff") = [.op "-" (E.l [.sub (.v "aux_vars") (.s "h_init"), .v "h"])]
    ∧ TransitionSkeleton.dynamicSample.valuesOf (.sub (.v "stats") (.s "tree_depth")) = [.v "depth"]
    ∧ TransitionSkeleton.dynamicSample.valuesOf (.v "stats") =
      [.src "{'n_step': 0, 'sum_metrop_accept_prob': 0.0, 'reject_prob': 1.0, 'diverging': False, 'convergence_error': False, 'non_reversible_step': False, 'step_size': self.integrator.step_size}"] := by
  decide +kernel

/-! ### the momentum transitions (`Model/Momentum.lean`) -/

/-- `CorrelatedMomentumTransition.sample`: full refresh iff `state.mom is None or c == 1`; else, iff
`c != 0`, ONE independent draw `mom_ind`, then `mom *= (1.0 - c**2) ** 0.5` and `mom += c * mom_ind`; else
nothing; the constructor rejects `c` outside `[0, 1]`; the independent transition replaces the momentum
by one draw (model: `Momentum.branch`, `correlatedSample`, `independentSample`). -/
theorem skel_correlated_momentum_formula :
    TransitionSkeleton.correlatedMomentumSample.stmts =
      [.ifc (.op "or" (E.l [.op "is" (E.l [.v "state.mom", .none]), .op "==" (E.l [.v "self.mom_resample_coeff", .n 1])]))
         (S.b [.assign (.v "state.mom") (.call "self.system.sample_momentum" (E.l [.v "state", .v "rng"]))])
         (S.b [.ifc (.op "!=" (E.l [.v "self.mom_resample_coeff", .n 0]))
           (S.b [.assign (.v "mom_ind") (.call "self.system.sample_momentum" (E.l [.v "state", .v "rng"])),
                 .aug (.v "state.mom") "*"
                   (.op "**" (E.l [.op "-" (E.l [.src "1.0", .op "**" (E.l [.v "self.mom_resample_coeff", .n 2])]), .src "0.5"])),
                 .aug (.v "state.mom") "+" (.op "*" (E.l [.v "self.mom_resample_coeff", .v "mom_ind"]))])
           (S.b [])]),
       .ret (.tup (E.l [.v "state", .none]))]
    ∧ TransitionSkeleton.correlatedMomentumInit.ifs =
      [(.op "not" (E.l [.op "and" (E.l [.op ">=" (E.l [.v "mom_resample_coeff", .n 0]),
                                         .op "<=" (E.l [.v "mom_resample_coeff", .n 1])])]),
        [.raise_ (.call "ValueError" (E.l [.v "msg"])) .none], [])]
    ∧ TransitionSkeleton.independentMomentumSample.stmts =
      [.assign (.v "state.mom") (.call "self.system.sample_momentum" (E.l [.v "state", .v "rng"])),
       .ret (.tup (E.l [.v "state", .none]))] := by
  decide +kernel

/-! ### the generated body of `_sample_n_step`, read on an integrator orbit, is `Transitions.metropolis` -/

section Semantics
open MiciVerif.Transitions

/-- The body of `_sample_n_step` generated from the current source consists of exactly the actions of
`TSem.expectedPlan`, in that order: energy of the current state; `state_p` an alias; error flag cleared;
statistics initialised; the guarded step loop with handler [set error, `n_step = _s`, record the error] and
else-block [`n_step = n_step`, reverse the proposal]; acceptance probability; its two records — the
acceptance statistic guarded by `not integration_error`; the accept test guarded by `not
integration_error`; direction reversal; return. -/
theorem sem_sample_n_step_plan :
    TSem.metroPlan TransitionSkeleton.sampleNStep.stmts = some TSem.expectedPlan := by
  decide +kernel

variable {K : Type} [Field K] [LinearOrder K]

/-- **Semantic tie of the Metropolis transitions.**  The body of `_sample_n_step` generated from the
current source — each statement read as the operation on the local variables it stands for, executed in
source order on an arbitrary integrator orbit (`Skel.TSem.metroPass`: steps taken one by one until one
fails, `state_p` an alias of `state` until a step succeeds, acceptance probability `ratio (w end) (w
start)`, one Bernoulli draw made only if Python evaluates `rng.uniform() < accept_prob`) — returns exactly
the distribution `Transitions.metropolis` over (orbit point, direction), each outcome paired with the
statistics `Transitions.metropolisStats` (`n_step`, `accept_stat`, error flag), for every orbit, every
number of steps `n ≥ 1` (enforced by the constructors: `skel_metropolis_step_counts`), every start point
and direction.  Hence `C01.metropolis_invariant`, `C01.metropolisRandom_invariant`,
`C12.metropolis_contained` and the theorems of `C01Stats` are statements about this reading of the
current source. -/
theorem sem_sample_n_step_is_metropolis (o : MOrbitS K) (n : Nat) (hn : 1 ≤ n) (i : Int) (fwd : Bool) :
    TSem.metroPass TransitionSkeleton.sampleNStep.stmts o n (i, fwd) =
      some (Dist.map (fun s => (s, metropolisStats o n (i, fwd))) (metropolis o.toOrbit n (i, fwd))) :=
  TSem.metroPass_of_plan _ sem_sample_n_step_plan o n hn i fwd

/-- `MetropolisStaticIntegrationTransition.sample` is one statement, `MetropolisRandomIntegrationTransition.sample`
the draw of the length followed by the same call. -/
theorem sem_sample_plans :
    TSem.lenPlan TransitionSkeleton.staticSample.stmts = some [.runFixed]
    ∧ TSem.lenPlan TransitionSkeleton.randomSample.stmts = some [.drawLength, .runDrawn] := by
  decide +kernel

/-- **`sample` of the two Metropolis transitions.**  Read from the current source (`Skel.TSem.samplePass`, with
`inner n` standing for `_sample_n_step(state, n, rng)`), the static transition is `inner self.n_step` and the
random-length transition is `Dist.bind (uniformRange lo hi) inner`; with `inner = metropolis o · s` (which is
what the current `_sample_n_step` reads as, by `sem_sample_n_step_is_metropolis`, for the lengths `≥ 1` the
constructors admit) these are `Transitions.metropolis o n s` and `Transitions.metropolisRandom o lo hi s`,
the subjects of `C01.metropolis_invariant` and `C01.metropolisRandom_invariant`. -/
theorem sem_sample_is_metropolis_and_metropolisRandom (o : MOrbit K) (n lo hi : Nat) (s : Int × Bool) :
    TSem.samplePass TransitionSkeleton.staticSample.stmts (fun m => metropolis o m s) n lo hi = some (metropolis o n s)
    ∧ TSem.samplePass TransitionSkeleton.randomSample.stmts (fun m => metropolis o m s) n lo hi =
        some (metropolisRandom o lo hi s) := by
  unfold TSem.samplePass
  rw [sem_sample_plans.1, sem_sample_plans.2]
  exact ⟨rfl, rfl⟩

/-- not vacuous: on weights 1, 1, 1/2 the random-length transition with range (1, 3) mixes one and two steps -/
example :
    let o : MOrbit ℚ := ⟨fun i => if i = 2 then 1 / 2 else 1, fun _ _ => true⟩
    Dist.prob (metropolisRandom o 1 3 (0, true)) (2, true) = 1 / 4 := by
  decide +kernel

set_option synthInstance.maxSize 512 in
/-- not vacuous: weights 1, 1, 1/2 at the points 0, 1, 2; two forward steps from 0 accept with probability
1/2; when the step joining 1 and 2 fails the reading stays at 0 with the direction reversed, reports one
step and acceptance statistic 0 -/
example :
    let o : MOrbitS ℚ := ⟨fun i => if i = 2 then 1 / 2 else 1, fun _ => true⟩
    let o' : MOrbitS ℚ := ⟨fun i => if i = 2 then 1 / 2 else 1, fun e => e != 1⟩
    TSem.metroPass TransitionSkeleton.sampleNStep.stmts o 2 (0, true) =
        some [(((2, true), (2, 1 / 2, false)), 1 / 2 * 1), (((0, false), (2, 1 / 2, false)), (1 - 1 / 2) * 1)]
      ∧ TSem.metroPass TransitionSkeleton.sampleNStep.stmts o' 2 (0, true) =
        some [(((0, false), (1, 0, true)), 1)] := by
  decide +kernel

set_option synthInstance.maxSize 512 in
/-- The guard matters (the reading discriminates): with the accept test NOT guarded by
`not integration_error` (seeded change C01-3) the same reading returns the partially integrated state
`1` with probability 1 on the orbit `o'` above — not `Transitions.metropolis`. -/
example :
    let o' : MOrbitS ℚ := ⟨fun i => if i = 2 then 1 / 2 else 1, fun e => e != 1⟩
    TSem.runMetro o'
        [.energyInit, .aliasProposal, .clearError, .initStats,
         .integrate [.setError, .recordLoopIndex, .processError] [.recordNStep, .flipProposal],
         .acceptProb, .recordMetropAcceptProb, .recordAcceptStat true, .acceptTest false,
         .flipDirection, .returnStateStats]
        ⟨(0, true), (0, true), false, false, none, 0, 2, none, none, none, none⟩ =
      some [(((1, false), (1, 0, true)), 1 * 1), (((0, false), (1, 0, true)), (1 - 1) * 1)] := by
  decide +kernel

/-! ### the generated loop body of `DynamicIntegrationTransition.sample`, read on a trajectory tree -/

/-- The loop body of `sample` generated from the current source consists of exactly the statements of
`DSem.expectedPassPlan`, in that order: fair direction draw; the edge of the current tree in that direction;
`state.dir`; `_build_tree(depth, …)`; `break` if it terminated; acceptance probability `_weight_ratio(new,
old)`; the acceptance draw replacing `next_state` by the new proposal; `reject_prob`; negative / positive
half by direction; the merge; `break` if the merged tree satisfies the termination criterion. -/
theorem sem_dynamic_pass_plan : DSem.passPlan depthBody = some DSem.expectedPassPlan := by
  decide +kernel

/-- The body of `_build_tree` generated from the current source has exactly the expected shape
(`BSem.expectedPlan`): the `depth == 0` block — step, trial energy, NaN ↦ +inf, new leaf, the state itself as
proposal, the acceptance statistics, `terminate = False`, the divergence test, all inside one `try` whose
`IntegratorError` handler records the error and returns `(True, None, None)` — and the recursive part — inner
half, return if it terminated, move to its far edge, outer half, return if it terminated, order the halves
along the orbit, merge, `_weight_ratio(outer, merged)`, pick the outer proposal with that probability, the
termination criterion of the merged tree, return. -/
theorem sem_build_tree_plan : BSem.buildPlan TransitionSkeleton.buildTree.stmts = some BSem.expectedPlan := by
  decide +kernel

/-- **Semantic tie of `_build_tree`.**  The body generated from the current source, read statement by
statement on a trajectory tree `t` built forwards or backwards and entered by a step with success flag
`entryOk` (`Skel.BSem`: the first raising statement of the `try` transfers control to the handler; the
recursive calls are the same reading on the two halves, the inner half first, the outer half entered by the
step joining them), hands back to its caller: nothing usable (`terminate`) iff `!(entryOk && t.valid)`, and
otherwise a tree of weight `t.W` with a proposal distributed as `TTree.propose fwd t` (uniform progressive
sampling) — for every tree, weights, failing steps, divergent points and criterion flags. -/
theorem sem_build_tree_is_propose (fwd : Bool) (t : TTree K) (entryOk : Bool) :
    BSem.buildPass TransitionSkeleton.buildTree.stmts fwd t entryOk =
      some (if entryOk && t.valid then some (t.W, TTree.propose fwd t) else none) :=
  BSem.buildPass_of_plan _ sem_build_tree_plan fwd t entryOk

/-- **Semantic tie of the dynamic transitions' loop.**  One pass of the loop body generated from the current
source, read statement by statement on the tree abstraction (`Skel.DSem`) — a sub-tree built from the edge
in the drawn direction with `state.dir` set to it and handing back what `sem_build_tree_is_propose` says,
`break` when it terminated, biased progressive acceptance with probability `ratio W_new W_old`, the halves
ordered along the orbit, `break` when the merged tree satisfies the criterion — is `Transitions.stepUp`
followed by that criterion test, for every current tree (not itself terminating), sibling, direction,
joining-step flag, criterion flag and current sample. -/
theorem sem_dynamic_pass_is_stepUp (cur sib : TTree K) (edgeOk τ dirPlus : Bool) (c : Nat)
    (h : cur.termFlag = false) :
    (DSem.passPlan depthBody).map (fun plan =>
        DSem.runPass cur sib (if edgeOk && sib.valid then some (sib.W, TTree.propose dirPlus sib) else none) τ dirPlus
          plan { nextOff := c }) =
      some (Dist.map (DSem.mark τ) (stepUp cur sib dirPlus edgeOk c)) := by
  rw [sem_dynamic_pass_plan]
  exact congrArg some (DSem.runPass_expected cur sib edgeOk τ dirPlus c h)

/-- … and the whole loop — one such pass per level with the `_build_tree` calls read from the current body of
`_build_tree`, none after a `break` — returns, for the direction draws that make `t` the maximal trajectory
tree and the start leaf at offset `start`, exactly the distribution `Transitions.final t start` of the next
chain state: the subject of `C01.final_invariant` / `C01.dynamic_invariant` (with the fair direction draws:
`skel_dynamic_direction_draw_is_fair`) and `C12.final_contained`, for every tree, flags, weights and start.
What remains outside the theorem: the leaf-level conventions of `Skel.BSem` (weights, which statements
raise) and that `_termination_criterion` is a function of the block (projections
`skel_termination_called_symmetrically`, `skel_subtree_checks_only_when_enabled`). -/
theorem sem_dynamic_loop_is_final (t : TTree K) (start : Nat) :
    DSem.loopPass depthBody TransitionSkeleton.buildTree.stmts t start = some (final t start) :=
  DSem.loopPass_of_plan _ _ sem_dynamic_pass_plan sem_build_tree_plan t start

/-- the reading discriminates: a body that merges before the halves are ordered is rejected (empty result) -/
example :
    DSem.runPass (.leaf (1 : ℚ) true) (.leaf 1 true) none false true
      [.drawDirection, .growFromEdge, .setDirection, .build, .merge] { nextOff := 0 } = [] := by
  rfl

end Semantics

/-! ### the queries discriminate (non-vacuity): small edits of the expected trees change the answers -/

/-- swapping the two operands of the accept condition (draw first) is seen by the query of
`skel_metropolis_accept_requires_no_error` -/
example :
    let edited : S := .ifc (.op "and" (E.l [drawBelowAcceptProb, notError])) (S.b [.assign (.v "state") (.v "state_p")]) (S.b [])
    (edited.ifs.filter fun x => x.1.calls "rng.uniform") ≠
      [(.op "and" (E.l [notError, drawBelowAcceptProb]), [.assign (.v "state") (.v "state_p")], [])] := by
  decide +kernel

/-- passing (old tree, new tree) instead of (negative half, positive half) to the criterion (seeded C01-2)
is seen by the query of `skel_termination_called_symmetrically` -/
example :
    (S.b [.ifc (.call "self._termination_criterion" (E.l [.v "tree", .v "old_tree", .v "new_tree"])) (S.b [.brk]) (S.b [])]).callArgs
        "self._termination_criterion" ≠ [E.l [.v "tree", .v "neg_subtree", .v "pos_subtree"]] := by
  decide +kernel

end MiciVerif.C01S
