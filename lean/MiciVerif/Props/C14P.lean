/-
C14 — the WORKER / QUEUE part of the parallel mode, read on the model's state
(`Model/SamplerParSem.lean`; extends the `Skel.Sem` readings of `Props/C14S.lean`, which stop at the
collation block).  The statement trees are regenerated from the tree under test on every run.

(a) `sem_pool_is_stagePar`: the reading of the generated bodies of `_sample_chains_worker` and
    `_sample_chains_parallel` under `n_process = np` workers and a schedule `σ : List Nat` (pop by pop,
    the worker that performs the next `chain_queue.get`) EQUALS `Sampler.stagePar … (restore := true)
    (poolSched … np σ …)` — full equality of `Acc` (parameters, collated outputs, per-chain arrays,
    parent generators, ghost logs, interrupt flag) — where `poolSched` is the schedule in the model's
    format (per worker, the chains it took, in order; defined without reference to the source).
(b) transports of `schedule_independent`, `nprocess_independent`, `no_replay` to the reading
    (`interrupt_prefix_stage_par`: `Props/C15P.lean`).
Trusted conventions: header of `Model/SamplerParSem.lean` (queue FIFO per producer and exactly-once,
`Pool` runs the worker function once per process with its own copy of the arguments, pickling = deep
copy, chain files named by the queue item).
-/
import MiciVerif.Generated.SamplerSkeleton
import MiciVerif.Lemmas.SamplerParSemPass
import MiciVerif.Props.C14

namespace MiciVerif.C14P
open MiciVerif.Skel MiciVerif.Skel.ParSem
open MiciVerif.Generated
open MiciVerif.Sampler MiciVerif.Stagers

/-- statements of `_sample_chains_worker` generated from the current source -/
def workerBody : List S := SamplerSkeleton.sampleChainsWorker.stmts

/-- statements of `_sample_chains_parallel` generated from the current source -/
def parentBody : List S := SamplerSkeleton.sampleChainsParallel.stmts

/-- the `if results is not None: …` statement as `parPlan?` finds it -/
def collateStmt : S := ((parPlan? parentBody).map (·.collate)).getD .skip

/-- The worker generated from the current source: `chain_outputs = []`, then, while the chain queue is
not empty, in this order: take an item, run `_sample_chain` on it (worker's transitions, the item's
generator copy), read the generator state of the copy AFTER the run, append `(chain_index, (*outputs,
rng_state))`, and after an interrupted chain put the exception on the iteration queue and `break`;
`return chain_outputs`. -/
theorem sem_worker_plan : workerPlan? workerBody = some workerPlanNow := by
  decide +kernel

/-- The parent generated from the current source: the fill loop keeps `chain_kwargs["rng"]` and puts
`(c, n_iter, chain_kwargs)` once per chain, `n_process` workers are started on the two queues, the loop
over the iteration queue records a `KeyboardInterrupt` item and breaks, then the collation block. -/
theorem sem_parent_plan : parPlan? parentBody = some ⟨fillPlanNow, onInterruptNow, collateStmt⟩ := by
  decide +kernel

/-- per sorted output: write the generator state back to generator `i`, then append the output -/
theorem sem_collation_plan : Sem.collatePlan? collateStmt = some [.restoreRng, .appendOutput] := by
  decide +kernel

section
variable {St V A P : Type}

/-- **One pass of the generated worker loop is the model's pass** (`Sampler.workerRun`, one chain):
the chain runs with the worker's own parameters on the item's copy of the chain data; the appended
output is tagged with the chain index and carries the generator state reached by the copy AFTER the
run; the worker's parameters become those the chain left; an interrupted chain puts one interrupt item
on the iteration queue and ends the worker's loop. -/
theorem sem_worker_pass_is_modelTake (K : Kernel St V A P) (st : Stage) (offset : Nat)
    (intr : Option (Nat × Nat × Nat)) (c : Nat) (ch : Chain St V) (wk : Worker St V A P) :
    (workerPlan? workerBody).bind (fun acts => takePass acts K st offset intr c ch wk) =
      some (modelTake K st offset intr c ch wk) := by
  rw [sem_worker_plan]; exact takePass_now K st offset intr c ch wk

/-- not vacuous: the pass on a chain that is not interrupted stores exactly one output, puts nothing on
the iteration queue and leaves the worker in its loop -/
example (K : Kernel St V A P) (st : Stage) (c : Nat) (ch : Chain St V) (p : P) :
    ((workerPlan? workerBody).bind (fun acts => takePass acts K st 0 none c ch ⟨p, [], [], false⟩)).map
      (fun r => (r.1.outs.length, r.1.taken, r.1.stopped, r.2)) = some (1, [c], false, []) := by
  rw [sem_worker_pass_is_modelTake]
  have := modelTake_none_stopped K st 0 c ch ⟨p, [], [], false⟩
  simp only [modelTake] at this
  simp [modelTake, this]

/-- **The fill loop generated from the current source** keeps chain `i`'s generator object at position
`i` of `rngs` and queues every chain exactly once, in index order. -/
theorem sem_fill_queues_every_chain_once (chains : List (Chain St V)) :
    (parPlan? parentBody).map (fun plan => fillQueue plan.fill chains) =
      some (List.range chains.length, queueOf chains) := by
  rw [sem_parent_plan]; simp [fillQueue_now]

example : (parPlan? parentBody).map (fun plan => (fillQueue plan.fill [(⟨5, ⟨0, 0⟩, [], []⟩ : Chain Nat Nat),
    ⟨7, ⟨1, 0⟩, [], []⟩]).1) = some [0, 1] := by
  decide +kernel

/-- **(a) Semantic tie of the worker / queue / parent part.**  `_sample_chains_parallel` with its
workers, read from the two generated statement lists under `np` workers and the schedule `σ` — the
parent queues the chains in index order; `σ` decides who takes the next item; each taken chain is run
by the reading of `_sample_chain` (`Sampler.sampleChain`, `C15S.sem_chain_body_is_sampleChain`) on a
copy of its generator with the worker's own transition objects; the worker returns `(chain_index,
outputs + generator state after the run)` per chain; an interrupted chain is reported on the iteration
queue and ends its worker; the parent's loop stops at the interrupt item; the collation block sorts by
chain index and writes the generator states back — IS `Sampler.stagePar … true (poolSched … np σ …)`,
for every kernel, stage, offset, interrupt point, number of workers, schedule, parameters, chain list.
The equality is that of the whole `Acc` record. -/
theorem sem_pool_is_stagePar (K : Kernel St V A P) (st : Stage) (offset : Nat)
    (intr : Option (Nat × Nat × Nat)) (np : Nat) (σ : List Nat) (p : P) (chains : List (Chain St V)) :
    poolPass workerBody parentBody K st offset intr np σ p chains =
      some (stagePar K st offset intr true (poolSched K st offset intr np σ p chains) p chains) :=
  poolPass_eq workerBody parentBody collateStmt sem_worker_plan sem_parent_plan sem_collation_plan
    K st offset intr np σ p chains

/-- not vacuous: without chains the stage result is the empty collation (2 workers, pops by 0 and 1) -/
example (K : Kernel St V A P) (st : Stage) (p : P) :
    poolPass workerBody parentBody K st 0 none 2 [0, 1] p ([] : List (Chain St V)) =
      some ⟨p, [], [], false⟩ := by
  rw [sem_pool_is_stagePar]; rfl

/-- **Every queued chain is taken at most once and nothing is lost**: the chains the workers took
under `σ` together with what is still queued are a permutation of `0 … n-1`
(for every interrupt point: a stopped worker takes nothing, its item stays for the others). -/
theorem pool_takes_each_chain_once (K : Kernel St V A P) (st : Stage) (offset : Nat)
    (intr : Option (Nat × Nat × Nat)) (np : Nat) (σ : List Nat) (p : P) (chains : List (Chain St V)) :
    ((poolSched K st offset intr np σ p chains).flatten ++
        (poolModel K st offset intr np σ (pool0 p chains)).queue.map (·.1)).Perm
      (List.range chains.length) :=
  poolModel_perm K st offset intr np σ p chains

/-- A complete execution (the queue is empty when the workers have returned) is a valid schedule of
the model. -/
theorem pool_complete_is_valid (K : Kernel St V A P) (st : Stage) (offset : Nat)
    (intr : Option (Nat × Nat × Nat)) (np : Nat) (σ : List Nat) (p : P) (chains : List (Chain St V))
    (hd : poolDrained K st offset intr np σ p chains = true) :
    ValidSched (poolSched K st offset intr np σ p chains) chains.length :=
  poolSched_valid K st offset intr np σ p chains hd

/-- Without an interrupt, every schedule that contains at least as many pops by existing workers as
there are chains is complete. -/
theorem pool_complete_of_enough_pops (K : Kernel St V A P) (st : Stage) (offset : Nat) (np : Nat)
    (σ : List Nat) (p : P) (chains : List (Chain St V))
    (h : chains.length ≤ (σ.filter (· < np)).length) :
    poolDrained K st offset none np σ p chains = true :=
  drained_of_enough K st offset np σ p chains h

/-- not vacuous: 3 chains, 2 workers, pops by worker 1, 0, (a non-existing worker 5), 1 -/
example : (3 : Nat) ≤ (([1, 0, 5, 1] : List Nat).filter (· < 2)).length := by decide

/-- **schedule_independent, for the reading.**  Two complete executions of the generated worker /
parent code without interrupt — ANY numbers of workers, ANY schedules — give the same stage result
(collated outputs, arrays, parent generators, ghost logs, flag).  (`AdaptLocal` as in `Props/C14`.) -/
theorem pool_schedule_independent (K : Kernel St V A P) (E : Kind → P → P → Prop) (hE : AdaptLocal K E)
    (st : Stage) (offset : Nat) (np₁ np₂ : Nat) (σ₁ σ₂ : List Nat) (p : P) (chains : List (Chain St V))
    (h₁ : poolDrained K st offset none np₁ σ₁ p chains = true)
    (h₂ : poolDrained K st offset none np₂ σ₂ p chains = true) :
    poolPass workerBody parentBody K st offset none np₁ σ₁ p chains =
      poolPass workerBody parentBody K st offset none np₂ σ₂ p chains := by
  rw [sem_pool_is_stagePar, sem_pool_is_stagePar]
  congr 1
  exact C14.schedule_independent K E hE st offset true _ _ p chains
    (poolSched_valid K st offset none np₁ σ₁ p chains h₁) (poolSched_valid K st offset none np₂ σ₂ p chains h₂)

/-- not vacuous (and usable): the hypotheses follow from counting pops -/
example (K : Kernel St V A P) (E : Kind → P → P → Prop) (hE : AdaptLocal K E) (st : Stage) (p : P)
    (a b c : Chain St V) :
    poolPass workerBody parentBody K st 0 none 2 [1, 0, 5, 1] p [a, b, c] =
      poolPass workerBody parentBody K st 0 none 3 [2, 2, 2] p [a, b, c] :=
  pool_schedule_independent K E hE st 0 2 3 _ _ p _
    (drained_of_enough K st 0 2 _ p _ (by simp)) (drained_of_enough K st 0 3 _ p _ (by simp))

/-- **nprocess_independent, for the reading (one stage).**  A complete execution of the generated
parallel code under any number of workers and any schedule returns the outputs, arrays, generators and
flag of the sequential stage (`Sampler.stageSeq`, the reading of `_sample_chains_sequential`:
`C14S.sem_sequential_is_stageSeq`); the parent's transition parameters are those of the stage start,
equivalent (`E`) to those the sequential stage leaves — which is all `finalize` / the next stage read
(`AdaptLocal`). -/
theorem pool_nprocess_independent (K : Kernel St V A P) (E : Kind → P → P → Prop) (hE : AdaptLocal K E)
    (st : Stage) (offset : Nat) (np : Nat) (σ : List Nat) (p : P) (chains : List (Chain St V))
    (h : poolDrained K st offset none np σ p chains = true) :
    ∃ acc, poolPass workerBody parentBody K st offset none np σ p chains = some acc ∧
      acc.outs = (stageSeq K st offset none p chains).outs ∧
      acc.chains = (stageSeq K st offset none p chains).chains ∧
      acc.halted = (stageSeq K st offset none p chains).halted ∧
      acc.params = p ∧ E st.kind acc.params (stageSeq K st offset none p chains).params := by
  refine ⟨_, sem_pool_is_stagePar K st offset none np σ p chains, ?_⟩
  rw [stagePar_canon K E hE st offset none true _ p chains
    (poolSched_valid K st offset none np σ p chains h) (by intro _ _ _ h; cases h)]
  obtain ⟨h1, h2, h3, h4⟩ := stageSeq_canon K E hE st offset p chains
  exact ⟨h1.symm, h2.symm, h3.symm, rfl, h4⟩

/-- not vacuous: a kernel without adaptable parameters, two chains, two workers, pops by 1 then 0 -/
example (K : Kernel St V A Unit) (st : Stage) (a b : Chain St V) :
    ∃ acc, poolPass workerBody parentBody K st 0 none 2 [1, 0] () [a, b] = some acc ∧
      acc.outs = (stageSeq K st 0 none () [a, b]).outs ∧ acc.chains = (stageSeq K st 0 none () [a, b]).chains :=
  let ⟨acc, h, h1, h2, _⟩ := pool_nprocess_independent K _ (C14.adaptLocal_of_no_params K) st 0 2 [1, 0] () [a, b]
    (drained_of_enough K st 0 2 _ () _ (by simp))
  ⟨acc, h, h1, h2⟩

/-- **nprocess_independent, for the reading (multi-stage runs).**  A run over a stage table in which
every stage is executed either sequentially or by the generated parallel code under its own number of
workers and schedule (`modes`: `none` / `some (np, σ)`; the stage's `Mode` is the schedule that the
reading produces at that point of the run), each parallel execution complete by pop count, returns the
same final states, arrays, generators and transition parameters as the all-sequential run. -/
theorem pool_runs_nprocess_independent (K : Kernel St V A P) (E : Kind → P → P → Prop) (hE : AdaptLocal K E)
    (l : List (Stage × Option (Nat × List Nat))) (sys : Sys St V P) (hs : sys.stopped = false)
    (hm : ∀ sm ∈ l, ∀ np σ, sm.2 = some (np, σ) → sys.chains.length ≤ (σ.filter (· < np)).length) :
    l.foldl (fun sys sm => runStage K none sys (0, sm.1,
        match sm.2 with
        | none => Mode.seq
        | some (np, σ) => Mode.par true (poolSched K sm.1 sys.offset none np σ sys.params sys.chains))) sys =
      runStages K none (l.map (fun sm => (sm.1, Mode.seq))) sys := by
  rw [runStages_canon K E hE _ sys hs (by
    intro sm h; simp only [List.mem_map] at h; obtain ⟨_, _, rfl⟩ := h; trivial)]
  simp only [List.map_map, Function.comp_def]
  induction l generalizing sys with
  | nil => rfl
  | cons sm l ih =>
    simp only [List.foldl_cons, List.map_cons]
    have hstep : runStage K none sys (0, sm.1,
        match sm.2 with
        | none => Mode.seq
        | some (np, σ) => Mode.par true (poolSched K sm.1 sys.offset none np σ sys.params sys.chains)) =
        canonStage K sys sm.1 := by
      rw [← runStage0_canon K E hE sys sm.1 (hs := hs) (m := match sm.2 with
        | none => Mode.seq
        | some (np, σ) => Mode.par true (poolSched K sm.1 sys.offset none np σ sys.params sys.chains))]
      · rfl
      · cases hsm : sm.2 with
        | none => trivial
        | some nσ =>
          obtain ⟨np, σ⟩ := nσ
          exact ⟨rfl, poolSched_valid K sm.1 sys.offset none np σ sys.params sys.chains
            (drained_of_enough K sm.1 sys.offset np σ sys.params sys.chains
              (hm sm List.mem_cons_self np σ hsm))⟩
    rw [hstep]
    obtain ⟨hs', hlen⟩ := canonStage_inv K sys sm.1 hs
    apply ih _ hs'
    intro sm' hsm' np σ he
    rw [hlen]
    exact hm sm' (List.mem_cons_of_mem _ hsm') np σ he

/-- not vacuous: two chains, a warm-up stage run by 2 workers (pops 1, 0, 1) and a sequential main stage -/
example (K : Kernel St V A Unit) (s1 s2 : St) (st1 st2 : Stage) :
    [(st1, some (2, [1, 0, 1])), (st2, (none : Option (Nat × List Nat)))].foldl
        (fun sys sm => runStage K none sys (0, sm.1,
          match sm.2 with
          | none => Mode.seq
          | some (np, σ) => Mode.par true (poolSched K sm.1 sys.offset none np σ sys.params sys.chains)))
        (initSys K () [s1, s2] 3) =
      runStages K none [(st1, Mode.seq), (st2, Mode.seq)] (initSys K () [s1, s2] 3) := by
  apply pool_runs_nprocess_independent K _ (C14.adaptLocal_of_no_params K) _ _ rfl
  intro sm hsm np σ he
  simp only [List.mem_cons, List.not_mem_nil, or_false] at hsm
  rcases hsm with rfl | rfl
  · simp only [Option.some.injEq, Prod.mk.injEq] at he
    obtain ⟨rfl, rfl⟩ := he
    simp [initSys]
  · cases he

/-- **no_replay, for the reading.**  If before the stage every parent generator `c` is on stream `c`
at the position where chain `c`'s draw log ends (consecutive from 0), then after a complete execution
of the generated parallel code (no interrupt, any workers / schedule) the same holds — the generator
state read by the worker AFTER the run and written back by the collation puts the parent generator
exactly at the end of what the chain consumed — and the consumed ranges are pairwise disjoint: the
next stage replays nothing. -/
theorem pool_no_replay (K : Kernel St V A P) (E : Kind → P → P → Prop) (hE : AdaptLocal K E)
    (st : Stage) (offset : Nat) (np : Nat) (σ : List Nat) (p : P) (chains : List (Chain St V))
    (h : poolDrained K st offset none np σ p chains = true)
    (hok : ∀ c ch, chains[c]? = some ch → ChainOK c ch) :
    ∃ acc, poolPass workerBody parentBody K st offset none np σ p chains = some acc ∧
      ∀ c ch, acc.chains[c]? = some ch →
        ChainOK c ch ∧ ch.log.Pairwise (fun a b => a.start + a.count ≤ b.start) := by
  refine ⟨_, sem_pool_is_stagePar K st offset none np σ p chains, ?_⟩
  rw [stagePar_canon K E hE st offset none true _ p chains
    (poolSched_valid K st offset none np σ p chains h) (by intro _ _ _ h; cases h)]
  intro c ch hc
  simp only [canonPar, canonChains, List.getElem?_mapIdx, if_true] at hc
  cases hch : chains[c]? with
  | none => simp [hch] at hc
  | some ch0 =>
    simp only [hch, Option.map_some, Option.some.injEq] at hc
    have hctx := chainOK_chainRes K st offset p ch0 c (hok c ch0 hch)
    have hok' : ChainOK c ch := by
      rw [← hc]
      exact hctx
    exact ⟨hok', (consecFrom_disjoint 0 _ _ hok'.2.2).2.2⟩

/-- not vacuous: fresh generators (`initSys`: stream `c`, position 0, empty log) satisfy the hypothesis -/
example (K : Kernel St V A P) (p : P) (inits : List St) (n : Nat) :
    ∀ c ch, (initSys K p inits n : Sys St V P).chains[c]? = some ch → ChainOK c ch :=
  logsOK_initSys K p inits n

end

/-! ### the reading sees the changes it is meant to see (instances; the theorems above are about the
generated trees) -/

open MiciVerif.SamplerCount in
/-- generator state read BEFORE the run (`rng_state = …` moved in front of `with context:`): the reading
hands the stage-start state back, so the parent generator does not move — not `stagePar`'s. -/
example :
    let K := kernel ⟨false, 0, 2, false, 0, false, false, 1⟩
    let ch : Chain St (List Nat) := ⟨⟨0, 0, 0, 0, 0, 0⟩, ⟨0, 0⟩, [[none, none], [none, none]], []⟩
    let early : List WAct := [.takeChain, .inner .readRngState, .runChain,
      .unlessAdaptError [.appendIndexed], .ifInterrupted [.putInterrupt, .brk]]
    ((takePass early K ⟨2, .main, true, true⟩ 0 none 0 ch ⟨⟨5, 9⟩, [], [], false⟩).map
        fun r => r.1.outs.map (·.out.rng.pos)) = some [0] ∧
    ((takePass workerPlanNow K ⟨2, .main, true, true⟩ 0 none 0 ch ⟨⟨5, 9⟩, [], [], false⟩).map
        fun r => r.1.outs.map (·.out.rng.pos)) = some [4] := by
  decide +kernel

/-- `break` dropped from the worker's interrupt branch: the reading leaves the worker in its loop -/
example {St V A P : Type} (K : Kernel St V A P) (st : Stage) (c i j : Nat) (ch : Chain St V) (p : P)
    (h : (sampleChain K st 0 (some (i, j)) p ch.state ch.rng ch.log ch.mem).halted = true) :
    (takePass [.takeChain, .runChain, .unlessAdaptError [.readRngState, .appendIndexed],
        .ifInterrupted [.putInterrupt]] K st 0 (some (c, i, j)) c ch ⟨p, [], [], false⟩).map
      (fun r => r.1.stopped) = some false := by
  simp [takePass, runWActs, runInner, runIntr, chainIntr, h]

/-- the output appended without the chain index is not recognised (fail closed) -/
example : wAct? (.expr (.call "chain_outputs.append"
    (E.l [.tup (E.l [.star (.v "outputs"), .v "rng_state"])]))) = none := by
  decide +kernel

end MiciVerif.C14P
