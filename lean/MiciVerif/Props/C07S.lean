/-
C07 (source level) — the flow methods that are in `src/mici/systems.py` NOW
(`h1_flow`, `h2_flow`, `dh2_flow_dmom`, as translated into `Generated/SystemMethods.lean`) are the
`kick` / `drift` / `harmonic` maps of `Model/Integrators.lean`, for every environment, every
state and every time.

* `src_<Class>_h1_flow_eq_model`: executing the generated body of `h1_flow(state, dt)` — the
  in-place update `state.mom -= dt * self.dh1_dpos(state)` with `dh1_dpos` resolved through the
  generated MRO and evaluated from *its* generated body — leaves `(pos, mom) = kick g dt (q, p)`
  where `g` is the `dh1_dpos` of the hand model of that class (`Model/Systems.lean`).
* `src_<Class>_h2_flow_eq_model`: `drift (metric.inv @ ·)` for the Euclidean split,
  `harmonic eigvec ω trig` for the Gaussian split with `ω = 1.0 / eigval ** 0.5` and
  `trig t = (cos(ω t), sin(ω t))` exactly as the source computes them.
* `src_<Class>_dh2_flow_dmom_eq_model`: the returned pair of matrices acts on a momentum
  perturbation as `driftDmom` / `harmonicDmom`.
* `src_…_flow_group / _reverse / _conserved`: the theorems of `Props/C07.lean` restated for the
  source text.
-/
import MiciVerif.Lemmas.SysExprEnv
import MiciVerif.Generated.SystemMethods
import MiciVerif.Props.C07

set_option linter.unusedSimpArgs false
set_option linter.unusedSectionVars false
set_option linter.unnecessarySeqFocus false

namespace MiciVerif.C07
open Matrix MiciVerif.Systems MiciVerif.Integrators MiciVerif.SysExpr
open MiciVerif.Generated.SystemMethods

/-! ### `h1_flow` (all classes; over any commutative ring the statement is spelled out, over a
field it is `kick`) -/

section Kick
variable {K : Type*} [Field K] {n c κ : Type*} [Fintype n] [Fintype c] [Fintype κ]
  [DecidableEq n] [DecidableEq c]

/-- the final `(pos, mom)` of an in-place method as a value -/
def flowVal (x : (n → K) × (n → K)) : Val K n c κ := .pair (.vn x.1) (.vn x.2)

theorem src_EuclideanMetricSystem_h1_flow_eq_model (E : Env K n c κ) (t : K) (q p : n → K) :
    table.flow E .EuclideanMetricSystem .h1_flow t q p
      = flowVal (kick (fun q' => (euclidean E.half E.metric.inv E.negLogDens E.gradNegLogDens).dh1_dpos q' 0) t (q, p)) := by
  src_eval; simp [flowVal, kick, euclidean]

theorem src_GaussianEuclideanMetricSystem_h1_flow_eq_model (E : Env K n c κ) (t : K) (q p : n → K) :
    table.flow E .GaussianEuclideanMetricSystem .h1_flow t q p
      = flowVal (kick (fun q' => (gaussianEuclidean E.half E.metric.inv E.negLogDens E.gradNegLogDens).dh1_dpos q' 0) t (q, p)) := by
  src_eval; simp [flowVal, kick, gaussianEuclidean]

theorem src_DenseConstrainedEuclideanMetricSystem_h1_flow_eq_model (E : Env K n c κ) (b : Bool)
    (t : K) (q p : n → K) :
    table.flow (E.withFlag b) .DenseConstrainedEuclideanMetricSystem .h1_flow t q p
      = flowVal (kick (fun q' => (denseConstrained b E.half E.logabs E.metric.inv E.negLogDens
          E.gradNegLogDens E.consFns).dh1_dpos q' 0) t (q, p)) := by
  cases b <;> src_eval <;>
    simp [flowVal, kick, denseConstrained, gradLogDetSqrtGram, gram, Env.consFns, Env.withFlag]

theorem src_GaussianDenseConstrainedEuclideanMetricSystem_h1_flow_eq_model (E : Env K n c κ)
    (t : K) (q p : n → K) :
    table.flow (E.withFlag false) .GaussianDenseConstrainedEuclideanMetricSystem .h1_flow t q p
      = flowVal (kick (fun q' => (gaussianDenseConstrained E.half E.logabs E.metric.inv E.negLogDens
          E.gradNegLogDens E.consFns).dh1_dpos q' 0) t (q, p)) := by
  src_eval
  simp [flowVal, kick, gaussianDenseConstrained, gradLogDetSqrtGram, gram, Env.consFns, Env.withFlag]

/-- the Riemannian family (`h1_flow` is inherited from `System`; `dh1_dpos` contains the
`½ vjp(grad_log_abs_det)` term) -/
theorem src_RiemannianMetricSystem_h1_flow_eq_model (E : Env K n c κ) (Mc : MetricClass K κ n)
    (F : MetricFns K κ n) (L : (κ → K) → Matrix n n K) (t : K) (q p : n → K) (D : Cls)
    (hD : D = .RiemannianMetricSystem ∨ D = .ScalarRiemannianMetricSystem ∨
      D = .DiagonalRiemannianMetricSystem ∨ D = .CholeskyFactoredRiemannianMetricSystem ∨
      D = .DenseRiemannianMetricSystem) :
    table.flow (E.withRiemannian Mc F L) D .h1_flow t q p
      = flowVal (kick (fun q' => (riemannian E.half E.logabs E.negLogDens E.gradNegLogDens Mc F).dh1_dpos q' 0) t (q, p)) := by
  rcases hD with h | h | h | h | h <;> subst h <;> src_eval <;>
    simp [flowVal, kick, riemannian, Env.withRiemannian, matObjOfClass]

theorem src_SoftAbsRiemannianMetricSystem_h1_flow_eq_model (E : Env K n c κ) (Mc : MetricClass K κ n)
    (F : MetricFns K κ n) (L : (κ → K) → Matrix n n K) (t : K) (q p : n → K) :
    table.flow (E.withSoftAbs Mc F L) .SoftAbsRiemannianMetricSystem .h1_flow t q p
      = flowVal (kick (fun q' => (riemannian E.half E.logabs E.negLogDens E.gradNegLogDens Mc F).dh1_dpos q' 0) t (q, p)) := by
  src_eval; simp [flowVal, kick, riemannian, Env.withSoftAbs, matObjOfClass]

/-! ### Euclidean `h2_flow`, `dh2_flow_dmom` -/

theorem src_EuclideanMetricSystem_h2_flow_eq_model (E : Env K n c κ) (t : K) (q p : n → K) :
    table.flow E .EuclideanMetricSystem .h2_flow t q p
      = flowVal (drift (fun v => E.metric.inv *ᵥ v) t (q, p)) := by
  src_eval; simp [flowVal, drift]

theorem src_DenseConstrainedEuclideanMetricSystem_h2_flow_eq_model (E : Env K n c κ) (t : K)
    (q p : n → K) :
    table.flow E .DenseConstrainedEuclideanMetricSystem .h2_flow t q p
      = flowVal (drift (fun v => E.metric.inv *ᵥ v) t (q, p)) := by
  src_eval; simp [flowVal, drift]

/-- `dh2_flow_dmom(state, dt) = (dt * metric.inv, Identity)` acts on a momentum perturbation as
`driftDmom`. -/
theorem src_DenseConstrainedEuclideanMetricSystem_dh2_flow_dmom_eq_model (E : Env K n c κ) (t : K)
    (q p : n → K) :
    ∃ A B : Matrix n n K,
      table.value1 E .DenseConstrainedEuclideanMetricSystem .dh2_flow_dmom q p (.sc t)
        = .pair (.mnn A) (.mnn B) ∧
      ∀ δ, (A *ᵥ δ, B *ᵥ δ) = driftDmom (fun v => E.metric.inv *ᵥ v) t δ := by
  refine ⟨t • E.metric.inv, 1, by src_eval, fun δ => ?_⟩
  simp [driftDmom, Matrix.smul_mulVec]

end Kick

/-! ### Gaussian-split `h2_flow`, `dh2_flow_dmom` -/

section Gaussian
variable {K : Type*} [Field K] {m : Nat} {c κ : Type*} [Fintype c] [Fintype κ] [DecidableEq c]

/-- `omega = 1.0 / self.metric.eigval ** 0.5` as the source computes it -/
def srcOmega (E : Env K (Fin m) c κ) : Fin m → K := fun i => 1 * E.recip (E.sqrt (E.metric.eigval i))

/-- `(np.cos(omega * dt), np.sin(omega * dt))` as the source computes them -/
def srcTrig (E : Env K (Fin m) c κ) (t : K) : Trig m K :=
  ⟨fun i => E.cos (t * srcOmega E i), fun i => E.sin (t * srcOmega E i)⟩

/-- `x / y` of the source is `x * recip y`; over a field `recip` is the inverse -/
abbrev FieldRecip (E : Env K (Fin m) c κ) : Prop := ∀ x, E.recip x = x⁻¹

theorem src_GaussianEuclideanMetricSystem_h2_flow_eq_model (E : Env K (Fin m) c κ)
    (hr : FieldRecip E) (t : K) (q p : Fin m → K) :
    table.flow E .GaussianEuclideanMetricSystem .h2_flow t q p
      = flowVal (harmonic E.metric.eigvec (srcOmega E) (srcTrig E) t (q, p)) := by
  src_eval
  simp only [flowVal, harmonic, srcTrig, srcOmega]
  congr 3 <;> funext i <;>
    simp [srcOmega, Pi.mul_apply, Pi.add_apply, Pi.sub_apply, Pi.div_apply,
      (hr : ∀ x, E.recip x = x⁻¹), div_eq_mul_inv, mul_comm]

theorem src_GaussianDenseConstrainedEuclideanMetricSystem_h2_flow_eq_model
    (E : Env K (Fin m) c κ) (hr : FieldRecip E) (t : K) (q p : Fin m → K) :
    table.flow E .GaussianDenseConstrainedEuclideanMetricSystem .h2_flow t q p
      = flowVal (harmonic E.metric.eigvec (srcOmega E) (srcTrig E) t (q, p)) := by
  src_eval
  simp only [flowVal, harmonic, srcTrig, srcOmega]
  congr 3 <;> funext i <;>
    simp [srcOmega, Pi.mul_apply, Pi.add_apply, Pi.sub_apply, Pi.div_apply,
      (hr : ∀ x, E.recip x = x⁻¹), div_eq_mul_inv, mul_comm]

private theorem eigMat_mulVec (Q : Matrix (Fin m) (Fin m) K) (d v : Fin m → K) :
    (Q * Matrix.diagonal d * Qᵀ) *ᵥ v = eigMulVec Q d v := by
  unfold eigMulVec
  rw [← Matrix.mulVec_mulVec, ← Matrix.mulVec_mulVec]
  congr 1
  funext i
  simp [Matrix.mulVec_diagonal]

/-- `dh2_flow_dmom` of the Gaussian-split constrained system returns
`(Eigendecomposed(eigvec, sin(ω dt) ω), Eigendecomposed(eigvec, cos(ω dt)))`: `harmonicDmom`. -/
theorem src_GaussianDenseConstrainedEuclideanMetricSystem_dh2_flow_dmom_eq_model
    (E : Env K (Fin m) c κ) (t : K) (q p : Fin m → K) :
    ∃ A B : Matrix (Fin m) (Fin m) K,
      table.value1 E .GaussianDenseConstrainedEuclideanMetricSystem .dh2_flow_dmom q p (.sc t)
        = .pair (.mnn A) (.mnn B) ∧
      ∀ δ, (A *ᵥ δ, B *ᵥ δ) = harmonicDmom E.metric.eigvec (srcOmega E) (srcTrig E) t δ := by
  refine ⟨?A, ?B, ?h, ?g⟩
  case h => src_eval
  case g =>
    intro δ
    simp only [harmonicDmom, eigMat_mulVec, srcTrig, Prod.mk.injEq]
    constructor <;> congr 1

end Gaussian

/-! ### the flow theorems of `Props/C07.lean`, for the source text -/

section Transport
variable {K : Type*} [Field K] {n c κ : Type*} [Fintype n] [Fintype c] [Fintype κ]
  [DecidableEq n] [DecidableEq c]

/-- the in-place method `m` of class `D` is the map `φ` -/
def FlowIs (E : Env K n c κ) (D : Cls) (m : Meth) (φ : K → (n → K) × (n → K) → (n → K) × (n → K)) :
    Prop :=
  ∀ t q p, table.flow E D m t q p = flowVal (φ t (q, p))

/-- group law and reversal, stated on what the source text computes: running the method for `t`
and then for `s` from the resulting state gives the state of one run for `s + t`, and running it
for `-t` afterwards gives back the initial state. -/
def SrcFlowGroup (E : Env K n c κ) (D : Cls) (m : Meth) : Prop :=
  ∀ s t q p, ∃ q₁ p₁ q₂ p₂ : n → K,
    table.flow E D m t q p = .pair (.vn q₁) (.vn p₁) ∧
    table.flow E D m s q₁ p₁ = .pair (.vn q₂) (.vn p₂) ∧
    table.flow E D m (s + t) q p = .pair (.vn q₂) (.vn p₂) ∧
    table.flow E D m (-t) q₁ p₁ = .pair (.vn q) (.vn p) ∧
    table.flow E D m 0 q p = .pair (.vn q) (.vn p)

theorem srcFlowGroup_of {E : Env K n c κ} {D : Cls} {m : Meth}
    {φ : K → (n → K) × (n → K) → (n → K) × (n → K)} (h : FlowIs E D m φ)
    (hadd : ∀ s t x, φ (s + t) x = φ s (φ t x)) (hneg : ∀ t x, φ (-t) (φ t x) = x)
    (hzero : ∀ x, φ 0 x = x) : SrcFlowGroup E D m := by
  intro s t q p
  refine ⟨(φ t (q, p)).1, (φ t (q, p)).2, (φ s (φ t (q, p))).1, (φ s (φ t (q, p))).2, h t q p, ?_, ?_,
    ?_, ?_⟩
  · exact h s _ _
  · rw [h (s + t) q p, hadd]; rfl
  · rw [h (-t) _ _]; simp only [Prod.mk.eta, hneg]; rfl
  · rw [h 0 q p, hzero]; rfl

/-- `System.h1_flow` as inherited by `EuclideanMetricSystem` is a one-parameter group. -/
theorem src_EuclideanMetricSystem_h1_flow_group (E : Env K n c κ) :
    SrcFlowGroup E .EuclideanMetricSystem .h1_flow :=
  srcFlowGroup_of (fun t q p => src_EuclideanMetricSystem_h1_flow_eq_model E t q p)
    (fun s t x => kick_add _ s t x) (fun t x => kick_neg _ t x) (fun x => kick_zero _ x)

theorem src_GaussianEuclideanMetricSystem_h1_flow_group (E : Env K n c κ) :
    SrcFlowGroup E .GaussianEuclideanMetricSystem .h1_flow :=
  srcFlowGroup_of (fun t q p => src_GaussianEuclideanMetricSystem_h1_flow_eq_model E t q p)
    (fun s t x => kick_add _ s t x) (fun t x => kick_neg _ t x) (fun x => kick_zero _ x)

theorem src_DenseConstrainedEuclideanMetricSystem_h1_flow_group (E : Env K n c κ) (b : Bool) :
    SrcFlowGroup (E.withFlag b) .DenseConstrainedEuclideanMetricSystem .h1_flow :=
  srcFlowGroup_of
    (fun t q p => src_DenseConstrainedEuclideanMetricSystem_h1_flow_eq_model E b t q p)
    (fun s t x => kick_add _ s t x) (fun t x => kick_neg _ t x) (fun x => kick_zero _ x)

theorem src_EuclideanMetricSystem_h2_flow_group (E : Env K n c κ) :
    SrcFlowGroup E .EuclideanMetricSystem .h2_flow :=
  srcFlowGroup_of (fun t q p => src_EuclideanMetricSystem_h2_flow_eq_model E t q p)
    (fun s t x => drift_add _ s t x) (fun t x => drift_neg _ t x) (fun x => drift_zero _ x)

theorem src_DenseConstrainedEuclideanMetricSystem_h2_flow_group (E : Env K n c κ) :
    SrcFlowGroup E .DenseConstrainedEuclideanMetricSystem .h2_flow :=
  srcFlowGroup_of (fun t q p => src_DenseConstrainedEuclideanMetricSystem_h2_flow_eq_model E t q p)
    (fun s t x => drift_add _ s t x) (fun t x => drift_neg _ t x) (fun x => drift_zero _ x)

/-- `h1_flow` moves only the momentum, `h2_flow` of the Euclidean split only the position (so
`h1`, a function of the position, resp. `h2`, a function of the momentum, is conserved). -/
theorem src_EuclideanMetricSystem_flows_conserve (E : Env K n c κ) (t : K) (q p : n → K) :
    (∃ p', table.flow E .EuclideanMetricSystem .h1_flow t q p = .pair (.vn q) (.vn p')) ∧
    (∃ q', table.flow E .EuclideanMetricSystem .h2_flow t q p = .pair (.vn q') (.vn p)) :=
  ⟨⟨_, src_EuclideanMetricSystem_h1_flow_eq_model E t q p⟩,
   ⟨_, src_EuclideanMetricSystem_h2_flow_eq_model E t q p⟩⟩

end Transport

section TransportGaussian
variable {K : Type*} [Field K] {m : Nat} {c κ : Type*} [Fintype c] [Fintype κ] [DecidableEq c]

/-- Gaussian-split `h2_flow` of the source is a one-parameter group with the negative time as
inverse, given orthonormal eigenvectors, positive eigenvalues (`ω ≠ 0`) and the algebraic facts
about `cos`/`sin` (angle addition, parity, `cos² + sin² = 1`, values at 0). -/
theorem src_GaussianEuclideanMetricSystem_h2_flow_group (E : Env K (Fin m) c κ)
    (hr : FieldRecip E) (hQ : E.metric.eigvecᵀ * E.metric.eigvec = 1)
    (hω : ∀ i, srcOmega E i ≠ 0)
    (hadd : ∀ s t, srcTrig E (s + t) = (srcTrig E s).comp (srcTrig E t))
    (hunit : ∀ t, (srcTrig E t).IsUnit) (hneg : ∀ t, srcTrig E (-t) = (srcTrig E t).inv)
    (h0 : srcTrig E 0 = Trig.one) :
    SrcFlowGroup E .GaussianEuclideanMetricSystem .h2_flow :=
  srcFlowGroup_of (fun t q p => src_GaussianEuclideanMetricSystem_h2_flow_eq_model E hr t q p)
    (fun s t x => harmonic_add _ _ _ hQ hω hadd s t x)
    (fun t x => harmonic_neg _ _ _ hQ hω hunit hneg t x)
    (fun x => harmonic_zero _ _ _ hQ h0 x)

theorem src_GaussianDenseConstrainedEuclideanMetricSystem_h2_flow_group (E : Env K (Fin m) c κ)
    (hr : FieldRecip E) (hQ : E.metric.eigvecᵀ * E.metric.eigvec = 1)
    (hω : ∀ i, srcOmega E i ≠ 0)
    (hadd : ∀ s t, srcTrig E (s + t) = (srcTrig E s).comp (srcTrig E t))
    (hunit : ∀ t, (srcTrig E t).IsUnit) (hneg : ∀ t, srcTrig E (-t) = (srcTrig E t).inv)
    (h0 : srcTrig E 0 = Trig.one) :
    SrcFlowGroup E .GaussianDenseConstrainedEuclideanMetricSystem .h2_flow :=
  srcFlowGroup_of
    (fun t q p => src_GaussianDenseConstrainedEuclideanMetricSystem_h2_flow_eq_model E hr t q p)
    (fun s t x => harmonic_add _ _ _ hQ hω hadd s t x)
    (fun t x => harmonic_neg _ _ _ hQ hω hunit hneg t x)
    (fun x => harmonic_zero _ _ _ hQ h0 x)

/-- The Gaussian-split `h2` of the source (`0.5 * pos @ pos + 0.5 * mom @ metric.inv @ mom`) is
conserved by the Gaussian-split `h2_flow` of the source, when `metric.inv` is the matrix with the
eigendecomposition the flow uses (`metric.inv = Q diag(ω²) Qᵀ`, checked data). -/
theorem src_GaussianEuclideanMetricSystem_h2_conserved (E : Env K (Fin m) c κ)
    (hr : FieldRecip E) (hhalf : E.half = 1 / 2) (hQ : E.metric.eigvecᵀ * E.metric.eigvec = 1)
    (hω : ∀ i, srcOmega E i ≠ 0) (hunit : ∀ t, (srcTrig E t).IsUnit)
    (hinv : ∀ v, E.metric.inv *ᵥ v = eigMulVec E.metric.eigvec (srcOmega E * srcOmega E) v)
    (t : K) (q p : Fin m → K) :
    ∃ (q' p' : Fin m → K) (e : K),
      table.flow E .GaussianEuclideanMetricSystem .h2_flow t q p = .pair (.vn q') (.vn p') ∧
      table.value E .GaussianEuclideanMetricSystem .h2 q p = .sc e ∧
      table.value E .GaussianEuclideanMetricSystem .h2 q' p' = .sc e := by
  have hval : ∀ q p : Fin m → K, table.value E .GaussianEuclideanMetricSystem .h2 q p
      = .sc (gaussH2 E.metric.eigvec (srcOmega E) (q, p)) := by
    intro q p
    src_eval
    simp [gaussH2, hhalf, ← hinv, Matrix.dotProduct_mulVec, Matrix.smul_vecMul]
  refine ⟨_, _, _, src_GaussianEuclideanMetricSystem_h2_flow_eq_model E hr t q p, hval q p, ?_⟩
  rw [hval, Prod.mk.eta, harmonic_h2_conserved _ _ _ hQ hω hunit]

end TransportGaussian

/-! ### non-vacuity -/

section Examples

private def exObj : MatObj ℚ (Fin 1) Unit where
  inv := !![4]
  sqrt := !![1 / 2]
  eigvec := 1
  eigval := fun _ => 1 / 4
  logAbsDet := 0
  gradLogAbsDet := fun _ => 0
  gradQuadFormInv := fun _ _ => 0

/-- one mode, `M = 1/4`, `sqrt` table `1/4 ↦ 1/2`, so `ω = 2`; rotation data `(3/5, 4/5)` -/
private def exEnv : Env ℚ (Fin 1) (Fin 1) Unit where
  half := 1 / 2
  recip := fun x => x⁻¹
  sqrt := fun x => 2 * x
  sin := fun _ => 4 / 5
  cos := fun _ => 3 / 5
  logabs := fun _ => 0
  metric := exObj
  metricClass := fun _ => exObj
  invCC := fun A => A
  densWrtHausdorff := true
  negLogDens := fun q => q 0 * q 0
  gradNegLogDens := fun q => ![2 * q 0]
  constr := fun q _ => q 0
  jacobConstr := fun _ => !![1]
  mhpConstr := fun _ _ => 0
  metricFunc := fun _ _ => 1
  vjpMetricFunc := fun _ _ => 0
  hessNegLogDens := fun _ _ => 1
  mtpNegLogDens := fun _ _ => 0
  z := ![1]

/-- the source's harmonic flow really rotates: `(q, p) = (1, 1) ↦ (11/5, 1/5)` (same numbers as the
example of `Props/C07.lean`) -/
example :
    table.flow exEnv .GaussianEuclideanMetricSystem .h2_flow 1 ![1] ![1]
      = .pair (.vn ![11 / 5]) (.vn ![1 / 5]) := by
  rw [src_GaussianEuclideanMetricSystem_h2_flow_eq_model exEnv (fun _ => rfl)]
  simp only [flowVal, harmonic, srcTrig, srcOmega, exEnv, exObj]
  congr 2 <;> funext i <;> fin_cases i <;> simp [srcOmega, Matrix.mulVec, dotProduct, Matrix.one_apply] <;> norm_num

/-- the source's kick: `p ↦ p - t ∇ℓ(q)` -/
example :
    table.flow exEnv .EuclideanMetricSystem .h1_flow 3 ![1] ![1] = .pair (.vn ![1]) (.vn ![-5]) := by
  rw [src_EuclideanMetricSystem_h1_flow_eq_model]
  simp only [flowVal, kick, euclidean, exEnv]
  congr 2; funext i; fin_cases i; simp; norm_num

example : FieldRecip exEnv := fun _ => rfl

end Examples

end MiciVerif.C07
