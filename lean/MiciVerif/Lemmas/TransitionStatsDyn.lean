/-
Generic part of the statistics reading of `DynamicIntegrationTransition.sample` (builder B12): for the expected
plans, the loop read on the shared dictionary (`SSem.runLoop`, its `_build_tree` calls being `SSem.buildRead`)
accumulates exactly `Transitions.visited t start` — leaf list, still-going flag, number of passes, error flag —
and the statements after the loop (`SSem.runFin`) turn that into `n_step`, `av_metrop_accept_prob`, `accept_stat`
and `tree_depth`.  Independent of the generated tables.
-/
import MiciVerif.Lemmas.TransitionStatsBuild
import MiciVerif.Lemmas.TransitionSkeletonDyn

namespace MiciVerif.Skel.SSem
open MiciVerif.Transitions MiciVerif.Transitions.TTree

set_option linter.unusedSectionVars false

variable {K : Type} [Field K] [LinearOrder K]

/-- the plan of the body of `sample` the model was written against -/
def expectedSamplePlan : SamplePlan :=
  ⟨[.initStats, .initAux, .initTree, .initNext], DSem.expectedPassPlan,
   [.popSum, .average, .acceptStat, .treeDepth, .returnAll]⟩

/-- while the expansion is still going on no error has been met -/
theorem visited_going_no_err (t : TTree K) (start : Nat) (h : (visited t start).2.1 = true) :
    (visited t start).2.2.2 = false := by
  cases t with
  | leaf w ok => rfl
  | node l r e τ =>
    simp only [visited] at h ⊢
    split at h
    · split at h
      · rename_i h1 h2; rw [if_pos h1, if_pos h2]; rw [h] at h2; simp at h2
      · split at h
        · simp at h
        · rename_i h1 h2 h3
          rw [if_pos h1, if_neg h2, if_neg h3]
          simp only [decide_eq_true_eq] at h
          simp [h]
    · split at h
      · simp at h
      · split at h
        · simp at h
        · rename_i h1 h2 h3
          rw [if_neg h1, if_neg h2, if_neg h3]
          simp only [decide_eq_true_eq] at h
          simp [h]

/-- no pass is started only when the tree is a single leaf -/
theorem visited_iters_zero (t : TTree K) (start : Nat) (h : (visited t start).2.2.1 = 0) :
    ∃ w ok, t = .leaf w ok := by
  induction t generalizing start with
  | leaf w ok => exact ⟨w, ok, rfl⟩
  | node l r e τ ihl ihr =>
    exfalso
    simp only [visited] at h
    split at h
    · split at h
      · rename_i h1 h2
        obtain ⟨w, ok, rfl⟩ := ihl start h
        simp [visited] at h2
      · split at h
        · rename_i h1 h2 h3
          obtain ⟨w, ok, rfl⟩ := ihl start h
          simp [termFlag] at h3
        · simp at h
    · split at h
      · rename_i h1 h2
        obtain ⟨w, ok, rfl⟩ := ihr _ h
        simp [visited] at h2
      · split at h
        · rename_i h1 h2 h3
          obtain ⟨w, ok, rfl⟩ := ihr _ h
          simp [termFlag] at h3
        · simp at h

theorem visited_iters_pos (l r : TTree K) (e τ : Bool) (start : Nat) :
    0 < (visited (.node l r e τ) start).2.2.1 := by
  rcases Nat.eq_zero_or_pos (visited (.node l r e τ) start).2.2.1 with h | h
  · obtain ⟨w, ok, h'⟩ := visited_iters_zero _ _ h
    cases h'
  · exact h

/-- one pass of the expected loop body on the shared dictionary -/
theorem runPass_expected (stepErr : ErrKind) (a : Nat → K) (off : Nat) (sibCall : St K → Option (Bool × St K))
    (τ : Bool) (s : St K) (bv : List Nat × BuildEnd)
    (hcall : ∃ r, sibCall s = some r ∧ BSpec stepErr a off bv s r) :
    ∃ fl, runPass sibCall τ DSem.expectedPassPlan Option.none s =
        some (decide (bv.2 ≠ .ok) || τ, s.visit a off bv.1 fl) ∧ FlagSpec stepErr bv.2 s.flags fl := by
  obtain ⟨r, hr, fl, rfl, hfl⟩ := hcall
  refine ⟨fl, ?_, hfl⟩
  by_cases h : bv.2 = .ok
  · cases τ <;> simp [DSem.expectedPassPlan, runPass, hr, h]
  · simp [DSem.expectedPassPlan, runPass, hr, h]

/-- what the loop leaves behind, started with the dictionary `s` -/
def LoopSpec (stepErr : ErrKind) (a : Nat → K) (off : Nat) (v : List Nat × Bool × Nat × Bool) (term : Bool) (s : St K)
    (p : LoopSt K) : Prop :=
  ∃ fl, p = ⟨s.visit a off v.1 fl, v.2.1 && !term, v.2.2.1⟩ ∧ (v.2.2.2 = false → fl = s.flags) ∧
    (v.2.2.2 = true → ∃ k, (k = stepErr ∨ k = .divergence) ∧ fl = procFlags k s.flags)

theorem termFlag_node (l r : TTree K) (e τ : Bool) : (TTree.node l r e τ).termFlag = τ := rfl

theorem runLoop_expected (stepErr : ErrKind) (a : Nat → K) (t : TTree K) (start off : Nat) (s : St K) :
    ∃ p, runLoop DSem.expectedPassPlan BSem.expectedPlan (runProc expectedChain) stepErr a t start off s = some p ∧
      LoopSpec stepErr a off (visited t start) t.termFlag s p := by
  induction t generalizing start off s with
  | leaf w ok =>
    refine ⟨_, rfl, s.flags, ?_, fun _ => rfl, fun h => by simp [visited] at h⟩
    simp [visited, termFlag, St.visit_nil]
  | node l r e τ ihl ihr =>
    simp only [runLoop, visited, termFlag_node]
    by_cases hs : start < l.size
    · simp only [hs, if_true]
      obtain ⟨p, hp, fl, rfl, hf0, hf1⟩ := ihl start off s
      simp only [hp, Option.bind_some]
      by_cases hg : (visited l start).2.1 = true
      · by_cases ht : l.termFlag = true
        · simp only [hg, ht, Bool.not_true, Bool.and_false, Bool.false_eq_true, if_false, if_true]
          exact ⟨_, rfl, fl, by simp, hf0, hf1⟩
        · have herr := visited_going_no_err l start hg
          have := hf0 herr
          subst this
          obtain ⟨fl2, hrun, hfl2⟩ := runPass_expected stepErr a (off + l.size) _ τ _ _
            (buildRead_expected stepErr a true r (off + l.size) e (s.visit a off (visited l start).1 s.flags))
          rw [St.visit_shift, St.visit_visit, St.visit_flags] at *
          simp only [Bool.not_eq_true] at ht
          simp only [hg, ht, Bool.not_true, Bool.not_false, Bool.and_true, Bool.false_eq_true, if_false, hrun,
            Option.map_some]
          refine ⟨_, rfl, fl2, ?_, ?_, ?_⟩
          · by_cases hb : (buildVisit true r e).2 = .ok <;> simp [hb]
          · simp only [decide_eq_false_iff_not]
            exact hfl2.1
          · simp only [decide_eq_true_eq]
            exact hfl2.2
      · simp only [Bool.not_eq_true] at hg
        simp only [hg, Bool.false_and, Bool.not_false, if_true]
        exact ⟨_, rfl, fl, by simp [hg], hf0, hf1⟩
    · simp only [hs, if_false]
      obtain ⟨p, hp, fl, rfl, hf0, hf1⟩ := ihr (start - l.size) (off + l.size) s
      rw [St.visit_shift] at hp
      simp only [hp, Option.bind_some]
      by_cases hg : (visited r (start - l.size)).2.1 = true
      · by_cases ht : r.termFlag = true
        · simp only [hg, ht, Bool.not_true, Bool.and_false, Bool.false_eq_true, if_false, if_true]
          exact ⟨_, rfl, fl, by simp, hf0, hf1⟩
        · have herr := visited_going_no_err r (start - l.size) hg
          have := hf0 herr
          subst this
          obtain ⟨fl2, hrun, hfl2⟩ := runPass_expected stepErr a off _ τ _ _
            (buildRead_expected stepErr a false l off e
              (s.visit a off ((visited r (start - l.size)).1.map (· + l.size)) s.flags))
          rw [St.visit_visit, St.visit_flags] at *
          simp only [Bool.not_eq_true] at ht
          simp only [hg, ht, Bool.not_true, Bool.not_false, Bool.and_true, Bool.false_eq_true, if_false, hrun,
            Option.map_some]
          refine ⟨_, rfl, fl2, ?_, ?_, ?_⟩
          · by_cases hb : (buildVisit false l e).2 = .ok <;> simp [hb]
          · simp only [decide_eq_false_iff_not]
            exact hfl2.1
          · simp only [decide_eq_true_eq]
            exact hfl2.2
      · simp only [Bool.not_eq_true] at hg
        simp only [hg, Bool.false_and, Bool.not_false, if_true]
        exact ⟨_, rfl, fl, by simp, hf0, hf1⟩

/-- The statistics `sample` reports, for bodies with the expected plans: the leaves counted are
`(visited t start).1` in order, `n_step` their number, `tree_depth` the index of the last pass started,
`av_metrop_accept_prob` the mean of `a` over them (0 when there is none), the flags are untouched unless the
last `_build_tree` call ended `.err` — then the flag of the class of that error is set — and `accept_stat` is
0 when a flag is set, else the mean. -/
theorem samplePass_expected (body buildBody : List S) (procBody : S)
    (hs : samplePlan body = some expectedSamplePlan) (hb : BSem.buildPlan buildBody = some BSem.expectedPlan)
    (hp : procChain procBody = some expectedChain) (stepErr : ErrKind) (a : Nat → K) (l r : TTree K) (e τ : Bool)
    (start : Nat) :
    ∃ out, samplePass body buildBody procBody stepErr a (.node l r e τ) start = some out ∧
      out.counted = (visited (.node l r e τ) start).1 ∧
      out.nStep = (visited (.node l r e τ) start).1.length ∧
      out.treeDepth + 1 = (visited (.node l r e τ) start).2.2.1 ∧
      ((visited (.node l r e τ) start).2.2.2 = false → out.flags = {}) ∧
      ((visited (.node l r e τ) start).2.2.2 = true →
        ∃ k, (k = stepErr ∨ k = .divergence) ∧ out.flags = procFlags k {}) ∧
      out.avAccept = (if (visited (.node l r e τ) start).1.length = 0 then 0 else
        ((visited (.node l r e τ) start).1.map a).sum / ((visited (.node l r e τ) start).1.length : K)) ∧
      out.acceptStat = if out.flags.any then 0 else out.avAccept := by
  obtain ⟨p, hrun, fl, rfl, hf0, hf1⟩ :=
    runLoop_expected stepErr a (.node l r e τ) start 0 (⟨0, 0, {}, []⟩ : St K)
  have hpos := visited_iters_pos l r e τ start
  have hne : (visited (.node l r e τ) start).2.2.1 ≠ 0 := by omega
  unfold samplePass
  simp only [hs, hb, hp, Option.bind_some, expectedSamplePlan, runInit, hrun, runFin, hne, if_false]
  refine ⟨_, rfl, ?_, ?_, ?_, hf0, hf1, ?_, rfl⟩
  · simp [St.visit]
  · simp [St.visit]
  · simp only; omega
  · by_cases hz : (visited (.node l r e τ) start).1.length = 0
    · simp [St.visit, hz]
    · have : (visited (.node l r e τ) start).1.length > 0 := by omega
      simp [St.visit, hz, this]

end MiciVerif.Skel.SSem
