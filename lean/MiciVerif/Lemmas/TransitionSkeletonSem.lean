/-
Generic part of the semantic tie of `_sample_n_step` (builder B8): for ANY statement list whose plan
(`Skel.TSem.metroPlan`) is the expected list of actions, the reading `Skel.TSem.metroPass` is
`Transitions.metropolis` paired with `Transitions.metropolisStats`.  Independent of the generated tables
(it never breaks when the source changes); `Props/C01S.lean` and `Props/C12K.lean` instantiate it with
the body generated from the current source, after deciding that its plan is the expected one.
-/
import MiciVerif.Model.TransitionSkeleton
import MiciVerif.Props.C01Stats

namespace MiciVerif.Skel.TSem
open MiciVerif.Transitions

/-- the actions of `_sample_n_step` the model was written against -/
def expectedPlan : List MetroAct :=
  [.energyInit, .aliasProposal, .clearError, .initStats,
   .integrate [.setError, .recordLoopIndex, .processError] [.recordNStep, .flipProposal],
   .acceptProb, .recordMetropAcceptProb, .recordAcceptStat true, .acceptTest true,
   .flipDirection, .returnStateStats]

variable {K : Type} [Field K] [LinearOrder K]

omit [Field K] [LinearOrder K] in
theorem stepLoop_spec (o : MOrbitS K) (fwd : Bool) (r t : Nat) (p : Int) :
    stepLoop o fwd r t p =
      ((if fwd then p + (stepsTaken o fwd r p : Int) else p - (stepsTaken o fwd r p : Int)),
       t + stepsTaken o fwd r p, decide (stepsTaken o fwd r p = r)) := by
  induction r generalizing t p with
  | zero => simp [stepLoop, stepsTaken]
  | succ r ih =>
    simp only [stepLoop, stepsTaken]
    by_cases h : o.stepOk (if fwd then p else p - 1) = true
    · simp only [h, if_true, ih]
      cases fwd <;> simp <;> refine ⟨by ring, by omega, by omega⟩
    · simp only [h, Bool.false_eq_true, if_false]
      cases fwd <;> simp

/-- A body with the expected plan reads as `metropolis` with `metropolisStats`. -/
theorem metroPass_of_plan (body : List S) (hplan : metroPlan body = some expectedPlan)
    (o : MOrbitS K) (n : Nat) (hn : 1 ≤ n) (i : Int) (fwd : Bool) :
    metroPass body o n (i, fwd) =
      some (Dist.map (fun s => (s, metropolisStats o n (i, fwd))) (metropolis o.toOrbit n (i, fwd))) := by
  unfold metroPass
  rw [hplan]
  have hle := C01Stats.stepsTaken_le o fwd n i
  have hiff := C01Stats.stepsTaken_eq_iff o fwd n i
  simp only [expectedPlan, Option.bind_some, runMetro, stepLoop_spec]
  by_cases h : stepsTaken o fwd n i < n
  · have hne : ¬ stepsTaken o fwd n i = n := by omega
    have hp : o.pathOk (if fwd then i else i - n) n = false := by
      cases hp : o.pathOk (if fwd then i else i - n) n
      · rfl
      · exact absurd (hiff.2 hp) hne
    unfold metropolis metropolisStats
    cases fwd <;>
      simp_all [runErr, MOrbitS.toOrbit, Dist.map, Dist.pure]
  · have heq : stepsTaken o fwd n i = n := by omega
    have hp := hiff.1 heq
    have hsame : ∀ j : Int, (j + (n : Int) == j) = false ∧ (j - (n : Int) == j) = false := by
      intro j; constructor <;> simp <;> omega
    have hlt : ¬ n < n := by omega
    unfold metropolis metropolisStats
    simp only [heq, decide_true, if_true, runOk, Option.bind_some, Bool.true_and, hlt, if_false,
      MOrbitS.toOrbit, hp]
    cases fwd
    · simp only [Bool.false_eq_true, if_false, (hsame i).2, Bool.not_false, Bool.not_true]
      simp [Dist.bind, Dist.bernoulli, Dist.map, Dist.pure]
    · simp only [if_true, (hsame i).1, Bool.not_false, Bool.not_true]
      simp [Dist.bind, Dist.bernoulli, Dist.map, Dist.pure]

end MiciVerif.Skel.TSem
