/-
Evaluation of the primitives of `roundedPrims R` (Model/LogRepRounded.lean) on finite arguments.
-/
import MiciVerif.Model.LogRepRounded

namespace MiciVerif.LogRep
variable {u : ℝ} (R : Rounding u)

theorem rexp_fin (r : ℝ) :
    (roundedPrims R).exp (.fin r) = .fin (Real.exp r * (1 + R.dExp r)) := by
  simp [roundedPrims, XReal.rnd1, XReal.exp, XReal.scale]

theorem rlog1p_fin {r : ℝ} (h : -1 < r) :
    (roundedPrims R).log1p (.fin r) = .fin (Real.log (1 + r) * (1 + R.dLog1p r)) := by
  simp [roundedPrims, XReal.rnd1, XReal.log1p, XReal.scale, h]

theorem rlog1p_err {r : ℝ} (h : r ≤ -1) : (roundedPrims R).log1p (.fin r) = .err := by
  have : ¬ (-1 < r) := not_lt.mpr h
  simp [roundedPrims, XReal.rnd1, XReal.log1p, XReal.scale, this]

theorem rlog_fin {r : ℝ} (h : 0 < r) :
    (roundedPrims R).log (.fin r) = .fin (Real.log r * (1 + R.dLog r)) := by
  simp [roundedPrims, XReal.rnd1, XReal.log, XReal.scale, h]

theorem rexpm1_fin (r : ℝ) :
    (roundedPrims R).expm1 (.fin r) = .fin ((Real.exp r - 1) * (1 + R.dExpm1 r)) := by
  simp [roundedPrims, XReal.rnd1, XReal.expm1, XReal.scale]

theorem radd_fin (a b : ℝ) :
    (roundedPrims R).add (.fin a) (.fin b) = .fin ((a + b) * (1 + R.dAdd a b)) := by
  simp [roundedPrims, XReal.rnd2, XReal.add, XReal.scale]

theorem rsub_fin (a b : ℝ) :
    (roundedPrims R).sub (.fin a) (.fin b) = .fin ((a - b) * (1 + R.dSub a b)) := by
  simp [roundedPrims, XReal.rnd2, XReal.sub, XReal.neg, XReal.add, XReal.scale, sub_eq_add_neg]

theorem rneg_fin (a : ℝ) : (roundedPrims R).neg (.fin a) = .fin (-a) := rfl

theorem rlt_fin (a b : ℝ) : (roundedPrims R).lt (.fin a) (.fin b) = decide (a < b) := rfl

theorem rle_fin (a b : ℝ) : (roundedPrims R).le (.fin a) (.fin b) = decide (a ≤ b) := rfl

theorem req_fin (a b : ℝ) : (roundedPrims R).eq (.fin a) (.fin b) = decide (a = b) := rfl

theorem req_negInf (a : ℝ) : (roundedPrims R).eq (.fin a) (roundedPrims R).negInf = false := rfl

theorem rzero : (roundedPrims R).zero = .fin 0 := rfl

theorem rlog2 : (roundedPrims R).log2 = .fin (Real.log 2 * (1 + R.dLog 2)) := rfl

theorem rnan : (roundedPrims R).nan = .nan := rfl

end MiciVerif.LogRep
