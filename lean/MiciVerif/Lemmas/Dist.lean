/- Helper lemmas about the finite-distribution monad of `Model/Transitions.lean`. -/
import MiciVerif.Model.Transitions
import Mathlib.Tactic.Ring
import Mathlib.Tactic.Linarith
import Mathlib.Tactic.FieldSimp
import Mathlib.Algebra.BigOperators.Group.List.Basic
import Mathlib.Algebra.BigOperators.Ring.List

namespace MiciVerif.Transitions.Dist
variable {K α β : Type} [Field K]

@[simp] theorem expect_nil (g : α → K) : expect ([] : Dist K α) g = 0 := rfl

@[simp] theorem expect_cons (a : α) (p : K) (d : Dist K α) (g : α → K) :
    expect ((a, p) :: d) g = p * g a + expect d g := by
  simp [expect]

@[simp] theorem expect_pure (a : α) (g : α → K) : expect (Dist.pure a : Dist K α) g = g a := by
  simp [Dist.pure]

theorem expect_append (d e : Dist K α) (g : α → K) :
    expect (d ++ e) g = expect d g + expect e g := by
  simp [expect, List.map_append, List.sum_append]

theorem expect_map (f : α → β) (d : Dist K α) (g : β → K) :
    expect (Dist.map f d) g = expect d (fun a => g (f a)) := by
  induction d with
  | nil => rfl
  | cons x d ih =>
    obtain ⟨a, p⟩ := x
    simp only [Dist.map, List.map_cons, expect_cons] at *
    rw [ih]

theorem expect_scale (c : K) (d : Dist K β) (g : β → K) :
    expect (List.map (fun (x : β × K) => (x.1, c * x.2)) d : Dist K β) g = c * expect d g := by
  induction d with
  | nil => simp [expect]
  | cons x d ih =>
    obtain ⟨b, q⟩ := x
    simp only [List.map_cons, expect_cons]
    rw [ih]; ring

theorem expect_bind (d : Dist K α) (f : α → Dist K β) (g : β → K) :
    expect (d.bind f) g = expect d (fun a => expect (f a) g) := by
  induction d with
  | nil => rfl
  | cons x d ih =>
    obtain ⟨a, p⟩ := x
    simp only [Dist.bind, List.flatMap_cons, expect_append, expect_cons] at *
    rw [ih]
    congr 1
    exact expect_scale p (f a) g

@[simp] theorem expect_bernoulli (p : K) (g : Bool → K) :
    expect (bernoulli p) g = p * g true + (1 - p) * g false := by
  simp [bernoulli]

theorem expect_add (d : Dist K α) (g h : α → K) :
    expect d (fun a => g a + h a) = expect d g + expect d h := by
  induction d with
  | nil => simp
  | cons x d ih => obtain ⟨a, p⟩ := x; simp only [expect_cons, ih]; ring

theorem expect_smul (d : Dist K α) (c : K) (g : α → K) :
    expect d (fun a => c * g a) = c * expect d g := by
  induction d with
  | nil => simp
  | cons x d ih => obtain ⟨a, p⟩ := x; simp only [expect_cons, ih]; ring

theorem expect_zero (d : Dist K α) : expect d (fun _ => (0 : K)) = 0 := by
  induction d with
  | nil => simp
  | cons x d ih => obtain ⟨a, p⟩ := x; simp [ih]

theorem expect_congr (d : Dist K α) (g h : α → K) (hgh : ∀ a, g a = h a) :
    expect d g = expect d h := by
  have : g = h := funext hgh
  rw [this]

end MiciVerif.Transitions.Dist
