/-
Generic part of the semantic tie of the momentum transitions (builder B10): for ANY statement tree whose
translation (`Skel.MSem.act?` / `initPlan`) is the expected typed program, the reading
`Skel.MSem.samplePass` is `Momentum.independentSample` / `Momentum.correlatedSample` with
`a = sqrt (1 - c*c)`, and `initPass` accepts exactly `0 ≤ c ≤ 1` (as decided by the supplied `le`).
Independent of the generated tables (never breaks when the source changes); `Props/C08K.lean` instantiates
it with the bodies generated from the current source, after deciding that their translations are the
expected ones.
-/
import MiciVerif.Model.MomentumSem

namespace MiciVerif.Skel.MSem
open MiciVerif.Momentum

variable {K : Type*} [CommRing K] [DecidableEq K] {n : Type*}

/-- a body translating to `expectedIndependent` reads as `independentSample` -/
theorem samplePass_of_independent (body : S)
    (hplan : act? "self.mom_resample_coeff" body = some expectedIndependent)
    (Sm : (n → K) → (n → K)) (sqrt : K → K) (le lt : K → K → Bool) (c : K)
    (mom : Option (n → K)) (rng : Nat → n → K) (k : Nat) :
    samplePass body Sm sqrt le lt c mom rng k = some (independentSample Sm rng k) := by
  unfold samplePass
  rw [hplan]
  simp [expectedIndependent, exec, VExp.eval, independentSample]

/-- a body translating to `expectedCorrelated` reads as `correlatedSample` with `a = sqrt (1 - c*c)` -/
theorem samplePass_of_correlated (body : S)
    (hplan : act? "self.mom_resample_coeff" body = some expectedCorrelated)
    (Sm : (n → K) → (n → K)) (sqrt : K → K) (le lt : K → K → Bool) (c : K)
    (mom : Option (n → K)) (rng : Nat → n → K) (k : Nat) :
    samplePass body Sm sqrt le lt c mom rng k =
      some (correlatedSample Sm c (sqrt (1 - c * c)) mom rng k) := by
  unfold samplePass
  rw [hplan]
  cases mom with
  | none => simp [expectedCorrelated, exec, VExp.eval, CExp.eval, correlatedSample]
  | some p =>
    by_cases h1 : c = 1
    · simp [expectedCorrelated, exec, VExp.eval, CExp.eval, SExp.eval, correlatedSample, h1]
    · by_cases h0 : c = 0
      · subst h0
        simp [expectedCorrelated, exec, CExp.eval, SExp.eval, correlatedSample, h1]
      · simp [expectedCorrelated, exec, VExp.eval, CExp.eval, SExp.eval, correlatedSample, h1, h0, cnCoeff]

/-- a constructor body with the expected plan raises iff `not (0 <= c and c <= 1)` and otherwise stores `c` -/
theorem initPass_of_expected (body : List S) (hplan : initPlan body = some expectedInit)
    (sqrt : K → K) (le lt : K → K → Bool) (c : K) :
    initPass body sqrt le lt c = some (if le 0 c && le c 1 then some c else Option.none) := by
  unfold initPass
  rw [hplan]
  cases h0 : le 0 c <;> cases h1 : le c 1 <;>
    simp [expectedInit, runInit, CExp.eval, SExp.eval, h0, h1]

end MiciVerif.Skel.MSem
