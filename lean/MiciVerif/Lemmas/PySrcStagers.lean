/-
Helper lemmas for `Props/C16S.lean`: the translator renders `int(0.15 * n)` as
`((3 / 20 : Rat) * (n : Rat)).floor.toNat` (the decimal literal as the rational it denotes,
`int` as floor); these lemmas identify it with the `Nat` division used by the hand model.
-/
import MiciVerif.Model.Stagers
import Mathlib.Tactic.Ring
import Mathlib.Tactic.NormNum
import Mathlib.Data.Rat.Floor

namespace MiciVerif.PySrcStagers
open MiciVerif.Stagers

theorem floor_mul_nat (a b n : Nat) :
    (((a : Rat) / (b : Rat)) * (n : Rat)).floor.toNat = a * n / b := by
  have h : ((a : Rat) / (b : Rat)) * (n : Rat) = (((a * n : Nat) : ℤ) : ℚ) / ((b : ℕ) : ℚ) := by
    push_cast; ring
  have h2 : (((a : Rat) / (b : Rat)) * (n : Rat)).floor = ⌊((a : Rat) / (b : Rat)) * (n : Rat)⌋ :=
    rfl
  rw [h2, h, Rat.floor_intCast_div_natCast, ← Int.natCast_div, Int.toNat_natCast]

/-- `int(0.15 * n)` with `0.15` read as `3/20`. -/
theorem floor_frac15 (n : Nat) : ((3 / 20 : Rat) * (n : Rat)).floor.toNat = frac15 n := by
  have := floor_mul_nat 15 100 n
  unfold frac15
  rw [← this]; congr 2; norm_num

/-- `int(0.1 * n)` with `0.1` read as `1/10`. -/
theorem floor_frac10 (n : Nat) : ((1 / 10 : Rat) * (n : Rat)).floor.toNat = frac10 n := by
  have := floor_mul_nat 1 10 n
  unfold frac10
  rw [show n / 10 = 1 * n / 10 by simp, ← this]; congr 2

end MiciVerif.PySrcStagers
