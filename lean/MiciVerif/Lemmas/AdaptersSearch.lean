import MiciVerif.Model.Adapters
import Mathlib.Order.Basic
