/-
Helper lemmas for C17: the two phases of the initial step-size search
(`searchLoop`, model of `_find_and_set_init_step_size`) over any linearly ordered `K`.
-/
import MiciVerif.Model.Adapters
import Mathlib.Order.Basic
import Mathlib.Order.Defs.LinearOrder
import Mathlib.Tactic.Push

namespace MiciVerif.Adapters
variable {K : Type} [LinearOrder K]

/-- "step size `2^e` is too big" for the oracle `dH` and threshold `thr`. -/
def tb (dH : Int → Outcome K) (thr : K) (e : Int) : Bool := (dH e).tooBig thr

/-- Halving phase (`step_size_too_big = True`, not the first iteration): the loop returns
the first exponent at or below `e` that is not too big, and fails only if the `fuel`
exponents `e, e-1, …` are all too big. -/
theorem search_down (dH : Int → Outcome K) (thr : K) : ∀ (fuel : Nat) (e : Int),
    (∀ r, searchLoop dH thr fuel false e true = .ok r →
      r ≤ e ∧ tb dH thr r = false ∧ ∀ j, r < j → j ≤ e → tb dH thr j = true) ∧
    (∀ er, searchLoop dH thr fuel false e true = .error er →
      er = .noInitStepSize ∧ ∀ j, e - (fuel : Int) < j → j ≤ e → tb dH thr j = true) := by
  intro fuel
  induction fuel with
  | zero =>
    intro e
    refine ⟨fun r h => by simp [searchLoop] at h, fun er h => ?_⟩
    simp only [searchLoop, Except.error.injEq] at h
    exact ⟨h.symm, fun j h1 h2 => by omega⟩
  | succ fuel ih =>
    intro e
    have step : ∀ (_ : tb dH thr e = true),
        (∀ r, searchLoop dH thr fuel false (e - 1) true = .ok r →
          r ≤ e ∧ tb dH thr r = false ∧ ∀ j, r < j → j ≤ e → tb dH thr j = true) ∧
        (∀ er, searchLoop dH thr fuel false (e - 1) true = .error er →
          er = .noInitStepSize ∧
            ∀ j, e - ((fuel + 1 : Nat) : Int) < j → j ≤ e → tb dH thr j = true) := by
      intro hte
      obtain ⟨i1, i2⟩ := ih (e - 1)
      refine ⟨fun r h => ?_, fun er h => ?_⟩
      · obtain ⟨a, b, c⟩ := i1 r h
        refine ⟨by omega, b, fun j h1 h2 => ?_⟩
        by_cases hj : j = e
        · rw [hj]; exact hte
        · exact c j h1 (by omega)
      · obtain ⟨a, c⟩ := i2 er h
        refine ⟨a, fun j h1 h2 => ?_⟩
        by_cases hj : j = e
        · rw [hj]; exact hte
        · exact c j (by push_cast at h1; omega) (by omega)
    cases hd : dH e with
    | err => simpa [searchLoop, hd] using step (by simp [tb, hd, Outcome.tooBig])
    | nan => simpa [searchLoop, hd] using step (by simp [tb, hd, Outcome.tooBig])
    | inf => simpa [searchLoop, hd] using step (by simp [tb, hd, Outcome.tooBig])
    | val q =>
      by_cases hq : q ≤ thr
      · have hnt : tb dH thr e = false := by simp [tb, hd, Outcome.tooBig, hq]
        refine ⟨fun r h => ?_, fun er h => ?_⟩
        · simp only [searchLoop, hd, hq] at h
          simp at h
          subst h
          exact ⟨Int.le_refl _, hnt, fun j h1 h2 => by omega⟩
        · simp only [searchLoop, hd, hq] at h
          simp at h
      · have hlt : thr < q := lt_of_not_ge hq
        have hs := step (by simp [tb, hd, Outcome.tooBig, hlt])
        simpa [searchLoop, hd, hq] using hs

/-- Doubling phase (`step_size_too_big = False`, reached from `e - 1` which was not too big):
the loop returns either the first too-big exponent `r ≥ e` when the step there succeeds with a
finite or infinite `delta_h > thr` (A), or `r = f - 1` where `f ≥ e` is the first too-big
exponent and the step at `f` failed or gave NaN (B). -/
theorem search_up (dH : Int → Outcome K) (thr : K) : ∀ (fuel : Nat) (e : Int),
    tb dH thr (e - 1) = false →
    (∀ r, searchLoop dH thr fuel false e false = .ok r →
      (e ≤ r ∧ (dH r = .inf ∨ ∃ q, dH r = .val q ∧ thr < q) ∧
        ∀ j, e - 1 ≤ j → j < r → tb dH thr j = false) ∨
      (e - 1 ≤ r ∧ tb dH thr (r + 1) = true ∧ ∀ j, e - 1 ≤ j → j ≤ r → tb dH thr j = false)) ∧
    (∀ er, searchLoop dH thr fuel false e false = .error er →
      er = .noInitStepSize ∧
        ∀ j, e - 1 ≤ j → j < e + (fuel : Int) - 1 → tb dH thr j = false) := by
  intro fuel
  induction fuel with
  | zero =>
    intro e he
    refine ⟨fun r h => by simp [searchLoop] at h, fun er h => ?_⟩
    simp only [searchLoop, Except.error.injEq] at h
    exact ⟨h.symm, fun j h1 h2 => by omega⟩
  | succ fuel ih =>
    intro e he
    -- a failed / NaN step at `e`: back to `e - 1`, which is returned at once
    have fail : ∀ (_ : tb dH thr e = true),
        (∀ r, searchLoop dH thr fuel false (e - 1) true = .ok r →
          (e ≤ r ∧ (dH r = .inf ∨ ∃ q, dH r = .val q ∧ thr < q) ∧
            ∀ j, e - 1 ≤ j → j < r → tb dH thr j = false) ∨
          (e - 1 ≤ r ∧ tb dH thr (r + 1) = true ∧
            ∀ j, e - 1 ≤ j → j ≤ r → tb dH thr j = false)) ∧
        (∀ er, searchLoop dH thr fuel false (e - 1) true = .error er →
          er = .noInitStepSize ∧
            ∀ j, e - 1 ≤ j → j < e + ((fuel + 1 : Nat) : Int) - 1 → tb dH thr j = false) := by
      intro hte
      obtain ⟨d1, d2⟩ := search_down dH thr fuel (e - 1)
      refine ⟨fun r h => ?_, fun er h => ?_⟩
      · obtain ⟨a, b, c⟩ := d1 r h
        have hr : r = e - 1 := by
          by_contra hne
          have := c (e - 1) (by omega) (Int.le_refl _)
          rw [he] at this; exact Bool.false_ne_true this
        right
        subst hr
        refine ⟨Int.le_refl _, by simpa using hte, fun j h1 h2 => ?_⟩
        have : j = e - 1 := by omega
        rw [this]; exact he
      · obtain ⟨a, c⟩ := d2 er h
        refine ⟨a, fun j h1 h2 => ?_⟩
        by_cases hf : fuel = 0
        · subst hf
          have : j = e - 1 := by push_cast at h2; omega
          rw [this]; exact he
        · have := c (e - 1) (by omega) (Int.le_refl _)
          rw [he] at this; exact absurd this Bool.false_ne_true
    cases hd : dH e with
    | err => simpa [searchLoop, hd] using fail (by simp [tb, hd, Outcome.tooBig])
    | nan => simpa [searchLoop, hd] using fail (by simp [tb, hd, Outcome.tooBig])
    | inf =>
      refine ⟨fun r h => ?_, fun er h => ?_⟩
      · simp [searchLoop, hd] at h
        subst h
        left
        refine ⟨Int.le_refl _, Or.inl hd, fun j h1 h2 => ?_⟩
        have : j = e - 1 := by omega
        rw [this]; exact he
      · simp [searchLoop, hd] at h
    | val q =>
      by_cases hq : thr < q
      · refine ⟨fun r h => ?_, fun er h => ?_⟩
        · simp [searchLoop, hd, hq] at h
          subst h
          left
          refine ⟨Int.le_refl _, Or.inr ⟨q, hd, hq⟩, fun j h1 h2 => ?_⟩
          have : j = e - 1 := by omega
          rw [this]; exact he
        · simp [searchLoop, hd, hq] at h
      · have hte : tb dH thr e = false := by simp [tb, hd, Outcome.tooBig, hq]
        obtain ⟨u1, u2⟩ := ih (e + 1) (by simpa using hte)
        refine ⟨fun r h => ?_, fun er h => ?_⟩
        · simp only [searchLoop, hd, hq] at h
          simp at h
          rcases u1 r h with ⟨a, b, c⟩ | ⟨a, b, c⟩
          · left
            refine ⟨by omega, b, fun j h1 h2 => ?_⟩
            by_cases hj : j = e - 1
            · rw [hj]; exact he
            · exact c j (by omega) h2
          · right
            refine ⟨by omega, b, fun j h1 h2 => ?_⟩
            by_cases hj : j = e - 1
            · rw [hj]; exact he
            · exact c j (by omega) h2
        · simp only [searchLoop, hd, hq] at h
          simp at h
          obtain ⟨a, c⟩ := u2 er h
          refine ⟨a, fun j h1 h2 => ?_⟩
          by_cases hj : j = e - 1
          · rw [hj]; exact he
          · exact c j (by omega) (by push_cast at h2; omega)

/-- The first iteration (`s == 0`) never returns: it only fixes the direction. -/
theorem search_first (dH : Int → Outcome K) (thr : K) (fuel : Nat) :
    searchLoop dH thr (fuel + 1) true 0 false =
      if tb dH thr 0 then searchLoop dH thr fuel false (-1) true
      else searchLoop dH thr fuel false 1 false := by
  cases hd : dH 0 with
  | err => simp [searchLoop, hd, tb, Outcome.tooBig]
  | nan => simp [searchLoop, hd, tb, Outcome.tooBig]
  | inf => simp [searchLoop, hd, tb, Outcome.tooBig]
  | val q =>
    by_cases hq : thr < q
    · have : ¬ q ≤ thr := not_le.mpr hq
      simp [searchLoop, hd, tb, Outcome.tooBig, hq, this]
    · simp [searchLoop, hd, tb, Outcome.tooBig, hq]

end MiciVerif.Adapters
