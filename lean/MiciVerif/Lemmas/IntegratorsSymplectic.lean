/-
Helper definitions and lemmas for `Props/C03.lean` (symplecticity of the integrator steps).

* `Elementary M`      — `M` is the Jacobian of one of the three explicit component flows, built from
                        symmetric data (symmetric Hessian / symmetric inverse metric / orthogonal
                        eigenvectors with `c² + s² = 1`).
* `ElemLift FT f`     — `FT` is the tangent lift (`kickT`/`driftT`/`harmonicT`) of the base flow `f`
                        with symmetric data.
* `LinLift FT f`      — the same for LINEAR systems (affine gradient), no symmetry required; used to
                        show that the lifted matrix is the exact derivative of the step.
* `SympLift FT f`     — `FT` acts as `(x, D) ↦ (f t x, M * D)` with `M` symplectic (`M` may depend on
                        `t` and `x` but not on `D`).
* `IsTan C N T`       — the columns of `T` are tangent vectors of the cotangent bundle of the affine
                        manifold `{C q = d}`: `C δq = 0` and `C N δp = 0`.
* `PresympOn C N M`   — `M` maps tangent vectors to tangent vectors and preserves the canonical
                        two-form on them (`(M T)ᵀ J (M T) = Tᵀ J T`); closed under products.
* unfolding lemmas for `symComp`, `flowsList`, `steps`, `pack`/`unpack`.
-/
import MiciVerif.Model.IntegratorsTangent
import Mathlib.LinearAlgebra.SymplecticGroup
import Mathlib.Data.Matrix.ColumnRowPartitioned

namespace MiciVerif.Integrators

open Matrix

variable {K : Type*} [Field K] {n : Nat}

/-! ### `jMat`, `pack`, `unpack` -/

theorem jMat_eq : jMat n K = J (Fin n) K := rfl

omit [Field K] in
theorem pack_unpack (v : Fin n ⊕ Fin n → K) : pack (unpack v) = v := by
  funext i; rcases i with i | i <;> rfl

omit [Field K] in
theorem unpack_pack (x : Phase n K) : unpack (pack x) = x := rfl

theorem pack_add (x y : Phase n K) : pack (x + y) = pack x + pack y := by
  funext i; rcases i with i | i <;> rfl

theorem unpack_add (v w : Fin n ⊕ Fin n → K) : unpack (v + w) = unpack v + unpack w := rfl

theorem unpack_mulVec (A B C D : Mat n K) (δ : Phase n K) :
    unpack ((fromBlocks A B C D).mulVec (pack δ))
      = (A.mulVec δ.1 + B.mulVec δ.2, C.mulVec δ.1 + D.mulVec δ.2) := by
  rw [pack, fromBlocks_mulVec]
  rfl

/-! ### Conjugated diagonal matrices `Q diag(d) Qᵀ` -/

theorem conj_transpose (Q : Mat n K) (d : Fin n → K) :
    (Q * diagonal d * Qᵀ)ᵀ = Q * diagonal d * Qᵀ := by
  simp [transpose_mul, diagonal_transpose, Matrix.mul_assoc]

theorem conj_mul (Q : Mat n K) (hQ : Qᵀ * Q = 1) (d e : Fin n → K) :
    (Q * diagonal d * Qᵀ) * (Q * diagonal e * Qᵀ) = Q * diagonal (d * e) * Qᵀ := by
  have : Q * diagonal d * Qᵀ * (Q * diagonal e * Qᵀ)
      = Q * diagonal d * (Qᵀ * Q) * diagonal e * Qᵀ := by
    simp only [Matrix.mul_assoc]
  rw [this, hQ, Matrix.mul_one, Matrix.mul_assoc Q, diagonal_mul_diagonal]
  rfl

theorem conj_mulVec (Q : Mat n K) (d v : Fin n → K) :
    (Q * diagonal d * Qᵀ).mulVec v = Q.mulVec (d * Qᵀ.mulVec v) := by
  rw [← mulVec_mulVec, ← mulVec_mulVec]
  congr 1
  funext i
  simp [mulVec_diagonal]

/-! ### The predicates -/

/-- Jacobians of the explicit component flows, built from symmetric data. -/
inductive Elementary : Mat2 n K → Prop
  | kick (t : K) (H : Mat n K) (hH : Hᵀ = H) : Elementary (kickJac t H)
  | drift (t : K) (N : Mat n K) (hN : Nᵀ = N) : Elementary (driftJac t N)
  | harmonic (Q : Mat n K) (ω : Fin n → K) (T : Trig n K) (hQ : Qᵀ * Q = 1)
      (hT : ∀ i, T.c i ^ 2 + T.s i ^ 2 = 1) (hω : ∀ i, ω i ≠ 0) :
      Elementary (harmonicJac Q ω T)

/-- `FT` is the tangent lift of the base flow `f`, with symmetric Hessian field / symmetric inverse
metric / orthogonal eigenvectors and genuine (cos, sin) pairs. -/
inductive ElemLift :
    (K → TState n K → TState n K) → (K → Phase n K → Phase n K) → Prop
  | kick (g : (Fin n → K) → (Fin n → K)) (H : (Fin n → K) → Mat n K) (hH : ∀ q, (H q)ᵀ = H q) :
      ElemLift (kickT g H) (kick g)
  | drift (N : Mat n K) (hN : Nᵀ = N) : ElemLift (driftT N) (drift N.mulVec)
  | harmonic (Q : Mat n K) (ω : Fin n → K) (trig : K → Trig n K) (hQ : Qᵀ * Q = 1)
      (hT : ∀ t i, (trig t).c i ^ 2 + (trig t).s i ^ 2 = 1) (hω : ∀ i, ω i ≠ 0) :
      ElemLift (harmonicT Q ω trig) (harmonic Q ω trig)

/-- Tangent lifts of the component flows of a LINEAR system (`g q = A q + b`); no symmetry. -/
inductive LinLift :
    (K → TState n K → TState n K) → (K → Phase n K → Phase n K) → Prop
  | kick (A : Mat n K) (b : Fin n → K) :
      LinLift (kickT (fun q => A.mulVec q + b) (fun _ => A)) (kick (fun q => A.mulVec q + b))
  | drift (N : Mat n K) : LinLift (driftT N) (drift N.mulVec)
  | harmonic (Q : Mat n K) (ω : Fin n → K) (trig : K → Trig n K) :
      LinLift (harmonicT Q ω trig) (harmonic Q ω trig)

/-- `FT` is a lift of `f` whose matrix part is left multiplication by a symplectic matrix. -/
def SympLift (FT : K → TState n K → TState n K) (f : K → Phase n K → Phase n K) : Prop :=
  ∀ t x, ∃ M ∈ symplecticGroup (Fin n) K, ∀ D, FT t (x, D) = (f t x, M * D)

/-! ### Unfolding `symComp`, `flowsList`, `steps` -/

section Generic
variable {X Y : Type*}

omit [Field K] in
theorem symComp_nil_left [Mul K] (flows : List (K → X → X)) (t : K) (x : X) :
    symComp [] flows t x = x := by
  simp [symComp]

omit [Field K] in
theorem symComp_nil_right [Mul K] (coeffs : List K) (t : K) (x : X) :
    symComp coeffs ([] : List (K → X → X)) t x = x := by
  simp [symComp]

omit [Field K] in
theorem symComp_cons [Mul K] (c : K) (cs : List K) (f : K → X → X) (fs : List (K → X → X))
    (t : K) (x : X) :
    symComp (c :: cs) (f :: fs) t x = symComp cs fs t (f (c * t) x) := by
  simp [symComp]

theorem forall₂_flowsList {F G : Type*} (R : F → G → Prop) {a b : F} {a' b' : G}
    (ha : R a a') (hb : R b b') (k : Nat) :
    List.Forall₂ R (flowsList a b k) (flowsList a' b' k) := by
  unfold flowsList
  refine List.rel_append ?_ (List.Forall₂.cons ha List.Forall₂.nil)
  induction k with
  | zero => simpa using List.Forall₂.cons ha (List.Forall₂.cons hb List.Forall₂.nil)
  | succ k ih =>
    rw [List.replicate_succ, List.flatten_cons, List.replicate_succ (n := k + 1),
      List.flatten_cons]
    exact List.Forall₂.cons ha (List.Forall₂.cons hb ih)

end Generic

/-- `steps` of a symplectic lift: the base point follows the base `steps`, the direction flag is
unchanged and the matrix is multiplied on the left by a symplectic matrix. -/
theorem steps_sympLift {FT : K → TState n K → TState n K} {f : K → Phase n K → Phase n K}
    (h : SympLift FT f) (ε : K) (m : Nat) (x : Phase n K) (dir : K) :
    ∃ M ∈ symplecticGroup (Fin n) K, ∀ D,
      steps FT ε m ⟨(x, D), dir⟩ = ⟨((steps f ε m ⟨x, dir⟩).x, M * D), dir⟩ := by
  induction m with
  | zero => exact ⟨1, Submonoid.one_mem _, fun D => by simp [steps]⟩
  | succ m ih =>
    obtain ⟨M, hM, hMD⟩ := ih
    have hdir : (steps f ε m ⟨x, dir⟩).dir = dir := by
      clear hMD
      induction m with
      | zero => rfl
      | succ m ihm => simp only [steps, Function.iterate_succ_apply'] at ihm ⊢; exact ihm
    obtain ⟨M', hM', hMD'⟩ := h (dir * ε) (steps f ε m ⟨x, dir⟩).x
    refine ⟨M' * M, Submonoid.mul_mem _ hM' hM, fun D => ?_⟩
    have e1 : steps FT ε (m + 1) ⟨(x, D), dir⟩ = step FT ε (steps FT ε m ⟨(x, D), dir⟩) := by
      simp only [steps, Function.iterate_succ_apply']
    have e2 : steps f ε (m + 1) ⟨x, dir⟩ = step f ε (steps f ε m ⟨x, dir⟩) := by
      simp only [steps, Function.iterate_succ_apply']
    rw [e1, e2, hMD D]
    simp only [step, hMD', hdir, Matrix.mul_assoc]

/-! ### Restricted (pre)symplecticity on the tangent bundle of a linear constraint manifold -/

/-- The columns of `T` (rows indexed by `(δq, δp)`) are tangent to
`{(q, p) : C q = d, C N p = 0}`. -/
def IsTan {m k : Nat} (C : Matrix (Fin m) (Fin n) K) (N : Mat n K)
    (T : Matrix (Fin n ⊕ Fin n) (Fin k) K) : Prop :=
  C * T.toRows₁ = 0 ∧ C * N * T.toRows₂ = 0

/-- `M` preserves the tangent bundle and the canonical two-form restricted to it. -/
def PresympOn {m : Nat} (C : Matrix (Fin m) (Fin n) K) (N : Mat n K) (M : Mat2 n K) : Prop :=
  ∀ (k : Nat) (T : Matrix (Fin n ⊕ Fin n) (Fin k) K), IsTan C N T →
    IsTan C N (M * T) ∧ (M * T)ᵀ * J (Fin n) K * (M * T) = Tᵀ * J (Fin n) K * T

theorem PresympOn.one {m : Nat} (C : Matrix (Fin m) (Fin n) K) (N : Mat n K) :
    PresympOn C N 1 := fun k T h => by simpa using h

theorem PresympOn.mul {m : Nat} {C : Matrix (Fin m) (Fin n) K} {N : Mat n K} {M₁ M₂ : Mat2 n K}
    (h₁ : PresympOn C N M₁) (h₂ : PresympOn C N M₂) : PresympOn C N (M₁ * M₂) := by
  intro k T hT
  obtain ⟨t2, f2⟩ := h₂ k T hT
  obtain ⟨t1, f1⟩ := h₁ k (M₂ * T) t2
  rw [Matrix.mul_assoc]
  exact ⟨t1, f1.trans f2⟩

theorem PresympOn.pow {m : Nat} {C : Matrix (Fin m) (Fin n) K} {N : Mat n K} {M : Mat2 n K}
    (h : PresympOn C N M) (k : Nat) : PresympOn C N (M ^ k) := by
  induction k with
  | zero => simpa using PresympOn.one C N
  | succ k ih => rw [pow_succ]; exact ih.mul h

/-- The canonical two-form on the columns of `[Tq; Tp]`. -/
theorem form_fromRows {k : Nat} (Tq Tp : Matrix (Fin n) (Fin k) K) :
    (fromRows Tq Tp)ᵀ * J (Fin n) K * fromRows Tq Tp = Tpᵀ * Tq - Tqᵀ * Tp := by
  rw [transpose_fromRows, J, Matrix.mul_assoc, fromBlocks_mul_fromRows, fromCols_mul_fromRows]
  simp [sub_eq_add_neg, add_comm]

end MiciVerif.Integrators
