/-
The pool of `Model/SamplerParSem.lean` run with the model's pass (`poolModel`): what the workers
return is `Sampler.workerRun` on the chains each of them took (`poolSched`), the interrupt item is on
the iteration queue iff some returned output is interrupted, every queued chain is taken at most
once (exactly once when the queue has been drained), an interrupted chain is the last one its worker
takes.
-/
import MiciVerif.Model.SamplerParSem
import MiciVerif.Lemmas.SamplerPar

namespace MiciVerif.Skel.ParSem
open MiciVerif.Sampler MiciVerif.Stagers

variable {St V A P : Type}

/-! ### the reading's pool with the model's pass is `poolModel` -/

theorem poolStep_model (K : Kernel St V A P) (st : Stage) (offset : Nat) (intr : Option (Nat × Nat × Nat))
    (np : Nat) (pl : Pool St V A P) (w : Nat) :
    poolStep (fun c ch wk => some (modelTake K st offset intr c ch wk)) np pl w =
      some (poolModelStep K st offset intr np pl w) := by
  unfold poolStep poolModelStep
  cases pl.queue with
  | nil => rfl
  | cons x rest =>
    obtain ⟨c, ch⟩ := x
    simp only
    split <;> rfl

theorem poolRun_model (K : Kernel St V A P) (st : Stage) (offset : Nat) (intr : Option (Nat × Nat × Nat))
    (np : Nat) (σ : List Nat) (pl : Pool St V A P) :
    poolRun (fun c ch wk => some (modelTake K st offset intr c ch wk)) np σ pl =
      some (poolModel K st offset intr np σ pl) := by
  induction σ generalizing pl with
  | nil => rfl
  | cons w σ ih =>
    simp only [poolRun, poolStep_model, Option.bind_some, ih]
    rfl

/-! ### one worker -/

/-- what a worker has returned so far is `workerRun` on what it has taken so far, and the rest of any
continuation is `workerRun` from its current parameters; it has stopped iff it returned an interrupted
output -/
structure WInv (K : Kernel St V A P) (st : Stage) (offset : Nat) (intr : Option (Nat × Nat × Nat))
    (chains : List (Chain St V)) (p : P) (wk : Worker St V A P) : Prop where
  run : ∀ rest, workerRun K st offset intr chains (wk.taken ++ rest) p =
      wk.outs ++ (if wk.stopped then [] else workerRun K st offset intr chains rest wk.params)
  any : wk.outs.any (·.halted) = wk.stopped

theorem winv_init (K : Kernel St V A P) (st : Stage) (offset : Nat) (intr : Option (Nat × Nat × Nat))
    (chains : List (Chain St V)) (p : P) : WInv K st offset intr chains p ⟨p, [], [], false⟩ :=
  ⟨by intro rest; simp, rfl⟩

theorem winv_take (K : Kernel St V A P) (st : Stage) (offset : Nat) (intr : Option (Nat × Nat × Nat))
    (chains : List (Chain St V)) (p : P) (wk : Worker St V A P) (c : Nat) (ch : Chain St V)
    (h : WInv K st offset intr chains p wk) (hs : wk.stopped = false) (hc : chains[c]? = some ch) :
    WInv K st offset intr chains p (modelTake K st offset intr c ch wk).1 := by
  constructor
  · intro rest
    have := h.run (c :: rest)
    simp only [hs, Bool.false_eq_true, if_false] at this
    simp only [modelTake, List.append_assoc, List.cons_append, List.nil_append]
    rw [this]
    simp only [workerRun, hc]
    rfl
  · simp only [modelTake, List.any_append, h.any, hs, List.any_cons, List.any_nil, Bool.or_false,
      Bool.false_or]

/-! ### the pool -/

structure PInv (K : Kernel St V A P) (st : Stage) (offset : Nat) (intr : Option (Nat × Nat × Nat))
    (chains : List (Chain St V)) (p : P) (np : Nat) (pl : Pool St V A P) : Prop where
  w : ∀ w, WInv K st offset intr chains p (pl.workers w)
  q : ∀ x ∈ pl.queue, chains[x.1]? = some x.2
  i : pl.iterQ.any (· == Item.interrupt) = true ↔ ∃ w, w < np ∧ (pl.workers w).stopped = true

theorem mem_queueOf (chains : List (Chain St V)) (x : Nat × Chain St V) (h : x ∈ queueOf chains) :
    chains[x.1]? = some x.2 := by
  simp only [queueOf, List.mem_map] at h
  obtain ⟨⟨ch, c⟩, hm, rfl⟩ := h
  exact List.mem_zipIdx_iff_getElem?.mp hm

theorem pinv_init (K : Kernel St V A P) (st : Stage) (offset : Nat) (intr : Option (Nat × Nat × Nat))
    (chains : List (Chain St V)) (p : P) (np : Nat) :
    PInv K st offset intr chains p np (pool0 p chains) :=
  ⟨fun _ => winv_init K st offset intr chains p, fun x hx => mem_queueOf chains x hx, by simp [pool0]⟩

theorem pinv_step (K : Kernel St V A P) (st : Stage) (offset : Nat) (intr : Option (Nat × Nat × Nat))
    (chains : List (Chain St V)) (p : P) (np : Nat) (pl : Pool St V A P) (w : Nat)
    (h : PInv K st offset intr chains p np pl) :
    PInv K st offset intr chains p np (poolModelStep K st offset intr np pl w) := by
  unfold poolModelStep
  cases hq : pl.queue with
  | nil => exact h
  | cons x rest =>
    obtain ⟨c, ch⟩ := x
    simp only
    split
    · rename_i hw
      obtain ⟨hwn, hws⟩ := hw
      have hc : chains[c]? = some ch := h.q (c, ch) (by rw [hq]; exact List.mem_cons_self)
      have hwi := winv_take K st offset intr chains p (pl.workers w) c ch (h.w w) hws hc
      refine ⟨?_, ?_, ?_⟩
      · intro i
        by_cases hi : i = w
        · simp only [hi, if_true]; exact hwi
        · simp only [hi, if_false]; exact h.w i
      · intro x hx
        exact h.q x (by rw [hq]; exact List.mem_cons_of_mem _ hx)
      · simp only [List.any_append, Bool.or_eq_true]
        constructor
        · rintro (ho | hn)
          · obtain ⟨w', hw', hs'⟩ := h.i.mp ho
            refine ⟨w', hw', ?_⟩
            have : w' ≠ w := by intro he; rw [he, hws] at hs'; cases hs'
            simpa [this] using hs'
          · refine ⟨w, hwn, ?_⟩
            simp only [if_true]
            simp only [modelTake] at hn ⊢
            split at hn
            · assumption
            · simp at hn
        · rintro ⟨w', hw', hs'⟩
          by_cases hi : w' = w
          · right
            simp only [hi, if_true] at hs'
            simp only [modelTake] at hs' ⊢
            simp [hs']
          · left
            simp only [hi, if_false] at hs'
            exact h.i.mpr ⟨w', hw', hs'⟩
    · exact h

theorem pinv_poolModel (K : Kernel St V A P) (st : Stage) (offset : Nat) (intr : Option (Nat × Nat × Nat))
    (chains : List (Chain St V)) (p : P) (np : Nat) (σ : List Nat) (pl : Pool St V A P)
    (h : PInv K st offset intr chains p np pl) :
    PInv K st offset intr chains p np (poolModel K st offset intr np σ pl) := by
  induction σ generalizing pl with
  | nil => exact h
  | cons w σ ih => exact ih _ (pinv_step K st offset intr chains p np pl w h)

/-- what the workers return is `workerRun` on the chains each of them took -/
theorem perWorker_eq (K : Kernel St V A P) (st : Stage) (offset : Nat) (intr : Option (Nat × Nat × Nat))
    (chains : List (Chain St V)) (p : P) (np : Nat) (pl : Pool St V A P)
    (h : PInv K st offset intr chains p np pl) :
    (List.range np).map (fun w => (pl.workers w).outs) =
      ((List.range np).map fun w => (pl.workers w).taken).map
        (fun todo => workerRun K st offset intr chains todo p) := by
  rw [List.map_map]
  apply List.map_congr_left
  intro w _
  have := (h.w w).run []
  simp only [List.append_nil, workerRun] at this
  simp only [Function.comp]
  rw [this]
  split <;> simp

theorem parentLoop_broke (acts : List PIntr) (l : List Item) (hd : Bool) :
    parentLoop acts l ⟨hd, true⟩ = ⟨hd, true⟩ := by
  cases l <;> simp [parentLoop]

/-- the parent's loop with the source's branch `exception = iter_queue_item; break` records an
interrupt iff an interrupt item is on the iteration queue -/
theorem parentLoop_halted (l : List Item) :
    (parentLoop [.recordException, .brk] l ⟨false, false⟩).halted = l.any (· == Item.interrupt) := by
  induction l with
  | nil => rfl
  | cons it l ih =>
    cases it with
    | interrupt => simp [parentLoop, runPIntr, parentLoop_broke]
    | progress =>
      simp only [parentLoop, List.any_cons, (by decide : (Item.progress == Item.interrupt) = false)]
      simpa using ih
    | done =>
      simp only [parentLoop, List.any_cons, (by decide : (Item.done == Item.interrupt) = false)]
      simpa using ih

/-- the interrupt flag the parent ends with is the model's `res.any (·.halted)` -/
theorem halted_eq (K : Kernel St V A P) (st : Stage) (offset : Nat) (intr : Option (Nat × Nat × Nat))
    (chains : List (Chain St V)) (p : P) (np : Nat) (pl : Pool St V A P)
    (h : PInv K st offset intr chains p np pl) :
    (parentLoop [.recordException, .brk] pl.iterQ ⟨false, false⟩).halted =
      (((List.range np).map (fun w => (pl.workers w).outs)).flatten.any (·.halted)) := by
  rw [parentLoop_halted, Bool.eq_iff_iff, h.i]
  simp only [List.any_eq_true, List.mem_flatten, List.mem_map, List.mem_range]
  constructor
  · rintro ⟨w, hw, hs⟩
    rw [← (h.w w).any, List.any_eq_true] at hs
    obtain ⟨o, ho, hh⟩ := hs
    exact ⟨o, ⟨_, ⟨w, hw, rfl⟩, ho⟩, hh⟩
  · rintro ⟨o, ⟨_, ⟨w, hw, rfl⟩, ho⟩, hh⟩
    refine ⟨w, hw, ?_⟩
    rw [← (h.w w).any, List.any_eq_true]
    exact ⟨o, ho, hh⟩

/-! ### every queued chain is taken at most once -/

theorem taken_update_perm (T T' : Nat → List Nat) (w c : Nat) (n : Nat) (hw : w < n)
    (h1 : T' w = T w ++ [c]) (h2 : ∀ i, i ≠ w → T' i = T i) :
    (((List.range n).map T').flatten).Perm (c :: ((List.range n).map T).flatten) := by
  induction n with
  | zero => omega
  | succ n ih =>
    rw [List.range_succ, List.map_append, List.map_append, List.flatten_append, List.flatten_append]
    simp only [List.map_cons, List.map_nil, List.flatten_cons, List.flatten_nil, List.append_nil]
    by_cases hn : w = n
    · subst hn
      have hpre : (List.range w).map T' = (List.range w).map T := by
        apply List.map_congr_left
        intro i hi
        simp only [List.mem_range] at hi
        exact h2 i (by omega)
      rw [hpre, h1, ← List.append_assoc]
      exact List.perm_append_singleton _ _
    · have := ih (by omega)
      rw [h2 n (by omega)]
      exact (this.append_right _)

def takenFlat (np : Nat) (pl : Pool St V A P) : List Nat :=
  ((List.range np).map fun w => (pl.workers w).taken).flatten

theorem perm_step (K : Kernel St V A P) (st : Stage) (offset : Nat) (intr : Option (Nat × Nat × Nat))
    (np : Nat) (pl : Pool St V A P) (w : Nat) :
    (takenFlat np (poolModelStep K st offset intr np pl w) ++
        (poolModelStep K st offset intr np pl w).queue.map (·.1)).Perm
      (takenFlat np pl ++ pl.queue.map (·.1)) := by
  unfold poolModelStep
  cases hq : pl.queue with
  | nil => simp [hq]
  | cons x rest =>
    obtain ⟨c, ch⟩ := x
    simp only
    split
    · rename_i hw
      simp only [List.map_cons]
      have := taken_update_perm (fun i => (pl.workers i).taken)
        (fun i => ((if i = w then (modelTake K st offset intr c ch (pl.workers w)).1 else pl.workers i)).taken)
        w c np hw.1 (by simp [modelTake]) (by intro i hi; simp [hi])
      unfold takenFlat
      refine (this.append_right _).trans ?_
      simp only [List.cons_append]
      exact List.perm_middle.symm
    · simp [hq]

theorem perm_poolModel (K : Kernel St V A P) (st : Stage) (offset : Nat) (intr : Option (Nat × Nat × Nat))
    (np : Nat) (σ : List Nat) (pl : Pool St V A P) :
    (takenFlat np (poolModel K st offset intr np σ pl) ++
        (poolModel K st offset intr np σ pl).queue.map (·.1)).Perm
      (takenFlat np pl ++ pl.queue.map (·.1)) := by
  induction σ generalizing pl with
  | nil => exact List.Perm.refl _
  | cons w σ ih => exact (ih _).trans (perm_step K st offset intr np pl w)

theorem queueOf_idx (chains : List (Chain St V)) : (queueOf chains).map (·.1) = List.range chains.length := by
  simp [queueOf, List.map_map, Function.comp_def, List.range_eq_range']

/-- **Every chain index is taken at most once, and what is not taken is still queued**: the chains
taken by the workers together with the rest of the queue are a permutation of `0 … n-1`. -/
theorem poolModel_perm (K : Kernel St V A P) (st : Stage) (offset : Nat) (intr : Option (Nat × Nat × Nat))
    (np : Nat) (σ : List Nat) (p : P) (chains : List (Chain St V)) :
    ((poolSched K st offset intr np σ p chains).flatten ++
        (poolModel K st offset intr np σ (pool0 p chains)).queue.map (·.1)).Perm
      (List.range chains.length) := by
  have := perm_poolModel K st offset intr np σ (pool0 p chains)
  have h0 : takenFlat np (pool0 p chains : Pool St V A P) = [] := by
    simp [takenFlat, pool0]
  rw [h0, List.nil_append] at this
  have hq : (pool0 p chains : Pool St V A P).queue = queueOf chains := rfl
  rw [hq, queueOf_idx] at this
  exact this

/-- a drained queue gives a valid schedule in the model's sense -/
theorem poolSched_valid (K : Kernel St V A P) (st : Stage) (offset : Nat) (intr : Option (Nat × Nat × Nat))
    (np : Nat) (σ : List Nat) (p : P) (chains : List (Chain St V))
    (hd : poolDrained K st offset intr np σ p chains = true) :
    ValidSched (poolSched K st offset intr np σ p chains) chains.length := by
  have := poolModel_perm K st offset intr np σ p chains
  unfold poolDrained at hd
  rw [List.isEmpty_iff] at hd
  rw [hd] at this
  simpa [ValidSched] using this

/-! ### an interrupted chain is the last one its worker takes -/

def WLast (c0 : Nat) (wk : Worker St V A P) : Prop :=
  (c0 ∈ wk.taken → wk.stopped = true) ∧ ∀ a b, wk.taken = a ++ c0 :: b → b = []

theorem wlast_take (K : Kernel St V A P) (st : Stage) (offset : Nat) (intr : Option (Nat × Nat × Nat))
    (c0 : Nat) (wk : Worker St V A P) (c : Nat) (ch : Chain St V)
    (hh : c = c0 → (sampleChain K st offset (chainIntr intr c) wk.params ch.state ch.rng ch.log ch.mem).halted = true)
    (h : WLast c0 wk) (hs : wk.stopped = false) :
    WLast c0 (modelTake K st offset intr c ch wk).1 := by
  have hnot : c0 ∉ wk.taken := by
    intro hm; have := h.1 hm; rw [hs] at this; cases this
  constructor
  · intro hm
    simp only [modelTake, List.mem_append, List.mem_singleton] at hm ⊢
    rcases hm with hm | hm
    · exact absurd hm hnot
    · exact hh hm.symm
  · intro a b hab
    simp only [modelTake] at hab
    rcases List.eq_nil_or_concat b with hb | ⟨b', x, hb⟩
    · exact hb
    · exfalso
      subst hb
      rw [List.concat_eq_append, ← List.cons_append, ← List.append_assoc] at hab
      have := List.append_inj_left' hab rfl
      exact hnot (by rw [this]; simp)

theorem wlast_poolModel (K : Kernel St V A P) (st : Stage) (offset : Nat) (intr : Option (Nat × Nat × Nat))
    (chains : List (Chain St V)) (np : Nat) (c0 : Nat)
    (hh : ∀ q ch, chains[c0]? = some ch →
      (sampleChain K st offset (chainIntr intr c0) q ch.state ch.rng ch.log ch.mem).halted = true)
    (σ : List Nat) (pl : Pool St V A P) (hq : ∀ x ∈ pl.queue, chains[x.1]? = some x.2)
    (h : ∀ w, WLast c0 (pl.workers w)) :
    ∀ w, WLast c0 ((poolModel K st offset intr np σ pl).workers w) := by
  induction σ generalizing pl with
  | nil => exact h
  | cons w σ ih =>
    apply ih
    · intro x hx
      apply hq
      unfold poolModelStep at hx
      cases hq' : pl.queue with
      | nil => simp [hq'] at hx
      | cons y rest =>
        obtain ⟨c, ch⟩ := y
        simp only [hq'] at hx
        split at hx
        · exact List.mem_cons_of_mem _ hx
        · rw [hq'] at hx; exact hx
    · intro i
      unfold poolModelStep
      cases hq' : pl.queue with
      | nil => exact h i
      | cons y rest =>
        obtain ⟨c, ch⟩ := y
        simp only
        split
        · rename_i hw
          by_cases hi : i = w
          · simp only [hi, if_true]
            apply wlast_take K st offset intr c0 (pl.workers w) c ch _ (h w) hw.2
            intro hc
            subst hc
            exact hh _ ch (hq (c, ch) (by rw [hq']; exact List.mem_cons_self))
          · simp only [hi, if_false]; exact h i
        · exact h i

/-- under a point that really interrupts chain `c0`, `c0` is the last chain its worker takes -/
theorem poolSched_lastOf (K : Kernel St V A P) (st : Stage) (offset : Nat) (intr : Option (Nat × Nat × Nat))
    (chains : List (Chain St V)) (p : P) (np : Nat) (σ : List Nat) (c0 : Nat)
    (hh : ∀ q ch, chains[c0]? = some ch →
      (sampleChain K st offset (chainIntr intr c0) q ch.state ch.rng ch.log ch.mem).halted = true) :
    LastOf (poolSched K st offset intr np σ p chains) c0 := by
  intro todo htodo a b hab
  simp only [poolSched, List.mem_map, List.mem_range] at htodo
  obtain ⟨w, _, rfl⟩ := htodo
  have := wlast_poolModel K st offset intr chains np c0 hh σ (pool0 p chains)
    (fun x hx => mem_queueOf chains x hx)
    (fun _ => ⟨by simp [pool0], by intro a b hab; simp [pool0] at hab⟩) w
  exact this.2 a b hab

end MiciVerif.Skel.ParSem
