/-
Run-level lemmas (stage loop) about the sequential sampler model.
-/
import MiciVerif.Lemmas.SamplerStage

namespace MiciVerif.Sampler
open MiciVerif.Stagers

variable {S V A P : Type}

/-! ### `setStates` / `advance` leave the arrays alone -/

theorem map_mem_setStates (chs : List (Chain S V)) (ss : List S) :
    (setStates chs ss).map (·.mem) = chs.map (·.mem) := by
  induction chs generalizing ss with
  | nil => cases ss <;> rfl
  | cons ch chs ih =>
    cases ss with
    | nil => rfl
    | cons s ss => simp [setStates, ih]

theorem map_mem_advance (chs : List (Chain S V)) (ds : List Nat) :
    (advance chs ds).map (·.mem) = chs.map (·.mem) := by
  induction chs generalizing ds with
  | nil => cases ds <;> rfl
  | cons ch chs ih =>
    cases ds with
    | nil => rfl
    | cons d ds => simp [advance, ih]

theorem memOf_eq_map (chs : List (Chain S V)) (c : Nat) :
    memOf chs c = ((chs.map (·.mem))[c]?).getD [] := by
  simp [memOf]

theorem memOf_setStates (chs : List (Chain S V)) (ss : List S) (c : Nat) :
    memOf (setStates chs ss) c = memOf chs c := by
  rw [memOf_eq_map, memOf_eq_map, map_mem_setStates]

theorem memOf_advance (chs : List (Chain S V)) (ds : List Nat) (c : Nat) :
    memOf (advance chs ds) c = memOf chs c := by
  rw [memOf_eq_map, memOf_eq_map, map_mem_advance]

theorem length_setStates (chs : List (Chain S V)) (ss : List S) :
    (setStates chs ss).length = chs.length := by
  have := congrArg List.length (map_mem_setStates chs ss)
  simpa using this

theorem length_advance (chs : List (Chain S V)) (ds : List Nat) :
    (advance chs ds).length = chs.length := by
  have := congrArg List.length (map_mem_advance chs ds)
  simpa using this

/-! ### stopping -/

theorem runStage_stopped (K : Kernel S V A P) (intr : Option (Nat × Nat × Nat × Nat))
    (sys : Sys S V P) (x : Nat × Stage × Mode) (h : sys.stopped = true) :
    runStage K intr sys x = sys := by
  simp [runStage, h]

theorem foldl_runStage_stopped (K : Kernel S V A P) (intr : Option (Nat × Nat × Nat × Nat))
    (l : List (Nat × Stage × Mode)) (sys : Sys S V P) (h : sys.stopped = true) :
    l.foldl (runStage K intr) sys = sys := by
  induction l with
  | nil => rfl
  | cons x l ih => simp only [List.foldl_cons]; rw [runStage_stopped K intr sys x h]; exact ih

/-- Once the stage loop has returned because of an interrupt no later stage is started. -/
theorem runStages_stopped (K : Kernel S V A P) (intr : Option (Nat × Nat × Nat × Nat))
    (l : List (Stage × Mode)) (sys : Sys S V P) (h : sys.stopped = true) :
    runStages K intr l sys = sys :=
  foldl_runStage_stopped K intr _ sys h

/-! ### without an interrupt the position of a stage in the table is irrelevant -/

theorem runStage_none_idx (K : Kernel S V A P) (sys : Sys S V P) (k k' : Nat) (sm : Stage × Mode) :
    runStage K none sys (k, sm) = runStage K none sys (k', sm) := by
  simp [runStage]

def runStage0 (K : Kernel S V A P) (sys : Sys S V P) (sm : Stage × Mode) : Sys S V P :=
  runStage K none sys (0, sm)

theorem runStages_none (K : Kernel S V A P) (l : List (Stage × Mode)) (sys : Sys S V P) :
    runStages K none l sys = l.foldl (runStage0 K) sys := by
  unfold runStages
  have : ∀ (k : Nat) (sys : Sys S V P),
      ((l.zipIdx k).map (fun sm => (sm.2, sm.1))).foldl (runStage K none) sys =
        l.foldl (runStage0 K) sys := by
    induction l with
    | nil => intro k sys; rfl
    | cons sm l ih =>
      intro k sys
      simp only [List.zipIdx_cons, List.map_cons, List.foldl_cons]
      rw [ih]
      rfl
  exact this 0 sys

theorem runStages_none_append (K : Kernel S V A P) (a b : List (Stage × Mode)) (sys : Sys S V P) :
    runStages K none (a ++ b) sys = runStages K none b (runStages K none a sys) := by
  simp [runStages_none, List.foldl_append]

theorem runStages_none_cons (K : Kernel S V A P) (sm : Stage × Mode) (b : List (Stage × Mode))
    (sys : Sys S V P) :
    runStages K none (sm :: b) sys = runStages K none b (runStage0 K sys sm) := by
  simp [runStages_none]

/-! ### one uninterrupted sequential stage -/

/-- parameters of the transition objects when chain `c` of the stage starts (sequential mode:
left there by chains `0 … c-1`) -/
def paramsBefore (K : Kernel S V A P) (st : Stage) (sys : Sys S V P) (c : Nat) : P :=
  (stageSeq K st sys.offset none sys.params (sys.chains.take c)).params

theorem runStage0_seq (K : Kernel S V A P) (sys : Sys S V P) (st : Stage)
    (hs : sys.stopped = false) (hn : st.n ≠ 0) :
    runStage0 K sys (st, .seq) =
      afterStage K st sys (stageSeq K st sys.offset none sys.params sys.chains) := by
  simp [runStage0, runStage, hs, hn]

theorem runStage0_skip (K : Kernel S V A P) (sys : Sys S V P) (st : Stage) (m : Mode)
    (hn : st.n = 0) : runStage0 K sys (st, m) = sys := by
  simp [runStage0, runStage, hn]

theorem memOf_afterStage (K : Kernel S V A P) (st : Stage) (sys : Sys S V P) (acc : Acc S V A P)
    (c : Nat) : memOf (afterStage K st sys acc).chains c = memOf acc.chains c := by
  unfold afterStage
  split
  · simp [memOf_setStates]
  · simp [memOf_advance, memOf_setStates]

theorem length_afterStage (K : Kernel S V A P) (st : Stage) (sys : Sys S V P) (acc : Acc S V A P) :
    (afterStage K st sys acc).chains.length = acc.chains.length := by
  unfold afterStage
  split
  · simp [length_setStates]
  · simp [length_advance, length_setStates]

theorem memOf_runStage0_seq (K : Kernel S V A P) (sys : Sys S V P) (st : Stage)
    (hs : sys.stopped = false) (hn : st.n ≠ 0) (c : Nat) (ch : Chain S V)
    (hc : sys.chains[c]? = some ch) :
    memOf (runStage0 K sys (st, .seq)).chains c =
      (chainRes K st sys.offset none (paramsBefore K st sys c) ch).mem := by
  rw [runStage0_seq K sys st hs hn, memOf_afterStage]
  rw [(stageSeq_none K st sys.offset sys.params sys.chains).2.1]
  simp [memOf, List.getElem?_mapIdx, hc, paramsBefore]

theorem runStage0_seq_stopped (K : Kernel S V A P) (sys : Sys S V P) (st : Stage)
    (hs : sys.stopped = false) : (runStage0 K sys (st, .seq)).stopped = false := by
  by_cases hn : st.n = 0
  · rw [runStage0_skip K sys st _ hn]; exact hs
  · rw [runStage0_seq K sys st hs hn]
    unfold afterStage
    rw [(stageSeq_none K st sys.offset sys.params sys.chains).1]
    simp

theorem runStage0_seq_offset (K : Kernel S V A P) (sys : Sys S V P) (st : Stage)
    (hs : sys.stopped = false) :
    (runStage0 K sys (st, .seq)).offset =
      if st.traced || st.stats then sys.offset + st.n else sys.offset := by
  by_cases hn : st.n = 0
  · rw [runStage0_skip K sys st _ hn]; simp [hn]
  · rw [runStage0_seq K sys st hs hn]
    unfold afterStage
    rw [(stageSeq_none K st sys.offset sys.params sys.chains).1]
    simp

theorem runStage0_seq_length (K : Kernel S V A P) (sys : Sys S V P) (st : Stage)
    (hs : sys.stopped = false) :
    (runStage0 K sys (st, .seq)).chains.length = sys.chains.length := by
  by_cases hn : st.n = 0
  · rw [runStage0_skip K sys st _ hn]
  · rw [runStage0_seq K sys st hs hn, length_afterStage, stageSeq_chains_length]

/-- A sequential stage does not touch rows below its offset … -/
theorem runStage0_seq_frame_below (K : Kernel S V A P) (sys : Sys S V P) (st : Stage)
    (hs : sys.stopped = false) (c j r : Nat) (hr : r < sys.offset) :
    cell (memOf (runStage0 K sys (st, .seq)).chains c) j r = cell (memOf sys.chains c) j r := by
  by_cases hn : st.n = 0
  · rw [runStage0_skip K sys st _ hn]
  · cases hc : sys.chains[c]? with
    | none =>
      have h1 : memOf sys.chains c = [] := by simp [memOf, hc]
      have h2 : memOf (runStage0 K sys (st, .seq)).chains c = [] := by
        have hl := runStage0_seq_length K sys st hs
        have : (runStage0 K sys (st, .seq)).chains[c]? = none := by
          rw [List.getElem?_eq_none_iff] at hc ⊢; omega
        simp [memOf, this]
      rw [h1, h2]
    | some ch =>
      rw [memOf_runStage0_seq K sys st hs hn c ch hc]
      rw [chainRes_cell_frame K st sys.offset none _ ch j r (Or.inl hr)]
      simp [memOf, hc]

/-- … nor rows from `offset + n` on. -/
theorem runStage0_seq_frame_above (K : Kernel S V A P) (sys : Sys S V P) (st : Stage)
    (hs : sys.stopped = false) (c j r : Nat) (hr : sys.offset + st.n ≤ r) :
    cell (memOf (runStage0 K sys (st, .seq)).chains c) j r = cell (memOf sys.chains c) j r := by
  by_cases hn : st.n = 0
  · rw [runStage0_skip K sys st _ hn]
  · cases hc : sys.chains[c]? with
    | none =>
      have h1 : memOf sys.chains c = [] := by simp [memOf, hc]
      have h2 : memOf (runStage0 K sys (st, .seq)).chains c = [] := by
        have hl := runStage0_seq_length K sys st hs
        have : (runStage0 K sys (st, .seq)).chains[c]? = none := by
          rw [List.getElem?_eq_none_iff] at hc ⊢; omega
        simp [memOf, this]
      rw [h1, h2]
    | some ch =>
      rw [memOf_runStage0_seq K sys st hs hn c ch hc]
      rw [chainRes_cell_frame K st sys.offset none _ ch j r (Or.inr hr)]
      simp [memOf, hc]

/-- all stages of the list run sequentially -/
def AllSeq (l : List (Stage × Mode)) : Prop := ∀ sm ∈ l, sm.2 = Mode.seq

/-- Later sequential stages never overwrite rows below the offset they start from. -/
theorem runStages_seq_frame_below (K : Kernel S V A P) (l : List (Stage × Mode))
    (hl : AllSeq l) (sys : Sys S V P) (hs : sys.stopped = false) (c j r : Nat)
    (hr : r < sys.offset) :
    cell (memOf (runStages K none l sys).chains c) j r = cell (memOf sys.chains c) j r ∧
    (runStages K none l sys).stopped = false ∧ sys.offset ≤ (runStages K none l sys).offset := by
  induction l generalizing sys with
  | nil => simp [runStages_none, hs]
  | cons sm l ih =>
    obtain ⟨st, m⟩ := sm
    have hm : m = Mode.seq := hl (st, m) List.mem_cons_self
    subst hm
    rw [runStages_none_cons]
    have hs' := runStage0_seq_stopped K sys st hs
    have ho := runStage0_seq_offset K sys st hs
    have hle : sys.offset ≤ (runStage0 K sys (st, .seq)).offset := by
      rw [ho]; split <;> omega
    have := ih (fun sm h => hl sm (List.mem_cons_of_mem _ h)) (runStage0 K sys (st, .seq)) hs'
      (by omega)
    refine ⟨?_, this.2.1, by omega⟩
    rw [this.1, runStage0_seq_frame_below K sys st hs c j r hr]

/-! ### shape of the arrays across stages -/

def MemShape (sys : Sys S V P) (nArr nRow : Nat) : Prop :=
  ∀ ch ∈ sys.chains, ch.mem.length = nArr ∧ AllLen ch.mem nRow

theorem memShape_initSys (K : Kernel S V A P) (p : P) (inits : List S) (n : Nat) :
    MemShape (initSys K p inits n : Sys S V P) (K.trans.length + K.traces.length) n := by
  intro ch hch
  simp only [initSys, List.mem_map] at hch
  obtain ⟨si, _, rfl⟩ := hch
  refine ⟨by simp, ?_⟩
  intro j a ha
  simp only [List.getElem?_replicate] at ha
  split at ha
  · injection ha with ha; subst ha; simp
  · cases ha

theorem cell_isSome_of_shape {m : Mem V} {nArr nRow : Nat} (h1 : m.length = nArr)
    (h2 : AllLen m nRow) (j r : Nat) (hj : j < nArr) (hr : r < nRow) : (cell m j r).isSome := by
  unfold cell
  have hj' : j < m.length := by omega
  rw [List.getElem?_eq_getElem hj']
  simp only [Option.bind_some]
  have := h2 j m[j] (List.getElem?_eq_getElem hj')
  rw [List.getElem?_eq_getElem (by omega)]
  rfl

theorem memShape_runStage0_seq (K : Kernel S V A P) (sys : Sys S V P) (st : Stage)
    (hs : sys.stopped = false) (nArr nRow : Nat) (h : MemShape sys nArr nRow) :
    MemShape (runStage0 K sys (st, .seq)) nArr nRow := by
  by_cases hn : st.n = 0
  · rw [runStage0_skip K sys st _ hn]; exact h
  · intro ch' hch'
    obtain ⟨c, hc⟩ := List.getElem?_of_mem hch'
    have hlen := runStage0_seq_length K sys st hs
    have hclt : c < sys.chains.length := by
      rw [← hlen]
      rcases List.getElem?_eq_some_iff.mp hc with ⟨h, _⟩; exact h
    have hch : sys.chains[c]? = some sys.chains[c] := List.getElem?_eq_getElem hclt
    have hm := memOf_runStage0_seq K sys st hs hn c _ hch
    have hmem : memOf (runStage0 K sys (st, .seq)).chains c = ch'.mem := by simp [memOf, hc]
    rw [hmem] at hm
    have hsh := h sys.chains[c] (List.getElem_mem hclt)
    have := chainRes_shape K st sys.offset none (paramsBefore K st sys c) sys.chains[c] nRow hsh.2
    rw [hm]
    exact ⟨this.2.trans hsh.1, this.1⟩

theorem runStages_seq_inv (K : Kernel S V A P) (l : List (Stage × Mode)) (hl : AllSeq l)
    (sys : Sys S V P) (hs : sys.stopped = false) (nArr nRow : Nat) (h : MemShape sys nArr nRow) :
    (runStages K none l sys).stopped = false ∧ MemShape (runStages K none l sys) nArr nRow ∧
    sys.offset ≤ (runStages K none l sys).offset ∧
    (runStages K none l sys).chains.length = sys.chains.length := by
  induction l generalizing sys with
  | nil => simp [runStages_none, hs, h]
  | cons sm l ih =>
    obtain ⟨st, m⟩ := sm
    have hm : m = Mode.seq := hl (st, m) List.mem_cons_self
    subst hm
    rw [runStages_none_cons]
    have hs' := runStage0_seq_stopped K sys st hs
    have ho := runStage0_seq_offset K sys st hs
    have hle : sys.offset ≤ (runStage0 K sys (st, .seq)).offset := by
      rw [ho]; split <;> omega
    have := ih (fun sm h => hl sm (List.mem_cons_of_mem _ h)) (runStage0 K sys (st, .seq)) hs'
      (memShape_runStage0_seq K sys st hs nArr nRow h)
    refine ⟨this.1, this.2.1, by omega, ?_⟩
    rw [this.2.2.2, runStage0_seq_length K sys st hs]

theorem opsOf_length_le (K : Kernel S V A P) (st : Stage) :
    (opsOf K st).length ≤ K.trans.length + K.traces.length := by
  unfold opsOf
  split <;> simp

theorem opsOf_length_traced (K : Kernel S V A P) (st : Stage) (h : st.traced = true) :
    (opsOf K st).length = K.trans.length + K.traces.length := by
  simp [opsOf, h]

/-- an operation that writes its array only occurs in a stage that advances the offset -/
theorem recording_of_gate (K : Kernel S V A P) (st : Stage) (j : Nat) (op : Op S V A P)
    (hop : (opsOf K st)[j]? = some op) (hg : gate st op = true) :
    (st.traced || st.stats) = true := by
  cases op with
  | trans t => simp [gate] at hg; simp [hg]
  | trace f =>
    by_cases ht : st.traced = true
    · simp [ht]
    · exfalso
      have hmem : Op.trace f ∈ opsOf K st := List.mem_of_getElem? hop
      simp only [opsOf, ht, Bool.false_eq_true, if_false, List.append_nil, List.mem_map] at hmem
      obtain ⟨_, _, h⟩ := hmem
      cases h

end MiciVerif.Sampler
