/-
Definitions shared by `Props/C09S.lean` and `Props/C18S.lean`: the parts of the trees GENERATED from
`src/mici/states.py` that the individual theorems talk about (no theorems here).
-/
import MiciVerif.Generated.StateSkeleton
import MiciVerif.Lemmas.StateSkeleton

namespace MiciVerif.StateSkel
open MiciVerif.Skel
open MiciVerif.Generated

/-- statements of the `wrapper` of `cache_in_state` -/
def wrapBody : List S := ((StateSkeleton.cacheInState.defBody "wrapper").map S.stmts).getD []

/-- statements of the `wrapper` of `cache_in_state_with_aux` -/
def auxWrapBody : List S := ((StateSkeleton.cacheInStateWithAux.defBody "wrapper").map S.stmts).getD []

/-- keyword arguments of the constructor call `type(self)(…)` returned by `copy` -/
def copyArgs : Option E :=
  match StateSkeleton.copy.returns with
  | [.meth (.call "type" (.cons (.v "self") .nil)) "__call__" a] => some a
  | _ => Option.none

end MiciVerif.StateSkel
