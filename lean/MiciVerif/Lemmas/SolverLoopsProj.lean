/-
Vocabulary and rewriting lemmas used by the solver-loop translator
(`tools/extractors/solver_loops.py`) for the three projection solvers.

* `isNaN`: `np.isnan(error)` — IEEE NaN is outside the exact-field model of
  `Model/Constrained.lean`, so the test is `False` over a field (the NaN paths of the real code
  are exercised by the harness only).
* `finish_*`: how `finish` (the translation of a loop result into what the Python function does)
  acts on each loop result; used to compare the generated loops, which produce the `Outcome`
  directly, with the hand-written loops, which produce a `LoopOut` handed to `finish`.
-/
import MiciVerif.Model.Constrained

namespace MiciVerif.Constrained
open Matrix

/-- `np.isnan(x)` over an exact field -/
def isNaN {K : Type*} (_ : K) : Prop := False

instance {K : Type*} (x : K) : Decidable (isNaN x) := isFalse (fun h => h)

@[simp] theorem isNaN_iff {K : Type*} (x : K) : isNaN x ↔ False := ⟨fun h => h, False.elim⟩

section
variable {K : Type*} [Field K] [LinearOrder K] {n : Nat}

theorem finish_ite (maxIters : Nat) (t : K) (mom : Vec K n) (Φpp : Mat K n n) (p : Prop)
    [Decidable p] (a b : LoopOut K n) :
    finish maxIters t mom Φpp (if p then a else b) =
      if p then finish maxIters t mom Φpp a else finish maxIters t mom Φpp b :=
  apply_ite _ _ _ _

theorem finish_converged (maxIters : Nat) (t : K) (mom : Vec K n) (Φpp : Mat K n n)
    (pos mu : Vec K n) (i : Nat) :
    finish maxIters t mom Φpp (.converged pos mu i) =
      .ok pos (vec (mom.fn - sgn t • (Φpp.fn *ᵥ mu.fn))) mu i := rfl

theorem finish_fault (maxIters : Nat) (t : K) (mom : Vec K n) (Φpp : Mat K n n)
    (pos mu : Vec K n) (i : Nat) :
    finish maxIters t mom Φpp (.failed .fault i pos mu) = .convergenceError .fault i pos := rfl

theorem finish_diverged (maxIters : Nat) (t : K) (mom : Vec K n) (Φpp : Mat K n n)
    (pos mu : Vec K n) (i : Nat) :
    finish maxIters t mom Φpp (.failed .diverged i pos mu) = .convergenceError .diverged i pos := rfl

theorem finish_maxIters (maxIters : Nat) (t : K) (mom : Vec K n) (Φpp : Mat K n n)
    (pos mu : Vec K n) (i : Nat) :
    finish maxIters t mom Φpp (.failed .maxIters i pos mu) =
      if maxIters = 0 then .unboundLocal else .convergenceError .maxIters i pos := rfl

end
end MiciVerif.Constrained
