/-
Helper lemmas about the coefficient list built by `deriveCoeffs` (C02 / C06):
position-parity sums, their behaviour under append / reverse, and the link between
"coefficients zipped with the alternating flow list" and position parity.
-/
import MiciVerif.Model.Integrators
import Mathlib.Tactic.Ring
import Mathlib.Tactic.FieldSimp

namespace MiciVerif.Integrators

variable {K : Type*}

/-- Sum of the entries at even (`b = true`) or odd (`b = false`) positions. -/
def sumAt [AddMonoid K] : Bool → List K → K
  | _, [] => 0
  | b, a :: l => (if b then a else 0) + sumAt (!b) l

/-- Parity flag of a length: `true` iff even. -/
def evenLen {α : Type*} (l : List α) : Bool := l.length % 2 == 0

theorem evenLen_cons {α : Type*} (a : α) (l : List α) : evenLen (a :: l) = !evenLen l := by
  unfold evenLen
  simp only [List.length_cons]
  rcases Nat.mod_two_eq_zero_or_one l.length with h | h <;>
    simp [h, Nat.add_mod]

theorem evenLen_nil {α : Type*} : evenLen ([] : List α) = true := rfl

theorem evenLen_append {α : Type*} (l m : List α) :
    evenLen (l ++ m) = (evenLen l == evenLen m) := by
  induction l with
  | nil => simp [evenLen_nil]
  | cons a l ih =>
    rw [List.cons_append, evenLen_cons, evenLen_cons, ih]
    cases evenLen l <;> cases evenLen m <;> rfl

theorem evenLen_reverse {α : Type*} (l : List α) : evenLen l.reverse = evenLen l := by
  simp [evenLen]

section AddCommMonoid
variable [AddCommMonoid K]

theorem stride2_sum (l : List K) : (stride2 l).sum = sumAt true l := by
  induction l using stride2.induct with
  | case1 => simp [stride2, sumAt]
  | case2 a => simp [stride2, sumAt]
  | case3 a b t ih => simp [stride2, sumAt, ih]

theorem slice2_zero_sum (l : List K) : (slice2 0 l).sum = sumAt true l := by
  simp [slice2, stride2_sum]

theorem slice2_one_sum (l : List K) : (slice2 1 l).sum = sumAt false l := by
  cases l with
  | nil => simp [slice2, stride2, sumAt]
  | cons a t => simp [slice2, stride2_sum, sumAt]

theorem sumAt_append (b : Bool) (l m : List K) :
    sumAt b (l ++ m) = sumAt b l + sumAt (b == evenLen l) m := by
  induction l generalizing b with
  | nil => simp [sumAt, evenLen_nil]
  | cons a l ih =>
    rw [List.cons_append, sumAt, sumAt, ih, evenLen_cons, add_assoc]
    congr 2
    cases b <;> cases evenLen l <;> rfl

theorem sumAt_singleton (b : Bool) (a : K) : sumAt b [a] = if b then a else 0 := by
  simp [sumAt]

theorem sumAt_reverse (b : Bool) (l : List K) :
    sumAt b l.reverse = sumAt (b != evenLen l) l := by
  induction l generalizing b with
  | nil => simp [sumAt]
  | cons a l ih =>
    rw [List.reverse_cons, sumAt_append, ih, sumAt_singleton, evenLen_reverse, evenLen_cons, sumAt,
      add_comm]
    cases b <;> cases evenLen l <;> simp

/-- In an odd-length palindrome `u ++ [y] ++ u.reverse` mirrored positions have equal parity. -/
theorem sumAt_palindrome (b : Bool) (u : List K) (y : K) :
    sumAt b (u ++ [y] ++ u.reverse) =
      sumAt b u + sumAt b u + (if b == evenLen u then y else 0) := by
  rw [List.append_assoc, sumAt_append, List.singleton_append, sumAt, sumAt_reverse]
  cases b <;> cases h : evenLen u <;> simp [add_comm, add_left_comm]

end AddCommMonoid

theorem reverse_zip_of_length_eq {α β : Type*} (l : List α) (m : List β) (h : l.length = m.length) :
    (l.zip m).reverse = l.reverse.zip m.reverse := by
  induction l generalizing m with
  | nil => simp
  | cons a l ih =>
    cases m with
    | nil => simp at h
    | cons b m =>
      have h' : l.length = m.length := by simpa using h
      rw [List.zip_cons_cons, List.reverse_cons, List.reverse_cons, List.reverse_cons,
        List.zip_append (by simpa using h'), ih m h']
      rfl

/-! ### alternating flow tags -/

/-- `k` alternating tags starting with `b`. -/
def altTags : Bool → Nat → List Bool
  | _, 0 => []
  | b, k + 1 => b :: altTags (!b) k

theorem altTags_length (b : Bool) (k : Nat) : (altTags b k).length = k := by
  induction k generalizing b with
  | zero => rfl
  | succ k ih => simp [altTags, ih]

theorem flowsList_cons {F : Type*} (a b : F) (n : Nat) :
    flowsList a b (n + 1) = a :: b :: flowsList a b n := by
  simp [flowsList, List.replicate_succ]

theorem flowsList_zero {F : Type*} (a b : F) : flowsList a b 0 = [a, b, a] := by
  simp [flowsList]

theorem flowsList_length {F : Type*} (a b : F) (n : Nat) : (flowsList a b n).length = 2 * n + 3 := by
  induction n with
  | zero => simp [flowsList_zero]
  | succ n ih => rw [flowsList_cons]; simp [ih]; omega

theorem flowsList_tags (n : Nat) : flowsList true false n = altTags true (2 * n + 3) := by
  induction n with
  | zero => simp [flowsList_zero, altTags]
  | succ n ih =>
    rw [flowsList_cons, ih]
    have : 2 * (n + 1) + 3 = (2 * n + 3) + 1 + 1 := by omega
    rw [this]; simp [altTags]

theorem flowsList_reverse {F : Type*} (a b : F) (n : Nat) :
    (flowsList a b n).reverse = flowsList a b n := by
  induction n with
  | zero => simp [flowsList_zero]
  | succ n ih =>
    -- a :: b :: L with L = flowsList n palindromic, and L = (ab)^(n+1) a, so L ++ [b, a] = a :: b :: L
    have key : ∀ m : Nat, flowsList a b m ++ [b, a] = a :: b :: flowsList a b m := by
      intro m
      induction m with
      | zero => simp [flowsList_zero]
      | succ m ihm => rw [flowsList_cons, List.cons_append, List.cons_append, ihm]
    rw [flowsList_cons, List.reverse_cons, List.reverse_cons, ih, List.append_assoc]
    exact key n

theorem weight_alt [AddCommMonoid K] (tag : Bool) (c : List K) (b : Bool) (k : Nat)
    (h : c.length ≤ k) : weight tag c (altTags b k) = sumAt (b == tag) c := by
  induction c generalizing b k with
  | nil => simp [weight, sumAt]
  | cons a c ih =>
    cases k with
    | zero => simp at h
    | succ k =>
      have h' : c.length ≤ k := by simpa using h
      have := ih (!b) k h'
      unfold weight at this ⊢
      simp only [altTags, List.zip_cons_cons, List.filter_cons, sumAt]
      cases b <;> cases tag <;> simp_all

/-! ### the derived coefficient list -/

theorem deriveCoeffs_eq [Field K] (free : List K) :
    deriveCoeffs free =
      (free ++ [1 / 2 - (slice2 (free.length % 2) free).sum]) ++
        [1 - 2 * (slice2 ((free.length + 1) % 2) free).sum] ++
        (free ++ [1 / 2 - (slice2 (free.length % 2) free).sum]).reverse := by
  simp [deriveCoeffs]

theorem slice2_sum_of_even [AddCommMonoid K] (free : List K) (h : free.length % 2 = 0) :
    (slice2 (free.length % 2) free).sum = sumAt true free ∧
      (slice2 ((free.length + 1) % 2) free).sum = sumAt false free ∧ evenLen free = true := by
  have h1 : (free.length + 1) % 2 = 1 := by omega
  rw [h, h1, slice2_zero_sum, slice2_one_sum]
  simp [evenLen, h]

theorem slice2_sum_of_odd [AddCommMonoid K] (free : List K) (h : free.length % 2 = 1) :
    (slice2 (free.length % 2) free).sum = sumAt false free ∧
      (slice2 ((free.length + 1) % 2) free).sum = sumAt true free ∧ evenLen free = false := by
  have h1 : (free.length + 1) % 2 = 0 := by omega
  rw [h, h1, slice2_zero_sum, slice2_one_sum]
  simp [evenLen, h]

/-- Both position-parity sums of the derived coefficient list are one. -/
theorem sumAt_deriveCoeffs [Field K] (b : Bool) (h2 : (2 : K) ≠ 0) (free : List K) :
    sumAt b (deriveCoeffs free) = 1 := by
  rw [deriveCoeffs_eq, sumAt_palindrome, sumAt_append, evenLen_append, sumAt_singleton]
  rcases Nat.mod_two_eq_zero_or_one free.length with h | h
  · obtain ⟨e1, e2, e3⟩ := slice2_sum_of_even free h
    rw [e1, e2, e3]
    cases b <;> simp [evenLen] <;> field_simp <;> ring
  · obtain ⟨e1, e2, e3⟩ := slice2_sum_of_odd free h
    rw [e1, e2, e3]
    cases b <;> simp [evenLen] <;> field_simp <;> ring

end MiciVerif.Integrators
