/-
Triangular-matrix lemmas for the C10 model (`IsTri`, `TriF`).
-/
import MiciVerif.Lemmas.MatricesBlock

set_option linter.unusedSectionVars false
set_option linter.unusedVariables false

namespace MiciVerif.Matrices
open Matrix
variable {K : Type} [Field K] {m n p q : ℕ}

theorem mul_one_comm' {A X : Mat n n K} (h : A * X = 1) : X * A = 1 :=
  mul_eq_one_comm.mp h

theorem isTri_iff (lower : Bool) (A : Mat n n K) :
    IsTri lower A ↔ (if lower then A.IsLowerTriangular else A.IsUpperTriangular) := by
  cases lower
  · simp only [IsTri, Bool.false_eq_true, if_false]
    constructor
    · intro h i j hij; exact h i j hij
    · intro h i j hij; exact h hij
  · simp only [IsTri, if_true]
    constructor
    · intro h i j hij; exact h i j hij
    · intro h i j hij; exact h hij

theorem isTri_transpose {lower : Bool} {A : Mat n n K} (h : IsTri lower A) : IsTri (!lower) Aᵀ := by
  cases lower
  · simp only [IsTri, Bool.false_eq_true, if_false, Bool.not_false, if_true] at *
    intro i j hij; exact h j i hij
  · simp only [IsTri, Bool.false_eq_true, if_false, Bool.not_true, if_true] at *
    intro i j hij; exact h j i hij

theorem isTri_smul {lower : Bool} {A : Mat n n K} (c : K) (h : IsTri lower A) : IsTri lower (c • A) := by
  cases lower
  · simp only [IsTri, Bool.false_eq_true, if_false] at *
    intro i j hij; simp [h i j hij]
  · simp only [IsTri, if_true] at *
    intro i j hij; simp [h i j hij]

theorem det_of_isTri {lower : Bool} {A : Mat n n K} (h : IsTri lower A) : A.det = ∏ i, A i i := by
  rw [isTri_iff] at h
  cases lower
  · exact Matrix.det_of_isUpperTriangular h
  · exact Matrix.det_of_isLowerTriangular A h

/-- The checked inverse of a triangular matrix is triangular of the same kind. -/
theorem isTri_inv {lower : Bool} {A X : Mat n n K} (h : IsTri lower A) (hAX : A * X = 1) :
    IsTri lower X := by
  have hX : X = A⁻¹ := (Matrix.inv_eq_right_inv hAX).symm
  have : Invertible A := invertibleOfRightInverse A X hAX
  rw [isTri_iff] at h ⊢
  cases lower
  · simp only [Bool.false_eq_true, if_false] at *
    rw [hX]; exact Matrix.blockTriangular_inv_of_blockTriangular h
  · simp only [if_true] at *
    rw [hX]; exact Matrix.blockTriangular_inv_of_blockTriangular h

theorem tri_inv_diag {lower : Bool} {A X : Mat n n K} (h : IsTri lower A) (hAX : A * X = 1)
    (i : Fin n) : X i i = (A i i)⁻¹ := by
  have hXt := isTri_inv h hAX
  have h1 : (A * X) i i = 1 := by rw [hAX]; simp
  rw [Matrix.mul_apply] at h1
  have h2 : ∑ k, A i k * X k i = A i i * X i i := by
    apply Finset.sum_eq_single i
    · intro k _ hk
      rcases lt_or_gt_of_ne hk with hlt | hgt
      · cases lower
        · simp only [IsTri, Bool.false_eq_true, if_false] at h hXt
          rw [h i k hlt]; simp
        · simp only [IsTri, if_true] at h hXt
          rw [hXt k i hlt]; simp
      · cases lower
        · simp only [IsTri, Bool.false_eq_true, if_false] at h hXt
          rw [hXt k i hgt]; simp
        · simp only [IsTri, if_true] at h hXt
          rw [h i k hgt]; simp
    · simp
  rw [h2] at h1
  exact (eq_inv_of_mul_eq_one_right h1)

namespace TriF
variable (f : TriF n K)

theorem WF.mul_comm {f : TriF n K} (h : f.WF) : f.X * f.A = 1 := mul_one_comm' h.1

@[simp] theorem denote_T : f.T.denote = f.denoteᵀ := by
  unfold denote T; split <;> simp_all

theorem WF_T {f : TriF n K} (h : f.WF) : f.T.WF := by
  refine ⟨?_, isTri_transpose h.2⟩
  show f.Aᵀ * f.Xᵀ = 1
  rw [← Matrix.transpose_mul, h.mul_comm, Matrix.transpose_one]

theorem WF_inv {f : TriF n K} (h : f.WF) : f.inv.WF := h

theorem denote_inv_mul {f : TriF n K} (h : f.WF) : f.inv.denote * f.denote = 1 := by
  unfold denote inv
  cases hf : f.inverse <;> simp [h.1, h.mul_comm]

theorem denote_mul_inv {f : TriF n K} (h : f.WF) : f.denote * f.inv.denote = 1 := by
  unfold denote inv
  cases hf : f.inverse <;> simp [h.1, h.mul_comm]

theorem denote_smul (c : K) : (f.smul c).denote = c • f.denote := by
  unfold denote smul
  cases hf : f.inverse <;> simp

theorem WF_smul {f : TriF n K} {c : K} (hc : c ≠ 0) (h : f.WF) : (f.smul c).WF := by
  unfold smul
  cases hf : f.inverse
  · refine ⟨?_, isTri_smul c h.2⟩
    simp [smul_smul, h.1, hc]
  · refine ⟨?_, isTri_smul c⁻¹ h.2⟩
    simp [smul_smul, h.1, hc]

theorem diagonal_eq {f : TriF n K} (h : f.WF) : f.diagonal = Matrix.diag f.denote := by
  unfold diagonal denote
  cases hf : f.inverse
  · rfl
  · ext i; simp [Matrix.diag, tri_inv_diag h.2 h.1 i]

theorem sdet_eq {f : TriF n K} (h : f.WF) : f.sdet = f.denote.det := by
  unfold sdet denote
  have hd : f.A.det * f.X.det = 1 := by rw [← Matrix.det_mul, h.1, Matrix.det_one]
  cases hf : f.inverse
  · simp [det_of_isTri h.2]
  · simp only [if_true]
    rw [← det_of_isTri h.2]
    exact (eq_inv_of_mul_eq_one_right hd).symm

end TriF
end MiciVerif.Matrices
