/-
Glue between the evaluator of the generated method bodies (`Model/SysExpr.lean`) and the
hand-written models (`Model/Systems.lean`): how the parameters of a hand model are read off an
environment, and the tactic that evaluates a generated body.
-/
import MiciVerif.Model.SysExpr
import MiciVerif.Model.Systems

namespace MiciVerif.SysExpr
open Matrix MiciVerif.Systems

variable {R : Type*} [CommRing R] {n c κ : Type*} [Fintype n] [Fintype c] [DecidableEq n]
  [DecidableEq c]

/-- The constraint data of the hand model read off an environment: the user Jacobian, the user
matrix-Hessian product, and the Gram inverse as the code obtains it (`.inv` of the Gram matrix
object built from the Jacobian and `metric.inv`). -/
def Env.consFns (E : Env R n c κ) : ConstraintFns R n c :=
  ⟨E.jacobConstr, E.mhpConstr, fun q => E.invCC (gram (E.jacobConstr q) E.metric.inv)⟩

/-- The matrix object `self._metric_matrix_class(θ, …)` of a Riemannian system whose metric class
is described by `Mc` (`Model/Systems.lean`); `L θ` is its `.sqrt` (checked data). -/
def matObjOfClass (logabs : R → R) (Mc : MetricClass R κ n) (L : (κ → R) → Matrix n n R)
    (θ : κ → R) : MatObj R n κ where
  inv := Mc.inv θ
  sqrt := L θ
  eigvec := 0
  eigval := 0
  logAbsDet := logabs (Mc.metric θ).det
  gradLogAbsDet := Mc.gradLogAbsDet θ
  gradQuadFormInv := Mc.gradQuadFormInv θ

/-- environment of a `RiemannianMetricSystem` with metric class `Mc`, user `metric_func = F.θ`,
`vjp_metric_func = F.vjp` -/
def Env.withRiemannian (E : Env R n c κ) [Fintype κ] (Mc : MetricClass R κ n) (F : MetricFns R κ n)
    (L : (κ → R) → Matrix n n R) : Env R n c κ :=
  { E with metricClass := matObjOfClass E.logabs Mc L, metricFunc := F.θ, vjpMetricFunc := F.vjp }

/-- environment of a `SoftAbsRiemannianMetricSystem`: the metric function is the user Hessian,
its vector-Jacobian product the user matrix-Tressian product -/
def Env.withSoftAbs (E : Env R n c κ) [Fintype κ] (Mc : MetricClass R κ n) (F : MetricFns R κ n)
    (L : (κ → R) → Matrix n n R) : Env R n c κ :=
  { E with metricClass := matObjOfClass E.logabs Mc L, hessNegLogDens := F.θ,
           mtpNegLogDens := F.vjp }

/-- Evaluate the generated body on the left-hand side (kernel-checkable computation: `whnf`). -/
macro "src_eval" : tactic => `(tactic| conv_lhs => whnf)

end MiciVerif.SysExpr
