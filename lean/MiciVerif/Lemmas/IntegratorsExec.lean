/-
Executable helpers shared by the integrator drivers (Driver/C02.lean, Driver/C03.lean):
conversion of parsed lists to `Fin n → ℚ` vectors / matrices, the polynomial target family
  U(q) = q·Aq/2 + Σ b3 q⁴/4 + Σ b2 q³/3 + d·q,   g(q) = A q + b3 ⊙ q³ + b2 ⊙ q² + d,
  Hess(q) = A + diag(3 b3 q² + 2 b2 q),
and the nearest-key lookup table for the implementation's cos/sin values.
-/
import MiciVerif.Model.Integrators
import MiciVerif.Proto
import Mathlib.Algebra.Field.Rat

namespace MiciVerif.IntegratorsExec
open MiciVerif MiciVerif.Integrators MiciVerif.Proto

abbrev Vec (n : Nat) := Fin n → ℚ
abbrev Mat (n : Nat) := Matrix (Fin n) (Fin n) ℚ

def toVec (n : Nat) (l : List ℚ) : Option (Vec n) :=
  if l.length = n then
    let a := l.toArray
    some (fun i => a.getD i.1 0)
  else none

def toMat (n : Nat) (rows : List (List ℚ)) : Option (Mat n) :=
  if rows.length = n ∧ rows.all (fun r => r.length = n) then
    let a := (rows.map List.toArray).toArray
    some (Matrix.of fun i j => (a.getD i.1 #[]).getD j.1 0)
  else none

def ofVec {n : Nat} (v : Vec n) : List ℚ := List.ofFn v

def showState {n : Nat} (x : Vec n × Vec n) : String := showVec (ofVec x.1) ++ " " ++ showVec (ofVec x.2)

/-- gradient of the polynomial potential -/
def grad {n : Nat} (A : Mat n) (b3 b2 d : Vec n) (q : Vec n) : Vec n :=
  force (A.mulVec q + b3 * q * q * q + b2 * q * q + d)

def parseTarget (n : Nat) (a b3 b2 d : String) : Option (Vec n → Vec n) := do
  let A ← (parseMat? a) >>= toMat n
  let b3 ← (parseVec? b3) >>= toVec n
  let b2 ← (parseVec? b2) >>= toVec n
  let d ← (parseVec? d) >>= toVec n
  pure (grad A b3 b2 d)

def absQ (x : ℚ) : ℚ := if x < 0 then -x else x

/-- `trig t` = entry of the table whose key is nearest to `t` (keys are the exact values of the
floating point sub-step times the implementation passed to `np.cos/np.sin`). -/
def lookup {n : Nat} (table : List (ℚ × Trig n ℚ)) (dflt : Trig n ℚ) (t : ℚ) : Trig n ℚ :=
  (table.foldl (fun (best : Option (ℚ × Trig n ℚ)) e =>
    match best with
    | none => some (absQ (e.1 - t), e.2)
    | some b => if absQ (e.1 - t) < b.1 then some (absQ (e.1 - t), e.2) else some b) none).elim dflt (·.2)

def parseTable (n : Nat) (s : String) : Option (List (ℚ × Trig n ℚ)) :=
  if s = "-" then some [] else
  (s.splitOn "|").mapM fun e =>
    match e.splitOn ";" with
    | [t, c, sn] => do
      let t ← parseRat? t
      let c ← (parseVec? c) >>= toVec n
      let sn ← (parseVec? sn) >>= toVec n
      pure (t, (⟨c, sn⟩ : Trig n ℚ))
    | _ => none


/-- Hessian of the polynomial potential (Jacobian of `grad`). -/
def hess {n : Nat} (A : Mat n) (b3 b2 : Vec n) (q : Vec n) : Mat n :=
  A + Matrix.diagonal (fun i => 3 * b3 i * q i * q i + 2 * b2 i * q i)

def parseHess (n : Nat) (a b3 b2 : String) : Option (Vec n → Mat n) := do
  let A ← (parseMat? a) >>= toMat n
  let b3 ← (parseVec? b3) >>= toVec n
  let b2 ← (parseVec? b2) >>= toVec n
  pure (hess A b3 b2)

end MiciVerif.IntegratorsExec
