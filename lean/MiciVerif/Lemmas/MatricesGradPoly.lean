/-
C11 — polynomial spectral functions (the algebraic part of the SoftAbs gradients).

`p = [a₀, a₁, …]` is a coefficient list, `polyMat p H = Σ aₖ Hᵏ` (Horner form).
* `polyMat_perturb` : `p(H + ε δ) = p(H) + ε • Dp(H)[δ]`, `Dp(H)[δ] = Σₖ aₖ Σ_{i+j=k-1} Hⁱ δ Hʲ`
* `polyMat_spec`    : `p(Q Λ Qᵀ) = Q p(Λ) Qᵀ`
* `polyMatD_spec`   : `Dp(Q Λ Qᵀ)[δ] = Q ((Qᵀ δ Q) ⊙ J) Qᵀ`, `J a b = polyDD p (λ a) (λ b)`
                      (Daleckii–Krein; holds verbatim for repeated eigenvalues)
* `polyDD_mul_sub`, `polyDD_self` : `J` is the divided difference / the derivative
-/
import MiciVerif.Lemmas.MatricesGrad
import Mathlib.Tactic.Ring
import Mathlib.Tactic.LinearCombination

set_option linter.unusedSectionVars false

namespace MiciVerif.MatricesGrad
open Matrix

variable {R : Type*} [CommRing R] {n : Type*} [Fintype n] [DecidableEq n]

/-- `(f x - f y) = J(x,y) (x - y)`: `polyDD` is the divided difference. -/
theorem polyDD_mul_sub (p : List R) (x y : R) :
    polyDD p x y * (x - y) = polyEval p x - polyEval p y := by
  induction p with
  | nil => simp [polyDD, polyEval]
  | cons a p ih =>
    simp only [polyDD, polyEval]
    linear_combination x * ih

/-- On the diagonal (and for any coincident pair) the divided difference is the derivative. -/
theorem polyDD_self (p : List R) (x : R) : polyDD p x x = polyDeriv p x := by
  induction p with
  | nil => simp [polyDD, polyDeriv]
  | cons a p ih => simp only [polyDD, polyDeriv, ih]

theorem polyDD_symm (p : List R) (x y : R) : polyDD p x y = polyDD p y x := by
  induction p with
  | nil => simp [polyDD]
  | cons a p ih =>
    simp only [polyDD]
    have h1 := polyDD_mul_sub p x y
    linear_combination h1 + y * ih

/-- First-order expansion of a matrix polynomial. -/
theorem polyMat_perturb {ε : R} (hε : ε * ε = 0) (p : List R) (H δ : Matrix n n R) :
    polyMat p (H + ε • δ) = polyMat p H + ε • polyMatD p H δ := by
  induction p with
  | nil => simp [polyMat, polyMatD]
  | cons a p ih =>
    simp only [polyMat, polyMatD, ih]
    simp only [Matrix.add_mul, Matrix.mul_add, Matrix.smul_mul, Matrix.mul_smul, smul_add,
      smul_smul, hε, zero_smul, add_zero]
    abel

section Spectral
variable (Q : Matrix n n R) (lam : n → R)

theorem specMat_mul_specMat (hQ : Qᵀ * Q = 1) (d e : n → R) :
    specMat Q d * specMat Q e = specMat Q fun a => d a * e a := by
  unfold specMat
  calc Q * diagonal d * Qᵀ * (Q * diagonal e * Qᵀ)
      = Q * diagonal d * (Qᵀ * Q) * diagonal e * Qᵀ := by simp only [Matrix.mul_assoc]
    _ = Q * (diagonal d * diagonal e) * Qᵀ := by rw [hQ, Matrix.mul_one, Matrix.mul_assoc Q]
    _ = _ := by rw [diagonal_mul_diagonal]

theorem specMat_one (hQ' : Q * Qᵀ = 1) : specMat Q (fun _ => (1 : R)) = 1 := by
  unfold specMat
  have : (diagonal fun _ : n => (1 : R)) = 1 := diagonal_one
  rw [this, Matrix.mul_one, hQ']

theorem specMat_add (d e : n → R) : specMat Q d + specMat Q e = specMat Q fun a => d a + e a := by
  unfold specMat
  rw [← Matrix.add_mul, ← Matrix.mul_add, diagonal_add]

theorem specMat_smul (c : R) (d : n → R) : c • specMat Q d = specMat Q fun a => c * d a := by
  unfold specMat
  rw [← Matrix.smul_mul, ← Matrix.mul_smul, ← diagonal_smul]; rfl

theorem specMat_transpose (d : n → R) : (specMat Q d)ᵀ = specMat Q d := by
  unfold specMat
  rw [transpose_mul, transpose_mul, transpose_transpose, diagonal_transpose, Matrix.mul_assoc]

/-- `p(Q Λ Qᵀ) = Q p(Λ) Qᵀ` -/
theorem polyMat_spec (hQ' : Q * Qᵀ = 1) (p : List R) :
    polyMat p (specMat Q lam) = specMat Q fun a => polyEval p (lam a) := by
  have hQ : Qᵀ * Q = 1 := mul_eq_one_comm.mp hQ'
  induction p with
  | nil => simp [polyMat, polyEval, specMat]
  | cons c p ih =>
    simp only [polyMat, polyEval, ih]
    rw [specMat_mul_specMat Q hQ, ← specMat_one Q hQ', specMat_smul, specMat_add]
    simp only [mul_one]

/-- the matrix `(Qᵀ δ Q) ⊙ J` with `J a b = polyDD p (λ a) (λ b)` -/
def ddHadamard (p : List R) (δ : Matrix n n R) : Matrix n n R :=
  Matrix.of fun a b => (Qᵀ * δ * Q) a b * polyDD p (lam a) (lam b)

/-- Daleckii–Krein for polynomials: `Dp(H)[δ] = Q ((Qᵀ δ Q) ⊙ J) Qᵀ`. -/
theorem polyMatD_spec (hQ' : Q * Qᵀ = 1) (p : List R) (δ : Matrix n n R) :
    polyMatD p (specMat Q lam) δ = Q * ddHadamard Q lam p δ * Qᵀ := by
  have hQ : Qᵀ * Q = 1 := mul_eq_one_comm.mp hQ'
  induction p with
  | nil =>
    have : ddHadamard Q lam ([] : List R) δ = 0 := by ext a b; simp [ddHadamard, polyDD]
    simp [polyMatD, this]
  | cons c p ih =>
    simp only [polyMatD, ih, polyMat_spec Q lam hQ']
    have e1 : δ * specMat Q (fun a => polyEval p (lam a))
        = Q * ((Qᵀ * δ * Q) * diagonal fun a => polyEval p (lam a)) * Qᵀ := by
      unfold specMat
      calc δ * (Q * diagonal _ * Qᵀ) = (Q * Qᵀ) * δ * (Q * diagonal _ * Qᵀ) := by
            rw [hQ', Matrix.one_mul]
        _ = _ := by simp only [Matrix.mul_assoc]
    have e2 : specMat Q lam * (Q * ddHadamard Q lam p δ * Qᵀ)
        = Q * (diagonal lam * ddHadamard Q lam p δ) * Qᵀ := by
      unfold specMat
      calc Q * diagonal lam * Qᵀ * (Q * ddHadamard Q lam p δ * Qᵀ)
          = Q * diagonal lam * (Qᵀ * Q) * ddHadamard Q lam p δ * Qᵀ := by
            simp only [Matrix.mul_assoc]
        _ = _ := by rw [hQ, Matrix.mul_one]; simp only [Matrix.mul_assoc]
    rw [e1, e2, ← Matrix.add_mul, ← Matrix.mul_add]
    congr 2
    ext a b
    simp only [Matrix.add_apply, mul_diagonal, diagonal_mul, ddHadamard, of_apply, polyDD]
    ring

end Spectral

/-- `⟨G, δ⟩ = trace (Gᵀ δ)` -/
theorem innerMat_eq_trace (G δ : Matrix n n R) : innerMat G δ = trace (Gᵀ * δ) := by
  rw [trace_mul_eq_innerMat, transpose_transpose]

theorem trace_diagonal_mul (d : n → R) (W : Matrix n n R) :
    trace (diagonal d * W) = ∑ a, d a * W a a := by
  simp [trace, diagonal_mul]

/-- `trace (X Dp)` for `X = Q diag(fli) Qᵀ`: the log-determinant gradient in the eigenbasis. -/
theorem softabs_trace (Q : Matrix n n R) (lam fli : n → R) (hQ' : Q * Qᵀ = 1) (p : List R)
    (δ : Matrix n n R) :
    trace (specMat Q fli * (Q * ddHadamard Q lam p δ * Qᵀ))
      = innerMat (softabsGradLogDet Q (fun a => polyDeriv p (lam a)) fli) δ := by
  have hQ : Qᵀ * Q = 1 := mul_eq_one_comm.mp hQ'
  have lhs : trace (specMat Q fli * (Q * ddHadamard Q lam p δ * Qᵀ))
      = ∑ a, fli a * ((Qᵀ * δ * Q) a a * polyDeriv p (lam a)) := by
    unfold specMat
    calc trace (Q * diagonal fli * Qᵀ * (Q * ddHadamard Q lam p δ * Qᵀ))
        = trace (Q * (diagonal fli * ddHadamard Q lam p δ) * Qᵀ) := by
          congr 1
          calc Q * diagonal fli * Qᵀ * (Q * ddHadamard Q lam p δ * Qᵀ)
              = Q * diagonal fli * (Qᵀ * Q) * ddHadamard Q lam p δ * Qᵀ := by
                simp only [Matrix.mul_assoc]
            _ = _ := by rw [hQ, Matrix.mul_one]; simp only [Matrix.mul_assoc]
      _ = trace (diagonal fli * ddHadamard Q lam p δ * (Qᵀ * Q)) := by
          rw [trace_mul_comm, ← Matrix.mul_assoc, trace_mul_comm]
      _ = _ := by
          rw [hQ, Matrix.mul_one, trace_diagonal_mul]
          simp only [ddHadamard, of_apply, polyDD_self]
  have rhs : innerMat (softabsGradLogDet Q (fun a => polyDeriv p (lam a)) fli) δ
      = ∑ a, (polyDeriv p (lam a) * fli a) * (Qᵀ * δ * Q) a a := by
    rw [innerMat_eq_trace, softabsGradLogDet, specMat_transpose]
    unfold specMat
    rw [Matrix.mul_assoc, Matrix.mul_assoc, trace_mul_comm, Matrix.mul_assoc, Matrix.mul_assoc,
      trace_diagonal_mul]
  rw [lhs, rhs]
  exact Finset.sum_congr rfl fun a _ => by ring

/-- the inverse-quadratic-form term `-(Xᵀ v)·Dp (X v)` for `X = Q diag(fli) Qᵀ` in the
eigenbasis: `⟨-Q ((e eᵀ) ⊙ J) Qᵀ, δ⟩` with `e = (Qᵀ v) * fli`. -/
theorem softabs_quadterm (Q : Matrix n n R) (lam fli : n → R) (hQ' : Q * Qᵀ = 1) (p : List R)
    (δ : Matrix n n R) (v : n → R) :
    -(((specMat Q fli)ᵀ *ᵥ v) ⬝ᵥ (Q * ddHadamard Q lam p δ * Qᵀ) *ᵥ (specMat Q fli *ᵥ v))
      = innerMat (softabsGradQuad Q fli (Matrix.of fun a b => polyDD p (lam a) (lam b)) v) δ := by
  have hQ : Qᵀ * Q = 1 := mul_eq_one_comm.mp hQ'
  set e : n → R := fun a => (Qᵀ *ᵥ v) a * fli a with he
  have hXv : specMat Q fli *ᵥ v = Q *ᵥ e := by
    unfold specMat
    rw [← mulVec_mulVec, ← mulVec_mulVec]
    congr 1
    funext a
    rw [mulVec_diagonal, he]; ring
  have lhs : ((specMat Q fli)ᵀ *ᵥ v) ⬝ᵥ (Q * ddHadamard Q lam p δ * Qᵀ) *ᵥ (specMat Q fli *ᵥ v)
      = innerMat (outer e e) (ddHadamard Q lam p δ) := by
    rw [specMat_transpose, hXv, ← mulVec_mulVec, ← mulVec_mulVec, mulVec_mulVec e, hQ,
      one_mulVec, dotProduct_mulVec, ← mulVec_transpose, mulVec_mulVec, hQ, one_mulVec,
      dot_mulVec_eq_innerMat]
  have rhs : innerMat (softabsGradQuad Q fli (Matrix.of fun a b => polyDD p (lam a) (lam b)) v) δ
      = -innerMat (Matrix.of fun a b => e a * e b * polyDD p (lam a) (lam b)) (Qᵀ * δ * Q) := by
    unfold softabsGradQuad
    rw [innerMat_neg, innerMat_eq_trace, transpose_mul, transpose_mul, transpose_transpose,
      Matrix.mul_assoc, Matrix.mul_assoc, trace_mul_comm, Matrix.mul_assoc, Matrix.mul_assoc,
      ← Matrix.mul_assoc Qᵀ, trace_mul_eq_innerMat, transpose_transpose]
    rfl
  rw [lhs, rhs]
  congr 1
  unfold innerMat outer ddHadamard
  exact Finset.sum_congr rfl fun a _ => Finset.sum_congr rfl fun b _ => by
    simp only [of_apply]; ring

end MiciVerif.MatricesGrad
