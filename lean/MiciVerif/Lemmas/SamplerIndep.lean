/-
Sequential stage = canonical form of the parallel stage (under `AdaptLocal`); run-level
independence of process count and schedule; stream and draw-log invariants.
-/
import MiciVerif.Lemmas.SamplerPar

namespace MiciVerif.Sampler
open MiciVerif.Stagers

variable {S V A P : Type}

/-! ### sequential stage vs canonical form -/

theorem stageSeq_params_equiv (K : Kernel S V A P) (E : Kind → P → P → Prop) (hE : AdaptLocal K E)
    (st : Stage) (offset : Nat) (p : P) (chs : List (Chain S V)) :
    E st.kind p (stageSeq K st offset none p chs).params := by
  induction chs using snoc_ind with
  | nil => exact hE.refl _ _
  | snoc chs ch ih =>
    rw [stageSeq_snoc]
    have hh := (stageSeq_none K st offset p chs).1
    simp only [seqStep, hh, Bool.false_eq_true, if_false, chainIntr]
    exact hE.trans _ _ _ _ ih (hE.pres st offset none _ ch)

/-- Under `AdaptLocal` the uninterrupted sequential stage produces exactly the canonical outputs
and chain records; only the parent's transition parameters may differ, within the class. -/
theorem stageSeq_canon (K : Kernel S V A P) (E : Kind → P → P → Prop) (hE : AdaptLocal K E)
    (st : Stage) (offset : Nat) (p : P) (chs : List (Chain S V)) :
    (stageSeq K st offset none p chs).outs = (canonPar K st offset none true p chs).outs ∧
    (stageSeq K st offset none p chs).chains = (canonPar K st offset none true p chs).chains ∧
    (stageSeq K st offset none p chs).halted = (canonPar K st offset none true p chs).halted ∧
    E st.kind p (stageSeq K st offset none p chs).params := by
  obtain ⟨h1, h2, h3⟩ := stageSeq_none K st offset p chs
  have hobs : ∀ c (ch : Chain S V),
      obs (chainRes K st offset none (stageSeq K st offset none p (chs.take c)).params ch) =
        obs (chainRes K st offset none p ch) := by
    intro c ch
    exact (hE.resp st offset none p _ ch (stageSeq_params_equiv K E hE st offset p (chs.take c))).symm
  refine ⟨?_, ?_, ?_, stageSeq_params_equiv K E hE st offset p chs⟩
  · rw [h3]
    simp only [canonPar, canonOuts]
    apply List.ext_getElem?
    intro c
    simp only [List.getElem?_mapIdx, List.getElem?_map]
    cases chs[c]? with
    | none => rfl
    | some ch =>
      have := hobs c ch
      simp only [obs, Prod.mk.injEq] at this
      obtain ⟨e1, e2, e3, _, _, _⟩ := this
      simp [canonOut, chainIntr, e1, e2, e3]
  · rw [h2]
    simp only [canonPar, canonChains]
    apply List.ext_getElem?
    intro c
    simp only [List.getElem?_mapIdx]
    cases chs[c]? with
    | none => rfl
    | some ch =>
      have := hobs c ch
      simp only [obs, Prod.mk.injEq] at this
      obtain ⟨_, e2, _, e4, e5, _⟩ := this
      simp [canonOut, chainIntr, e2, e4, e5]
  · rw [h1]
    simp only [canonPar]
    symm
    rw [List.any_eq_false]
    intro o ho
    simp only [canonOuts, List.mem_mapIdx] at ho
    obtain ⟨c, hc, rfl⟩ := ho
    simp [canonOut, chainIntr, chainRes_none_halted]

theorem canonPar_none_halted (K : Kernel S V A P) (st : Stage) (offset : Nat) (restore : Bool) (p : P)
    (chs : List (Chain S V)) : (canonPar K st offset none restore p chs).halted = false := by
  simp only [canonPar]
  rw [List.any_eq_false]
  intro o ho
  simp only [canonOuts, List.mem_mapIdx] at ho
  obtain ⟨c, hc, rfl⟩ := ho
  simp [canonOut, chainIntr, chainRes_none_halted]

theorem canonPar_chains_length (K : Kernel S V A P) (st : Stage) (offset : Nat)
    (intr : Option (Nat × Nat × Nat)) (restore : Bool) (p : P) (chs : List (Chain S V)) :
    (canonPar K st offset intr restore p chs).chains.length = chs.length := by
  simp [canonPar, canonChains]

theorem canonPar_outs_nil (K : Kernel S V A P) (st : Stage) (offset : Nat)
    (intr : Option (Nat × Nat × Nat)) (restore : Bool) (p : P) (chs : List (Chain S V)) :
    (canonPar K st offset intr restore p chs).outs = [] ↔ chs = [] := by
  simp [canonPar, canonOuts]

/-- `afterStage` only looks at the class of the accumulated parameters. -/
theorem afterStage_congr (K : Kernel S V A P) (E : Kind → P → P → Prop) (hE : AdaptLocal K E)
    (st : Stage) (sys : Sys S V P) (a b : Acc S V A P) (ho : a.outs = b.outs) (hc : a.chains = b.chains)
    (hh : a.halted = b.halted) (hp : E st.kind a.params b.params) (hhalt : a.halted = false)
    (hnil : a.outs = [] → a.params = b.params) :
    afterStage K st sys a = afterStage K st sys b := by
  unfold afterStage
  rw [← hh, hhalt]
  simp only [Bool.false_eq_true, if_false, ← ho, ← hc]
  by_cases hk : st.kind = .main
  · have : a.params = b.params := hE.main _ _ (hk ▸ hp)
    simp [hk, this]
  · by_cases hn : a.outs = []
    · -- no chains: nothing ran, the parameters are literally the same
      simp [hk, hn, hnil hn]
    · have hf := hE.fin st.kind (a.outs.map (·.adapt)) (a.outs.map (·.state)) a.params b.params
        (a.chains.map (·.rng)) hk hp
      simp [hk, hn, hf]

/-! ### run level: the result only depends on the stage table -/

/-- admissible execution mode of a stage for `n` chains: sequential, or parallel (current code:
generator hand-back) under a valid schedule -/
def ModeOK (n : Nat) : Mode → Prop
  | .seq => True
  | .par restore sched => restore = true ∧ ValidSched sched n

/-- one stage in canonical form: every chain run from the stage-start parameters -/
def canonStage (K : Kernel S V A P) (sys : Sys S V P) (st : Stage) : Sys S V P :=
  if st.n = 0 then sys
  else afterStage K st sys (canonPar K st sys.offset none true sys.params sys.chains)

theorem runStage0_canon (K : Kernel S V A P) (E : Kind → P → P → Prop) (hE : AdaptLocal K E)
    (sys : Sys S V P) (st : Stage) (m : Mode) (hs : sys.stopped = false)
    (hm : ModeOK sys.chains.length m) :
    runStage0 K sys (st, m) = canonStage K sys st := by
  unfold canonStage
  by_cases hn : st.n = 0
  · simp only [hn, if_true]; exact runStage0_skip K sys st m hn
  · simp only [hn, if_false]
    cases m with
    | seq =>
      rw [runStage0_seq K sys st hs hn]
      obtain ⟨h1, h2, h3, h4⟩ := stageSeq_canon K E hE st sys.offset sys.params sys.chains
      apply afterStage_congr K E hE st sys _ _ h1 h2 h3
      · exact hE.symm _ _ _ h4
      · exact (stageSeq_none K st sys.offset sys.params sys.chains).1
      · intro hnil
        rw [h1, canonPar_outs_nil] at hnil
        rw [hnil]; rfl
    | par restore sched =>
      obtain ⟨hr, hv⟩ := hm
      subst hr
      have : runStage0 K sys (st, Mode.par true sched) =
          afterStage K st sys (stagePar K st sys.offset none true sched sys.params sys.chains) := by
        simp [runStage0, Sampler.runStage, hs, hn]
      rw [this, stagePar_canon K E hE st sys.offset none true sched sys.params sys.chains hv
        (by intro _ _ _ h; cases h)]

theorem canonStage_inv (K : Kernel S V A P) (sys : Sys S V P) (st : Stage) (hs : sys.stopped = false) :
    (canonStage K sys st).stopped = false ∧ (canonStage K sys st).chains.length = sys.chains.length := by
  unfold canonStage
  by_cases hn : st.n = 0
  · simp [hn, hs]
  · simp only [hn, if_false]
    refine ⟨?_, ?_⟩
    · unfold afterStage
      simp [canonPar_none_halted]
    · rw [length_afterStage, canonPar_chains_length]

/-- **The outcome of a run is a function of the stage table only**: execution mode (sequential /
parallel), number of workers, assignment of chains to workers and delivery order are irrelevant. -/
theorem runStages_canon (K : Kernel S V A P) (E : Kind → P → P → Prop) (hE : AdaptLocal K E)
    (l : List (Stage × Mode)) (sys : Sys S V P) (hs : sys.stopped = false)
    (hm : ∀ sm ∈ l, ModeOK sys.chains.length sm.2) :
    runStages K none l sys = (l.map (·.1)).foldl (canonStage K) sys := by
  induction l generalizing sys with
  | nil => simp [runStages_none]
  | cons sm l ih =>
    obtain ⟨st, m⟩ := sm
    rw [runStages_none_cons, runStage0_canon K E hE sys st m hs (hm (st, m) List.mem_cons_self)]
    simp only [List.map_cons, List.foldl_cons]
    have hinv := canonStage_inv K sys st hs
    apply ih _ hinv.1
    intro sm' hsm'
    rw [hinv.2]
    exact hm sm' (List.mem_cons_of_mem _ hsm')

end MiciVerif.Sampler
