/-
C10 model: structural-induction lemmas, part B (`.inv` is a two-sided inverse, `WF` is preserved by
`.T` and `.inv`, `inv (inv e)` denotes `e`).
-/
import MiciVerif.Lemmas.MatricesExprA

set_option linter.unusedSectionVars false
set_option linter.unusedVariables false
set_option linter.unusedSimpArgs false

namespace MiciVerif.Matrices
open Matrix

namespace Sgn
variable {K : Type} [Field K]
@[simp] theorem val_mul_val (s : Sgn) : (s.val : K) * s.val = 1 := by cases s <;> simp [val]
@[simp] theorem val_flip (s : Sgn) : (s.flip.val : K) = -s.val := by cases s <;> simp [val, flip]
@[simp] theorem flip_flip (s : Sgn) : s.flip.flip = s := by cases s <;> rfl
theorem val_ne_zero (s : Sgn) : (s.val : K) ≠ 0 := by cases s <;> simp [val]
@[simp] theorem val_mul (s t : Sgn) : ((s.mul t).val : K) = s.val * t.val := by
  cases s <;> cases t <;> simp [val, mul]
end Sgn

namespace TriF
variable {K : Type} [Field K] {n : ℕ}
@[simp] theorem inv_inv (f : TriF n K) : f.inv.inv = f := by
  cases f; simp [inv]
theorem denote_inv_T_inv_T (f : TriF n K) : f.inv.T.inv.T.denote = f.denote := by
  cases f with
  | mk i l A X => cases i <;> simp [inv, T, denote]
theorem denote_inv_T_inv (f : TriF n K) : f.inv.T.inv.denote = f.denoteᵀ := by
  cases f with
  | mk i l A X => cases i <;> simp [inv, T, denote]
/-- `(s FFᵀ)⁻¹ = s F⁻ᵀF⁻¹` in checked form. -/
theorem factored_inv {f : TriF n K} (h : f.WF) (s : Sgn) :
    ((s.val : K) • (f.inv.T.denote * f.inv.T.denoteᵀ)) * ((s.val : K) • (f.denote * f.denoteᵀ)) = 1 := by
  have h1 := denote_inv_mul h
  have h2 := denote_mul_inv h
  rw [denote_T, Matrix.transpose_transpose, Matrix.smul_mul, Matrix.mul_smul, smul_smul,
    Sgn.val_mul_val, one_smul]
  calc f.inv.denoteᵀ * f.inv.denote * (f.denote * f.denoteᵀ)
      = f.inv.denoteᵀ * (f.inv.denote * f.denote) * f.denoteᵀ := by simp only [Matrix.mul_assoc]
    _ = 1 := by rw [h1, Matrix.mul_one, ← Matrix.transpose_mul, h2, Matrix.transpose_one]
end TriF

namespace MExpr
variable {K : Type} [Field K]

/-- What `.inv` has to satisfy. -/
structure Good {m n : ℕ} (e : MExpr K m n) : Prop where
  wf : WF (inv e)
  left : denote (inv e) * denote e = 1
  right : denote e * denote (inv e) = 1
  invinv : denote (inv (inv e)) = denote e

theorem diag_inv_mul {n : ℕ} {d : Fin n → K} (h : ∀ i, d i ≠ 0) :
    (Matrix.diagonal fun i => (d i)⁻¹) * Matrix.diagonal d = 1 := by
  rw [Matrix.diagonal_mul_diagonal]
  rw [← Matrix.diagonal_one]; congr 1; funext i; exact inv_mul_cancel₀ (h i)

theorem eig_inv_mul {n : ℕ} {Q : Mat n n K} {ev : Fin n → K} (hQ : Q * Qᵀ = 1) (h : ∀ i, ev i ≠ 0) :
    (Q * (Matrix.diagonal fun i => (ev i)⁻¹) * Qᵀ) * (Q * Matrix.diagonal ev * Qᵀ) = 1 := by
  have hQ' : Qᵀ * Q = 1 := mul_eq_one_comm.mp hQ
  calc (Q * (Matrix.diagonal fun i => (ev i)⁻¹) * Qᵀ) * (Q * Matrix.diagonal ev * Qᵀ)
      = Q * ((Matrix.diagonal fun i => (ev i)⁻¹) * ((Qᵀ * Q) * Matrix.diagonal ev)) * Qᵀ := by
        simp only [Matrix.mul_assoc]
    _ = 1 := by rw [hQ', Matrix.one_mul, diag_inv_mul h, Matrix.mul_one, hQ]

theorem good_lowRank {n k : ℕ} (kind : LRKind) (s : Sgn) (U : MExpr K n k) (V : MExpr K k n)
    (S : MExpr K n n) (Kin C : MExpr K k k) (h : WF (lowRank kind s U V S Kin C))
    (gS : Good S) (gK : Good Kin) (gC : Good C) (hTU : WF (T U)) :
    Good (lowRank kind s U V S Kin C) := by
  obtain ⟨hU, hV, hS, hK, hC, iS, iK, iC, hcap, hsym⟩ := h
  -- the right factor of the inverse denotes `V S⁻¹` for every kind
  have hV' : denote (lrInvRight kind V (T U) (inv S)) = denote V * denote (inv S) := by
    cases kind
    · simp [denote, lrInvRight]
    · rw [(hsym (by decide)).1]; simp [denote, denote_T U hU, lrInvRight]
    · rw [(hsym (by decide)).1]; simp [denote, denote_T U hU, lrInvRight]
  have hwfV' : WF (lrInvRight kind V (T U) (inv S)) := by
    cases kind <;> simp [WF, hV, hTU, gS.wf, lrInvRight]
  have hden : denote (inv (lowRank kind s U V S Kin C)) =
      denote (inv S) + (-(s.val : K)) • ((denote (inv S) * denote U) * denote (inv C) *
        (denote V * denote (inv S))) := by
    simp only [inv, denote, force_eq, hV', Sgn.val_flip]
  have hright : denote (lowRank kind s U V S Kin C) * denote (inv (lowRank kind s U V S Kin C)) = 1 := by
    rw [hden]
    simp only [denote, force_eq]
    exact woodbury_signed _ _ _ _ _ _ _ _ _ gS.right gK.right gC.right hcap
  have hcap' : denote (inv Kin) = denote (inv (inv C)) + (-(s.val : K)) •
      ((denote V * denote (inv S)) * denote (inv (inv S)) * (denote (inv S) * denote U)) := by
    rw [gC.invinv, gS.invinv]
    exact capacitance_of_inv _ _ _ _ _ _ _ gS.left hcap
  refine ⟨?_, mul_eq_one_comm.mp hright, hright, ?_⟩
  · -- WF of the inverse object
    simp only [inv, WF]
    refine ⟨⟨gS.wf, hU, by simp⟩, hwfV', gS.wf, gC.wf, gK.wf, IsInv_inv S iS, IsInv_inv C iC,
      IsInv_inv Kin iK, ?_, ?_⟩
    · rw [hV']; simp only [denote, force_eq, Sgn.val_flip]; exact hcap'
    · intro hk
      obtain ⟨hVU, hSs, hKs⟩ := hsym hk
      have hSis : (denote (inv S))ᵀ = denote (inv S) := inv_symm gS.right hSs
      have hKis : (denote (inv Kin))ᵀ = denote (inv Kin) := inv_symm gK.right hKs
      have hCs : (denote C)ᵀ = denote C := by
        rw [hcap]
        simp only [Matrix.transpose_add, Matrix.transpose_smul, Matrix.transpose_mul, hKis, hSis]
        rw [hVU, Matrix.transpose_transpose, Matrix.mul_assoc]
      refine ⟨?_, hSis, inv_symm gC.right hCs⟩
      rw [hV']
      simp only [denote, force_eq, Matrix.transpose_mul, hSis, hVU]
  · -- inverse of the inverse
    have hVT : denote (lrInvRight kind (lrInvRight kind V (T U) (inv S))
          (T (prod .plain (inv S) U)) (inv (inv S)))
        = denote V * denote (inv S) * denote S := by
      cases kind
      · simp [denote, gS.invinv, lrInvRight]
      · obtain ⟨hVU, hSs, hKs⟩ := hsym (by decide)
        have hSis : (denote (inv S))ᵀ = denote (inv S) := inv_symm gS.right hSs
        simp [denote, T, gS.invinv, denote_T U hU, denote_T (inv S) gS.wf, hSis, hVU, lrInvRight]
      · obtain ⟨hVU, hSs, hKs⟩ := hsym (by decide)
        have hSis : (denote (inv S))ᵀ = denote (inv S) := inv_symm gS.right hSs
        simp [denote, T, gS.invinv, denote_T U hU, denote_T (inv S) gS.wf, hSis, hVU, lrInvRight]
    simp only [inv, denote, force_eq, hVT, Sgn.flip_flip, gS.invinv, gK.invinv]
    congr 2
    calc denote S * (denote (inv S) * denote U) * denote Kin * (denote V * denote (inv S) * denote S)
        = (denote S * denote (inv S)) * denote U * denote Kin * denote V * (denote (inv S) * denote S) := by
          simp only [Matrix.mul_assoc]
      _ = denote U * denote Kin * denote V := by rw [gS.right, gS.left]; simp

theorem wfT_and_good {m n : ℕ} (e : MExpr K m n) (h : WF e) :
    WF (T e) ∧ (IsInv e → Good e) := by
  induction e with
  | identity n =>
    exact ⟨trivial, fun _ => ⟨trivial, by simp [inv, denote], by simp [inv, denote], rfl⟩⟩
  | scaledId n p c =>
    have hc : c ≠ 0 := h
    refine ⟨h, fun _ => ⟨?_, ?_, ?_, ?_⟩⟩
    · exact inv_ne_zero hc
    · simp [inv, denote, smul_smul, hc]
    · simp [inv, denote, smul_smul, hc]
    · simp [inv, denote]
  | diag p d =>
    have hd : ∀ i, d i ≠ 0 := h
    refine ⟨h, fun _ => ⟨?_, ?_, ?_, ?_⟩⟩
    · intro i; exact inv_ne_zero (hd i)
    · exact diag_inv_mul hd
    · exact mul_eq_one_comm.mp (diag_inv_mul hd)
    · simp [inv, denote]
  | tri f =>
    have hf : f.WF := h
    refine ⟨TriF.WF_T hf, fun _ => ⟨TriF.WF_inv hf, TriF.denote_inv_mul hf, TriF.denote_mul_inv hf, ?_⟩⟩
    simp [inv, denote]
  | triFact pd s f =>
    have hf : f.WF := h
    have h1 := TriF.factored_inv hf s
    refine ⟨h, fun _ => ⟨TriF.WF_T (TriF.WF_inv hf), ?_, ?_, ?_⟩⟩
    · simpa [inv, denote] using h1
    · simpa [inv, denote] using mul_eq_one_comm.mp h1
    · simp [inv, denote, TriF.denote_inv_T_inv]
  | denseDef pd s A f =>
    obtain ⟨hf, hA⟩ := h
    have h1 := TriF.factored_inv hf s
    refine ⟨⟨hf, hA⟩, fun _ => ⟨⟨TriF.WF_T (TriF.WF_inv hf), by simp⟩, ?_, ?_, ?_⟩⟩
    · simp only [inv, denote, force_eq]; rw [hA]; exact h1
    · simp only [inv, denote, force_eq]; rw [hA]; exact mul_eq_one_comm.mp h1
    · simp only [inv, denote, force_eq, TriF.denote_inv_T_inv_T]; exact hA.symm
  | lu inverse A X =>
    have hAX : A * X = 1 := h
    have hXA : X * A = 1 := mul_eq_one_comm.mp hAX
    refine ⟨?_, fun _ => ⟨hAX, ?_, ?_, ?_⟩⟩
    · show Aᵀ * Xᵀ = 1
      rw [← Matrix.transpose_mul, hXA, Matrix.transpose_one]
    · cases inverse <;> simp [inv, denote, hAX, hXA]
    · cases inverse <;> simp [inv, denote, hAX, hXA]
    · cases inverse <;> simp [inv, denote]
  | denseSym A Q ev =>
    obtain ⟨hQ, hA, hev⟩ := h
    have h1 := eig_inv_mul hQ hev
    refine ⟨⟨hQ, hA, hev⟩, fun _ => ⟨⟨hQ, fun i => inv_ne_zero (hev i)⟩, ?_, ?_, ?_⟩⟩
    · simp only [inv, denote, force_eq]; rw [hA]; exact h1
    · simp only [inv, denote, force_eq]; rw [hA]; exact mul_eq_one_comm.mp h1
    · simp only [inv, denote, force_eq, inv_inv]; exact hA.symm
  | orth Q =>
    have hQ : Q * Qᵀ = 1 := h
    have hQ' : Qᵀ * Q = 1 := mul_eq_one_comm.mp hQ
    refine ⟨?_, fun _ => ⟨?_, hQ', hQ, ?_⟩⟩
    · show Qᵀ * Qᵀᵀ = 1
      simpa using hQ'
    · show Qᵀ * Qᵀᵀ = 1
      simpa using hQ'
    · simp [inv, denote]
  | scaledOrth c Q =>
    obtain ⟨hc, hQ⟩ := h
    have hQ' : Qᵀ * Q = 1 := mul_eq_one_comm.mp hQ
    refine ⟨⟨hc, by simpa using hQ'⟩, fun _ => ⟨⟨inv_ne_zero hc, by simpa using hQ'⟩, ?_, ?_, ?_⟩⟩
    · simp [inv, denote, smul_smul, hc, hQ']
    · simp [inv, denote, smul_smul, hc, hQ]
    · simp [inv, denote]
  | eigSym pd Q ev =>
    obtain ⟨hQ, hev⟩ := h
    have h1 := eig_inv_mul hQ hev
    refine ⟨⟨hQ, hev⟩, fun _ => ⟨⟨hQ, fun i => inv_ne_zero (hev i)⟩, ?_, ?_, ?_⟩⟩
    · simpa only [inv, denote, force_eq] using h1
    · simpa only [inv, denote, force_eq] using mul_eq_one_comm.mp h1
    · simp only [inv, denote, force_eq, inv_inv]
  | rect A => exact ⟨trivial, fun hi => absurd hi (by simp [IsInv])⟩
  | blockDiag k a b iha ihb =>
    obtain ⟨ha, hb, hk⟩ := h
    obtain ⟨hTa, ga⟩ := iha ha
    obtain ⟨hTb, gb⟩ := ihb hb
    refine ⟨?_, fun hi => ?_⟩
    · cases k
      · exact ⟨hTa, hTb, by simp⟩
      · exact ⟨ha, hb, hk⟩
      · exact ⟨ha, hb, hk⟩
    · obtain ⟨ia, ib⟩ := hi
      have ga := ga ia
      have gb := gb ib
      refine ⟨⟨ga.wf, gb.wf, fun hk' => ⟨inv_symm ga.right (hk hk').1, inv_symm gb.right (hk hk').2⟩⟩,
        ?_, ?_, ?_⟩
      · simp [inv, denote, bdiag_mul_bdiag, ga.left, gb.left]
      · simp [inv, denote, bdiag_mul_bdiag, ga.right, gb.right]
      · simp [inv, denote, ga.invinv, gb.invinv]
  | blockRow a b iha ihb =>
    exact ⟨⟨(iha h.1).1, (ihb h.2).1⟩, fun hi => absurd hi (by simp [IsInv])⟩
  | blockCol a b iha ihb =>
    exact ⟨⟨(iha h.1).1, (ihb h.2).1⟩, fun hi => absurd hi (by simp [IsInv])⟩
  | prod pk a b iha ihb =>
    obtain ⟨ha, hb, hp⟩ := h
    obtain ⟨hTa, ga⟩ := iha ha
    obtain ⟨hTb, gb⟩ := ihb hb
    refine ⟨⟨hTb, hTa, fun hk => ⟨(hp hk).2.symm, (hp hk).1.symm⟩⟩, fun hi => ?_⟩
    obtain ⟨_, ia, ib⟩ := hi
    have ga := ga ia
    have gb := gb ib
    refine ⟨⟨gb.wf, ga.wf, fun hk => ⟨(hp hk).2.symm, (hp hk).1.symm⟩⟩, ?_, ?_, ?_⟩
    · simp only [inv, denote, force_eq]
      calc denote (inv b) * denote (inv a) * (denote a * denote b)
          = denote (inv b) * (denote (inv a) * denote a) * denote b := by simp only [Matrix.mul_assoc]
        _ = 1 := by rw [ga.left, Matrix.mul_one, gb.left]
    · simp only [inv, denote, force_eq]
      calc denote a * denote b * (denote (inv b) * denote (inv a))
          = denote a * (denote b * denote (inv b)) * denote (inv a) := by simp only [Matrix.mul_assoc]
        _ = 1 := by rw [gb.right, Matrix.mul_one, ga.right]
    · simp [inv, denote, ga.invinv, gb.invinv]
  | lowRank kind s U V S Kin C ihU ihV ihS ihK ihC =>
    have h' := h
    obtain ⟨hU, hV, hS, hK, hC, iS, iK, iC, hcap, hsym⟩ := h
    obtain ⟨hTU, _⟩ := ihU hU
    obtain ⟨hTV, _⟩ := ihV hV
    obtain ⟨hTS, gS⟩ := ihS hS
    obtain ⟨hTK, gK⟩ := ihK hK
    obtain ⟨hTC, gC⟩ := ihC hC
    have gS := gS iS
    have gK := gK iK
    have gC := gC iC
    refine ⟨?_, fun _ => good_lowRank kind s U V S Kin C h' gS gK gC hTU⟩
    cases kind
    · refine ⟨hTV, hTU, hTS, hTK, hTC, IsInv_T S iS, IsInv_T Kin iK, IsInv_T C iC, ?_, by simp⟩
      rw [inv_T_comm, inv_T_comm, denote_T C hC, denote_T (inv Kin) gK.wf, denote_T U hU,
        denote_T (inv S) gS.wf, denote_T V hV, hcap]
      simp only [Matrix.transpose_add, Matrix.transpose_smul, Matrix.transpose_mul, Matrix.mul_assoc]
    · exact h'
    · exact h'

theorem WF_T {m n : ℕ} (e : MExpr K m n) (h : WF e) : WF (T e) := (wfT_and_good e h).1
theorem good {m n : ℕ} (e : MExpr K m n) (h : WF e) (hi : IsInv e) : Good e := (wfT_and_good e h).2 hi

end MExpr
end MiciVerif.Matrices
