/-
Helper definitions and lemmas for `Props/C06.lean` (second-order accuracy of one integrator step).

* ordered elementary sums of a list in a non-commutative ring: `e1`, `e2`, `ordSum k`
  (product order = application order: later factors on the LEFT, as in `foldl`);
  `e2 us + e2 us.reverse = (e1 us)² − Σ uᵢ²`, hence `2 e2 = e1²` for palindromes of nilpotents.
* `stepProd ε us = Π (1 + ε • uᵢ)` (application order) and its expansion
  `1 + ε e1 + ε² e2 + ε³ rest ε`, `rest ε us = Σ_k ε^k • ordSum (k+3) us` (explicit polynomial in ε).
* `scaled`, `genList`: the list `cᵢ • Gᵢ` for `zip(coefficients, flows)` of
  `SymmetricCompositionIntegrator`; its `e1` is `GA + GB` by `sumAt_deriveCoeffs`.
* `symComp_act`, `mkSymComp_act`: if every flow acts as `x ↦ (1 + t • G) · x` then the
  composition acts as `stepProd`.
* matrices of the linear system `h = ½qᵀHq + ½pᵀNp`: `kickGen`, `driftGen`, `vfMat`, `stepMatrix`.
* `flowJet2`, `taylorRem`, `leapfrog_fst`, `leapfrog_snd`: the exact algebraic form of one leapfrog
  step for a NON-LINEAR potential gradient `g`.
-/
import MiciVerif.Model.Integrators
import MiciVerif.Model.IntegratorsTangent
import MiciVerif.Lemmas.IntegratorsCoeffs
import Mathlib.Algebra.Algebra.Defs
import Mathlib.Algebra.BigOperators.Intervals
import Mathlib.Algebra.BigOperators.Ring.Finset
import Mathlib.Algebra.BigOperators.GroupWithZero.Action
import Mathlib.Tactic.NoncommRing
import Mathlib.Tactic.Abel
import Mathlib.Tactic.Module
import Mathlib.Tactic.LinearCombination
import Mathlib.Tactic.FieldSimp
import Mathlib.Tactic.NormNum
import Mathlib.Algebra.Module.LinearMap.Defs

namespace MiciVerif.Integrators.Jets
open MiciVerif.Integrators

section Ring
variable {K R : Type*} [CommRing K] [Ring R] [Algebra K R]

/-- `Σ uᵢ`. -/
def e1 (us : List R) : R := us.sum

/-- `Σ_{i<j} uⱼ * uᵢ` (the later element on the left). -/
def e2 : List R → R
  | [] => 0
  | u :: us => e2 us + e1 us * u

/-- `Σ uᵢ * uᵢ`. -/
def sumSq (us : List R) : R := (us.map (fun u => u * u)).sum

/-- `k`-th ordered elementary sum `Σ_{i₁<…<i_k} u_{i_k} * … * u_{i₁}`. -/
def ordSum : ℕ → List R → R
  | 0, _ => 1
  | _ + 1, [] => 0
  | k + 1, u :: us => ordSum (k + 1) us + ordSum k us * u

/-- `(1 + ε • u_last) * … * (1 + ε • u_first)`: the product in application order. -/
def stepProd (ε : K) : List R → R
  | [] => 1
  | u :: us => stepProd ε us * (1 + ε • u)

/-- The tail of the expansion of `stepProd`: an explicit polynomial in `ε` whose coefficients
`ordSum (k + 3) us` do not depend on `ε`. -/
def rest (ε : K) (us : List R) : R :=
  ∑ k ∈ Finset.range us.length, ε ^ k • ordSum (k + 3) us

@[simp] theorem e1_nil : e1 ([] : List R) = 0 := rfl
@[simp] theorem e1_cons (u : R) (us : List R) : e1 (u :: us) = u + e1 us := by simp [e1]
theorem e1_append (l m : List R) : e1 (l ++ m) = e1 l + e1 m := by simp [e1]
theorem e1_reverse (l : List R) : e1 l.reverse = e1 l := by simp [e1]

theorem e2_append (l m : List R) : e2 (l ++ m) = e2 l + e2 m + e1 m * e1 l := by
  induction l with
  | nil => simp [e2]
  | cons u l ih =>
    rw [List.cons_append, e2, e2, ih, e1_append, e1_cons]
    noncomm_ring

theorem e2_add_e2_reverse (us : List R) :
    e2 us + e2 us.reverse = e1 us ^ 2 - sumSq us := by
  induction us with
  | nil => simp [e2, sumSq]
  | cons u us ih =>
    have h : e2 us.reverse = e1 us ^ 2 - sumSq us - e2 us := by rw [← ih]; abel
    rw [List.reverse_cons, e2_append, e2, h, e1_reverse, e1_cons]
    simp only [e2, e1_cons, e1_nil, sumSq, List.map_cons, List.sum_cons]
    noncomm_ring

theorem sumSq_eq_zero (us : List R) (h : ∀ u ∈ us, u * u = 0) : sumSq us = 0 := by
  induction us with
  | nil => rfl
  | cons u us ih =>
    simp only [sumSq, List.map_cons, List.sum_cons] at ih ⊢
    rw [h u List.mem_cons_self, ih (fun v hv => h v (List.mem_cons_of_mem _ hv)), add_zero]

theorem e2_palindrome (us : List R) (hp : us.reverse = us) (h : ∀ u ∈ us, u * u = 0) :
    e2 us + e2 us = e1 us ^ 2 := by
  have := e2_add_e2_reverse us
  rwa [hp, sumSq_eq_zero us h, sub_zero] at this

theorem ordSum_one (us : List R) : ordSum 1 us = e1 us := by
  induction us with
  | nil => rfl
  | cons u us ih => rw [ordSum, ih, e1_cons, ordSum, one_mul, add_comm]

theorem ordSum_two (us : List R) : ordSum 2 us = e2 us := by
  induction us with
  | nil => rfl
  | cons u us ih => rw [ordSum, ih, ordSum_one, e2]

theorem stepProd_eq_sum (ε : K) (us : List R) (m : ℕ) (h : us.length ≤ m) :
    stepProd ε us = ∑ k ∈ Finset.range (m + 1), ε ^ k • ordSum k us := by
  induction us generalizing m with
  | nil =>
    rw [Finset.sum_range_succ']
    simp [stepProd, ordSum]
  | cons u us ih =>
    obtain ⟨m, rfl⟩ : ∃ m', m = m' + 1 := ⟨m - 1, by simp at h; omega⟩
    have h' : us.length ≤ m := by simpa using h
    have A := ih (m + 1) (by omega)
    have B := ih m h'
    rw [Finset.sum_range_succ'] at A ⊢
    simp only [ordSum] at A ⊢
    rw [stepProd, mul_add, mul_one]
    nth_rewrite 1 [A]
    rw [B, Finset.sum_mul]
    simp only [smul_add, Finset.sum_add_distrib, smul_mul_smul_comm, pow_succ]
    abel

theorem stepProd_expand (ε : K) (us : List R) :
    stepProd ε us = 1 + ε • e1 us + ε ^ 2 • e2 us + ε ^ 3 • rest ε us := by
  rw [stepProd_eq_sum ε us (us.length + 2) (by omega), Finset.sum_range_succ',
    Finset.sum_range_succ', Finset.sum_range_succ', rest, Finset.smul_sum]
  simp only [ordSum, smul_smul, ← pow_add]
  simp only [zero_add, pow_zero, one_smul, pow_one, Nat.reduceAdd, add_assoc, add_comm (3 : ℕ)]
  rw [ordSum_one, ordSum_two]
  abel

theorem stepProd_foldl (ε : K) (us : List R) (P : R) :
    us.foldl (fun P u => (1 + ε • u) * P) P = stepProd ε us * P := by
  induction us generalizing P with
  | nil => simp [stepProd]
  | cons u us ih => rw [List.foldl_cons, ih, stepProd, mul_assoc]

/-! ### coefficient-scaled generator lists -/

/-- `[c • G for c, G in zip(cs, gs)]`. -/
def scaled (cs : List K) (gs : List R) : List R := (cs.zip gs).map (fun cg => cg.1 • cg.2)

@[simp] theorem scaled_nil_left (gs : List R) : scaled ([] : List K) gs = [] := rfl
@[simp] theorem scaled_nil_right (cs : List K) : scaled cs ([] : List R) = [] := by simp [scaled]
@[simp] theorem scaled_cons (c : K) (cs : List K) (g : R) (gs : List R) :
    scaled (c :: cs) (g :: gs) = c • g :: scaled cs gs := rfl

theorem scaled_reverse (cs : List K) (gs : List R) (h : cs.length = gs.length) :
    (scaled cs gs).reverse = scaled cs.reverse gs.reverse := by
  rw [scaled, ← List.map_reverse, reverse_zip_of_length_eq _ _ h, scaled]

/-- Select by tag: `true ↦ a`, `false ↦ b`. -/
def pick {α : Type*} (a b : α) (t : Bool) : α := if t then a else b

theorem scaled_sq_zero (GA GB : R) (hA : GA * GA = 0) (hB : GB * GB = 0) (cs : List K)
    (tags : List Bool) : ∀ u ∈ scaled cs (tags.map (pick GA GB)), u * u = 0 := by
  intro u hu
  simp only [scaled, List.mem_map] at hu
  obtain ⟨⟨c, g⟩, hmem, rfl⟩ := hu
  have hg := (List.of_mem_zip hmem).2
  simp only [List.mem_map] at hg
  obtain ⟨t, -, rfl⟩ := hg
  cases t <;> simp [pick, hA, hB]

theorem e1_scaled_alt (GA GB : R) (cs : List K) (b : Bool) (k : ℕ) (h : cs.length ≤ k) :
    e1 (scaled cs ((altTags b k).map (pick GA GB))) = sumAt b cs • GA + sumAt (!b) cs • GB := by
  induction cs generalizing b k with
  | nil => simp [sumAt]
  | cons a cs ih =>
    cases k with
    | zero => simp at h
    | succ k =>
      have h' : cs.length ≤ k := by simpa using h
      simp only [altTags, List.map_cons, scaled_cons, e1_cons, ih (!b) k h', sumAt]
      cases b <;> simp [pick, add_smul] <;> abel

end Ring

theorem map_flowsList {F G : Type*} (f : F → G) (a b : F) (n : ℕ) :
    (flowsList a b n).map f = flowsList (f a) (f b) n := by
  induction n with
  | zero => simp [flowsList_zero]
  | succ n ih => rw [flowsList_cons, flowsList_cons, List.map_cons, List.map_cons, ih]

theorem flowsList_pick {F : Type*} (a b : F) (n : ℕ) :
    flowsList a b n = (altTags true (2 * n + 3)).map (pick a b) := by
  rw [← flowsList_tags, map_flowsList]; rfl

section Field
variable {K R : Type*} [Field K] [Ring R] [Algebra K R]

theorem deriveCoeffs_length' (free : List K) : (deriveCoeffs free).length = 2 * free.length + 3 := by
  rw [deriveCoeffs_eq]; simp; omega

theorem deriveCoeffs_reverse' (free : List K) : (deriveCoeffs free).reverse = deriveCoeffs free := by
  rw [deriveCoeffs_eq]; simp

/-- The generator list of a symmetric composition: `c_i • G_i` in application order. -/
def genList (GA GB : R) (free : List K) : List R :=
  scaled (deriveCoeffs free) (flowsList GA GB free.length)

theorem genList_reverse (GA GB : R) (free : List K) :
    (genList GA GB free).reverse = genList GA GB free := by
  rw [genList, scaled_reverse _ _ (by rw [deriveCoeffs_length', flowsList_length]),
    deriveCoeffs_reverse', flowsList_reverse]

theorem genList_sq_zero (GA GB : R) (hA : GA * GA = 0) (hB : GB * GB = 0) (free : List K) :
    ∀ u ∈ genList GA GB free, u * u = 0 := by
  rw [genList, flowsList_pick]
  exact scaled_sq_zero GA GB hA hB _ _

theorem e1_genList (h2 : (2 : K) ≠ 0) (GA GB : R) (free : List K) :
    e1 (genList GA GB free) = GA + GB := by
  rw [genList, flowsList_pick, e1_scaled_alt _ _ _ _ _ (by rw [deriveCoeffs_length']),
    sumAt_deriveCoeffs _ h2, sumAt_deriveCoeffs _ h2, one_smul, one_smul]

theorem e2_genList (h2 : (2 : K) ≠ 0) (GA GB : R) (hA : GA * GA = 0) (hB : GB * GB = 0)
    (free : List K) : e2 (genList GA GB free) = (1 / 2 : K) • (GA + GB) ^ 2 := by
  have h := e2_palindrome _ (genList_reverse GA GB free) (genList_sq_zero GA GB hA hB free)
  rw [e1_genList h2] at h
  rw [← h, ← two_smul K, smul_smul, one_div, inv_mul_cancel₀ h2, one_smul]

/-- Every symmetric composition of two nilpotent generators agrees with `exp(ε (GA + GB))` through
second order. -/
theorem stepProd_genList (h2 : (2 : K) ≠ 0) (GA GB : R) (hA : GA * GA = 0) (hB : GB * GB = 0)
    (free : List K) (ε : K) :
    stepProd ε (genList GA GB free) =
      1 + ε • (GA + GB) + (ε ^ 2 / 2) • (GA + GB) ^ 2 + ε ^ 3 • rest ε (genList GA GB free) := by
  rw [stepProd_expand, e1_genList h2, e2_genList h2 GA GB hA hB, smul_smul]
  congr 3
  ring

/-! ### link to `symComp`: flows that act through `1 + t • G` -/

theorem symComp_act {X : Type*} (act : R → X → X) (hmul : ∀ A B x, act (A * B) x = act A (act B x))
    (hone : ∀ x, act 1 x = x) (GA GB : R) (fA fB : K → X → X)
    (hA : ∀ t x, fA t x = act (1 + t • GA) x) (hB : ∀ t x, fB t x = act (1 + t • GB) x)
    (cs : List K) (tags : List Bool) (ε : K) (x : X) :
    symComp cs (tags.map (pick fA fB)) ε x =
      act (stepProd ε (scaled cs (tags.map (pick GA GB)))) x := by
  induction cs generalizing tags x with
  | nil => simp [symComp, stepProd, hone]
  | cons c cs ih =>
    cases tags with
    | nil => simp [symComp, stepProd, hone]
    | cons t tags =>
      have step : symComp (c :: cs) ((t :: tags).map (pick fA fB)) ε x =
          symComp cs (tags.map (pick fA fB)) ε (pick fA fB t (c * ε) x) := rfl
      rw [step, ih, List.map_cons, scaled_cons, stepProd, hmul]
      congr 1
      cases t
      · simp only [pick, Bool.false_eq_true, if_false, hB, smul_smul, mul_comm ε c]
      · simp only [pick, if_true, hA, smul_smul, mul_comm ε c]

theorem mkSymComp_act {X : Type*} (act : R → X → X)
    (hmul : ∀ A B x, act (A * B) x = act A (act B x)) (hone : ∀ x, act 1 x = x) (G1 G2 : R)
    (f1 f2 : K → X → X) (h1 : ∀ t x, f1 t x = act (1 + t • G1) x)
    (h2 : ∀ t x, f2 t x = act (1 + t • G2) x) (free : List K) (initialH1 : Bool) (ε : K) (x : X) :
    (mkSymComp f1 f2 free initialH1).stepT ε x =
      act (stepProd ε (genList (pick G1 G2 initialH1) (pick G2 G1 initialH1) free)) x := by
  unfold SymCompIntegrator.stepT mkSymComp genList
  cases initialH1
  · simp only [pick, Bool.false_eq_true, if_false]
    rw [flowsList_pick f2 f1, flowsList_pick G2 G1]
    exact symComp_act act hmul hone G2 G1 f2 f1 h2 h1 _ _ ε x
  · simp only [pick, if_true]
    rw [flowsList_pick f1 f2, flowsList_pick G1 G2]
    exact symComp_act act hmul hone G1 G2 f1 f2 h1 h2 _ _ ε x

end Field

/-! ### matrices of linear Hamiltonian systems `h = ½ qᵀHq + ½ pᵀNp` -/

section Matrix
open Matrix
variable {K : Type*} [Field K] {n : ℕ}

/-- Generator of the kick: `d/dt (q, p) = (0, −H q)`. -/
def kickGen (H : Mat n K) : Mat2 n K := fromBlocks 0 0 (-H) 0
/-- Generator of the drift: `d/dt (q, p) = (N p, 0)`. -/
def driftGen (N : Mat n K) : Mat2 n K := fromBlocks 0 N 0 0
/-- Matrix of the Hamiltonian vector field `(q, p) ↦ (N p, −H q)`. -/
def vfMat (H N : Mat n K) : Mat2 n K := fromBlocks 0 N (-H) 0

theorem kickGen_add_driftGen (H N : Mat n K) : kickGen H + driftGen N = vfMat H N := by
  simp [kickGen, driftGen, vfMat, fromBlocks_add]

theorem kickGen_sq (H : Mat n K) : kickGen H * kickGen H = 0 := by
  simp [kickGen, fromBlocks_multiply]

theorem driftGen_sq (N : Mat n K) : driftGen N * driftGen N = 0 := by
  simp [driftGen, fromBlocks_multiply]

theorem one_add_smul_kickGen (t : K) (H : Mat n K) : 1 + t • kickGen H = kickJac t H := by
  rw [kickGen, kickJac, ← fromBlocks_one, fromBlocks_smul, fromBlocks_add]
  simp

theorem one_add_smul_driftGen (t : K) (N : Mat n K) : 1 + t • driftGen N = driftJac t N := by
  rw [driftGen, driftJac, ← fromBlocks_one, fromBlocks_smul, fromBlocks_add]
  simp

omit [Field K] in
theorem pack_unpack_jets (v : Fin n ⊕ Fin n → K) : pack (unpack v) = v := by
  funext i; rcases i with i | i <;> rfl

theorem kick_eq_mulVec (H : Mat n K) (t : K) (x : Phase n K) :
    kick H.mulVec t x = unpack ((kickJac t H).mulVec (pack x)) := by
  rw [kickJac, pack, fromBlocks_mulVec]
  ext i <;> simp [kick, unpack, neg_mulVec, smul_mulVec, sub_eq_add_neg, add_comm]

theorem drift_eq_mulVec (N : Mat n K) (t : K) (x : Phase n K) :
    drift N.mulVec t x = unpack ((driftJac t N).mulVec (pack x)) := by
  rw [driftJac, pack, fromBlocks_mulVec]
  ext i <;> simp [drift, unpack, smul_mulVec]

theorem vfMat_mulVec (H N : Mat n K) (x : Phase n K) :
    (vfMat H N).mulVec (pack x) = pack (N.mulVec x.2, -(H.mulVec x.1)) := by
  rw [vfMat, pack, fromBlocks_mulVec]
  simp [pack, neg_mulVec]

/-- The step matrix: `SymmetricCompositionIntegrator.__init__`/`_step` run on the matrix-valued
flows `P ↦ kickJac t H * P`, `P ↦ driftJac t N * P`, started at the identity. -/
def stepMatrix (H N : Mat n K) (free : List K) (initialH1 : Bool) (ε : K) : Mat2 n K :=
  (mkSymComp (fun t P => kickJac t H * P) (fun t P => driftJac t N * P) free initialH1).stepT ε 1

/-- The list `c_i • G_i` of scaled generators in application order. -/
def stepGens (H N : Mat n K) (free : List K) (initialH1 : Bool) : List (Mat2 n K) :=
  genList (pick (kickGen H) (driftGen N) initialH1) (pick (driftGen N) (kickGen H) initialH1) free

theorem stepMatrix_eq_stepProd (H N : Mat n K) (free : List K) (initialH1 : Bool) (ε : K) :
    stepMatrix H N free initialH1 ε = stepProd ε (stepGens H N free initialH1) := by
  rw [stepMatrix, mkSymComp_act (fun A P => A * P) (fun A B x => mul_assoc A B x) one_mul
    (kickGen H) (driftGen N) _ _ (fun t P => by rw [one_add_smul_kickGen])
    (fun t P => by rw [one_add_smul_driftGen]), mul_one, stepGens]

theorem stepT_eq_stepProd_mulVec (H N : Mat n K) (free : List K) (initialH1 : Bool) (ε : K)
    (x : Phase n K) :
    (mkSymComp (kick H.mulVec) (drift N.mulVec) free initialH1).stepT ε x =
      unpack ((stepProd ε (stepGens H N free initialH1)).mulVec (pack x)) := by
  rw [mkSymComp_act (fun (A : Mat2 n K) (x : Phase n K) => unpack (A.mulVec (pack x)))
    (fun A B x => by simp only [pack_unpack_jets, mulVec_mulVec])
    (fun x => by simp only [one_mulVec]; rfl)
    (kickGen H) (driftGen N) _ _ (fun t x => by rw [one_add_smul_kickGen, kick_eq_mulVec])
    (fun t x => by rw [one_add_smul_driftGen, drift_eq_mulVec]), stepGens]

theorem stepGens_e1 (h2 : (2 : K) ≠ 0) (H N : Mat n K) (free : List K) (initialH1 : Bool) :
    e1 (stepGens H N free initialH1) = vfMat H N := by
  rw [stepGens, e1_genList h2, ← kickGen_add_driftGen]
  cases initialH1 <;> simp [pick, add_comm]

end Matrix

/-! ### one leapfrog step, non-linear potential -/

section Jets
variable {K V : Type*} [Field K] [AddCommGroup V] [Module K V]

/-- Second-order Taylor remainder of `g` at `q` with candidate derivative `H`:
`g (q + δ) − g q − H δ`. -/
def taylorRem (g : V → V) (H : V →ₗ[K] V) (q δ : V) : V := g (q + δ) - g q - H δ

/-- Position displacement of one leapfrog step: `ε N p − ½ε² N g(q)`. -/
def leapfrogDisp (N : V →ₗ[K] V) (g : V → V) (ε : K) (x : V × V) : V :=
  ε • N x.2 - (ε ^ 2 / 2) • N (g x.1)

/-- The 2-jet `x + ε f(x) + ½ε² (f′f)(x)` of the exact flow of `q̇ = N p`, `ṗ = −g(q)`
(`q̈ = −N g(q)`, `p̈ = −Dg(q) N p` with `H = Dg(q)`). -/
def flowJet2 (N H : V →ₗ[K] V) (g : V → V) (ε : K) (x : V × V) : V × V :=
  (x.1 + ε • N x.2 - (ε ^ 2 / 2) • N (g x.1), x.2 - ε • g x.1 - (ε ^ 2 / 2) • H (N x.2))

theorem leapfrog_fst (N : V →ₗ[K] V) (g : V → V) (ε : K) (q p : V) :
    (leapfrog (kick g) (drift N) ε (q, p)).1 = q + ε • N p - (ε ^ 2 / 2) • N (g q) := by
  simp only [leapfrog, kick, drift, map_sub, map_smul]
  module

theorem half_add_half (h2 : (2 : K) ≠ 0) : (1 / 2 : K) + 1 / 2 = 1 := by
  field_simp; norm_num

theorem leapfrog_snd (h2 : (2 : K) ≠ 0) (N H : V →ₗ[K] V) (g : V → V) (ε : K) (q p : V) :
    (leapfrog (kick g) (drift N) ε (q, p)).2 =
      p - ε • g q - (ε ^ 2 / 2) • H (N p) + (ε ^ 3 / 4) • H (N (g q))
        - (ε / 2) • (g (q + (ε • N p - (ε ^ 2 / 2) • N (g q))) - g q
            - H (ε • N p - (ε ^ 2 / 2) • N (g q))) := by
  have hq := leapfrog_fst N g ε q p
  have h2' : (leapfrog (kick g) (drift N) ε (q, p)).2 =
      p - (1 / 2 * ε) • g q - (1 / 2 * ε) • g (leapfrog (kick g) (drift N) ε (q, p)).1 := rfl
  rw [h2', hq, add_sub_assoc]
  simp only [map_sub, map_smul]
  have hh := half_add_half h2
  have h4 : ε ^ 3 / 4 = ε ^ 3 / 2 / 2 := by rw [div_div]; norm_num
  rw [h4]
  linear_combination (norm := module) (-ε) • hh • g q

end Jets

end MiciVerif.Integrators.Jets
