/-
Control-flow vocabulary of the definitions generated from `mici/adapters.py`
(`Generated/AdaptersSrc.lean` imports this file).  The translator (`tools/extractors/pysrc.py`)
emits the *bodies* of loops as Lean functions and the loop statements themselves as applications
of the combinators below (one combinator per Python loop shape):

* `mergeLoop3` / `mergeLoop4` — `for i, adapt_state in enumerate(adapt_states): if i == 0: FIRST
  else: STEP` over accumulators `(n_iter, mean_est, est)` / `(n_iter, mean_est[a], mean_est[b], est)`;
* `searchFor` — `for s in range(N): try: TRY except IntegratorError: EXCEPT` followed by a `raise`,
  on the exponent `e` of the step size `2^e` (`TRY` / `EXCEPT` as the Boolean functions generated
  from the loop body: return now?, new `step_size_too_big`, halve (else double));
* `pyMin` — the builtin `min` of a list (`ValueError` for an empty list: `none`).

Core Lean only.
-/
import MiciVerif.Model.Adapters

namespace MiciVerif.PySrcAdapters
open MiciVerif.Adapters

section
variable {K : Type}

/-- The loop over `adapt_states` of `OnlineVarianceMetricAdapter.finalize`. -/
def mergeLoop3 (first : CState K → Nat × K × K) (step : CState K → CState K → Nat × K × K) :
    List (CState K) → Option (Nat × K × K)
  | [] => none
  | s0 :: rest =>
    some (rest.foldl (fun acc s => step ⟨acc.1, acc.2.1, acc.2.1, acc.2.2, false⟩ s) (first s0))

/-- The loop over `adapt_states` of `OnlineCovarianceMetricAdapter.finalize`. -/
def mergeLoop4 (first : CState K → Nat × K × K × K)
    (step : CState K → CState K → Nat × K × K × K) : List (CState K) → Option (Nat × K × K × K)
  | [] => none
  | s0 :: rest =>
    some (rest.foldl (fun acc s => step ⟨acc.1, acc.2.1, acc.2.2.1, acc.2.2.2, false⟩ s) (first s0))

end

section
variable {K : Type} [LT K] [LE K] [DecidableLT K] [DecidableLE K]

/-- What `np.isnan(delta_h)`, `delta_h > delta_h_threshold`, `delta_h <= delta_h_threshold`
evaluate to for each outcome of the trial step (`none`: the step raised `IntegratorError`). -/
def tests (thr : K) : Outcome K → Option (Bool × Bool × Bool)
  | .err => none
  | .nan => some (true, false, false)
  | .inf => some (false, true, false)
  | .val q => some (false, decide (thr < q), decide (q ≤ thr))

/-- `for s in range(fuel): try: … except IntegratorError: …` and then `raise AdaptationError`
(`exhausted`), around a loop body given as Boolean functions; `first` is `s == 0`. -/
def searchFor (tryB : Bool → Bool → Bool → Bool → Bool → Bool × Bool × Bool)
    (exceptB : Bool → Bool × Bool) (exhausted : AdaptErr) (dH : Int → Outcome K) (thr : K) :
    Nat → Bool → Int → Bool → Except AdaptErr Int
  | 0, _, _, _ => .error exhausted
  | fuel + 1, first, e, tooBig =>
    match tests thr (dH e) with
    | none =>
      let r := exceptB tooBig
      searchFor tryB exceptB exhausted dH thr fuel false (if r.2 then e - 1 else e + 1) r.1
    | some t =>
      let r := tryB first t.1 t.2.1 t.2.2 tooBig
      if r.1 then .ok e
      else searchFor tryB exceptB exhausted dH thr fuel false (if r.2.2 then e - 1 else e + 1) r.2.1

end

section
variable {K : Type} [Min K]

/-- Python's `min(xs)` of a list. -/
def pyMin : List K → Option K
  | [] => none
  | x :: xs => some (xs.foldl min x)

end

end MiciVerif.PySrcAdapters
