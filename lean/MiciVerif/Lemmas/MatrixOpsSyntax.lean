/-
C10 / C11 — table types for the generated class-algebra table of `mici.matrices`
(`Generated/MatrixOps.lean`, written by tools/extractors/matrix_ops.py): a small symbolic
expression language for Python method bodies (`SExpr`), one `Method` per effective method body
(branch conditions + returned expression, locals inlined, `super()` calls and `type(self)`
resolved along the MRO of the concrete class), one `ClassOps` per class of the module.

Core Lean only (no Mathlib).  The *meaning* of the symbolic expressions is given by the evaluators
in `Lemmas/MatrixOpsEval.lean` (C10S) and `Lemmas/MatrixOpsGrad.lean` (C11S).
-/

namespace MiciVerif.MatrixOps

/-- Python expressions as they occur in the bodies of the matrix classes.  Argument lists are
`nil` / `cons` / `kw` chains (no nested `List`, so equality is derivable and recursion structural). -/
inductive SExpr
  /-- `self` -/
  | self
  /-- `None` -/
  | none
  /-- `True` / `False` -/
  | tt
  | ff
  /-- a formal parameter of the method (`scalar`, `vector`, `other`) or a comprehension variable -/
  | var (x : String)
  /-- integer literal, or a float literal with integral value (`1.0`) -/
  | num (n : Nat)
  /-- any other float literal as an exact fraction (`0.5 = rat 1 2`) -/
  | rat (n d : Nat)
  /-- `e.a` -/
  | attr (e : SExpr) (a : String)
  | neg (e : SExpr)
  | lnot (e : SExpr)
  | add (a b : SExpr)
  | sub (a b : SExpr)
  | mul (a b : SExpr)
  | div (a b : SExpr)
  | matmul (a b : SExpr)
  | pow (a b : SExpr)
  /-- comparison `a op b`, `op ∈ {">", ">=", "<", "<=", "==", "!=", "is", "is not", "in", "not in"}` -/
  | cmp (op : String) (a b : SExpr)
  | and (a b : SExpr)
  | or (a b : SExpr)
  /-- `a if c else b` -/
  | ite (c a b : SExpr)
  /-- `fn(args)`; `fn` is the dotted source name (`np.sign`, `abs`, a class name; `type(self)` is
  resolved to the name of the class the entry belongs to) -/
  | call (fn : String) (args : SExpr)
  /-- `obj.meth(args)` -/
  | mcall (obj : SExpr) (meth : String) (args : SExpr)
  | nil
  | cons (a rest : SExpr)
  /-- keyword argument `k=v` -/
  | kw (k : String) (v rest : SExpr)
  /-- `(a, b, …)` -/
  | tuple (elems : SExpr)
  /-- `*e` -/
  | star (e : SExpr)
  /-- `(body for v in iter)` (generator / list comprehension, one `for`, no `if`); `v` is the
  comma-joined target names -/
  | gen (body : SExpr) (v : String) (iter : SExpr)
  /-- `e[i]` -/
  | index (e i : SExpr)
  /-- `for v in iter: acc = body` (a loop whose body is one plain assignment): the value of `acc`
  after the loop, i.e. the left fold of `fun acc v => body` over `iter` starting from `init`
  (inside `body` the accumulator is `var acc`, the loop variable(s) `var v`) -/
  | fold (body : SExpr) (acc : String) (v : String) (iter init : SExpr)
  /-- the local array `a` after the item assignment `a[idx] = v` (only emitted for a local that
  holds the result of an arithmetic expression and that no other name can alias) -/
  | setitem (a idx v : SExpr)
  /-- the path ends in `raise` -/
  | raise
  /-- fail closed: a shape the translator does not represent -/
  | unknown (why : String)
  deriving DecidableEq, Repr

/-- One path through a method body. -/
structure Branch where
  /-- conjunction of the `if` conditions taken / not taken along the path (`tt` if none) -/
  cond : SExpr
  /-- returned expression (`raise` if the path raises, `none` if it falls off the end) -/
  ret : SExpr
  deriving DecidableEq, Repr

/-- The effective body of one method / property for one concrete class. -/
structure Method where
  name : String
  /-- class along the MRO whose (non-abstract) definition is the effective one; `""` if none -/
  definedIn : String
  /-- `"method"`, `"property"`, `"abstract"` (only an `abc.abstractmethod` stub found), `"missing"` -/
  kind : String
  branches : List Branch
  /-- fail closed: some statement / expression shape was not represented -/
  unknown : Bool
  unknownWhy : String
  deriving DecidableEq, Repr

structure ClassOps where
  name : String
  /-- some abstract method is not overridden along the MRO -/
  abstract : Bool
  /-- C3 linearisation restricted to the classes of the module -/
  mro : List String
  /-- the operator / lazy-cache wrappers (`__mul__`, `__rmul__`, `__truediv__`, `__neg__`,
  `__matmul__`, `__rmatmul__`, `transpose`, `inv`, `sqrt`) with the class whose definition is the
  effective one (`""` if the class has none) -/
  wrappers : List (String × String)
  /-- concrete classes: the effective body of every operation of interest; abstract classes: the
  bodies of the wrappers they define themselves -/
  methods : List Method
  deriving DecidableEq, Repr

def findClass (tbl : List ClassOps) (c : String) : Option ClassOps := tbl.find? fun e => e.name == c

def ClassOps.method (e : ClassOps) (m : String) : Option Method := e.methods.find? fun x => x.name == m

/-- `isinstance(obj_of_class_c, base)` according to the extracted MRO. -/
def isSub (tbl : List ClassOps) (c base : String) : Bool :=
  match findClass tbl c with
  | some e => e.mro.contains base
  | Option.none => false

/-- Effective method `m` of class `c`, only if it was fully represented. -/
def lookup (tbl : List ClassOps) (c m : String) : Option Method :=
  match findClass tbl c with
  | some e =>
    match e.method m with
    | some x => if x.unknown then Option.none else some x
    | Option.none => Option.none
  | Option.none => Option.none

namespace SExpr

/-- `i`-th positional argument of an argument chain. -/
def arg : SExpr → Nat → Option SExpr
  | cons a _, 0 => some a
  | cons _ r, i + 1 => arg r i
  | kw _ _ r, i => arg r i
  | _, _ => Option.none

/-- keyword argument `k` of an argument chain. -/
def kwarg : SExpr → String → Option SExpr
  | cons _ r, k => kwarg r k
  | kw k' v r, k => if k' == k then some v else kwarg r k
  | _, _ => Option.none

/-- positional-or-keyword argument: position `i`, or keyword `k`. -/
def argOr (args : SExpr) (i : Nat) (k : String) : Option SExpr :=
  match kwarg args k with
  | some v => some v
  | Option.none => arg args i

end SExpr

end MiciVerif.MatrixOps
