/-
C10S — class-level reading of the generated class-algebra table (`Generated/MatrixOps.lean`):
which Python class an operation returns on which branch.  Generic over the table; core Lean only.
-/
import MiciVerif.Lemmas.MatrixOpsSyntax

namespace MiciVerif.MatrixOps

/-- What is known about the atoms the branch conditions of `_scalar_multiply` / `_construct_inv`
test: `scalar > 0` and `self._sign == 1` (`none` = not known / not applicable). -/
structure CondEnv where
  scalarPos : Option Bool
  signPos : Option Bool
  deriving DecidableEq, Repr

def and3 : Option Bool → Option Bool → Option Bool
  | some false, _ => some false
  | _, some false => some false
  | some true, some true => some true
  | _, _ => Option.none

def or3 : Option Bool → Option Bool → Option Bool
  | some true, _ => some true
  | _, some true => some true
  | some false, some false => some false
  | _, _ => Option.none

/-- Three-valued truth of a branch condition (`none`: depends on data the class level does not see,
e.g. `self._lu_and_piv is None`). -/
def condEval (env : CondEnv) : SExpr → Option Bool
  | .tt => some true
  | .ff => some false
  | .lnot a => (condEval env a).map (!·)
  | .and a b => and3 (condEval env a) (condEval env b)
  | .or a b => or3 (condEval env a) (condEval env b)
  | .cmp op a b =>
      if op == ">" && a == .var "scalar" && b == .num 0 then env.scalarPos
      else if op == "==" && a == .attr .self "_sign" && b == .num 1 then env.signPos
      else if op == "==" then
        match condEval env a, condEval env b with
        | some x, some y => some (x == y)
        | _, _ => Option.none
      else Option.none
  | _ => Option.none

/-- Pseudo-classes for results that are not constructor calls. -/
def factorClass : String := "<self.factor>"
def productClass : String := "<Matrix @ Matrix>"

/-- Class of the object a returned expression evaluates to, for an instance of class `c`:
a constructor call of a class of the module, `self`, `self.T` (class of the own transpose),
`self.factor` (a `TriangularMatrix` or `InverseTriangularMatrix`: `factorClass`), a product of two
matrix objects (`productClass`). -/
def retClass (tbl : List ClassOps) (c : String) (selfT : Option String) : SExpr → Option String
  | .self => some c
  | .call fn _ => if (findClass tbl fn).isSome then some fn else Option.none
  | .attr .self a =>
      if a == "T" then selfT else if a == "factor" then some factorClass else Option.none
  | .matmul _ _ => some productClass
  | _ => Option.none

def dedup : List String → List String
  | [] => []
  | x :: xs => if (dedup xs).contains x then dedup xs else x :: dedup xs

/-- Classes of the feasible branches of method `m` (those whose condition is not refuted by `env`). -/
def branchClasses (tbl : List ClassOps) (c : String) (selfT : Option String) (env : CondEnv) (m : Method) :
    Option (List String) :=
  ((m.branches.filter fun b => condEval env b.cond != some false).mapM fun b => retClass tbl c selfT b.ret).map dedup

/-- Class of `self.T` when `_construct_transpose` has a single possible result class. -/
def transposeClass (tbl : List ClassOps) (c : String) : Option String :=
  match lookup tbl c "_construct_transpose" with
  | some m =>
    match branchClasses tbl c Option.none ⟨Option.none, Option.none⟩ m with
    | some [x] => some x
    | _ => Option.none
  | Option.none => Option.none

/-- The result classes operation `op` can have on an instance of class `c` under `env`;
`none` if the method is missing / abstract / not fully represented or some feasible branch returns
something that is not recognisably an object of a class of the module (fail closed). -/
def opClasses (tbl : List ClassOps) (c op : String) (env : CondEnv) : Option (List String) :=
  match lookup tbl c op with
  | some m =>
    if m.kind == "method" || m.kind == "property" then
      if m.branches.isEmpty then Option.none else branchClasses tbl c (transposeClass tbl c) env m
    else Option.none
  | Option.none => Option.none

/-- every possible result class of `op` on class `c` under `env` satisfies `p` (and there is one) -/
def allResults (tbl : List ClassOps) (c op : String) (env : CondEnv) (p : String → Bool) : Bool :=
  match opClasses tbl c op env with
  | some l => !l.isEmpty && l.all p
  | Option.none => false

/-- every feasible branch of `op` on class `c` returns literally `self` -/
def returnsSelf (tbl : List ClassOps) (c op : String) : Bool :=
  match lookup tbl c op with
  | some m => !m.branches.isEmpty && m.branches.all fun b => b.ret == .self
  | Option.none => false

def concrete (tbl : List ClassOps) : List ClassOps := tbl.filter fun e => !e.abstract

def ClassOps.isA (e : ClassOps) (base : String) : Bool := e.mro.contains base

/-! ### product-class selection (`_choose_matrix_product_class`) -/

/-- Facts about the two operands the selection function tests. -/
structure ProdEnv where
  /-- `matrix_l.shape[0] == matrix_l.shape[1]` -/
  lSquare : Bool
  /-- `matrix_r.shape == matrix_l.shape` -/
  sameShape : Bool
  /-- `isinstance(matrix_l, InvertibleMatrix)` / `isinstance(matrix_r, InvertibleMatrix)` -/
  lInv : Bool
  rInv : Bool
  deriving DecidableEq, Repr

def shape0 (x : String) : SExpr := .index (.attr (.var x) "shape") (.num 0)
def shape1 (x : String) : SExpr := .index (.attr (.var x) "shape") (.num 1)
def isInst (x c : String) : SExpr := .call "isinstance" (.cons (.var x) (.cons (.var c) .nil))

def prodCond (env : ProdEnv) : SExpr → Option Bool
  | .tt => some true
  | .lnot a => (prodCond env a).map (!·)
  | .and a b => and3 (prodCond env a) (prodCond env b)
  | .or a b => or3 (prodCond env a) (prodCond env b)
  | e =>
      if e == .cmp "==" (shape0 "matrix_l") (shape1 "matrix_l") then some env.lSquare
      else if e == .cmp "==" (.attr (.var "matrix_r") "shape") (.attr (.var "matrix_l") "shape") then some env.sameShape
      else if e == isInst "matrix_l" "InvertibleMatrix" then some env.lInv
      else if e == isInst "matrix_r" "InvertibleMatrix" then some env.rInv
      else Option.none

/-- The class name `_choose_matrix_product_class` returns (the unique branch whose condition holds). -/
def chooseClass (m : Method) (env : ProdEnv) : Option String :=
  if m.unknown then Option.none else
  match m.branches.filter fun b => prodCond env b.cond != some false with
  | [b] =>
    if prodCond env b.cond == some true then
      match b.ret with
      | .var c => some c
      | _ => Option.none
    else Option.none
  | _ => Option.none

end MiciVerif.MatrixOps
