/-
Preservation of the cache invariant by every operation (`assign`, in-place `assign`, `copy`,
`pickle`, `fresh`, `call`) and correctness of top-level calls.
-/
import MiciVerif.Lemmas.Cache

namespace MiciVerif.Cache

variable {tbl : Table} {cfg : Cfg}

/-- The invariant only looks at `st`, `cells`, `nCells`. -/
theorem Inv.of_eq {h h' : Heap} (hi : Inv tbl cfg h) (h1 : h'.st = h.st) (h2 : h'.cells = h.cells)
    (h3 : h'.nCells = h.nCells) : Inv tbl cfg h' := by
  refine ⟨?_, ?_, ?_, ?_⟩
  · intro i; rw [h1, h3]; exact hi.cellBound i
  · intro c x k e; rw [h2]; exact hi.cellClosed c x k e
  · intro i k e; rw [h1, h2]; exact hi.present i k e
  · intro i k v e; rw [h1]; exact hi.good i k v e

/-- replacing state `sid` by one with the same cell, whose cache entries are either old entries or
`None` for keys registered under `x`, and whose stamps changed only at `x` -/
theorem inv_assign_like (h : Heap) (hi : Inv tbl cfg h) (sid : Nat) (x : Var) (s' : St)
    (hcell : s'.cell = (h.st sid).cell)
    (hstamp : ∀ y, y ≠ x → s'.stamp y = (h.st sid).stamp y)
    (hcache : ∀ k, (h.cells (h.st sid).cell x k = true ∧ s'.cache k = some none) ∨
                   (h.cells (h.st sid).cell x k = false ∧ s'.cache k = (h.st sid).cache k)) :
    Inv tbl cfg { h with st := fun i => if i = sid then s' else h.st i } := by
  refine ⟨?_, hi.cellClosed, ?_, ?_⟩
  · intro i; simp only; split
    · rw [hcell]; exact hi.cellBound sid
    · exact hi.cellBound i
  · intro i k e hp hke hce y hy
    simp only at hp ⊢
    split at hp
    · rename_i his; simp only [his, if_true]
      rw [hcell]
      rcases hcache k with ⟨hc, _⟩ | ⟨_, hc⟩
      · exact hi.cellClosed _ x k e hc hke hce y hy
      · rw [hc] at hp; exact hi.present sid k e hp hke hce y hy
    · rename_i his; simp only [his, if_false]; exact hi.present i k e hp hke hce y hy
  · intro i k v e hv hke hce
    simp only at hv ⊢
    split at hv
    · rename_i his; simp only [his, if_true]
      rcases hcache k with ⟨_, hc⟩ | ⟨hcx, hc⟩
      · rw [hc] at hv; cases hv
      · rw [hc] at hv
        have hx : e.trueDeps.mem x = false := by
          cases hm : e.trueDeps.mem x with
          | false => rfl
          | true =>
            have := hi.present sid k e (by rw [hv]; simp) hke hce x hm
            rw [hcx] at this; cases this
        rw [hi.good sid k v e hv hke hce]
        apply (Prov3.ofSet_congr _ _ _ _).symm
        intro y hy
        apply hstamp
        intro hyx; rw [hyx, hx] at hy; cases hy
    · rename_i his; simp only [his, if_false]; exact hi.good i k v e hv hke hce

theorem inv_assign (h : Heap) (hi : Inv tbl cfg h) (sid : Nat) (x : Var) :
    Inv tbl cfg (step tbl cfg h (.assign sid x)).1 := by
  simp only [step]
  split
  · split
    · exact hi
    · apply Inv.of_eq (h := { h with st := fun i => if i = sid then
          { h.st sid with stamp := upd (h.st sid).stamp x h.nextStamp, arr := upd (h.st sid).arr x h.nextArr,
                          cache := invalidate h (h.st sid) x } else h.st i })
      · apply inv_assign_like h hi sid x
        · rfl
        · intro y hy; simp [upd, hy]
        · intro k; simp only [invalidate]
          cases hc : h.cells (h.st sid).cell x k <;> simp
      · funext i; simp only [setSt]; split
        · rename_i his; subst his; rfl
        · rfl
      · rfl
      · rfl
  · exact hi

theorem sweepSt_cache_none (a : Nat) (x : Var) (n : Nat) (s : St) (k : Key) :
    (sweepSt a x n s).cache k = none ↔ s.cache k = none := by
  simp only [sweepSt]
  split
  · rename_i v hv; rw [hv]; split <;> simp
  · rename_i o hne; cases ho : s.cache k with
    | none => simp
    | some o' => cases o' with
      | none => simp
      | some v => exact absurd ho (hne v)

theorem sweepSt_cache_some (a : Nat) (x : Var) (n : Nat) (s : St) (k : Key) (v' : Val)
    (h : (sweepSt a x n s).cache k = some (some v')) :
    ∃ v, s.cache k = some (some v) ∧ (v.aliasOf ≠ some a → v' = v) := by
  simp only [sweepSt] at h
  split at h
  · rename_i v hv
    refine ⟨v, hv, ?_⟩
    intro hne
    simp only [hne, if_false, Option.some.injEq] at h
    exact h.symm
  · rename_i o hne
    rw [h] at hne
    exact absurd rfl (hne v')

theorem sweepSt_cache_someNone (a : Nat) (x : Var) (n : Nat) (s : St) (k : Key) :
    s.cache k = some none → (sweepSt a x n s).cache k = some none := by
  intro h; simp only [sweepSt, h]

theorem sweepSt_cell (a : Nat) (x : Var) (n : Nat) (s : St) : (sweepSt a x n s).cell = s.cell := rfl
theorem sweepSt_stamp (a : Nat) (x : Var) (n : Nat) (s : St) : (sweepSt a x n s).stamp = s.stamp := rfl

/-- the heap after a (not refused, writable) in-place update, written out -/
def ipHeap (h : Heap) (sid : Nat) (x : Var) : Heap :=
  { h with
    st := fun i =>
      let sw := sweepSt ((h.st sid).arr x) x h.nextStamp (h.st i)
      if i = sid then
        { sw with stamp := upd sw.stamp x h.nextStamp,
                  cache := fun k => if h.cells sw.cell x k then some none else sw.cache k }
      else sw
    nextStamp := h.nextStamp + 1 }

theorem step_assignIP_eq (h : Heap) (sid : Nat) (x : Var) (hlt : sid < h.nSt)
    (hfz : (h.st sid).frozen = false) (hro : (h.st sid).readOnly = false) :
    (step tbl cfg h (.assignIP sid x)).1 = ipHeap h sid x := by
  simp only [step, hlt, if_true, hfz, hro, Bool.false_eq_true, if_false, ipHeap, setSt]
  congr 1
  funext i
  by_cases his : i = sid
  · subst his; simp; rfl
  · simp [his]

theorem inv_ipHeap (h : Heap) (hi : Inv tbl cfg h) (sid : Nat) (x : Var)
    (halias : ∀ i k v, (h.st i).cache k = some (some v) → v.aliasOf = some ((h.st sid).arr x) →
      i = sid ∧ h.cells (h.st sid).cell x k = true) :
    Inv tbl cfg (ipHeap h sid x) := by
  refine ⟨?_, hi.cellClosed, ?_, ?_⟩
  · intro i; simp only [ipHeap]; split <;> exact hi.cellBound i
  · intro i k e hp hke hce y hy
    simp only [ipHeap] at hp ⊢
    split at hp
    · rename_i his; subst his
      simp only [if_true, sweepSt_cell] at hp ⊢
      by_cases hc : h.cells (h.st i).cell x k = true
      · exact hi.cellClosed _ x k e hc hke hce y hy
      · simp only [hc] at hp
        exact hi.present i k e (fun hn => hp ((sweepSt_cache_none _ _ _ _ _).mpr hn)) hke hce y hy
    · rename_i his; simp only [his, if_false, sweepSt_cell]
      exact hi.present i k e (fun hn => hp ((sweepSt_cache_none _ _ _ _ _).mpr hn)) hke hce y hy
  · intro i k v e hv hke hce
    simp only [ipHeap] at hv ⊢
    split at hv
    · rename_i his; subst his
      simp only [if_true, sweepSt_cell, sweepSt_stamp] at hv ⊢
      by_cases hc : h.cells (h.st i).cell x k = true
      · simp [hc] at hv
      · simp only [hc] at hv
        obtain ⟨v0, hv0, hsame⟩ := sweepSt_cache_some _ _ _ _ _ _ hv
        have hal : v0.aliasOf ≠ some ((h.st i).arr x) := fun hal => hc (halias i k v0 hv0 hal).2
        rw [hsame hal]
        have hx : e.trueDeps.mem x = false := by
          cases hm : e.trueDeps.mem x with
          | false => rfl
          | true => exact absurd (hi.present i k e (by rw [hv0]; simp) hke hce x hm) hc
        rw [hi.good i k v0 e hv0 hke hce, Prov3.ofSet_upd _ _ _ _ hx]
    · rename_i his; simp only [his, if_false, sweepSt_stamp]
      obtain ⟨v0, hv0, hsame⟩ := sweepSt_cache_some _ _ _ _ _ _ hv
      have hal : v0.aliasOf ≠ some ((h.st sid).arr x) := fun hal => his (halias i k v0 hv0 hal).1
      rw [hsame hal]; exact hi.good i k v0 e hv0 hke hce

theorem inv_assignIP (h : Heap) (hi : Inv tbl cfg h) (sid : Nat) (x : Var) (hsafe : SafeOp h (.assignIP sid x)) :
    Inv tbl cfg (step tbl cfg h (.assignIP sid x)).1 := by
  by_cases hlt : sid < h.nSt
  · cases hfz : (h.st sid).frozen with
    | true => simp only [step, hlt, if_true, hfz]; exact hi
    | false =>
      rcases hsafe hlt with hfz' | ⟨hro, halias⟩
      · rw [hfz] at hfz'; cases hfz'
      · rw [step_assignIP_eq h sid x hlt hfz hro]
        exact inv_ipHeap h hi sid x halias
  · simp only [step, hlt, if_false]; exact hi

theorem inv_copy (h : Heap) (hi : Inv tbl cfg h) (sid : Nat) (ro : Bool) :
    Inv tbl cfg (step tbl cfg h (.copy sid ro)).1 := by
  simp only [step]
  split
  · refine ⟨?_, hi.cellClosed, ?_, ?_⟩
    · intro i; simp only; split
      · exact hi.cellBound sid
      · exact hi.cellBound i
    · intro i k e hp hke hce y hy
      simp only at hp ⊢
      split at hp
      · rename_i his; simp only [his, if_true]; exact hi.present sid k e hp hke hce y hy
      · rename_i his; simp only [his, if_false]; exact hi.present i k e hp hke hce y hy
    · intro i k v e hv hke hce
      simp only at hv ⊢
      split at hv
      · rename_i his; simp only [his, if_true]; exact hi.good sid k v e hv hke hce
      · rename_i his; simp only [his, if_false]; exact hi.good i k v e hv hke hce
  · exact hi

theorem inv_pickle (h : Heap) (hi : Inv tbl cfg h) (sid : Nat) :
    Inv tbl cfg (step tbl cfg h (.pickle sid)).1 := by
  simp only [step]
  split
  · have hne : ∀ i, (h.st i).cell ≠ h.nCells := fun i => Nat.ne_of_lt (hi.cellBound i)
    refine ⟨?_, ?_, ?_, ?_⟩
    · intro i; simp only; split
      · exact Nat.lt_succ_self _
      · exact Nat.lt_succ_of_lt (hi.cellBound i)
    · intro c x k e hc hke hce y hy
      simp only at hc ⊢
      split at hc
      · rename_i hcc; simp only [hcc, if_true]; exact hi.cellClosed _ x k e hc hke hce y hy
      · rename_i hcc; simp only [hcc, if_false]; exact hi.cellClosed c x k e hc hke hce y hy
    · intro i k e hp hke hce y hy
      simp only at hp ⊢
      split at hp
      · rename_i his; simp only [his, if_true]
        apply hi.present sid k e _ hke hce y hy
        intro hn; apply hp; simp [hn]
      · rename_i his; simp only [his, if_false, hne i]
        exact hi.present i k e hp hke hce y hy
    · intro i k v e hv hke hce
      simp only at hv ⊢
      split at hv
      · rename_i his; simp only [his, if_true]
        cases hc : (h.st sid).cache k with
        | none => simp [hc] at hv
        | some o =>
          cases o with
          | none => simp [hc] at hv
          | some v0 =>
            simp only [hc] at hv
            split at hv
            · cases hv
            · simp only [Option.some.injEq] at hv
              subst hv
              exact hi.good sid k v0 e hc hke hce
      · rename_i his; simp only [his, if_false]; exact hi.good i k v e hv hke hce
  · exact hi

theorem inv_fresh (h : Heap) (hi : Inv tbl cfg h) : Inv tbl cfg (step tbl cfg h .fresh).1 := by
  simp only [step]
  have hne : ∀ i, (h.st i).cell ≠ h.nCells := fun i => Nat.ne_of_lt (hi.cellBound i)
  refine ⟨?_, ?_, ?_, ?_⟩
  · intro i; simp only; split
    · exact Nat.lt_succ_self _
    · exact Nat.lt_succ_of_lt (hi.cellBound i)
  · intro c x k e hc hke hce y hy
    simp only at hc ⊢
    split at hc
    · cases hc
    · rename_i hcc; simp only [hcc, if_false]; exact hi.cellClosed c x k e hc hke hce y hy
  · intro i k e hp hke hce y hy
    simp only at hp ⊢
    split at hp
    · exact absurd rfl hp
    · rename_i his; simp only [his, if_false, hne i]
      exact hi.present i k e hp hke hce y hy
  · intro i k v e hv hke hce
    simp only at hv ⊢
    split at hv
    · cases hv
    · rename_i his; simp only [his, if_false]; exact hi.good i k v e hv hke hce

/-- a top-level call keeps the invariant and returns the from-scratch value -/
theorem callTop_spec (hs : DepsSound tbl) (h : Heap) (hi : Inv tbl cfg h) (sid sys m : Nat) :
    Inv tbl cfg (callTop tbl cfg h sid sys m).h ∧ Frame h (callTop tbl cfg h sid sys m).h ∧
    ((lookup tbl (cfg.clsOf sys) m).isSome →
      (callTop tbl cfg h sid sys m).v.prov = trueProv tbl cfg (h.st sid) sys m) := by
  simp only [callTop, trueProv]
  cases hl : lookup tbl (cfg.clsOf sys) m with
  | none => exact ⟨hi, Frame.refl h, by simp⟩
  | some e =>
    have := callM_spec tbl cfg hs sid sys (e.rank + 1) m e hl (Nat.lt_succ_self _) h hi
    exact ⟨this.1, this.2.1, fun _ => this.2.2⟩

theorem inv_step (hs : DepsSound tbl) (h : Heap) (hi : Inv tbl cfg h) (op : Op) (hsafe : SafeOp h op) :
    Inv tbl cfg (step tbl cfg h op).1 := by
  cases op with
  | assign sid x => exact inv_assign h hi sid x
  | assignIP sid x => exact inv_assignIP h hi sid x hsafe
  | copy sid ro => exact inv_copy h hi sid ro
  | pickle sid => exact inv_pickle h hi sid
  | fresh => exact inv_fresh h hi
  | call sid sys m =>
    simp only [step]
    split
    · exact (callTop_spec hs h hi sid sys m).1
    · exact hi

end MiciVerif.Cache
