/-
Semantics of the step-structure tables (`Lemmas/IntegStepsTypes.lean`) that the translator
`tools/extractors/integ_steps.py` regenerates from `mici/integrators.py`, the EXPECTED tables (the
structure of the hand-written models of `Model/Integrators.lean`, `Model/IntegratorsImplicit.lean`
written in the vocabulary of the tables), and the proofs that running the expected tables IS the hand
model.  Nothing here depends on the generated file, so this module is compiled once; the cheap
obligations `Generated.… = Expected.…` are re-decided on every run in `Props/C06S.lean`.

A table that is not of the recognised form is run as "always `ConvergenceError`" (`junk`): such a
table can never be equal to an expected one, so the default is never used in a theorem.
-/
import MiciVerif.Lemmas.IntegStepsTypes
import MiciVerif.Model.Integrators
import MiciVerif.Model.IntegratorsImplicit
import MiciVerif.Lemmas.IntegratorsCoeffs
import Mathlib.Algebra.Field.Rat
import Mathlib.Algebra.Module.Prod
import Mathlib.Tactic.Module
import Mathlib.Tactic.NormNum
import Mathlib.Tactic.Ring

namespace MiciVerif.IntegSteps
open MiciVerif.Integrators

/-! ### Time arguments -/

/-- Value of a time argument for the enclosing method's `time_step = t`. -/
def TimeArg.eval {K : Type*} [Field K] (a : TimeArg) (nInner : Nat) (t : K) : K :=
  if a.perInner then (a.num : K) / (a.den : K) * t / (nInner : K) else (a.num : K) / (a.den : K) * t

/-- The rational factor. -/
def TimeArg.toRat (a : TimeArg) : ℚ := (a.num : ℚ) / (a.den : ℚ)

@[simp] theorem TimeArg.eval_half {K : Type*} [Field K] (n : Nat) (t : K) :
    (⟨1, 2, false⟩ : TimeArg).eval n t = 1 / 2 * t := by simp [TimeArg.eval]

@[simp] theorem TimeArg.eval_one {K : Type*} [Field K] (n : Nat) (t : K) :
    (⟨1, 1, false⟩ : TimeArg).eval n t = t := by simp [TimeArg.eval]

@[simp] theorem TimeArg.eval_neg_one {K : Type*} [Field K] (n : Nat) (t : K) :
    (⟨-1, 1, false⟩ : TimeArg).eval n t = -t := by simp [TimeArg.eval]

@[simp] theorem TimeArg.eval_inner {K : Type*} [Field K] (n : Nat) (t : K) :
    (⟨1, 1, true⟩ : TimeArg).eval n t = t / (n : K) := by simp [TimeArg.eval]

/-! ### Python slices = the model's slices -/

theorem everyNth_two_zero {α : Type*} (l : List α) : everyNth 2 0 l = stride2 l := by
  induction l using stride2.induct with
  | case1 => simp [everyNth, stride2]
  | case2 a => simp [everyNth, stride2]
  | case3 a b t ih => simp [everyNth, stride2, ih]

theorem pySliceFrom_two {α : Type*} (k : Nat) (l : List α) : pySliceFrom k 2 l = slice2 k l := by
  simp [pySliceFrom, slice2, everyNth_two_zero]

theorem pySliceRevFromNeg_two {α : Type*} (l : List α) : pySliceRevFromNeg 2 l = l.dropLast.reverse := by
  simp [pySliceRevFromNeg, List.dropLast_eq_take]

/-- `l[-1::-1]` is the whole list reversed (used to show what a wrong slice would give). -/
theorem pySliceRevFromNeg_one {α : Type*} (l : List α) : pySliceRevFromNeg 1 l = l.reverse := by
  simp [pySliceRevFromNeg]

/-! ### Explicit integrators: a `_step` that only calls the two flows -/

/-- Run a list of flow calls (`system.h1_flow(state, c·t)`, `system.h2_flow(state, c·t)`) in order. -/
def runFlows {K X : Type*} [Field K] (h1Flow h2Flow : K → X → X) (cs : List Call) (t : K) (x : X) : X :=
  cs.foldl (fun x c =>
    if c.callee = "system.h1_flow" then h1Flow (c.t.eval 1 t) x
    else if c.callee = "system.h2_flow" then h2Flow (c.t.eval 1 t) x
    else x) x

/-- The flow calls of a list as (component tag, rational factor): `true` = `h1_flow`. -/
def flowFractions (cs : List Call) : List (String × ℚ) := cs.map fun c => (c.callee, c.t.toRat)

/-- Total factor given to `callee`. -/
def fractionSum (callee : String) (cs : List Call) : ℚ :=
  ((cs.filter fun c => c.callee == callee).map fun c => c.t.toRat).sum

namespace Expected

/-- `LeapfrogIntegrator._step` as modelled by `Integrators.leapfrog`. -/
def leapfrogStep : List Call :=
  [⟨"system.h1_flow", ⟨1, 2, false⟩⟩, ⟨"system.h2_flow", ⟨1, 1, false⟩⟩, ⟨"system.h1_flow", ⟨1, 2, false⟩⟩]

end Expected

theorem runFlows_leapfrog {K X : Type*} [Field K] (h1Flow h2Flow : K → X → X) (t : K) (x : X) :
    runFlows h1Flow h2Flow Expected.leapfrogStep t x = leapfrog h1Flow h2Flow t x := by
  simp [runFlows, Expected.leapfrogStep, leapfrog]

/-! ### Implicit leapfrog -/

section GL
variable {K V : Type*} [Field K] [AddCommGroup V] [Module K V]
variable (S : GLSystem V) (solve : (V → V) → V → Res V) (far : V → Bool)

/-- `self.system.<name>(state)` as a function of `(pos, mom)`. -/
def glDeriv (name : String) : V → V → V :=
  if name = "dh2_dpos" then S.dh2dq
  else if name = "dh2_dmom" then S.dh2dp
  else if name = "dh1_dpos" then fun q _ => S.dh1 q
  else fun _ _ => 0

def junk {α : Type*} : Res α := .error .convergence

/-- `state.<var> += c * deriv(state)`. -/
def glExplicit (u : Update) (t : K) (x : V × V) : V × V :=
  let c : K := (u.sign : K) * u.t.eval 1 t
  match u.var with
  | .mom => (x.1, x.2 + c • glDeriv S u.deriv x.1 x.2)
  | .pos => (x.1 + c • glDeriv S u.deriv x.1 x.2, x.2)

/-- `state.<var> = solver(v ↦ init + c * deriv(state with <var> = v), init)`. -/
def glFixed (u : Update) (t : K) (x : V × V) : Res (V × V) :=
  let c : K := (u.sign : K) * u.t.eval 1 t
  match u.var with
  | .mom => do
    let p ← solve (fun m => x.2 + c • glDeriv S u.deriv x.1 m) x.2
    pure (x.1, p)
  | .pos => do
    let q ← solve (fun r => x.1 + c • glDeriv S u.deriv r x.2) x.1
    pure (q, x.2)

def compOf (v : Var) (x : V × V) : V := match v with | .pos => x.1 | .mom => x.2

/-- The reverse check is of the shape the parameter `far` stands for:
`self.reverse_check_norm(state_back.v - v_init) > self.reverse_check_tol → NonReversibleStepError`,
run on a copy, against the value saved before the update. -/
def RevCheck.standard (chk : RevCheck) : Bool :=
  chk.onCopy && chk.savedBefore && chk.norm == "reverse_check_norm" && chk.tol == "reverse_check_tol"
    && chk.cmpOp == ">" && chk.raises == "NonReversibleStepError"

/-- One helper method of `ImplicitLeapfrogIntegrator`. -/
def glMethod (tbl : List (String × Method)) (m : Method) (t : K) (x : V × V) : Res (V × V) :=
  match m with
  | .flow .h1 ta false => pure (glStepA S (ta.eval 1 t) x)
  | .fixedPoint [u] "fixed_point_solver" => if u.atState = "state" then glFixed S solve u t x else junk
  | .checked [u] chk =>
    match tbl.lookup chk.adjoint with
    | some (.fixedPoint [ua] "fixed_point_solver") =>
      if chk.standard && chk.cmp == [u.var] && u.atState == "state" && ua.atState == "state" then do
        let y := glExplicit S u t x
        let back ← glFixed S solve ua (chk.t.eval 1 t) y
        if far (compOf u.var back - compOf u.var x) then throw IntErr.nonReversible else pure y
      else junk
    | _ => junk
  | _ => junk

/-- `_step`: the calls in order, each helper looked up in the method table. -/
def glRun (tbl : List (String × Method)) : List Call → K → V × V → Res (V × V)
  | [], _, x => pure x
  | c :: cs, t, x =>
    match tbl.lookup c.callee with
    | some m => glMethod S solve far tbl m (c.t.eval 1 t) x >>= glRun tbl cs t
    | none => junk

end GL

namespace Expected

/-- `ImplicitLeapfrogIntegrator._step` as modelled by `Integrators.glStep`. -/
def implicitLeapfrogStep : List Call :=
  [⟨"self._step_a", ⟨1, 2, false⟩⟩, ⟨"self._step_b_fwd", ⟨1, 2, false⟩⟩, ⟨"self._step_c_fwd", ⟨1, 2, false⟩⟩,
   ⟨"self._step_c_adj", ⟨1, 2, false⟩⟩, ⟨"self._step_b_adj", ⟨1, 2, false⟩⟩, ⟨"self._step_a", ⟨1, 2, false⟩⟩]

def stdCheck (adjoint : String) (cmp : List Var) : RevCheck :=
  { onCopy := true, adjoint := adjoint, t := ⟨-1, 1, false⟩, cmp := cmp, savedBefore := true,
    norm := "reverse_check_norm", tol := "reverse_check_tol", cmpOp := ">", raises := "NonReversibleStepError" }

/-- The helpers of `ImplicitLeapfrogIntegrator` as modelled by `glStepA`, `glStepBFwd`, `glStepCFwd`,
`glStepCAdj`, `glStepBAdj`. -/
def implicitLeapfrogMethods : List (String × Method) :=
  [("self._step_a", .flow .h1 ⟨1, 1, false⟩ false),
   ("self._step_b_fwd", .fixedPoint [⟨.mom, -1, "dh2_dpos", ⟨1, 1, false⟩, "state"⟩] "fixed_point_solver"),
   ("self._step_c_fwd", .checked [⟨.pos, 1, "dh2_dmom", ⟨1, 1, false⟩, "state"⟩] (stdCheck "self._step_c_adj" [.pos])),
   ("self._step_c_adj", .fixedPoint [⟨.pos, 1, "dh2_dmom", ⟨1, 1, false⟩, "state"⟩] "fixed_point_solver"),
   ("self._step_b_adj", .checked [⟨.mom, -1, "dh2_dpos", ⟨1, 1, false⟩, "state"⟩] (stdCheck "self._step_b_fwd" [.mom]))]

end Expected

section GLProofs
variable {K V : Type*} [Field K] [AddCommGroup V] [Module K V]
variable (S : GLSystem V) (solve : (V → V) → V → Res V) (far : V → Bool)

theorem glRun_expected (t : K) (x : V × V) :
    glRun S solve far Expected.implicitLeapfrogMethods Expected.implicitLeapfrogStep t x
      = glStep S solve far t x := by
  have hdiv : (1 : K) / 2 * t = t / 2 := by ring
  simp only [glRun, Expected.implicitLeapfrogStep, Expected.implicitLeapfrogMethods, List.lookup,
    glMethod, Expected.stdCheck, RevCheck.standard, glFixed, glExplicit, glDeriv, compOf,
    TimeArg.eval_half, hdiv]
  simp only [glStep, glStepA, glStepBFwd, glStepBAdj, glStepCFwd, glStepCAdj]
  simp [sub_eq_add_neg, bind_assoc]

end GLProofs

/-! ### Implicit midpoint -/

/-- `dh_dpos`, `dh_dmom` as functions of the state `(pos, mom)`. -/
structure HSystem (V : Type*) where
  dhdq : V × V → V
  dhdp : V × V → V

section IM
variable {K V : Type*} [Field K] [AddCommGroup V] [Module K V]
variable (S : HSystem V) (solve : (V × V → V × V) → V × V → Res (V × V)) (far : V × V → Bool)

/-- `concatenate([dh_dmom(z), -dh_dpos(z)])`: the Hamiltonian vector field. -/
def hamField (z : V × V) : V × V := (S.dhdp z, -S.dhdq z)

def imDeriv (name : String) : V × V → V :=
  if name = "dh_dpos" then S.dhdq else if name = "dh_dmom" then S.dhdp else fun _ => 0

/-- Increment described by a pair of updates (position update, momentum update), derivatives
evaluated at `y`. -/
def imIncr (up uq : Update) (t : K) (y : V × V) : V × V :=
  (((up.sign : K) * up.t.eval 1 t) • imDeriv S up.deriv y, ((uq.sign : K) * uq.t.eval 1 t) • imDeriv S uq.deriv y)

def imMethod (tbl : List (String × Method)) (m : Method) (t : K) (z : V × V) : Res (V × V) :=
  match m with
  | .fixedPoint [up, uq] "fixed_point_solver" =>
    if up.var == .pos && uq.var == .mom && up.atState == "state" && uq.atState == "state" then
      solve (fun y => z + imIncr S up uq t y) z
    else junk
  | .checked [up, uq] chk =>
    match tbl.lookup chk.adjoint with
    | some (.fixedPoint [ap, aq] "fixed_point_solver") =>
      if chk.standard && chk.cmp == [.pos, .mom] && up.var == .pos && uq.var == .mom && ap.var == .pos
          && aq.var == .mom && up.atState == "state_prev" && uq.atState == "state_prev"
          && ap.atState == "state" && aq.atState == "state" then do
        let y := z + imIncr S up uq t z
        let back ← solve (fun w => y + imIncr S ap aq (chk.t.eval 1 t) w) y
        if far (back - z) then throw IntErr.nonReversible else pure y
      else junk
    | _ => junk
  | _ => junk

def imRun (tbl : List (String × Method)) : List Call → K → V × V → Res (V × V)
  | [], _, z => pure z
  | c :: cs, t, z =>
    match tbl.lookup c.callee with
    | some m => imMethod S solve far tbl m (c.t.eval 1 t) z >>= imRun tbl cs t
    | none => junk

end IM

namespace Expected

def implicitMidpointStep : List Call :=
  [⟨"self._step_a_fwd", ⟨1, 2, false⟩⟩, ⟨"self._step_a_adj", ⟨1, 2, false⟩⟩]

def implicitMidpointMethods : List (String × Method) :=
  [("self._step_a_fwd", .fixedPoint [⟨.pos, 1, "dh_dmom", ⟨1, 1, false⟩, "state"⟩,
      ⟨.mom, -1, "dh_dpos", ⟨1, 1, false⟩, "state"⟩] "fixed_point_solver"),
   ("self._step_a_adj", .checked [⟨.pos, 1, "dh_dmom", ⟨1, 1, false⟩, "state_prev"⟩,
      ⟨.mom, -1, "dh_dpos", ⟨1, 1, false⟩, "state_prev"⟩] (stdCheck "self._step_a_fwd" [.pos, .mom]))]

end Expected

section IMProofs
variable {K V : Type*} [Field K] [AddCommGroup V] [Module K V]
variable (S : HSystem V) (solve : (V × V → V × V) → V × V → Res (V × V)) (far : V × V → Bool)

theorem imRun_expected (t : K) (z : V × V) :
    imRun S solve far Expected.implicitMidpointMethods Expected.implicitMidpointStep t z
      = imStep (hamField S) solve far t z := by
  have hdiv : (1 : K) / 2 * t = t / 2 := by ring
  simp only [imRun, Expected.implicitMidpointStep, Expected.implicitMidpointMethods, List.lookup,
    imMethod, Expected.stdCheck, RevCheck.standard, imIncr, imDeriv,
    TimeArg.eval_half, hdiv]
  simp only [imStep, imStepFwd, imStepAdj]
  simp [hamField, sub_eq_add_neg]

end IMProofs

/-! ### Constrained leapfrog -/

section Con
variable {K V : Type*} [Field K] [AddCommGroup V] [Module K V]
variable (S : ConSystem K V) (retr : K → V × V → V × V → Res (V × V)) (far : V → Bool)

/-- The `_step_b` record is of the shape that `conStepB` models (everything except the three time
arguments, which are interpreted). -/
def RetractLoop.standard (r : RetractLoop) : Bool :=
  r.count == "n_inner_step" && r.prevIsCopy && r.retractFlow == "h2_flow"
    && r.retractSolver == "projection_solver" && r.retractArgsOk && r.preEvalOnlyLast && r.projectAfter
    && r.chkOnCopy && r.chkPrev == "state" && r.cmp == [.pos] && r.against == "state_prev"
    && r.norm == "reverse_check_norm" && r.tol == "reverse_check_tol" && r.cmpOp == ">"
    && r.raises == "NonReversibleStepError"

/-- One inner iteration with forward / backward retraction times `tf`, `tb`. -/
def conInnerGen (tf tb : K) (x : V × V) : Res (V × V) := do
  let y ← conRetract S retr tf x x
  let y := conProject S y
  let back ← conRetract S retr tb y y
  if far (back.1 - x.1) then throw IntErr.nonReversible else pure y

def conMethod (nInner : Nat) (m : Method) (t : K) (x : V × V) : Res (V × V) :=
  match m with
  | .flow .h1 ta true => pure (conStepA S (ta.eval nInner t) x)
  | .retractLoop r =>
    if r.standard then
      let ti := r.tInner.eval nInner t
      (List.range nInner).foldlM (fun x _ => conInnerGen S retr far (r.tFwd.eval nInner ti) (r.tBack.eval nInner ti) x) x
    else junk
  | _ => junk

def conRun (nInner : Nat) (tbl : List (String × Method)) : List Call → K → V × V → Res (V × V)
  | [], _, x => pure x
  | c :: cs, t, x =>
    match tbl.lookup c.callee with
    | some m => conMethod S retr far nInner m (c.t.eval nInner t) x >>= conRun nInner tbl cs t
    | none => junk

end Con

namespace Expected

def constrainedLeapfrogStep : List Call :=
  [⟨"self._step_a", ⟨1, 2, false⟩⟩, ⟨"self._step_b", ⟨1, 1, false⟩⟩, ⟨"self._step_a", ⟨1, 2, false⟩⟩]

def constrainedLeapfrogMethods : List (String × Method) :=
  [("self._step_a", .flow .h1 ⟨1, 1, false⟩ true),
   ("self._step_b", .retractLoop
      { count := "n_inner_step", tInner := ⟨1, 1, true⟩, prevIsCopy := true, tFwd := ⟨1, 1, false⟩,
        retractFlow := "h2_flow", retractSolver := "projection_solver", retractArgsOk := true,
        preEvalOnlyLast := true, projectAfter := true, chkOnCopy := true, chkPrev := "state",
        tBack := ⟨-1, 1, false⟩, cmp := [.pos], against := "state_prev", norm := "reverse_check_norm",
        tol := "reverse_check_tol", cmpOp := ">", raises := "NonReversibleStepError" })]

end Expected

section ConProofs
variable {K V : Type*} [Field K] [AddCommGroup V] [Module K V]
variable (S : ConSystem K V) (retr : K → V × V → V × V → Res (V × V)) (far : V → Bool)

omit [Module K V] in
theorem conInnerGen_eq (ti : K) (x : V × V) :
    conInnerGen S retr far ti (-ti) x = conInner S retr far ti x := rfl

theorem conRun_expected (nInner : Nat) (t : K) (x : V × V) :
    conRun S retr far nInner Expected.constrainedLeapfrogMethods Expected.constrainedLeapfrogStep t x
      = conStep S retr far nInner t x := by
  simp only [conRun, Expected.constrainedLeapfrogStep, Expected.constrainedLeapfrogMethods, List.lookup,
    conMethod, RetractLoop.standard, TimeArg.eval_half, TimeArg.eval_one]
  simp [conStep, conStepB, conInnerGen_eq]

end ConProofs

/-! ### Adjoint pairing, fractions, palindromes (decidable facts about a table) -/

/-- The helper that undoes `name`: the adjoint named by its reverse check, or the checked helper
whose check names it; flows and the constrained loop are their own partners. -/
def partner (tbl : List (String × Method)) (name : String) : String :=
  match tbl.lookup name with
  | some (.checked _ chk) => chk.adjoint
  | some (.fixedPoint _ _) =>
    match tbl.find? (fun e => match e.2 with | .checked _ chk => chk.adjoint == name | _ => false) with
    | some e => e.1
    | none => ""
  | some (.flow _ _ _) => name
  | some (.retractLoop _) => name
  | _ => ""

/-- `Ψ(t) = X₁(c₁t) ∘ … ∘ Xₙ(cₙt)` is symmetric when the call list read backwards with every helper
replaced by its partner is the same list. -/
def adjointPalindrome (tbl : List (String × Method)) (cs : List Call) : Bool :=
  (cs.reverse.map fun c => (⟨partner tbl c.callee, c.t⟩ : Call)) == cs

/-- Every implicit (`fixedPoint`) helper that `_step` calls is the adjoint of a `checked` helper that
`_step` also calls, and every `checked` helper runs its adjoint with the NEGATED time step on a copy
and raises `NonReversibleStepError` on a norm/tolerance test. -/
def allChecked (tbl : List (String × Method)) (cs : List Call) : Bool :=
  cs.all fun c =>
    match tbl.lookup c.callee with
    | some (.fixedPoint _ solver) =>
      solver == "fixed_point_solver" && cs.any fun d =>
        match tbl.lookup d.callee with
        | some (.checked _ chk) => chk.adjoint == c.callee && chk.standard && chk.t == ⟨-1, 1, false⟩ && d.t == c.t
        | _ => false
    | some (.checked _ chk) => chk.standard && chk.t == ⟨-1, 1, false⟩ &&
      (match tbl.lookup chk.adjoint with | some (.fixedPoint _ _) => true | _ => false)
    | some (.flow _ _ _) => true
    | some (.retractLoop r) => r.standard && r.tFwd == ⟨1, 1, false⟩ && r.tBack == ⟨-1, 1, false⟩
    | _ => false

/-! ### Published BCSS coefficients (Blanes, Casas, Sanz-Serna 2014, eqs (6.4), (6.7), (6.8)) -/

namespace Published

/-- three-stage: `a₀`, `b₁` -/
def bcss3 : List ℚ := [11888010966548 / 10 ^ 14, 29619504261126 / 10 ^ 14]

/-- four-stage: `a₀`, `b₁`, `a₁` -/
def bcss4 : List ℚ :=
  [71353913450279725904 / 10 ^ 21, 191667800000000000000 / 10 ^ 21, 268548791161230105820 / 10 ^ 21]

/-- two-stage: `a₀ = (3 − √3)/6` -/
def bcss2 : SqrtForm := ⟨3, 3, 6⟩

end Published

/-- Decimal value of a literal. -/
def Lit.dec (l : Lit) : Option ℚ := l.decNum.map fun n => (n : ℚ) / (l.decDen : ℚ)

/-- Value of the float Python computes. -/
def Lit.flt (l : Lit) : ℚ := (l.fltNum : ℚ) / (l.fltDen : ℚ)

/-- The literals named by the `super().__init__` call, in order (decimal values). -/
def freeDec (names : List String) (lits : List Lit) : List (Option ℚ) :=
  names.map fun n => (lits.find? fun l => l.name == n).bind Lit.dec

def freeFlt (names : List String) (lits : List Lit) : List ℚ :=
  names.map fun n => ((lits.find? fun l => l.name == n).map Lit.flt).getD 0

end MiciVerif.IntegSteps
