/-
C11S — meaning of the extracted bodies of `grad_log_abs_det` / `grad_quadratic_form_inv`
(`Generated/MatrixOps.lean`) as array expressions over a commutative ring, in the vocabulary of
`Model/MatricesGrad.lean`.

`GVal` is a NumPy value: a scalar, a 1-D array or a 2-D array whose axes have the *outer* size `n`
or the *inner* size `k` (the low-rank / rectangular-product classes have both).  `gEval atoms e`
evaluates a symbolic expression; `atoms` gives the value of the leaves (`self._scalar`, `self.inv`,
`self.factor.inv`, `vector`, ...) and — because the model treats inverses as checked data — of the
reciprocals `1 / x` of the leaves a formula divides by (`a / b` is `a * (1 / b)`).
-/
import MiciVerif.Lemmas.MatrixOpsSyntax
import MiciVerif.Model.MatricesGrad

namespace MiciVerif.MatrixOps
open Matrix MiciVerif.MatricesGrad

inductive GVal (R : Type) (n k : ℕ)
  | sc (c : R)
  | vO (v : Fin n → R)
  | vI (v : Fin k → R)
  | mOO (M : Matrix (Fin n) (Fin n) R)
  | mOI (M : Matrix (Fin n) (Fin k) R)
  | mIO (M : Matrix (Fin k) (Fin n) R)
  | mII (M : Matrix (Fin k) (Fin k) R)
  | bool (b : Bool)

namespace GVal
variable {R : Type} [CommRing R] {n k : ℕ}

/-- `a @ b` -/
def mm : GVal R n k → GVal R n k → Option (GVal R n k)
  | mOO A, mOO B => some (mOO (A * B))
  | mOO A, mOI B => some (mOI (A * B))
  | mOI A, mII B => some (mOI (A * B))
  | mOI A, mIO B => some (mOO (A * B))
  | mIO A, mOO B => some (mIO (A * B))
  | mIO A, mOI B => some (mII (A * B))
  | mII A, mII B => some (mII (A * B))
  | mII A, mIO B => some (mIO (A * B))
  | mOO A, vO v => some (vO (A *ᵥ v))
  | mOI A, vI v => some (vO (A *ᵥ v))
  | mIO A, vO v => some (vI (A *ᵥ v))
  | mII A, vI v => some (vI (A *ᵥ v))
  | _, _ => none

/-- `a * b` (scalar broadcasting; elementwise for equal shapes is not needed) -/
def mul : GVal R n k → GVal R n k → Option (GVal R n k)
  | sc a, sc b => some (sc (a * b))
  | sc a, vO v => some (vO (a • v))
  | sc a, vI v => some (vI (a • v))
  | sc a, mOO M => some (mOO (a • M))
  | sc a, mOI M => some (mOI (a • M))
  | sc a, mIO M => some (mIO (a • M))
  | sc a, mII M => some (mII (a • M))
  | _, _ => none

def neg : GVal R n k → Option (GVal R n k)
  | sc a => some (sc (-a))
  | vO v => some (vO (-v))
  | vI v => some (vI (-v))
  | mOO M => some (mOO (-M))
  | mOI M => some (mOI (-M))
  | mIO M => some (mIO (-M))
  | mII M => some (mII (-M))
  | _ => none

def add : GVal R n k → GVal R n k → Option (GVal R n k)
  | sc a, sc b => some (sc (a + b))
  | mOO A, mOO B => some (mOO (A + B))
  | mOI A, mOI B => some (mOI (A + B))
  | mIO A, mIO B => some (mIO (A + B))
  | mII A, mII B => some (mII (A + B))
  | _, _ => none

/-- `a ** 2` (elementwise) -/
def sq : GVal R n k → Option (GVal R n k)
  | sc a => some (sc (a ^ 2))
  | vO v => some (vO fun i => v i ^ 2)
  | vI v => some (vI fun i => v i ^ 2)
  | _ => none

/-- `a.T` -/
def tr : GVal R n k → Option (GVal R n k)
  | mOO M => some (mOO Mᵀ)
  | mOI M => some (mIO Mᵀ)
  | mIO M => some (mOI Mᵀ)
  | mII M => some (mII Mᵀ)
  | _ => none

/-- `np.outer(a, b)` -/
def outerV : GVal R n k → GVal R n k → Option (GVal R n k)
  | vO u, vO w => some (mOO (outer u w))
  | vO u, vI w => some (mOI (outer u w))
  | vI u, vO w => some (mIO (outer u w))
  | vI u, vI w => some (mII (outer u w))
  | _, _ => none

/-- `np.diag(v)` -/
def diagV : GVal R n k → Option (GVal R n k)
  | vO v => some (mOO (Matrix.diagonal v))
  | vI v => some (mII (Matrix.diagonal v))
  | _ => none

/-- `np.sum(v)` -/
def sumV : GVal R n k → Option (GVal R n k)
  | vO v => some (sc (∑ i, v i))
  | vI v => some (sc (∑ i, v i))
  | _ => none

/-- `_make_array_triangular(a, lower=l)` -/
def triV : GVal R n k → GVal R n k → Option (GVal R n k)
  | mOO M, bool l => some (mOO (tri l M))
  | mII M, bool l => some (mII (tri l M))
  | _, _ => none

end GVal

variable {R : Type} [CommRing R] {n k : ℕ}

def bind2 (f : GVal R n k → GVal R n k → Option (GVal R n k)) (a b : Option (GVal R n k)) : Option (GVal R n k) :=
  match a, b with
  | some x, some y => f x y
  | _, _ => Option.none

/-- Value of an extracted array expression.  Leaves (and reciprocals of leaves) come from `atoms`. -/
def gEval (atoms : SExpr → Option (GVal R n k)) : SExpr → Option (GVal R n k)
  | .num m => some (.sc (m : R))
  | .neg a => (gEval atoms a).bind GVal.neg
  | .add a b => bind2 GVal.add (gEval atoms a) (gEval atoms b)
  | .mul a b => bind2 GVal.mul (gEval atoms a) (gEval atoms b)
  | .matmul a b => bind2 GVal.mm (gEval atoms a) (gEval atoms b)
  | .div a b => bind2 GVal.mul (gEval atoms a) (atoms (.div (.num 1) b))
  | .pow a b => if b == .num 2 then (gEval atoms a).bind GVal.sq else Option.none
  | .call fn args =>
      if fn == "np.outer" then
        match args with
        | .cons a (.cons b .nil) => bind2 GVal.outerV (gEval atoms a) (gEval atoms b)
        | _ => Option.none
      else if fn == "np.diag" then
        match args with
        | .cons a .nil => (gEval atoms a).bind GVal.diagV
        | _ => Option.none
      else if fn == "np.sum" then
        match args with
        | .cons a .nil => (gEval atoms a).bind GVal.sumV
        | _ => Option.none
      else if fn == "_make_array_triangular" then
        match args with
        | .cons a (.kw kwn l .nil) =>
            if kwn == "lower" then bind2 GVal.triV (gEval atoms a) (atoms l) else Option.none
        | _ => Option.none
      else Option.none
  | .attr a f =>
      match atoms (.attr a f) with
      | some v => some v
      | Option.none =>
        if f == "array" then gEval atoms a
        else if f == "T" then (gEval atoms a).bind GVal.tr
        else Option.none
  | e => atoms e

/-- The returned expression of a single-path method. -/
def singleRet (tbl : List ClassOps) (c m : String) : Option SExpr :=
  match lookup tbl c m with
  | some x =>
    match x.branches with
    | [b] => if b.cond == .tt then some b.ret else Option.none
    | _ => Option.none
  | Option.none => Option.none

/-- A lazily cached property `if self._x is None: self._x = C(arg, ...)`, `return self._x`:
the constructor name and its first argument. -/
def lazyCtorArg (tbl : List ClassOps) (c m cache : String) : Option (String × SExpr) :=
  match lookup tbl c m with
  | some x =>
    match x.branches with
    | [b1, b2] =>
      if b1.cond == .cmp "is" (.attr .self cache) .none && b2.cond == .lnot b1.cond && b2.ret == .attr .self cache then
        match b1.ret with
        | .call fn (.cons a .nil) => some (fn, a)
        | _ => Option.none
      else Option.none
    | _ => Option.none
  | Option.none => Option.none

end MiciVerif.MatrixOps
