/-
Block-matrix lemmas over `Fin (m + n)` for the C10 model (`bdiag`, `brow`, `bcol`, splits).
-/
import MiciVerif.Model.Matrices
import Mathlib.LinearAlgebra.Matrix.NonsingularInverse
import Mathlib.LinearAlgebra.Matrix.SchurComplement
import Mathlib.LinearAlgebra.Matrix.Block
import Mathlib.Tactic.Ring

set_option linter.unusedSectionVars false
set_option linter.unusedVariables false

namespace MiciVerif.Matrices
open Matrix
variable {K : Type} [Field K] {m n p q : ℕ}

@[simp] theorem bcol_top_bot (B : Mat (m + n) p K) : bcol (topRows B) (botRows B) = B := by
  ext i j
  refine Fin.addCases (fun i => ?_) (fun i => ?_) i <;>
  simp [bcol, topRows, botRows, Matrix.fromRows] <;> rfl

@[simp] theorem brow_left_right (B : Mat p (m + n) K) : brow (leftCols B) (rightCols B) = B := by
  ext i j
  refine Fin.addCases (fun j => ?_) (fun j => ?_) j <;>
  simp [brow, leftCols, rightCols, Matrix.fromCols]

@[simp] theorem topRows_bcol (A : Mat m p K) (B : Mat n p K) : topRows (bcol A B) = A := by
  ext i j; simp [bcol, topRows]
@[simp] theorem botRows_bcol (A : Mat m p K) (B : Mat n p K) : botRows (bcol A B) = B := by
  ext i j; simp [bcol, botRows]
@[simp] theorem leftCols_brow (A : Mat p m K) (B : Mat p n K) : leftCols (brow A B) = A := by
  ext i j; simp [brow, leftCols]
@[simp] theorem rightCols_brow (A : Mat p m K) (B : Mat p n K) : rightCols (brow A B) = B := by
  ext i j; simp [brow, rightCols]

theorem bcol_mul (A : Mat m n K) (B : Mat p n K) (C : Mat n q K) :
    bcol A B * C = bcol (A * C) (B * C) := by
  ext i j
  refine Fin.addCases (fun i => ?_) (fun i => ?_) i <;> simp [bcol, Matrix.mul_apply]

theorem mul_brow (A : Mat m n K) (B : Mat n p K) (C : Mat n q K) :
    A * brow B C = brow (A * B) (A * C) := by
  ext i j
  refine Fin.addCases (fun j => ?_) (fun j => ?_) j <;> simp [brow, Matrix.mul_apply]

theorem brow_mul (A : Mat m n K) (B : Mat m p K) (C : Mat (n + p) q K) :
    brow A B * C = A * topRows C + B * botRows C := by
  conv_lhs => rw [← bcol_top_bot C]
  simp only [brow, bcol, reindex_apply, Equiv.refl_symm, Equiv.coe_refl]
  rw [Matrix.submatrix_mul_equiv, Matrix.fromCols_mul_fromRows]
  simp

theorem mul_bcol (C : Mat q (m + p) K) (A : Mat m n K) (B : Mat p n K) :
    C * bcol A B = leftCols C * A + rightCols C * B := by
  conv_lhs => rw [← brow_left_right C]
  simp only [brow, bcol, reindex_apply, Equiv.refl_symm, Equiv.coe_refl]
  rw [Matrix.submatrix_mul_equiv, Matrix.fromCols_mul_fromRows]
  simp

theorem bdiag_eq_bcol (A : Mat m m K) (B : Mat n n K) :
    bdiag A B = bcol (brow A 0) (brow 0 B) := by
  ext i j
  refine Fin.addCases (fun i => ?_) (fun i => ?_) i <;>
  refine Fin.addCases (fun j => ?_) (fun j => ?_) j <;>
  simp [bdiag, bcol, brow]

theorem bdiag_mul (A : Mat m m K) (B : Mat n n K) (C : Mat (m + n) q K) :
    bdiag A B * C = bcol (A * topRows C) (B * botRows C) := by
  rw [bdiag_eq_bcol, bcol_mul, brow_mul, brow_mul]; simp

theorem bdiag_eq_brow (A : Mat m m K) (B : Mat n n K) :
    bdiag A B = brow (bcol A 0) (bcol 0 B) := by
  ext i j
  refine Fin.addCases (fun i => ?_) (fun i => ?_) i <;>
  refine Fin.addCases (fun j => ?_) (fun j => ?_) j <;>
  simp [bdiag, bcol, brow]

theorem mul_bdiag (C : Mat q (m + n) K) (A : Mat m m K) (B : Mat n n K) :
    C * bdiag A B = brow (leftCols C * A) (rightCols C * B) := by
  rw [bdiag_eq_brow, mul_brow, mul_bcol, mul_bcol]; simp

theorem bdiag_transpose (A : Mat m m K) (B : Mat n n K) : (bdiag A B)ᵀ = bdiag Aᵀ Bᵀ := by
  simp [bdiag, Matrix.fromBlocks_transpose]

theorem brow_transpose (A : Mat m n K) (B : Mat m p K) : (brow A B)ᵀ = bcol Aᵀ Bᵀ := by
  simp [brow, bcol, Matrix.transpose_fromCols]

theorem bcol_transpose (A : Mat m n K) (B : Mat p n K) : (bcol A B)ᵀ = brow Aᵀ Bᵀ := by
  simp [brow, bcol, Matrix.transpose_fromRows]

theorem bdiag_mul_bdiag (A C : Mat m m K) (B D : Mat n n K) :
    bdiag A B * bdiag C D = bdiag (A * C) (B * D) := by
  simp [bdiag, Matrix.submatrix_mul_equiv, Matrix.fromBlocks_multiply]

@[simp] theorem bdiag_one : bdiag (1 : Mat m m K) (1 : Mat n n K) = 1 := by
  simp [bdiag]

theorem bdiag_smul (c : K) (A : Mat m m K) (B : Mat n n K) :
    bdiag (c • A) (c • B) = c • bdiag A B := by
  ext i j
  refine Fin.addCases (fun i => ?_) (fun i => ?_) i <;>
  refine Fin.addCases (fun j => ?_) (fun j => ?_) j <;> simp [bdiag]

theorem brow_smul (c : K) (A : Mat m n K) (B : Mat m p K) :
    brow (c • A) (c • B) = c • brow A B := by
  ext i j
  refine Fin.addCases (fun j => ?_) (fun j => ?_) j <;> simp [brow]

theorem bcol_smul (c : K) (A : Mat m n K) (B : Mat p n K) :
    bcol (c • A) (c • B) = c • bcol A B := by
  ext i j
  refine Fin.addCases (fun i => ?_) (fun i => ?_) i <;> simp [bcol]

theorem det_bdiag (A : Mat m m K) (B : Mat n n K) : (bdiag A B).det = A.det * B.det := by
  simp [bdiag, Matrix.det_fromBlocks_zero₂₁]

theorem diag_bdiag (A : Mat m m K) (B : Mat n n K) :
    Matrix.diag (bdiag A B) = Fin.append (Matrix.diag A) (Matrix.diag B) := by
  ext i
  refine Fin.addCases (fun i => ?_) (fun i => ?_) i <;> simp [bdiag, Matrix.diag]

end MiciVerif.Matrices
