/-
Definitions shared by `Props/C13K.lean` and `Props/C15K.lean` (builder B16): the arrays
`_init_traces` / `_init_stats` create, as read from the trees regenerated from the tree under test
(`Generated/SamplerStorageSkeleton.lean`) with the readings of `Model/SamplerStorageSkeleton.lean`.
Definitions only: nothing here can fail when the generated trees change.
-/
import MiciVerif.Generated.SamplerStorageSkeleton

namespace MiciVerif.SamplerStorage
open MiciVerif.Skel
open MiciVerif.Skel.Storage
open MiciVerif.Generated.SamplerStorageSkeleton (initTraces initStats)

/-- the fill rule of the generated `_init_traces`: `init = … if np.issubdtype(…) else …` -/
def traceRule : Option (Kind → Fill) := fillRule (initTraces.all)

/-- arrays `_init_traces` creates for one key, as read from the generated tree -/
def traceArrays (memmap : Bool) (env : Env) : Option (List Arr) :=
  (findAlloc initTraces).bind fun p => if memmap then p.mapArrays traceRule env else p.memArrays traceRule env

/-- arrays `_init_stats` creates for one (transition, key), as read from the generated tree -/
def statArrays (memmap : Bool) (env : Env) : Option (List Arr) :=
  (findAlloc initStats).bind fun p => if memmap then p.mapArrays Option.none env else p.memArrays Option.none env

end MiciVerif.SamplerStorage
