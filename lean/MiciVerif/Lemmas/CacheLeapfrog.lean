/-
Leapfrog trajectories in the cache model: how often the gradient wrapper is evaluated.
-/
import MiciVerif.Lemmas.CacheCost

namespace MiciVerif.Cache

variable {tbl : Table} {cfg : Cfg}

/-! ### all three invariants together -/

structure LInv (tbl : Table) (cfg : Cfg) (h : Heap) : Prop where
  inv : Inv tbl cfg h
  rp : RegPrecise tbl cfg h
  na : NoAliasInv h

theorem linv_init : LInv tbl cfg Heap.init := ⟨inv_init _ _, regPrecise_init, noAlias_init⟩

theorem linv_step (hs : DepsSound tbl) (hp : DepsPrecise tbl) (hna : ∀ s m, cfg.aliasRet s m = none)
    (h : Heap) (hi : LInv tbl cfg h) (op : Op) : LInv tbl cfg (step tbl cfg h op).1 :=
  ⟨inv_step hs h hi.inv op (safeOp_of_noAlias h hi.na op), regPrecise_step hp h hi.rp op,
   noAlias_step tbl cfg hna h hi.na op⟩

theorem linv_final (hs : DepsSound tbl) (hp : DepsPrecise tbl) (hna : ∀ s m, cfg.aliasRet s m = none) :
    ∀ (ops : List Op) (h : Heap), LInv tbl cfg h → LInv tbl cfg (finalHeap tbl cfg h ops) := by
  intro ops
  induction ops with
  | nil => intro h hi; exact hi
  | cons o ops ih => intro h hi; exact ih _ (linv_step hs hp hna h hi o)

/-! ### counting evaluations -/

def outCount (k : Key) : Out → Nat
  | .val _ l => l.count k
  | _ => 0

/-- number of evaluations of the wrapped method with key `k` in an executed history -/
def evalCount (k : Key) (tr : List (Heap × Op × Out)) : Nat := (tr.map (fun t => outCount k t.2.2)).sum

theorem run_append (h : Heap) (a b : List Op) :
    run tbl cfg h (a ++ b) = run tbl cfg h a ++ run tbl cfg (finalHeap tbl cfg h a) b := by
  induction a generalizing h with
  | nil => rfl
  | cons o a ih => simp only [List.cons_append, run, finalHeap, ih]

theorem evalCount_append (k : Key) (a b : List (Heap × Op × Out)) :
    evalCount k (a ++ b) = evalCount k a + evalCount k b := by
  simp [evalCount, List.map_append, List.sum_append]

theorem evalCount_nil (k : Key) : evalCount k [] = 0 := rfl

theorem evalCount_cons (k : Key) (t : Heap × Op × Out) (a : List (Heap × Op × Out)) :
    evalCount k (t :: a) = outCount k t.2.2 + evalCount k a := by
  simp [evalCount]

/-! ### the shape of a Euclidean-metric system that the leapfrog integrator relies on -/

/-- `dh1` is an uncached method that just calls the cached leaf `g` (the gradient wrapper, true
dependency `pos`); `v` (`dh2_dmom`) is another cached leaf without auxiliary outputs. -/
structure LeapfrogSys (tbl : Table) (cfg : Cfg) (sys dh1 g v : Nat) where
  e1 : Entry
  eg : Entry
  ev : Entry
  l1 : lookup tbl (cfg.clsOf sys) dh1 = some e1
  c1 : e1.cached = false
  calls1 : e1.calls = [g]
  lg : lookup tbl (cfg.clsOf sys) g = some eg
  cg : eg.cached = true
  callsg : eg.calls = []
  depsg : eg.trueDeps = ⟨true, false, false⟩
  lv : lookup tbl (cfg.clsOf sys) v = some ev
  cv : ev.cached = true
  callsv : ev.calls = []
  auxv : ev.withAux = false
  vg : v ≠ g

/-- decidable form of `LeapfrogSys` for a class of a table -/
def leapfrogShapeB (tbl : Table) (cls dh1 g v : Nat) : Bool :=
  match lookup tbl cls dh1, lookup tbl cls g, lookup tbl cls v with
  | some e1, some eg, some ev =>
    !e1.cached && e1.calls == [g] && eg.cached && eg.calls == [] && eg.trueDeps == ⟨true, false, false⟩
      && ev.cached && ev.calls == [] && !ev.withAux && v != g
  | _, _, _ => false

def LeapfrogSys.ofShape (sys dh1 g v : Nat) (h : leapfrogShapeB tbl (cfg.clsOf sys) dh1 g v = true) :
    LeapfrogSys tbl cfg sys dh1 g v :=
  match h1 : lookup tbl (cfg.clsOf sys) dh1, hg : lookup tbl (cfg.clsOf sys) g, hv : lookup tbl (cfg.clsOf sys) v with
  | some e1, some eg, some ev =>
    have hh : (!e1.cached && e1.calls == [g] && eg.cached && eg.calls == [] && eg.trueDeps == ⟨true, false, false⟩
        && ev.cached && ev.calls == [] && !ev.withAux && v != g) = true := by
      simpa [leapfrogShapeB, h1, hg, hv] using h
    { e1 := e1, eg := eg, ev := ev, l1 := h1, lg := hg, lv := hv
      c1 := by simp only [Bool.and_eq_true] at hh; simpa using hh.1.1.1.1.1.1.1.1
      calls1 := by simp only [Bool.and_eq_true] at hh; simpa using hh.1.1.1.1.1.1.1.2
      cg := by simp only [Bool.and_eq_true] at hh; exact hh.1.1.1.1.1.1.2
      callsg := by simp only [Bool.and_eq_true] at hh; simpa using hh.1.1.1.1.1.2
      depsg := by simp only [Bool.and_eq_true] at hh; simpa using hh.1.1.1.1.2
      cv := by simp only [Bool.and_eq_true] at hh; exact hh.1.1.1.2
      callsv := by simp only [Bool.and_eq_true] at hh; simpa using hh.1.1.2
      auxv := by simp only [Bool.and_eq_true] at hh; simpa using hh.1.2
      vg := by simp only [Bool.and_eq_true] at hh; simpa using hh.2 }
  | none, _, _ => absurd h (by simp [leapfrogShapeB, h1])
  | some _, none, _ => absurd h (by simp [leapfrogShapeB, h1, hg])
  | some _, some _, none => absurd h (by simp [leapfrogShapeB, h1, hg, hv])

theorem callM_uncached_single (sid sys m g : Nat) (e : Entry) (hl : lookup tbl (cfg.clsOf sys) m = some e)
    (hc : e.cached = false) (hcalls : e.calls = [g]) (f : Nat) (h : Heap) :
    (callM tbl cfg (f + 1) h sid sys m).tr = (callM tbl cfg f h sid sys g).tr ∧
    (callM tbl cfg (f + 1) h sid sys m).h = (callM tbl cfg f h sid sys g).h := by
  simp [callM, hl, hc, bodyM, hcalls, runCalls]

/-- a cold call of a cached leaf evaluates exactly that leaf and caches its value -/
theorem callM_leaf_cold (sid sys g : Nat) (e : Entry) (hl : lookup tbl (cfg.clsOf sys) g = some e)
    (hc : e.cached = true) (hcalls : e.calls = []) (f : Nat) (h : Heap)
    (hcold : isVal ((h.st sid).cache ⟨sys, g⟩) = false) :
    (callM tbl cfg (f + 1) h sid sys g).tr = [⟨sys, g⟩] ∧
    isVal (((callM tbl cfg (f + 1) h sid sys g).h.st sid).cache ⟨sys, g⟩) = true := by
  have hm : e.meth = g := (lookup_some hl).2.2
  simp only [callM, hl, hc, if_true, wrapM, hm]
  split
  · rename_i v hv
    have : (h.st sid).cache ⟨sys, g⟩ = some (some v) := hv
    rw [this] at hcold; cases hcold
  · simp [bodyM, hcalls, runCalls, setSt, store, isVal]

/-- calling a cached leaf `v` without auxiliary outputs never touches another key `k` -/
theorem callM_leaf_other (sid sys v : Nat) (e : Entry) (hl : lookup tbl (cfg.clsOf sys) v = some e)
    (hc : e.cached = true) (hcalls : e.calls = []) (haux : e.withAux = false) (f : Nat) (h : Heap)
    (k : Key) (hk : k ≠ ⟨sys, v⟩) :
    (callM tbl cfg (f + 1) h sid sys v).tr.count k = 0 ∧
    ((callM tbl cfg (f + 1) h sid sys v).h.st sid).cache k = (h.st sid).cache k := by
  have hm : e.meth = v := (lookup_some hl).2.2
  simp only [callM, hl, hc, if_true, wrapM, hm, haux]
  split
  · exact ⟨rfl, rfl⟩
  · simp only [bodyM, hcalls, runCalls, List.nil_append, setSt, if_true, store, hk, if_false,
      Bool.false_eq_true, List.take_zero, List.map_nil, List.contains_nil]
    refine ⟨?_, rfl⟩
    simp only [List.count_cons, List.count_nil, Nat.zero_add]
    have : (({ sys := sys, meth := v } : Key) == k) = false := by
      cases hb : (({ sys := sys, meth := v } : Key) == k) with
      | false => rfl
      | true => exact absurd (by simpa using hb : ({ sys := sys, meth := v } : Key) = k).symm hk
    simp [this]

/-! ### one leapfrog step, operation by operation -/

/-- is the gradient wrapper's value cached in state `c`? -/
def gw (h : Heap) (c sys g : Nat) : Bool := isVal ((h.st c).cache ⟨sys, g⟩)

/-- state `c` exists, is writable and its arrays are writable -/
def Writable (h : Heap) (c : Nat) : Prop := c < h.nSt ∧ (h.st c).readOnly = false ∧ (h.st c).frozen = false

section
variable (hs : DepsSound tbl) (hp : DepsPrecise tbl) (hna : ∀ s m, cfg.aliasRet s m = none)
variable {sys dh1 g v : Nat} (L : LeapfrogSys tbl cfg sys dh1 g v)
include hs hp hna

theorem writable_call (h : Heap) (hi : LInv tbl cfg h) (c s m : Nat) (hw : Writable h c) :
    Writable (step tbl cfg h (.call s sys m)).1 c ∧ (step tbl cfg h (.call s sys m)).1.nSt = h.nSt := by
  simp only [step]
  split
  · have hf := (callTop_spec hs h hi.inv s sys m).2.1
    exact ⟨⟨by rw [hf.nSt]; exact hw.1, by rw [hf.ro]; exact hw.2.1, by rw [hf.frozen]; exact hw.2.2⟩, hf.nSt⟩
  · exact ⟨hw, rfl⟩

include L

theorem step_call_dh1 (h : Heap) (hi : LInv tbl cfg h) (c : Nat) (hw : Writable h c) :
    outCount ⟨sys, g⟩ (step tbl cfg h (.call c sys dh1)).2 = (if gw h c sys g then 0 else 1) ∧
    gw (step tbl cfg h (.call c sys dh1)).1 c sys g = true := by
  have hf := facts_of_sound hs L.l1
  obtain ⟨ec, _, hr⟩ := hf.calls g (by rw [L.calls1]; exact List.mem_singleton.mpr rfl)
  obtain ⟨r, hr1⟩ : ∃ r, L.e1.rank = r + 1 := ⟨L.e1.rank - 1, by omega⟩
  simp only [step, hw.1, if_true, callTop, L.l1, hr1, outCount, gw]
  obtain ⟨htr, hh⟩ := callM_uncached_single (tbl := tbl) (cfg := cfg) c sys dh1 g L.e1 L.l1 L.c1 L.calls1 (r + 1) h
  rw [htr, hh]
  by_cases hg : isVal ((h.st c).cache ⟨sys, g⟩) = true
  · have hwarm : Warm tbl cfg (h.st c).cache sys (r + 1) g := by
      simp only [Warm, L.lg, L.cg, if_true]; exact hg
    obtain ⟨h1, h2⟩ := hit_of_warm (tbl := tbl) (cfg := cfg) c sys (r + 1) g h hwarm
    rw [h1, h2]
    exact ⟨by simp [hg], hg⟩
  · have hg' : isVal ((h.st c).cache ⟨sys, g⟩) = false := by simpa using hg
    obtain ⟨h1, h2⟩ := callM_leaf_cold (tbl := tbl) (cfg := cfg) c sys g L.eg L.lg L.cg L.callsg r h hg'
    rw [h1]
    exact ⟨by simp [hg'], h2⟩

theorem step_call_v (h : Heap) (hi : LInv tbl cfg h) (c : Nat) (hw : Writable h c) :
    outCount ⟨sys, g⟩ (step tbl cfg h (.call c sys v)).2 = 0 ∧
    gw (step tbl cfg h (.call c sys v)).1 c sys g = gw h c sys g := by
  have hk : (⟨sys, g⟩ : Key) ≠ ⟨sys, v⟩ := by
    intro hh; exact L.vg (by cases hh; rfl)
  obtain ⟨h1, h2⟩ := callM_leaf_other (tbl := tbl) (cfg := cfg) c sys v L.ev L.lv L.cv L.callsv L.auxv L.ev.rank h ⟨sys, g⟩ hk
  simp only [step, hw.1, if_true, callTop, L.lv, outCount, gw]
  exact ⟨h1, by rw [h2]⟩

omit hs hp hna L in
theorem outCount_assignIP (k : Key) (h : Heap) (c : Nat) (x : Var) :
    outCount k (step tbl cfg h (.assignIP c x)).2 = 0 := by
  simp only [step]
  split
  · split
    · rfl
    · split <;> rfl
  · rfl

omit hs hp hna L in
theorem writable_assignIP (h : Heap) (c : Nat) (x : Var) (hw : Writable h c) :
    Writable (step tbl cfg h (.assignIP c x)).1 c ∧ (step tbl cfg h (.assignIP c x)).1.nSt = h.nSt := by
  rw [step_assignIP_eq h c x hw.1 hw.2.2 hw.2.1]
  refine ⟨⟨hw.1, ?_, ?_⟩, rfl⟩
  · simp only [ipHeap, if_true]; exact hw.2.1
  · simp only [ipHeap, if_true]; exact hw.2.2

theorem step_ip_mom (h : Heap) (hi : LInv tbl cfg h) (c : Nat) (hg : gw h c sys g = true) :
    gw (step tbl cfg h (.assignIP c .mom)).1 c sys g = true := by
  apply cache_after_assignIP h c .mom ⟨sys, g⟩ _ hg
  cases hc : h.cells (h.st c).cell .mom ⟨sys, g⟩ with
  | false => rfl
  | true =>
    have := hi.rp _ .mom ⟨sys, g⟩ L.eg hc (by simp [keyEntry, L.lg]) L.cg
    rw [L.depsg] at this; cases this

theorem step_ip_pos (h : Heap) (hi : LInv tbl cfg h) (c : Nat) (hw : Writable h c) :
    gw (step tbl cfg h (.assignIP c .pos)).1 c sys g = false := by
  rw [step_assignIP_eq h c .pos hw.1 hw.2.2 hw.2.1]
  simp only [gw, ipHeap, if_true, sweepSt_cell]
  by_cases hc : h.cells (h.st c).cell .pos ⟨sys, g⟩ = true
  · simp [hc, isVal]
  · simp only [hc, Bool.false_eq_true, if_false]
    rw [isVal_sweep]
    cases hv : isVal ((h.st c).cache ⟨sys, g⟩) with
    | false => rfl
    | true =>
      obtain ⟨v0, hv0⟩ := isVal_iff.mp hv
      exact absurd (hi.inv.present c ⟨sys, g⟩ L.eg (by rw [hv0]; simp) (by simp [keyEntry, L.lg]) L.cg .pos
        (by rw [L.depsg]; rfl)) hc

/-- the operations of one `LeapfrogIntegrator.step` from state `s` on a heap with `n` states:
`state = state.copy()`; `h1_flow` (`mom -= dt/2 * dh1_dpos(state)`); `h2_flow`
(`pos += dt * dh2_dmom(state)`); `h1_flow` -/
def leapfrogStep (sys dh1 v s n : Nat) : List Op :=
  [.copy s false, .call n sys dh1, .assignIP n .mom, .call n sys v, .assignIP n .pos, .call n sys dh1,
   .assignIP n .mom]

theorem leapfrog_one_step (h : Heap) (hi : LInv tbl cfg h) (s : Nat) (hlt : s < h.nSt) :
    evalCount ⟨sys, g⟩ (run tbl cfg h (leapfrogStep sys dh1 v s h.nSt)) = 1 + (if gw h s sys g then 0 else 1) ∧
    LInv tbl cfg (finalHeap tbl cfg h (leapfrogStep sys dh1 v s h.nSt)) ∧
    (finalHeap tbl cfg h (leapfrogStep sys dh1 v s h.nSt)).nSt = h.nSt + 1 ∧
    gw (finalHeap tbl cfg h (leapfrogStep sys dh1 v s h.nSt)) h.nSt sys g = true := by
  -- 1. copy
  have w1 : Writable (step tbl cfg h (.copy s false)).1 h.nSt := by simp [step, hlt, Writable]
  have n1 : (step tbl cfg h (.copy s false)).1.nSt = h.nSt + 1 := by simp [step, hlt]
  have g1 : gw (step tbl cfg h (.copy s false)).1 h.nSt sys g = gw h s sys g := by simp [step, hlt, gw]
  have o1 : outCount ⟨sys, g⟩ (step tbl cfg h (.copy s false)).2 = 0 := by simp [step, hlt, outCount]
  generalize hh1 : (step tbl cfg h (.copy s false)).1 = h1 at w1 n1 g1
  have i1 : LInv tbl cfg h1 := hh1 ▸ linv_step hs hp hna h hi _
  -- 2. dh1_dpos
  obtain ⟨o2, g2'⟩ := step_call_dh1 hs hp hna L h1 i1 h.nSt w1
  obtain ⟨w2, n2⟩ := writable_call hs hp hna h1 i1 h.nSt h.nSt dh1 w1
  generalize hh2 : (step tbl cfg h1 (.call h.nSt sys dh1)).1 = h2 at g2' w2 n2
  have i2 : LInv tbl cfg h2 := hh2 ▸ linv_step hs hp hna h1 i1 _
  -- 3. mom in place
  have g3' := step_ip_mom hs hp hna L h2 i2 h.nSt g2'
  obtain ⟨w3, n3⟩ := writable_assignIP (tbl := tbl) (cfg := cfg) h2 h.nSt .mom w2
  have o3 := outCount_assignIP (tbl := tbl) (cfg := cfg) ⟨sys, g⟩ h2 h.nSt .mom
  generalize hh3 : (step tbl cfg h2 (.assignIP h.nSt .mom)).1 = h3 at g3' w3 n3
  have i3 : LInv tbl cfg h3 := hh3 ▸ linv_step hs hp hna h2 i2 _
  -- 4. dh2_dmom
  obtain ⟨o4, g4'⟩ := step_call_v hs hp hna L h3 i3 h.nSt w3
  obtain ⟨w4, n4⟩ := writable_call hs hp hna h3 i3 h.nSt h.nSt v w3
  generalize hh4 : (step tbl cfg h3 (.call h.nSt sys v)).1 = h4 at g4' w4 n4
  have i4 : LInv tbl cfg h4 := hh4 ▸ linv_step hs hp hna h3 i3 _
  -- 5. pos in place
  have g5' := step_ip_pos hs hp hna L h4 i4 h.nSt w4
  obtain ⟨w5, n5⟩ := writable_assignIP (tbl := tbl) (cfg := cfg) h4 h.nSt .pos w4
  have o5 := outCount_assignIP (tbl := tbl) (cfg := cfg) ⟨sys, g⟩ h4 h.nSt .pos
  generalize hh5 : (step tbl cfg h4 (.assignIP h.nSt .pos)).1 = h5 at g5' w5 n5
  have i5 : LInv tbl cfg h5 := hh5 ▸ linv_step hs hp hna h4 i4 _
  -- 6. dh1_dpos
  obtain ⟨o6, g6'⟩ := step_call_dh1 hs hp hna L h5 i5 h.nSt w5
  obtain ⟨w6, n6⟩ := writable_call hs hp hna h5 i5 h.nSt h.nSt dh1 w5
  generalize hh6 : (step tbl cfg h5 (.call h.nSt sys dh1)).1 = h6 at g6' w6 n6
  have i6 : LInv tbl cfg h6 := hh6 ▸ linv_step hs hp hna h5 i5 _
  -- 7. mom in place
  have g7' := step_ip_mom hs hp hna L h6 i6 h.nSt g6'
  obtain ⟨_, n7⟩ := writable_assignIP (tbl := tbl) (cfg := cfg) h6 h.nSt .mom w6
  have o7 := outCount_assignIP (tbl := tbl) (cfg := cfg) ⟨sys, g⟩ h6 h.nSt .mom
  generalize hh7 : (step tbl cfg h6 (.assignIP h.nSt .mom)).1 = h7 at g7' n7
  have i7 : LInv tbl cfg h7 := hh7 ▸ linv_step hs hp hna h6 i6 _
  have hfin : finalHeap tbl cfg h (leapfrogStep sys dh1 v s h.nSt) = h7 := by
    simp only [leapfrogStep, finalHeap, hh1, hh2, hh3, hh4, hh5, hh6, hh7]
  refine ⟨?_, hfin ▸ i7, ?_, ?_⟩
  · rw [g1] at o2
    rw [g5'] at o6
    simp only [Bool.false_eq_true, if_false] at o6
    simp only [leapfrogStep, run, evalCount_cons, evalCount_nil, hh1, hh2, hh3, hh4, hh5, hh6, o1, o2, o3, o4, o5,
      o6, o7]
    omega
  · rw [hfin, n7, n6, n5, n4, n3, n2, n1]
  · rw [hfin]; exact g7'

/-- `n` consecutive integrator steps: every step starts from the state the previous one produced -/
def leapfrogTraj (sys dh1 v : Nat) : Nat → Nat → Nat → List Op
  | 0, _, _ => []
  | k + 1, s, n => leapfrogStep sys dh1 v s n ++ leapfrogTraj sys dh1 v k n (n + 1)

theorem leapfrog_traj_count :
    ∀ (k : Nat) (h : Heap), LInv tbl cfg h → ∀ s, s < h.nSt →
      evalCount ⟨sys, g⟩ (run tbl cfg h (leapfrogTraj sys dh1 v k s h.nSt)) =
        if k = 0 then 0 else k + (if gw h s sys g then 0 else 1) := by
  intro k
  induction k with
  | zero => intro h _ s _; rfl
  | succ k ih =>
    intro h hi s hlt
    obtain ⟨hc, hi', hn, hg⟩ := leapfrog_one_step hs hp hna L h hi s hlt
    simp only [leapfrogTraj, run_append, evalCount_append, hc]
    have := ih (finalHeap tbl cfg h (leapfrogStep sys dh1 v s h.nSt)) hi' h.nSt (by omega)
    rw [hn] at this
    rw [this, hg]
    cases k with
    | zero => simp
    | succ k => simp; omega

end

end MiciVerif.Cache
