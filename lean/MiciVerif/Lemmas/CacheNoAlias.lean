/-
No system method returns a state variable's own array (`Cfg.aliasRet = none`)  ⇒  no cached value
aliases an array, read-only states are frozen, and hence every history is `SafeHist`.
-/
import MiciVerif.Lemmas.CacheOps

namespace MiciVerif.Cache

/-- no cached value is a state variable's array, and read-only states are frozen -/
structure NoAliasInv (h : Heap) : Prop where
  noAlias : ∀ i k v, (h.st i).cache k = some (some v) → v.aliasOf = none
  frozen : ∀ i, (h.st i).frozen = (h.st i).readOnly

theorem noAlias_runCalls (call : Heap → Nat → Res)
    (hcall : ∀ h c, NoAliasInv h → NoAliasInv (call h c).h) :
    ∀ (cs : List Nat) (h : Heap) (p : Prov3), NoAliasInv h → NoAliasInv (runCalls call h p cs).1 := by
  intro cs
  induction cs with
  | nil => intro h p hi; exact hi
  | cons c cs ih => intro h p hi; simp only [runCalls]; exact ih _ _ (hcall h c hi)

theorem noAlias_callM (tbl : Table) (cfg : Cfg) (hna : ∀ s m, cfg.aliasRet s m = none) (sid sys : Nat) :
    ∀ (fuel m : Nat) (h : Heap), NoAliasInv h → NoAliasInv (callM tbl cfg fuel h sid sys m).h := by
  intro fuel
  induction fuel with
  | zero => intro m h hi; exact hi
  | succ fuel ih =>
    intro m h hi
    simp only [callM]
    split
    · exact hi
    · rename_i e _
      have hbody : ∀ h', NoAliasInv h' →
          NoAliasInv (bodyM cfg (fun h c => callM tbl cfg fuel h sid sys c) e sid sys h').h ∧
          (bodyM cfg (fun h c => callM tbl cfg fuel h sid sys c) e sid sys h').v.aliasOf = none := by
        intro h' hi'
        refine ⟨noAlias_runCalls _ (fun h c hh => ih c h hh) _ _ _ hi', ?_⟩
        simp [bodyM, hna]
      by_cases hcached : e.cached = true
      · -- cached
        simp only [hcached, if_true, wrapM]
        generalize (if e.withAux then (⟨sys, e.meth⟩ : Key) :: e.aux.map (Key.mk sys) else [⟨sys, e.meth⟩]) = keys
        have hreg : NoAliasInv (register h sid keys e.declared) := ⟨hi.noAlias, hi.frozen⟩
        split
        · exact hreg
        · obtain ⟨hb, hv⟩ := hbody _ hreg
          generalize (if e.withAux then cfg.auxRet sys e.meth else 0) = nAux
          refine ⟨?_, ?_⟩
          · intro i k v hc
            simp only [setSt] at hc
            by_cases his : i = sid
            · simp only [his, if_true, store] at hc
              by_cases hk1 : k = ⟨sys, e.meth⟩
              · simp only [hk1, if_true, Option.some.injEq] at hc; rw [← hc]; exact hv
              · simp only [hk1, if_false] at hc
                by_cases hk2 : (List.map (Key.mk sys) (List.take nAux e.aux)).contains k = true
                · simp only [hk2, if_true, Option.some.injEq] at hc; rw [← hc]
                · simp only [hk2] at hc; exact hb.noAlias sid k v hc
            · simp only [his, if_false] at hc; exact hb.noAlias i k v hc
          · intro i; simp only [setSt]; split
            · simp only [store]; exact hb.frozen i
            · exact hb.frozen i
      · simp only [hcached]
        exact (hbody h hi).1

theorem noAlias_step (tbl : Table) (cfg : Cfg) (hna : ∀ s m, cfg.aliasRet s m = none)
    (h : Heap) (hi : NoAliasInv h) (op : Op) : NoAliasInv (step tbl cfg h op).1 := by
  cases op with
  | assign sid x =>
    simp only [step]; split
    · split
      · exact hi
      · refine ⟨?_, ?_⟩
        · intro i k v hc
          simp only [setSt] at hc
          split at hc
          · simp only [invalidate] at hc
            split at hc
            · cases hc
            · rename_i his _; subst his; exact hi.noAlias _ k v hc
          · exact hi.noAlias i k v hc
        · intro i; simp only [setSt]; split
          · rename_i his; subst his; exact hi.frozen _
          · exact hi.frozen i
    · exact hi
  | assignIP sid x =>
    by_cases hlt : sid < h.nSt
    · cases hfz : (h.st sid).frozen with
      | true => simp only [step, hlt, if_true, hfz]; exact hi
      | false =>
        have hro : (h.st sid).readOnly = false := by rw [← hi.frozen sid]; exact hfz
        rw [step_assignIP_eq h sid x hlt hfz hro]
        refine ⟨?_, ?_⟩
        · intro i k v hc
          simp only [ipHeap] at hc
          have key : ∀ v', (sweepSt ((h.st sid).arr x) x h.nextStamp (h.st i)).cache k = some (some v') →
              v'.aliasOf = none := by
            intro v' hv'
            obtain ⟨v0, hv0, hsame⟩ := sweepSt_cache_some _ _ _ _ _ _ hv'
            have h0 := hi.noAlias i k v0 hv0
            rw [hsame (by rw [h0]; simp)]; exact h0
          split at hc
          · dsimp only at hc
            split at hc
            · cases hc
            · exact key v hc
          · exact key v hc
        · intro i; simp only [ipHeap]; split <;> exact hi.frozen i
    · simp only [step, hlt, if_false]; exact hi
  | copy sid ro =>
    simp only [step]; split
    · refine ⟨?_, ?_⟩
      · intro i k v hc; simp only at hc; split at hc
        · exact hi.noAlias sid k v hc
        · exact hi.noAlias i k v hc
      · intro i; simp only; split
        · rfl
        · exact hi.frozen i
    · exact hi
  | pickle sid =>
    simp only [step]; split
    · refine ⟨?_, ?_⟩
      · intro i k v hc; simp only at hc; split at hc
        · cases hc0 : (h.st sid).cache k with
          | none => simp [hc0] at hc
          | some o =>
            cases o with
            | none => simp [hc0] at hc
            | some v0 =>
              simp only [hc0] at hc
              split at hc
              · cases hc
              · simp only [Option.some.injEq] at hc
                rw [← hc]; simp [hi.noAlias sid k v0 hc0]
        · exact hi.noAlias i k v hc
      · intro i; simp only; split
        · rfl
        · exact hi.frozen i
    · exact hi
  | fresh =>
    simp only [step]
    refine ⟨?_, ?_⟩
    · intro i k v hc; simp only at hc; split at hc
      · cases hc
      · exact hi.noAlias i k v hc
    · intro i; simp only; split
      · rfl
      · exact hi.frozen i
  | call sid sys m =>
    simp only [step]; split
    · simp only [callTop]; split
      · exact hi
      · exact noAlias_callM tbl cfg hna sid sys _ m h hi
    · exact hi

theorem safeOp_of_noAlias (h : Heap) (hi : NoAliasInv h) (op : Op) : SafeOp h op := by
  cases op with
  | assignIP sid x =>
    intro _
    cases hfz : (h.st sid).frozen with
    | true => exact Or.inl hfz
    | false =>
      refine Or.inr ⟨by rw [← hi.frozen sid]; exact hfz, ?_⟩
      intro i k v hc hal
      rw [hi.noAlias i k v hc] at hal; cases hal
  | _ => trivial

theorem safe_of_noAlias (tbl : Table) (cfg : Cfg) (hna : ∀ s m, cfg.aliasRet s m = none) :
    ∀ (ops : List Op) (h : Heap), NoAliasInv h → SafeHist tbl cfg h ops := by
  intro ops
  induction ops with
  | nil => intro h _; trivial
  | cons o ops ih =>
    intro h hi
    exact ⟨safeOp_of_noAlias h hi o, ih _ (noAlias_step tbl cfg hna h hi o)⟩

theorem noAlias_init : NoAliasInv Heap.init := by
  refine ⟨?_, ?_⟩
  · intro i k v hc; simp only [Heap.init] at hc; split at hc <;> simp [St.empty] at hc
  · intro i; simp only [Heap.init]; split <;> simp [St.empty]

end MiciVerif.Cache
