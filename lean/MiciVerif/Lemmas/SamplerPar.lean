/-
Parallel stage: canonical form independent of the schedule.
-/
import MiciVerif.Lemmas.SamplerIntr

namespace MiciVerif.Sampler
open MiciVerif.Stagers

variable {S V A P : Type}

/-- what the caller of `_sample_chain` can observe of a chain run besides the (worker-local)
transition parameters -/
def obs (r : Run S V A P) : S × Rng × A × List Draw × Mem V × Bool :=
  (r.ctx.state, r.ctx.rng, r.ctx.adapt, r.ctx.log, r.mem, r.halted)

/-- Hypothesis on the user's adapters / transitions (true of the built-in ones, see the note in
Props/C14): there is an equivalence `E k` on transition parameters per stage kind such that a
chain run's observable result only depends on the class of the parameters it starts from, a chain
run keeps the parameters inside the class (`initialize` re-establishes whatever the run depends
on), `finalize` maps equivalent parameters to equal ones, and nothing changes parameters in a
non-adaptive stage. -/
structure AdaptLocal (K : Kernel S V A P) (E : Kind → P → P → Prop) : Prop where
  refl : ∀ k p, E k p p
  symm : ∀ k p q, E k p q → E k q p
  trans : ∀ k p q r, E k p q → E k q r → E k p r
  resp : ∀ st offset ci p q ch, E st.kind p q →
    obs (chainRes K st offset ci p ch) = obs (chainRes K st offset ci q ch)
  pres : ∀ st offset ci p ch, E st.kind p (chainRes K st offset ci p ch).ctx.params
  fin : ∀ k as ss p q rngs, k ≠ .main → E k p q → K.fin k as ss p rngs = K.fin k as ss q rngs
  main : ∀ p q, E .main p q → p = q

/-- every chain index `< n` is taken by exactly one worker, exactly once -/
def ValidSched (sched : List (List Nat)) (n : Nat) : Prop := sched.flatten.Perm (List.range n)

instance (sched : List (List Nat)) (n : Nat) : Decidable (ValidSched sched n) := by
  unfold ValidSched; infer_instance

/-- chain `c0` is the last chain its worker takes -/
def LastOf (sched : List (List Nat)) (c0 : Nat) : Prop :=
  ∀ todo ∈ sched, ∀ a b, todo = a ++ c0 :: b → b = []

def canonOut (K : Kernel S V A P) (st : Stage) (offset : Nat) (intr : Option (Nat × Nat × Nat))
    (p : P) (c : Nat) (ch : Chain S V) : WOut S V A :=
  let r := chainRes K st offset (chainIntr intr c) p ch
  ⟨⟨c, r.ctx.state, r.ctx.adapt, r.ctx.rng⟩, r.mem, r.ctx.log, r.halted⟩

def canonOuts (K : Kernel S V A P) (st : Stage) (offset : Nat) (intr : Option (Nat × Nat × Nat))
    (p : P) (chs : List (Chain S V)) : List (WOut S V A) :=
  chs.mapIdx (fun c ch => canonOut K st offset intr p c ch)

def canonChains (K : Kernel S V A P) (st : Stage) (offset : Nat) (intr : Option (Nat × Nat × Nat))
    (restore : Bool) (p : P) (chs : List (Chain S V)) : List (Chain S V) :=
  chs.mapIdx (fun c ch =>
    let o := canonOut K st offset intr p c ch
    ⟨ch.state, if restore then o.out.rng else ch.rng, o.mem, o.log⟩)

/-- every chain run from the stage-start parameters, outputs in chain order -/
def canonPar (K : Kernel S V A P) (st : Stage) (offset : Nat) (intr : Option (Nat × Nat × Nat))
    (restore : Bool) (p : P) (chs : List (Chain S V)) : Acc S V A P :=
  ⟨p, (canonOuts K st offset intr p chs).map (·.out), canonChains K st offset intr restore p chs,
   (canonOuts K st offset intr p chs).any (·.halted)⟩

theorem chainRes_none_halted (K : Kernel S V A P) (st : Stage) (offset : Nat) (p : P)
    (ch : Chain S V) : (chainRes K st offset none p ch).halted = false := by
  rw [chainRes_none, foldOps_halted]; rfl

/-! ### a worker -/

theorem workerRun_canon (K : Kernel S V A P) (E : Kind → P → P → Prop) (hE : AdaptLocal K E)
    (st : Stage) (offset : Nat) (intr : Option (Nat × Nat × Nat)) (chs : List (Chain S V)) (p : P) :
    ∀ (todo : List Nat) (q : P), E st.kind p q →
      (∀ c0 i j, intr = some (c0, i, j) → ∀ a b, todo = a ++ c0 :: b → b = []) →
      workerRun K st offset intr chs todo q =
        todo.filterMap (fun c => (chs[c]?).map (canonOut K st offset intr p c)) := by
  intro todo
  induction todo with
  | nil => intro q _ _; rfl
  | cons c todo ih =>
    intro q hq hlast
    have hlast' : ∀ c0 i j, intr = some (c0, i, j) → ∀ a b, todo = a ++ c0 :: b → b = [] := by
      intro c0 i j he a b hab
      exact hlast c0 i j he (c :: a) b (by simp [hab])
    cases hc : chs[c]? with
    | none =>
      simp only [workerRun, hc, List.filterMap_cons, Option.map_none]
      exact ih q hq hlast'
    | some ch =>
      simp only [workerRun, hc, List.filterMap_cons, Option.map_some]
      have hobs := hE.resp st offset (chainIntr intr c) p q ch hq
      simp only [obs, Prod.mk.injEq] at hobs
      obtain ⟨h1, h2, h3, h4, h5, h6⟩ := hobs
      have hhead : (⟨⟨c, (sampleChain K st offset (chainIntr intr c) q ch.state ch.rng ch.log ch.mem).ctx.state,
          (sampleChain K st offset (chainIntr intr c) q ch.state ch.rng ch.log ch.mem).ctx.adapt,
          (sampleChain K st offset (chainIntr intr c) q ch.state ch.rng ch.log ch.mem).ctx.rng⟩,
          (sampleChain K st offset (chainIntr intr c) q ch.state ch.rng ch.log ch.mem).mem,
          (sampleChain K st offset (chainIntr intr c) q ch.state ch.rng ch.log ch.mem).ctx.log,
          (sampleChain K st offset (chainIntr intr c) q ch.state ch.rng ch.log ch.mem).halted⟩ : WOut S V A) =
          canonOut K st offset intr p c ch := by
        simp only [canonOut]
        unfold chainRes at h1 h2 h3 h4 h5 h6 ⊢
        rw [h1, h2, h3, h4, h5, h6]
      rw [hhead]
      congr 1
      by_cases hh : (sampleChain K st offset (chainIntr intr c) q ch.state ch.rng ch.log ch.mem).halted = true
      · -- the interrupted chain: it is the last one of this worker
        simp only [hh, if_true]
        have hci : chainIntr intr c ≠ none := by
          intro hn
          have := chainRes_none_halted K st offset q ch
          unfold chainRes at this
          rw [hn] at hh
          rw [this] at hh; cases hh
        have htodo : todo = [] := by
          cases hintr : intr with
          | none => simp [chainIntr, hintr] at hci
          | some t =>
            obtain ⟨c0, i, j⟩ := t
            have hcc : c0 = c := by
              by_cases hne : c0 = c
              · exact hne
              · exfalso
                simp [chainIntr, hintr, hne] at hci
            subst hcc
            exact hlast c0 i j hintr [] todo rfl
        subst htodo
        rfl
      · simp only [hh, Bool.false_eq_true, if_false]
        apply ih
        · have := hE.pres st offset (chainIntr intr c) q ch
          exact hE.trans _ _ _ _ hq this
        · exact hlast'

/-! ### collation -/

theorem filterMap_congr_mem {α β : Type} (l : List α) (f g : α → Option β)
    (h : ∀ a ∈ l, f a = g a) : l.filterMap f = l.filterMap g := by
  induction l with
  | nil => rfl
  | cons a l ih =>
    simp only [List.filterMap_cons]
    rw [h a List.mem_cons_self, ih (fun b hb => h b (List.mem_cons_of_mem _ hb))]

theorem range_filterMap_getElem? {α β : Type} (l : List α) (f : Nat → α → β) :
    (List.range l.length).filterMap (fun c => (l[c]?).map (f c)) = l.mapIdx f := by
  induction l using snoc_ind with
  | nil => rfl
  | snoc l a ih =>
    simp only [List.length_append, List.length_cons, List.length_nil, Nat.zero_add]
    rw [List.range_succ, List.filterMap_append, List.mapIdx_append]
    congr 1
    · rw [← ih]
      apply filterMap_congr_mem
      intro c hc
      simp only [List.mem_range] at hc
      rw [List.getElem?_append_left hc]
    · simp

theorem idx_canonOuts (K : Kernel S V A P) (st : Stage) (offset : Nat)
    (intr : Option (Nat × Nat × Nat)) (p : P) (chs : List (Chain S V)) (c : Nat) (o : WOut S V A)
    (h : (canonOuts K st offset intr p chs)[c]? = some o) : o.out.idx = c := by
  simp only [canonOuts, List.getElem?_mapIdx] at h
  cases hc : chs[c]? with
  | none => simp [hc] at h
  | some ch => simp [hc] at h; subst h; rfl

/-- an element of the canonical list is determined by its chain index -/
theorem canonOuts_inj (K : Kernel S V A P) (st : Stage) (offset : Nat)
    (intr : Option (Nat × Nat × Nat)) (p : P) (chs : List (Chain S V)) (a b : WOut S V A)
    (ha : a ∈ canonOuts K st offset intr p chs) (hb : b ∈ canonOuts K st offset intr p chs)
    (h : a.out.idx = b.out.idx) : a = b := by
  obtain ⟨i, hi⟩ := List.mem_iff_getElem?.mp ha
  obtain ⟨j, hj⟩ := List.mem_iff_getElem?.mp hb
  have h1 := idx_canonOuts K st offset intr p chs i a hi
  have h2 := idx_canonOuts K st offset intr p chs j b hj
  have : i = j := by omega
  subst this
  rw [hi] at hj; injection hj

theorem insertOut_perm (o : Out S A) (l : List (Out S A)) : (insertOut o l).Perm (o :: l) := by
  induction l with
  | nil => exact List.Perm.refl _
  | cons b l ih =>
    simp only [insertOut]
    split
    · exact List.Perm.refl _
    · exact (List.Perm.cons b ih).trans (List.Perm.swap o b l)

theorem sortOuts_perm (l : List (Out S A)) : (sortOuts l).Perm l := by
  induction l with
  | nil => exact List.Perm.refl _
  | cons o l ih =>
    show (insertOut o (sortOuts l)).Perm (o :: l)
    exact (insertOut_perm o _).trans (List.Perm.cons o ih)

theorem insertOut_sorted (o : Out S A) (l : List (Out S A))
    (h : l.Pairwise (fun a b => a.idx ≤ b.idx)) :
    (insertOut o l).Pairwise (fun a b => a.idx ≤ b.idx) := by
  induction l with
  | nil => simp [insertOut]
  | cons b l ih =>
    simp only [insertOut]
    rw [List.pairwise_cons] at h
    split
    · rename_i hle
      rw [List.pairwise_cons]
      refine ⟨?_, List.pairwise_cons.mpr h⟩
      intro x hx
      rcases List.mem_cons.mp hx with rfl | hx
      · exact hle
      · have := h.1 x hx; omega
    · rename_i hnle
      rw [List.pairwise_cons]
      refine ⟨?_, ih h.2⟩
      intro x hx
      have := (insertOut_perm o l).mem_iff.mp hx
      rcases List.mem_cons.mp this with rfl | hx'
      · omega
      · exact h.1 x hx'

theorem sortOuts_sorted (l : List (Out S A)) : (sortOuts l).Pairwise (fun a b => a.idx ≤ b.idx) := by
  induction l with
  | nil => simp [sortOuts]
  | cons o l ih => exact insertOut_sorted o _ ih

theorem sortOuts_canon (K : Kernel S V A P) (st : Stage) (offset : Nat)
    (intr : Option (Nat × Nat × Nat)) (p : P) (chs : List (Chain S V)) (res : List (WOut S V A))
    (hperm : res.Perm (canonOuts K st offset intr p chs)) :
    sortOuts (res.map (·.out)) = (canonOuts K st offset intr p chs).map (·.out) := by
  have hp : (sortOuts (res.map (·.out))).Perm ((canonOuts K st offset intr p chs).map (·.out)) :=
    (sortOuts_perm _).trans (hperm.map _)
  have hs1 := sortOuts_sorted (res.map (fun o : WOut S V A => o.out))
  have hs2 : ((canonOuts K st offset intr p chs).map (·.out)).Pairwise (fun a b => a.idx ≤ b.idx) := by
    rw [List.pairwise_iff_getElem]
    intro i j hi hj hij
    simp only [List.getElem_map]
    have h1 := idx_canonOuts K st offset intr p chs i _ (List.getElem?_eq_getElem (by simpa using hi))
    have h2 := idx_canonOuts K st offset intr p chs j _ (List.getElem?_eq_getElem (by simpa using hj))
    omega
  apply List.Perm.eq_of_pairwise _ hs1 hs2 hp
  intro a b ha hb hab hba
  have ha' : a ∈ (canonOuts K st offset intr p chs).map (·.out) := hp.mem_iff.mp ha
  simp only [List.mem_map] at ha' hb
  obtain ⟨a', ha', rfl⟩ := ha'
  obtain ⟨b', hb', rfl⟩ := hb
  rw [canonOuts_inj K st offset intr p chs a' b' ha' hb' (by omega)]

/-- pointwise effect of folding index-addressed updates over a list -/
theorem foldl_modify_getElem? {α β : Type} (idx : β → Nat) (upd : β → α → α) (l : List β)
    (xs : List α) (c : Nat) :
    (l.foldl (fun xs o => xs.modify (idx o) (upd o)) xs)[c]? =
      (xs[c]?).map (fun x => l.foldl (fun x o => if idx o = c then upd o x else x) x) := by
  induction l generalizing xs with
  | nil => simp
  | cons o l ih =>
    simp only [List.foldl_cons]
    rw [ih, List.getElem?_modify]
    cases xs[c]? with
    | none => simp
    | some x => by_cases h : idx o = c <;> simp [h]

/-- if every update addressed to `c` is the same idempotent update `u`, folding them applies `u`
once (if there is one) -/
theorem foldl_same_update {α β : Type} (idx : β → Nat) (upd : β → α → α) (l : List β) (c : Nat)
    (u : α → α) (hu : ∀ x, u (u x) = u x) (hall : ∀ o ∈ l, idx o = c → upd o = u) (x : α) :
    l.foldl (fun x o => if idx o = c then upd o x else x) x =
      if l.any (fun o => idx o == c) then u x else x := by
  induction l generalizing x with
  | nil => simp
  | cons o l ih =>
    simp only [List.foldl_cons, List.any_cons]
    have ih' := ih (fun o' ho' => hall o' (List.mem_cons_of_mem _ ho'))
    by_cases h : idx o = c
    · have hupd := hall o List.mem_cons_self h
      simp only [h, if_true, beq_self_eq_true, Bool.true_or]
      rw [ih', hupd]
      split
      · exact hu x
      · rfl
    · simp only [h, if_false]
      rw [ih']
      have : (idx o == c) = false := by simp [h]
      simp [this]

/-- **Canonical form of a parallel stage**: whatever valid schedule happened, the stage result is
the one obtained by running every chain from the stage-start parameters. -/
theorem stagePar_canon (K : Kernel S V A P) (E : Kind → P → P → Prop) (hE : AdaptLocal K E)
    (st : Stage) (offset : Nat) (intr : Option (Nat × Nat × Nat)) (restore : Bool)
    (sched : List (List Nat)) (p : P) (chs : List (Chain S V))
    (hv : ValidSched sched chs.length)
    (hlast : ∀ c0 i j, intr = some (c0, i, j) → LastOf sched c0) :
    stagePar K st offset intr restore sched p chs = canonPar K st offset intr restore p chs := by
  -- what the workers produce
  have hres : (sched.map (fun todo => workerRun K st offset intr chs todo p)).flatten =
      sched.flatten.filterMap (fun c => (chs[c]?).map (canonOut K st offset intr p c)) := by
    rw [List.filterMap_flatten]
    congr 1
    apply List.map_congr_left
    intro todo htodo
    exact workerRun_canon K E hE st offset intr chs p todo p (hE.refl _ _)
      (fun c0 i j he a b hab => hlast c0 i j he todo htodo a b hab)
  have hperm : ((sched.map (fun todo => workerRun K st offset intr chs todo p)).flatten).Perm
      (canonOuts K st offset intr p chs) := by
    rw [hres]
    have := List.Perm.filterMap (fun c => (chs[c]?).map (canonOut K st offset intr p c)) hv
    rw [range_filterMap_getElem?] at this
    exact this
  unfold stagePar canonPar
  simp only
  generalize (sched.map (fun todo => workerRun K st offset intr chs todo p)).flatten = res at hperm ⊢
  have hsort := sortOuts_canon K st offset intr p chs res hperm
  have hany : res.any (·.halted) = (canonOuts K st offset intr p chs).any (·.halted) := by
    rw [Bool.eq_iff_iff, List.any_eq_true, List.any_eq_true]
    constructor
    · rintro ⟨o, ho, h⟩; exact ⟨o, hperm.mem_iff.mp ho, h⟩
    · rintro ⟨o, ho, h⟩; exact ⟨o, hperm.mem_iff.mpr ho, h⟩
  -- files written by the workers
  have hfiles : ∀ c, (res.foldl applyRun chs)[c]? =
      (chs[c]?).map (fun (ch : Chain S V) =>
        ({ ch with mem := (canonOut K st offset intr p c ch).mem,
                   log := (canonOut K st offset intr p c ch).log } : Chain S V)) := by
    intro c
    have := foldl_modify_getElem? (fun o : WOut S V A => o.out.idx)
      (fun o (ch : Chain S V) => { ch with mem := o.mem, log := o.log }) res chs c
    unfold applyRun
    rw [this]
    cases hc : chs[c]? with
    | none => rfl
    | some ch =>
      simp only [Option.map_some]
      congr 1
      have hmem : canonOut K st offset intr p c ch ∈ canonOuts K st offset intr p chs := by
        rw [List.mem_iff_getElem?]
        exact ⟨c, by simp [canonOuts, List.getElem?_mapIdx, hc]⟩
      rw [foldl_same_update (fun o : WOut S V A => o.out.idx) _ res c
        (fun ch' => { ch' with mem := (canonOut K st offset intr p c ch).mem,
                               log := (canonOut K st offset intr p c ch).log })
        (by intro x; rfl)
        (by
          intro o ho hidx
          have ho' := hperm.mem_iff.mp ho
          have : o = canonOut K st offset intr p c ch :=
            canonOuts_inj K st offset intr p chs o _ ho' hmem (by simpa [canonOut] using hidx)
          subst this; rfl)]
      have hany' : res.any (fun o => o.out.idx == c) = true := by
        rw [List.any_eq_true]
        exact ⟨_, hperm.mem_iff.mpr hmem, by simp [canonOut]⟩
      simp [hany']
  rw [hsort, hany]
  congr 1
  -- parent generators
  apply List.ext_getElem?
  intro c
  cases restore with
  | false =>
    simp only [Bool.false_eq_true, if_false]
    rw [hfiles c]
    simp only [canonChains, List.getElem?_mapIdx, Bool.false_eq_true, if_false]
  | true =>
    simp only [if_true]
    have := foldl_modify_getElem? (fun o : Out S A => o.idx)
      (fun o (ch : Chain S V) => { ch with rng := o.rng })
      ((canonOuts K st offset intr p chs).map (·.out)) (res.foldl applyRun chs) c
    unfold restoreRng
    rw [this, hfiles c]
    simp only [canonChains, List.getElem?_mapIdx, if_true]
    cases hc : chs[c]? with
    | none => rfl
    | some ch =>
      simp only [Option.map_some]
      congr 1
      have hmem : (canonOut K st offset intr p c ch).out ∈
          (canonOuts K st offset intr p chs).map (·.out) := by
        rw [List.mem_map]
        refine ⟨canonOut K st offset intr p c ch, ?_, rfl⟩
        rw [List.mem_iff_getElem?]
        exact ⟨c, by simp [canonOuts, List.getElem?_mapIdx, hc]⟩
      rw [foldl_same_update (fun o : Out S A => o.idx) _ _ c
        (fun ch' => { ch' with rng := (canonOut K st offset intr p c ch).out.rng })
        (by intro x; rfl)
        (by
          intro o ho hidx
          simp only [List.mem_map] at ho
          obtain ⟨o', ho', rfl⟩ := ho
          have hm' : canonOut K st offset intr p c ch ∈ canonOuts K st offset intr p chs := by
            rw [List.mem_iff_getElem?]
            exact ⟨c, by simp [canonOuts, List.getElem?_mapIdx, hc]⟩
          have : o' = canonOut K st offset intr p c ch :=
            canonOuts_inj K st offset intr p chs o' _ ho' hm' (by simpa [canonOut] using hidx)
          subst this; rfl)]
      have hany' : ((canonOuts K st offset intr p chs).map (·.out)).any (fun o => o.idx == c) = true := by
        rw [List.any_eq_true]
        exact ⟨_, hmem, by simp [canonOut]⟩
      simp [hany']

end MiciVerif.Sampler
