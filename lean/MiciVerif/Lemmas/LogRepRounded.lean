/-
Real-analysis lemmas behind the rounding-error theorems of `Props/C20R.lean`:
conditioning of `log`, `log1p`, `x ↦ log(1 + e^x)`, `x ↦ log(1 - e^x)` and the composition rule
for relative perturbations.  Nothing here mentions the model; `Lemmas/LogRepRoundedEval.lean`
evaluates the primitives of `roundedPrims`.
-/
import Mathlib.Analysis.SpecialFunctions.Log.Basic
import Mathlib.Analysis.SpecialFunctions.Exp
import Mathlib.Analysis.Convex.SpecificFunctions.Basic
import Mathlib.Analysis.Complex.ExponentialBounds

namespace MiciVerif.LogRepRounded
open Real

/-! ### relative perturbations -/

theorem u_nonneg {d u : ℝ} (hd : |d| ≤ u) : 0 ≤ u := (abs_nonneg d).trans hd

theorem one_add_lower {d u : ℝ} (hd : |d| ≤ u) : 1 - u ≤ 1 + d := by
  have := (abs_le.mp hd).1; linarith

theorem one_add_upper {d u : ℝ} (hd : |d| ≤ u) : 1 + d ≤ 1 + u := by
  have := (abs_le.mp hd).2; linarith

theorem one_add_pos {d u : ℝ} (hd : |d| ≤ u) (hu : u < 1) : 0 < 1 + d := by
  have := one_add_lower hd; linarith

/-- **Composition rule**: if `x` approximates `y` with absolute error `A`, the rounded value
`x (1 + d)` approximates it with error `A (1 + u) + u |y|`. -/
theorem abs_scale_sub_le {x y d u A : ℝ} (hx : |x - y| ≤ A) (hd : |d| ≤ u) :
    |x * (1 + d) - y| ≤ A * (1 + u) + u * |y| := by
  have hu := u_nonneg hd
  have hA : 0 ≤ A := (abs_nonneg _).trans hx
  have e : x * (1 + d) - y = (x - y) * (1 + d) + d * y := by ring
  have h1 : |1 + d| ≤ 1 + u := by
    rw [abs_le]; constructor <;> [have := one_add_lower hd; have := one_add_upper hd] <;> linarith
  calc |x * (1 + d) - y| = |(x - y) * (1 + d) + d * y| := by rw [e]
    _ ≤ |(x - y) * (1 + d)| + |d * y| := abs_add_le _ _
    _ = |x - y| * |1 + d| + |d| * |y| := by rw [abs_mul, abs_mul]
    _ ≤ A * (1 + u) + u * |y| := by
        have := mul_le_mul hx h1 (abs_nonneg _) hA
        have := mul_le_mul_of_nonneg_right hd (abs_nonneg y)
        linarith

/-! ### conditioning of `log` -/

theorem log_sub_log_le {p q : ℝ} (hp : 0 < p) (hq : 0 < q) : log p - log q ≤ (p - q) / q := by
  have h := Real.log_le_sub_one_of_pos (div_pos hp hq)
  rw [Real.log_div hp.ne' hq.ne'] at h
  have : p / q - 1 = (p - q) / q := by field_simp
  linarith

/-- `|log p - log q| ≤ B` as soon as `p - q ≤ B q` and `q - p ≤ B p`. -/
theorem abs_log_sub_log_le {p q B : ℝ} (hp : 0 < p) (hq : 0 < q)
    (h1 : p - q ≤ B * q) (h2 : q - p ≤ B * p) : |log p - log q| ≤ B := by
  rw [abs_le]
  constructor
  · have := log_sub_log_le hq hp
    have : (q - p) / p ≤ B := by rw [div_le_iff₀ hp]; exact h2
    linarith
  · have := log_sub_log_le hp hq
    have : (p - q) / q ≤ B := by rw [div_le_iff₀ hq]; exact h1
    linarith

/-- `|log(1 + d)| ≤ u / (1 - u)` for `|d| ≤ u < 1`: the error of `log` under a relative
perturbation of its argument is absolute. -/
theorem abs_log_one_add_le {d u : ℝ} (hd : |d| ≤ u) (hu : u < 1) :
    |log (1 + d)| ≤ u / (1 - u) := by
  have h0 := u_nonneg hd
  have hpos := one_add_pos hd hu
  have h1u : 0 < 1 - u := by linarith
  have hB : u / (1 - u) * (1 - u) = u := by field_simp
  have := abs_log_sub_log_le (B := u / (1 - u)) hpos one_pos
    (by have := (abs_le.mp hd).2
        have : u ≤ u / (1 - u) := by rw [le_div_iff₀ h1u]; nlinarith
        linarith)
    (by have := (abs_le.mp hd).1
        have hl := one_add_lower hd
        have : u / (1 - u) * (1 - u) ≤ u / (1 - u) * (1 + d) :=
          mul_le_mul_of_nonneg_left hl (div_nonneg h0 h1u.le)
        linarith)
  simpa using this

/-! ### `log1p` on a positive argument (both branches of `log1p_exp`) -/

theorem div_one_add_le_log {E : ℝ} (hE : 0 < E) : E / (1 + E) ≤ log (1 + E) := by
  have h := Real.one_sub_inv_le_log_of_pos (by linarith : 0 < 1 + E)
  have : 1 - (1 + E)⁻¹ = E / (1 + E) := by field_simp; ring
  linarith

/-- Conditioning of `log1p` at a positive argument is at most 1:
`|log(1 + E(1+d)) - log(1 + E)| ≤ u/(1-u) · log(1 + E)`. -/
theorem log1p_pos_cond {E d u : ℝ} (hE : 0 < E) (hd : |d| ≤ u) (hu : u < 1) :
    |log (1 + E * (1 + d)) - log (1 + E)| ≤ u / (1 - u) * log (1 + E) := by
  have h0 := u_nonneg hd
  have h1u : 0 < 1 - u := by linarith
  have hd1 := one_add_pos hd hu
  have hL := div_one_add_le_log hE
  have hp : 0 < 1 + E * (1 + d) := by positivity
  have hq : 0 < 1 + E := by linarith
  have hLE : E ≤ log (1 + E) * (1 + E) := by rwa [div_le_iff₀ hq] at hL
  have hLpos : 0 < log (1 + E) := Real.log_pos (by linarith)
  have hB : u / (1 - u) * (1 - u) = u := by field_simp
  have hBn : 0 ≤ u / (1 - u) := div_nonneg h0 h1u.le
  have hBu : u ≤ u / (1 - u) := by rw [le_div_iff₀ h1u]; nlinarith
  apply abs_log_sub_log_le hp hq
  · -- E d ≤ u E ≤ u L (1+E) ≤ B L (1+E)
    have h1 : E * d ≤ E * u := mul_le_mul_of_nonneg_left (abs_le.mp hd).2 hE.le
    have h2 : u * E ≤ u * (log (1 + E) * (1 + E)) := mul_le_mul_of_nonneg_left hLE h0
    have h3 : u * (log (1 + E) * (1 + E)) ≤ u / (1 - u) * (log (1 + E) * (1 + E)) :=
      mul_le_mul_of_nonneg_right hBu (by positivity)
    nlinarith
  · -- -E d ≤ u E;  need ≤ B L (1 + E (1+d));  1 + E(1+d) ≥ (1+E)(1-u)
    have h1 : -(E * d) ≤ E * u := by
      have := mul_le_mul_of_nonneg_left (abs_le.mp hd).1 hE.le; linarith
    have hl := one_add_lower hd
    have h4 : (1 + E) * (1 - u) ≤ 1 + E * (1 + d) := by nlinarith
    have h5 : u * E ≤ u * (log (1 + E) * (1 + E)) := mul_le_mul_of_nonneg_left hLE h0
    have h6 : u / (1 - u) * log (1 + E) * ((1 + E) * (1 - u))
        ≤ u / (1 - u) * log (1 + E) * (1 + E * (1 + d)) :=
      mul_le_mul_of_nonneg_left h4 (by positivity)
    have h7 : u / (1 - u) * log (1 + E) * ((1 + E) * (1 - u)) = u * (log (1 + E) * (1 + E)) := by
      field_simp
    nlinarith

/-! ### `log1p` on `-E`, `0 < E < 1` (the far branch of `log1m_exp`) -/

theorem le_neg_log_one_sub {E : ℝ} (hE0 : 0 ≤ E) (hE1 : E < 1) :
    2 * E / (2 - E) ≤ -log (1 - E) := by
  have h1E : 0 < 1 - E := by linarith
  have h := Real.le_log_one_add_of_nonneg (x := E / (1 - E)) (div_nonneg hE0 h1E.le)
  have e1 : 1 + E / (1 - E) = (1 - E)⁻¹ := by field_simp; ring
  have e2 : 2 * (E / (1 - E)) / (E / (1 - E) + 2) = 2 * E / (2 - E) := by
    have : (2 : ℝ) - E ≠ 0 := by linarith
    field_simp; ring
  rw [e1, Real.log_inv, e2] at h
  exact h

/-- `|log(1 - E(1+d)) - log(1 - E)| ≤ E u / (1 - E (1 + u))`. -/
theorem log1p_neg_abs {E d u : ℝ} (hE : 0 < E) (hd : |d| ≤ u) (hEu : E * (1 + u) < 1) :
    |log (1 - E * (1 + d)) - log (1 - E)| ≤ E * u / (1 - E * (1 + u)) := by
  have h0 := u_nonneg hd
  have hden : 0 < 1 - E * (1 + u) := by linarith
  have hu1 := one_add_upper hd
  have hl1 := one_add_lower hd
  have hp : 0 < 1 - E * (1 + d) := by nlinarith
  have hq : 0 < 1 - E := by nlinarith
  have hB : E * u / (1 - E * (1 + u)) * (1 - E * (1 + u)) = E * u := by field_simp
  have hBn : 0 ≤ E * u / (1 - E * (1 + u)) := div_nonneg (by positivity) hden.le
  have hdu := (abs_le.mp hd)
  apply abs_log_sub_log_le hp hq
  · have h1 : 1 - E * (1 + u) ≤ 1 - E := by nlinarith
    have := mul_le_mul_of_nonneg_left h1 hBn
    nlinarith
  · have h1 : 1 - E * (1 + u) ≤ 1 - E * (1 + d) := by nlinarith
    have := mul_le_mul_of_nonneg_left h1 hBn
    nlinarith

/-! ### Jensen for `exp`, softplus and `x ↦ 1 - e^{-x}` -/

theorem exp_mul_le {l t : ℝ} (h0 : 0 ≤ l) (h1 : l ≤ 1) : exp (l * t) ≤ 1 - l + l * exp t := by
  have h := convexOn_exp.2 (Set.mem_univ (0 : ℝ)) (Set.mem_univ t) (by linarith : 0 ≤ 1 - l) h0
    (by ring)
  simpa [smul_eq_mul] using h

/-- tangent-line inequality for softplus: `sp x - sp y ≥ σ(y) (x - y)`, `σ = e^y/(1+e^y)`. -/
theorem softplus_tangent (x y : ℝ) :
    exp y / (1 + exp y) * (x - y) ≤ log (1 + exp x) - log (1 + exp y) := by
  have hy : 0 < 1 + exp y := by positivity
  have hx : 0 < 1 + exp x := by positivity
  set s := exp y / (1 + exp y) with hs
  have hs0 : 0 ≤ s := by positivity
  have hs1 : s ≤ 1 := by rw [hs, div_le_one hy]; linarith [exp_pos y]
  have hJ := exp_mul_le (t := x - y) hs0 hs1
  have e : 1 - s + s * exp (x - y) = (1 + exp x) / (1 + exp y) := by
    rw [hs, Real.exp_sub]; field_simp; ring
  rw [e] at hJ
  have := Real.log_le_log (exp_pos _) hJ
  rwa [Real.log_exp, Real.log_div hx.ne' hy.ne'] at this

theorem two_mul_le_exp (x : ℝ) : 2 * x ≤ exp x := by
  have h1 := Real.add_one_le_exp (x - 1)
  have h2 := Real.add_one_le_exp (1 : ℝ)
  rw [Real.exp_sub] at h1
  have he : 0 < exp 1 := exp_pos 1
  have h3 : x * exp 1 ≤ exp x := by
    have : x ≤ exp x / exp 1 := by linarith
    rwa [le_div_iff₀ he] at this
  by_cases hx : 0 ≤ x
  · nlinarith
  · have := exp_pos x; linarith

/-- `|z| σ(z) ≤ 1/2` for `z ≤ 0`. -/
theorem sigma_mul_le {z : ℝ} (hz : z ≤ 0) : exp z / (1 + exp z) * (-z) ≤ 1 / 2 := by
  have h := two_mul_le_exp (-z)
  have hp : 0 < exp z := exp_pos z
  have h1 : exp z * exp (-z) = 1 := by rw [← Real.exp_add]; simp
  have h2 : exp z / (1 + exp z) ≤ exp z := by
    rw [div_le_iff₀ (by positivity)]; nlinarith
  have h3 : exp z * (-z) ≤ 1 / 2 := by nlinarith
  have : exp z / (1 + exp z) * (-z) ≤ exp z * (-z) :=
    mul_le_mul_of_nonneg_right h2 (by linarith)
  linarith

/-- **softplus under a relative perturbation of a non-positive argument**:
`|log(1+e^{d(1+δ)}) - log(1+e^d)| ≤ u / (2 (1 - u))`, independent of `d`. -/
theorem softplus_pert {d δ u : ℝ} (hd : d ≤ 0) (hδ : |δ| ≤ u) (hu : u < 1) :
    |log (1 + exp (d * (1 + δ))) - log (1 + exp d)| ≤ u / (2 * (1 - u)) := by
  have h0 := u_nonneg hδ
  have h1u : 0 < 1 - u := by linarith
  have hpos := one_add_pos hδ hu
  have hl := one_add_lower hδ
  have hdt : d * (1 + δ) ≤ 0 := mul_nonpos_of_nonpos_of_nonneg hd hpos.le
  have t1 := softplus_tangent (d * (1 + δ)) d
  have t2 := softplus_tangent d (d * (1 + δ))
  have s1 := sigma_mul_le hd
  have s2 := sigma_mul_le hdt
  have hb : u / (2 * (1 - u)) * (2 * (1 - u)) = u := by field_simp
  have hb0 : u ≤ u / (2 * (1 - u)) * 2 := by
    have : u / (2 * (1 - u)) * 2 = u / (1 - u) := by field_simp
    rw [this, le_div_iff₀ h1u]; nlinarith
  have hδ' := abs_le.mp hδ
  set σ1 := exp d / (1 + exp d) with hσ1
  set σ2 := exp (d * (1 + δ)) / (1 + exp (d * (1 + δ))) with hσ2
  have hσ1n : 0 ≤ σ1 := by positivity
  have hσ2n : 0 ≤ σ2 := by positivity
  rw [abs_le]
  constructor
  · -- sp(d̃) - sp(d) ≥ σ1 (d̃ - d) = σ1 d δ ≥ -σ1 (-d) u ≥ -u/2
    have e : d * (1 + δ) - d = -((-d) * δ) := by ring
    rw [e] at t1
    have h3 : σ1 * ((-d) * δ) ≤ 1 / 2 * u := by
      have : σ1 * ((-d) * δ) = (σ1 * (-d)) * δ := by ring
      rw [this]
      have hnn : 0 ≤ σ1 * (-d) := mul_nonneg hσ1n (by linarith)
      calc (σ1 * (-d)) * δ ≤ (σ1 * (-d)) * u := mul_le_mul_of_nonneg_left hδ'.2 hnn
        _ ≤ 1 / 2 * u := mul_le_mul_of_nonneg_right s1 h0
    nlinarith
  · -- sp(d) - sp(d̃) ≥ σ2 (d - d̃) = -σ2 d δ ; so sp(d̃) - sp(d) ≤ σ2 d δ = σ2 (-d̃) (-δ)/(1+δ)
    have e : d - d * (1 + δ) = -(d * δ) := by ring
    rw [e] at t2
    have hnn : 0 ≤ σ2 * (-(d * (1 + δ))) := mul_nonneg hσ2n (by linarith)
    -- σ2 * (d δ) ≤ u/(2(1-u)) : (σ2 (-d)(1+δ)) ≤ 1/2  and  (-δ) ≤ u, 1+δ ≥ 1-u
    have key : σ2 * (d * δ) * (1 - u) ≤ 1 / 2 * u := by
      by_cases hs : 0 ≤ -δ
      · -- d δ ≥ 0
        have h5 : σ2 * (-d) * (1 - u) ≤ σ2 * (-d) * (1 + δ) :=
          mul_le_mul_of_nonneg_left hl (mul_nonneg hσ2n (by linarith))
        have h6 : σ2 * (-d) * (1 + δ) ≤ 1 / 2 := by
          have : σ2 * (-d) * (1 + δ) = σ2 * (-(d * (1 + δ))) := by ring
          rw [this]; exact s2
        have h7 : σ2 * (-d) * (1 - u) ≤ 1 / 2 := le_trans h5 h6
        have h8 : σ2 * (d * δ) * (1 - u) = (σ2 * (-d) * (1 - u)) * (-δ) := by ring
        rw [h8]
        have hnn2 : 0 ≤ σ2 * (-d) * (1 - u) :=
          mul_nonneg (mul_nonneg hσ2n (by linarith)) h1u.le
        calc (σ2 * (-d) * (1 - u)) * (-δ) ≤ (σ2 * (-d) * (1 - u)) * u :=
              mul_le_mul_of_nonneg_left (by linarith) hnn2
          _ ≤ 1 / 2 * u := mul_le_mul_of_nonneg_right h7 h0
      · have hδp : 0 ≤ δ := by linarith
        have : σ2 * (d * δ) ≤ 0 := by
          have : d * δ ≤ 0 := mul_nonpos_of_nonpos_of_nonneg hd hδp
          exact mul_nonpos_of_nonneg_of_nonpos hσ2n this
        nlinarith
    have : σ2 * (d * δ) ≤ u / (2 * (1 - u)) := by
      rw [le_div_iff₀ (by positivity)]; nlinarith
    nlinarith

/-- `φ(λ w) ≥ λ φ(w)` for `φ(w) = 1 - e^{-w}`, `0 ≤ λ ≤ 1`. -/
theorem one_sub_exp_concave {l w : ℝ} (h0 : 0 ≤ l) (h1 : l ≤ 1) :
    l * (1 - exp (-w)) ≤ 1 - exp (-(l * w)) := by
  have := exp_mul_le (t := -w) h0 h1
  have e : l * -w = -(l * w) := by ring
  rw [e] at this
  linarith

/-- **`x ↦ log(1 - e^x)` under a relative perturbation of a negative argument**: the error is
at most `|log(1+δ)| ≤ u/(1-u)` in absolute terms, however close to `0` the argument is. -/
theorem log1m_pert {d δ u : ℝ} (hd : d < 0) (hδ : |δ| ≤ u) (hu : u < 1) :
    |log (1 - exp (d * (1 + δ))) - log (1 - exp d)| ≤ u / (1 - u) := by
  have h0 := u_nonneg hδ
  have h1u : 0 < 1 - u := by linarith
  have hpos := one_add_pos hδ hu
  have hl := one_add_lower hδ
  have hup := one_add_upper hδ
  have hδ' := abs_le.mp hδ
  have hdt : d * (1 + δ) < 0 := mul_neg_of_neg_of_pos hd hpos
  have hq : 0 < 1 - exp d := by
    have : exp d < 1 := Real.exp_lt_one_iff.mpr hd
    linarith
  have hp : 0 < 1 - exp (d * (1 + δ)) := by
    have : exp (d * (1 + δ)) < 1 := Real.exp_lt_one_iff.mpr hdt
    linarith
  have hB : u / (1 - u) * (1 - u) = u := by field_simp
  have hBn : 0 ≤ u / (1 - u) := div_nonneg h0 h1u.le
  have hBu : u ≤ u / (1 - u) := by rw [le_div_iff₀ h1u]; nlinarith
  -- φ(w) = 1 - e^{-w}, w = -d, w̃ = w(1+δ)
  apply abs_log_sub_log_le hp hq
  · -- p - q ≤ B q
    by_cases hs : 0 ≤ δ
    · -- λ = 1/(1+δ) ≤ 1: φ(w) ≥ λ φ(w̃), so p ≤ (1+δ) q
      have hl1 : (1 + δ)⁻¹ ≤ 1 := inv_le_one_of_one_le₀ (by linarith)
      have hc := one_sub_exp_concave (l := (1 + δ)⁻¹) (w := -(d * (1 + δ))) (by positivity) hl1
      have e1 : (1 + δ)⁻¹ * -(d * (1 + δ)) = -d := by field_simp
      rw [e1] at hc
      simp only [neg_neg] at hc
      have hc' : 1 - exp (d * (1 + δ)) ≤ (1 + δ) * (1 - exp d) := by
        have := mul_le_mul_of_nonneg_left hc hpos.le
        rwa [← mul_assoc, mul_inv_cancel₀ hpos.ne', one_mul] at this
      nlinarith
    · -- δ < 0: w̃ < w so p ≤ q
      have : d ≤ d * (1 + δ) := by nlinarith
      have := Real.exp_le_exp.mpr this
      nlinarith
  · -- q - p ≤ B p
    by_cases hs : 0 ≤ δ
    · have : d * (1 + δ) ≤ d := by nlinarith
      have := Real.exp_le_exp.mpr this
      nlinarith
    · -- λ = 1+δ ∈ (0,1): φ(λ w) ≥ λ φ(w): p ≥ (1+δ) q ≥ (1-u) q
      have hc := one_sub_exp_concave (l := 1 + δ) (w := -d) hpos.le (by linarith)
      have e1 : -((1 + δ) * -d) = d * (1 + δ) := by ring
      rw [e1] at hc
      simp only [neg_neg] at hc
      -- q - p ≤ q - (1+δ) q = -δ q ≤ u q ;  B p ≥ B (1-u) q = u q
      have h2 : (1 - u) * (1 - exp d) ≤ 1 - exp (d * (1 + δ)) := by nlinarith
      have h3 := mul_le_mul_of_nonneg_left h2 hBn
      have h4 : u / (1 - u) * ((1 - u) * (1 - exp d)) = u * (1 - exp d) := by
        rw [← mul_assoc, hB]
      nlinarith

/-! ### numerical facts about the rounded branch point `LOG_2 (1 + δ)` -/

/-- `e^{-(7/8) log 2} ≤ 3/5`: on the far branch `v ≤ -LOG_2(1+δ)`, `|δ| ≤ 1/8`, `e^v ≤ 3/5`. -/
theorem exp_le_of_le_neg_log2 {v δ : ℝ} (hδ : |δ| ≤ 1 / 8) (hv : v ≤ -(log 2 * (1 + δ))) :
    exp v ≤ 3 / 5 := by
  have hl2 : 0 < log 2 := Real.log_pos (by norm_num)
  have h1 : v ≤ -(log 2 * (7 / 8)) := by
    have := one_add_lower hδ
    nlinarith
  have h2 : -(log 2 * (7 / 8)) ≤ log (3 / 5) := by
    -- 8 log(5/3) ≤ 7 log 2  ⟸ (5/3)^8 ≤ 2^7
    have h3 : log ((5 / 3 : ℝ) ^ 8) ≤ log ((2 : ℝ) ^ 7) :=
      Real.log_le_log (by positivity) (by norm_num)
    rw [Real.log_pow, Real.log_pow] at h3
    have h4 : log (3 / 5 : ℝ) = -log (5 / 3) := by
      rw [← Real.log_inv]; norm_num
    rw [h4]
    push_cast at h3
    linarith
  calc exp v ≤ exp (log (3 / 5)) := Real.exp_le_exp.mpr (h1.trans h2)
    _ = 3 / 5 := Real.exp_log (by norm_num)

/-- `e^{-(9/8) log 2} ≥ 9/20`: on the near branch `-LOG_2(1+δ) < v < 0`, `1 - e^v < 11/20`. -/
theorem lt_exp_of_neg_log2_lt {v δ : ℝ} (hδ : |δ| ≤ 1 / 8) (hv : -(log 2 * (1 + δ)) < v) :
    9 / 20 < exp v := by
  have hl2 : 0 < log 2 := Real.log_pos (by norm_num)
  have h1 : -(log 2 * (9 / 8)) < v := by
    have := one_add_upper hδ
    nlinarith
  have h2 : log (9 / 20) ≤ -(log 2 * (9 / 8)) := by
    have h3 : log ((2 : ℝ) ^ 9) ≤ log ((20 / 9 : ℝ) ^ 8) :=
      Real.log_le_log (by positivity) (by norm_num)
    rw [Real.log_pow, Real.log_pow] at h3
    have h4 : log (9 / 20 : ℝ) = -log (20 / 9) := by
      rw [← Real.log_inv]; norm_num
    rw [h4]
    push_cast at h3
    linarith
  calc (9 / 20 : ℝ) = exp (log (9 / 20)) := (Real.exp_log (by norm_num)).symm
    _ < exp v := Real.exp_lt_exp.mpr (lt_of_le_of_lt h2 h1)

/-- `log x ≤ -1/2` for `0 < x ≤ 3/5` (`e^{1/2} ≤ 5/3`). -/
theorem log_le_neg_half {x : ℝ} (hx : 0 < x) (h : x ≤ 3 / 5) : log x ≤ -(1 / 2) := by
  have h1 : exp 1 < 25 / 9 := lt_trans Real.exp_one_lt_d9 (by norm_num)
  have h2 : exp (1 / 2) ^ 2 = exp 1 := by rw [← Real.exp_nat_mul]; norm_num
  have h3 : exp (1 / 2) ≤ 5 / 3 := by
    have hp := exp_pos (1 / 2 : ℝ)
    nlinarith
  have h4 : (3 / 5 : ℝ) ≤ exp (-(1 / 2)) := by
    rw [Real.exp_neg, le_inv_comm₀ (by norm_num) (exp_pos _)]
    norm_num; linarith
  have : log x ≤ log (exp (-(1 / 2))) := Real.log_le_log hx (h.trans h4)
  rwa [Real.log_exp] at this

/-- `log y ≤ 2 √y` for `y > 0` (from `log √y ≤ √y - 1`). -/
theorem log_le_two_sqrt {y : ℝ} (hy : 0 < y) : log y ≤ 2 * √y := by
  have h := Real.log_le_sub_one_of_pos (Real.sqrt_pos.mpr hy)
  rw [Real.log_sqrt hy.le] at h
  linarith

end MiciVerif.LogRepRounded
