/-
Vocabulary for `Props/C17S.lean` (statements about the definitions generated from
`mici/adapters.py`): the numeric content of an accumulator, the loop over `adapt_states` as the
source performs it, the truth values of the three tests the search loop makes on `delta_h`, and
the search loop rebuilt from the generated loop body.
-/
import MiciVerif.Generated.AdaptersSrc

namespace MiciVerif.PySrcAdapters
open MiciVerif.Adapters MiciVerif.Generated

section
variable {K : Type} [Zero K] [One K] [Add K] [Sub K] [Mul K] [Div K] [NatCast K]

/-- Numeric content of an accumulator / adapter state (the `nan` flag is the model's record of
NumPy's silent `0/0`, it has no counterpart in the source). -/
def num (c : CState K) : Nat × K × K × K := (c.iter, c.meanA, c.meanB, c.c)

/-- The loop over `adapt_states` as the source performs it: first chain, then merge steps. -/
def srcMerge : List (CState K) → Option (Nat × K × K × K)
  | [] => none
  | s0 :: rest =>
    some (rest.foldl
      (fun acc s => AdaptersSrc.cov_merge_step ⟨acc.1, acc.2.1, acc.2.2.1, acc.2.2.2, false⟩ s)
      (AdaptersSrc.cov_merge_first s0))
end

section
variable {K : Type} [LT K] [LE K] [DecidableLT K] [DecidableLE K]

/-- The `for s in range(max_init_step_size_iters)` loop around the *generated* loop body
(`search_try`: the `try` block, `search_except`: the handler): one trial step at `2^e`, then
return `e` or halve / double. -/
def srcSearchLoop (dH : Int → Outcome K) (thr : K) :
    Nat → Bool → Int → Bool → Except AdaptErr Int
  | 0, _, _, _ => .error .noInitStepSize
  | fuel + 1, first, e, tooBig =>
    match tests thr (dH e) with
    | none =>
      let r := AdaptersSrc.search_except tooBig
      srcSearchLoop dH thr fuel false (if r.2 then e - 1 else e + 1) r.1
    | some t =>
      let r := AdaptersSrc.search_try first t.1 t.2.1 t.2.2 tooBig
      if r.1 then .ok e
      else srcSearchLoop dH thr fuel false (if r.2.2 then e - 1 else e + 1) r.2.1

end

end MiciVerif.PySrcAdapters
