/- Support of the distributions produced by the dynamic transition model: all offsets stay
inside the tree.  Used to restrict test functions to `[0, size)`. -/
import MiciVerif.Lemmas.Climb

namespace MiciVerif.Transitions
open Dist MiciVerif.Transitions.TTree

variable {K : Type} [Field K]

/-- every outcome of `d` satisfies `P` -/
def Dist.All {α : Type} (P : α → Prop) (d : Dist K α) : Prop := ∀ x ∈ d, P x.1

namespace Dist
variable {α β : Type}

theorem all_pure (P : α → Prop) (a : α) (h : P a) : All P (Dist.pure a : Dist K α) := by
  intro x hx
  simp [Dist.pure] at hx
  subst hx; exact h

theorem all_bind (P : α → Prop) (Q : β → Prop) (d : Dist K α) (f : α → Dist K β)
    (hd : All P d) (hf : ∀ a, P a → All Q (f a)) : All Q (Dist.bind d f) := by
  intro y hy
  simp only [Dist.bind, List.mem_flatMap, List.mem_map] at hy
  obtain ⟨x, hx, z, hz, rfl⟩ := hy
  exact hf x.1 (hd x hx) z hz

theorem all_map (P : α → Prop) (Q : β → Prop) (f : α → β) (d : Dist K α)
    (hd : All P d) (hf : ∀ a, P a → Q (f a)) : All Q (Dist.map f d) := by
  intro y hy
  simp only [Dist.map, List.mem_map] at hy
  obtain ⟨x, hx, rfl⟩ := hy
  exact hf x.1 (hd x hx)

theorem all_true (d : Dist K α) : All (fun _ => True) d := fun _ _ => trivial

theorem expect_congr_on (P : α → Prop) (d : Dist K α) (hd : All P d) (g h : α → K)
    (hgh : ∀ a, P a → g a = h a) : expect d g = expect d h := by
  induction d with
  | nil => rfl
  | cons x d ih =>
    obtain ⟨a, p⟩ := x
    simp only [expect_cons]
    rw [hgh a (hd (a, p) (by simp)), ih (fun y hy => hd y (by simp [hy]))]

end Dist

variable [LinearOrder K]

theorem propose_lt (fwd : Bool) (t : TTree K) : Dist.All (fun k => k < t.size) (propose fwd t) := by
  induction t with
  | leaf w ok => exact Dist.all_pure _ _ (by simp [size])
  | node l r e τ ihl ihr =>
    unfold propose
    refine Dist.all_bind (fun _ => True) _ _ _ (Dist.all_true _) ?_
    intro b _
    split
    · exact Dist.all_map _ _ _ _ ihr (fun k hk => by simp [size]; omega)
    · exact fun x hx => by have := ihl x hx; simp [size]; omega

theorem stepUp_lt (cur sib : TTree K) (isLeft e : Bool) (c : Nat) (hc : c < cur.size) :
    Dist.All (fun res => res.val < cur.size + sib.size) (stepUp cur sib isLeft e c) := by
  unfold stepUp
  have hhere : (if isLeft then c else c + sib.size) < cur.size + sib.size := by
    split <;> omega
  simp only []
  split
  · exact Dist.all_pure _ _ (by simpa [Res.val] using hhere)
  · split
    · exact Dist.all_pure _ _ (by simpa [Res.val] using hhere)
    · refine Dist.all_bind (fun _ => True) _ _ _ (Dist.all_true _) ?_
      intro b _
      split
      · refine Dist.all_map _ _ _ _ (propose_lt isLeft sib) ?_
        intro k hk
        simp only [Res.val]
        split <;> omega
      · exact Dist.all_pure _ _ (by simpa [Res.val] using hhere)

theorem climb_lt (t : TTree K) : ∀ start, start < t.size →
    Dist.All (fun res => res.val < t.size) (climb t start) := by
  induction t with
  | leaf w ok => intro s _; exact Dist.all_pure _ _ (by simp [Res.val, size])
  | node l r e τ ihl ihr =>
    intro s hs
    unfold climb
    split
    · rename_i h
      refine Dist.all_bind _ _ _ _ (ihl s h) ?_
      intro res hres
      cases res with
      | stopped c => exact Dist.all_pure _ _ (by simp [Res.val, size] at *; omega)
      | top c => simpa [size] using stepUp_lt l r true e c hres
    · rename_i h
      have hs' : s - l.size < r.size := by simp [size] at hs; omega
      refine Dist.all_bind _ _ _ _ (ihr _ hs') ?_
      intro res hres
      cases res with
      | stopped c => exact Dist.all_pure _ _ (by simp [Res.val, size] at *; omega)
      | top c =>
        have := stepUp_lt r l false e c hres
        intro x hx
        have := this x hx
        simp [size] at *; omega

theorem final_lt (t : TTree K) (start : Nat) (h : start < t.size) :
    Dist.All (fun c => c < t.size) (final t start) :=
  Dist.all_map _ _ _ _ (climb_lt t start h) (fun _ h => h)

end MiciVerif.Transitions
