/-
C11 — generic first-order perturbation lemmas over a commutative ring `R` with an element
`ε`, `ε * ε = 0` (instantiates to `DualNumber K`, `ε = DualNumber.eps`).

(L1) `det_add_eps_smul`   : Jacobi's formula
(L2) `inv_add_eps_smul`   : first-order inverse
(L3) `quad_first_order`   : quadratic form of the first-order inverse
plus bookkeeping between `trace`, `dotProduct` and the parameter inner products.
-/
import MiciVerif.Model.MatricesGrad
import Mathlib.LinearAlgebra.Matrix.Charpoly.Coeff
import Mathlib.LinearAlgebra.Matrix.NonsingularInverse

set_option linter.unusedSectionVars false

namespace MiciVerif.MatricesGrad
open Matrix

variable {R : Type*} [CommRing R] {n m : Type*} [Fintype n] [Fintype m]

/-! ### the three generic lemmas -/

theorem det_one_add_eps_smul [DecidableEq n] {ε : R} (hε : ε * ε = 0) (N : Matrix n n R) :
    det (1 + ε • N) = 1 + ε * trace N := by
  rw [Matrix.det_one_add_smul, pow_two, hε, mul_zero, add_zero, mul_comm]

/-- (L1) Jacobi's formula to first order. -/
theorem det_add_eps_smul [DecidableEq n] {ε : R} (hε : ε * ε = 0) (M X D : Matrix n n R)
    (h : M * X = 1) : det (M + ε • D) = det M * (1 + ε * trace (X * D)) := by
  have : M + ε • D = M * (1 + ε • (X * D)) := by
    rw [mul_add, mul_one, Matrix.mul_smul, ← Matrix.mul_assoc, h, Matrix.one_mul]
  rw [this, det_mul, det_one_add_eps_smul hε]

/-- (L2) the first-order inverse. -/
theorem inv_add_eps_smul [DecidableEq n] {ε : R} (hε : ε * ε = 0) (M X D : Matrix n n R)
    (h : M * X = 1) : (M + ε • D) * (X - ε • (X * D * X)) = 1 := by
  have e1 : M * (X * D * X) = D * X := by
    rw [Matrix.mul_assoc X D X, ← Matrix.mul_assoc M X, h, Matrix.one_mul]
  rw [add_mul, mul_sub, mul_sub, h, Matrix.mul_smul, Matrix.smul_mul, Matrix.smul_mul,
    Matrix.mul_smul, e1, smul_smul, hε, zero_smul]
  abel

/-- (L3) quadratic form of the first-order inverse. -/
theorem quad_first_order {ε : R} (X D : Matrix n n R) (v : n → R) :
    v ⬝ᵥ (X - ε • (X * D * X)) *ᵥ v
      = v ⬝ᵥ X *ᵥ v - ε * ((Xᵀ *ᵥ v) ⬝ᵥ D *ᵥ (X *ᵥ v)) := by
  rw [sub_mulVec, dotProduct_sub, smul_mulVec, dotProduct_smul, smul_eq_mul]
  congr 2
  rw [← mulVec_mulVec, ← mulVec_mulVec, dotProduct_mulVec, dotProduct_mulVec, mulVec_transpose,
    ← dotProduct_mulVec]

/-- Right inverses of a square matrix are unique. -/
theorem right_inv_unique [DecidableEq n] {A X Y : Matrix n n R} (hX : A * X = 1)
    (hY : A * Y = 1) : X = Y := by
  have hX' : X * A = 1 := mul_eq_one_comm.mp hX
  calc X = X * (A * Y) := by rw [hY, Matrix.mul_one]
    _ = (X * A) * Y := by rw [Matrix.mul_assoc]
    _ = Y := by rw [hX', Matrix.one_mul]

/-- The inverse of a symmetric matrix is symmetric. -/
theorem inv_symm [DecidableEq n] {M X : Matrix n n R} (hM : Mᵀ = M) (hX : M * X = 1) :
    Xᵀ = X := by
  have hX' : X * M = 1 := mul_eq_one_comm.mp hX
  apply right_inv_unique (A := M) _ hX
  have := congrArg Matrix.transpose hX'
  rwa [transpose_mul, hM, transpose_one] at this

/-- Packaged (L1): log-determinant derivative in direction `D` is `g` once `trace (X D) = g`. -/
theorem logdet_of_perturb [DecidableEq n] {ε : R} (hε : ε * ε = 0) {M X D Mh : Matrix n n R}
    (hMh : Mh = M + ε • D) (h : M * X = 1) {g : R} (hg : trace (X * D) = g) :
    det Mh = det M * (1 + ε * g) := by
  rw [hMh, det_add_eps_smul hε M X D h, hg]

/-- Packaged (L2)+(L3): the perturbed matrix is invertible and the quadratic form of **its**
inverse is the unperturbed one plus `ε * g` once `-(Xᵀ v)·D (X v) = g`. -/
theorem quad_of_perturb [DecidableEq n] {ε : R} (hε : ε * ε = 0) {M X D Mh : Matrix n n R}
    (hMh : Mh = M + ε • D) (h : M * X = 1) (v : n → R) {g : R}
    (hg : -((Xᵀ *ᵥ v) ⬝ᵥ D *ᵥ (X *ᵥ v)) = g) :
    (∃ Xh, Mh * Xh = 1) ∧
      ∀ Xh, Mh * Xh = 1 → v ⬝ᵥ Xh *ᵥ v = v ⬝ᵥ X *ᵥ v + ε * g := by
  have h0 := inv_add_eps_smul hε M X D h
  rw [← hMh] at h0
  refine ⟨⟨_, h0⟩, fun Xh hXh => ?_⟩
  rw [right_inv_unique hXh h0, quad_first_order, ← hg]
  ring

/-! ### trace / dot products versus the parameter inner products -/

theorem innerMat_comm (G D : Matrix n m R) : innerMat G D = innerMat D G := by
  unfold innerMat
  exact Finset.sum_congr rfl fun i _ => Finset.sum_congr rfl fun j _ => mul_comm _ _

theorem innerMat_transpose (G D : Matrix n m R) : innerMat Gᵀ Dᵀ = innerMat G D := by
  unfold innerMat
  rw [Finset.sum_comm]
  rfl

theorem innerMat_smul (c : R) (G D : Matrix n m R) : innerMat (c • G) D = c * innerMat G D := by
  unfold innerMat
  simp only [Matrix.smul_apply, smul_eq_mul, Finset.mul_sum, mul_assoc]

theorem innerMat_neg (G D : Matrix n m R) : innerMat (-G) D = -innerMat G D := by
  unfold innerMat
  simp only [Matrix.neg_apply, neg_mul, Finset.sum_neg_distrib]

/-- `trace (A B) = ⟨Aᵀ, B⟩`. -/
theorem trace_mul_eq_innerMat (A : Matrix m n R) (B : Matrix n m R) :
    trace (A * B) = innerMat Aᵀ B := by
  unfold innerMat
  simp only [trace, diag, Matrix.mul_apply, transpose_apply]
  exact Finset.sum_comm

/-- `u · (D w) = ⟨outer u w, D⟩`. -/
theorem dot_mulVec_eq_innerMat (u : n → R) (D : Matrix n m R) (w : m → R) :
    u ⬝ᵥ D *ᵥ w = innerMat (outer u w) D := by
  unfold innerMat outer
  simp only [dotProduct, mulVec, of_apply, Finset.mul_sum]
  exact Finset.sum_congr rfl fun i _ => Finset.sum_congr rfl fun j _ => by ring

/-- `a · (Dᵀ b) = b · (D a)`. -/
theorem dot_transpose_mulVec (a : m → R) (D : Matrix n m R) (b : n → R) :
    a ⬝ᵥ Dᵀ *ᵥ b = b ⬝ᵥ D *ᵥ a := by
  rw [mulVec_transpose, dotProduct_comm, ← dotProduct_mulVec]

/-- `∏ (1 + ε cᵢ) = 1 + ε Σ cᵢ`. -/
theorem prod_one_add_eps {ι : Type*} {ε : R} (hε : ε * ε = 0) (s : Finset ι) (c : ι → R) :
    ∏ i ∈ s, (1 + ε * c i) = 1 + ε * ∑ i ∈ s, c i := by
  classical
  induction s using Finset.induction_on with
  | empty => simp
  | insert a s ha ih =>
    rw [Finset.prod_insert ha, Finset.sum_insert ha, ih]
    have : (1 + ε * c a) * (1 + ε * ∑ i ∈ s, c i)
        = 1 + ε * (c a + ∑ i ∈ s, c i) + (ε * ε) * (c a * ∑ i ∈ s, c i) := by ring
    rw [this, hε, zero_mul, add_zero]

/-! ### symmetric congruence updates `c • (U K Uᵀ)` perturbed in `U`
(shared by the product matrix and the low-rank update) -/

theorem congruence_perturb {ε : R} (hε : ε * ε = 0) (U δ : Matrix n m R) (K : Matrix m m R) :
    (U + ε • δ) * K * (U + ε • δ)ᵀ = U * K * Uᵀ + ε • (δ * K * Uᵀ + U * K * δᵀ) := by
  rw [transpose_add, transpose_smul]
  simp only [Matrix.add_mul, Matrix.mul_add, Matrix.smul_mul, Matrix.mul_smul, smul_smul, hε,
    zero_smul, add_zero, smul_add]
  abel

theorem congruence_trace [DecidableEq n] (X : Matrix n n R) (hX : Xᵀ = X) (U δ : Matrix n m R)
    (K : Matrix m m R) (hK : Kᵀ = K) :
    trace (X * (δ * K * Uᵀ + U * K * δᵀ)) = 2 * innerMat (X * (U * K)) δ := by
  rw [Matrix.mul_add, trace_add]
  have e1 : trace (X * (δ * K * Uᵀ)) = innerMat (X * (U * K)) δ := by
    rw [Matrix.mul_assoc δ, ← Matrix.mul_assoc X, trace_mul_comm, ← Matrix.mul_assoc,
      trace_mul_comm, trace_mul_eq_innerMat, ← innerMat_transpose (X * (U * K)) δ, innerMat_comm]
    congr 1
    rw [transpose_mul, transpose_mul, hK, hX, Matrix.mul_assoc]
  have e2 : trace (X * (U * K * δᵀ)) = innerMat (X * (U * K)) δ := by
    rw [← Matrix.mul_assoc, ← Matrix.mul_assoc, trace_mul_comm, trace_mul_eq_innerMat,
      transpose_transpose, innerMat_comm, Matrix.mul_assoc]
  rw [e1, e2]; ring

theorem congruence_quad (U δ : Matrix n m R) (K : Matrix m m R) (hK : Kᵀ = K) (u : n → R) :
    u ⬝ᵥ (δ * K * Uᵀ + U * K * δᵀ) *ᵥ u
      = 2 * innerMat (outer u (K *ᵥ (Uᵀ *ᵥ u))) δ := by
  rw [add_mulVec, dotProduct_add]
  have e1 : u ⬝ᵥ (δ * K * Uᵀ) *ᵥ u = innerMat (outer u (K *ᵥ (Uᵀ *ᵥ u))) δ := by
    rw [← mulVec_mulVec, ← mulVec_mulVec, dot_mulVec_eq_innerMat]
  have e2 : u ⬝ᵥ (U * K * δᵀ) *ᵥ u = innerMat (outer u (K *ᵥ (Uᵀ *ᵥ u))) δ := by
    rw [← mulVec_mulVec, ← mulVec_mulVec, dotProduct_mulVec, dotProduct_mulVec,
      ← mulVec_transpose, ← mulVec_transpose, hK, dot_transpose_mulVec, dot_mulVec_eq_innerMat]
  rw [e1, e2]; ring

end MiciVerif.MatricesGrad
