/-
Vocabulary used by the solver-loop translator (`tools/extractors/solver_loops.py`) for the
fixed-point solvers: Python's comparison operators on the float `error = norm(x - x0)` with
IEEE semantics (`+inf` is greater than every finite tolerance, every comparison with NaN is
false) and `np.isnan`.  The hand model (`Model/Solvers.lean`) packages the two tests of the
source as `XNorm.diverged` / `XNorm.converged`; the lemmas below say which source expressions
these are.  Core Lean only.
-/
import MiciVerif.Model.Solvers

namespace MiciVerif.Solvers

/-- `error > tol` -/
def XNorm.gt (e : XNorm) (tol : Rat) : Bool :=
  match e with
  | .fin q => decide (tol < q)
  | .inf => true
  | .nan => false

/-- `error >= tol` -/
def XNorm.ge (e : XNorm) (tol : Rat) : Bool :=
  match e with
  | .fin q => decide (tol ≤ q)
  | .inf => true
  | .nan => false

/-- `error < tol` -/
def XNorm.lt (e : XNorm) (tol : Rat) : Bool :=
  match e with
  | .fin q => decide (q < tol)
  | _ => false

/-- `error <= tol` -/
def XNorm.le (e : XNorm) (tol : Rat) : Bool :=
  match e with
  | .fin q => decide (q ≤ tol)
  | _ => false

/-- `np.isnan(error)` -/
def XNorm.isnan : XNorm → Bool
  | .nan => true
  | _ => false

/-- `error > divergence_tol or np.isnan(error)` is the model's divergence test -/
theorem XNorm.gt_or_isnan (e : XNorm) (tol : Rat) : (e.gt tol || e.isnan) = e.diverged tol := by
  cases e <;> simp [XNorm.gt, XNorm.isnan, XNorm.diverged]

/-- `error < convergence_tol` is the model's convergence test -/
theorem XNorm.lt_eq_converged (e : XNorm) (tol : Rat) : e.lt tol = e.converged tol := by
  cases e <;> rfl

end MiciVerif.Solvers
