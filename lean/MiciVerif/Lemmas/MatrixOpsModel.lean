/-
C10S — glue between the model (`Model/Matrices.lean`) and the class-level reading of the generated
table (`Lemmas/MatrixOpsClass.lean`).
-/
import MiciVerif.Lemmas.MatrixOpsClass
import MiciVerif.Model.Matrices

namespace MiciVerif.MatrixOps
open MiciVerif.Matrices MiciVerif.Matrices.MExpr

variable {K : Type} [Field K]

/-- Truth of `self._sign == 1` for the classes whose branch conditions test it. -/
def signPosOf : {m n : ℕ} → MExpr K m n → Option Bool
  | _, _, denseDef _ s _ _ => some s.isPos
  | _, _, _ => Option.none

/-- The object is of a `PositiveDefiniteMatrix` class (has `.sqrt`). -/
def isPDClass : {m n : ℕ} → MExpr K m n → Bool
  | _, _, identity _ => true
  | _, _, scaledId _ p _ => p
  | _, _, diag p _ => p
  | _, _, triFact pd _ _ => pd
  | _, _, denseDef pd _ _ _ => pd
  | _, _, eigSym pd _ _ => pd
  | _, _, blockDiag k _ _ => k == .posdef
  | _, _, lowRank kind _ _ _ _ _ _ => kind == .posdef
  | _, _, _ => false

/-- The object is of a `SymmetricMatrix` class (`.T` is the object itself). -/
def isSymClass : {m n : ℕ} → MExpr K m n → Bool
  | _, _, identity _ => true
  | _, _, scaledId _ _ _ => true
  | _, _, diag _ _ => true
  | _, _, triFact _ _ _ => true
  | _, _, denseDef _ _ _ _ => true
  | _, _, denseSym _ _ _ => true
  | _, _, eigSym _ _ _ => true
  | _, _, blockDiag k _ _ => k != .square
  | _, _, lowRank kind _ _ _ _ _ _ => kind != .square
  | _, _, _ => false

/-- Reduce a goal about `cls` of a model operation on a constructor with literal flags to a closed
term and decide it in the kernel against the generated table. -/
macro "closed_decide" : tactic => `(tactic| (simp only [cls, smul, MExpr.T, MExpr.inv, isInvClass, isPDClass, isSymClass, signPosOf, matmul, chooseProd, TriF.smul, TriF.T, TriF.inv, Sgn.isPos, Sgn.mul, Sgn.flip, bdSmulKind, lrSmulKind, lrInvRight, Bool.and_true, Bool.and_false, Bool.true_and, Bool.false_and, Bool.not_true, Bool.not_false, if_true, if_false, ↓reduceIte, Bool.false_eq_true, beq_self_eq_true]; decide +kernel))

end MiciVerif.MatrixOps
