/-
C11 — helper lemmas for the triangular-factored classes: `tri` (= `np.tril`/`np.triu`) is
linear, keeps the diagonal, is self-adjoint for `innerMat`, and its determinant is the
product of the diagonal.
-/
import MiciVerif.Lemmas.MatricesGrad
import Mathlib.LinearAlgebra.Matrix.Block

set_option linter.unusedSectionVars false

namespace MiciVerif.MatricesGrad
open Matrix

variable {R : Type*} [CommRing R] {n m : Type*} [Fintype n] [Fintype m] [DecidableEq n]
  [DecidableEq m] [LinearOrder n]

theorem tri_add (l : Bool) (A B : Matrix n n R) : tri l (A + B) = tri l A + tri l B := by
  ext i j
  cases l
  · by_cases h : i ≤ j <;> simp [tri, h]
  · by_cases h : j ≤ i <;> simp [tri, h]

theorem tri_smul (l : Bool) (c : R) (A : Matrix n n R) : tri l (c • A) = c • tri l A := by
  ext i j
  cases l
  · by_cases h : i ≤ j <;> simp [tri, h]
  · by_cases h : j ≤ i <;> simp [tri, h]

theorem tri_diag (l : Bool) (A : Matrix n n R) (i : n) : tri l A i i = A i i := by
  cases l <;> simp [tri]

theorem innerMat_tri (l : Bool) (G D : Matrix n n R) :
    innerMat G (tri l D) = innerMat (tri l G) D := by
  unfold innerMat
  refine Finset.sum_congr rfl fun i _ => Finset.sum_congr rfl fun j _ => ?_
  cases l
  · by_cases h : i ≤ j <;> simp [tri, h]
  · by_cases h : j ≤ i <;> simp [tri, h]

theorem det_tri (l : Bool) (A : Matrix n n R) : det (tri l A) = ∏ i, A i i := by
  cases l
  · rw [det_of_isUpperTriangular]
    · exact Finset.prod_congr rfl fun i _ => tri_diag false A i
    · intro i j hij
      have : ¬ (i ≤ j) := not_le.mpr hij
      simp [tri, this]
  · rw [det_of_isLowerTriangular]
    · exact Finset.prod_congr rfl fun i _ => tri_diag true A i
    · intro i j hij
      have : ¬ (j ≤ i) := not_le.mpr hij
      simp [tri, this]

theorem innerMat_diagonal (g : n → R) (D : Matrix n n R) :
    innerMat (Matrix.diagonal g) D = ∑ i, g i * D i i := by
  unfold innerMat
  refine Finset.sum_congr rfl fun i _ => ?_
  simp [Matrix.diagonal_apply, ite_mul]

theorem triFactored_eq_lowRank (l : Bool) (s : R) (A : Matrix n n R) :
    triFactored l s A = lowRank s 0 (tri l A) 1 := by
  unfold triFactored lowRank; rw [zero_add, Matrix.mul_one]

theorem triFactored_inv {s : R} (hs : s * s = 1) {F Y : Matrix n n R} (hY : F * Y = 1) :
    (s • (F * Fᵀ)) * triFactoredInv s Y = 1 := by
  have hY' : Y * F = 1 := mul_eq_one_comm.mp hY
  unfold triFactoredInv
  rw [Matrix.smul_mul, Matrix.mul_smul, smul_smul, hs, one_smul, Matrix.mul_assoc,
    ← Matrix.mul_assoc Fᵀ, ← transpose_mul, hY', transpose_one, Matrix.one_mul, hY]

end MiciVerif.MatricesGrad
