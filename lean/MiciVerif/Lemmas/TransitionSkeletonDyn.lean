/-
Generic part of the semantic tie of the loop of `DynamicIntegrationTransition.sample` (builder B8): for ANY
statement list whose plan (`Skel.DSem.passPlan`) is the expected list of actions, one pass read on the tree
abstraction (`DSem.runPass`, given what `_build_tree` handed back) is `Transitions.stepUp` followed by the
criterion test of the merged tree, and the whole loop (`DSem.runLoop`, `DSem.loopPass`, with the `_build_tree`
calls read by `BSem.buildRead`) returns `Transitions.final`.  Independent of the generated
tables; `Props/C01S.lean` and `Props/C12K.lean` instantiate it with the loop body generated from the current
source, after deciding that its plan is the expected one.
-/
import MiciVerif.Lemmas.TransitionSkeletonBuild

namespace MiciVerif.Skel.DSem
open MiciVerif.Transitions MiciVerif.Transitions.TTree

/-- the statements of the loop body the model was written against -/
def expectedPassPlan : List PassAct :=
  [.drawDirection, .growFromEdge, .setDirection, .build, .breakIfTerminated, .acceptProbNewOverOld,
   .acceptProposal, .recordRejectProb, .orderNeg, .orderPos, .merge, .breakIfCriterion]

/-- a pass whose merged tree satisfies the termination criterion leaves the loop -/
def mark (τ : Bool) (r : Res) : Res := if τ then .stopped r.val else r

section DistLemmas
variable {K α β γ : Type} [Field K]

theorem map_bind (g : β → γ) (d : Dist K α) (f : α → Dist K β) :
    Dist.map g (Dist.bind d f) = Dist.bind d (fun a => Dist.map g (f a)) := by
  simp [Dist.map, Dist.bind, List.map_flatMap, Function.comp_def]

theorem bind_map (f : α → β) (d : Dist K α) (g : β → Dist K γ) :
    Dist.bind (Dist.map f d) g = Dist.bind d (fun a => g (f a)) := by
  simp [Dist.map, Dist.bind, List.flatMap_map]

omit [Field K] in
theorem map_map (g : β → γ) (f : α → β) (d : Dist K α) :
    Dist.map g (Dist.map f d) = Dist.map (fun a => g (f a)) d := by
  simp [Dist.map, Function.comp_def]

theorem map_pure (g : α → β) (a : α) : Dist.map g (Dist.pure a : Dist K α) = Dist.pure (g a) := by
  simp [Dist.map, Dist.pure]

theorem bind_pure_comp (d : Dist K α) (f : α → β) :
    Dist.bind d (fun a => Dist.pure (f a)) = Dist.map f d := by
  simp only [Dist.map, Dist.bind, Dist.pure, List.map_cons, List.map_nil, mul_one]
  induction d with
  | nil => rfl
  | cons x d ih => simp [List.flatMap_cons, ih]

theorem bind_congr (d : Dist K α) (f g : α → Dist K β) (h : ∀ a, f a = g a) : Dist.bind d f = Dist.bind d g := by
  have : f = g := funext h
  rw [this]

end DistLemmas

variable {K : Type} [Field K] [LinearOrder K]

theorem runPass_expected (cur sib : TTree K) (edgeOk τ dirPlus : Bool) (c : Nat) (h : cur.termFlag = false) :
    runPass cur sib (if edgeOk && sib.valid then some (sib.W, propose dirPlus sib) else none) τ dirPlus
        expectedPassPlan { nextOff := c } =
      Dist.map (mark τ) (stepUp cur sib dirPlus edgeOk c) := by
  unfold stepUp
  cases hv : (edgeOk && sib.valid)
  · simp only [expectedPassPlan, runPass, h, Bool.false_eq_true, if_false, and_self, if_true, PVars.offset,
      Bool.not_false, map_pure, mark, Res.val]
    cases τ <;> cases dirPlus <;> simp
  · simp only [expectedPassPlan, runPass, h, Bool.false_eq_true, if_false, and_self, if_true, PVars.offset,
      Bool.not_true, map_bind]
    refine bind_congr _ _ _ (fun acc => ?_)
    cases acc
    · cases τ <;> cases dirPlus <;> simp [map_pure, mark, Res.val]
    · cases τ <;> cases dirPlus <;> simp [map_map, bind_pure_comp, mark, Res.val]

omit [Field K] [LinearOrder K] in
theorem mark_val (b : Bool) (r : Res) : (mark b r).val = r.val := by
  cases b <;> simp [mark, Res.val]

theorem runLoop_expected (t : TTree K) (start : Nat) :
    runLoop expectedPassPlan BSem.expectedPlan t start = Dist.map (mark t.termFlag) (climb t start) := by
  induction t generalizing start with
  | leaf w ok => simp [runLoop, climb, termFlag, mark, map_pure]
  | node l r e τ ihl ihr =>
    simp only [runLoop, climb, termFlag]
    by_cases hs : start < l.size
    · simp only [hs, if_true, ihl, bind_map, map_bind]
      refine bind_congr _ _ _ (fun res => ?_)
      cases hl : l.termFlag
      · cases res with
        | stopped c => cases τ <;> simp [mark, map_pure, Res.val]
        | top c =>
          obtain ⟨b, hb, hs⟩ := BSem.buildRead_expected true r e
          simp only [mark, Bool.false_eq_true, if_false, hb, BSem.observe_of_spec b _ _ _ hs]
          exact runPass_expected l r e τ true c hl
      · cases res with
        | stopped c => simp [mark, map_pure, Res.val]
        | top c => simp [mark, map_pure, Res.val, stepUp, hl]
    · simp only [hs, if_false, ihr, bind_map, map_bind]
      refine bind_congr _ _ _ (fun res => ?_)
      cases hr : r.termFlag
      · cases res with
        | stopped c => cases τ <;> simp [mark, map_pure, Res.val]
        | top c =>
          obtain ⟨b, hb, hs⟩ := BSem.buildRead_expected false l e
          simp only [mark, Bool.false_eq_true, if_false, hb, BSem.observe_of_spec b _ _ _ hs]
          exact runPass_expected r l e τ false c hr
      · cases res with
        | stopped c => simp [mark, map_pure, Res.val]
        | top c => simp [mark, map_pure, Res.val, stepUp, hr]

/-- A loop body with the expected plan, read on any trajectory tree from any leaf, returns `final`. -/
theorem loopPass_of_plan (body buildBody : List S) (hplan : passPlan body = some expectedPassPlan)
    (hbuild : BSem.buildPlan buildBody = some BSem.expectedPlan) (t : TTree K) (start : Nat) :
    loopPass body buildBody t start = some (final t start) := by
  unfold loopPass final
  rw [hplan, hbuild]
  simp only [Option.bind_some, Option.map_some, runLoop_expected, map_map, mark_val]

end MiciVerif.Skel.DSem
