/-
Low-rank update lemmas with sign (Woodbury, determinant lemma, Ambikasaran square root),
in checked-inverse form.
-/
import MiciVerif.Lemmas.MatricesBlock
import Mathlib.Tactic.Abel
import Mathlib.Tactic.Module

set_option linter.unusedSectionVars false
set_option linter.unusedVariables false

namespace MiciVerif.Matrices
open Matrix
variable {K : Type} [Field K] {n k : ℕ}

section LowRank
variable (s : K) (S Si : Mat n n K) (U : Mat n k K) (V : Mat k n K) (Kin Ki C Ci : Mat k k K)

/-- `M (S⁻¹ U) = U K C` for `M = S + s U K V`, `C = K⁻¹ + s V S⁻¹ U`. -/
theorem lowRank_mul_SiU (hS : S * Si = 1) (hK : Kin * Ki = 1)
    (hC : C = Ki + s • (V * Si * U)) :
    (S + s • (U * Kin * V)) * (Si * U) = U * Kin * C := by
  rw [hC, Matrix.mul_add, Matrix.add_mul, ← Matrix.mul_assoc S, hS, Matrix.one_mul,
    Matrix.mul_assoc U Kin Ki, hK, Matrix.mul_one, Matrix.mul_smul, Matrix.smul_mul]
  congr 2
  simp only [Matrix.mul_assoc]

/-- **Woodbury identity with sign**, in checked-inverse form, with the capacitance matrix
`C = K⁻¹ + sign • V S⁻¹ U` exactly as `capacitance_matrix` computes it, and the inverse
`S⁻¹ + (-sign) • (S⁻¹U) C⁻¹ (V S⁻¹)` exactly as `_construct_inv` builds it. -/
theorem woodbury_signed (hS : S * Si = 1) (hK : Kin * Ki = 1) (hCi : C * Ci = 1)
    (hC : C = Ki + s • (V * Si * U)) :
    (S + s • (U * Kin * V)) * (Si + (-s) • ((Si * U) * Ci * (V * Si))) = 1 := by
  have h2 := lowRank_mul_SiU s S Si U V Kin Ki C hS hK hC
  rw [Matrix.mul_add, Matrix.mul_smul, Matrix.mul_assoc (Si * U), ← Matrix.mul_assoc _ (Si * U), h2,
    Matrix.mul_assoc (U * Kin) C, ← Matrix.mul_assoc C, hCi, Matrix.one_mul, Matrix.add_mul, hS,
    Matrix.smul_mul]
  simp only [Matrix.mul_assoc, neg_smul]
  abel

/-- The capacitance matrix of the inverse object is `K⁻¹` (what `_construct_inv` passes). -/
theorem capacitance_of_inv (hSi : Si * S = 1) (hC : C = Ki + s • (V * Si * U)) :
    Ki = C + (-s) • ((V * Si) * S * (Si * U)) := by
  rw [hC, Matrix.mul_assoc V Si S, hSi, Matrix.mul_one, ← Matrix.mul_assoc]
  simp [neg_smul]

/-- **Matrix determinant lemma with sign**: `det(S + s U K V) = det S · det K · det C` with
`C = K⁻¹ + s V S⁻¹ U`, which is what `log_abs_det` sums. -/
theorem det_lowRank_signed (hS : S * Si = 1) (hK : Kin * Ki = 1)
    (hC : C = Ki + s • (V * Si * U)) :
    (S + s • (U * Kin * V)).det = S.det * Kin.det * C.det := by
  have hKi : Ki * Kin = 1 := mul_eq_one_comm.mp hK
  have h1 : S + s • (U * Kin * V) = S * (1 + (s • (Si * U * Kin)) * V) := by
    rw [Matrix.mul_add, Matrix.mul_one, Matrix.smul_mul, Matrix.mul_smul]
    simp only [← Matrix.mul_assoc, hS, Matrix.one_mul]
  have h2 : C * Kin = 1 + V * (s • (Si * U * Kin)) := by
    rw [hC, Matrix.add_mul, hKi, Matrix.mul_smul, Matrix.smul_mul]
    simp only [Matrix.mul_assoc]
  rw [h1, Matrix.det_mul, Matrix.det_one_add_mul_comm, ← h2, Matrix.det_mul]
  ring

end LowRank

section Sqrt
variable (s : K) (W Wi : Mat n n K) (U : Mat n k K) (Kin L Li Mm : Mat k k K)

/-- Core of Ambikasaran–O'Neill–Singh: `(1 + u X uᵀ)² = 1 + sign • u K uᵀ` for
`X = L⁻ᵀ (M - 1) L⁻¹`, `L Lᵀ = uᵀu`, `M² = 1 + sign • Lᵀ K L`. -/
theorem ambikasaran_core (u : Mat n k K) (hL : L * Li = 1) (hLL : L * Lᵀ = uᵀ * u)
    (hM : Mm * Mm = 1 + s • (Lᵀ * Kin * L)) :
    (1 + u * (Liᵀ * (Mm - 1) * Li) * uᵀ) * (1 + u * (Liᵀ * (Mm - 1) * Li) * uᵀ)
      = 1 + s • (u * Kin * uᵀ) := by
  have hLi : Li * L = 1 := mul_eq_one_comm.mp hL
  have hLt : Liᵀ * Lᵀ = 1 := by rw [← Matrix.transpose_mul, hL, Matrix.transpose_one]
  have hLt' : Lᵀ * Liᵀ = 1 := by rw [← Matrix.transpose_mul, hLi, Matrix.transpose_one]
  set X := Liᵀ * (Mm - 1) * Li with hX
  have hXX : X * (uᵀ * u) * X = Liᵀ * ((Mm - 1) * (Mm - 1)) * Li := by
    rw [← hLL, hX]
    calc Liᵀ * (Mm - 1) * Li * (L * Lᵀ) * (Liᵀ * (Mm - 1) * Li)
        = Liᵀ * (Mm - 1) * (Li * L) * (Lᵀ * Liᵀ) * (Mm - 1) * Li := by
          simp only [Matrix.mul_assoc]
      _ = Liᵀ * ((Mm - 1) * (Mm - 1)) * Li := by
          rw [hLi, hLt']; simp only [Matrix.mul_one, Matrix.mul_assoc]
  have hsq : (Mm - 1) * (Mm - 1) + (Mm - 1) + (Mm - 1) = s • (Lᵀ * Kin * L) := by
    have : (Mm - 1) * (Mm - 1) = Mm * Mm - Mm - Mm + 1 := by
      rw [Matrix.sub_mul, Matrix.mul_sub, Matrix.mul_sub]; simp; abel
    rw [this, hM]; abel
  have hK : Liᵀ * (s • (Lᵀ * Kin * L)) * Li = s • Kin := by
    rw [Matrix.mul_smul, Matrix.smul_mul]
    congr 1
    calc Liᵀ * (Lᵀ * Kin * L) * Li = (Liᵀ * Lᵀ) * Kin * (L * Li) := by simp only [Matrix.mul_assoc]
      _ = Kin := by rw [hLt, hL]; simp
  have hsum : X * (uᵀ * u) * X + X + X = s • Kin := by
    rw [hXX, hX, ← hK, ← hsq]
    simp only [Matrix.mul_add, Matrix.add_mul]
  calc (1 + u * X * uᵀ) * (1 + u * X * uᵀ)
      = 1 + u * (X * (uᵀ * u) * X + X + X) * uᵀ := by
        simp only [Matrix.mul_add, Matrix.add_mul, Matrix.mul_one, Matrix.one_mul, Matrix.mul_assoc]
        abel
    _ = 1 + s • (u * Kin * uᵀ) := by
        rw [hsum]; simp [Matrix.mul_smul, Matrix.smul_mul]

/-- `_construct_sqrt` of `PositiveDefiniteLowRankUpdateMatrix`: with `W` a square root of `P`
(`W Wᵀ = P` is used by the caller), `u = W⁻¹U`, `L Lᵀ = uᵀu`, `M = Mᵀ`, `M² = 1 + sign • LᵀKL`,
the factor `R = W (1 + u X uᵀ)` satisfies `R Rᵀ = W Wᵀ + sign • U K Uᵀ`. -/
theorem lowRank_sqrt_signed (hW : W * Wi = 1) (hL : L * Li = 1)
    (hLL : L * Lᵀ = (Wi * U)ᵀ * (Wi * U)) (hMs : Mmᵀ = Mm)
    (hM : Mm * Mm = 1 + s • (Lᵀ * Kin * L)) :
    (W * (1 + (Wi * U) * (Liᵀ * (Mm - 1) * Li) * (Wi * U)ᵀ)) *
      (W * (1 + (Wi * U) * (Liᵀ * (Mm - 1) * Li) * (Wi * U)ᵀ))ᵀ
      = W * Wᵀ + s • (U * Kin * Uᵀ) := by
  obtain ⟨u, hu⟩ : ∃ u, u = Wi * U := ⟨_, rfl⟩
  rw [← hu] at hLL ⊢
  have hsymm : (1 + u * (Liᵀ * (Mm - 1) * Li) * uᵀ)ᵀ = 1 + u * (Liᵀ * (Mm - 1) * Li) * uᵀ := by
    simp only [Matrix.transpose_add, Matrix.transpose_one, Matrix.transpose_mul,
      Matrix.transpose_transpose, Matrix.transpose_sub, hMs, Matrix.mul_assoc]
  have hWu : W * u = U := by rw [hu, ← Matrix.mul_assoc, hW, Matrix.one_mul]
  rw [Matrix.transpose_mul W, hsymm, Matrix.mul_assoc W, ← Matrix.mul_assoc _ _ Wᵀ,
    ambikasaran_core s Kin L Li Mm u hL hLL hM]
  rw [Matrix.add_mul, Matrix.one_mul, Matrix.mul_add, Matrix.smul_mul, Matrix.mul_smul]
  congr 2
  calc W * (u * Kin * uᵀ * Wᵀ) = (W * u) * Kin * (W * u)ᵀ := by
        simp only [Matrix.transpose_mul, Matrix.mul_assoc]
    _ = U * Kin * Uᵀ := by rw [hWu]

end Sqrt

section SymmInv
/-- The checked inverse of a symmetric matrix is symmetric. -/
theorem inv_symm {A X : Mat n n K} (h : A * X = 1) (hA : Aᵀ = A) : Xᵀ = X := by
  have hXA : X * A = 1 := mul_eq_one_comm.mp h
  have h1 : Xᵀ * A = 1 := by
    have := congrArg Matrix.transpose h
    rwa [Matrix.transpose_mul, Matrix.transpose_one, hA] at this
  calc Xᵀ = Xᵀ * (A * X) := by rw [h, Matrix.mul_one]
    _ = X := by rw [← Matrix.mul_assoc, h1, Matrix.one_mul]

/-- two-sided inverses are unique -/
theorem inv_unique {A X Y : Mat n n K} (h1 : A * X = 1) (h2 : Y * A = 1) : X = Y := by
  calc X = (Y * A) * X := by rw [h2, Matrix.one_mul]
    _ = Y := by rw [Matrix.mul_assoc, h1, Matrix.mul_one]
end SymmInv

end MiciVerif.Matrices
