/-
C11S — meaning of the extracted bodies of the SoftAbs class (`softabs`, `grad_softabs`,
`grad_log_abs_det`, `grad_quadratic_form_inv` of `SoftAbsRegularizedPositiveDefiniteMatrix`) as NumPy
array expressions over an ordered field.

These bodies use what the ring evaluator `gEval` (Lemmas/MatrixOpsGrad.lean) has no meaning for:
comparisons, `abs`, `np.maximum`, `np.where`, broadcasting of `v[:, None]` against `v[None, :]`,
elementwise function application (`np.tanh`, `np.sinh`, `self.grad_softabs`) and item assignment
through a boolean mask (`a[mask] = g(b[mask] / 2)`).  `SVal` is a NumPy value of outer size `n`;
`sEval atoms fns none e` evaluates a symbolic expression:

* `atoms` gives the values of the leaves (`self.eigvec`, `self.eigval`, `self.unreg_eigval`,
  `vector`, `x`, `self._softabs_coeff`, the machine tolerance `np.finfo(·).eps ** 0.5`);
* `fns` gives the elementwise functions that stay abstract (`np.tanh`, `np.sinh`,
  `self.grad_softabs`): the spectral function and its derivative are DATA, not analysed here;
* `/` is the division of the field (the SoftAbs theorems take `1 / f(λ)` as `(f λ)⁻¹`);
* `setitem a idx v` (the local `a` after `a[idx] = v`) is `np.where(idx, v↑, a)` where `v↑` is `v`
  evaluated in *masked mode* (`sEval … (some idx)`): there `b[idx]` — with literally the same mask
  expression `idx` — stands for the full array `b`, and only elementwise operations are allowed
  between the masked reads and the masked write (scalars, `/`, `self.f(·)`), anything else is `none`.
  This is the NumPy semantics of `a[m] = g(b[m] / 2)` for a boolean mask `m` of the shape of `a`, `b`.

Trusted (not proved here): that NumPy's operators have these meanings, and the extractor's inlining
of locals (`tools/extractors/matrix_ops.py`).
-/
import MiciVerif.Lemmas.MatrixOpsSyntax
import MiciVerif.Model.MatricesGrad
import Mathlib.Algebra.Order.Field.Basic

namespace MiciVerif.MatrixOps
open Matrix MiciVerif.MatricesGrad

inductive SVal (K : Type) (n : ℕ)
  | sc (c : K)
  /-- 1-D array -/
  | vec (v : Fin n → K)
  /-- `v[:, None]` (shape `(n, 1)`) -/
  | col (v : Fin n → K)
  /-- `v[None, :]` (shape `(1, n)`) -/
  | row (v : Fin n → K)
  | mat (M : Matrix (Fin n) (Fin n) K)
  /-- boolean 1-D / 2-D arrays -/
  | bvec (b : Fin n → Bool)
  | bmat (b : Fin n → Fin n → Bool)

namespace SVal
variable {K : Type} {n : ℕ}

/-- elementwise function -/
def map (g : K → K) : SVal K n → Option (SVal K n)
  | sc c => some (sc (g c))
  | vec v => some (vec fun i => g (v i))
  | col v => some (col fun i => g (v i))
  | row v => some (row fun i => g (v i))
  | mat M => some (mat (Matrix.of fun i j => g (M i j)))
  | _ => none

/-- elementwise binary operation with NumPy broadcasting (the combinations that occur) -/
def zip (f : K → K → K) : SVal K n → SVal K n → Option (SVal K n)
  | sc a, sc b => some (sc (f a b))
  | sc a, vec v => some (vec fun i => f a (v i))
  | vec v, sc b => some (vec fun i => f (v i) b)
  | vec u, vec v => some (vec fun i => f (u i) (v i))
  | sc a, mat M => some (mat (Matrix.of fun i j => f a (M i j)))
  | mat M, sc b => some (mat (Matrix.of fun i j => f (M i j) b))
  | mat A, mat B => some (mat (Matrix.of fun i j => f (A i j) (B i j)))
  | col u, row w => some (mat (Matrix.of fun i j => f (u i) (w j)))
  | col u, mat M => some (mat (Matrix.of fun i j => f (u i) (M i j)))
  | _, _ => none

/-- elementwise comparison -/
def cmp (r : K → K → Bool) : SVal K n → SVal K n → Option (SVal K n)
  | vec v, sc b => some (bvec fun i => r (v i) b)
  | vec u, vec v => some (bvec fun i => r (u i) (v i))
  | mat M, sc b => some (bmat fun i j => r (M i j) b)
  | mat A, mat B => some (bmat fun i j => r (A i j) (B i j))
  | _, _ => none

def asVec : SVal K n → Option (Fin n → K)
  | sc c => some fun _ => c
  | vec v => some v
  | _ => none

def asMat : SVal K n → Option (Matrix (Fin n) (Fin n) K)
  | sc c => some (Matrix.of fun _ _ => c)
  | mat M => some M
  | _ => none

/-- `np.where(c, x, y)`; also the array after `y[c] = x` -/
def sel : SVal K n → SVal K n → SVal K n → Option (SVal K n)
  | bvec c, x, y =>
    match asVec x, asVec y with
    | some u, some w => some (vec fun i => if c i then u i else w i)
    | _, _ => none
  | bmat c, x, y =>
    match asMat x, asMat y with
    | some A, some B => some (mat (Matrix.of fun i j => if c i j then A i j else B i j))
    | _, _ => none
  | _, _, _ => none

/-- `a @ b` -/
def mm [CommRing K] : SVal K n → SVal K n → Option (SVal K n)
  | mat A, mat B => some (mat (A * B))
  | mat A, vec v => some (vec (A *ᵥ v))
  | _, _ => none

/-- `np.outer(a, b)` -/
def outerV [CommRing K] : SVal K n → SVal K n → Option (SVal K n)
  | vec u, vec w => some (mat (outer u w))
  | _, _ => none

/-- `a.T` -/
def tr : SVal K n → Option (SVal K n)
  | mat M => some (mat Mᵀ)
  | _ => none

def toCol : SVal K n → Option (SVal K n)
  | vec v => some (col v)
  | _ => none

def toRow : SVal K n → Option (SVal K n)
  | vec v => some (row v)
  | _ => none

end SVal

/-- `[:, None]` / `[None, :]` as extracted -/
def fullSlice : SExpr := .call "slice" (.cons .none (.cons .none (.cons .none .nil)))
def colIdx : SExpr := .tuple (.cons fullSlice (.cons .none .nil))
def rowIdx : SExpr := .tuple (.cons .none (.cons fullSlice .nil))

variable {K : Type} [Field K] [LinearOrder K] {n : ℕ}

def sbind2 (f : SVal K n → SVal K n → Option (SVal K n)) (a b : Option (SVal K n)) : Option (SVal K n) :=
  match a, b with
  | some x, some y => f x y
  | _, _ => Option.none

def sbind3 (f : SVal K n → SVal K n → SVal K n → Option (SVal K n)) (a b c : Option (SVal K n)) :
    Option (SVal K n) :=
  match a, b, c with
  | some x, some y, some z => f x y z
  | _, _, _ => Option.none

/-- Value of an extracted array expression.  Second argument: `none` = ordinary evaluation,
`some idx` = masked mode for the right-hand side of `a[idx] = …` (see the file header). -/
def sEval (atoms : SExpr → Option (SVal K n)) (fns : String → Option (K → K)) :
    Option SExpr → SExpr → Option (SVal K n)
  -- masked mode: only masked reads with the same mask, scalars and elementwise operations
  | some idx, .index a i => if i == idx then sEval atoms fns Option.none a else Option.none
  | some _, .num m => some (.sc (m : K))
  | some idx, .div a b =>
      sbind2 (SVal.zip (· / ·)) (sEval atoms fns (some idx) a) (sEval atoms fns (some idx) b)
  | some idx, .mcall o meth args =>
      if o == .self then
        match fns ("self." ++ meth), args with
        | some g, .cons a .nil => (sEval atoms fns (some idx) a).bind (SVal.map g)
        | _, _ => Option.none
      else Option.none
  | some _, _ => Option.none
  -- ordinary evaluation
  | Option.none, .num m => some (.sc (m : K))
  | Option.none, .rat a b => some (.sc ((a : K) / (b : K)))
  | Option.none, .neg a => (sEval atoms fns Option.none a).bind (SVal.map fun x => -x)
  | Option.none, .add a b =>
      sbind2 (SVal.zip (· + ·)) (sEval atoms fns Option.none a) (sEval atoms fns Option.none b)
  | Option.none, .sub a b =>
      sbind2 (SVal.zip (· - ·)) (sEval atoms fns Option.none a) (sEval atoms fns Option.none b)
  | Option.none, .mul a b =>
      sbind2 (SVal.zip (· * ·)) (sEval atoms fns Option.none a) (sEval atoms fns Option.none b)
  | Option.none, .div a b =>
      sbind2 (SVal.zip (· / ·)) (sEval atoms fns Option.none a) (sEval atoms fns Option.none b)
  | Option.none, .matmul a b =>
      sbind2 SVal.mm (sEval atoms fns Option.none a) (sEval atoms fns Option.none b)
  | Option.none, .pow a b =>
      match b with
      | .num m => (sEval atoms fns Option.none a).bind (SVal.map fun x => x ^ m)
      | _ => atoms (.pow a b)
  | Option.none, .cmp op a b =>
      if op == "<" then
        sbind2 (SVal.cmp fun x y => decide (x < y)) (sEval atoms fns Option.none a) (sEval atoms fns Option.none b)
      else if op == "<=" then
        sbind2 (SVal.cmp fun x y => decide (x ≤ y)) (sEval atoms fns Option.none a) (sEval atoms fns Option.none b)
      else Option.none
  | Option.none, .call fn args =>
      if fn == "np.where" then
        match args with
        | .cons c (.cons a (.cons b .nil)) =>
            sbind3 SVal.sel (sEval atoms fns Option.none c) (sEval atoms fns Option.none a)
              (sEval atoms fns Option.none b)
        | _ => Option.none
      else if fn == "abs" then
        match args with
        | .cons a .nil => (sEval atoms fns Option.none a).bind (SVal.map fun x => |x|)
        | _ => Option.none
      else if fn == "np.maximum" then
        match args with
        | .cons a (.cons b .nil) =>
            sbind2 (SVal.zip max) (sEval atoms fns Option.none a) (sEval atoms fns Option.none b)
        | _ => Option.none
      else if fn == "np.outer" then
        match args with
        | .cons a (.cons b .nil) =>
            sbind2 SVal.outerV (sEval atoms fns Option.none a) (sEval atoms fns Option.none b)
        | _ => Option.none
      else
        match fns fn, args with
        | some g, .cons a .nil => (sEval atoms fns Option.none a).bind (SVal.map g)
        | _, _ => atoms (.call fn args)
  | Option.none, .mcall o meth args =>
      if o == .self then
        match fns ("self." ++ meth), args with
        | some g, .cons a .nil => (sEval atoms fns Option.none a).bind (SVal.map g)
        | _, _ => atoms (.mcall o meth args)
      else atoms (.mcall o meth args)
  | Option.none, .index a i =>
      if i == colIdx then (sEval atoms fns Option.none a).bind SVal.toCol
      else if i == rowIdx then (sEval atoms fns Option.none a).bind SVal.toRow
      else atoms (.index a i)
  | Option.none, .attr a f =>
      match atoms (.attr a f) with
      | some v => some v
      | Option.none =>
        if f == "array" then sEval atoms fns Option.none a
        else if f == "T" then (sEval atoms fns Option.none a).bind SVal.tr
        else Option.none
  | Option.none, .setitem a idx v =>
      sbind3 SVal.sel (sEval atoms fns Option.none idx) (sEval atoms fns (some idx) v)
        (sEval atoms fns Option.none a)
  | Option.none, e => atoms e

/-! ### The two-branch definitions of `softabs` / `grad_softabs` (source of /repo after ac40ccc)

`th`, `sh` stand for `tanh`, `sinh` (abstract).  For `|coeff * x| < 1e-3` the series branch, otherwise
the closed form.  (That the series branch is the Taylor polynomial of the closed form is analysis and
is NOT proved; the harness compares both branches numerically across the threshold.) -/

def softabsTwoBranch (c : K) (th : K → K) (x : K) : K :=
  if |c * x| < 1 / 1000 then (1 + (c * x) ^ 2 / 3 - (c * x) ^ 4 / 45) / c else x / th (x * c)

def gradSoftabsTwoBranch (c : K) (th sh : K → K) (x : K) : K :=
  if |c * x| < 1 / 1000 then 2 * (c * x) / 3 - 4 * (c * x) ^ 3 / 45
  else 1 / th (c * x) - c * x / sh (c * x) ^ 2

/-! ### Leaves of the SoftAbs bodies and the literal value of the code's `j_mtx` -/

/-- The returned expression of a fully represented single-path method given directly (not via the
class table): `softabsFn`, `gradSoftabsFn`. -/
def methodRet (m : Method) : Option SExpr :=
  if m.unknown then Option.none else
  match m.branches with
  | [b] => if b.cond == .tt then some b.ret else Option.none
  | _ => Option.none

/-- leaves of `softabs(x)` / `grad_softabs(x)`: the coefficient and the argument (a 1-D array) -/
def fnAtoms (c : K) (x : Fin n → K) : SExpr → Option (SVal K n)
  | .attr .self "_softabs_coeff" => some (.sc c)
  | .var "x" => some (.vec x)
  | _ => Option.none

/-- `np.tanh`, `np.sinh` stay abstract -/
def hypFns (th sh : K → K) : String → Option (K → K)
  | "np.tanh" => some th
  | "np.sinh" => some sh
  | _ => Option.none

/-- leaves of the two gradient bodies: `eigvec = Q`, `unreg_eigval = lam`, `eigval = flam`
(`= softabs(lam)`, set by `__init__`), the argument `vector`, and the relative tolerance
`np.finfo(<dtype of the difference matrix>).eps ** 0.5` -/
def specAtoms (Q : Matrix (Fin n) (Fin n) K) (lam flam v : Fin n → K) (tol : K) : SExpr → Option (SVal K n)
  | .attr .self "eigvec" => some (.mat Q)
  | .attr .self "eigval" => some (.vec flam)
  | .attr .self "unreg_eigval" => some (.vec lam)
  | .var "vector" => some (.vec v)
  | .pow (.attr (.call "np.finfo" _) "eps") (.rat 1 2) => some (.sc tol)
  | _ => Option.none

/-- `self.grad_softabs` stays abstract: the derivative `df` of the spectral function -/
def specFns (df : K → K) : String → Option (K → K)
  | "self.grad_softabs" => some df
  | _ => Option.none

/-- the code's `j_mtx = num_j_mtx / den_j_mtx` after the two masked assignments, literally -/
def codeJ (tol : K) (f df : K → K) (lam : Fin n → K) : Matrix (Fin n) (Fin n) K :=
  Matrix.of fun a b =>
    (if decide (|lam a - lam b| ≤ tol * max |lam a + lam b| ((1 : ℕ) : K)) = true then
        df ((lam a + lam b) / ((2 : ℕ) : K))
      else f (lam a) - f (lam b)) /
    (if decide (|lam a - lam b| ≤ tol * max |lam a + lam b| ((1 : ℕ) : K)) = true then ((1 : ℕ) : K)
      else lam a - lam b)

/-- … is the model's `softabsJ`: derivative at the midpoint on the (near-)coincident pairs (the
denominator there is set to 1), divided difference elsewhere. -/
theorem codeJ_eq (tol : K) (f df : K → K) (lam : Fin n → K) : codeJ tol f df lam = softabsJ tol f df lam := by
  ext a b
  simp only [codeJ, softabsJ, Matrix.of_apply, Nat.cast_one, Nat.cast_ofNat, decide_eq_true_eq]
  split_ifs
  · rw [div_one]
  · rfl

end MiciVerif.MatrixOps
