/-
`ParSem.poolPass` on statement lists whose plans are the ones of the current source is
`Sampler.stagePar` under the schedule `poolSched`; a schedule without interrupt that contains at
least as many pops by existing workers as there are chains drains the queue.
(The plan equalities themselves are decided on the generated trees in `Props/C14P.lean`, `C15P.lean`.)
-/
import MiciVerif.Lemmas.SamplerParSem

namespace MiciVerif.Skel.ParSem
open MiciVerif.Sampler MiciVerif.Stagers MiciVerif.Skel

variable {St V A P : Type}

/-- the worker's loop body of the current source -/
def workerPlanNow : List WAct :=
  [.takeChain, .runChain, .unlessAdaptError [.readRngState, .appendIndexed], .ifInterrupted [.putInterrupt, .brk]]

/-- the fill loop of the current source -/
def fillPlanNow : List QAct := [.statsPaths, .tracesPaths, .keepRng, .putChain]

/-- the parent's interrupt branch of the current source -/
def onInterruptNow : List PIntr := [.recordException, .brk]

/-- One pass of the worker's loop of the current source is the model's pass. -/
theorem takePass_now (K : Kernel St V A P) (st : Stage) (offset : Nat) (intr : Option (Nat × Nat × Nat))
    (c : Nat) (ch : Chain St V) (wk : Worker St V A P) :
    takePass workerPlanNow K st offset intr c ch wk = some (modelTake K st offset intr c ch wk) := by
  unfold takePass workerPlanNow modelTake
  simp only [runWActs, runInner, Option.bind_some]
  by_cases hh : (sampleChain K st offset (chainIntr intr c) wk.params ch.state ch.rng ch.log ch.mem).halted = true
  · simp [hh, runIntr]
  · simp [hh]

theorem fill_fold (l : List (Nat × Chain St V)) (a : List Nat) (b : List (Nat × Chain St V)) :
    l.foldl (fun x cc => runQActs cc.1 cc.2 fillPlanNow x) (a, b) = (a ++ l.map (·.1), b ++ l) := by
  induction l generalizing a b with
  | nil => simp
  | cons x l ih =>
    rw [List.foldl_cons,
      show runQActs x.1 x.2 fillPlanNow (a, b) = (a ++ [x.1], b ++ [(x.1, x.2)]) from rfl,
      ih (a ++ [x.1]) (b ++ [(x.1, x.2)])]
    simp

/-- The fill loop of the current source keeps the generator object of chain `i` at position `i` and
queues every chain once, in index order. -/
theorem fillQueue_now (chains : List (Chain St V)) :
    fillQueue fillPlanNow chains = (List.range chains.length, queueOf chains) := by
  unfold fillQueue
  rw [fill_fold, queueOf_idx]
  simp

theorem collate_fold (l : List (Out St A)) (outs : List (Out St A)) (chains : List (Chain St V)) :
    l.foldl (fun x o => Sem.runCollateActs [.restoreRng, .appendOutput] o x) (outs, chains) =
      (outs ++ l, l.foldl restoreRng chains) := by
  induction l generalizing outs chains with
  | nil => simp
  | cons o l ih =>
    simp only [List.foldl_cons]
    rw [show Sem.runCollateActs [.restoreRng, .appendOutput] o (outs, chains) = (outs ++ [o], restoreRng chains o) from rfl, ih]
    simp

/-- **The worker / queue / parent reading is `Sampler.stagePar`.**  For statement lists whose plans are
those of the current source, for every kernel, stage, offset, interrupt point, number of workers,
schedule, parameters and chain list. -/
theorem poolPass_eq (worker parent : List S) (col : S)
    (hw : workerPlan? worker = some workerPlanNow)
    (hp : parPlan? parent = some ⟨fillPlanNow, onInterruptNow, col⟩)
    (hc : Sem.collatePlan? col = some [.restoreRng, .appendOutput])
    (K : Kernel St V A P) (st : Stage) (offset : Nat) (intr : Option (Nat × Nat × Nat)) (np : Nat)
    (σ : List Nat) (p : P) (chains : List (Chain St V)) :
    poolPass worker parent K st offset intr np σ p chains =
      some (stagePar K st offset intr true (poolSched K st offset intr np σ p chains) p chains) := by
  unfold poolPass
  simp only [hw, hp, Option.bind_some, fillQueue_now, if_true]
  have htake : takePass workerPlanNow K st offset intr =
      fun c ch wk => some (modelTake K st offset intr c ch wk) := by
    funext c ch wk; exact takePass_now K st offset intr c ch wk
  rw [htake]
  have hrun := poolRun_model K st offset intr np σ (pool0 p chains)
  unfold pool0 at hrun
  rw [hrun]
  simp only [Option.bind_some]
  have hinv := pinv_poolModel K st offset intr chains p np σ _ (pinv_init K st offset intr chains p np)
  unfold pool0 at hinv
  have h1 := perWorker_eq K st offset intr chains p np _ hinv
  have h2 := halted_eq K st offset intr chains p np _ hinv
  unfold onInterruptNow
  rw [h2, h1]
  unfold Sem.collatePass
  rw [hc]
  simp only [Option.map_some, collate_fold, List.nil_append]
  rfl

/-! ### complete schedules -/

theorem modelTake_none_stopped (K : Kernel St V A P) (st : Stage) (offset : Nat)
    (c : Nat) (ch : Chain St V) (wk : Worker St V A P) :
    (modelTake K st offset none c ch wk).1.stopped = false := by
  have := chainRes_none_halted K st offset wk.params ch
  unfold chainRes at this
  simpa [modelTake, chainIntr] using this

theorem drained_aux (K : Kernel St V A P) (st : Stage) (offset : Nat) (np : Nat) (σ : List Nat)
    (pl : Pool St V A P) (h : ∀ w, (pl.workers w).stopped = false) :
    (poolModel K st offset none np σ pl).queue.length = pl.queue.length - (σ.filter (· < np)).length := by
  induction σ generalizing pl with
  | nil => simp [poolModel]
  | cons w σ ih =>
    show (poolModel K st offset none np σ (poolModelStep K st offset none np pl w)).queue.length = _
    unfold poolModelStep
    cases hq : pl.queue with
    | nil =>
      simp only
      rw [ih pl h, hq]
      simp
    | cons x rest =>
      obtain ⟨c, ch⟩ := x
      simp only
      by_cases hw : w < np
      · have hc : (w < np ∧ (pl.workers w).stopped = false) := ⟨hw, h w⟩
        simp only [hc, and_self, if_true]
        rw [ih]
        · simp only [List.length_cons, List.filter_cons, hw, decide_true, if_true]
          omega
        · intro i
          by_cases hi : i = w
          · simp only [hi, if_true]; exact modelTake_none_stopped K st offset c ch _
          · simp only [hi, if_false]; exact h i
      · have hc : ¬ (w < np ∧ (pl.workers w).stopped = false) := fun h' => hw h'.1
        simp only [hc, if_false]
        rw [ih pl h, hq]
        simp [hw]

/-- Without an interrupt a schedule that contains at least `n` pops by existing workers takes every
chain: the queue is drained. -/
theorem drained_of_enough (K : Kernel St V A P) (st : Stage) (offset : Nat) (np : Nat) (σ : List Nat)
    (p : P) (chains : List (Chain St V)) (h : chains.length ≤ (σ.filter (· < np)).length) :
    poolDrained K st offset none np σ p chains = true := by
  unfold poolDrained
  rw [List.isEmpty_iff, ← List.length_eq_zero_iff,
    drained_aux K st offset np σ (pool0 p chains) (fun _ => rfl)]
  have : (pool0 p chains : Pool St V A P).queue.length = chains.length := by
    simp [pool0, queueOf]
  omega

end MiciVerif.Skel.ParSem
