/-
Leapfrog trajectories for the Gaussian-split system (`GaussianEuclideanMetricSystem.h2_flow`
REBINDS `pos` and `mom` and calls no cached method) in the cache model.
-/
import MiciVerif.Lemmas.CacheLeapfrog

namespace MiciVerif.Cache

variable {tbl : Table} {cfg : Cfg}

theorem outCount_assign (k : Key) (h : Heap) (c : Nat) (x : Var) :
    outCount k (step tbl cfg h (.assign c x)).2 = 0 := by
  simp only [step]
  split
  · split <;> rfl
  · rfl

theorem writable_assign (h : Heap) (c : Nat) (x : Var) (hw : Writable h c) :
    Writable (step tbl cfg h (.assign c x)).1 c ∧ (step tbl cfg h (.assign c x)).1.nSt = h.nSt := by
  simp only [step, hw.1, if_true, hw.2.1, Bool.false_eq_true, if_false]
  refine ⟨⟨hw.1, ?_, ?_⟩, rfl⟩
  · simp only [setSt, if_true]; exact hw.2.1
  · simp only [setSt, if_true]; exact hw.2.2

theorem gw_assign_false (h : Heap) (c sys g : Nat) (x : Var) (hg : gw h c sys g = false) :
    gw (step tbl cfg h (.assign c x)).1 c sys g = false := by
  simp only [step]
  split
  · split
    · exact hg
    · simp only [gw, setSt, if_true]
      unfold invalidate
      split
      · rfl
      · exact hg
  · exact hg

section
variable (hs : DepsSound tbl) (hp : DepsPrecise tbl) (hna : ∀ s m, cfg.aliasRet s m = none)
variable {sys dh1 g v : Nat} (L : LeapfrogSys tbl cfg sys dh1 g v)
include hs hp hna L

theorem step_assign_pos (h : Heap) (hi : LInv tbl cfg h) (c : Nat) (hw : Writable h c) :
    gw (step tbl cfg h (.assign c .pos)).1 c sys g = false := by
  simp only [step, hw.1, if_true, hw.2.1, Bool.false_eq_true, if_false, gw, setSt]
  unfold invalidate
  by_cases hc : h.cells (h.st c).cell .pos ⟨sys, g⟩ = true
  · simp [hc, isVal]
  · simp only [hc, Bool.false_eq_true, if_false]
    cases hv : isVal ((h.st c).cache ⟨sys, g⟩) with
    | false => rfl
    | true =>
      obtain ⟨v0, hv0⟩ := isVal_iff.mp hv
      exact absurd (hi.inv.present c ⟨sys, g⟩ L.eg (by rw [hv0]; simp) (by simp [keyEntry, L.lg]) L.cg .pos
        (by rw [L.depsg]; rfl)) hc

/-- one `LeapfrogIntegrator.step` on a Gaussian-split system: `copy`; `h1_flow`; `h2_flow`
(`state.pos = …; state.mom = …`); `h1_flow` -/
def leapfrogStepG (sys dh1 s n : Nat) : List Op :=
  [.copy s false, .call n sys dh1, .assignIP n .mom, .assign n .pos, .assign n .mom, .call n sys dh1,
   .assignIP n .mom]

theorem leapfrogG_one_step (h : Heap) (hi : LInv tbl cfg h) (s : Nat) (hlt : s < h.nSt) :
    evalCount ⟨sys, g⟩ (run tbl cfg h (leapfrogStepG sys dh1 s h.nSt)) = 1 + (if gw h s sys g then 0 else 1) ∧
    LInv tbl cfg (finalHeap tbl cfg h (leapfrogStepG sys dh1 s h.nSt)) ∧
    (finalHeap tbl cfg h (leapfrogStepG sys dh1 s h.nSt)).nSt = h.nSt + 1 ∧
    gw (finalHeap tbl cfg h (leapfrogStepG sys dh1 s h.nSt)) h.nSt sys g = true := by
  have w1 : Writable (step tbl cfg h (.copy s false)).1 h.nSt := by simp [step, hlt, Writable]
  have n1 : (step tbl cfg h (.copy s false)).1.nSt = h.nSt + 1 := by simp [step, hlt]
  have g1 : gw (step tbl cfg h (.copy s false)).1 h.nSt sys g = gw h s sys g := by simp [step, hlt, gw]
  have o1 : outCount ⟨sys, g⟩ (step tbl cfg h (.copy s false)).2 = 0 := by simp [step, hlt, outCount]
  generalize hh1 : (step tbl cfg h (.copy s false)).1 = h1 at w1 n1 g1
  have i1 : LInv tbl cfg h1 := hh1 ▸ linv_step hs hp hna h hi _
  obtain ⟨o2, g2'⟩ := step_call_dh1 hs hp hna L h1 i1 h.nSt w1
  obtain ⟨w2, n2⟩ := writable_call hs hp hna h1 i1 h.nSt h.nSt dh1 w1
  generalize hh2 : (step tbl cfg h1 (.call h.nSt sys dh1)).1 = h2 at g2' w2 n2
  have i2 : LInv tbl cfg h2 := hh2 ▸ linv_step hs hp hna h1 i1 _
  obtain ⟨w3, n3⟩ := writable_assignIP (tbl := tbl) (cfg := cfg) h2 h.nSt .mom w2
  have o3 := outCount_assignIP (tbl := tbl) (cfg := cfg) ⟨sys, g⟩ h2 h.nSt .mom
  generalize hh3 : (step tbl cfg h2 (.assignIP h.nSt .mom)).1 = h3 at w3 n3
  have i3 : LInv tbl cfg h3 := hh3 ▸ linv_step hs hp hna h2 i2 _
  have g4' := step_assign_pos hs hp hna L h3 i3 h.nSt w3
  obtain ⟨w4, n4⟩ := writable_assign (tbl := tbl) (cfg := cfg) h3 h.nSt .pos w3
  have o4 := outCount_assign (tbl := tbl) (cfg := cfg) ⟨sys, g⟩ h3 h.nSt .pos
  generalize hh4 : (step tbl cfg h3 (.assign h.nSt .pos)).1 = h4 at g4' w4 n4
  have i4 : LInv tbl cfg h4 := hh4 ▸ linv_step hs hp hna h3 i3 _
  have g5' := gw_assign_false (tbl := tbl) (cfg := cfg) h4 h.nSt sys g .mom g4'
  obtain ⟨w5, n5⟩ := writable_assign (tbl := tbl) (cfg := cfg) h4 h.nSt .mom w4
  have o5 := outCount_assign (tbl := tbl) (cfg := cfg) ⟨sys, g⟩ h4 h.nSt .mom
  generalize hh5 : (step tbl cfg h4 (.assign h.nSt .mom)).1 = h5 at g5' w5 n5
  have i5 : LInv tbl cfg h5 := hh5 ▸ linv_step hs hp hna h4 i4 _
  obtain ⟨o6, g6'⟩ := step_call_dh1 hs hp hna L h5 i5 h.nSt w5
  obtain ⟨w6, n6⟩ := writable_call hs hp hna h5 i5 h.nSt h.nSt dh1 w5
  generalize hh6 : (step tbl cfg h5 (.call h.nSt sys dh1)).1 = h6 at g6' w6 n6
  have i6 : LInv tbl cfg h6 := hh6 ▸ linv_step hs hp hna h5 i5 _
  have g7' := step_ip_mom hs hp hna L h6 i6 h.nSt g6'
  obtain ⟨_, n7⟩ := writable_assignIP (tbl := tbl) (cfg := cfg) h6 h.nSt .mom w6
  have o7 := outCount_assignIP (tbl := tbl) (cfg := cfg) ⟨sys, g⟩ h6 h.nSt .mom
  generalize hh7 : (step tbl cfg h6 (.assignIP h.nSt .mom)).1 = h7 at g7' n7
  have i7 : LInv tbl cfg h7 := hh7 ▸ linv_step hs hp hna h6 i6 _
  have hfin : finalHeap tbl cfg h (leapfrogStepG sys dh1 s h.nSt) = h7 := by
    simp only [leapfrogStepG, finalHeap, hh1, hh2, hh3, hh4, hh5, hh6, hh7]
  refine ⟨?_, hfin ▸ i7, ?_, ?_⟩
  · rw [g1] at o2
    rw [g5'] at o6
    simp only [Bool.false_eq_true, if_false] at o6
    simp only [leapfrogStepG, run, evalCount_cons, evalCount_nil, hh1, hh2, hh3, hh4, hh5, hh6, o1, o2, o3, o4, o5,
      o6, o7]
    omega
  · rw [hfin, n7, n6, n5, n4, n3, n2, n1]
  · rw [hfin]; exact g7'

def leapfrogTrajG (sys dh1 : Nat) : Nat → Nat → Nat → List Op
  | 0, _, _ => []
  | k + 1, s, n => leapfrogStepG sys dh1 s n ++ leapfrogTrajG sys dh1 k n (n + 1)

theorem leapfrogG_traj_count :
    ∀ (k : Nat) (h : Heap), LInv tbl cfg h → ∀ s, s < h.nSt →
      evalCount ⟨sys, g⟩ (run tbl cfg h (leapfrogTrajG sys dh1 k s h.nSt)) =
        if k = 0 then 0 else k + (if gw h s sys g then 0 else 1) := by
  intro k
  induction k with
  | zero => intro h _ s _; rfl
  | succ k ih =>
    intro h hi s hlt
    obtain ⟨hc, hi', hn, hg⟩ := leapfrogG_one_step hs hp hna L h hi s hlt
    simp only [leapfrogTrajG, run_append, evalCount_append, hc]
    have := ih (finalHeap tbl cfg h (leapfrogStepG sys dh1 s h.nSt)) hi' h.nSt (by omega)
    rw [hn] at this
    rw [this, hg]
    cases k with
    | zero => simp
    | succ k => simp; omega

end

end MiciVerif.Cache
