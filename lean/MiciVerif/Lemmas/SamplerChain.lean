/-
Chain-level lemmas about `MiciVerif.Sampler`: the chain loop as a fold of `execOp` over the
lexicographically ordered list of (iteration, operation) pairs; frame / value / shape lemmas for
the output arrays; characterisation of an interrupted loop as the fold over a prefix.
-/
import MiciVerif.Model.Sampler

namespace MiciVerif.Sampler
open MiciVerif.Stagers

variable {S V A P : Type}

/-! ### cells -/

theorem cell_writeCell (m : Mem V) (j r : Nat) (v : V) (j' r' : Nat) :
    cell (writeCell m j r v) j' r' =
      if j = j' ∧ r = r' then (if (cell m j r).isSome then some (some v) else none)
      else cell m j' r' := by
  unfold cell writeCell
  rw [List.getElem?_modify]
  by_cases hj : j = j'
  · subst hj
    cases hm : m[j]? with
    | none => simp
    | some a =>
      simp only [Option.map_eq_map, Option.map_some, if_true, Option.bind_some, true_and]
      rw [List.getElem?_set]
      by_cases hr : r = r'
      · subst hr
        by_cases hlt : r < a.length
        · simp [hlt]
        · simp [hlt]
      · simp [hr]
  · cases hm : m[j']? <;> simp [hj]

theorem cell_writeCell_isSome (m : Mem V) (j r : Nat) (v : V) (j' r' : Nat) :
    (cell (writeCell m j r v) j' r').isSome = (cell m j' r').isSome := by
  rw [cell_writeCell]
  by_cases h : j = j' ∧ r = r'
  · obtain ⟨rfl, rfl⟩ := h
    by_cases hs : (cell m j r).isSome <;> simp [hs]
  · simp [h]

/-- every array of the chain has length `n` -/
def AllLen (m : Mem V) (n : Nat) : Prop := ∀ (j : Nat) (a : List (Option V)), m[j]? = some a → a.length = n

theorem allLen_writeCell {m : Mem V} {n : Nat} (h : AllLen m n) (j r : Nat) (v : V) :
    AllLen (writeCell m j r v) n := by
  intro j' a ha
  unfold writeCell at ha
  rw [List.getElem?_modify] at ha
  cases hm : m[j']? with
  | none => simp [hm] at ha
  | some b =>
    simp only [hm, Option.map_eq_map, Option.map_some, Option.some.injEq] at ha
    have hb := h j' b hm
    by_cases hj : j = j'
    · simp only [hj, if_true] at ha; subst ha; simpa using hb
    · simp only [hj, if_false] at ha; subst ha; exact hb

theorem length_writeCell (m : Mem V) (j r : Nat) (v : V) : (writeCell m j r v).length = m.length := by
  simp [writeCell]

/-! ### the loop as a fold over (iteration, operation) triples -/

abbrev Triple (S V A P : Type) := Nat × Nat × Op S V A P

def foldOps (st : Stage) (offset : Nat) (l : List (Triple S V A P)) (x : Run S V A P) :
    Run S V A P :=
  l.foldl (fun x t => execOp st offset t.1 t.2.1 t.2.2 x) x

def rowFrom (i : Nat) : Nat → List (Op S V A P) → List (Triple S V A P)
  | _, [] => []
  | j, op :: ops => (i, j, op) :: rowFrom i (j + 1) ops

def rowsFrom (ops : List (Op S V A P)) : Nat → Nat → List (Triple S V A P)
  | _, 0 => []
  | start, n + 1 => rowFrom start 0 ops ++ rowsFrom ops (start + 1) n

theorem foldOps_append (st : Stage) (offset : Nat) (l₁ l₂ : List (Triple S V A P)) (x : Run S V A P) :
    foldOps st offset (l₁ ++ l₂) x = foldOps st offset l₂ (foldOps st offset l₁ x) := by
  simp [foldOps, List.foldl_append]

theorem rowFrom_append (i j : Nat) (a b : List (Op S V A P)) :
    rowFrom i j (a ++ b) = rowFrom i j a ++ rowFrom i (j + a.length) b := by
  induction a generalizing j with
  | nil => simp [rowFrom]
  | cons op a ih =>
    simp only [List.cons_append, rowFrom, List.length_cons]
    rw [ih]
    have : j + 1 + a.length = j + (a.length + 1) := by omega
    rw [this]

theorem rowsFrom_append (ops : List (Op S V A P)) (start a b : Nat) :
    rowsFrom ops start (a + b) = rowsFrom ops start a ++ rowsFrom ops (start + a) b := by
  induction a generalizing start with
  | zero => simp [rowsFrom]
  | succ a ih =>
    have : a + 1 + b = (a + b) + 1 := by omega
    rw [this]
    simp only [rowsFrom]
    rw [ih, List.append_assoc]
    congr 3; omega

theorem mem_rowFrom {i j : Nat} {ops : List (Op S V A P)} {t : Triple S V A P}
    (h : t ∈ rowFrom i j ops) : t.1 = i ∧ j ≤ t.2.1 ∧ t.2.1 < j + ops.length := by
  induction ops generalizing j with
  | nil => simp [rowFrom] at h
  | cons op ops ih =>
    simp only [rowFrom, List.mem_cons] at h
    rcases h with h | h
    · subst h; simp
    · have := ih h
      simp only [List.length_cons]; omega

theorem mem_rowsFrom {ops : List (Op S V A P)} {start n : Nat} {t : Triple S V A P}
    (h : t ∈ rowsFrom ops start n) : start ≤ t.1 ∧ t.1 < start + n ∧ t.2.1 < ops.length := by
  induction n generalizing start with
  | zero => simp [rowsFrom] at h
  | succ n ih =>
    simp only [rowsFrom, List.mem_append] at h
    rcases h with h | h
    · have := mem_rowFrom h; omega
    · have := ih h; omega

/-! ### halting -/

theorem execOp_halted (st : Stage) (offset i j : Nat) (op : Op S V A P) (x : Run S V A P) :
    (execOp st offset i j op x).halted = x.halted := by
  cases op <;> rfl

theorem foldOps_halted (st : Stage) (offset : Nat) (l : List (Triple S V A P)) (x : Run S V A P) :
    (foldOps st offset l x).halted = x.halted := by
  induction l generalizing x with
  | nil => rfl
  | cons t l ih =>
    show (foldOps st offset l (execOp st offset t.1 t.2.1 t.2.2 x)).halted = _
    rw [ih, execOp_halted]

theorem iterOps_of_halted (st : Stage) (offset : Nat) (intr : Option (Nat × Nat)) (i j : Nat)
    (ops : List (Op S V A P)) (x : Run S V A P) (h : x.halted = true) :
    iterOps st offset intr i j ops x = x := by
  induction ops generalizing j x with
  | nil => rfl
  | cons op ops ih =>
    simp only [iterOps]
    have : stepOp st offset intr i j op x = x := by simp [stepOp, h]
    rw [this]; exact ih _ _ h

theorem runIters_of_halted (K : Kernel S V A P) (st : Stage) (offset : Nat)
    (intr : Option (Nat × Nat)) (start n : Nat) (x : Run S V A P) (h : x.halted = true) :
    runIters K st offset intr start n x = x := by
  induction n generalizing start x with
  | zero => rfl
  | succ n ih =>
    simp only [runIters]
    rw [iterOps_of_halted _ _ _ _ _ _ _ h]; exact ih _ _ h

/-- Operations of an iteration that is not the interrupted one (or lies before the interrupted
operation) run as in the uninterrupted loop. -/
theorem iterOps_no_intr (st : Stage) (offset : Nat) (intr : Option (Nat × Nat)) (i j : Nat)
    (ops : List (Op S V A P)) (x : Run S V A P) (hx : x.halted = false)
    (hi : ∀ i0 j0, intr = some (i0, j0) → i0 ≠ i ∨ j0 < j ∨ j + ops.length ≤ j0) :
    iterOps st offset intr i j ops x = foldOps st offset (rowFrom i j ops) x := by
  induction ops generalizing j x with
  | nil => rfl
  | cons op ops ih =>
    simp only [iterOps, rowFrom]
    have hne : intr ≠ some (i, j) := by
      intro he
      have := hi i j he
      simp only [List.length_cons] at this; omega
    have hs : stepOp st offset intr i j op x = execOp st offset i j op x := by
      simp [stepOp, hx, hne]
    rw [hs]
    show _ = foldOps st offset (rowFrom i (j + 1) ops) (execOp st offset i j op x)
    apply ih
    · rw [execOp_halted]; exact hx
    · intro i0 j0 he
      have := hi i0 j0 he
      simp only [List.length_cons] at this; omega

theorem runIters_no_intr (K : Kernel S V A P) (st : Stage) (offset : Nat)
    (intr : Option (Nat × Nat)) (start n : Nat) (x : Run S V A P) (hx : x.halted = false)
    (hi : ∀ i0 j0, intr = some (i0, j0) → i0 < start ∨ start + n ≤ i0 ∨ (opsOf K st).length ≤ j0) :
    runIters K st offset intr start n x = foldOps st offset (rowsFrom (opsOf K st) start n) x := by
  induction n generalizing start x with
  | zero => rfl
  | succ n ih =>
    simp only [runIters, rowsFrom]
    rw [foldOps_append]
    rw [iterOps_no_intr st offset intr start 0 (opsOf K st) x hx]
    · apply ih
      · rw [foldOps_halted]; exact hx
      · intro i0 j0 he
        have := hi i0 j0 he; omega
    · intro i0 j0 he
      have := hi i0 j0 he; omega

/-- The interrupted iteration: operations before `j0` complete, then the loop is left. -/
theorem iterOps_intr (st : Stage) (offset : Nat) (i j0 j : Nat)
    (ops : List (Op S V A P)) (x : Run S V A P) (hx : x.halted = false)
    (hj : j ≤ j0) (hlt : j0 < j + ops.length) :
    iterOps st offset (some (i, j0)) i j ops x =
      { foldOps st offset (rowFrom i j (ops.take (j0 - j))) x with halted := true } := by
  induction ops generalizing j x with
  | nil => simp at hlt; omega
  | cons op ops ih =>
    simp only [iterOps]
    by_cases hjj : j = j0
    · subst hjj
      have hs : stepOp st offset (some (i, j)) i j op x = { x with halted := true } := by
        simp [stepOp, hx]
      rw [hs, iterOps_of_halted _ _ _ _ _ _ _ rfl]
      simp [rowFrom, foldOps]
    · have hs : stepOp st offset (some (i, j0)) i j op x = execOp st offset i j op x := by
        have : (some (i, j0) : Option (Nat × Nat)) ≠ some (i, j) := by
          intro he; injection he with he; injection he with _ he; exact hjj he.symm
        simp [stepOp, hx, this]
      rw [hs]
      have hsub : j0 - j = (j0 - (j + 1)) + 1 := by omega
      rw [hsub, List.take_succ_cons]
      simp only [rowFrom]
      rw [ih (j + 1) (execOp st offset i j op x)]
      · rfl
      · rw [execOp_halted]; exact hx
      · omega
      · simp only [List.length_cons] at hlt; omega

/-- The operations completed before operation `j0` of iteration `i0`. -/
def prefixOps (ops : List (Op S V A P)) (i0 j0 : Nat) : List (Triple S V A P) :=
  rowsFrom ops 0 i0 ++ rowFrom i0 0 (ops.take j0)

/-- The operations from operation `j0` of iteration `i0` to the end of iteration `n - 1`. -/
def suffixOps (ops : List (Op S V A P)) (n i0 j0 : Nat) : List (Triple S V A P) :=
  rowFrom i0 j0 (ops.drop j0) ++ rowsFrom ops (i0 + 1) (n - i0 - 1)

theorem rows_split (ops : List (Op S V A P)) (n i0 j0 : Nat) (hi : i0 < n) (hj : j0 ≤ ops.length) :
    rowsFrom ops 0 n = prefixOps ops i0 j0 ++ suffixOps ops n i0 j0 := by
  have hn : n = i0 + (1 + (n - i0 - 1)) := by omega
  conv => lhs; rw [hn]
  rw [rowsFrom_append, rowsFrom_append]
  simp only [prefixOps, suffixOps, Nat.zero_add, List.append_assoc]
  congr 1
  rw [← List.append_assoc]
  congr 1
  · have h1 : rowsFrom ops i0 1 = rowFrom i0 0 ops := by simp [rowsFrom]
    rw [h1]
    conv => lhs; rw [← List.take_append_drop j0 ops]
    rw [rowFrom_append]
    simp [List.length_take, Nat.min_eq_left hj]

theorem runIters_intr (K : Kernel S V A P) (st : Stage) (offset : Nat) (i0 j0 n : Nat)
    (x : Run S V A P) (hx : x.halted = false) (hi : i0 < n) (hj : j0 < (opsOf K st).length) :
    runIters K st offset (some (i0, j0)) 0 n x =
      { foldOps st offset (prefixOps (opsOf K st) i0 j0) x with halted := true } := by
  -- split the loop at iteration i0
  have key : ∀ (a b start : Nat) (y : Run S V A P),
      runIters K st offset (some (i0, j0)) start (a + b) y =
        runIters K st offset (some (i0, j0)) (start + a) b
          (runIters K st offset (some (i0, j0)) start a y) := by
    intro a
    induction a with
    | zero => intro b start y; simp [runIters]
    | succ a ih =>
      intro b start y
      have : a + 1 + b = (a + b) + 1 := by omega
      rw [this]
      simp only [runIters]
      rw [ih]
      congr 1; omega
  have hn : n = i0 + ((n - i0 - 1) + 1) := by omega
  rw [hn, key]
  rw [runIters_no_intr K st offset (some (i0, j0)) 0 i0 x hx
    (by intro a b he; injection he with he; injection he with h1 h2; omega)]
  simp only [Nat.zero_add, runIters]
  rw [iterOps_intr st offset i0 j0 0 (opsOf K st) _ (by rw [foldOps_halted]; exact hx)
    (Nat.zero_le _) (by omega)]
  rw [runIters_of_halted _ _ _ _ _ _ _ rfl]
  simp [prefixOps, foldOps_append]

/-! ### frame, shape and value of cells -/

/-- value an operation writes, as a function of the chain-local variables it starts from -/
def opVal (st : Stage) (op : Op S V A P) (c : Ctx S A P) : V :=
  match op with
  | .trans t => (t st.kind c.params c.adapt c.state c.rng).stat
  | .trace f => f c.state

/-- does the operation write its array in this stage -/
def gate (st : Stage) (op : Op S V A P) : Bool :=
  match op with
  | .trans _ => st.stats
  | .trace _ => true

theorem cell_execOp (st : Stage) (offset i j : Nat) (op : Op S V A P) (x : Run S V A P)
    (j' r' : Nat) :
    cell (execOp st offset i j op x).mem j' r' =
      if j = j' ∧ i + offset = r' ∧ gate st op = true then
        (if (cell x.mem j (i + offset)).isSome then some (some (opVal st op x.ctx)) else none)
      else cell x.mem j' r' := by
  cases op with
  | trans t =>
    simp only [execOp, gate, opVal]
    by_cases hs : st.stats = true
    · simp only [hs, if_true, and_true]
      rw [cell_writeCell]
    · simp [hs]
  | trace f =>
    simp only [execOp, gate, opVal, and_true]
    rw [cell_writeCell]

theorem cell_execOp_isSome (st : Stage) (offset i j : Nat) (op : Op S V A P) (x : Run S V A P)
    (j' r' : Nat) :
    (cell (execOp st offset i j op x).mem j' r').isSome = (cell x.mem j' r').isSome := by
  rw [cell_execOp]
  by_cases h : j = j' ∧ i + offset = r' ∧ gate st op = true
  · obtain ⟨rfl, rfl, _⟩ := h
    by_cases hs : (cell x.mem j (i + offset)).isSome <;> simp_all
  · simp [h]

theorem cell_foldOps_isSome (st : Stage) (offset : Nat) (l : List (Triple S V A P))
    (x : Run S V A P) (j r : Nat) :
    (cell (foldOps st offset l x).mem j r).isSome = (cell x.mem j r).isSome := by
  induction l generalizing x with
  | nil => rfl
  | cons t l ih =>
    show (cell (foldOps st offset l (execOp st offset t.1 t.2.1 t.2.2 x)).mem j r).isSome = _
    rw [ih, cell_execOp_isSome]

/-- Frame: a fold only changes the cells addressed by its own (gated) operations. -/
theorem cell_foldOps_frame (st : Stage) (offset : Nat) (l : List (Triple S V A P))
    (x : Run S V A P) (j r : Nat)
    (h : ∀ t ∈ l, ¬ (t.2.1 = j ∧ t.1 + offset = r)) :
    cell (foldOps st offset l x).mem j r = cell x.mem j r := by
  induction l generalizing x with
  | nil => rfl
  | cons t l ih =>
    show cell (foldOps st offset l (execOp st offset t.1 t.2.1 t.2.2 x)).mem j r = _
    rw [ih _ (fun t' ht' => h t' (List.mem_cons_of_mem _ ht'))]
    rw [cell_execOp]
    have := h t List.mem_cons_self
    have hn : ¬ (t.2.1 = j ∧ t.1 + offset = r ∧ gate st t.2.2 = true) := fun hh => this ⟨hh.1, hh.2.1⟩
    simp [hn]

/-- Value: the cell of a gated operation holds what the operation computed from the variables
left by the operations before it, provided no later operation addresses the same cell. -/
theorem cell_foldOps_value (st : Stage) (offset : Nat) (l₁ l₂ : List (Triple S V A P))
    (t : Triple S V A P) (x : Run S V A P)
    (hg : gate st t.2.2 = true) (hin : (cell x.mem t.2.1 (t.1 + offset)).isSome)
    (h₂ : ∀ t' ∈ l₂, ¬ (t'.2.1 = t.2.1 ∧ t'.1 + offset = t.1 + offset)) :
    cell (foldOps st offset (l₁ ++ t :: l₂) x).mem t.2.1 (t.1 + offset) =
      some (some (opVal st t.2.2 (foldOps st offset l₁ x).ctx)) := by
  rw [foldOps_append]
  show cell (foldOps st offset l₂ (execOp st offset t.1 t.2.1 t.2.2 (foldOps st offset l₁ x))).mem _ _ = _
  rw [cell_foldOps_frame _ _ _ _ _ _ h₂, cell_execOp]
  have hin' : (cell (foldOps st offset l₁ x).mem t.2.1 (t.1 + offset)).isSome := by
    rw [cell_foldOps_isSome]; exact hin
  simp [hg, hin']

theorem allLen_execOp (st : Stage) (offset i j : Nat) (op : Op S V A P) (x : Run S V A P) (n : Nat)
    (h : AllLen x.mem n) : AllLen (execOp st offset i j op x).mem n := by
  cases op with
  | trans t =>
    simp only [execOp]
    split
    · exact allLen_writeCell h _ _ _
    · exact h
  | trace f => exact allLen_writeCell h _ _ _

theorem allLen_foldOps (st : Stage) (offset : Nat) (l : List (Triple S V A P)) (x : Run S V A P)
    (n : Nat) (h : AllLen x.mem n) : AllLen (foldOps st offset l x).mem n := by
  induction l generalizing x with
  | nil => exact h
  | cons t l ih => exact ih _ (allLen_execOp _ _ _ _ _ _ _ h)

theorem length_mem_execOp (st : Stage) (offset i j : Nat) (op : Op S V A P) (x : Run S V A P) :
    (execOp st offset i j op x).mem.length = x.mem.length := by
  cases op with
  | trans t => simp only [execOp]; split <;> simp [length_writeCell]
  | trace f => simp [execOp, length_writeCell]

theorem length_mem_foldOps (st : Stage) (offset : Nat) (l : List (Triple S V A P)) (x : Run S V A P) :
    (foldOps st offset l x).mem.length = x.mem.length := by
  induction l generalizing x with
  | nil => rfl
  | cons t l ih =>
    show (foldOps st offset l (execOp st offset t.1 t.2.1 t.2.2 x)).mem.length = _
    rw [ih, length_mem_execOp]

/-- the chain-local variables do not depend on the arrays -/
theorem ctx_execOp_mem (st : Stage) (offset i j : Nat) (op : Op S V A P) (x y : Run S V A P)
    (h : x.ctx = y.ctx) : (execOp st offset i j op x).ctx = (execOp st offset i j op y).ctx := by
  cases op with
  | trans t => simp [execOp, h]
  | trace f => simp [execOp, h]

theorem ctx_foldOps_mem (st : Stage) (offset offset' : Nat) (l : List (Triple S V A P))
    (x y : Run S V A P) (h : x.ctx = y.ctx) :
    (foldOps st offset l x).ctx = (foldOps st offset' l y).ctx := by
  induction l generalizing x y with
  | nil => exact h
  | cons t l ih =>
    obtain ⟨i, j, op⟩ := t
    show (foldOps st offset l (execOp st offset i j op x)).ctx =
      (foldOps st offset' l (execOp st offset' i j op y)).ctx
    apply ih
    cases op <;> simp [execOp, h]

end MiciVerif.Sampler
