/-
C10 model: structural-induction lemmas, part C (scalar multiples).
-/
import MiciVerif.Lemmas.MatricesExprB
import Mathlib.Tactic.FieldSimp

set_option linter.unusedSectionVars false
set_option linter.unusedVariables false
set_option linter.unusedSimpArgs false

namespace MiciVerif.Matrices
open Matrix
namespace MExpr
variable {K : Type} [Field K]

theorem scal_ne_zero (sg : Sgn) {r : K} (hr : r ≠ 0) : scal sg r ≠ 0 :=
  mul_ne_zero (Sgn.val_ne_zero sg) (mul_ne_zero hr hr)

theorem scal_inv (sg : Sgn) (r : K) : scal sg r⁻¹ = (scal sg r)⁻¹ := by
  cases sg <;> simp [scal, Sgn.val, mul_inv]

theorem IsInv_smul {m n : ℕ} (sg : Sgn) (r : K) (e : MExpr K m n) (h : IsInv e) : IsInv (smul sg r e) := by
  induction e generalizing r with
  | lu inverse A X => cases inverse <;> simp_all [smul, IsInv]
  | blockDiag k a b iha ihb => exact ⟨iha r h.1, ihb r h.2⟩
  | prod pk a b iha ihb => exact ⟨h.1, trivial, h⟩
  | _ => simp_all [smul, IsInv]

/-- the inverse object of a scalar multiple denotes `c⁻¹ •` the inverse -/
theorem denote_inv_of_smul {n : ℕ} {e e' : MExpr K n n} {c : K} (hc : c ≠ 0)
    (ge : Good e) (ge' : Good e') (hd : denote e' = c • denote e) :
    denote (inv e') = c⁻¹ • denote (inv e) := by
  have h1 : denote e' * (c⁻¹ • denote (inv e)) = 1 := by
    rw [hd, Matrix.smul_mul, Matrix.mul_smul, smul_smul, mul_inv_cancel₀ hc, one_smul, ge.right]
  exact (inv_unique h1 ge'.left).symm

theorem smul_spec {m n : ℕ} (sg : Sgn) (e : MExpr K m n) :
    ∀ (r : K), r ≠ 0 → WF e →
      denote (smul sg r e) = scal sg r • denote e ∧ WF (smul sg r e) := by
  induction e with
  | identity n =>
    intro r hr h
    exact ⟨by simp [smul, denote], scal_ne_zero sg hr⟩
  | scaledId n p c =>
    intro r hr h
    have hc : c ≠ 0 := h
    exact ⟨by simp [smul, denote, smul_smul], mul_ne_zero (scal_ne_zero sg hr) hc⟩
  | diag p d =>
    intro r hr h
    have hd : ∀ i, d i ≠ 0 := h
    refine ⟨?_, fun i => mul_ne_zero (hd i) (scal_ne_zero sg hr)⟩
    ext i j
    by_cases hij : i = j <;> simp [smul, denote, Matrix.diagonal, hij, mul_comm]
  | tri f =>
    intro r hr h
    exact ⟨TriF.denote_smul f _, TriF.WF_smul (scal_ne_zero sg hr) h⟩
  | triFact pd s f =>
    intro r hr h
    refine ⟨?_, TriF.WF_smul hr h⟩
    simp only [smul, denote, force_eq, TriF.denote_smul, Matrix.transpose_smul, Matrix.smul_mul,
      Matrix.mul_smul, smul_smul, Sgn.val_mul, scal]
    congr 1; ring
  | denseDef pd s A f =>
    intro r hr h
    obtain ⟨hf, hA⟩ := h
    refine ⟨by simp [smul, denote], TriF.WF_smul hr hf, ?_⟩
    rw [hA]
    simp only [TriF.denote_smul, Matrix.transpose_smul, Matrix.smul_mul,
      Matrix.mul_smul, smul_smul, Sgn.val_mul, scal]
    congr 1; ring
  | lu inverse A X =>
    intro r hr h
    have hAX : A * X = 1 := h
    have hc := scal_ne_zero sg hr
    cases inverse
    · refine ⟨by simp [smul, denote], ?_⟩
      show (scal sg r • A) * ((scal sg r)⁻¹ • X) = 1
      rw [Matrix.smul_mul, Matrix.mul_smul, smul_smul, mul_inv_cancel₀ hc, one_smul, hAX]
    · refine ⟨by simp [smul, denote], ?_⟩
      show ((scal sg r)⁻¹ • A) * (scal sg r • X) = 1
      rw [Matrix.smul_mul, Matrix.mul_smul, smul_smul, inv_mul_cancel₀ hc, one_smul, hAX]
  | denseSym A Q ev =>
    intro r hr h
    obtain ⟨hQ, hA, hev⟩ := h
    refine ⟨by simp [smul, denote], hQ, ?_, fun i => mul_ne_zero (hev i) (scal_ne_zero sg hr)⟩
    rw [hA]
    have : (Matrix.diagonal fun i => ev i * scal sg r) = scal sg r • Matrix.diagonal ev := by
      ext i j; by_cases hij : i = j <;> simp [Matrix.diagonal, hij, mul_comm]
    rw [this]; simp [Matrix.mul_smul, Matrix.smul_mul]
  | orth Q =>
    intro r hr h
    exact ⟨by simp [smul, denote], scal_ne_zero sg hr, h⟩
  | scaledOrth c Q =>
    intro r hr h
    exact ⟨by simp [smul, denote, smul_smul], mul_ne_zero (scal_ne_zero sg hr) h.1, h.2⟩
  | eigSym pd Q ev =>
    intro r hr h
    obtain ⟨hQ, hev⟩ := h
    refine ⟨?_, hQ, fun i => mul_ne_zero (hev i) (scal_ne_zero sg hr)⟩
    have : (Matrix.diagonal fun i => ev i * scal sg r) = scal sg r • Matrix.diagonal ev := by
      ext i j; by_cases hij : i = j <;> simp [Matrix.diagonal, hij, mul_comm]
    simp [smul, denote, this, Matrix.mul_smul, Matrix.smul_mul]
  | rect A =>
    intro r hr h
    exact ⟨by simp [smul, denote], trivial⟩
  | blockDiag k a b iha ihb =>
    intro r hr h
    obtain ⟨ha, hb, hk⟩ := h
    obtain ⟨da, wa⟩ := iha r hr ha
    obtain ⟨db, wb⟩ := ihb r hr hb
    refine ⟨by simp [smul, denote, da, db, bdiag_smul], wa, wb, fun hk' => ?_⟩
    have hk2 : k ≠ .square := by
      intro hh; subst hh; exact hk' rfl
    obtain ⟨sa, sb⟩ := hk hk2
    constructor
    · show (denote (smul sg r a))ᵀ = denote (smul sg r a)
      rw [da, Matrix.transpose_smul, sa]
    · show (denote (smul sg r b))ᵀ = denote (smul sg r b)
      rw [db, Matrix.transpose_smul, sb]
  | blockRow a b iha ihb =>
    intro r hr h
    obtain ⟨da, wa⟩ := iha r hr h.1
    obtain ⟨db, wb⟩ := ihb r hr h.2
    exact ⟨by simp [smul, denote, da, db, brow_smul], wa, wb⟩
  | blockCol a b iha ihb =>
    intro r hr h
    obtain ⟨da, wa⟩ := iha r hr h.1
    obtain ⟨db, wb⟩ := ihb r hr h.2
    exact ⟨by simp [smul, denote, da, db, bcol_smul], wa, wb⟩
  | prod pk a b iha ihb =>
    intro r hr h
    refine ⟨by simp [smul, denote], scal_ne_zero sg hr, h, fun hk => ?_⟩
    obtain ⟨h1, h2⟩ := h.2.2 hk
    exact ⟨rfl, h1.trans h2⟩
  | lowRank kind s U V S Kin C ihU ihV ihS ihK ihC =>
    intro r hr h
    obtain ⟨hU, hV, hS, hK, hC, iS, iK, iC, hcap, hsym⟩ := h
    have hc := scal_ne_zero sg hr
    have hr' : r⁻¹ ≠ 0 := inv_ne_zero hr
    obtain ⟨dS, wS⟩ := ihS r hr hS
    obtain ⟨dK, wK⟩ := ihK r hr hK
    obtain ⟨dC, wC⟩ := ihC r⁻¹ hr' hC
    have iS' := IsInv_smul sg r S iS
    have iK' := IsInv_smul sg r Kin iK
    have iC' := IsInv_smul sg r⁻¹ C iC
    have eS := denote_inv_of_smul hc (good S hS iS) (good _ wS iS') dS
    have eK := denote_inv_of_smul hc (good Kin hK iK) (good _ wK iK') dK
    refine ⟨?_, hU, hV, wS, wK, wC, iS', iK', iC', ?_, fun hk' => ?_⟩
    · simp only [smul, denote, force_eq, dS, dK]
      simp [Matrix.mul_smul, Matrix.smul_mul, smul_smul, mul_comm]
    · rw [dC, eK, eS, scal_inv, hcap]
      simp [Matrix.mul_smul, Matrix.smul_mul, smul_smul, mul_comm]
    · have hk2 : kind ≠ .square := by
        intro hh; subst hh; exact hk' rfl
      obtain ⟨hVU, sS, sK⟩ := hsym hk2
      refine ⟨hVU, ?_, ?_⟩
      · show (denote (smul sg r S))ᵀ = denote (smul sg r S)
        rw [dS, Matrix.transpose_smul, sS]
      · show (denote (smul sg r Kin))ᵀ = denote (smul sg r Kin)
        rw [dK, Matrix.transpose_smul, sK]

end MExpr
end MiciVerif.Matrices
