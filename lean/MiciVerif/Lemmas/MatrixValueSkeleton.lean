/-
Generic part of the semantic tie of the matrix value-semantics machinery (builder B10): facts about the
readings of `Model/MatrixValueSkeleton.lean` that do not depend on the generated tables (they never break when
the source changes).  `Props/C19S.lean` instantiates them with the bodies generated from the current source,
after deciding that their shapes / plans are the expected ones.
-/
import MiciVerif.Model.MatrixValueSkeleton

namespace MiciVerif.Skel.VSem
open MiciVerif.MatricesCache

variable {P K V : Type} [DecidableEq K]

theorem fill_p (f : K → P → V) (k : K) (o : Obj P K V) : (fill f k o).p = o.p := by
  unfold fill; split <;> rfl

theorem fill_coherent (f : K → P → V) (k : K) (o : Obj P K V) (h : Coherent f o) : Coherent f (fill f k o) := by
  unfold fill
  split
  · exact h
  · intro j v hv
    by_cases hj : j = k
    · simp [hj] at hv; rw [← hv, hj]
    · simp [hj] at hv; exact h j v hv

theorem foldl_fill_p (f : K → P → V) (js : List K) (o : Obj P K V) :
    (js.foldl (fun o j => fill f j o) o).p = o.p := by
  induction js generalizing o with
  | nil => rfl
  | cons j js ih => simp only [List.foldl_cons]; rw [ih, fill_p]

theorem foldl_fill_coherent (f : K → P → V) (js : List K) (o : Obj P K V) (h : Coherent f o) :
    Coherent f (js.foldl (fun o j => fill f j o) o) := by
  induction js generalizing o with
  | nil => exact h
  | cons j js ih => simp only [List.foldl_cons]; exact ih _ (fill_coherent f j o h)

/-- a body with the lazy shape reads as `lazyAccess` -/
theorem lazyPass_of_shape (a : String) (body : List S) (sh : LazyShape) (hsh : lazyShape? a body = some sh)
    (f : K → P → V) (deps : K → List K) (k : K) (o : Obj P K V) :
    lazyPass a body f deps k o = some (lazyAccess f deps k o) := by
  unfold lazyPass lazyAccess
  rw [hsh]
  cases h : o.cache k with
  | some v => simp [h]
  | none => simp

/-- with no nested reads `lazyAccess` is `MatricesCache.access` -/
theorem lazyAccess_nodeps (f : K → P → V) (deps : K → List K) (k : K) (o : Obj P K V) (hd : deps k = []) :
    lazyAccess f deps k o = access f deps k o := by
  unfold lazyAccess access fill
  rw [hd]
  cases h : o.cache k with
  | some v => simp [h]
  | none => simp [h]

/-- parameters are never written -/
theorem lazyAccess_p (f : K → P → V) (deps : K → List K) (k : K) (o : Obj P K V) :
    (lazyAccess f deps k o).2.p = o.p := by
  unfold lazyAccess
  cases h : o.cache k with
  | some v => rfl
  | none => simp only []; exact foldl_fill_p f (deps k) o

/-- coherence is preserved -/
theorem lazyAccess_coherent (f : K → P → V) (deps : K → List K) (k : K) (o : Obj P K V) (h : Coherent f o) :
    Coherent f (lazyAccess f deps k o).2 := by
  unfold lazyAccess
  cases hc : o.cache k with
  | some v => exact h
  | none =>
    simp only []
    have h1 := foldl_fill_coherent f (deps k) o h
    intro j v hv
    by_cases hj : j = k
    · simp [hj] at hv; rw [← hv, hj]
    · simp [hj] at hv; exact h1 j v hv

/-- on a coherent object the value returned is the one determined by the parameters -/
theorem lazyAccess_value (f : K → P → V) (deps : K → List K) (k : K) (o : Obj P K V) (h : Coherent f o) :
    (lazyAccess f deps k o).1 = f k o.p := by
  unfold lazyAccess
  cases hc : o.cache k with
  | some v => exact h k v hc
  | none => simp only []; rw [foldl_fill_p]

/-- the second access is free: same value, state unchanged (compute once, then reuse) -/
theorem lazyAccess_again (f : K → P → V) (deps : K → List K) (k : K) (o : Obj P K V) :
    lazyAccess f deps k (lazyAccess f deps k o).2 = ((lazyAccess f deps k o).1, (lazyAccess f deps k o).2) := by
  cases hc : o.cache k with
  | some v => simp [lazyAccess, hc]
  | none => simp [lazyAccess, hc]

end MiciVerif.Skel.VSem
