/-
A sufficient condition for `AdaptLocal` in terms of the kernel's primitive functions, and its
verification for the counting kernel (with its fast / slow adapters).
-/
import MiciVerif.Lemmas.SamplerPar
import MiciVerif.Model.SamplerCount

namespace MiciVerif.Sampler
open MiciVerif.Stagers

variable {S V A P : Type}

/-- Primitive conditions: `initialize` ignores everything but the class of the incoming
parameters and stays in it; transitions (with the adapters' `update`) stay in it; `finalize`
only reads the class; a non-adaptive stage has singleton classes. -/
structure AdaptPrim (K : Kernel S V A P) (E : Kind → P → P → Prop) : Prop where
  refl : ∀ k p, E k p p
  symm : ∀ k p q, E k p q → E k q p
  trans : ∀ k p q r, E k p q → E k q r → E k p r
  init_resp : ∀ k s p q, k ≠ .main → E k p q → K.init k s p = K.init k s q
  init_pres : ∀ k s p, E k p (K.init k s p).2
  trans_pres : ∀ t ∈ K.trans, ∀ k p a s r, E k p (t k p a s r).params
  fin : ∀ k as ss p q rngs, k ≠ .main → E k p q → K.fin k as ss p rngs = K.fin k as ss q rngs
  main : ∀ p q, E .main p q → p = q

private theorem mem_opsOf_trans (K : Kernel S V A P) (st : Stage)
    (t : Kind → P → A → S → Rng → TOut S V A P) (h : Op.trans t ∈ opsOf K st) : t ∈ K.trans := by
  simp only [opsOf, List.mem_append, List.mem_map] at h
  rcases h with ⟨t', ht', he⟩ | h
  · injection he with he; subst he; exact ht'
  · split at h
    · simp only [List.mem_map] at h; obtain ⟨_, _, he⟩ := h; cases he
    · cases h

private theorem stepOp_params (K : Kernel S V A P) (E : Kind → P → P → Prop) (hE : AdaptPrim K E)
    (st : Stage) (offset : Nat) (intr : Option (Nat × Nat)) (i j : Nat) (op : Op S V A P)
    (hop : op ∈ opsOf K st) (x : Run S V A P) (p : P) (h : E st.kind p x.ctx.params) :
    E st.kind p (stepOp st offset intr i j op x).ctx.params := by
  unfold stepOp
  split
  · exact h
  · split
    · exact h
    · cases op with
      | trace f => exact h
      | trans t =>
        simp only [execOp]
        exact hE.trans _ _ _ _ h (hE.trans_pres t (mem_opsOf_trans K st t hop) _ _ _ _ _)

private theorem iterOps_params (K : Kernel S V A P) (E : Kind → P → P → Prop) (hE : AdaptPrim K E)
    (st : Stage) (offset : Nat) (intr : Option (Nat × Nat)) (i j : Nat) (ops : List (Op S V A P))
    (hops : ∀ op ∈ ops, op ∈ opsOf K st) (x : Run S V A P) (p : P) (h : E st.kind p x.ctx.params) :
    E st.kind p (iterOps st offset intr i j ops x).ctx.params := by
  induction ops generalizing j x with
  | nil => exact h
  | cons op ops ih =>
    simp only [iterOps]
    exact ih (j + 1) (fun o ho => hops o (List.mem_cons_of_mem _ ho)) _
      (stepOp_params K E hE st offset intr i j op (hops op List.mem_cons_self) x p h)

private theorem runIters_params (K : Kernel S V A P) (E : Kind → P → P → Prop) (hE : AdaptPrim K E)
    (st : Stage) (offset : Nat) (intr : Option (Nat × Nat)) (start n : Nat) (x : Run S V A P) (p : P)
    (h : E st.kind p x.ctx.params) :
    E st.kind p (runIters K st offset intr start n x).ctx.params := by
  induction n generalizing start x with
  | zero => exact h
  | succ n ih =>
    simp only [runIters]
    exact ih _ _ (iterOps_params K E hE st offset intr start 0 _ (fun _ h => h) x p h)

/-- The primitive conditions imply `AdaptLocal`. -/
theorem adaptLocal_of_prim (K : Kernel S V A P) (E : Kind → P → P → Prop) (hE : AdaptPrim K E) :
    AdaptLocal K E where
  refl := hE.refl
  symm := hE.symm
  trans := hE.trans
  fin := hE.fin
  main := hE.main
  resp := by
    intro st offset ci p q ch hpq
    by_cases hk : st.kind = .main
    · have : p = q := hE.main p q (hk ▸ hpq)
      rw [this]
    · have : chainRes K st offset ci p ch = chainRes K st offset ci q ch := by
        unfold chainRes sampleChain
        simp only [hk, if_false]
        rw [hE.init_resp st.kind ch.state p q hk hpq]
      rw [this]
  pres := by
    intro st offset ci p ch
    unfold chainRes sampleChain
    apply runIters_params K E hE
    by_cases hk : st.kind = .main
    · simp only [hk, if_true]; rw [← hk]; exact hE.refl _ _
    · simp only [hk, if_false]; exact hE.init_pres _ _ _

end MiciVerif.Sampler

namespace MiciVerif.SamplerCount
open MiciVerif.Stagers MiciVerif.Sampler

/-- parameter classes of the counting kernel: a stage in which the fast adapter is active
re-establishes `par` in `initialize`, so only `met` matters; otherwise nothing may differ. -/
def Ecount (c : Cfg) (k : Kind) (p q : Par) : Prop := if fastOn c k then p.met = q.met else p = q

/-- The counting kernel (with its fast and slow adapters, for every configuration) satisfies the
primitive conditions — so `AdaptLocal` holds for it and the C14 theorems apply to exactly the
kernel the harness runs against the real sampler. -/
theorem adaptPrim_count (c : Cfg) : AdaptPrim (kernel c) (Ecount c) where
  refl := by intro k p; unfold Ecount; split <;> rfl
  symm := by intro k p q h; unfold Ecount at *; split <;> simp_all
  trans := by intro k p q r h1 h2; unfold Ecount at *; split <;> simp_all
  init_resp := by
    intro k s p q _ h
    unfold Ecount at h
    simp only [kernel]
    by_cases hf : fastOn c k = true
    · simp only [hf, if_true] at h ⊢
      cases p; cases q; simp_all
    · simp only [hf, Bool.false_eq_true, if_false] at h ⊢
      rw [h]
  init_pres := by
    intro k s p
    unfold Ecount
    simp only [kernel]
    by_cases hf : fastOn c k = true <;> simp [hf]
  trans_pres := by
    intro t ht k p a s r
    simp only [kernel, List.mem_append, List.mem_cons, List.not_mem_nil, or_false] at ht
    unfold Ecount
    rcases ht with ht | ht
    · split at ht
      · simp only [List.mem_cons, List.not_mem_nil, or_false] at ht
        subst ht
        simp only [transA]; split <;> trivial
      · cases ht
    · subst ht
      simp only [transB]
      by_cases hf : fastOn c k = true <;> simp [hf]
  fin := by
    intro k as ss p q rngs _ h
    unfold Ecount at h
    simp only [kernel, finC]
    by_cases hf : fastOn c k = true
    · simp only [hf, if_true] at h ⊢
      cases p; cases q; simp_all
    · simp only [hf, Bool.false_eq_true, if_false] at h ⊢
      rw [h]
  main := by
    intro p q h
    unfold Ecount at h
    simpa [fastOn] using h

theorem adaptLocal_count (c : Cfg) : AdaptLocal (kernel c) (Ecount c) :=
  adaptLocal_of_prim _ _ (adaptPrim_count c)

end MiciVerif.SamplerCount
