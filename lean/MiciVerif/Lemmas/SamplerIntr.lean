/-
Lemmas about interrupted sequential stages and runs.
-/
import MiciVerif.Lemmas.SamplerRun

namespace MiciVerif.Sampler
open MiciVerif.Stagers

variable {S V A P : Type}

/-- the fold of `stageSeq` from an arbitrary accumulator and first chain index -/
def seqFold (K : Kernel S V A P) (st : Stage) (offset : Nat) (intr : Option (Nat × Nat × Nat))
    (acc : Acc S V A P) (k : Nat) (l : List (Chain S V)) : Acc S V A P :=
  ((l.zipIdx k).map (fun ci => (ci.2, ci.1))).foldl (seqStep K st offset intr) acc

theorem stageSeq_eq_seqFold (K : Kernel S V A P) (st : Stage) (offset : Nat)
    (intr : Option (Nat × Nat × Nat)) (p : P) (chs : List (Chain S V)) :
    stageSeq K st offset intr p chs = seqFold K st offset intr ⟨p, [], [], false⟩ 0 chs := rfl

theorem seqFold_append (K : Kernel S V A P) (st : Stage) (offset : Nat)
    (intr : Option (Nat × Nat × Nat)) (acc : Acc S V A P) (k : Nat) (a b : List (Chain S V)) :
    seqFold K st offset intr acc k (a ++ b) =
      seqFold K st offset intr (seqFold K st offset intr acc k a) (k + a.length) b := by
  unfold seqFold
  rw [List.zipIdx_append, List.map_append, List.foldl_append]

theorem seqFold_cons (K : Kernel S V A P) (st : Stage) (offset : Nat)
    (intr : Option (Nat × Nat × Nat)) (acc : Acc S V A P) (k : Nat) (ch : Chain S V)
    (l : List (Chain S V)) :
    seqFold K st offset intr acc k (ch :: l) =
      seqFold K st offset intr (seqStep K st offset intr acc (k, ch)) (k + 1) l := by
  simp [seqFold, List.zipIdx_cons]

/-- chains whose index is not the interrupted one run as in the uninterrupted stage -/
theorem seqFold_no_intr (K : Kernel S V A P) (st : Stage) (offset c0 i0 j0 : Nat)
    (acc : Acc S V A P) (k : Nat) (l : List (Chain S V)) (h : c0 < k ∨ k + l.length ≤ c0) :
    seqFold K st offset (some (c0, i0, j0)) acc k l = seqFold K st offset none acc k l := by
  induction l generalizing acc k with
  | nil => rfl
  | cons ch l ih =>
    rw [seqFold_cons, seqFold_cons]
    have hne : c0 ≠ k := by simp only [List.length_cons] at h; omega
    have hs : seqStep K st offset (some (c0, i0, j0)) acc (k, ch) = seqStep K st offset none acc (k, ch) := by
      simp [seqStep, chainIntr, hne]
    rw [hs]
    apply ih
    simp only [List.length_cons] at h; omega

/-- after the `break` the remaining chains are left as they are -/
theorem seqFold_halted (K : Kernel S V A P) (st : Stage) (offset : Nat)
    (intr : Option (Nat × Nat × Nat)) (acc : Acc S V A P) (k : Nat) (l : List (Chain S V))
    (h : acc.halted = true) :
    seqFold K st offset intr acc k l = { acc with chains := acc.chains ++ l } := by
  induction l generalizing acc k with
  | nil => simp [seqFold]
  | cons ch l ih =>
    rw [seqFold_cons]
    have hs : seqStep K st offset intr acc (k, ch) = { acc with chains := acc.chains ++ [ch] } := by
      simp [seqStep, h]
    rw [hs, ih { acc with chains := acc.chains ++ [ch] } (k + 1) h]
    simp

/-- **Interrupted sequential stage.** -/
theorem stageSeq_intr (K : Kernel S V A P) (st : Stage) (offset c0 i0 j0 : Nat) (p : P)
    (chs : List (Chain S V)) (ch : Chain S V) (hc : chs[c0]? = some ch)
    (hi : i0 < st.n) (hj : j0 < (opsOf K st).length) :
    let before := stageSeq K st offset none p (chs.take c0)
    let r := chainRes K st offset (some (i0, j0)) before.params ch
    stageSeq K st offset (some (c0, i0, j0)) p chs =
      { params := r.ctx.params
        outs := before.outs ++ [⟨c0, r.ctx.state, r.ctx.adapt, r.ctx.rng⟩]
        chains := before.chains ++ [⟨ch.state, r.ctx.rng, r.mem, r.ctx.log⟩] ++ chs.drop (c0 + 1)
        halted := true } := by
  intro before r
  have hlt : c0 < chs.length := by
    rcases List.getElem?_eq_some_iff.mp hc with ⟨h, _⟩; exact h
  have hsplit : chs = chs.take c0 ++ ch :: chs.drop (c0 + 1) := by
    have h1 : chs.drop c0 = ch :: chs.drop (c0 + 1) := by
      rw [List.drop_eq_getElem_cons hlt]
      congr 1
      rcases List.getElem?_eq_some_iff.mp hc with ⟨_, h⟩; exact h
    rw [← h1, List.take_append_drop]
  have hlen : (chs.take c0).length = c0 := by simp [List.length_take]; omega
  conv => lhs; rw [hsplit]
  rw [stageSeq_eq_seqFold, seqFold_append, seqFold_cons]
  rw [seqFold_no_intr K st offset c0 i0 j0 _ 0 (chs.take c0) (by omega)]
  rw [← stageSeq_eq_seqFold]
  simp only [Nat.zero_add, hlen]
  have hb : before.halted = false := (stageSeq_none K st offset p (chs.take c0)).1
  have hr : r.halted = true := (chainRes_intr_ctx K st offset i0 j0 before.params ch hi hj).2
  have hs : seqStep K st offset (some (c0, i0, j0)) before (c0, ch) =
      { params := r.ctx.params
        outs := before.outs ++ [⟨c0, r.ctx.state, r.ctx.adapt, r.ctx.rng⟩]
        chains := before.chains ++ [⟨ch.state, r.ctx.rng, r.mem, r.ctx.log⟩]
        halted := true } := by
    simp only [seqStep, hb, Bool.false_eq_true, if_false, chainIntr, if_true]
    show (⟨_, _, _, _⟩ : Acc S V A P) = _
    congr 1
  rw [hs, seqFold_halted _ _ _ _ _ _ _ rfl]

theorem seqFold_none_prefix (K : Kernel S V A P) (st : Stage) (offset : Nat) :
    ∀ (l : List (Chain S V)) (acc : Acc S V A P) (k : Nat), acc.halted = false →
      (seqFold K st offset none acc k l).chains.take acc.chains.length = acc.chains ∧
      (seqFold K st offset none acc k l).outs.take acc.outs.length = acc.outs ∧
      acc.chains.length ≤ (seqFold K st offset none acc k l).chains.length ∧
      acc.outs.length ≤ (seqFold K st offset none acc k l).outs.length := by
  intro l
  induction l with
  | nil => intro acc k _; simp [seqFold]
  | cons ch l ih =>
    intro acc k hacc
    rw [seqFold_cons]
    have hstep : (seqStep K st offset none acc (k, ch)).halted = false := by
      simp only [seqStep, hacc, Bool.false_eq_true, if_false, chainIntr]
      have := chainRes_none K st offset acc.params ch
      unfold chainRes at this
      rw [this, foldOps_halted]; rfl
    have hch : (seqStep K st offset none acc (k, ch)).chains = acc.chains ++
        [⟨ch.state, (chainRes K st offset none acc.params ch).ctx.rng,
          (chainRes K st offset none acc.params ch).mem,
          (chainRes K st offset none acc.params ch).ctx.log⟩] := by
      simp [seqStep, hacc, chainIntr, chainRes]
    have hou : (seqStep K st offset none acc (k, ch)).outs = acc.outs ++
        [⟨k, (chainRes K st offset none acc.params ch).ctx.state,
          (chainRes K st offset none acc.params ch).ctx.adapt,
          (chainRes K st offset none acc.params ch).ctx.rng⟩] := by
      simp [seqStep, hacc, chainIntr, chainRes]
    obtain ⟨i1, i2, i3, i4⟩ := ih (seqStep K st offset none acc (k, ch)) (k + 1) hstep
    rw [hch] at i1 i3
    rw [hou] at i2 i4
    simp only [List.length_append, List.length_cons, List.length_nil] at i1 i2 i3 i4
    refine ⟨?_, ?_, by omega, by omega⟩
    · have := congrArg (List.take acc.chains.length) i1
      rw [List.take_take, Nat.min_eq_left (by omega)] at this
      rw [this, List.take_append_of_le_length (Nat.le_refl _), List.take_length]
    · have := congrArg (List.take acc.outs.length) i2
      rw [List.take_take, Nat.min_eq_left (by omega)] at this
      rw [this, List.take_append_of_le_length (Nat.le_refl _), List.take_length]

theorem stageSeq_none_prefix (K : Kernel S V A P) (st : Stage) (offset : Nat) (p : P)
    (a b : List (Chain S V)) :
    (stageSeq K st offset none p (a ++ b)).chains.take a.length = (stageSeq K st offset none p a).chains ∧
    (stageSeq K st offset none p (a ++ b)).outs.take a.length = (stageSeq K st offset none p a).outs := by
  rw [stageSeq_eq_seqFold K st offset none p (a ++ b), seqFold_append, ← stageSeq_eq_seqFold]
  have hb := stageSeq_none K st offset p a
  have hk := seqFold_none_prefix K st offset b (stageSeq K st offset none p a) (0 + a.length) hb.1
  have hcl : (stageSeq K st offset none p a).chains.length = a.length := stageSeq_chains_length _ _ _ _ _ _
  have hol : (stageSeq K st offset none p a).outs.length = a.length := by rw [hb.2.2]; simp
  rw [hcl, hol] at hk
  exact ⟨hk.1, hk.2.1⟩

/-- the first `c0` chains of an uninterrupted stage do not depend on the chains after them -/
theorem stageSeq_none_take (K : Kernel S V A P) (st : Stage) (offset : Nat) (p : P)
    (chs : List (Chain S V)) (c0 : Nat) :
    (stageSeq K st offset none p (chs.take c0)).chains = (stageSeq K st offset none p chs).chains.take c0 ∧
    (stageSeq K st offset none p (chs.take c0)).outs = (stageSeq K st offset none p chs).outs.take c0 := by
  by_cases hle : chs.length ≤ c0
  · rw [List.take_of_length_le hle]
    have h1 := stageSeq_chains_length K st offset none p chs
    have h2 : (stageSeq K st offset none p chs).outs.length = chs.length := by
      rw [(stageSeq_none K st offset p chs).2.2]; simp
    rw [List.take_of_length_le (by omega), List.take_of_length_le (by omega)]
    exact ⟨rfl, rfl⟩
  · have hlen : (chs.take c0).length = c0 := by simp [List.length_take]; omega
    have := stageSeq_none_prefix K st offset p (chs.take c0) (chs.drop c0)
    rw [List.take_append_drop, hlen] at this
    exact ⟨this.1.symm, this.2.symm⟩

/-! ### run level -/

def runStagesFrom (K : Kernel S V A P) (intr : Option (Nat × Nat × Nat × Nat)) (k : Nat)
    (l : List (Stage × Mode)) (sys : Sys S V P) : Sys S V P :=
  ((l.zipIdx k).map (fun sm => (sm.2, sm.1))).foldl (runStage K intr) sys

theorem runStages_eq_from (K : Kernel S V A P) (intr : Option (Nat × Nat × Nat × Nat))
    (l : List (Stage × Mode)) (sys : Sys S V P) :
    runStages K intr l sys = runStagesFrom K intr 0 l sys := rfl

theorem runStagesFrom_append (K : Kernel S V A P) (intr : Option (Nat × Nat × Nat × Nat)) (k : Nat)
    (a b : List (Stage × Mode)) (sys : Sys S V P) :
    runStagesFrom K intr k (a ++ b) sys =
      runStagesFrom K intr (k + a.length) b (runStagesFrom K intr k a sys) := by
  unfold runStagesFrom
  rw [List.zipIdx_append, List.map_append, List.foldl_append]

theorem runStagesFrom_cons (K : Kernel S V A P) (intr : Option (Nat × Nat × Nat × Nat)) (k : Nat)
    (sm : Stage × Mode) (l : List (Stage × Mode)) (sys : Sys S V P) :
    runStagesFrom K intr k (sm :: l) sys =
      runStagesFrom K intr (k + 1) l (runStage K intr sys (k, sm)) := by
  simp [runStagesFrom, List.zipIdx_cons]

/-- stages before the interrupted one run exactly as in the uninterrupted run -/
theorem runStagesFrom_no_intr (K : Kernel S V A P) (k0 : Nat) (c : Nat × Nat × Nat) (k : Nat)
    (l : List (Stage × Mode)) (sys : Sys S V P) (h : k0 < k ∨ k + l.length ≤ k0) :
    runStagesFrom K (some (k0, c)) k l sys = runStagesFrom K none k l sys := by
  induction l generalizing k sys with
  | nil => rfl
  | cons sm l ih =>
    rw [runStagesFrom_cons, runStagesFrom_cons]
    have hne : k0 ≠ k := by simp only [List.length_cons] at h; omega
    have hs : runStage K (some (k0, c)) sys (k, sm) = runStage K none sys (k, sm) := by
      simp [runStage, hne]
    rw [hs]
    apply ih
    simp only [List.length_cons] at h; omega

theorem runStagesFrom_stopped (K : Kernel S V A P) (intr : Option (Nat × Nat × Nat × Nat)) (k : Nat)
    (l : List (Stage × Mode)) (sys : Sys S V P) (h : sys.stopped = true) :
    runStagesFrom K intr k l sys = sys :=
  foldl_runStage_stopped K intr _ sys h

end MiciVerif.Sampler
