/-
C10 model: structural-induction lemmas, part A (transpose, left/right multiplication).
-/
import MiciVerif.Lemmas.MatricesTri
import MiciVerif.Lemmas.MatricesLowRank

set_option linter.unusedSectionVars false
set_option linter.unusedVariables false
set_option linter.unusedSimpArgs false

namespace MiciVerif.Matrices
open Matrix
namespace MExpr
variable {K : Type} [Field K]

theorem denote_T {m n : ℕ} (e : MExpr K m n) (h : WF e) : denote (T e) = (denote e)ᵀ := by
  induction e with
  | identity n => simp [T, denote]
  | scaledId n p c => simp [T, denote]
  | diag p d => simp [T, denote]
  | tri f => simp [T, denote]
  | triFact pd s f =>
    simp [T, denote, Matrix.transpose_smul, Matrix.transpose_mul]
  | denseDef pd s A f =>
    simp only [T, denote]
    rw [h.2]; simp [Matrix.transpose_smul, Matrix.transpose_mul]
  | lu inverse A X => cases inverse <;> simp [T, denote]
  | denseSym A Q ev =>
    simp only [T, denote]
    rw [h.2.1]; simp [Matrix.transpose_mul, Matrix.mul_assoc]
  | orth Q => simp [T, denote]
  | scaledOrth c Q => simp [T, denote, Matrix.transpose_smul]
  | eigSym pd Q ev => simp [T, denote, Matrix.transpose_mul, Matrix.mul_assoc]
  | rect A => simp [T, denote]
  | blockDiag k a b iha ihb =>
    obtain ⟨ha, hb, hk⟩ := h
    cases k
    · simp [T, denote, bdiag_transpose, iha ha, ihb hb]
    · have := hk (by decide)
      simp only [T, denote, bdiag_transpose]
      rw [this.1, this.2]
    · have := hk (by decide)
      simp only [T, denote, bdiag_transpose]
      rw [this.1, this.2]
  | blockRow a b iha ihb => simp [T, denote, brow_transpose, iha h.1, ihb h.2]
  | blockCol a b iha ihb => simp [T, denote, bcol_transpose, iha h.1, ihb h.2]
  | prod pk a b iha ihb =>
    simp [T, denote, Matrix.transpose_mul, iha h.1, ihb h.2.1]
  | lowRank kind s U V S Kin C ihU ihV ihS ihK ihC =>
    obtain ⟨hU, hV, hS, hK, hC, _, _, _, _, hsym⟩ := h
    cases kind
    · simp [T, denote, Matrix.transpose_smul, Matrix.transpose_mul, ihU hU, ihV hV, ihS hS, ihK hK,
        Matrix.mul_assoc]
    · obtain ⟨hVU, hSs, hKs⟩ := hsym (by decide)
      simp only [T, denote, force_eq, Matrix.transpose_add, Matrix.transpose_smul,
        Matrix.transpose_mul]
      rw [hVU, Matrix.transpose_transpose, hSs, hKs, Matrix.mul_assoc]
    · obtain ⟨hVU, hSs, hKs⟩ := hsym (by decide)
      simp only [T, denote, force_eq, Matrix.transpose_add, Matrix.transpose_smul,
        Matrix.transpose_mul]
      rw [hVU, Matrix.transpose_transpose, hSs, hKs, Matrix.mul_assoc]

theorem inv_T_comm {m n : ℕ} (e : MExpr K m n) : inv (T e) = T (inv e) := by
  induction e with
  | identity n => rfl
  | scaledId n p c => rfl
  | diag p d => rfl
  | tri f => rfl
  | triFact pd s f => rfl
  | denseDef pd s A f => rfl
  | lu inverse A X => rfl
  | denseSym A Q ev => rfl
  | orth Q => rfl
  | scaledOrth c Q => rfl
  | eigSym pd Q ev => rfl
  | rect A => rfl
  | blockDiag k a b iha ihb => cases k <;> simp [T, inv, iha, ihb]
  | blockRow a b iha ihb => simp [T, inv, iha, ihb]
  | blockCol a b iha ihb => simp [T, inv, iha, ihb]
  | prod pk a b iha ihb => simp [T, inv, iha, ihb]
  | lowRank kind s U V S Kin C ihU ihV ihS ihK ihC =>
    cases kind <;> simp [T, inv, lrInvRight, ihU, ihV, ihS, ihK, ihC]

theorem IsInv_T {m n : ℕ} (e : MExpr K m n) (h : IsInv e) : IsInv (T e) := by
  induction e with
  | blockDiag k a b iha ihb => cases k <;> simp_all [T, IsInv]
  | prod pk a b iha ihb => simp_all [T, IsInv]
  | lowRank kind s U V S Kin C ihU ihV ihS ihK ihC => cases kind <;> simp_all [T, IsInv]
  | _ => simp_all [T, IsInv]

theorem IsInv_inv {m n : ℕ} (e : MExpr K m n) (h : IsInv e) : IsInv (inv e) := by
  induction e with
  | blockDiag k a b iha ihb => simp_all [inv, IsInv]
  | prod pk a b iha ihb => simp_all [inv, IsInv]
  | lowRank kind s U V S Kin C ihU ihV ihS ihK ihC => simp_all [inv, IsInv]
  | _ => simp_all [inv, IsInv]

theorem leftMul_eq {m n : ℕ} (e : MExpr K m n) : ∀ {p : ℕ} (B : Mat n p K), leftMul e B = denote e * B := by
  induction e with
  | identity n => intro p B; simp [leftMul, denote]
  | scaledId n p c => intro p B; simp [leftMul, denote]
  | diag p d => intro p B; ext i j; simp [leftMul, denote, Matrix.diagonal_mul]
  | tri f => intro p B; simp [leftMul, denote, TriF.leftMul]
  | triFact pd s f =>
    intro p B; simp [leftMul, denote, TriF.leftMul, Matrix.mul_assoc]
  | denseDef pd s A f => intro p B; simp [leftMul, denote]
  | lu inverse A X => intro p B; simp [leftMul, denote]
  | denseSym A Q ev => intro p B; simp [leftMul, denote]
  | orth Q => intro p B; simp [leftMul, denote]
  | scaledOrth c Q => intro p B; simp [leftMul, denote]
  | eigSym pd Q ev =>
    intro p B
    have : (Matrix.of fun i j => ev i * (Qᵀ * B) i j) = Matrix.diagonal ev * (Qᵀ * B) := by
      ext i j; simp [Matrix.diagonal_mul]
    simp [leftMul, denote, this, Matrix.mul_assoc]
  | rect A => intro p B; simp [leftMul, denote]
  | blockDiag k a b iha ihb => intro p B; simp [leftMul, denote, iha, ihb, bdiag_mul]
  | blockRow a b iha ihb => intro p B; simp [leftMul, denote, iha, ihb, brow_mul]
  | blockCol a b iha ihb => intro p B; simp [leftMul, denote, iha, ihb, bcol_mul]
  | prod pk a b iha ihb => intro p B; simp [leftMul, denote, iha, ihb, Matrix.mul_assoc]
  | lowRank kind s U V S Kin C ihU ihV ihS ihK ihC =>
    intro p B
    simp [leftMul, denote, ihU, ihV, ihS, ihK, Matrix.add_mul, Matrix.mul_assoc]

theorem rightMul_eq {m n : ℕ} (e : MExpr K m n) : ∀ {p : ℕ} (B : Mat p m K), rightMul B e = B * denote e := by
  induction e with
  | identity n => intro p B; simp [rightMul, denote]
  | scaledId n p c => intro p B; simp [rightMul, denote]
  | diag p d => intro p B; ext i j; simp [rightMul, denote, Matrix.mul_diagonal, mul_comm]
  | tri f => intro p B; simp [rightMul, denote, TriF.rightMul]
  | triFact pd s f =>
    intro p B; simp [rightMul, denote, TriF.rightMul, Matrix.mul_assoc]
  | denseDef pd s A f => intro p B; simp [rightMul, denote]
  | lu inverse A X => intro p B; simp [rightMul, denote]
  | denseSym A Q ev => intro p B; simp [rightMul, denote]
  | orth Q => intro p B; simp [rightMul, denote]
  | scaledOrth c Q => intro p B; simp [rightMul, denote]
  | eigSym pd Q ev =>
    intro p B
    have : (Matrix.of fun i j => ev j * (B * Q) i j) = (B * Q) * Matrix.diagonal ev := by
      ext i j; simp [Matrix.mul_diagonal, mul_comm]
    simp [rightMul, denote, this, Matrix.mul_assoc]
  | rect A => intro p B; simp [rightMul, denote]
  | blockDiag k a b iha ihb => intro p B; simp [rightMul, denote, iha, ihb, mul_bdiag]
  | blockRow a b iha ihb => intro p B; simp [rightMul, denote, iha, ihb, mul_brow]
  | blockCol a b iha ihb => intro p B; simp [rightMul, denote, iha, ihb, mul_bcol]
  | prod pk a b iha ihb => intro p B; simp [rightMul, denote, iha, ihb, Matrix.mul_assoc]
  | lowRank kind s U V S Kin C ihU ihV ihS ihK ihC =>
    intro p B
    simp [rightMul, denote, ihU, ihV, ihS, ihK, Matrix.mul_add, Matrix.mul_assoc]

end MExpr
end MiciVerif.Matrices
