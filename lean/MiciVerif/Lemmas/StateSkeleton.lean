/-
Helper lemmas for `Props/C09S.lean` / `C18S.lean`: executing the action lists of `Skel.StateSem`
(independent of the generated trees) gives the operations of `Model/Cache.lean`.
-/
import MiciVerif.Model.StateSkeleton

namespace MiciVerif.StateSkeletonLemmas
open MiciVerif.Skel MiciVerif.Skel.StateSem MiciVerif.Cache

theorem register_nil (h : Heap) (sid : Nat) (d : VarSet) : register h sid [] d = h := by
  cases h; simp [register]

theorem register_cons (h : Heap) (sid : Nat) (k : Key) (ks : List Key) (d : VarSet) :
    register (register h sid [k] d) sid ks d = register h sid (k :: ks) d := by
  cases h with
  | mk st nSt cells nCells nextStamp nextArr =>
    simp only [register, Heap.mk.injEq, true_and, and_true]
    funext c x k'
    by_cases hk : k' = k <;> by_cases hm : k' ∈ ks <;> by_cases hc : c = (st sid).cell <;>
      cases cells c x k' <;> cases d.mem x <;> cases ((st sid).cache k').isNone <;> simp [hk, hm, hc]

/-- registering the keys one after the other (the `for … in enumerate(keys)` loop) is `register` of the list -/
theorem foldl_register (sid : Nat) (d : VarSet) : ∀ (ks : List Key) (h : Heap),
    ks.foldl (fun h k => register h sid [k] d) h = register h sid ks d
  | [], h => by simp [register_nil]
  | k :: ks, h => by
    simp only [List.foldl_cons]
    rw [foldl_register sid d ks, register_cons]

theorem run_plain (body : List S) (cfg : Cfg) (call : Heap → Nat → Res) (e : Entry) (sid sys : Nat) (h : Heap)
    (hp : wrapPlan "key" body =
      some [.makeKey, .registerIfAbsent, .computeIfAbsentOrNone [.evalAndStore, .count], .returnCached])
    (he : e.withAux = false) :
    wrapPass "key" body cfg call e sid sys h = some (wrapM cfg call e sid sys h) := by
  unfold wrapPass
  rw [hp]
  simp only [Option.bind_some, runWrapActs, wrapM, he, Bool.false_eq_true, if_false]
  generalize ((register h sid [⟨sys, e.meth⟩] e.declared).st sid).cache ⟨sys, e.meth⟩ = c
  rcases c with _ | _ | v
  · simp [runMissActs, setSt, store]
  · simp [runMissActs, setSt, store]
  · simp

theorem run_aux (body : List S) (cfg : Cfg) (call : Heap → Nat → Res) (e : Entry) (sid sys : Nat) (h : Heap)
    (hp : wrapPlan "prim_key" body =
      some [.makeKey, .makeKeys, .registerEachIfAbsent,
            .computeIfAbsentOrNone [.eval, .storeZipOrPrimary, .count], .returnCached])
    (he : e.withAux = true) :
    wrapPass "prim_key" body cfg call e sid sys h = some (wrapM cfg call e sid sys h) := by
  unfold wrapPass
  rw [hp]
  simp only [Option.bind_some, runWrapActs, wrapM, he, if_true, foldl_register]
  generalize ((register h sid (⟨sys, e.meth⟩ :: e.aux.map (Key.mk sys)) e.declared).st sid).cache ⟨sys, e.meth⟩ = c
  rcases c with _ | _ | v
  · simp [runMissActs, setSt, store, List.map_take]
  · simp [runMissActs, setSt, store, List.map_take]
  · simp

theorem run_assign (body : List S) (tbl : Table) (cfg : Cfg) (h : Heap) (sid : Nat) (x : Var) (hs : sid < h.nSt)
    (hp : setattrPlan body =
      some [.raiseIfReadOnly, .ifVariable [.bind, .invalidateDependents, .done], .otherAttribute]) :
    setattrPass body sid x (bindFresh sid x) h = some (step tbl cfg h (.assign sid x)) := by
  unfold setattrPass
  rw [hp]
  simp only [Option.bind_some, runSetattrActs, runSetVarActs, step, hs, if_true]
  by_cases hro : (h.st sid).readOnly = true
  · simp [hro]
  · simp only [hro, Bool.false_eq_true, if_false, Option.some.injEq, Prod.mk.injEq, and_true]
    cases h with
    | mk st nSt cells nCells nextStamp nextArr =>
      simp only [bindFresh, setSt, Heap.mk.injEq, and_true]
      funext i
      by_cases hi : i = sid
      · subst hi; simp; rfl
      · simp [hi]

theorem run_assignIP (body : List S) (tbl : Table) (cfg : Cfg) (h : Heap) (sid : Nat) (x : Var) (hs : sid < h.nSt)
    (hf : (h.st sid).frozen = false)
    (hp : setattrPlan body =
      some [.raiseIfReadOnly, .ifVariable [.bind, .invalidateDependents, .done], .otherAttribute]) :
    setattrPass body sid x id
        (setSt { h with st := fun i => sweepSt ((h.st sid).arr x) x h.nextStamp (h.st i), nextStamp := h.nextStamp + 1 }
          sid (fun s => { s with stamp := upd s.stamp x h.nextStamp })) =
      some (step tbl cfg h (.assignIP sid x)) := by
  unfold setattrPass
  rw [hp]
  simp only [Option.bind_some, runSetattrActs, runSetVarActs, step, hs, if_true, hf, Bool.false_eq_true, if_false, id]
  have hro : ((setSt { h with st := fun i => sweepSt ((h.st sid).arr x) x h.nextStamp (h.st i), nextStamp := h.nextStamp + 1 }
            sid (fun s => { s with stamp := upd s.stamp x h.nextStamp })).st sid).readOnly = (h.st sid).readOnly := by
    simp [setSt, sweepSt]
  rw [hro]
  by_cases hr : (h.st sid).readOnly = true <;> simp [hr]

theorem run_fresh (body : List S) (tbl : Table) (cfg : Cfg) (h : Heap)
    (hp : initPlan body =
      some [.setVariables, .defaultDependencies, .setDependencies, .defaultCache, .setCache, .setCallCounts, .setReadOnly]) :
    freshPass body h = some (step tbl cfg h .fresh) := by
  unfold freshPass initPass
  rw [hp]
  simp [runInitActs, step]
  rfl

theorem run_copy (body initBody : List S) (tbl : Table) (cfg : Cfg) (h : Heap) (sid : Nat) (ro : Bool) (hs : sid < h.nSt)
    (hc : copyPlan body = some [.copyVariables, .freezeIfReadOnly, .construct])
    (hp : initPlan initBody =
      some [.setVariables, .defaultDependencies, .setDependencies, .defaultCache, .setCache, .setCallCounts, .setReadOnly]) :
    copyPass body initBody sid ro h = some (step tbl cfg h (.copy sid ro)) := by
  unfold copyPass
  rw [hc]
  simp only [Option.bind_some, runCopyActs, initPass]
  rw [hp]
  simp [runInitActs, step, hs]
  rfl

theorem run_pickle (getBody setBody : List S) (tbl : Table) (cfg : Cfg) (h : Heap) (sid : Nat) (hs : sid < h.nSt)
    (hg : getstatePlan getBody =
      some [(.variables, .variables), (.dependencies, .dependencies), (.cache, .cacheNonCallable),
            (.callCounts, .callCounts), (.readOnly, .readOnly)])
    (hset : setstatePlan setBody =
      some [.restore .variables .variables, .restore .dependencies .dependencies, .restore .cache .cache,
            .restore .callCounts .callCounts, .restore .readOnly .readOnly, .refreezeIfReadOnly]) :
    picklePass getBody setBody sid h = some (step tbl cfg h (.pickle sid)) := by
  unfold picklePass
  rw [hg, hset]
  have hrt : ∀ f, roundTrip
      [(Field.variables, Source.variables), (.dependencies, .dependencies), (.cache, .cacheNonCallable),
       (.callCounts, .callCounts), (.readOnly, .readOnly)]
      [SetstateAct.restore .variables .variables, .restore .dependencies .dependencies, .restore .cache .cache,
       .restore .callCounts .callCounts, .restore .readOnly .readOnly, .refreezeIfReadOnly] f =
      some (match f with
        | .variables => Source.variables | .dependencies => .dependencies | .cache => .cacheNonCallable
        | .callCounts => .callCounts | .readOnly => .readOnly) := by
    intro f; cases f <;> rfl
  simp [hrt, step, hs]
  rfl

end MiciVerif.StateSkeletonLemmas
