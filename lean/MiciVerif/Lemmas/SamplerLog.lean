/-
Generator bookkeeping invariants of sequential runs: chain `c` only ever uses stream `c`, and the
positions it consumes are consecutive (never replayed, no gaps) across iterations, stages and
adapter finalisations.
-/
import MiciVerif.Lemmas.SamplerRun

namespace MiciVerif.Sampler
open MiciVerif.Stagers

variable {S V A P : Type}

/-- `consecFrom s log = some e`: the draws of `log` start at position `s`, each one starts where
the previous one ended, and the last one ends at `e`. -/
def consecFrom : Nat → List Draw → Option Nat
  | s, [] => some s
  | s, d :: l => if d.start = s then consecFrom (s + d.count) l else none

theorem consecFrom_snoc (s : Nat) (l : List Draw) (d : Draw) :
    consecFrom s (l ++ [d]) =
      (consecFrom s l).bind (fun e => if d.start = e then some (e + d.count) else none) := by
  induction l generalizing s with
  | nil => simp [consecFrom]
  | cons a l ih =>
    simp only [List.cons_append, consecFrom]
    split
    · exact ih _
    · rfl

/-- consecutive draws are pairwise disjoint and ordered -/
theorem consecFrom_disjoint (s e : Nat) (l : List Draw) (h : consecFrom s l = some e) :
    (∀ d ∈ l, s ≤ d.start ∧ d.start + d.count ≤ e) ∧ s ≤ e ∧
    l.Pairwise (fun a b => a.start + a.count ≤ b.start) := by
  induction l generalizing s with
  | nil => simp [consecFrom] at h; subst h; simp
  | cons a l ih =>
    simp only [consecFrom] at h
    split at h
    · rename_i ha
      obtain ⟨h1, h2, h3⟩ := ih _ h
      refine ⟨?_, by omega, ?_⟩
      · intro d hd
        rcases List.mem_cons.mp hd with rfl | hd
        · omega
        · have := h1 d hd; omega
      · rw [List.pairwise_cons]
        refine ⟨?_, h3⟩
        intro b hb
        have := h1 b hb; omega
    · cases h

def CtxOK (c : Nat) (x : Ctx S A P) : Prop :=
  x.rng.stream = c ∧ (∀ d ∈ x.log, d.stream = c) ∧ consecFrom 0 x.log = some x.rng.pos

def ChainOK (c : Nat) (ch : Chain S V) : Prop :=
  ch.rng.stream = c ∧ (∀ d ∈ ch.log, d.stream = c) ∧ consecFrom 0 ch.log = some ch.rng.pos

def LogsOK (sys : Sys S V P) : Prop := ∀ c ch, sys.chains[c]? = some ch → ChainOK c ch

theorem ctxOK_execOp (st : Stage) (offset i j : Nat) (op : Op S V A P) (x : Run S V A P) (c : Nat)
    (h : CtxOK c x.ctx) : CtxOK c (execOp st offset i j op x).ctx := by
  cases op with
  | trace f => exact h
  | trans t =>
    obtain ⟨h1, h2, h3⟩ := h
    simp only [execOp, CtxOK]
    refine ⟨h1, ?_, ?_⟩
    · intro d hd
      rcases List.mem_append.mp hd with hd | hd
      · exact h2 d hd
      · simp at hd; subst hd; exact h1
    · rw [consecFrom_snoc, h3]; simp

theorem ctxOK_foldOps (st : Stage) (offset : Nat) (l : List (Triple S V A P)) (x : Run S V A P)
    (c : Nat) (h : CtxOK c x.ctx) : CtxOK c (foldOps st offset l x).ctx := by
  induction l generalizing x with
  | nil => exact h
  | cons t l ih => exact ih _ (ctxOK_execOp _ _ _ _ _ _ _ h)

theorem chainOK_chainRes (K : Kernel S V A P) (st : Stage) (offset : Nat) (p : P) (ch : Chain S V)
    (c : Nat) (h : ChainOK c ch) : CtxOK c (chainRes K st offset none p ch).ctx := by
  rw [chainRes_none]
  apply ctxOK_foldOps
  exact h

theorem getElem?_setStates (chs : List (Chain S V)) (ss : List S) (c : Nat) (ch' : Chain S V)
    (h : (setStates chs ss)[c]? = some ch') :
    ∃ ch, chs[c]? = some ch ∧ ch'.rng = ch.rng ∧ ch'.log = ch.log := by
  induction chs generalizing ss c with
  | nil => cases ss <;> simp [setStates] at h
  | cons a chs ih =>
    cases ss with
    | nil => exact ⟨ch', by simpa [setStates] using h, rfl, rfl⟩
    | cons s ss =>
      cases c with
      | zero => simp [setStates] at h; subst h; exact ⟨a, rfl, rfl, rfl⟩
      | succ c => simp only [setStates, List.getElem?_cons_succ] at h ⊢; exact ih ss c h

theorem getElem?_advance (chs : List (Chain S V)) (ds : List Nat) (c : Nat) (ch' : Chain S V)
    (h : (advance chs ds)[c]? = some ch') :
    ∃ ch, chs[c]? = some ch ∧ ((ch'.rng = ch.rng ∧ ch'.log = ch.log) ∨
      ∃ d, ch'.rng = ⟨ch.rng.stream, ch.rng.pos + d⟩ ∧ ch'.log = ch.log ++ [⟨ch.rng.stream, ch.rng.pos, d⟩]) := by
  induction chs generalizing ds c with
  | nil => cases ds <;> simp [advance] at h
  | cons a chs ih =>
    cases ds with
    | nil => exact ⟨ch', by simpa [advance] using h, Or.inl ⟨rfl, rfl⟩⟩
    | cons d ds =>
      cases c with
      | zero => simp [advance] at h; subst h; exact ⟨a, rfl, Or.inr ⟨d, rfl, rfl⟩⟩
      | succ c => simp only [advance, List.getElem?_cons_succ] at h ⊢; exact ih ds c h

theorem logsOK_initSys (K : Kernel S V A P) (p : P) (inits : List S) (n : Nat) :
    LogsOK (initSys K p inits n : Sys S V P) := by
  intro c ch hc
  simp only [initSys, List.getElem?_map] at hc
  cases hz : inits.zipIdx[c]? with
  | none => simp [hz] at hc
  | some si =>
    simp only [hz, Option.map_some, Option.some.injEq] at hc
    subst hc
    have : si.2 = c := by
      have := List.getElem?_zipIdx (l := inits) (i := 0) (j := c)
      rw [hz] at this
      cases hi : inits[c]? with
      | none => simp [hi] at this
      | some a => simp [hi] at this; rw [this]
    exact ⟨this, by simp, by simp [consecFrom]⟩

theorem logsOK_runStage0_seq (K : Kernel S V A P) (sys : Sys S V P) (st : Stage)
    (hs : sys.stopped = false) (h : LogsOK sys) : LogsOK (runStage0 K sys (st, .seq)) := by
  by_cases hn : st.n = 0
  · rw [runStage0_skip K sys st _ hn]; exact h
  · rw [runStage0_seq K sys st hs hn]
    obtain ⟨h1, h2, h3⟩ := stageSeq_none K st sys.offset sys.params sys.chains
    intro c ch' hc'
    unfold afterStage at hc'
    simp only [h1, Bool.false_eq_true, if_false] at hc'
    obtain ⟨ch1, hc1, hadv⟩ := getElem?_advance _ _ c ch' hc'
    obtain ⟨ch2, hc2, hr, hl⟩ := getElem?_setStates _ _ c ch1 hc1
    rw [h2, List.getElem?_mapIdx] at hc2
    cases hc0 : sys.chains[c]? with
    | none => simp [hc0] at hc2
    | some ch0 =>
      simp only [hc0, Option.map_some, Option.some.injEq] at hc2
      have hok := chainOK_chainRes K st sys.offset
        (stageSeq K st sys.offset none sys.params (sys.chains.take c)).params ch0 c (h c ch0 hc0)
      have h2' : CtxOK c (⟨ch1.state, ch1.rng, K.a0, sys.params, ch1.log⟩ : Ctx S A P) := by
        rw [hr, hl, ← hc2]
        exact hok
      obtain ⟨o1, o2, o3⟩ := h2'
      simp only at o1 o2 o3
      rcases hadv with ⟨e1, e2⟩ | ⟨d, e1, e2⟩
      · exact ⟨by rw [e1]; exact o1, by rw [e2]; exact o2, by rw [e1, e2]; exact o3⟩
      · refine ⟨by rw [e1]; exact o1, ?_, ?_⟩
        · rw [e2]
          intro x hx
          rcases List.mem_append.mp hx with hx | hx
          · exact o2 x hx
          · simp at hx; subst hx; exact o1
        · rw [e1, e2, consecFrom_snoc, o3]; simp

theorem logsOK_runStages_seq (K : Kernel S V A P) (l : List (Stage × Mode)) (hl : AllSeq l)
    (sys : Sys S V P) (hs : sys.stopped = false) (h : LogsOK sys) :
    LogsOK (runStages K none l sys) := by
  induction l generalizing sys with
  | nil => simpa [runStages_none] using h
  | cons sm l ih =>
    obtain ⟨st, m⟩ := sm
    have hm : m = Mode.seq := hl (st, m) List.mem_cons_self
    subst hm
    rw [runStages_none_cons]
    exact ih (fun sm h => hl sm (List.mem_cons_of_mem _ h)) _ (runStage0_seq_stopped K sys st hs)
      (logsOK_runStage0_seq K sys st hs h)

end MiciVerif.Sampler
