/- Facts about the statistics part of the dynamic-transition model (`buildVisit`, `visited`):
which leaves `_build_tree` visits, and how the visited set relates to the outcomes of `climb`. -/
import MiciVerif.Lemmas.Support

namespace MiciVerif.Transitions
open Dist MiciVerif.Transitions.TTree

variable {K : Type} [Field K] [LinearOrder K] [IsStrictOrderedRing K]

/-! ### `buildVisit` -/

/-- `_build_tree` ends normally exactly when the entry step succeeded and the sub-tree is
`valid` (no failed step, no divergent leaf, no termination flag anywhere). -/
theorem buildVisit_ok_iff (fwd : Bool) (t : TTree K) (entryOk : Bool) :
    (buildVisit fwd t entryOk).2 = .ok ↔ (entryOk = true ∧ t.valid = true) := by
  induction t generalizing entryOk with
  | leaf w ok =>
    cases entryOk <;> cases ok <;> simp [buildVisit, valid]
  | node l r e τ ihl ihr =>
    cases fwd
    · simp only [buildVisit, Bool.false_eq_true, if_false]
      by_cases h1 : (buildVisit false r entryOk).2 = .ok
      · by_cases h2 : (buildVisit false l e).2 = .ok
        · obtain ⟨rfl, hr⟩ := (ihr entryOk).1 h1
          obtain ⟨rfl, hl⟩ := (ihl e).1 h2
          cases τ <;> simp [h1, h2, valid, hl, hr]
        · have : ¬ (e = true ∧ l.valid = true) := fun h => h2 ((ihl e).2 h)
          simp only [h1, h2, ne_eq, not_true_eq_false, if_false, not_false_eq_true, if_true, valid,
            Bool.and_eq_true, Bool.not_eq_true', false_iff]
          tauto
      · have : ¬ (entryOk = true ∧ r.valid = true) := fun h => h1 ((ihr entryOk).2 h)
        simp only [h1, ne_eq, not_false_eq_true, if_true, valid, Bool.and_eq_true,
          Bool.not_eq_true', false_iff]
        tauto
    · simp only [buildVisit, if_true]
      by_cases h1 : (buildVisit true l entryOk).2 = .ok
      · by_cases h2 : (buildVisit true r e).2 = .ok
        · obtain ⟨rfl, hl⟩ := (ihl entryOk).1 h1
          obtain ⟨rfl, hr⟩ := (ihr e).1 h2
          cases τ <;> simp [h1, h2, valid, hl, hr]
        · have : ¬ (e = true ∧ r.valid = true) := fun h => h2 ((ihr e).2 h)
          simp only [h1, h2, ne_eq, not_true_eq_false, if_false, not_false_eq_true, if_true, valid,
            Bool.and_eq_true, Bool.not_eq_true', false_iff]
          tauto
      · have : ¬ (entryOk = true ∧ l.valid = true) := fun h => h1 ((ihl entryOk).2 h)
        simp only [h1, ne_eq, not_false_eq_true, if_true, valid, Bool.and_eq_true,
          Bool.not_eq_true', false_iff]
        tauto

/-- The visited offsets are distinct and inside the sub-tree. -/
theorem buildVisit_nodup_lt (fwd : Bool) (t : TTree K) (entryOk : Bool) :
    (buildVisit fwd t entryOk).1.Nodup ∧ ∀ k ∈ (buildVisit fwd t entryOk).1, k < t.size := by
  induction t generalizing entryOk with
  | leaf w ok => cases entryOk <;> simp [buildVisit, size]
  | node l r e τ ihl ihr =>
    have shiftNodup : ∀ (L : List Nat), L.Nodup → (L.map (· + l.size)).Nodup := fun L h =>
      h.map (fun a b hab => by simpa using hab)
    have disj : ∀ (A B : List Nat), (∀ k ∈ A, k < l.size) → A.Nodup → B.Nodup →
        (A ++ B.map (· + l.size)).Nodup ∧ (B.map (· + l.size) ++ A).Nodup := by
      intro A B hA nA nB
      refine ⟨List.nodup_append.2 ⟨nA, shiftNodup B nB, ?_⟩, List.nodup_append.2 ⟨shiftNodup B nB, nA, ?_⟩⟩
      · intro a ha b hb
        simp only [List.mem_map] at hb
        obtain ⟨c, _, rfl⟩ := hb
        have := hA a ha; omega
      · intro a ha b hb
        simp only [List.mem_map] at ha
        obtain ⟨c, _, rfl⟩ := ha
        have := hA b hb; omega
    have hshift : ∀ (B : List Nat), (∀ k ∈ B, k < r.size) → ∀ k ∈ B.map (· + l.size), k < l.size + r.size := by
      intro B hB k hk
      simp only [List.mem_map] at hk
      obtain ⟨c, hc, rfl⟩ := hk
      have := hB c hc; omega
    have hleft : ∀ (A : List Nat), (∀ k ∈ A, k < l.size) → ∀ k ∈ A, k < l.size + r.size := by
      intro A hA k hk; have := hA k hk; omega
    cases fwd
    · simp only [buildVisit, Bool.false_eq_true, if_false, size]
      obtain ⟨nr, br⟩ := ihr entryOk
      obtain ⟨nl, bl⟩ := ihl e
      split
      · exact ⟨shiftNodup _ nr, hshift _ br⟩
      · split
        · refine ⟨(disj _ _ bl nl nr).2, ?_⟩
          intro k hk
          rcases List.mem_append.1 hk with h | h
          · exact hshift _ br k h
          · exact hleft _ bl k h
        · refine ⟨(disj _ _ bl nl nr).2, ?_⟩
          intro k hk
          rcases List.mem_append.1 hk with h | h
          · exact hshift _ br k h
          · exact hleft _ bl k h
    · simp only [buildVisit, if_true, size]
      obtain ⟨nl, bl⟩ := ihl entryOk
      obtain ⟨nr, br⟩ := ihr e
      split
      · exact ⟨nl, hleft _ bl⟩
      · split
        · refine ⟨(disj _ _ bl nl nr).1, ?_⟩
          intro k hk
          rcases List.mem_append.1 hk with h | h
          · exact hleft _ bl k h
          · exact hshift _ br k h
        · refine ⟨(disj _ _ bl nl nr).1, ?_⟩
          intro k hk
          rcases List.mem_append.1 hk with h | h
          · exact hleft _ bl k h
          · exact hshift _ br k h

/-- A `valid` sub-tree entered by a successful step is visited completely. -/
theorem buildVisit_valid_all (fwd : Bool) (t : TTree K) (hv : t.valid = true) :
    ∀ k, k < t.size → k ∈ (buildVisit fwd t true).1 := by
  induction t with
  | leaf w ok =>
    intro k hk
    have : k = 0 := by simp [size] at hk; omega
    subst this; simp [buildVisit]
  | node l r e τ ihl ihr =>
    simp only [valid, Bool.and_eq_true, Bool.not_eq_true'] at hv
    obtain ⟨⟨⟨hl, hr⟩, he⟩, hτ⟩ := hv
    subst he
    have okl : ∀ f, (buildVisit f l true).2 = .ok := fun f => (buildVisit_ok_iff f l true).2 ⟨rfl, hl⟩
    have okr : ∀ f, (buildVisit f r true).2 = .ok := fun f => (buildVisit_ok_iff f r true).2 ⟨rfl, hr⟩
    intro k hk
    simp only [size] at hk
    cases fwd
    · simp only [buildVisit, Bool.false_eq_true, if_false, okl, okr, ne_eq, not_true_eq_false]
      by_cases h : k < l.size
      · exact List.mem_append.2 (Or.inr (ihl hl k h))
      · refine List.mem_append.2 (Or.inl ?_)
        simp only [List.mem_map]
        exact ⟨k - l.size, ihr hr _ (by omega), by omega⟩
    · simp only [buildVisit, if_true, okl, okr, ne_eq, not_true_eq_false, if_false]
      by_cases h : k < l.size
      · exact List.mem_append.2 (Or.inl (ihl hl k h))
      · refine List.mem_append.2 (Or.inr ?_)
        simp only [List.mem_map]
        exact ⟨k - l.size, ihr hr _ (by omega), by omega⟩

/-- … and the number of visited leaves of a `valid` sub-tree is its size. -/
theorem buildVisit_valid_length (fwd : Bool) (t : TTree K) (hv : t.valid = true) :
    (buildVisit fwd t true).1.length = t.size := by
  induction t with
  | leaf w ok => simp [buildVisit, size]
  | node l r e τ ihl ihr =>
    simp only [valid, Bool.and_eq_true, Bool.not_eq_true'] at hv
    obtain ⟨⟨⟨hl, hr⟩, he⟩, hτ⟩ := hv
    subst he
    have okl : ∀ f, (buildVisit f l true).2 = .ok := fun f => (buildVisit_ok_iff f l true).2 ⟨rfl, hl⟩
    have okr : ∀ f, (buildVisit f r true).2 = .ok := fun f => (buildVisit_ok_iff f r true).2 ⟨rfl, hr⟩
    cases fwd
    · simp only [buildVisit, Bool.false_eq_true, if_false, okl, okr, ne_eq, not_true_eq_false,
        List.length_append, List.length_map, ihl hl, ihr hr, size]
      omega
    · simp only [buildVisit, if_true, okl, okr, ne_eq, not_true_eq_false, if_false,
        List.length_append, List.length_map, ihl hl, ihr hr, size]

/-! ### `visited` -/

/-- The leaves visited by a transition are distinct, inside the tree, and never the start. -/
theorem visited_nodup_lt (t : TTree K) : ∀ start, start < t.size →
    (visited t start).1.Nodup ∧ (∀ k ∈ (visited t start).1, k < t.size) ∧
      start ∉ (visited t start).1 := by
  induction t with
  | leaf w ok => intro s _; simp [visited]
  | node l r e τ ihl ihr =>
    intro s hs
    simp only [size] at hs
    unfold visited
    by_cases h : s < l.size
    · simp only [h, if_true]
      obtain ⟨n1, b1, f1⟩ := ihl s h
      have lift : ∀ k ∈ (visited l s).1, k < (node l r e τ).size := fun k hk => by
        have := b1 k hk; simp [size]; omega
      split
      · exact ⟨n1, lift, f1⟩
      · split
        · exact ⟨n1, lift, f1⟩
        · obtain ⟨nb, bb⟩ := buildVisit_nodup_lt true r e
          refine ⟨List.nodup_append.2 ⟨n1, nb.map (fun a b hab => by simpa using hab), ?_⟩, ?_, ?_⟩
          · intro a ha b hb
            simp only [List.mem_map] at hb
            obtain ⟨c, _, rfl⟩ := hb
            have := b1 a ha; omega
          · intro k hk
            rcases List.mem_append.1 hk with h' | h'
            · exact lift k h'
            · simp only [List.mem_map] at h'
              obtain ⟨c, hc, rfl⟩ := h'
              have := bb c hc; simp [size]; omega
          · intro hmem
            rcases List.mem_append.1 hmem with h' | h'
            · exact f1 h'
            · simp only [List.mem_map] at h'
              obtain ⟨c, _, hc⟩ := h'
              omega
    · simp only [h, if_false]
      have hs' : s - l.size < r.size := by omega
      obtain ⟨n1, b1, f1⟩ := ihr _ hs'
      have nshift : ((visited r (s - l.size)).1.map (· + l.size)).Nodup :=
        n1.map (fun a b hab => by simpa using hab)
      have bshift : ∀ k ∈ (visited r (s - l.size)).1.map (· + l.size), k < (node l r e τ).size := by
        intro k hk
        simp only [List.mem_map] at hk
        obtain ⟨c, hc, rfl⟩ := hk
        have := b1 c hc; simp [size]; omega
      have fshift : s ∉ (visited r (s - l.size)).1.map (· + l.size) := by
        intro hmem
        simp only [List.mem_map] at hmem
        obtain ⟨c, hc, hcs⟩ := hmem
        have : c = s - l.size := by omega
        subst this; exact f1 hc
      have lowshift : ∀ k ∈ (visited r (s - l.size)).1.map (· + l.size), l.size ≤ k := by
        intro k hk
        simp only [List.mem_map] at hk
        obtain ⟨c, _, rfl⟩ := hk
        omega
      split
      · exact ⟨nshift, bshift, fshift⟩
      · split
        · exact ⟨nshift, bshift, fshift⟩
        · obtain ⟨nb, bb⟩ := buildVisit_nodup_lt false l e
          refine ⟨List.nodup_append.2 ⟨nshift, nb, ?_⟩, ?_, ?_⟩
          · intro a ha b hb
            have := lowshift a ha
            have := bb b hb; omega
          · intro k hk
            rcases List.mem_append.1 hk with h' | h'
            · exact bshift k h'
            · have := bb k h'; simp [size]; omega
          · intro hmem
            rcases List.mem_append.1 hmem with h' | h'
            · exact fshift h'
            · have := bb s h'; omega

/-- Every outcome of `climb` is the start or a visited leaf, and an outcome `.top _` means the
statistics side also considers the expansion as still going on. -/
theorem climb_visited (t : TTree K) : ∀ start, start < t.size →
    Dist.All (fun res => (res.val = start ∨ res.val ∈ (visited t start).1) ∧
        (∀ c, res = .top c → (visited t start).2.1 = true)) (climb t start) := by
  induction t with
  | leaf w ok =>
    intro s hs
    have : s = 0 := by simp [size] at hs; omega
    subst this
    exact Dist.all_pure _ _ ⟨Or.inl rfl, fun _ _ => rfl⟩
  | node l r e τ ihl ihr =>
    intro s hs
    simp only [size] at hs
    unfold climb
    by_cases h : s < l.size
    · simp only [h, if_true]
      refine Dist.all_bind (fun res => ((res.val = s ∨ res.val ∈ (visited l s).1) ∧
          (∀ c, res = .top c → (visited l s).2.1 = true)) ∧ res.val < l.size) _ _ _
        (fun x hx => And.intro (ihl s h x hx) (climb_lt l s h x hx)) ?_
      rintro res ⟨⟨hmem, htop⟩, hlt⟩
      have memNode : ∀ k, (k = s ∨ k ∈ (visited l s).1) → (k = s ∨ k ∈ (visited (node l r e τ) s).1) := by
        intro k hk
        rcases hk with hk | hk
        · exact Or.inl hk
        · right
          unfold visited
          simp only [h, if_true]
          split
          · exact hk
          · split
            · exact hk
            · exact List.mem_append.2 (Or.inl hk)
      cases res with
      | stopped c =>
        exact Dist.all_pure _ _ ⟨memNode c hmem, fun _ hc => by cases hc⟩
      | top c =>
        have hgo : (visited l s).2.1 = true := htop c rfl
        unfold stepUp
        simp only [if_true]
        by_cases ht : l.termFlag = true
        · simp only [ht, if_true]
          exact Dist.all_pure _ _ ⟨memNode c hmem, fun _ hc => by cases hc⟩
        · simp only [ht, Bool.false_eq_true, if_false]
          by_cases hb : (e && r.valid) = true
          · simp only [hb, Bool.not_true, Bool.false_eq_true, if_false]
            have hbok : (buildVisit true r e).2 = .ok := by
              simp only [Bool.and_eq_true] at hb
              exact (buildVisit_ok_iff true r e).2 hb
            have flag : (visited (node l r e τ) s).2.1 = true := by
              unfold visited
              simp only [h, if_true, hgo, Bool.not_true, Bool.false_eq_true, if_false, ht, hbok,
                decide_true]
            refine Dist.all_bind (fun _ => True) _ _ _ (Dist.all_true _) ?_
            intro acc _
            split
            · refine Dist.all_map _ _ _ _ (propose_lt true r) ?_
              intro k hk
              refine ⟨Or.inr ?_, fun _ _ => flag⟩
              simp only [if_true, Res.val]
              unfold visited
              simp only [h, if_true, hgo, Bool.not_true, Bool.false_eq_true, if_false, ht]
              refine List.mem_append.2 (Or.inr ?_)
              simp only [List.mem_map]
              simp only [Bool.and_eq_true] at hb
              obtain ⟨he, hrv⟩ := hb
              subst he
              exact ⟨k, buildVisit_valid_all true r hrv k hk, rfl⟩
            · exact Dist.all_pure _ _ ⟨memNode c hmem, fun _ _ => flag⟩
          · simp only [hb, Bool.not_false, if_true]
            exact Dist.all_pure _ _ ⟨memNode c hmem, fun _ hc => by cases hc⟩
    · simp only [h, if_false]
      have hs' : s - l.size < r.size := by omega
      refine Dist.all_bind (fun res => ((res.val = s - l.size ∨ res.val ∈ (visited r (s - l.size)).1) ∧
          (∀ c, res = .top c → (visited r (s - l.size)).2.1 = true)) ∧ res.val < r.size) _ _ _
        (fun x hx => And.intro (ihr _ hs' x hx) (climb_lt r _ hs' x hx)) ?_
      rintro res ⟨⟨hmem, htop⟩, hlt⟩
      have memNode : ∀ k, (k = s - l.size ∨ k ∈ (visited r (s - l.size)).1) →
          (k + l.size = s ∨ k + l.size ∈ (visited (node l r e τ) s).1) := by
        intro k hk
        rcases hk with hk | hk
        · left; omega
        · right
          have hk' : k + l.size ∈ (visited r (s - l.size)).1.map (· + l.size) :=
            List.mem_map.2 ⟨k, hk, rfl⟩
          unfold visited
          simp only [h, if_false]
          split
          · exact hk'
          · split
            · exact hk'
            · exact List.mem_append.2 (Or.inl hk')
      cases res with
      | stopped c =>
        exact Dist.all_pure _ _ ⟨memNode c hmem, fun _ hc => by cases hc⟩
      | top c =>
        have hgo : (visited r (s - l.size)).2.1 = true := htop c rfl
        unfold stepUp
        simp only [Bool.false_eq_true, if_false]
        by_cases ht : r.termFlag = true
        · simp only [ht, if_true]
          exact Dist.all_pure _ _ ⟨memNode c hmem, fun _ hc => by cases hc⟩
        · simp only [ht, Bool.false_eq_true, if_false]
          by_cases hb : (e && l.valid) = true
          · simp only [hb, Bool.not_true, Bool.false_eq_true, if_false]
            have hbok : (buildVisit false l e).2 = .ok := by
              simp only [Bool.and_eq_true] at hb
              exact (buildVisit_ok_iff false l e).2 hb
            have flag : (visited (node l r e τ) s).2.1 = true := by
              unfold visited
              simp only [h, if_false, hgo, Bool.not_true, Bool.false_eq_true, ht, hbok,
                decide_true]
            refine Dist.all_bind (fun _ => True) _ _ _ (Dist.all_true _) ?_
            intro acc _
            split
            · refine Dist.all_map _ _ _ _ (propose_lt false l) ?_
              intro k hk
              refine ⟨Or.inr ?_, fun _ _ => flag⟩
              simp only [Bool.false_eq_true, if_false, Res.val]
              unfold visited
              simp only [h, if_false, hgo, Bool.not_true, Bool.false_eq_true, ht]
              refine List.mem_append.2 (Or.inr ?_)
              simp only [Bool.and_eq_true] at hb
              obtain ⟨he, hlv⟩ := hb
              subst he
              exact buildVisit_valid_all false l hlv k hk
            · exact Dist.all_pure _ _ ⟨memNode c hmem, fun _ _ => flag⟩
          · simp only [hb, Bool.not_false, if_true]
            exact Dist.all_pure _ _ ⟨memNode c hmem, fun _ hc => by cases hc⟩

/-- In a tree without any failure or termination strictly inside (`good`), every other leaf is
visited: flag "still going", `size - 1` visited leaves, no error. -/
theorem visited_good (t : TTree K) (hg : t.good = true) : ∀ start, start < t.size →
    (visited t start).2.1 = true ∧ (visited t start).1.length = t.size - 1 ∧
      (visited t start).2.2.2 = false := by
  induction t with
  | leaf w ok => intro s _; simp [visited, size]
  | node l r e τ ihl ihr =>
    intro s hs
    simp only [size] at hs
    simp only [good, Bool.and_eq_true] at hg
    obtain ⟨⟨hl, hr⟩, he⟩ := hg
    subst he
    have hlg : l.good = true ∧ l.termFlag = false := by
      have := valid_eq l; rw [hl] at this
      simpa using this.symm
    have hrg : r.good = true ∧ r.termFlag = false := by
      have := valid_eq r; rw [hr] at this
      simpa using this.symm
    unfold visited
    by_cases h : s < l.size
    · obtain ⟨a, b, c⟩ := ihl hlg.1 s h
      have okr : (buildVisit true r true).2 = .ok := (buildVisit_ok_iff true r true).2 ⟨rfl, hr⟩
      have := size_pos l
      simp only [h, if_true, a, Bool.not_true, Bool.false_eq_true, if_false, hlg.2, okr,
        decide_true, List.length_append, List.length_map, b, buildVisit_valid_length true r hr,
        size, true_and]
      refine ⟨by omega, by simp⟩
    · have hs' : s - l.size < r.size := by omega
      obtain ⟨a, b, c⟩ := ihr hrg.1 _ hs'
      have okl : (buildVisit false l true).2 = .ok := (buildVisit_ok_iff false l true).2 ⟨rfl, hl⟩
      have := size_pos r
      simp only [h, if_false, a, Bool.not_true, Bool.false_eq_true, hrg.2, okl,
        decide_true, List.length_append, List.length_map, b, buildVisit_valid_length false l hl,
        size, true_and]
      refine ⟨by omega, by simp⟩

end MiciVerif.Transitions
