/-
Helper lemmas for C09 (transparency of the state cache): the heap invariant and its
preservation by every operation of `MiciVerif.Cache.step`.
-/
import MiciVerif.Model.Cache

namespace MiciVerif.Cache

/-! ### variable sets and provenance -/

theorem VarSet.mem_union (a b : VarSet) (x : Var) : (a.union b).mem x = (a.mem x || b.mem x) := by
  cases x <;> rfl

theorem VarSet.subset_mem {a b : VarSet} (h : a.subset b = true) {x : Var} (hx : a.mem x = true) :
    b.mem x = true := by
  rcases a with ⟨a1, a2, a3⟩; rcases b with ⟨b1, b2, b3⟩
  cases x <;> simp_all [VarSet.subset, VarSet.mem]

theorem VarSet.eq_of_beq {a b : VarSet} (h : (a == b) = true) : a = b := by
  simpa using h

theorem Prov3.ofSet_join (a b : VarSet) (st : Var → Nat) :
    (Prov3.ofSet a st).join (Prov3.ofSet b st) = Prov3.ofSet (a.union b) st := by
  rcases a with ⟨a1, a2, a3⟩; rcases b with ⟨b1, b2, b3⟩
  cases a1 <;> cases a2 <;> cases a3 <;> cases b1 <;> cases b2 <;> cases b3 <;>
    simp [Prov3.ofSet, Prov3.join, Prov.join, VarSet.union]

theorem Prov3.ofSet_upd (s : VarSet) (st : Var → Nat) (x : Var) (n : Nat) (hx : s.mem x = false) :
    Prov3.ofSet s (upd st x n) = Prov3.ofSet s st := by
  rcases s with ⟨s1, s2, s3⟩
  cases x <;> simp_all [Prov3.ofSet, upd, VarSet.mem]

theorem Prov3.ofSet_congr (s : VarSet) (st st' : Var → Nat) (h : ∀ x, s.mem x = true → st' x = st x) :
    Prov3.ofSet s st' = Prov3.ofSet s st := by
  rcases s with ⟨s1, s2, s3⟩
  have h1 := h .pos; have h2 := h .mom; have h3 := h .dir
  cases s1 <;> cases s2 <;> cases s3 <;> simp_all [Prov3.ofSet, VarSet.mem]

/-! ### table lookups -/

theorem lookup_some {tbl : Table} {cls m : Nat} {e : Entry} (h : lookup tbl cls m = some e) :
    e ∈ tbl ∧ e.cls = cls ∧ e.meth = m := by
  unfold lookup at h
  have h1 := List.mem_of_find?_eq_some h
  have h2 := List.find?_some h
  simp only [Bool.and_eq_true, beq_iff_eq] at h2
  exact ⟨h1, h2.1, h2.2⟩

/-- What `DepsSound` gives for one entry, as propositions. -/
structure EntryFacts (tbl : Table) (e : Entry) : Prop where
  calls : ∀ c ∈ e.calls, ∃ ec, lookup tbl e.cls c = some ec ∧ ec.rank < e.rank
  deps : e.trueDeps = closeDeps tbl e
  sub : e.cached = true → e.trueDeps.subset e.declared = true
  aux : e.cached = true → ∀ a ∈ e.aux, ∀ ea, lookup tbl e.cls a = some ea → ea.cached = true →
    ea.trueDeps = e.trueDeps

theorem entryFacts_of_ok {tbl : Table} {e : Entry} (h : entryOk tbl e = true) : EntryFacts tbl e := by
  unfold entryOk at h
  simp only [Bool.and_eq_true] at h
  obtain ⟨⟨⟨⟨⟨⟨_, _⟩, hcalls⟩, hdeps⟩, _⟩, _⟩, hc⟩ := h
  refine ⟨?_, ?_, ?_, ?_⟩
  · intro c hc'
    have := (List.all_eq_true.mp hcalls) c hc'
    cases hl : lookup tbl e.cls c with
    | none => simp [hl] at this
    | some ec => simp [hl] at this; exact ⟨ec, rfl, this⟩
  · exact VarSet.eq_of_beq hdeps
  · intro hcached
    simp only [hcached, Bool.not_true, Bool.false_or, Bool.and_eq_true] at hc
    exact hc.1.1
  · intro hcached a ha ea hl hea
    simp only [hcached, Bool.not_true, Bool.false_or, Bool.and_eq_true] at hc
    have := (List.all_eq_true.mp hc.2) a ha
    simp only [hl, hea, Bool.not_true, Bool.false_or] at this
    exact VarSet.eq_of_beq this

theorem facts_of_sound {tbl : Table} (hs : DepsSound tbl) {cls m : Nat} {e : Entry}
    (h : lookup tbl cls m = some e) : EntryFacts tbl e :=
  entryFacts_of_ok ((List.all_eq_true.mp hs) e (lookup_some h).1)

/-! ### the invariant -/

def keyEntry (tbl : Table) (cfg : Cfg) (k : Key) : Option Entry := lookup tbl (cfg.clsOf k.sys) k.meth

structure Inv (tbl : Table) (cfg : Cfg) (h : Heap) : Prop where
  cellBound : ∀ i, (h.st i).cell < h.nCells
  /-- a cached method's key registered anywhere in a `_dependencies` dict is registered there
  under all of its true dependencies -/
  cellClosed : ∀ c x k e, h.cells c x k = true → keyEntry tbl cfg k = some e → e.cached = true →
    ∀ y, e.trueDeps.mem y = true → h.cells c y k = true
  /-- key present in a state's cache (even with value None) ⇒ registered in the state's dict -/
  present : ∀ i k e, (h.st i).cache k ≠ none → keyEntry tbl cfg k = some e → e.cached = true →
    ∀ y, e.trueDeps.mem y = true → h.cells (h.st i).cell y k = true
  /-- a cached value is the from-scratch value on the state's current variables -/
  good : ∀ i k v e, (h.st i).cache k = some (some v) → keyEntry tbl cfg k = some e → e.cached = true →
    v.prov = Prov3.ofSet e.trueDeps (h.st i).stamp

structure Frame (h h' : Heap) : Prop where
  nSt : h'.nSt = h.nSt
  nCells : h'.nCells = h.nCells
  stamp : ∀ i, (h'.st i).stamp = (h.st i).stamp
  cell : ∀ i, (h'.st i).cell = (h.st i).cell
  cellsMono : ∀ c x k, h.cells c x k = true → h'.cells c x k = true
  ro : ∀ i, (h'.st i).readOnly = (h.st i).readOnly
  frozen : ∀ i, (h'.st i).frozen = (h.st i).frozen

theorem Frame.refl (h : Heap) : Frame h h :=
  ⟨rfl, rfl, fun _ => rfl, fun _ => rfl, fun _ _ _ hh => hh, fun _ => rfl, fun _ => rfl⟩

theorem Frame.trans {a b c : Heap} (h1 : Frame a b) (h2 : Frame b c) : Frame a c :=
  ⟨h2.nSt.trans h1.nSt, h2.nCells.trans h1.nCells, fun i => (h2.stamp i).trans (h1.stamp i),
   fun i => (h2.cell i).trans (h1.cell i), fun c x k hh => h2.cellsMono c x k (h1.cellsMono c x k hh),
   fun i => (h2.ro i).trans (h1.ro i), fun i => (h2.frozen i).trans (h1.frozen i)⟩

theorem inv_init (tbl : Table) (cfg : Cfg) : Inv tbl cfg Heap.init := by
  refine ⟨?_, ?_, ?_, ?_⟩
  · intro i; simp only [Heap.init]; split <;> simp [St.empty]
  · intro c x k e h; simp [Heap.init] at h
  · intro i k e h; exfalso; apply h; simp only [Heap.init]; split <;> simp [St.empty]
  · intro i k v e h; exfalso; simp only [Heap.init] at h; split at h <;> simp [St.empty] at h

/-! ### calls -/

/-- specification of a (nested) call used while reasoning about a body -/
def CallOK (tbl : Table) (cfg : Cfg) (sid sys : Nat) (call : Heap → Nat → Res) (c : Nat) : Prop :=
  ∀ h, Inv tbl cfg h → ∃ ec, lookup tbl (cfg.clsOf sys) c = some ec ∧
    Inv tbl cfg (call h c).h ∧ Frame h (call h c).h ∧
    (call h c).v.prov = Prov3.ofSet ec.trueDeps (h.st sid).stamp

theorem runCalls_spec (tbl : Table) (cfg : Cfg) (sid sys : Nat) (call : Heap → Nat → Res) :
    ∀ (cs : List Nat) (h : Heap) (acc : VarSet),
      Inv tbl cfg h → (∀ c ∈ cs, CallOK tbl cfg sid sys call c) →
      Inv tbl cfg (runCalls call h (Prov3.ofSet acc (h.st sid).stamp) cs).1 ∧
      Frame h (runCalls call h (Prov3.ofSet acc (h.st sid).stamp) cs).1 ∧
      (runCalls call h (Prov3.ofSet acc (h.st sid).stamp) cs).2.1 =
        Prov3.ofSet (cs.foldl (fun a c => a.union (depsOf tbl (cfg.clsOf sys) c)) acc) (h.st sid).stamp := by
  intro cs
  induction cs with
  | nil => intro h acc hi _; exact ⟨hi, Frame.refl h, rfl⟩
  | cons c cs ih =>
    intro h acc hi hcs
    obtain ⟨ec, hl, hinv, hfr, hprov⟩ := hcs c (List.mem_cons_self) h hi
    have hst : ((call h c).h.st sid).stamp = (h.st sid).stamp := hfr.stamp sid
    have hd : depsOf tbl (cfg.clsOf sys) c = ec.trueDeps := by simp [depsOf, hl]
    have hj : (Prov3.ofSet acc (h.st sid).stamp).join (call h c).v.prov
        = Prov3.ofSet (acc.union (depsOf tbl (cfg.clsOf sys) c)) ((call h c).h.st sid).stamp := by
      rw [hprov, hd, hst, Prov3.ofSet_join]
    have := ih (call h c).h (acc.union (depsOf tbl (cfg.clsOf sys) c)) hinv
      (fun c' hc' => hcs c' (List.mem_cons_of_mem _ hc'))
    simp only [runCalls, List.foldl_cons]
    rw [hj]
    refine ⟨this.1, hfr.trans this.2.1, ?_⟩
    rw [this.2.2, hst]

theorem bodyM_spec (tbl : Table) (cfg : Cfg) (hs : DepsSound tbl) (sid sys : Nat)
    (call : Heap → Nat → Res) (e : Entry) (m : Nat) (hl : lookup tbl (cfg.clsOf sys) m = some e)
    (hcalls : ∀ c ∈ e.calls, CallOK tbl cfg sid sys call c) (h : Heap) (hi : Inv tbl cfg h) :
    Inv tbl cfg (bodyM cfg call e sid sys h).h ∧ Frame h (bodyM cfg call e sid sys h).h ∧
    (bodyM cfg call e sid sys h).v.prov = Prov3.ofSet e.trueDeps (h.st sid).stamp := by
  have hf := facts_of_sound hs hl
  have hcls : e.cls = cfg.clsOf sys := (lookup_some hl).2.1
  have := runCalls_spec tbl cfg sid sys call e.calls h e.reads hi hcalls
  refine ⟨this.1, this.2.1, ?_⟩
  simp only [bodyM]
  rw [this.2.2, hf.deps, closeDeps, hcls]

/-- registering keys keeps the invariant, provided every registered key that belongs to a cached
table entry has its true dependencies among the declared ones -/
theorem inv_register (tbl : Table) (cfg : Cfg) (h : Heap) (sid : Nat) (keys : List Key) (declared : VarSet)
    (hi : Inv tbl cfg h)
    (hk : ∀ k ∈ keys, ∀ e, keyEntry tbl cfg k = some e → e.cached = true → e.trueDeps.subset declared = true) :
    Inv tbl cfg (register h sid keys declared) ∧ Frame h (register h sid keys declared) := by
  refine ⟨⟨hi.cellBound, ?_, ?_, hi.good⟩, ⟨rfl, rfl, fun _ => rfl, fun _ => rfl, ?_, fun _ => rfl, fun _ => rfl⟩⟩
  · intro c x k e hc hke hce y hy
    simp only [register, Bool.or_eq_true, Bool.and_eq_true, decide_eq_true_eq] at hc ⊢
    rcases hc with hc | ⟨⟨⟨hcc, _⟩, hkk⟩, hnone⟩
    · exact Or.inl (hi.cellClosed c x k e hc hke hce y hy)
    · right
      have hkm : k ∈ keys := by simpa using hkk
      exact ⟨⟨⟨hcc, VarSet.subset_mem (hk k hkm e hke hce) hy⟩, hkk⟩, hnone⟩
  · intro i k e hp hke hce y hy
    simp only [register, Bool.or_eq_true]
    exact Or.inl (hi.present i k e hp hke hce y hy)
  · intro c x k hc
    simp only [register, Bool.or_eq_true]
    exact Or.inl hc

theorem register_registered (h : Heap) (sid : Nat) (keys : List Key) (declared : VarSet) (k : Key)
    (hk : k ∈ keys) (hnone : (h.st sid).cache k = none) (y : Var) (hy : declared.mem y = true) :
    (register h sid keys declared).cells (h.st sid).cell y k = true := by
  simp [register, hy, hnone]; exact Or.inr hk

theorem wrapM_spec (tbl : Table) (cfg : Cfg) (hs : DepsSound tbl) (sid sys : Nat)
    (call : Heap → Nat → Res) (e : Entry) (m : Nat) (hl : lookup tbl (cfg.clsOf sys) m = some e)
    (hcached : e.cached = true)
    (hcalls : ∀ c ∈ e.calls, CallOK tbl cfg sid sys call c) (h : Heap) (hi : Inv tbl cfg h) :
    Inv tbl cfg (wrapM cfg call e sid sys h).h ∧ Frame h (wrapM cfg call e sid sys h).h ∧
    (wrapM cfg call e sid sys h).v.prov = Prov3.ofSet e.trueDeps (h.st sid).stamp := by
  have hf := facts_of_sound hs hl
  obtain ⟨_, hcls, hmeth⟩ := lookup_some hl
  have hke : keyEntry tbl cfg ⟨sys, e.meth⟩ = some e := by simp [keyEntry, hmeth, hl]
  -- facts about the registered keys
  have hkeys : ∀ k ∈ (if e.withAux then (⟨sys, e.meth⟩ : Key) :: e.aux.map (Key.mk sys) else [⟨sys, e.meth⟩]),
      ∀ e', keyEntry tbl cfg k = some e' → e'.cached = true → e'.trueDeps.subset e.declared = true := by
    intro k hk e' hke' hce'
    have hk' : k = ⟨sys, e.meth⟩ ∨ ∃ a ∈ e.aux, k = ⟨sys, a⟩ := by
      split at hk
      · rcases List.mem_cons.mp hk with h1 | h1
        · exact Or.inl h1
        · obtain ⟨a, ha, rfl⟩ := List.mem_map.mp h1; exact Or.inr ⟨a, ha, rfl⟩
      · exact Or.inl (by simpa using hk)
    rcases hk' with rfl | ⟨a, ha, rfl⟩
    · rw [hke] at hke'; cases hke'; exact hf.sub hcached
    · have : lookup tbl e.cls a = some e' := by simpa [keyEntry, hcls] using hke'
      rw [hf.aux hcached a ha e' this hce']; exact hf.sub hcached
  obtain ⟨hi1, hfr1⟩ := inv_register tbl cfg h sid _ e.declared hi hkeys
  simp only [wrapM]
  generalize hh1 : register h sid (if e.withAux then (⟨sys, e.meth⟩ : Key) :: e.aux.map (Key.mk sys) else [⟨sys, e.meth⟩]) e.declared = h1 at hi1 hfr1
  -- every key of the wrapper is registered under the true dependencies of its entry
  have hreg : ∀ k ∈ (if e.withAux then (⟨sys, e.meth⟩ : Key) :: e.aux.map (Key.mk sys) else [⟨sys, e.meth⟩]),
      ∀ e', keyEntry tbl cfg k = some e' → e'.cached = true → ∀ y, e'.trueDeps.mem y = true →
        h1.cells (h.st sid).cell y k = true := by
    intro k hk e' hke' hce' y hy
    cases hc : (h.st sid).cache k with
    | none =>
      rw [← hh1]
      exact register_registered h sid _ e.declared k hk hc y (VarSet.subset_mem (hkeys k hk e' hke' hce') hy)
    | some o =>
      exact hfr1.cellsMono _ _ _ (hi.present sid k e' (by simp [hc]) hke' hce' y hy)
  have hst1 : (h1.st sid).stamp = (h.st sid).stamp := hfr1.stamp sid
  split
  · -- hit
    rename_i v hv
    exact ⟨hi1, hfr1, by rw [hi1.good sid _ v e hv hke hcached, hst1]⟩
  · -- miss
    obtain ⟨hi2, hfr2, hp2⟩ := bodyM_spec tbl cfg hs sid sys call e m hl hcalls h1 hi1
    generalize bodyM cfg call e sid sys h1 = r at hi2 hfr2 hp2
    have hfr : Frame h r.h := hfr1.trans hfr2
    refine ⟨?_, ?_, by rw [hp2, hst1]⟩
    · refine ⟨?_, hi2.cellClosed, ?_, ?_⟩
      · intro i; simp only [setSt]; split
        · simp only [store]; exact hi2.cellBound i
        · exact hi2.cellBound i
      · intro i k e' hp hke' hce' y hy
        simp only [setSt] at hp ⊢
        split at hp
        · rename_i hisid
          subst hisid
          simp only [if_true, store] at hp ⊢
          have hcell : (r.h.st i).cell = (h.st i).cell := hfr.cell i
          by_cases hk1 : k = ⟨sys, e.meth⟩
          · rw [hcell]; apply hfr2.cellsMono
            exact hreg k (by rw [hk1]; split <;> simp) e' hke' hce' y hy
          · simp only [hk1, if_false] at hp
            by_cases hk2 : ((List.take (if e.withAux then cfg.auxRet sys e.meth else 0) e.aux).map (Key.mk sys)).contains k = true
            · rw [hcell]; apply hfr2.cellsMono
              have hkm : k ∈ (List.take (if e.withAux then cfg.auxRet sys e.meth else 0) e.aux).map (Key.mk sys) := by
                simpa using hk2
              obtain ⟨a, ha, rfl⟩ := List.mem_map.mp hkm
              have hwa : e.withAux = true := by
                cases hne : e.withAux with
                | true => rfl
                | false => simp [hne] at ha
              have ha' : a ∈ e.aux := List.mem_of_mem_take ha
              exact hreg ⟨sys, a⟩ (by simp [hwa, ha']) e' hke' hce' y hy
            · simp only [hk2] at hp
              exact hi2.present i k e' hp hke' hce' y hy
        · rename_i hisid
          simp only [hisid, if_false]
          exact hi2.present i k e' hp hke' hce' y hy
      · intro i k v e' hv hke' hce'
        simp only [setSt] at hv ⊢
        split at hv
        · rename_i hisid
          subst hisid
          simp only [if_true, store] at hv ⊢
          have hstamp : (r.h.st i).stamp = (h1.st i).stamp := hfr2.stamp i
          by_cases hk1 : k = ⟨sys, e.meth⟩
          · simp only [hk1, if_true, Option.some.injEq] at hv
            subst hv
            rw [hk1, hke] at hke'; cases hke'
            rw [hp2, hstamp]
          · simp only [hk1, if_false] at hv
            by_cases hk2 : ((List.take (if e.withAux then cfg.auxRet sys e.meth else 0) e.aux).map (Key.mk sys)).contains k = true
            · simp only [hk2, if_true, Option.some.injEq] at hv
              subst hv
              have hkm : k ∈ (List.take (if e.withAux then cfg.auxRet sys e.meth else 0) e.aux).map (Key.mk sys) := by
                simpa using hk2
              obtain ⟨a, ha, rfl⟩ := List.mem_map.mp hkm
              have ha' : a ∈ e.aux := List.mem_of_mem_take ha
              have : lookup tbl e.cls a = some e' := by simpa [keyEntry, hcls] using hke'
              simp only
              rw [hp2, hstamp, hf.aux hcached a ha' e' this hce']
            · simp only [hk2] at hv
              exact hi2.good i k v e' hv hke' hce'
        · rename_i hisid
          simp only [hisid, if_false]
          exact hi2.good i k v e' hv hke' hce'
    · refine ⟨hfr.nSt, hfr.nCells, ?_, ?_, hfr.cellsMono, ?_, ?_⟩
      · intro i; simp only [setSt]; split
        · simp only [store]; exact hfr.stamp i
        · exact hfr.stamp i
      · intro i; simp only [setSt]; split
        · simp only [store]; exact hfr.cell i
        · exact hfr.cell i
      · intro i; simp only [setSt]; split
        · simp only [store]; exact hfr.ro i
        · exact hfr.ro i
      · intro i; simp only [setSt]; split
        · simp only [store]; exact hfr.frozen i
        · exact hfr.frozen i

/-- **Correctness of a call**: on a heap satisfying the invariant, with enough fuel for the
method's depth in the call graph, a call keeps the invariant and returns the from-scratch value. -/
theorem callM_spec (tbl : Table) (cfg : Cfg) (hs : DepsSound tbl) (sid sys : Nat) :
    ∀ (fuel : Nat) (m : Nat) (e : Entry), lookup tbl (cfg.clsOf sys) m = some e → e.rank < fuel →
      ∀ h, Inv tbl cfg h →
        Inv tbl cfg (callM tbl cfg fuel h sid sys m).h ∧ Frame h (callM tbl cfg fuel h sid sys m).h ∧
        (callM tbl cfg fuel h sid sys m).v.prov = Prov3.ofSet e.trueDeps (h.st sid).stamp := by
  intro fuel
  induction fuel with
  | zero => intro m e _ hr; omega
  | succ fuel ih =>
    intro m e hl hr h hi
    have hf := facts_of_sound hs hl
    have hcls : e.cls = cfg.clsOf sys := (lookup_some hl).2.1
    have hcalls : ∀ c ∈ e.calls, CallOK tbl cfg sid sys (fun h c => callM tbl cfg fuel h sid sys c) c := by
      intro c hc h' hi'
      obtain ⟨ec, hlc, hrc⟩ := hf.calls c hc
      rw [hcls] at hlc
      exact ⟨ec, hlc, ih c ec hlc (by omega) h' hi'⟩
    simp only [callM, hl]
    by_cases hcached : e.cached = true
    · simp only [hcached, if_true]
      exact wrapM_spec tbl cfg hs sid sys _ e m hl hcached hcalls h hi
    · simp only [hcached]
      exact bodyM_spec tbl cfg hs sid sys _ e m hl hcalls h hi

end MiciVerif.Cache
